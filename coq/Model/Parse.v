(* Hand model (tie B, pinned by the source fingerprint of parse_stim_circuit) of tsim/core/parse.py:
   a flattened Stim circuit (list of instructions with typed targets) -> the lane program the parser draws,
   by dispatching through the regenerated gate functions (gen/Gen_instructions.apply_gate), plus the
   detector / observable annotation lists.  `None` = the real parser raises.  No proofs in this file.

   Conventions: qubits are lanes 0..n-2 and lane n-1 is reserved for the MPP auxiliary lane (-2 in the source);
   rec[-k] is TRec k; record-controlled gates receive the ABSOLUTE record index in control position. *)
From Coq Require Import ZArith QArith Qround List Bool String.
Import ListNotations.
Require Import TV.Base.EP TV.Model.Lane TV.gen.Gen_instructions TV.gen.Gen_channel_tables TV.Model.GateCheck TV.Model.InstrCheck.

Inductive target :=
  | TQ (q : nat) (inv : bool)
  | TRec (k : nat)
  | TPauli (P : pauli) (q : nat) (inv : bool)
  | TComb
  | TSweep (k : nat).
Inductive tagv :=
  | TagNone
  | TagT                                   (* S[T] / S_DAG[T] *)
  | TagRot (g : string) (angles : list expo) (* I[R_Z(theta=..*pi)] etc.; angles in the order theta, phi, lambda *)
  | TagOther.                              (* any other tag: ignored by the parser *)
Record instr := mkI { iname : string; iargs : list Q; itag : tagv; itargets : list target }.

Record pstate := mkPS {
  pops : list (op nat);
  pnmeas : nat;
  pdets : list (list nat);                 (* absolute record indices of each detector, in declaration order *)
  pobs : list (nat * list nat)             (* (observable index, absolute record indices) per OBSERVABLE_INCLUDE *)
}.
Definition emit (s : pstate) (ops : list (op nat)) : pstate :=
  let new := List.length (filter (fun o => match o with OMeas _ _ false _ => true | _ => false end) ops) in
  mkPS (pops s ++ ops) (pnmeas s + new) (pdets s) (pobs s).

Definition skipped : list string := ["QUBIT_COORDS"%string; "SHIFT_COORDS"%string; "I_ERROR"%string].
Definition mem_str (x : string) (l : list string) : bool := existsb (String.eqb x) l.

(* plain qubit value of a target as the generic dispatch reads it (t.value); record targets give the absolute index *)
Definition tvalue (nmeas : nat) (t : target) : option nat :=
  match t with
  | TQ q _ => Some q
  | TRec k => if (Nat.leb 1 k && Nat.leb k nmeas)%bool then Some (nmeas - k)%nat else None
  | _ => None
  end.
Definition tinv (t : target) : bool := match t with TQ _ i => i | TPauli _ _ i => i | _ => false end.
Definition trec (t : target) : bool := match t with TRec _ => true | _ => false end.
Fixpoint all_some {A} (l : list (option A)) : option (list A) :=
  match l with [] => Some [] | None :: _ => None | Some x :: r => match all_some r with Some r' => Some (x :: r') | None => None end end.

(* chunks of `arity` targets; a short last chunk makes the real call fail (missing positional argument) *)
Fixpoint chunks_fuel {A} (fuel ar : nat) (l : list A) : option (list (list A)) :=
  match fuel with
  | O => None
  | S f => match l with
           | [] => Some []
           | _ => if Nat.ltb (List.length l) ar then None
                  else match chunks_fuel f ar (skipn ar l) with Some r => Some (firstn ar l :: r) | None => None end
           end
  end.

Definition dispatch_chunk (fn : string) (args : list Q) (s : pstate) (chunk : list target) : option pstate :=
  match chunk with
  | [] => None
  | t0 :: _ =>
      let inv := tinv t0 in
      let ccs := map trec chunk in
      let anycc := existsb (fun b => b) ccs in
      if (inv && trec t0)%bool then None else
      match all_some (map (tvalue (pnmeas s)) chunk) with
      | None => None
      | Some qs =>
          let cc := if inv then None else if anycc then match ccs with [a; b] => Some (a, b) | _ => None end else None in
          if (negb inv && anycc && match cc with None => true | _ => false end)%bool then None else
          match apply_gate fn qs args inv cc with
          | Some ops => Some (emit s ops)
          | None => None
          end
      end
  end.

(* the generic dispatch loop: `for i_target in range(0, len(targets), num_qubits)` *)
Definition dispatch_targets (fn : string) (ar : nat) (args : list Q) (s : pstate) (ts : list target) : option pstate :=
  if existsb (fun t => match t with TSweep _ => true | _ => false end) ts then None else
  match chunks_fuel (S (List.length ts)) ar ts with
  | None => None
  | Some chs => fold_left (fun acc ch => match acc with Some st => dispatch_chunk fn args st ch | None => None end) chs (Some s)
  end.

(* MPP: products separated by non-combiner boundaries; inversions XOR-ed *)
Fixpoint mpp_products_of (ts : list target) (cur : list (pauli * nat)) (inv : bool) : option (list (list (pauli * nat) * bool)) :=
  match ts with
  | [] => match cur with [] => Some [] | _ => None end
  | TComb :: r => mpp_products_of r cur inv
  | TPauli P q i :: r =>
      let cur' := cur ++ [(P, q)] in
      let inv' := xorb inv i in
      match r with
      | TComb :: _ => mpp_products_of r cur' inv'
      | _ => match mpp_products_of r [] false with Some l => Some ((cur', inv') :: l) | None => None end
      end
  | _ => None
  end.

Definition rot_ops (g : string) (angles : list expo) (q : nat) : option (list (op nat)) :=
  match g, angles with
  | "R_Z"%string, [th] => Some (g_r_z q th)
  | "R_X"%string, [th] => Some (g_r_x q th)
  | "R_Y"%string, [th] => Some (g_r_y q th)
  | "U3"%string, [th; ph; la] => Some (g_u3 q th ph la)
  | _, _ => None
  end.

Definition step_instr (aux : nat) (s : pstate) (i : instr) : option pstate :=
  let name := iname i in
  if mem_str name skipped then Some s else
  let name := match name, itag i with "S"%string, TagT => "T"%string | "S_DAG"%string, TagT => "T_DAG"%string | n, _ => n end in
  match name, itag i with
  | "I"%string, TagRot g angles =>
      fold_left (fun acc t => match acc, t with
                              | Some st, TQ q _ => match rot_ops g angles q with Some ops => Some (emit st ops) | None => None end
                              | _, _ => None end) (itargets i) (Some s)
  | _, _ =>
  if String.eqb name "TICK"%string then Some s
  else if String.eqb name "MPP"%string then
    let p := match iargs i with a :: _ => a | [] => 0%Q end in
    match mpp_products_of (itargets i) [] false with
    | Some prods => Some (fold_left (fun st pr => emit st (g_mpp aux (fst pr) (snd pr) p)) prods s)
    | None => None
    end
  else if (String.eqb name "E"%string || String.eqb name "ELSE_CORRELATED_ERROR"%string)%bool then
    let s1 := if String.eqb name "E"%string then emit s [OFinalize] else s in
    match all_some (map (fun t => match t with TPauli P q _ => Some (P, q) | _ => None end) (itargets i)), iargs i with
    | Some pq, p :: _ => Some (emit s1 (g_correlated_error (map snd pq) (map fst pq) p))
    | _, _ => None
    end
  else if String.eqb name "DETECTOR"%string then
    match all_some (map (fun t => match t with TRec k => tvalue (pnmeas s) (TRec k) | _ => None end) (itargets i)) with
    | Some recs => match recs with
                   | [] => None      (* min() of an empty row set raises *)
                   | _ => Some (mkPS (pops s) (pnmeas s) (pdets s ++ [recs]) (pobs s))
                   end
    | None => None
    end
  else if String.eqb name "OBSERVABLE_INCLUDE"%string then
    match all_some (map (fun t => match t with TRec k => tvalue (pnmeas s) (TRec k) | _ => None end) (itargets i)), iargs i with
    | Some recs, a :: _ =>
        let idx := Z.to_nat (Qfloor a) in
        if (match recs with [] => true | _ => false end && negb (existsb (fun kv => Nat.eqb (fst kv) idx) (pobs s)))%bool then None
        else Some (mkPS (pops s) (pnmeas s) (pdets s) (pobs s ++ [(idx, recs)]))
    | _, _ => None
    end
  else
    match assoc name gate_table with
    | None => None                                   (* Unknown gate *)
    | Some (fn, ar) => dispatch_targets fn ar (iargs i) s (itargets i)
    end
  end.

(* finalize_correlated_error renames the chain bits c{i} to e{num_error_bits + i} with num_error_bits AT THE TIME OF THE
   FINALIZE (when the next E starts, or at the end of the parse): channels drawn between a chain element and that point
   take their e-bits first.  The interpreter reads a chain bit when it meets the OErr, so the builder adds to its offset the
   number of error bits created between the OErr and the next OFinalize (right-to-left pass). *)
Definition noisy_meas (p : Q) : bool := match Qcompare 0 p with Lt => true | _ => false end.
Fixpoint fix_corr (ops : list (op nat)) : list (op nat) * Z :=
  match ops with
  | [] => ([], 0%Z)
  | o :: r =>
      let '(r', acc) := fix_corr r in
      match o with
      | OFinalize => (o :: r', 0%Z)
      | OBumpErr k => (o :: r', (acc + k)%Z)
      | OMeas _ p _ _ => (o :: r', if noisy_meas p then (acc + 1)%Z else acc)
      | OErr c q rel true => (OErr c q (rel + acc)%Z true :: r', acc)
      | _ => (o :: r', acc)
      end
  end.
Definition build (aux : nat) (c : list instr) : option pstate :=
  match fold_left (fun acc i => match acc with Some st => step_instr aux st i | None => None end) c (Some (mkPS [] 0 [] [])) with
  | Some st => let st' := emit st [OFinalize] in Some (mkPS (fst (fix_corr (pops st'))) (pnmeas st') (pdets st') (pobs st'))
  | None => None
  end.

(* ---------------- exact weights of a lane program ---------------- *)
(* number of silent bits / error bits / record bits the program consumes (independent of the bit values) *)
Definition counts (n : nat) (ops : list (op nat)) : nat * nat * nat :=
  let s := run n (mkB [] [] []) ops (init_state n) in (nrec s, nsil s, nerr s).
Definition weight (n : nat) (ops : list (op nat)) (rec err : list bool) : ep :=
  let '(_, ns, _) := counts n ops in
  fold_left (fun acc sil => padd acc (norm2 (final_vec (run n (mkB rec sil err) ops (init_state n))))) (bitvecs ns) p0.
(* all weights: outer list over error assignments, inner over records (both in `bitvecs` order) *)
Definition weights (n : nat) (ops : list (op nat)) : list (list ep) :=
  let '(nr, _, ne) := counts n ops in
  map (fun err => map (fun rec => weight n ops rec err) (bitvecs nr)) (bitvecs ne).
Definition run_ok (n : nat) (ops : list (op nat)) : bool := ok (run n (mkB [] [] []) ops (init_state n)).
Definition channels_of (n : nat) (ops : list (op nat)) : list (list Q) :=
  map (fun c => match c with ChCorrelated ps => corr_table ps | _ => table_of c end)
      (chans (run n (mkB [] [] []) ops (init_state n))).

(* detector / observable parities of a record *)
Definition parity (recs : list nat) (r : list bool) : bool := fold_left (fun acc i => xorb acc (nth i r false)) recs false.
Definition num_observables (s : pstate) : nat := fold_left (fun m kv => Nat.max m (S (fst kv))) (pobs s) 0%nat.
Definition obs_targets (s : pstate) (k : nat) : list nat := flat_map (fun kv => if Nat.eqb (fst kv) k then snd kv else []) (pobs s).
(* the column layout of the detector sampler: detectors in declaration order, then observables 0..K-1 *)
Definition det_columns (s : pstate) : list (list nat) := pdets s ++ map (obs_targets s) (seq 0 (num_observables s)).
Definition det_outcome (s : pstate) (r : list bool) : list bool := map (fun recs => parity recs r) (det_columns s).
