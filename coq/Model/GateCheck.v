(* Executable comparison of the regenerated gate functions with the documented unitaries. No proofs. *)
From Coq Require Import ZArith List Bool String.
Import ListNotations.
Require Import TV.Base.EP TV.Model.Lane TV.Spec.RotGates TV.gen.Gen_instructions TV.gen.Gen_stim_gates.

Fixpoint assoc {A} (k : string) (l : list (string * A)) : option A :=
  match l with [] => None | (k', v) :: r => if String.eqb k k' then Some v else assoc k r end.
Definition canon (name : string) : string := match assoc name stim_aliases with Some c => c | None => name end.
Definition doc_of (name : string) : option (nat * list (list ep)) := assoc (canon name) stim_unitaries.

(* unit-modulus candidates for the global phase: E(k/4 + a*ta + b*tb + c*tc) *)
Definition clifford_phases : list expo := map (fun k => equarter (Z.of_nat k)) (seq 0 8).
Definition sym_range : list Z := [0; 1; -1]%Z.
Definition all_phases : list expo :=
  flat_map (fun a => flat_map (fun b => flat_map (fun c => map (fun k => mkE (Z.of_nat k) a b c) (seq 0 8)) sym_range) sym_range) sym_range.
Definition find_phase (cands : list expo) (A D : list vec) : option expo :=
  find (fun e => meq A (mscale (pE e) D)) cands.
Definition has_phase (cands : list expo) (A D : list vec) : bool :=
  match find_phase cands A D with Some _ => true | None => false end.

(* exchange the two qubits of a 4x4 matrix given as columns (index = q0 + 2 q1) *)
Definition sw2 (i : nat) : nat := match i with 1 => 2 | 2 => 1 | _ => i end%nat.
Definition swap_qubits (D : list vec) : list vec :=
  map (fun j => map (fun i => nth (sw2 i) (nth (sw2 j) D []) p0) (seq 0 4)) (seq 0 4).

Definition check_row (row : string * (string * nat)) : bool :=
  let '(name, (fn, ar)) := row in
  match doc_of name with
  | None => true            (* not a unitary of Stim's gate reference: decided by other theorems *)
  | Some (n, D) =>
      Nat.eqb n ar &&
      match ar with
      | 1%nat => match assoc fn unitary1 with
                 | Some g => has_phase clifford_phases (mat 1 (g 0%nat)) D
                 | None => false end
      | 2%nat => match assoc fn unitary2 with
                 | Some g => has_phase clifford_phases (mat 2 (g 0%nat 1%nat)) D
                             && has_phase clifford_phases (mat 2 (g 1%nat 0%nat)) (swap_qubits D)
                 | None => false end
      | _ => false
      end
  end.
Definition unitary_rows : list (string * (string * nat)) :=
  filter (fun row => match doc_of (fst row) with Some _ => true | None => false end) gate_table.

(* parametric gates, symbolic angles: theta, phi, lambda of Spec/RotGates *)
(* `phase / 2` in the source is exact on the symbolic angles: all coefficients of theta, phi, lambda are even *)
Definition expo_even (e : expo) : bool := Z.even (c0 e) && Z.even (s1 e) && Z.even (s2 e) && Z.even (s3 e).
Definition check_rot (fn : string) (D : list vec) : bool :=
  expo_even theta &&
  match assoc fn rotation1 with
  | Some g => has_phase all_phases (mat 1 (g 0%nat theta)) D
  | None => false end.
Definition check_T : bool :=
  has_phase clifford_phases (mat 1 (g_t 0%nat)) doc_T && has_phase clifford_phases (mat 1 (g_t_dag 0%nat)) doc_T_DAG.
Definition check_U3 : bool := expo_even theta && expo_even phi && expo_even lambda && has_phase all_phases (mat 1 (g_u3 0%nat theta phi lambda)) doc_U3.
