(* Interpreter of the REGENERATED key programs (gen/Gen_keyflow.v) over histories of calls
     sample(shots, batch_size)  /  probability_of(state, batch_size)
   on one sampler object created with a seed.  No proofs in this file.

   * calls are removed by inlining (`inline`, fuelled; the result is checked to be `Some` by computation);
   * a variable holds a LIST of keys (a scalar key = one element, the array returned by split(k, n) = n
     elements); every operation acts on all keys its source variable holds, so the semantics is total;
   * loop trip counts and split widths are not fixed by the program: they are read from an `oracle`, an
     arbitrary list of numbers supplied with each call, so that a theorem for all oracles covers all numbers
     of batches / components / outputs / channels;
   * the log `st_trace` records every jax.random call in program order (Base/KeyTree.v). *)
From Coq Require Import ZArith String List Bool Arith.
Import ListNotations.
Require Import TV.Base.KeyTree TV.gen.Gen_keyflow.
Local Open Scope string_scope.
Local Open Scope list_scope.

(* ------------------------------------------------------------------ inlining *)
Fixpoint lookup {A : Type} (l : list (string * A)) (f : string) : option A :=
  match l with
  | [] => None
  | (g, x) :: r => if String.eqb g f then Some x else lookup r f
  end.

Definition moves (ps : list (string * string)) : list stmt := map (fun p => Move (fst p) (snd p)) ps.

Fixpoint inline (fuel : nat) (fs : list (string * list stmt)) (l : list stmt) : option (list stmt) :=
  match fuel with
  | 0 => None
  | S f =>
      match l with
      | [] => Some []
      | s :: r =>
          let hd :=
            match s with
            | Loop lbl body => option_map (fun b => [Loop lbl b]) (inline f fs body)
            | ForKeys a e body => option_map (fun b => [ForKeys a e b]) (inline f fs body)
            | Call g args rets =>
                match lookup fs g with
                | None => None
                | Some body => option_map (fun b => moves args ++ b ++ moves rets) (inline f fs body)
                end
            | other => Some [other]
            end in
          match hd, inline f fs r with
          | Some a, Some b => Some (a ++ b)
          | _, _ => None
          end
      end
  end.

Definition FUEL : nat := 400.

Definition entry_fun (e : string) : string :=
  match lookup gen_entries e with Some f => f | None => "<no such entry>" end.

(* a residual Call is a no-op for `exec` but is rejected by the linearity checker of the proofs *)
Definition inlined (f : string) : list stmt :=
  match inline FUEL gen_functions [Call f [] []] with
  | Some p => p
  | None => [Call "<inlining failed>" [] []]
  end.

(* ------------------------------------------------------------------ states *)
Definition env := string -> list key.
Definition upd (e : env) (v : string) (ks : list key) : env :=
  fun w => if String.eqb w v then ks else e w.

Record state := mkState { st_env : env; st_trace : list event; st_oracle : list nat }.

Definition pop (o : list nat) : nat * list nat :=
  match o with [] => (0, []) | n :: r => (n, r) end.

Fixpoint iter {A : Type} (n : nat) (f : A -> A) (x : A) : A :=
  match n with 0 => x | S m => iter m f (f x) end.

(* one iteration of `for .., elem in zip(.., arr)`: take the next key of arr *)
Definition take_key (arr elem : string) (s : state) : state :=
  match st_env s arr with
  | [] => mkState (upd (st_env s) elem []) (st_trace s) (st_oracle s)
  | k :: rest => mkState (upd (upd (st_env s) arr rest) elem [k]) (st_trace s) (st_oracle s)
  end.

Fixpoint exec (s : stmt) (st : state) {struct s} : state :=
  let exec_list :=
    (fix go (l : list stmt) (st : state) {struct l} : state :=
       match l with [] => st | x :: r => go r (exec x st) end) in
  match s with
  | Split src d0 d1 =>
      let ks := st_env st src in
      mkState (upd (upd (st_env st) d0 (map (fun k => Child k 0) ks)) d1 (map (fun k => Child k 1) ks))
              (st_trace st ++ map (fun k => EvSplit k 2) ks) (st_oracle st)
  | SplitN src arr _ =>
      let n := fst (pop (st_oracle st)) in
      let ks := st_env st src in
      mkState (upd (st_env st) arr (flat_map (fun k => children k n) ks))
              (st_trace st ++ map (fun k => EvSplit k n) ks) (snd (pop (st_oracle st)))
  | Consume _ src dst =>
      let ks := st_env st src in
      mkState (match dst with Some d => upd (st_env st) d (map RDerived ks) | None => st_env st end)
              (st_trace st ++ map EvConsume ks) (st_oracle st)
  | MkKey dst src =>
      let ks := st_env st src in
      mkState (upd (st_env st) dst ks) (st_trace st ++ map EvRoot ks) (st_oracle st)
  | Move dst src => mkState (upd (st_env st) dst (st_env st src)) (st_trace st) (st_oracle st)
  | Loop _ body =>
      iter (fst (pop (st_oracle st))) (exec_list body)
           (mkState (st_env st) (st_trace st) (snd (pop (st_oracle st))))
  | ForKeys arr elem body =>
      iter (length (st_env st arr)) (fun s' => exec_list body (take_key arr elem s')) st
  | Call _ _ _ => st
  end.

Definition exec_list : list stmt -> state -> state :=
  fix go (l : list stmt) (st : state) {struct l} : state :=
    match l with [] => st | x :: r => go r (exec x st) end.

(* ------------------------------------------------------------------ histories *)
Inductive entry := ESampleMeasurement | ESampleDetector | EProbabilityOf.

Definition entry_name (e : entry) : string :=
  match e with
  | ESampleMeasurement => "sample_measurement"
  | ESampleDetector => "sample_detector"
  | EProbabilityOf => "probability_of"
  end.

Definition prog_init : list stmt := inlined (entry_fun "init").
Definition prog_of (e : entry) : list stmt := inlined (entry_fun (entry_name e)).

(* a call = which method, and the numbers its loops will meet (in execution order) *)
Definition call := (entry * list nat)%type.

Definition init_state (seed : Z) : state :=
  mkState (upd (fun _ => []) gen_seed_var [RSeed seed]) [] [].

Definition run_call (st : state) (c : call) : state :=
  exec_list (prog_of (fst c)) (mkState (st_env st) (st_trace st) (snd c)).

Definition created (seed : Z) : state := exec_list prog_init (init_state seed).

Definition run (seed : Z) (h : list call) : state := fold_left run_call h (created seed).

(* what the program outputs depends on the PRNG only through the keys it draws from *)
Definition draws {A : Type} (prng : key -> A) (st : state) : list A := map prng (consumed (st_trace st)).

(* oracle of one sample(shots, batch_size) call on a sampler with n_channels noise channels and components
   with the given numbers of outputs: the batch loop, then per batch split(key, n_channels), the component
   loop and per component its output loop *)
Definition sample_counts (n_batches n_channels : nat) (outs : list nat) : list nat :=
  n_batches :: concat (repeat ([n_channels; length outs] ++ outs) n_batches).
Definition probability_of_counts (n_channels : nat) : list nat := [n_channels].
