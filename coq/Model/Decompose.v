(* Model of tsim/compile/stabrank.py: the recursion skeleton (`decompose`, `find_stab`) is REGENERATED from the source
   (gen/Gen_decompose.v) over an abstract graph type G and abstract pyzx operations; this file only adds the value
   algebra used to state that the decomposition preserves the value.  No proofs here. *)
From Coq Require Import List Arith.
Import ListNotations.
Require Import TV.gen.Gen_decompose.

Section Values.
  Variable V : Type.                     (* scalar values (complex numbers in the implementation): any monoid *)
  Variable vzero : V.
  Variable vadd : V -> V -> V.
  Definition vsum (l : list V) : V := fold_right vadd vzero l.
End Values.

(* fuel that suffices for one pass: one more than the largest count among the input graphs *)
Definition max_count {G : Type} (count : G -> nat) (l : list G) : nat := fold_right Nat.max 0 (map count l).
Definition pass_fuel {G : Type} (count : G -> nat) (l : list G) : nat := S (max_count count l).

(* a tiny executable instance for the correspondence run and the non-vacuity examples: a "graph" is a list of
   non-Clifford phase labels with an integer weight; replacing removes the first label and splits the weight. *)
Definition toy := (list nat * nat)%type.        (* (remaining non-Clifford labels, weight) *)
Definition toy_count (g : toy) : nat := length (fst g).
Definition toy_replace (g : toy) : list toy :=
  match fst g with
  | [] => []
  | _ :: r => [(r, snd g); (r, 0); (r, 2 * snd g)]
  end.
Definition toy_reduce (g : toy) : toy := g.
Definition toy_is_zero (g : toy) : bool := Nat.eqb (snd g) 0.
Definition toy_val (g : toy) : nat := 3 ^ length (fst g) * snd g.
