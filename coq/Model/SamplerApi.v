(* Hand model of the sampler API glue of /repo/src/tsim/sampler.py (no proofs in this file):

     _CompiledSamplerBase._sample_batches   -- ceil(shots / batch_size) batches of batch_size rows,
                                               concatenated, truncated to [:shots]; batch_size None -> shots
     np.packbits(.., axis=1, bitorder=..)   -- row-wise packing, as used by _maybe_bit_pack
     CompiledDetectorSampler.sample         -- interpretation of the REGENERATED decision function
                                               gen_detector_sample (gen/Gen_sampler_flags.v) on a sample matrix

   The model is tied to the running code by harness/props/c13.py. *)
From Coq Require Import Arith ZArith NArith List Bool.
Import ListNotations.
Require Import TV.Spec.DetSamplerSpec TV.gen.Gen_sampler_flags.

(* ------------------------------------------------------------------ _sample_batches *)

(* math.ceil(shots / batch_size) for positive ints *)
Definition ceil_div (a b : nat) : nat := (a + b - 1) / b.

(* `if batch_size is None: batch_size = shots` *)
Definition effective_batch (shots : nat) (batch_size : option nat) : nat :=
  match batch_size with None => shots | Some b => b end.

Definition n_batches (shots : nat) (batch_size : option nat) : nat :=
  ceil_div shots (effective_batch shots batch_size).

(* `draw i n` stands for the i-th call `sample_program(program, channel_sampler.sample(n), subkey_i)`,
   a matrix of n rows.  all_batches = np.concatenate(batches);  sample_batches = all_batches[:shots] *)
Definition all_batches {row : Type} (draw : nat -> nat -> list row) (shots : nat) (batch_size : option nat) : list row :=
  concat (map (fun i => draw i (effective_batch shots batch_size)) (seq 0 (n_batches shots batch_size))).

Definition sample_batches {row : Type} (draw : nat -> nat -> list row) (shots : nat) (batch_size : option nat) : list row :=
  firstn shots (all_batches draw shots batch_size).

(* ------------------------------------------------------------------ np.packbits / np.unpackbits along axis 1 *)

Fixpoint chunks8 (l : list bool) : list (list bool) :=
  match l with
  | b0 :: b1 :: b2 :: b3 :: b4 :: b5 :: b6 :: b7 :: r => [b0; b1; b2; b3; b4; b5; b6; b7] :: chunks8 r
  | [] => []
  | short => [short]
  end.

Definition pad8 (c : list bool) : list bool := c ++ repeat false (8 - length c).

(* little: first column is the least significant bit; big: first column is the most significant bit;
   in both orders a short last chunk is padded with zeros AFTER its last column *)
Definition byte_of (little : bool) (c : list bool) : N :=
  if little then byte_le c else byte_le (rev (pad8 c)).

Definition packbits (little : bool) (row : list bool) : list N := map (byte_of little) (chunks8 row).

Definition bits_of_byte (b : N) : list bool := map (fun j => N.testbit b (N.of_nat j)) (seq 0 8).

(* np.unpackbits(bytes, count=count, bitorder="little") *)
Definition unpackbits_le (count : nat) (bytes : list N) : list bool := firstn count (flat_map bits_of_byte bytes).

(* ------------------------------------------------------------------ column selection *)

(* Python index normalisation of a slice bound i on an axis of width w *)
Definition norm_index (w i : Z) : Z := if (i <? 0)%Z then Z.max 0 (w + i) else Z.min i w.

Definition resolve_bound (nd w : Z) (b : bound) (dflt : Z) : Z :=
  match b with
  | BNone => dflt
  | BConst c => norm_index w c
  | BDet off => norm_index w (nd + off)
  end.

(* r[lo:hi] *)
Definition slice_row (nd : Z) (lo hi : bound) (r : list bool) : list bool :=
  let w := Z.of_nat (length r) in
  skipn (Z.to_nat (resolve_bound nd w lo 0)) (firstn (Z.to_nat (resolve_bound nd w hi w)) r).

(* all operations act on axis 1, i.e. row by row *)
Fixpoint mexpr_row (nd : Z) (row : list bool) (e : mexpr) : list bool :=
  match e with
  | MSamples => row
  | MSlice m lo hi => slice_row nd lo hi (mexpr_row nd row m)
  | MCatNil => []
  | MCat a b => mexpr_row nd row a ++ mexpr_row nd row b
  end.

Definition apply_packmode (pm : packmode) (m : list (list bool)) : cells :=
  match pm with
  | PackNo => CBits m
  | PackBits little => CBytes (map (packbits little) m)
  end.

Definition rexpr_eval (nd : Z) (samples : list (list bool)) (r : rexpr) : cells :=
  match r with
  | RMaybePack bp m => apply_packmode (gen_maybe_bit_pack bp) (map (fun row => mexpr_row nd row m) samples)
  end.

(* CompiledDetectorSampler.sample after `samples = self._sample_batches(..)`; nd = self._num_detectors *)
Definition detector_sample_model (prepend append separate bit_packed : bool) (nd : Z) (samples : list (list bool))
  : det_result cells :=
  match gen_detector_sample prepend append separate bit_packed with
  | ORaiseValueError => SReject
  | OOne r => SOne (rexpr_eval nd samples r)
  | OPair r1 r2 => SPair (rexpr_eval nd samples r1) (rexpr_eval nd samples r2)
  end.

(* labelled batches used by the correspondence run: row j of batch i is the pair (i, j) *)
Definition labelled_draw (i n : nat) : list (nat * nat) := map (fun j => (i, j)) (seq 0 n).
