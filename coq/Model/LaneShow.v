(* printing lane programs as (tag, integer list) records for the primitive-trace correspondence. No proofs. *)
From Coq Require Import ZArith List Bool QArith.
Import ListNotations.
Require Import TV.Base.EP TV.Model.Lane.
Open Scope Z_scope.

Definition zb (b : bool) : Z := if b then 1 else 0.
Definition zcol (c : colour) : Z := match c with CZc => 0 | CXc => 1 end.
Definition zexpo (e : expo) : list Z := [c0 e; s1 e; s2 e; s3 e].
Definition zq (p : Q) : list Z := let r := Qred p in [Qnum r; Zpos (Qden r)].
Definition zcc (cc : option (bool * bool)) : Z := match cc with None => 0 | Some (a, b) => 1 + 2 * zb a + zb b end.
Definition zn (n : nat) : Z := Z.of_nat n.

(* OIfLane bodies are inlined according to lane existence, which is tracked like the real code does:
   a lane exists once any primitive touched it *)
Definition touched (o : op nat) : list nat :=
  match o with
  | OSpider _ q _ | OErr _ q _ _ | OH q | OI q | OMeas q _ _ _ | OReset q _ => [q]
  | OCxCz _ a b None => [a; b]
  | OCxCz _ a b (Some _) => []            (* record-controlled: lanes resolved at run time *)
  | OSwap a b => [a; b]
  | _ => []
  end.
Definition show_chan (c : chan) : list Z :=
  match c with
  | ChError p => 0 :: zq p
  | ChPauli1 a b c => 1 :: zq a ++ zq b ++ zq c
  | ChPauli2 l => 2 :: flat_map zq l
  | ChCorrelated ps => 3 :: flat_map zq ps
  end.
Fixpoint show_ops_fuel (fuel : nat) {struct fuel} : list nat -> list (op nat) -> list (nat * list Z) * list nat :=
  fix go (ex : list nat) (ops : list (op nat)) {struct ops} : list (nat * list Z) * list nat :=
  match ops with
  | [] => ([], ex)
  | o :: r =>
      let '(here, ex1) :=
        match o with
        | OSpider c q e => ([(0%nat, zcol c :: zn q :: zexpo e)], q :: ex)
        | OErr c q rel corr => ([(1%nat, [zcol c; zn q; rel; zb corr])], q :: ex)
        | OH q => ([(2%nat, [zn q])], q :: ex)
        | OCxCz x a b cc => ([(3%nat, [zb x; zn a; zn b; zcc cc])], touched o ++ ex)
        | OSwap a b => ([(4%nat, [zn a; zn b])], a :: b :: ex)
        | OI q => ([(5%nat, [zn q])], q :: ex)
        | OMeas q p s rr => ([(6%nat, zn q :: zq p ++ [zb s; zb rr])], q :: ex)
        | OReset q t => ([(7%nat, [zn q; zb t])], q :: ex)
        | OPhase e => ([(8%nat, zexpo e)], ex)
        | OPower n => ([(9%nat, [n])], ex)
        | OChan c => ([(10%nat, show_chan c)], ex)
        | OBumpErr n => ([(11%nat, [n])], ex)
        | OCorrProb p => ([(12%nat, zq p)], ex)
        | OFinalize => ([(14%nat, [])], ex)
        | OIfLane q body =>
            match fuel with
            | O => ([(99%nat, [])], ex)
            | S f => if existsb (Nat.eqb q) ex then show_ops_fuel f ex body else ([], ex)
            end
        end in
      let '(rest, ex2) := go ex1 r in (here ++ rest, ex2)
  end.
Definition show_ops (ex : list nat) (ops : list (op nat)) : list (nat * list Z) := fst (show_ops_fuel 8 ex ops).
Definition show_op := show_ops.
