(* The lane IR: what tsim/core/instructions.py draws, as a list of primitive operations, and its
   executable dense semantics over exponential polynomials (Base/EP.v).

   The COMPOSITE gate functions of instructions.py are translated to Gallina functions into `list (op Q)`
   on every run (gen/Gen_instructions.v).  The PRIMITIVES below (x_phase, z_phase, h, _cx_cz, swap, i,
   _error, _m, _r, scalar.add_phase/add_power, channel bookkeeping) are modelled by hand here; their
   semantics is the single-copy Kraus reading of the ZX fragments that was validated against pyzx's tensor
   of the doubled diagram (weights equal including constants):
     - Z/X spider with phase a on a lane: diag(1,E a), resp. H diag(1,E a) H
     - h: Hadamard on the lane;  _cx_cz: CNOT / CZ exactly (the sqrt2 of add_power(1) cancels the spider pair)
     - classically controlled _cx_cz: X^r / Z^r on the target, r the referenced record bit
     - _m: projector onto the record (or silent) bit, scalar 1/sqrt2; measurement noise = X^e before and,
       when `restore`, after
     - _r: fresh lane -> |0>; existing lane -> optional silent measurement, then the forward leg of the
       lane's last spider is cut (effect (1,1) behind a Z spider, sqrt2*(1,0) behind an X spider) and the lane
       restarts in |0>
     - a lane touched first by a non-reset primitive starts in sqrt2*|0> (boundary turned into an X spider
       by build_sampling_graph).
   No proofs in this file. *)
From Coq Require Import ZArith List Bool QArith.
Import ListNotations.
Require Import TV.Base.EP.

Inductive colour := CZc | CXc.
Inductive pauli := PX | PY | PZ.

(* a float argument of a noise instruction: a rational (exact on both sides for dyadic test values) *)
Definition prob := Q.
Inductive chan :=
  | ChError (p : prob)
  | ChPauli1 (px py pz : prob)
  | ChPauli2 (args : list prob)              (* the 15 arguments in the order pauli_channel_2_probs receives them *)
  | ChCorrelated (ps : list prob).           (* finalize_correlated_error: table from the accumulated chain *)

Inductive op (Q : Type) :=
  | OSpider (c : colour) (q : Q) (e : expo)                 (* x_phase / z_phase *)
  | OErr (c : colour) (q : Q) (rel : Z) (corr : bool)       (* _error with phase e{num_error_bits+rel} / c{num_correlated_error_bits+rel} *)
  | OH (q : Q)
  | OCxCz (is_cx : bool) (ctl tgt : Q) (cc : option (bool * bool))
  | OSwap (a b : Q)
  | OI (q : Q)
  | OMeas (q : Q) (p : prob) (silent restore : bool)        (* _m *)
  | OReset (q : Q) (trace : bool)                           (* _r *)
  | OPhase (e : expo)                                       (* scalar.add_phase *)
  | OPower (n : Z)                                          (* scalar.add_power *)
  | OChan (c : chan)                                        (* channel_probs.append(...) *)
  | OBumpErr (n : Z)                                        (* num_error_bits += n *)
  | OCorrProb (p : prob)                                    (* correlated_error_probs.append(p); num_correlated_error_bits += 1 *)
  | OIfLane (q : Q) (body : list (op Q))                    (* if qubit in b.last_vertex: ... *)
  | OFinalize.                                              (* finalize_correlated_error (called by the parser) *)
Arguments OSpider {Q}. Arguments OErr {Q}. Arguments OH {Q}. Arguments OCxCz {Q}. Arguments OSwap {Q}.
Arguments OI {Q}. Arguments OMeas {Q}. Arguments OReset {Q}. Arguments OPhase {Q}. Arguments OPower {Q}.
Arguments OChan {Q}. Arguments OBumpErr {Q}. Arguments OCorrProb {Q}. Arguments OIfLane {Q}. Arguments OFinalize {Q}.

Fixpoint op_map {A B} (f : A -> B) (o : op A) : op B :=
  match o with
  | OSpider c q e => OSpider c (f q) e
  | OErr c q r k => OErr c (f q) r k
  | OH q => OH (f q)
  | OCxCz x a b cc => OCxCz x (f a) (f b) cc
  | OSwap a b => OSwap (f a) (f b)
  | OI q => OI (f q)
  | OMeas q p s r => OMeas (f q) p s r
  | OReset q t => OReset (f q) t
  | OPhase e => OPhase e
  | OPower n => OPower n
  | OChan c => OChan c
  | OBumpErr n => OBumpErr n
  | OCorrProb p => OCorrProb p
  | OIfLane q body => OIfLane (f q) (map (op_map f) body)
  | OFinalize => OFinalize
  end.

(* ------------------------------------------------------------------------------------------------ *)
(* dense state vectors over EP, lanes 0..n-1, lane q = bit q of the index *)
Definition vec := list ep.
Definition vget (v : vec) (i : nat) : ep := nth i v p0.
Definition tabulate (m : nat) (f : nat -> ep) : vec := map f (seq 0 m).
Definition getbit (i q : nat) : bool := Nat.testbit i q.
Definition setbit (i q : nat) (b : bool) : nat := if b then Nat.lor i (Nat.pow 2 q) else Nat.ldiff i (Nat.pow 2 q).
Definition dim (n : nat) : nat := Nat.pow 2 n.

Definition m2 := (ep * ep * ep * ep)%type.          (* row-major 2x2 *)
Definition app1 (n q : nat) (m : m2) (v : vec) : vec :=
  let '(m00, m01, m10, m11) := m in
  tabulate (dim n) (fun i =>
    let a := vget v (setbit i q false) in let b := vget v (setbit i q true) in
    if getbit i q then padd (pmul m10 a) (pmul m11 b) else padd (pmul m00 a) (pmul m01 b)).
Definition app_cx (n c t : nat) (v : vec) : vec :=
  tabulate (dim n) (fun i => if getbit i c then vget v (setbit i t (negb (getbit i t))) else vget v i).
Definition app_cz (n c t : nat) (v : vec) : vec :=
  tabulate (dim n) (fun i => if getbit i c && getbit i t then pneg (vget v i) else vget v i).
Definition app_swap (n a b : nat) (v : vec) : vec :=
  tabulate (dim n) (fun i => vget v (setbit (setbit i a (getbit i b)) b (getbit i a))).
Definition app_proj (n q : nat) (r : bool) (v : vec) : vec :=
  tabulate (dim n) (fun i => if Bool.eqb (getbit i q) r then vget v i else p0).
(* contract lane q with the effect (f0, f1) and restart it in |0> *)
Definition app_cut (n q : nat) (f0 f1 : ep) (v : vec) : vec :=
  tabulate (dim n) (fun i => if getbit i q then p0
                            else padd (pmul f0 (vget v (setbit i q false))) (pmul f1 (vget v (setbit i q true)))).
Definition vscale (s : ep) (v : vec) : vec := map (pmul s) v.

Definition mI : m2 := (p1, p0, p0, p1).
Definition mX : m2 := (p0, p1, p1, p0).
Definition mZ : m2 := (p1, p0, p0, pneg p1).
Definition mH : m2 := (psqrt2inv, psqrt2inv, psqrt2inv, pneg psqrt2inv).
Definition mZph (e : expo) : m2 := (p1, p0, p0, pE e).
(* H diag(1, E e) H = 1/2 [[1+E, 1-E],[1-E, 1+E]] *)
Definition mXph (e : expo) : m2 :=
  let a := pmul phalf (padd p1 (pE e)) in let b := pmul phalf (psub p1 (pE e)) in (a, b, b, a).

(* ---------------- interpreter state ---------------- *)
Record lstate := mkL {
  amp : vec;
  scal : ep;
  exists_ : list bool;          (* per lane: has the lane been created *)
  colour_ : list colour;        (* per lane: colour of the last spider (matters for the reset cut) *)
  nrec : nat; nsil : nat; nerr : nat; ncorr : nat;
  recq : list nat;              (* lane of each record spider at creation *)
  chans : list chan;            (* channel_probs in order *)
  corrp : list prob;            (* pending correlated-error chain *)
  ok : bool                     (* false: the real code raises (record editing) *)
}.
Definition upd {A} (l : list A) (i : nat) (x : A) : list A :=
  map (fun kv => if Nat.eqb (fst kv) i then x else snd kv) (combine (seq 0 (length l)) l).
Definition setamp s v := mkL v (scal s) (exists_ s) (colour_ s) (nrec s) (nsil s) (nerr s) (ncorr s) (recq s) (chans s) (corrp s) (ok s).
Definition setscal s x := mkL (amp s) x (exists_ s) (colour_ s) (nrec s) (nsil s) (nerr s) (ncorr s) (recq s) (chans s) (corrp s) (ok s).
Definition setcol s q c := mkL (amp s) (scal s) (exists_ s) (upd (colour_ s) q c) (nrec s) (nsil s) (nerr s) (ncorr s) (recq s) (chans s) (corrp s) (ok s).
Definition setex s q := mkL (amp s) (scal s) (upd (exists_ s) q true) (colour_ s) (nrec s) (nsil s) (nerr s) (ncorr s) (recq s) (chans s) (corrp s) (ok s).
Definition fail s := mkL (amp s) (scal s) (exists_ s) (colour_ s) (nrec s) (nsil s) (nerr s) (ncorr s) (recq s) (chans s) (corrp s) false.

(* the bits the diagram is evaluated at *)
Record bits := mkB { brec : list bool; bsil : list bool; berr : list bool }.
Definition bit (l : list bool) (i : nat) : bool := nth i l false.

Definition ensure (s : lstate) (q : nat) : lstate :=
  if nth q (exists_ s) false then s
  else setcol (setex (setscal s (pmul psqrt2 (scal s))) q) q CXc.

Definition init_state (n : nat) : lstate :=
  mkL (tabulate (dim n) (fun i => if Nat.eqb i 0 then p1 else p0)) p1 (repeat false n) (repeat CXc n) 0 0 0 0 [] [] [] true.
(* all lanes already exist (no sqrt2 factors), amplitude = basis vector j: used to read off gate matrices *)
Definition basis_state (n j : nat) : lstate :=
  mkL (tabulate (dim n) (fun i => if Nat.eqb i j then p1 else p0)) p1 (repeat true n) (repeat CZc n) 0 0 0 0 [] [] [] true.

Definition do_meas (n : nat) (b : bits) (s : lstate) (q : nat) (silent : bool) : lstate :=
  let s := ensure s q in
  let r := if silent then bit (bsil b) (nsil s) else bit (brec b) (nrec s) in
  let s1 := setcol (setscal (setamp s (app_proj n q r (amp s))) (pmul psqrt2inv (scal s))) q CZc in
  if silent then mkL (amp s1) (scal s1) (exists_ s1) (colour_ s1) (nrec s1) (S (nsil s1)) (nerr s1) (ncorr s1) (recq s1) (chans s1) (corrp s1) (ok s1)
  else mkL (amp s1) (scal s1) (exists_ s1) (colour_ s1) (S (nrec s1)) (nsil s1) (nerr s1) (ncorr s1) (recq s1 ++ [q]) (chans s1) (corrp s1) (ok s1).

Definition do_err (n : nat) (b : bits) (s : lstate) (c : colour) (q : nat) (idx : nat) : lstate :=
  let s := ensure s q in
  let s := if bit (berr b) idx then setamp s (app1 n q (match c with CXc => mX | CZc => mZ end) (amp s)) else s in
  setcol s q c.

(* finalize_correlated_error: c-bits become e-bits, the chain's table is appended *)
Definition finalize_corr (s : lstate) : lstate :=
  match ncorr s with
  | O => s
  | k => mkL (amp s) (scal s) (exists_ s) (colour_ s) (nrec s) (nsil s) (nerr s + k) O (recq s) (chans s ++ [ChCorrelated (corrp s)]) [] (ok s)
  end.


Fixpoint step (fuel : nat) (n : nat) (b : bits) (s : lstate) (o : op nat) : lstate :=
  match o with
  | OSpider c q e =>
      let s := ensure s q in
      setcol (setamp s (app1 n q (match c with CZc => mZph e | CXc => mXph e end) (amp s))) q c
  | OErr c q rel corr =>
      do_err n b s c q (if corr then (nerr s + ncorr s + Z.to_nat rel)%nat else (nerr s + Z.to_nat rel)%nat)
  | OH q => let s := ensure s q in setamp s (app1 n q mH (amp s))
  | OI q => ensure s q
  | OSwap a c =>
      let s := ensure (ensure s a) c in
      let ca := nth a (colour_ s) CXc in let cc := nth c (colour_ s) CXc in
      setcol (setcol (setamp s (app_swap n a c (amp s))) a cc) c ca
  | OCxCz is_cx ctl tgt None =>
      let s := ensure (ensure s ctl) tgt in
      let s := setamp s (if is_cx then app_cx n ctl tgt (amp s) else app_cz n ctl tgt (amp s)) in
      setcol (setcol s ctl CZc) tgt (if is_cx then CXc else CZc)
  | OCxCz is_cx ctl tgt (Some (c0, c1)) =>
      (* _cx_cz: for CZ a classically controlled *target* is swapped into control position *)
      let '(ctl, tgt, c0, c1) := if c1 && negb is_cx then (tgt, ctl, c1, c0) else (ctl, tgt, c0, c1) in
      if c1 then fail s
      else if negb c0 then (* cannot happen: any(cc) holds when cc is passed; treat as plain gate *)
        let s := ensure (ensure s ctl) tgt in
        let s := setamp s (if is_cx then app_cx n ctl tgt (amp s) else app_cz n ctl tgt (amp s)) in
        setcol (setcol s ctl CZc) tgt (if is_cx then CXc else CZc)
      else
        (* ctl is a record lookback stored as the (wrapped) value; the harness passes lookbacks as nrec - k *)
        let ridx := ctl in
        let r := bit (brec b) ridx in
        let cq := nth ridx (recq s) 0%nat in
        let s := ensure (ensure s cq) tgt in
        let s := if r then setamp s (app1 n tgt (if is_cx then mX else mZ) (amp s)) else s in
        setcol (setcol s cq CZc) tgt (if is_cx then CXc else CZc)
  | OMeas q p silent restore =>
      let noisy := match Qcompare 0 p with Lt => true | _ => false end in
      let s := if noisy then do_err n b (mkL (amp s) (scal s) (exists_ s) (colour_ s) (nrec s) (nsil s) (nerr s) (ncorr s) (recq s) (chans s ++ [ChError p]) (corrp s) (ok s)) CXc q (nerr s) else s in
      let s := do_meas n b s q silent in
      if noisy then
        let s := if restore then do_err n b s CXc q (nerr s) else s in
        mkL (amp s) (scal s) (exists_ s) (colour_ s) (nrec s) (nsil s) (S (nerr s)) (ncorr s) (recq s) (chans s) (corrp s) (ok s)
      else s
  | OReset q trace =>
      if negb (nth q (exists_ s) false) then
        (* fresh lane: X spider, power -1: exactly |0> *)
        setcol (setex s q) q CXc
      else
        let s := if trace then do_meas n b s q true else s in
        let col := nth q (colour_ s) CXc in
        let s := match col with
                 | CZc => setamp s (app_cut n q p1 p1 (amp s))
                 | CXc => setamp s (app_cut n q psqrt2 p0 (amp s))
                 end in
        setcol s q CXc
  | OPhase e => setscal s (pmul (pE e) (scal s))
  | OPower k => setscal s (pmul (psqrt2pow k) (scal s))
  | OChan c => mkL (amp s) (scal s) (exists_ s) (colour_ s) (nrec s) (nsil s) (nerr s) (ncorr s) (recq s) (chans s ++ [c]) (corrp s) (ok s)
  | OBumpErr k => mkL (amp s) (scal s) (exists_ s) (colour_ s) (nrec s) (nsil s) (nerr s + Z.to_nat k) (ncorr s) (recq s) (chans s) (corrp s) (ok s)
  | OCorrProb p => mkL (amp s) (scal s) (exists_ s) (colour_ s) (nrec s) (nsil s) (nerr s) (S (ncorr s)) (recq s) (chans s) (corrp s ++ [p]) (ok s)
  | OIfLane q body =>
      match fuel with
      | O => fail s
      | S f => if nth q (exists_ s) false then fold_left (step f n b) body s else s
      end
  | OFinalize => finalize_corr s
  end.
Definition run (n : nat) (b : bits) (ops : list (op nat)) (s : lstate) : lstate := fold_left (step 8 n b) ops s.
Definition final_vec (s : lstate) : vec := vscale (scal s) (amp s).
Definition norm2 (v : vec) : ep := fold_left (fun acc a => padd acc (pmul a (pconj a))) v p0.

(* matrix of a program on n pre-existing lanes: column j = image of basis vector j *)
Definition mat (n : nat) (ops : list (op nat)) : list vec :=
  map (fun j => final_vec (run n (mkB [] [] []) ops (basis_state n j))) (seq 0 (dim n)).
Definition veq (a b : vec) : bool := (Nat.eqb (length a) (length b)) && forallb (fun xy => peq (fst xy) (snd xy)) (combine a b).
Definition meq (a b : list vec) : bool := (Nat.eqb (length a) (length b)) && forallb (fun xy => veq (fst xy) (snd xy)) (combine a b).
Definition mscale (s : ep) (m : list vec) : list vec := map (vscale s) m.
(* printing *)
Definition showp (p : ep) := (sc p, map (fun m => (c0 (fst m), s1 (fst m), s2 (fst m), s3 (fst m), snd m)) (terms p)).
Definition showv (v : vec) := map showp v.
