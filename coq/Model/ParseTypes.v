(* C12 -- vocabulary shared by the two generated files
     gen/Gen_parse_facts.v  (facts read off tsim's parser by translate/parse_facts.py)
     gen/Gen_stim_vocab.v   (rows of the installed Stim's vocabulary, written by harness/props/c12.py)
   and by Model/ParseClassify.v.  Data types and boolean equalities only. *)
From Coq Require Import String List Bool.
Import ListNotations.
Open Scope string_scope.

(* predicates of stim.GateTarget (`.value` is always available) *)
Inductive tattr := AQubit | AInverted | ARecord | ASweep | ACombiner | APX | APY | APZ.

(* the kinds of target Stim's text format has *)
Inductive tkind :=
| KQ      (* 5        *)
| KNQ     (* !5       *)
| KREC    (* rec[-1]  *)
| KSWEEP  (* sweep[3] *)
| KPX | KPY | KPZ        (* X5 Y5 Z5    *)
| KNPX | KNPY | KNPZ     (* !X5 !Y5 !Z5 *)
| KCOMB.  (* *        *)

Inductive pauli := PX | PY | PZ.

(* what a target MEANS inside an instruction *)
Inductive role :=
| RQubit                 (* operand qubit, addressed by index *)
| RQubitInv              (* operand qubit whose reported result is inverted *)
| RRecCtl                (* measurement-record bit (lookback) acting as classical control of the other operand *)
| RSweepCtl              (* sweep bit acting as classical control of the other operand *)
| RRecRef                (* measurement-record bit (lookback) included in a parity *)
| RPauli (p : pauli)     (* factor p on the indexed qubit *)
| RPauliInv (p : pauli)  (* the same, flipping the sign of the product *)
| RPauliObs (p : pauli) (inv : bool)   (* Pauli term of a logical observable *)
| RCombiner              (* joins its neighbours into one product *)
| RLiteralBit            (* MPAD: the value is the recorded bit *)
| RIgnored               (* no effect whatsoever *)
| RInvalid.              (* Stim's own simulators refuse the instruction *)

(* ---- facts about tsim's parser ---- *)
Inductive rule :=
| RuleSkipIf (a : tattr)        (* if t.a: continue *)
| RuleRaiseIf (a : tattr)       (* if t.a: raise *)
| RuleRaiseUnless (a : tattr)   (* if not t.a: raise *)
| RulePauliOrRaise.             (* if t.is_x_target .. elif y .. elif z .. else: raise *)

Inductive sink := SinkNone | SinkQubitPauli | SinkRecord.

Record special := mkSpecial {
  sp_names : list string;
  sp_rules : list rule;
  sp_sink : sink;
  sp_reads_inverted : bool;
  sp_combiner_joins : bool;            (* a following combiner keeps the current product open *)
  sp_args_consumed : bool;
  sp_rejects_empty : bool }.

Definition call_shape := (bool * bool * list string)%type.   (* passes *chunk, passes *args, keywords *)

Record gfun := mkFun {
  gf_name : string;
  gf_params : list (string * bool);    (* parameters after b: name, has a default *)
  gf_used : list string }.             (* parameters mentioned in the body *)

Inductive ccflow :=
| CCBase (is_cx swap_ops : bool)                       (* _cx_cz(b, is_cx, <operands>, classically_controlled) *)
| CCForward (callee : string) (swap_ops rev_flags : bool).

(* ---- one row of the installed Stim's vocabulary ---- *)
Record vrow := mkRow {
  v_name : string;            (* the name as written (may be an alias) *)
  v_canon : string;           (* stim.CircuitInstruction.name: what the parser dispatches on *)
  v_kinds : list tkind;       (* target-kind pattern *)
  v_nargs : nat;              (* number of parenthesised arguments *)
  v_roles : list role;        (* the true role of every target *)
  v_args_sem : bool;          (* the arguments carry semantics (probabilities, observable index) *)
  v_valid : bool;             (* Stim's simulators accept the instruction *)
  v_block : bool }.           (* REPEAT: a block, flattened before parsing *)

(* ---- boolean equalities ---- *)
Definition tattr_eqb (a b : tattr) : bool :=
  match a, b with
  | AQubit, AQubit | AInverted, AInverted | ARecord, ARecord | ASweep, ASweep
  | ACombiner, ACombiner | APX, APX | APY, APY | APZ, APZ => true
  | _, _ => false
  end.

Definition pauli_eqb (a b : pauli) : bool :=
  match a, b with PX, PX | PY, PY | PZ, PZ => true | _, _ => false end.

Definition role_eqb (a b : role) : bool :=
  match a, b with
  | RQubit, RQubit | RQubitInv, RQubitInv | RRecCtl, RRecCtl | RSweepCtl, RSweepCtl | RRecRef, RRecRef
  | RCombiner, RCombiner | RLiteralBit, RLiteralBit | RIgnored, RIgnored | RInvalid, RInvalid => true
  | RPauli p, RPauli q | RPauliInv p, RPauliInv q => pauli_eqb p q
  | RPauliObs p i, RPauliObs q j => pauli_eqb p q && Bool.eqb i j
  | _, _ => false
  end.

Fixpoint roles_eqb (a b : list role) : bool :=
  match a, b with
  | [], [] => true
  | x :: a', y :: b' => role_eqb x y && roles_eqb a' b'
  | _, _ => false
  end.

Definition mem_attr (a : tattr) (l : list tattr) : bool := existsb (tattr_eqb a) l.
Definition mem_str (s : string) (l : list string) : bool := existsb (String.eqb s) l.

Fixpoint assoc {A} (s : string) (l : list (string * A)) : option A :=
  match l with
  | [] => None
  | (k, v) :: r => if String.eqb s k then Some v else assoc s r
  end.
