(* Types of the facts that translate/dem_facts.py extracts from src/tsim/noise/dem.py (gen/Gen_dem_facts.v).
   No proofs here. *)
From Coq Require Import List String ZArith.

(* how the relocation loop counts the measurement results an instruction appends to the record *)
Inductive count_rule :=
| ByStim                                              (* instruction.num_measurements *)
| ByNames (names : list string) (mpp_special : bool). (* name in [...]: len(targets), for MPP minus 2 * combiners *)

(* which mapped-back mechanisms with the filter probability are dropped *)
Inductive filter_kind :=
| FilterAllLogical       (* all(t.is_logical_observable_id() for t in new_targets) *)
| FilterAnyLogical       (* any(...) *)
| FilterAlways           (* regardless of the targets *)
| FilterNone.            (* no filter *)

(* Stim's record-appending gates: one result per target, per pair of targets, per Pauli product *)
Inductive mkind := KSingle | KPair | KProduct.
