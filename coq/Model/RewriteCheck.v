(* C19: documented gate equivalences, on the regenerated gate functions. No proofs. *)
From Coq Require Import ZArith List Bool String.
Import ListNotations.
Require Import TV.Base.EP TV.Model.Lane TV.Spec.RotGates TV.gen.Gen_instructions TV.gen.Gen_stim_gates TV.Model.GateCheck TV.Model.InverseCheck.

Definition same_up_to_phase (n : nat) (a b : list (op nat)) : bool := has_phase all_phases (mat n a) (mat n b).
Definition rule_HH : bool := has_phase clifford_phases (mat 1 ([OH 0%nat] ++ [OH 0%nat])) (ident_cols 1).
Definition rule_SS_Z : bool := same_up_to_phase 1 (g_s 0%nat ++ g_s 0%nat) (g_z 0%nat).
Definition rule_TT_S : bool := same_up_to_phase 1 (g_t 0%nat ++ g_t 0%nat) (g_s 0%nat).
Definition rule_CX_HCZH : bool :=
  same_up_to_phase 2 (g_cnot 0%nat 1%nat None) ([OH 1%nat] ++ g_cz 0%nat 1%nat None ++ [OH 1%nat])
  && same_up_to_phase 2 (g_cnot 1%nat 0%nat None) ([OH 0%nat] ++ g_cz 1%nat 0%nat None ++ [OH 0%nat]).
(* U3(theta,phi,lambda) = R_Z(phi) R_Y(theta) R_Z(lambda): in circuit order lambda first *)
Definition rule_U3 : bool :=
  same_up_to_phase 1 (g_u3 0%nat theta phi lambda) (g_r_z 0%nat lambda ++ g_r_y 0%nat theta ++ g_r_z 0%nat phi).
(* identity gate and its effect on an existing lane *)
Definition rule_I : bool := has_phase clifford_phases (mat 1 [OI 0%nat]) (ident_cols 1).
