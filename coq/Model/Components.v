(* Hand model of tsim/core/graph.py :: connected_components / _collect_vertices / _induced_subgraph (bookkeeping part)
   over an abstract finite graph: vertices are numbers, `nbrs v` is g.neighbors(v) in pyzx's iteration order,
   `outs` is g.outputs().  Executable, no proofs.  Tied to the running code by harness/props/c11.py, which runs this
   model (vm_compute) on the vertex/adjacency lists of real prepared graphs and compares component vertex lists (in BFS
   order) and output indices exactly.  Shared by C11 and C04. *)
From Coq Require Import List Arith Bool.
Import ListNotations.

Record zgraph := ZG { g_verts : list nat; g_nbrs : nat -> list nat; g_outs : list nat }.

Definition mem (x : nat) (l : list nat) : bool := existsb (Nat.eqb x) l.

(* _collect_vertices: `queue` is the deque with its RIGHT end first (pop() takes the head; appendleft appends at the
   tail), `visited` the shared set, `comp` the component in discovery order.  One unit of fuel per loop iteration. *)
Fixpoint collect (nbrs : nat -> list nat) (fuel : nat) (queue visited comp : list nat) : option (list nat * list nat) :=
  match fuel with
  | O => None
  | S k =>
      match queue with
      | [] => Some (comp, visited)
      | v :: q =>
          if mem v visited then collect nbrs k q visited comp
          else
            let visited' := v :: visited in
            collect nbrs k (q ++ filter (fun nb => negb (mem nb visited')) (nbrs v)) visited' (comp ++ [v])
      end
  end.

(* connected_components: loop over list(g.vertices()) *)
Definition cc_state := option (list nat * list (list nat)).       (* visited, components (vertex lists) *)
Definition cc_step (nbrs : nat -> list nat) (fuel : nat) (st : cc_state) (v : nat) : cc_state :=
  match st with
  | None => None
  | Some (visited, comps) =>
      if mem v visited then st
      else match collect nbrs fuel [v] visited [] with
           | Some (comp, visited') => Some (visited', comps ++ [comp])
           | None => None
           end
  end.
Definition components_fuel (g : zgraph) (fuel : nat) : cc_state :=
  fold_left (cc_step (g_nbrs g) fuel) (g_verts g) (Some ([], [])).
(* enough fuel for every BFS: one iteration per queue entry; at most 1 + sum of degrees entries are ever queued *)
Definition cc_fuel (g : zgraph) : nat :=
  S (S (length (g_verts g) + list_sum (map (fun v => length (g_nbrs g v)) (g_verts g)))).
Definition components (g : zgraph) : cc_state := components_fuel g (cc_fuel g).

(* output bookkeeping.  output_indices = {vertex: idx for idx, vertex in enumerate(outputs)} *)
Fixpoint index_of (x : nat) (l : list nat) : option nat :=
  match l with
  | [] => None
  | y :: r => if Nat.eqb x y then Some 0 else match index_of x r with Some i => Some (S i) | None => None end
  end.
Fixpoint insert_nat (x : nat) (l : list nat) : list nat :=
  match l with [] => [x] | y :: r => if x <=? y then x :: y :: r else y :: insert_nat x r end.
Definition sort_nat (l : list nat) : list nat := fold_right insert_nat [] l.
(* [output_indices[v] for v in component_vertices if v in output_indices] *)
Definition comp_out_indices_unsorted (outs comp : list nat) : list nat :=
  flat_map (fun v => match index_of v outs with Some i => [i] | None => [] end) comp.
(* ... .sort() *)
Definition comp_out_indices (outs comp : list nat) : list nat := sort_nat (comp_out_indices_unsorted outs comp).
(* _induced_subgraph: component_outputs = tuple(vert_map[v] for v in g.outputs() if v in vert_map) (original names) *)
Definition sub_outputs (outs comp : list nat) : list nat := filter (fun v => mem v comp) outs.
(* positions of the global outputs that lie in the component, ascending *)
Definition out_positions (outs comp : list nat) : list nat :=
  filter (fun i => mem (nth i outs 0) comp) (seq 0 (length outs)).

(* the ConnectedComponent records: (vertex list, output_indices) *)
Definition connected_components (g : zgraph) : option (list (list nat * list nat)) :=
  match components g with
  | Some (_, comps) => Some (map (fun c => (c, comp_out_indices (g_outs g) c)) comps)
  | None => None
  end.

(* graph given by an association list of adjacency lists (for the executable correspondence) *)
Definition graph_of_adj (adj : list (nat * list nat)) (outs : list nat) : zgraph :=
  ZG (map fst adj)
     (fun v => match find (fun e => Nat.eqb (fst e) v) adj with Some e => snd e | None => [] end)
     outs.
