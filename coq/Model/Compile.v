(* Hand model (tie B) of tsim/compile/compile.py::compile_scalar_graphs, and of the part of
   pyzx_param/graph/scalar.py it reads (the `Scalar` record, `DyadicNumber` normalisation and product).
   Executable, no proofs.  Tied to the running code by harness/props/c10.py (tables integer-exact).

   Representation choices (all mirrored by the harness when it writes a pyzx Scalar as a Coq literal):
   * a parameter name is a `var` (nat); `params` is the list of names, position = column;
     a Python set of names is a list of vars (set semantics <-> NoDup, required by the theorems);
   * `phasenodes[i]`/`phasenodevars[i]` are zipped; a phase node k/4 is stored as its numerator k
     (compile asserts denominator in [1,2,4] and takes int(phase * 4));
   * `phase` is numerator / denominator of the Python Fraction;
   * `approximate_floatfactor` (a Python complex) is an opaque symbol, see `afac`;
   * the arrays of shape (G, T, ...) of `CompiledScalarGraphs` are kept as one record per graph (row);
     the `tbl_*` projections at the end give back the arrays for the integer-exact comparison.
   Not modelled: `params` with duplicates (the dict keeps the last index), variables missing from
   `params` (KeyError), values that do not fit the uint8/int32 arrays (numpy/JAX raise OverflowError). *)
From Coq Require Import ZArith List Bool PeanoNat.
Import ListNotations.
Require Import TV.Base.D8 TV.Model.ExactScalar.
Open Scope Z_scope.

Notation var := nat (only parsing).          (* a parameter name *)

(* complex128 values the exact arithmetic does not see: 1.0, an arbitrary float, or a float times exp(i pi pn/pd) *)
Inductive afac := AOne | AOpaque (id : Z) | ARot (f : afac) (pn : Z) (pd : positive).
Definition afac_is_one (f : afac) : bool := match f with AOne => true | _ => false end.   (* `!= 1.0` negated *)

(* DyadicNumber: (a + b w + c i + d conj(w)) / 2^k *)
Record dyadic := mkDy { dy_k : Z; dy_c : q4 }.
(* SpiderPair: alpha, beta multiples of pi/4; paramsA, paramsB *)
Record spider_pair := mkSP { sp_alpha : Z; sp_beta : Z; sp_A : list var; sp_B : list var }.
(* one side of a pi-pair: does the set contain the constant "1", and its variables *)
Definition pside := (bool * list var)%type.

Record scalar := mkScalar {
  s_power2 : Z;                              (* power of sqrt 2 *)
  s_phase_n : Z; s_phase_d : positive;       (* phase = n/d, in units of pi *)
  s_pi_pair : list (pside * pside);          (* phasevars_pi_pair *)
  s_halfpi1 : list (list var);               (* phasevars_halfpi[1] (absent key = []) *)
  s_halfpi3 : list (list var);               (* phasevars_halfpi[3] *)
  s_phasepairs : list spider_pair;
  s_phasenodes : list (Z * list var);        (* zip(4 * phasenodes, phasenodevars) *)
  s_floatfactor : dyadic;
  s_approx : afac;                           (* approximate_floatfactor *)
  s_is_zero : bool }.

(* ------------------------------------------------------------------ bit strings over params *)
Definition mem (v : var) (vs : list var) : bool := existsb (Nat.eqb v) vs.
(* bitstr = [0] * n_params; for v in vs: bitstr[char_to_idx[v]] = 1 *)
Definition bitstr (ps vs : list var) : list bool := map (fun p => mem p vs) ps.
Definition zero_bits (ps : list var) : list bool := map (fun _ => false) ps.
Fixpoint bl_eqb (a b : list bool) : bool :=
  match a, b with
  | [], [] => true
  | x :: a', y :: b' => Bool.eqb x y && bl_eqb a' b'
  | _, _ => false
  end.
Definition b2z (b : bool) : Z := if b then 1 else 0.
Definition zsum (l : list Z) : Z := fold_right Z.add 0 l.

(* ------------------------------------------------------------------ term lists per graph *)
Definition aterm := (Z * list bool)%type.                         (* const phase (k of k pi/4), mask *)
Definition bterm := (Z * list bool)%type.                         (* term type in {2,4,6}, mask *)
Definition cterm := (Z * list bool * Z * list bool)%type.         (* const bit a, mask a, const bit b, mask b *)
Definition dterm := (Z * Z * list bool * list bool)%type.         (* alpha, beta, mask a, mask b *)

Definition a_terms (ps : list var) (g : scalar) : list aterm :=
  map (fun t => (fst t, bitstr ps (snd t))) (s_phasenodes g).

(* bitstr_to_j: insertion-ordered defaultdict(int); d[key] = (d[key] + j) % 4 *)
Fixpoint acc_add (key : list bool) (j : Z) (d : list (list bool * Z)) : list (list bool * Z) :=
  match d with
  | [] => [(key, (0 + j) mod 4)]
  | e :: r => if bl_eqb (fst e) key then (fst e, (snd e + j) mod 4) :: r else e :: acc_add key j r
  end.
Definition b_acc (ps : list var) (g : scalar) : list (list bool * Z) :=
  fold_left (fun d vs => acc_add (bitstr ps vs) 3 d) (s_halfpi3 g)
    (fold_left (fun d vs => acc_add (bitstr ps vs) 1 d) (s_halfpi1 g) []).
Definition b_terms (ps : list var) (g : scalar) : list bterm :=
  map (fun e => (snd e * 2, fst e)) (filter (fun e => negb (snd e =? 0)) (b_acc ps g)).

Definition c_terms (ps : list var) (g : scalar) : list cterm :=
  map (fun pq => (b2z (fst (fst pq)), bitstr ps (snd (fst pq)), b2z (fst (snd pq)), bitstr ps (snd (snd pq)))) (s_pi_pair g).

Definition d_terms (ps : list var) (g : scalar) : list dterm :=
  map (fun pp => (sp_alpha pp, sp_beta pp, bitstr ps (sp_A pp), bitstr ps (sp_B pp))) (s_phasepairs g).

(* ------------------------------------------------------------------ static data *)
(* phase.denominator in [1, 2, 4]  ->  4 / denominator *)
Definition quarter_den (d : positive) : option Z :=
  match d with 1%positive => Some 4 | 2%positive => Some 2 | 4%positive => Some 1 | _ => None end.
(* (phase index = int(float(phase) * 4), approximate factor) after the optional folding of the phase *)
Definition static_phase (g : scalar) : Z * afac :=
  match quarter_den (s_phase_d g) with
  | Some m => (s_phase_n g * m, s_approx g)
  | None => (0, ARot (s_approx g) (s_phase_n g) (s_phase_d g))
  end.

(* DyadicNumber.__init__: while a, b, c, d all even: halve, k -= 1.  Python ints are unbounded; the loop does not
   terminate on (0,0,0,0) -- modelled as fuel exhaustion (None).  Enough fuel for non-zero input: Proofs. *)
Fixpoint dy_norm_fuel (n : nat) (k : Z) (c : q4) : option dyadic :=
  if all_even c then match n with O => None | S m => dy_norm_fuel m (k - 1) (halve c) end
  else Some (mkDy k c).
Definition dy_fuel (c : q4) : nat := S (Z.to_nat (Z.log2 (norm1 c))).
Definition dy_make (k : Z) (c : q4) : option dyadic := dy_norm_fuel (dy_fuel c) k c.
Definition dy_mul (x y : dyadic) : option dyadic := dy_make (dy_k x + dy_k y) (q4_mul_ref (dy_c x) (dy_c y)).
Definition dy_sqrt2 : dyadic := mkDy 0 (0, 1, 0, 1).            (* DyadicNumber(k=0, a=0, b=1, c=0, d=1) *)

(* dn = floatfactor.copy(); odd power of sqrt 2 folded into dn; p_sqrt2 -= 2 * dn.k; dn.k = 0; (p_sqrt2 // 2, [a,b,c,d]) *)
Definition static_float (g : scalar) : option (Z * q4) :=
  match dy_make (dy_k (s_floatfactor g)) (dy_c (s_floatfactor g)) with
  | None => None
  | Some dn =>
    let p := s_power2 g in
    let r := if Z.odd p then match dy_mul dn dy_sqrt2 with Some dn' => Some (p - 1, dn') | None => None end
             else Some (p, dn) in
    match r with
    | Some (p', dn') => Some ((p' - 2 * dy_k dn') / 2, dy_c dn')
    | None => None
    end
  end.

(* ------------------------------------------------------------------ padding and assembly *)
Definition pad {A} (d : A) (n : nat) (l : list A) : list A := l ++ repeat d (n - length l).
Definition max_len {A} (ll : list (list A)) : nat := fold_right Nat.max 0%nat (map (@length A) ll).

Record cgraph := mkCG {
  cg_a : list aterm; cg_a_num : Z;
  cg_b : list bterm;
  cg_c : list cterm;
  cg_d : list dterm; cg_d_num : Z;
  cg_phase_idx : Z; cg_approx : afac; cg_power2 : Z; cg_float : q4 }.

Record compiled := mkC { c_n_params : nat; c_has_approx : bool; c_graphs : list cgraph }.

Fixpoint all_some {A} (l : list (option A)) : option (list A) :=
  match l with
  | [] => Some []
  | Some x :: r => match all_some r with Some r' => Some (x :: r') | None => None end
  | None :: _ => None
  end.

Definition compile_one (ps : list var) (ma mb mc md : nat) (g : scalar) : option cgraph :=
  match static_float g with
  | None => None
  | Some (p2, ff) =>
    let z := zero_bits ps in
    Some (mkCG (pad (0, z) ma (a_terms ps g)) (Z.of_nat (length (a_terms ps g)))
               (pad (0, z) mb (b_terms ps g))
               (pad (0, z, 0, z) mc (c_terms ps g))
               (pad (0, 0, z, z) md (d_terms ps g)) (Z.of_nat (length (d_terms ps g)))
               (fst (static_phase g)) (snd (static_phase g)) p2 ff)
  end.

Definition compile_scalar_graphs (gs : list scalar) (ps : list var) : option compiled :=
  let kept := filter (fun g => negb (s_is_zero g)) gs in
  let ma := max_len (map (a_terms ps) kept) in
  let mb := max_len (map (b_terms ps) kept) in
  let mc := max_len (map (c_terms ps) kept) in
  let md := max_len (map (d_terms ps) kept) in
  match all_some (map (compile_one ps ma mb mc md) kept) with
  | None => None
  | Some cgs => Some (mkC (length ps) (existsb (fun cg => negb (afac_is_one (cg_approx cg))) cgs) cgs)
  end.

(* ------------------------------------------------------------------ the arrays of CompiledScalarGraphs *)
Definition bz (l : list bool) : list Z := map b2z l.
Definition tbl_num_graphs (c : compiled) : Z := Z.of_nat (length (c_graphs c)).
Definition tbl_a_const_phases c := map (fun g => map fst (cg_a g)) (c_graphs c).
Definition tbl_a_param_bits c := map (fun g => map (fun t => bz (snd t)) (cg_a g)) (c_graphs c).
Definition tbl_a_num_terms c := map cg_a_num (c_graphs c).
Definition tbl_b_term_types c := map (fun g => map fst (cg_b g)) (c_graphs c).
Definition tbl_b_param_bits c := map (fun g => map (fun t => bz (snd t)) (cg_b g)) (c_graphs c).
Definition tbl_c_const_bits_a c := map (fun g => map (fun t : cterm => fst (fst (fst t))) (cg_c g)) (c_graphs c).
Definition tbl_c_param_bits_a c := map (fun g => map (fun t : cterm => bz (snd (fst (fst t)))) (cg_c g)) (c_graphs c).
Definition tbl_c_const_bits_b c := map (fun g => map (fun t : cterm => snd (fst t)) (cg_c g)) (c_graphs c).
Definition tbl_c_param_bits_b c := map (fun g => map (fun t : cterm => bz (snd t)) (cg_c g)) (c_graphs c).
Definition tbl_d_const_alpha c := map (fun g => map (fun t : dterm => fst (fst (fst t))) (cg_d g)) (c_graphs c).
Definition tbl_d_const_beta c := map (fun g => map (fun t : dterm => snd (fst (fst t))) (cg_d g)) (c_graphs c).
Definition tbl_d_param_bits_a c := map (fun g => map (fun t : dterm => bz (snd (fst t))) (cg_d g)) (c_graphs c).
Definition tbl_d_param_bits_b c := map (fun g => map (fun t : dterm => bz (snd t)) (cg_d g)) (c_graphs c).
Definition tbl_d_num_terms c := map cg_d_num (c_graphs c).
Definition tbl_phase_indices c := map cg_phase_idx (c_graphs c).
Definition tbl_power2 c := map cg_power2 (c_graphs c).
Definition tbl_floatfactor c := map cg_float (c_graphs c).
(* per graph: is the approximate factor exactly 1.0 *)
Definition tbl_approx_is_one c := map (fun g => afac_is_one (cg_approx g)) (c_graphs c).

(* ================================================================== reference semantics and domain
   `scalar_value` restates pyzx_param/graph/scalar.py::Scalar.evaluate_scalar, factor by factor and in the same order, in an
   arbitrary commutative ring R with an element w (standing for e^{i pi/4}; the theorems assume w^4 = -1) and an element
   `half` (assumed: half + half = 1).  `vals` is pyzx's `vals` dict restricted to 0/1 values (`vals["1"] = 1` is `side_sum`).
   cexp(x) = e^{i pi x}: for x = e/4 with e >= 0 it is w^e (`cexp4 e`); the phase of the scalar is an arbitrary fraction n/d and
   uses the abstract character `cexp n d` (the theorems assume cexp n 1 = w^(4n), cexp n 2 = w^(2n), cexp n 4 = w^n).
   Floating-point numbers are opaque ring elements `opq i`. *)
Section ScalarValue.
  Variable R : Type.
  Variables (rO rI : R) (radd rmul rsub : R -> R -> R) (ropp : R -> R).
  Variable w : R.
  Variable half : R.
  Variable cexp : Z -> positive -> R.
  Variable opq : Z -> R.

  Fixpoint rpow (x : R) (n : nat) : R := match n with O => rI | S k => rmul x (rpow x k) end.
  Fixpoint rprodl (l : list R) : R := match l with [] => rI | x :: r => rmul x (rprodl r) end.
  Fixpoint rsuml (l : list R) : R := match l with [] => rO | x :: r => radd x (rsuml r) end.
  (* b^n for an integer n, given the inverse bi of b *)
  Definition zpow (b bi : R) (n : Z) : R := if 0 <=? n then rpow b (Z.to_nat n) else rpow bi (Z.to_nat (- n)).
  Definition r2 : R := radd rI rI.
  Definition pow2 (n : Z) : R := zpow r2 half n.                              (* 2^n *)
  Definition sqrt2 : R := rsub w (rmul w (rmul w w)).                         (* w + conj(w) = w - w^3 *)
  Definition sqrt2pow (n : Z) : R := zpow sqrt2 (rmul sqrt2 half) n.          (* sqrt(2)^n *)
  Definition cexp4 (e : Z) : R := wpow R rI rmul w (Z.to_nat e).              (* e^{i pi e/4}, e >= 0 *)
  Definition den4 (c : q4) : R := den R rO rI radd rmul ropp w c.             (* a + b w + c w^2 - d w^3 *)

  Definition vsum (vals : var -> Z) (vs : list var) : Z := zsum (map vals vs).          (* sum(vals[v] for v in vs) *)
  Definition side_sum (vals : var -> Z) (s : pside) : Z := b2z (fst s) + vsum vals (snd s).   (* with vals["1"] = 1 *)
  Definition dy_value (d : dyadic) : R := rmul (den4 (dy_c d)) (pow2 (- dy_k d)).       (* DyadicNumber.to_complex *)
  Fixpoint afac_value (f : afac) : R :=
    match f with AOne => rI | AOpaque i => opq i | ARot g n d => rmul (afac_value g) (cexp n d) end.

  Definition node_value (vals : var -> Z) (t : Z * list var) : R :=            (* 1 + cexp(const + sum) *)
    radd rI (cexp4 (fst t + 4 * vsum vals (snd t))).
  Definition pair_value (vals : var -> Z) (pp : spider_pair) : R :=            (* 1 + cexp(psi) + cexp(phi) - cexp(psi + phi) *)
    let psi := sp_alpha pp + 4 * vsum vals (sp_A pp) in
    let phi := sp_beta pp + 4 * vsum vals (sp_B pp) in
    rsub (radd (radd rI (cexp4 psi)) (cexp4 phi)) (cexp4 (psi + phi)).
  Definition halfpi_value (vals : var -> Z) (c : Z) (vs : list var) : R :=     (* cexp((sum % 2) * c / 2) *)
    cexp4 (2 * (c * (vsum vals vs mod 2))).
  Definition pipair_value (vals : var -> Z) (pq : pside * pside) : R :=        (* cexp(psi * phi) *)
    cexp4 (4 * (side_sum vals (fst pq) * side_sum vals (snd pq))).

  Definition scalar_value (vals : var -> Z) (g : scalar) : R :=
    if s_is_zero g then rO else
    rmul (rmul (rmul (rmul (rmul (rmul (rmul
      (rprodl (map (node_value vals) (s_phasenodes g)))
      (rprodl (map (pair_value vals) (s_phasepairs g))))
      (rmul (rprodl (map (halfpi_value vals 1) (s_halfpi1 g))) (rprodl (map (halfpi_value vals 3) (s_halfpi3 g)))))
      (rprodl (map (pipair_value vals) (s_pi_pair g))))
      (cexp (s_phase_n g) (s_phase_d g)))
      (sqrt2pow (s_power2 g)))
      (dy_value (s_floatfactor g)))
      (afac_value (s_approx g)).
End ScalarValue.

(* what compile_scalar_graphs accepts without raising, and pyzx's invariants the model relies on *)
Definition vars_ok (ps vs : list var) : Prop := NoDup vs /\ incl vs ps.             (* a set of names, all in params *)
Definition byte (k : Z) : Prop := 0 <= k < 256.                                     (* fits the uint8 table *)
Record wf_scalar (ps : list var) (g : scalar) : Prop := mkWf {
  wf_nodes : Forall (fun t => byte (fst t) /\ vars_ok ps (snd t)) (s_phasenodes g);
  wf_pairs : Forall (fun pp => byte (sp_alpha pp) /\ byte (sp_beta pp) /\ vars_ok ps (sp_A pp) /\ vars_ok ps (sp_B pp)) (s_phasepairs g);
  wf_hp1 : Forall (vars_ok ps) (s_halfpi1 g);
  wf_hp3 : Forall (vars_ok ps) (s_halfpi3 g);
  wf_pi : Forall (fun pq => vars_ok ps (snd (fst pq)) /\ vars_ok ps (snd (snd pq))) (s_pi_pair g);
  wf_phase : 0 <= s_phase_n g /\ (forall m, quarter_den (s_phase_d g) = Some m -> s_phase_n g * m < 8);   (* phase in [0, 2) *)
  wf_float : dy_c (s_floatfactor g) <> q4_zero                                      (* DyadicNumber(0,0,0,0) cannot be constructed *)
}.
