(* Executable checks behind the C01 composition theorem: every noiseless single-qubit collapse fragment
   (M MX MY MR MRX MRY, plain and inverted; R RX RY), entered on a lane in EVERY flag state
   (exists / does not exist yet, last spider Z / X), for every value of the record and silent bit it reads, is the documented
   Kraus operator times ONE power of sqrt2 (per entry state) and a unit phase; its effect on the lane flags and counters does
   not depend on the bits.  No proofs. *)
From Coq Require Import ZArith QArith List Bool String.
Import ListNotations.
Require Import TV.Base.EP TV.Model.Lane TV.Spec.Born TV.gen.Gen_instructions TV.Model.GateCheck TV.Model.InstrCheck.

(* one lane, in a chosen flag state, amplitude = basis vector j *)
Definition start_state (ex : bool) (col : colour) (j : nat) : lstate :=
  mkL (tabulate 2 (fun i => if Nat.eqb i j then p1 else p0)) p1 [ex] [col] 0 0 0 0 [] [] [] true.
Definition mat_at (ex : bool) (col : colour) (b : bits) (ops : list (op nat)) : list vec :=
  map (fun j => final_vec (run 1 b ops (start_state ex col j))) [0; 1]%nat.
Definition entry_kinds : list (bool * colour) := [(true, CZc); (true, CXc); (false, CXc); (false, CZc)].

(* what a reset does to a lane that does not exist yet (it holds |0>): the basis change that maps |0> to the +1 eigenstate *)
Definition mHYZ : m2 := (psqrt2inv, pneg (pmul pi_ psqrt2inv), pmul pi_ psqrt2inv, pneg psqrt2inv).
Definition prep_m (basis : pauli) : m2 := match basis with PZ => mI | PX => mH | PY => mHYZ end.

(* the effect on the flags / counters: bit independent, lane exists afterwards, at most one record and one silent bit read *)
Definition colour_eqb (a b : colour) : bool := match a, b with CZc, CZc | CXc, CXc => true | _, _ => false end.
Definition flags_of (s : lstate) : list bool * list colour * nat * nat * nat * nat := (exists_ s, colour_ s, nrec s, nsil s, nerr s, ncorr s).
Definition flags_eqb (s s' : lstate) : bool :=
  match exists_ s, exists_ s', colour_ s, colour_ s' with
  | [a], [a'], [c], [c'] => Bool.eqb a a' && colour_eqb c c' && Nat.eqb (nrec s) (nrec s') && Nat.eqb (nsil s) (nsil s')
                            && Nat.eqb (nerr s) (nerr s') && Nat.eqb (ncorr s) (ncorr s')
  | _, _, _, _ => false
  end.
(* every value of the (at most) one record bit, one silent bit and four error bits a fragment can read *)
Definition all_bits6 : list bits :=
  flat_map (fun r => flat_map (fun s => map (fun e => mkB [r] [s] e) (bitvecs 4)) bools) bools.
Definition b00 : bits := mkB [false] [false] [false; false; false; false].
Definition flags_const (ex : bool) (col : colour) (ops : list (op nat)) : bool :=
  let ref := run 1 b00 ops (start_state ex col 0) in
  forallb (fun b => forallb (fun j => flags_eqb (run 1 b ops (start_state ex col j)) ref) [0; 1]%nat) all_bits6
  && match exists_ ref with [true] => true | _ => false end
  && Nat.leb (nrec ref) 1 && Nat.leb (nsil ref) 1 && Nat.leb (nerr ref) 2 && Nat.eqb (ncorr ref) 0.

Definition spec_meas_m (basis : pauli) (is_reset : bool) (inv : bool) (b : bits) : m2 :=
  let o := xorb (bit (brec b) 0) inv in if is_reset then reset_m basis o else proj_m basis o.
Definition m2_cols (m : m2) : list vec := let '(m00, m01, m10, m11) := m in [[m00; m10]; [m01; m11]].

Definition check_meas_at (row : string * (pauli * bool * (nat -> Q -> bool -> list (op nat)))) : bool :=
  let '(_, (basis, is_reset, g)) := row in
  forallb (fun inv => forallb (fun k : bool * colour => let '(ex, col) := k in
    agree_all (map (fun b => (mat_at ex col b (g 0%nat qz inv), m2_cols (spec_meas_m basis is_reset inv b))) all_bits6)
    && flags_const ex col (g 0%nat qz inv)) entry_kinds) bools.
(* noisy measurement: the reported bit is the true outcome xor the noise bit; the post-measurement state follows the true outcome *)
Definition spec_meas_noisy_m (basis : pauli) (is_reset : bool) (inv : bool) (b : bits) : m2 :=
  let o := xorb (xorb (bit (brec b) 0) inv) (bit (berr b) 0) in if is_reset then reset_m basis o else proj_m basis o.
Definition check_meas_noisy_at (row : string * (pauli * bool * (nat -> Q -> bool -> list (op nat)))) : bool :=
  let '(_, (basis, is_reset, g)) := row in
  forallb (fun inv => forallb (fun k : bool * colour => let '(ex, col) := k in
    agree_all (map (fun b => (mat_at ex col b (g 0%nat qp inv), m2_cols (spec_meas_noisy_m basis is_reset inv b))) all_bits6)
    && flags_const ex col (g 0%nat qp inv)) entry_kinds) bools.
Definition spec_reset_m (basis : pauli) (ex : bool) (b : bits) : m2 := if ex then reset_m basis (bit (bsil b) 0) else prep_m basis.
Definition check_reset_at (row : string * (pauli * (nat -> list (op nat)))) : bool :=
  let '(_, (basis, g)) := row in
  forallb (fun k : bool * colour => let '(ex, col) := k in
    agree_all (map (fun b => (mat_at ex col b (g 0%nat), m2_cols (spec_reset_m basis ex b))) all_bits6)
    && flags_const ex col (g 0%nat)) entry_kinds.

(* single-qubit Pauli channels: error bits (e0, e1) of the channel select the documented Pauli *)
Definition noise1_fns : list (string * (nat -> list (op nat))) :=
  [("x_error", fun q => g_x_error q qp); ("y_error", fun q => g_y_error q qp); ("z_error", fun q => g_z_error q qp);
   ("depolarize1", fun q => g_depolarize1 q qp); ("pauli_channel_1", fun q => g_pauli_channel_1 q qp qp qp)]%string.
Definition spec_noise1_m (name : string) (b : bits) : m2 :=
  let e0 := bit (berr b) 0 in let e1 := bit (berr b) 1 in
  if String.eqb name "x_error" then (if e0 then mX else mI)
  else if String.eqb name "y_error" then (if e0 then mY else mI)
  else if String.eqb name "z_error" then (if e0 then mZ else mI)
  else pauli_opt_m (pc1_pauli ((if e0 then 1 else 0) + (if e1 then 2 else 0))).     (* tsim draws Z^e0 then X^e1 *)
Definition check_noise1_at (row : string * (nat -> list (op nat))) : bool :=
  let '(name, g) := row in
  forallb (fun k : bool * colour => let '(ex, col) := k in
    agree_all (map (fun b => (mat_at ex col b (g 0%nat), m2_cols (spec_noise1_m name b))) all_bits6)
    && flags_const ex col (g 0%nat)) entry_kinds.
