(* Model of tsim/noise/dem.py::get_detector_error_model on an abstract instruction list.  No proofs here.

   The facts the model is parametrised by (count rule, shift sign, mapping offset, filter) are REGENERATED
   from the source on every run (gen/Gen_dem_facts.v); the table of Stim's record-appending gates comes
   from the installed Stim.

   An instruction is abstracted to what the relocation looks at:
     DMeas name sizes   a record-appending instruction; one entry per target group (= per result Stim
                        appends), holding the number of qubit/Pauli targets of the group
     DObs idx lbs       OBSERVABLE_INCLUDE(idx) rec[lb] ...   (look-backs as negative integers, t.value)
     DDet lbs           DETECTOR rec[lb] ...
     DOther name n      anything else (n = len(targets))                                              *)
From Coq Require Import ZArith List String Bool.
Import ListNotations.
Require Import TV.Model.DemFacts TV.gen.Gen_dem_facts.
Open Scope string_scope.
Open Scope list_scope.
Open Scope Z_scope.

Inductive dins :=
| DMeas (name : string) (sizes : list nat)
| DObs (idx : Z) (lbs : list Z)
| DDet (lbs : list Z)
| DOther (name : string) (ntargets : nat).

Definition smem (s : string) (l : list string) : bool := existsb (String.eqb s) l.
Definition sumn (l : list nat) : nat := fold_right Nat.add 0%nat l.

(* ---- what Stim does: every group of a record-appending instruction appends one result ------------- *)
Definition true_count (i : dins) : Z :=
  match i with DMeas _ sizes => Z.of_nat (List.length sizes) | _ => 0 end.

(* ---- what dem.py computes ------------------------------------------------------------------------------ *)
Definition ins_name (i : dins) : string :=
  match i with DMeas n _ => n | DObs _ _ => "OBSERVABLE_INCLUDE" | DDet _ => "DETECTOR" | DOther n _ => n end.
(* len(instruction.targets_copy()): an MPP product of s Paulis has s - 1 combiner targets *)
Definition raw_targets (i : dins) : Z :=
  match i with
  | DMeas n sizes => if String.eqb n "MPP" then Z.of_nat (sumn (map (fun s => 2 * s - 1)%nat sizes)) else Z.of_nat (sumn sizes)
  | DObs _ l | DDet l => Z.of_nat (List.length l)
  | DOther _ n => Z.of_nat n
  end.
Definition combiner_targets (i : dins) : Z :=
  match i with
  | DMeas n sizes => if String.eqb n "MPP" then Z.of_nat (sumn (map (fun s => s - 1)%nat sizes)) else 0
  | _ => 0
  end.
Definition impl_count (r : count_rule) (i : dins) : Z :=
  match r with
  | ByStim => true_count i
  | ByNames names mpp =>
      if smem (ins_name i) names then
        if mpp && String.eqb (ins_name i) "MPP" then raw_targets i - 2 * combiner_targets i else raw_targets i
      else 0
  end.

(* obs: an insertion-ordered dict idx -> look-backs *)
Definition assoc := list (Z * list Z).
Definition shift_all (sign n : Z) (o : assoc) : assoc :=
  map (fun kl => (fst kl, map (fun t => t + sign * n) (snd kl))) o.
Fixpoint extend (o : assoc) (idx : Z) (l : list Z) : assoc :=
  match o with
  | [] => [(idx, l)]
  | (k, l0) :: r => if k =? idx then (k, l0 ++ l) :: r else (k, l0) :: extend r idx l
  end.

(* the loop `for instruction in stim_circuit.flattened()` *)
Fixpoint relocate (rule : count_rule) (sign : Z) (c : list dins) (o : assoc) (out : list dins) : assoc * list dins :=
  match c with
  | [] => (o, out)
  | i :: r =>
      let o1 := shift_all sign (impl_count rule i) o in
      match i with
      | DObs idx l => relocate rule sign r (extend o1 idx l) out
      | _ => relocate rule sign r o1 (out ++ [i])
      end
  end.
(* the circuit handed to stim: observables as trailing detectors, in dict order *)
Definition relocated (rule : count_rule) (sign : Z) (c : list dins) : list dins :=
  let '(o, out) := relocate rule sign c [] [] in out ++ map (fun kl => DDet (snd kl)) o.
Definition obs_keys_impl (rule : count_rule) (sign : Z) (c : list dins) : list Z :=
  map fst (fst (relocate rule sign c [] [])).

(* ---- the specification, in absolute measurement indices -------------------------------------------- *)
Fixpoint total_meas (c : list dins) : Z :=
  match c with [] => 0 | i :: r => true_count i + total_meas r end.
(* measurement indices XORed into observable idx, in program order; m = results recorded so far *)
Fixpoint abs_obs (c : list dins) (m : Z) (idx : Z) : list Z :=
  match c with
  | [] => []
  | i :: r => (match i with DObs k l => if k =? idx then map (fun t => m + t) l else [] | _ => [] end)
              ++ abs_obs r (m + true_count i) idx
  end.
Fixpoint abs_dets (c : list dins) (m : Z) : list (list Z) :=
  match c with
  | [] => []
  | i :: r => (match i with DDet l => [map (fun t => m + t) l] | _ => [] end) ++ abs_dets r (m + true_count i)
  end.
Fixpoint add_key (ks : list Z) (k : Z) : list Z :=
  match ks with [] => [k] | x :: r => if x =? k then ks else x :: add_key r k end.
(* observable indices in order of first declaration *)
Fixpoint obs_keys_from (c : list dins) (ks : list Z) : list Z :=
  match c with
  | [] => ks
  | DObs k _ :: r => obs_keys_from r (add_key ks k)
  | _ :: r => obs_keys_from r ks
  end.
Definition obs_keys (c : list dins) : list Z := obs_keys_from c [].
Definition is_obs (i : dins) : bool := match i with DObs _ _ => true | _ => false end.

(* ---- Stim's error analysis, as far as it matters here ---------------------------------------------- *)
(* An error source has a probability (in 1/1024) and flips a set of measurement results; a detector or an
   observable is flipped iff an odd number of the results it XORs is flipped.  That the analysis depends on
   annotations only through these measurement sets is the oracle assumption of C18_dem. *)
Definition source := (Z * (Z -> bool))%type.
Inductive dtarget := TD (j : nat) | TL (k : Z).
Definition mech := (Z * list dtarget)%type.

Definition par (f : Z -> bool) (ms : list Z) : bool := fold_right xorb false (map f ms).
Fixpoint hit_from (f : Z -> bool) (sets : list (list Z)) (j : nat) : list nat :=
  match sets with
  | [] => []
  | ms :: r => (if par f ms then [j] else []) ++ hit_from f r (S j)
  end.
Definition hit_obs (f : Z -> bool) (c : list dins) : list Z :=
  filter (fun k => par f (abs_obs c 0 k)) (obs_keys c).
Definition nonempty (m : mech) : bool := match snd m with [] => false | _ => true end.

(* stim.Circuit.detector_error_model on the original circuit *)
Definition dem_stim (E : list source) (c : list dins) : list mech :=
  filter nonempty
    (map (fun e => (fst e, map TD (hit_from (snd e) (abs_dets c 0) 0%nat) ++ map TL (hit_obs (snd e) c))) E).
(* ... on the relocated circuit (it has no observables) *)
Definition dem_relocated (E : list source) (rule : count_rule) (sign : Z) (c : list dins) : list mech :=
  filter nonempty
    (map (fun e => (fst e, map TD (hit_from (snd e) (abs_dets (relocated rule sign c) 0) 0%nat))) E).

(* mapping[num_detectors + offset + j] = j-th key;  `t.val in mapping` *)
Definition map_back_target (N : nat) (offset : Z) (keys : list Z) (t : dtarget) : dtarget :=
  match t with
  | TD j => let d := Z.of_nat j - Z.of_nat N - offset in
            if (0 <=? d) && (d <? Z.of_nat (List.length keys)) then TL (nth (Z.to_nat d) keys 0) else TD j
  | TL k => TL k
  end.
Definition is_logical (t : dtarget) : bool := match t with TL _ => true | TD _ => false end.
Definition dropped_by_filter (fk : filter_kind) (p : Z) (m : mech) : bool :=
  (fst m =? p) &&
  match fk with
  | FilterAllLogical => forallb is_logical (snd m)
  | FilterAnyLogical => existsb is_logical (snd m)
  | FilterAlways => true
  | FilterNone => false
  end.
Definition num_dets (c : list dins) : nat := List.length (abs_dets c 0).

(* what get_detector_error_model returns *)
Definition dem_tsim_nofilter (E : list source) (rule : count_rule) (sign offset : Z) (c : list dins) : list mech :=
  map (fun m => (fst m, map (map_back_target (num_dets c) offset (obs_keys_impl rule sign c)) (snd m)))
      (dem_relocated E rule sign c).
Definition dem_tsim (E : list source) (rule : count_rule) (sign offset : Z) (fk : filter_kind) (p : Z) (c : list dins) : list mech :=
  filter (fun m => negb (dropped_by_filter fk p m)) (dem_tsim_nofilter E rule sign offset c).

(* the model instantiated with the facts read from the current source *)
Definition relocated_now (c : list dins) : list dins := relocated dem_rule dem_shift_sign c.
Definition dem_tsim_now (E : list source) (c : list dins) : list mech :=
  dem_tsim E dem_rule dem_shift_sign dem_mapping_offset dem_filter dem_filter_prob c.

(* well-shaped record-appending instructions of the installed Stim *)
Definition shaped (k : mkind) (sizes : list nat) : bool :=
  match k with
  | KSingle => forallb (Nat.eqb 1) sizes
  | KPair => forallb (Nat.eqb 2) sizes
  | KProduct => forallb (Nat.leb 1) sizes
  end.
Fixpoint kind_of (name : string) (tbl : list (string * mkind)) : option mkind :=
  match tbl with [] => None | (n, k) :: r => if String.eqb n name then Some k else kind_of name r end.
Definition stim_instr (i : dins) : bool :=
  match i with
  | DMeas n sizes => match kind_of n stim_meas_table with Some k => shaped k sizes | None => false end
  | DObs _ _ | DDet _ => true
  | DOther n _ => match kind_of n stim_meas_table with Some _ => false | None => negb (smem n ["OBSERVABLE_INCLUDE"; "DETECTOR"]) end
  end.

(* printing for the correspondence check: the trailing detectors and the kept instructions *)
Definition show_reloc (c : list dins) :=
  let '(o, out) := relocate dem_rule dem_shift_sign c [] [] in
  (o, List.length out, map (fun i => impl_count dem_rule i) c).
