(* Executable comparison of the regenerated collapsing / noise / feedback instruction fragments with their
   Kraus-operator specification (Spec/Born.v), for every value of the record, silent and error bits.  No proofs. *)
From Coq Require Import ZArith QArith List Bool String.
Import ListNotations.
Require Import TV.Base.EP TV.Model.Lane TV.Spec.Born TV.gen.Gen_instructions TV.gen.Gen_channel_tables TV.Model.GateCheck.

Definition bools : list bool := [false; true].
Definition all_bits : list bits :=
  flat_map (fun r => flat_map (fun s => map (fun e => mkB [r] [s] [e; e]) bools) bools) bools.
(* all assignments of k error bits *)
Fixpoint bitvecs (k : nat) : list (list bool) :=
  match k with O => [[]] | S k' => flat_map (fun v => [false :: v; true :: v]) (bitvecs k') end.

(* matrix of a program on n lanes that all exist already (columns = images of basis vectors), under bits b *)
Definition mat_b (n : nat) (b : bits) (ops : list (op nat)) : list vec :=
  map (fun j => final_vec (run n b ops (basis_state n j))) (seq 0 (dim n)).
(* the program run on a completely fresh diagram (no lane exists): a single vector *)
Definition vec_fresh (n : nat) (b : bits) (ops : list (op nat)) : list vec :=
  [final_vec (run n b ops (init_state n))].
Definition spec_mat (n : nat) (f : vec -> vec) : list vec :=
  map (fun j => f (tabulate (dim n) (fun i => if Nat.eqb i j then p1 else p0))) (seq 0 (dim n)).
Definition spec_fresh (n : nat) (f : vec -> vec) : list vec :=
  [f (tabulate (dim n) (fun i => if Nat.eqb i 0 then p1 else p0))].

Definition scales : list Z := [0; -1; 1; -2; 2; -3; 3; -4; 4]%Z.
(* one power of sqrt2 for ALL bit values; a unit phase E(k/4) that may depend on the bits *)
Definition agree_all (cases : list (list vec * list vec)) : bool :=
  existsb (fun k => forallb (fun c => has_phase clifford_phases (fst c) (mscale (psqrt2pow k) (snd c))) cases) scales.
(* a non-zero specification somewhere: guards against vacuous agreement *)
Definition nonzero_m (m : list vec) : bool := existsb (fun col => existsb (fun x => negb (pzero x)) col) m.

Definition qz : Q := 0 # 1.
Definition qp : Q := 1 # 8.        (* any positive value: only `p > 0` matters for the diagram *)

(* ---------------- measurements ---------------- *)
Definition meas_fns : list (string * (pauli * bool * (nat -> Q -> bool -> list (op nat)))) :=
  [("m", (PZ, false, g_m)); ("mx", (PX, false, g_mx)); ("my", (PY, false, g_my));
   ("mr", (PZ, true, g_mr)); ("mrx", (PX, true, g_mrx)); ("mry", (PY, true, g_mry))]%string.
(* reported bit r, inversion inv, noise bit e: true outcome o = r xor inv xor e *)
Definition spec_meas (basis : pauli) (is_reset : bool) (inv : bool) (b : bits) : vec -> vec :=
  let o := xorb (xorb (bit (brec b) 0) inv) (bit (berr b) 0) in
  app1 1 0 (if is_reset then reset_m basis o else proj_m basis o).
Definition check_meas (row : string * (pauli * bool * (nat -> Q -> bool -> list (op nat)))) : bool :=
  let '(_, (basis, is_reset, g)) := row in
  forallb (fun inv =>
    (* noiseless: error bit must not matter: spec uses e = false *)
    agree_all (map (fun b => (mat_b 1 b (g 0%nat qz inv), spec_mat 1 (spec_meas basis is_reset inv (mkB (brec b) (bsil b) [])))) all_bits)
    && agree_all (map (fun b => (vec_fresh 1 b (g 0%nat qz inv), spec_fresh 1 (spec_meas basis is_reset inv (mkB (brec b) (bsil b) [])))) all_bits)
    && agree_all (map (fun b => (mat_b 1 b (g 0%nat qp inv), spec_mat 1 (spec_meas basis is_reset inv b))) all_bits)
    && agree_all (map (fun b => (vec_fresh 1 b (g 0%nat qp inv), spec_fresh 1 (spec_meas basis is_reset inv b))) all_bits)) bools.

(* ---------------- resets ---------------- *)
Definition reset_fns : list (string * (pauli * (nat -> list (op nat)))) :=
  [("r", (PZ, g_r)); ("rx", (PX, g_rx)); ("ry", (PY, g_ry))]%string.
Definition spec_reset (basis : pauli) (b : bits) : vec -> vec := app1 1 0 (reset_m basis (bit (bsil b) 0)).
(* on a fresh diagram the reset just prepares the +1 eigenstate (no silent bit is consumed) *)
Definition spec_prep (basis : pauli) : vec -> vec := fun _ => let '(a, c) := eig_plus basis in [a; c].
Definition check_reset (row : string * (pauli * (nat -> list (op nat)))) : bool :=
  let '(_, (basis, g)) := row in
  agree_all (map (fun b => (mat_b 1 b (g 0%nat), spec_mat 1 (spec_reset basis b))) all_bits)
  && agree_all (map (fun b => (vec_fresh 1 b (g 0%nat), spec_fresh 1 (spec_prep basis))) all_bits).

(* ---------------- MPP ---------------- *)
(* data lanes 0..k-1 exist, the auxiliary lane k does not exist yet (first MPP) or exists (later MPPs) *)
Definition mpp_state (k j : nat) (aux_exists : bool) : lstate :=
  mkL (tabulate (dim (S k)) (fun i => if Nat.eqb i j then p1 else p0)) p1 (repeat true k ++ [aux_exists]) (repeat CZc (S k)) 0 0 0 0 [] [] [] true.
Definition mpp_products : list (list pauli) := [[PX]; [PY]; [PZ]; [PX; PZ]; [PY; PY]; [PZ; PX]; [PX; PY; PZ]].
Definition with_lanes (ps : list pauli) : list (pauli * nat) := combine ps (seq 0 (List.length ps)).
(* result: projector on the data lanes, auxiliary lane left in |o> *)
Definition spec_mpp (k : nat) (ps : list (pauli * nat)) (inv : bool) (b : bits) (v : vec) : vec :=
  let o := xorb (xorb (bit (brec b) 0) inv) (bit (berr b) 0) in
  let w := proj_product (S k) ps o v in
  if o then app1 (S k) k mX w else w.
Definition check_mpp_one (ps : list pauli) (aux_exists : bool) (noisy : bool) : bool :=
  let k := List.length ps in
  let pl := with_lanes ps in
  forallb (fun inv =>
    agree_all (map (fun b =>
      let b' := if noisy then b else mkB (brec b) (bsil b) [] in
      (* columns: data basis states with the auxiliary lane at 0 *)
      (map (fun j => final_vec (run (S k) b (g_mpp k pl inv (if noisy then qp else qz)) (mpp_state k j aux_exists))) (seq 0 (dim k)),
       map (fun j => spec_mpp k pl inv b' (tabulate (dim (S k)) (fun i => if Nat.eqb i j then p1 else p0))) (seq 0 (dim k))))
      (* when the aux lane exists its old content is traced out by the silent bit: only s = 0 is non-zero on the |..0> inputs *)
      (filter (fun b => negb (bit (bsil b) 0)) all_bits))) bools.
Definition check_mpp : bool :=
  forallb (fun ps => check_mpp_one ps false false && check_mpp_one ps true false && check_mpp_one ps false true) mpp_products.

(* ---------------- feedback (record-controlled Paulis) ---------------- *)
Definition fb_state (j : nat) : lstate :=   (* two lanes exist; record 0 was measured on lane 0 *)
  mkL (tabulate 4 (fun i => if Nat.eqb i j then p1 else p0)) p1 [true; true] [CZc; CZc] 1 0 0 0 [0%nat] [] [] true.
Definition fb_rows : list (string * (list (op nat) * pauli)) :=
  [("CX rec q", (g_cnot 0%nat 1%nat (Some (true, false)), PX));
   ("CY rec q", (g_cy 0%nat 1%nat (Some (true, false)), PY));
   ("CZ rec q", (g_cz 0%nat 1%nat (Some (true, false)), PZ));
   ("CZ q rec", (g_cz 1%nat 0%nat (Some (false, true)), PZ));
   ("XCZ q rec", (g_xcz 1%nat 0%nat (Some (false, true)), PX));
   ("YCZ q rec", (g_ycz 1%nat 0%nat (Some (false, true)), PY))]%string.
Definition check_fb (row : string * (list (op nat) * pauli)) : bool :=
  let '(_, (ops, P)) := row in
  agree_all (map (fun r =>
    (map (fun j => final_vec (run 2 (mkB [r] [] []) ops (fb_state j))) (seq 0 4),
     spec_mat 2 (fun v => if r then app1 2 1 (pauli_m P) v else v))) bools)
  && forallb (fun r => forallb (fun j => ok (run 2 (mkB [r] [] []) ops (fb_state j))) (seq 0 4)) bools.
(* record editing is rejected: the model's `ok` flag is false exactly where _cx_cz raises *)
Definition fb_rejected : list (string * list (op nat)) :=
  [("CX q rec", g_cnot 1%nat 0%nat (Some (false, true)));
   ("CY q rec", g_cy 1%nat 0%nat (Some (false, true)));
   ("XCZ rec q", g_xcz 0%nat 1%nat (Some (true, false)));
   ("YCZ rec q", g_ycz 0%nat 1%nat (Some (true, false)))]%string.
Definition check_fb_rejected (row : string * list (op nat)) : bool :=
  negb (ok (run 2 (mkB [false] [] []) (snd row) (fb_state 0))).

(* ---------------- Pauli noise: which Pauli each error-bit pattern applies ---------------- *)
Definition pauli_opt_m (o : option pauli) : m2 := match o with None => mI | Some P => pauli_m P end.
(* bit pattern of a table index: bit i of idx is error bit i of the channel *)
Definition idx_bits (k idx : nat) : list bool := map (fun i => Nat.testbit idx i) (seq 0 k).
Definition noise_agree (n : nat) (k : nat) (ops : list (op nat)) (spec : nat -> vec -> vec) : bool :=
  agree_all (map (fun idx => (mat_b n (mkB [] [] (idx_bits k idx)) ops, spec_mat n (spec idx))) (seq 0 (Nat.pow 2 k))).
(* Stim's documentation: which Pauli (pair) each ARGUMENT of the channel weights; table index -> documented Pauli.
   one-qubit: index bits (e0,e1): tsim draws Z^e0 then X^e1 *)
Definition pc1_pauli (idx : nat) : option pauli := match idx with 0 => None | 1 => Some PZ | 2 => Some PX | _ => Some PY end%nat.
Definition pc1_arg (px py pz : Q) (idx : nat) : Q := match idx with 0%nat => (1 - px - py - pz)%Q | 1%nat => pz | 2%nat => px | _ => py end.
Definition check_pc1 : bool :=
  noise_agree 1 2 (g_pauli_channel_1 0%nat qp qp qp) (fun idx => app1 1 0 (pauli_opt_m (pc1_pauli idx))).
(* two-qubit: index = i0 + 4 i1 with i0, i1 the one-qubit indices of the first / second target *)
Definition pc2_spec (idx : nat) (v : vec) : vec :=
  app1 2 1 (pauli_opt_m (pc1_pauli (idx / 4))) (app1 2 0 (pauli_opt_m (pc1_pauli (idx mod 4))) v).
Definition check_pc2 : bool :=
  noise_agree 2 4 (g_pauli_channel_2 0%nat 1%nat qp qp qp qp qp qp qp qp qp qp qp qp qp qp qp) pc2_spec.
Definition check_single_errors : bool :=
  noise_agree 1 1 (g_x_error 0%nat qp) (fun idx => app1 1 0 (if Nat.eqb idx 0 then mI else mX))
  && noise_agree 1 1 (g_y_error 0%nat qp) (fun idx => app1 1 0 (if Nat.eqb idx 0 then mI else mY))
  && noise_agree 1 1 (g_z_error 0%nat qp) (fun idx => app1 1 0 (if Nat.eqb idx 0 then mI else mZ)).
Definition check_depolarize : bool :=
  noise_agree 1 2 (g_depolarize1 0%nat qp) (fun idx => app1 1 0 (pauli_opt_m (pc1_pauli idx)))
  && noise_agree 2 4 (g_depolarize2 0%nat 1%nat qp) pc2_spec.
(* correlated errors: E(p) X0 Y1 Z2 with chain bit c0 *)
Definition corr_state (j : nat) : lstate := basis_state 3 j.
Definition check_correlated : bool :=
  agree_all (map (fun e =>
    (map (fun j => final_vec (run 3 (mkB [] [] [e]) (g_correlated_error [0; 1; 2]%nat [PX; PY; PZ] qp) (basis_state 3 j))) (seq 0 8),
     spec_mat 3 (fun v => if e then app1 3 2 mZ (app1 3 1 mY (app1 3 0 mX v)) else v))) bools).

(* ---------------- probability tables: entry idx is the documented probability of the Pauli drawn at idx ------- *)
Definition chan_of (ops : list (op nat)) : list chan := flat_map (fun o => match o with OChan c => [c] | _ => [] end) ops.
Definition table_of (c : chan) : list Q :=
  match c with
  | ChError p => error_probs p
  | ChPauli1 a b c => pauli_channel_1_probs a b c
  | ChPauli2 [a1; a2; a3; a4; a5; a6; a7; a8; a9; a10; a11; a12; a13; a14; a15] =>
      pauli_channel_2_probs a1 a2 a3 a4 a5 a6 a7 a8 a9 a10 a11 a12 a13 a14 a15
  | _ => []
  end.
(* hand model of correlated_error_probs (a loop; pinned by fingerprint): outcome 2^i has probability
   (1-p_1)...(1-p_i) p_{i+1}, outcome 0 the product of all (1-p_j), every multi-bit outcome 0 *)
Fixpoint corr_acc (ps : list Q) (none_so_far : Q) (i : nat) : list (nat * Q) * Q :=
  match ps with
  | [] => ([], none_so_far)
  | p :: r => let '(l, z) := corr_acc r (none_so_far * (1 - p))%Q (S i) in ((Nat.pow 2 i, (none_so_far * p)%Q) :: l, z)
  end.
Definition corr_table (ps : list Q) : list Q :=
  let '(l, z) := corr_acc ps (1 # 1)%Q 0%nat in
  map (fun idx => if Nat.eqb idx 0 then z else
                  match find (fun kv => Nat.eqb (fst kv) idx) l with Some kv => snd kv | None => (0 # 1)%Q end)
      (seq 0 (Nat.pow 2 (List.length ps))).
