(* Hand model (tie B) of tsim/utils/linalg.py::find_basis and tsim/core/graph.py::transform_error_basis.
   GF(2) vectors are `list bool` (one entry per numpy uint8 element holding 0/1), matrices are lists of rows.
   Everything here is executable (vm_compute) and contains no proofs; theorems are in Proofs/LinalgProofs.v,
   the tie to the running code is the exhaustive/random correspondence of harness/props/c08.py. *)
From Coq Require Import List Bool Arith NArith ZArith.
Import ListNotations.

Definition vec := list bool.

(* ---------------------------------------------------------------- GF(2) helpers *)
(* numpy `a ^ b` on equal-length 0/1 arrays.  On unequal lengths (numpy raises; never reached from a rectangular
   matrix) the shorter operand is treated as zero-padded, which keeps every algebraic law unconditional. *)
Fixpoint vxor (a b : vec) : vec :=
  match a, b with
  | x :: a', y :: b' => xorb x y :: vxor a' b'
  | [], b' => b'
  | a', [] => a'
  end.
Definition zeros (n : nat) : vec := repeat false n.                     (* np.zeros(n, uint8) *)
Definition anyb (v : vec) : bool := existsb (fun b => b) v.             (* np.any(v) *)
Fixpoint first_true (v : vec) : nat :=                                  (* np.argmax(v) for a 0/1 vector *)
  match v with [] => 0 | b :: r => if b then 0 else S (first_true r) end.
Fixpoint unit_vec (n k : nat) : vec :=                                  (* zeros(n) with [k] = 1 *)
  match n with
  | O => []
  | S n' => match k with O => true :: zeros n' | S k' => false :: unit_vec n' k' end
  end.
Fixpoint set_true (k : nat) (v : vec) : vec :=                          (* v[k] = 1 (in range) *)
  match v with
  | [] => []
  | x :: r => match k with O => true :: r | S k' => x :: set_true k' r end
  end.
Definition pad (n : nat) (v : vec) : vec := v ++ zeros (n - length v).  (* out = zeros(n); out[:len(v)] = v *)

(* parity of the entries of b selected by a  =  <a, b> over GF(2); a missing entry counts as 0 *)
Fixpoint dot (a b : vec) : bool :=
  match a, b with
  | x :: a', y :: b' => xorb (x && y) (dot a' b')
  | _, _ => false
  end.
(* t . B : XOR of the rows of B selected by t, starting from the zero vector `z` *)
Fixpoint comb (t : vec) (B : list vec) (z : vec) : vec :=
  match t, B with
  | c :: t', b :: B' => if c then vxor b (comb t' B' z) else comb t' B' z
  | _, _ => z
  end.
Definition matmul (T B : list vec) (d : nat) : list vec := map (fun t => comb t B (zeros d)) T.

(* ---------------------------------------------------------------- find_basis *)
(* the five accumulators of the Python loop *)
Record st := mkSt {
  basis_idx : list nat;      (* basis_indices *)
  reduced   : list vec;      (* reduced_basis *)
  pivots    : list nat;      (* pivots *)
  expansion : list vec;      (* basis_expansion; entry j has length j+1 *)
  trows     : list vec       (* t_rows; ragged, padded at the end *)
}.
Definition st0 : st := mkSt [] [] [] [] [].

(* for j, b in enumerate(reduced_basis): if v[pivots[j]]: v ^= b; coeffs.append(j)
   -- returns the reduced v and `coeffs`; j is the index of the head of rs *)
Fixpoint reduce_loop (j : nat) (v : vec) (rs : list vec) (ps : list nat) : vec * list nat :=
  match rs, ps with
  | b :: rs', p :: ps' =>
      if nth p v false
      then let (v', cs) := reduce_loop (S j) (vxor v b) rs' ps' in (v', j :: cs)
      else reduce_loop (S j) v rs' ps'
  | _, _ => (v, [])
  end.

(* dep_sum = zeros(new_size); for idx in coeffs: e = basis_expansion[idx]; dep_sum[:len(e)] ^= e *)
Definition dep_sum (new_size : nat) (es : list vec) (coeffs : list nat) : vec :=
  fold_left (fun d idx => vxor d (nth idx es [])) coeffs (zeros new_size).

Definition step (s : st) (iv : nat * vec) : st :=
  let '(i, v) := iv in
  let '(v', coeffs) := reduce_loop 0 v (reduced s) (pivots s) in
  let rank := length (basis_idx s) in                 (* current_rank *)
  if anyb v' then                                       (* is_independent *)
    let dep := dep_sum (S rank) (expansion s) coeffs in
    mkSt (basis_idx s ++ [i]) (reduced s ++ [v']) (pivots s ++ [first_true v'])
         (expansion s ++ [set_true rank dep])           (* dep_sum[current_rank] = 1 *)
         (trows s ++ [unit_vec (S rank) rank])
  else
    mkSt (basis_idx s) (reduced s) (pivots s) (expansion s)
         (trows s ++ [dep_sum rank (expansion s) coeffs]).

Fixpoint enumerate {A} (n : nat) (l : list A) : list (nat * A) :=
  match l with [] => [] | x :: r => (n, x) :: enumerate (S n) r end.

Definition run (vs : list vec) : st := fold_left step (enumerate 0 vs) st0.
Definition basis_indices (vs : list vec) : list nat := basis_idx (run vs).
Definition rank_of (vs : list vec) : nat := length (basis_indices vs).
(* returns (vecs[basis_indices], transform) with transform[i, :len(row)] = row on zeros((N, rank)) *)
Definition find_basis (vs : list vec) : list vec * list vec :=
  let s := run vs in
  let rank := length (basis_idx s) in
  (map (fun i => nth i vs []) (basis_idx s), map (pad rank) (trows s)).

(* numpy accepts exactly rectangular input (np.array(..., dtype=uint8) of a ragged list raises, and so does
   `num_vectors, _ = vecs.shape` for a 1-D array such as np.array([])) *)
Definition rect (d : nat) (vs : list vec) : Prop := Forall (fun v => length v = d) vs.
Definition rectb (d : nat) (vs : list vec) : bool := forallb (fun v => Nat.eqb (length v) d) vs.

(* ---------------------------------------------------------------- transform_error_basis *)
(* A graph is seen as the list of (vertex, parameter set) in g.vertices() order; a parameter set "e3","e7" is the
   duplicate-free list of indices [3;7].  Vertices with an empty set are not parametrised and are left untouched. *)
Definition vtx := Z.
Definition is_param (p : vtx * list nat) : bool := match snd p with [] => false | _ => true end.
Definition list_max (l : list nat) : nat := fold_right Nat.max 0 l.
(* error_matrix[row, indices] = 1 on zeros(num_errors) *)
Definition indicator (n : nat) (idx : list nat) : vec := fold_left (fun v k => set_true k v) idx (zeros n).
(* np.nonzero(transform_row)[0] *)
Fixpoint nonzero_from (k : nat) (t : vec) : list nat :=
  match t with [] => [] | x :: r => if x then k :: nonzero_from (S k) r else nonzero_from (S k) r end.
Definition nonzero_idx (t : vec) : list nat := nonzero_from 0 t.
(* for v, transform_row in zip(parametrized_vertices, transform): g._phaseVars[v] = {f_j : transform_row[j]} *)
Fixpoint reassign (verts : list (vtx * list nat)) (T : list vec) : list (vtx * list nat) :=
  match verts with
  | [] => []
  | p :: r =>
      if is_param p then
        match T with
        | t :: T' => (fst p, nonzero_idx t) :: reassign r T'
        | [] => p :: reassign r []
        end
      else p :: reassign r T
  end.
Definition num_errors (par : list (vtx * list nat)) (num_e : option nat) : nat :=
  let n0 := S (list_max (map (fun p => list_max (snd p)) par)) in
  match num_e with Some k => Nat.max n0 k | None => n0 end.
Definition error_matrix (par : list (vtx * list nat)) (num_e : option nat) : list vec :=
  map (fun p => indicator (num_errors par num_e) (snd p)) par.
(* result: (new parameter sets -- now f-indices --, basis, number of columns of the returned basis array) *)
Definition transform_error_basis (verts : list (vtx * list nat)) (num_e : option nat)
  : list (vtx * list nat) * list vec * nat :=
  let par := filter is_param verts in
  match par with
  | [] => (verts, [], match num_e with Some k => k | None => 0 end)
  | _ :: _ =>
      let '(B, T) := find_basis (error_matrix par num_e) in
      (reassign verts T, B, num_errors par num_e)
  end.

(* parity of a parameter set under an assignment of the variables; f = B.e *)
Definition par_set (s : list nat) (e : nat -> bool) : bool := fold_right (fun k acc => xorb (e k) acc) false s.
Definition dotf (b : vec) (e : nat -> bool) : bool := dot b (map e (seq 0 (length b))).
Definition f_of (B : list vec) (e : nat -> bool) : nat -> bool := fun j => dotf (nth j B []) e.

(* ---------------------------------------------------------------- helpers for the correspondence harness *)
(* bit k of x is entry k of the vector (little endian) *)
Definition vec_of_N (d : nat) (x : N) : vec := map (fun k => N.testbit x (N.of_nat k)) (seq 0 d).
Fixpoint N_of_vec (v : vec) : N :=
  match v with [] => 0%N | b :: r => ((if b then 1 else 0) + 2 * N_of_vec r)%N end.
(* matrix number m of shape n x d: row i is bits [i*d, (i+1)*d) of m *)
Definition mat_of_N (n d : nat) (m : N) : list vec :=
  map (fun i => vec_of_N d (N.shiftr m (N.of_nat (i * d)))) (seq 0 n).
Definition N_of_mat (d : nat) (M : list vec) : N :=
  fold_right (fun v acc => (N_of_vec v + N.shiftl acc (N.of_nat d))%N) 0%N M.
(* one number per result: rank, then the bits of B (rank x d) and of T (n x rank) *)
Definition encode_result (n d : nat) (r : list vec * list vec) : N :=
  let '(B, T) := r in
  let k := length B in
  (N.of_nat k + 8 * (N_of_mat d B + N.shiftl (N_of_mat k T) (N.of_nat (k * d))))%N.
(* shapes as well, so that a wrong row length cannot hide behind the encoding *)
Definition shape_ok (n d : nat) (r : list vec * list vec) : bool :=
  let '(B, T) := r in
  rectb d B && Nat.eqb (length T) n && rectb (length B) T.
(* results for matrices number start .. start+cnt-1 of shape n x d; the flag is the conjunction of shape_ok *)
Definition sweep (n d : nat) (start cnt : N) : bool * list N :=
  let rs := snd (N.iter cnt (fun st => let '(m, acc) := st in
                                       let m' := N.pred m in (m', find_basis (mat_of_N n d m') :: acc))
                            ((start + cnt)%N, [])) in
  (forallb (shape_ok n d) rs, map (encode_result n d) rs).
(* Compact printing.  Coq prints (and parses) number literals at about a millisecond each, plain constructors at a
   few microseconds, so exhaustive sweeps print every result as hexadecimal digits, 4 bits per constructor, least
   significant digit first, `res_width n d` bits per result. *)
Inductive hex := X0 | X1 | X2 | X3 | X4 | X5 | X6 | X7 | X8 | X9 | XA | XB | XC | XD | XE | XF.
Definition hex_of_bits (a b c d : bool) : hex :=      (* a is the least significant bit *)
  match a, b, c, d with
  | false, false, false, false => X0
  | true, false, false, false => X1
  | false, true, false, false => X2
  | true, true, false, false => X3
  | false, false, true, false => X4
  | true, false, true, false => X5
  | false, true, true, false => X6
  | true, true, true, false => X7
  | false, false, false, true => X8
  | true, false, false, true => X9
  | false, true, false, true => XA
  | true, true, false, true => XB
  | false, false, true, true => XC
  | true, false, true, true => XD
  | false, true, true, true => XE
  | true, true, true, true => XF
  end.
Fixpoint hex_of_vec (v : vec) : list hex :=
  match v with
  | a :: b :: c :: d :: r => hex_of_bits a b c d :: hex_of_vec r
  | [a; b; c] => [hex_of_bits a b c false]
  | [a; b] => [hex_of_bits a b false false]
  | [a] => [hex_of_bits a false false false]
  | [] => []
  end.
Definition res_width (n d : nat) : nat := 3 + Nat.min n d * (n + d).
Definition sweep_hex (n d : nat) (start cnt : N) : bool * list hex :=
  let r := sweep n d start cnt in
  (fst r, flat_map (fun c => hex_of_vec (vec_of_N (res_width n d) c)) (snd r)).
(* the same for an explicit list of matrix numbers (random samples of a shape) *)
Definition sample_hex (n d : nat) (ms : list N) : bool * list hex :=
  let rs := map (fun m => find_basis (mat_of_N n d m)) ms in
  (forallb (shape_ok n d) rs,
   flat_map (fun r => hex_of_vec (vec_of_N (res_width n d) (encode_result n d r))) rs).
(* a matrix given by its rows as numbers *)
Definition rows_of_N (d : nat) (rows : list N) : list vec := map (vec_of_N d) rows.
(* (shapes are n x d -> rank x d, n x rank ;  rows of B ; rows of T), rows as hex digits *)
Definition show_hex (n d : nat) (r : list vec * list vec) : bool * list (list hex) * list (list hex) :=
  (shape_ok n d r, map hex_of_vec (fst r), map hex_of_vec (snd r)).
