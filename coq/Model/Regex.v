(* Character-level model of the fragment of Python's `re` that tsim/utils/program_text.py and
   tsim/core/parse.py::parse_parametric_tag use.  Executable, no proofs.

   A pattern is a FLAT sequence of items (the translator /verif/translate/regex_facts.py refuses anything
   else: alternation, nested groups, quantified groups, lazy quantifiers, {m,n}, back-references, flags):
     one-character classes, greedy `* + ?` over a one-character class, capturing-group open/close marks,
     \b, ^, $, one-character negative look-behind / look-ahead.
   `mtch` is a backtracking matcher in continuation style; the first success in Python's priority order
   (greedy: longest repetition first, then shorter) is returned, exactly as sre does for this fragment.
   Text is `list ascii` restricted to code points < 128 (for str patterns Python's \w \d \s \b are Unicode
   aware; on ASCII they are the sets below -- note that str-mode \s contains 0x1c..0x1f). *)
From Coq Require Import List Ascii String Bool Arith NArith.
Import ListNotations.

Definition str := list ascii.
Definition ch (n : N) : ascii := ascii_of_N n.
Definition code (a : ascii) : N := N_of_ascii a.
Definition s_of (l : list N) : str := map ch l.
Definition codes (s : str) : list N := map code s.
Definition lit (s : string) : str := list_ascii_of_string s.

Definition in_range (lo hi : N) (a : ascii) : bool := (N.leb lo (code a) && N.leb (code a) hi)%bool.
Definition is_digit (a : ascii) : bool := in_range 48 57 a.
Definition is_upper (a : ascii) : bool := in_range 65 90 a.
Definition is_lower (a : ascii) : bool := in_range 97 122 a.
Definition is_word (a : ascii) : bool := (is_digit a || is_upper a || is_lower a || N.eqb (code a) 95)%bool.
(* str.isspace / \s on code points < 128: \t \n \v \f \r, 0x1c..0x1f, space *)
Definition is_space (a : ascii) : bool := (in_range 9 13 a || in_range 28 32 a)%bool.

Inductive citem : Type :=
| CiChar (a : ascii)
| CiRange (lo hi : ascii)
| CiDigit | CiWord | CiSpace.

Inductive cls : Type :=
| Cls (neg : bool) (items : list citem)
| ClsDot.                                   (* `.` without DOTALL: anything but \n *)

Inductive item : Type :=
| ICls (c : cls) | IStar (c : cls) | IPlus (c : cls) | IOpt (c : cls)
| IOpen | IClose
| IWordB | IBol | IEol
| INotBehind (c : cls) | INotAhead (c : cls).

Definition pattern := list item.

Definition citem_mem (i : citem) (a : ascii) : bool :=
  match i with
  | CiChar b => Ascii.eqb a b
  | CiRange lo hi => in_range (code lo) (code hi) a
  | CiDigit => is_digit a
  | CiWord => is_word a
  | CiSpace => is_space a
  end.

Definition cls_mem (c : cls) (a : ascii) : bool :=
  match c with
  | Cls neg items => xorb neg (existsb (fun i => citem_mem i a) items)
  | ClsDot => negb (N.eqb (code a) 10)
  end.

Definition word_opt (o : option ascii) : bool := match o with Some a => is_word a | None => false end.
Definition at_wordb (prev : option ascii) (s : str) : bool := xorb (word_opt prev) (word_opt (hd_error s)).

(* result of a successful match: the unconsumed rest and the captured groups, LAST closed group first *)
Definition mres := (str * list str)%type.

(* greedy repetition of a one-character class with continuation k (backtracks to shorter repetitions) *)
Fixpoint star_k (c : cls) (k : option ascii -> str -> option mres) (prev : option ascii) (s : str) : option mres :=
  match s with
  | a :: s' =>
      if cls_mem c a then
        match star_k c k (Some a) s' with
        | Some r => Some r
        | None => k prev s
        end
      else k prev s
  | [] => k prev s
  end.

(* mtch p prev s op gs: match pattern p at a position whose preceding character is `prev` (None = start of
   text) and whose remaining text is s; op = remaining text at the last group-open mark; gs = groups so far *)
Fixpoint mtch (p : pattern) (prev : option ascii) (s : str) (op : str) (gs : list str) {struct p} : option mres :=
  match p with
  | [] => Some (s, gs)
  | it :: p' =>
      match it with
      | ICls c =>
          match s with
          | a :: s' => if cls_mem c a then mtch p' (Some a) s' op gs else None
          | [] => None
          end
      | IStar c => star_k c (fun pv r => mtch p' pv r op gs) prev s
      | IPlus c =>
          match s with
          | a :: s' => if cls_mem c a then star_k c (fun pv r => mtch p' pv r op gs) (Some a) s' else None
          | [] => None
          end
      | IOpt c =>
          match s with
          | a :: s' =>
              if cls_mem c a then
                match mtch p' (Some a) s' op gs with
                | Some r => Some r
                | None => mtch p' prev s op gs
                end
              else mtch p' prev s op gs
          | [] => mtch p' prev s op gs
          end
      | IOpen => mtch p' prev s s gs
      | IClose => mtch p' prev s op (firstn (List.length op - List.length s) op :: gs)
      | IWordB => if at_wordb prev s then mtch p' prev s op gs else None
      | IBol => match prev with None => mtch p' prev s op gs | Some _ => None end
      | IEol =>                                 (* `$` without MULTILINE: at the end, or before a final \n *)
          match s with
          | [] => mtch p' prev s op gs
          | [a] => if N.eqb (code a) 10 then mtch p' prev s op gs else None
          | _ => None
          end
      | INotBehind c =>
          match prev with
          | Some a => if cls_mem c a then None else mtch p' prev s op gs
          | None => mtch p' prev s op gs
          end
      | INotAhead c =>
          match s with
          | a :: _ => if cls_mem c a then None else mtch p' prev s op gs
          | [] => mtch p' prev s op gs
          end
      end
  end.

(* re.match(p, s): anchored at position 0; groups returned in order of their number *)
Definition re_match (p : pattern) (s : str) : option (list str) :=
  match mtch p None s s [] with
  | Some (_, gs) => Some (rev gs)
  | None => None
  end.

(* replacement templates: what the replacement string / callback builds from the groups *)
Inductive tpiece : Type := TLit (s : str) | TGroup (n : nat).     (* TGroup 1 = m.group(1) *)
Definition template := list tpiece.
Definition expand (t : template) (gs : list str) : str :=
  flat_map (fun pc => match pc with TLit s => s | TGroup n => nth (pred n) gs [] end) t.

(* re.sub(p, t, s): scan left to right; at each position not inside a previous match try p; on success emit
   the replacement and skip the matched characters.  `skip` = characters of the current match still to drop.
   An empty match emits the replacement and copies one character (none of the generated patterns is
   nullable; the translator checks that). *)
Fixpoint sub_go (p : pattern) (t : template) (prev : option ascii) (s : str) (skip : nat) {struct s} : str :=
  match skip with
  | S n =>
      match s with
      | a :: s' => sub_go p t (Some a) s' n
      | [] => []
      end
  | O =>
      match mtch p prev s s [] with
      | Some (rest, gs) =>
          let len := List.length s - List.length rest in
          expand t (rev gs) ++
          match s with
          | a :: s' =>
              match len with
              | O => a :: sub_go p t (Some a) s' 0
              | S n => sub_go p t (Some a) s' n
              end
          | [] => []
          end
      | None =>
          match s with
          | a :: s' => a :: sub_go p t (Some a) s' 0
          | [] => []
          end
      end
  end.

Definition re_sub (p : pattern) (t : template) (s : str) : str := sub_go p t None s 0.

Definition apply_steps (steps : list (pattern * template)) (s : str) : str :=
  fold_left (fun acc st => re_sub (fst st) (snd st) acc) steps s.

(* does p match at some position of s (scanning every position, the context character being tracked)? *)
Fixpoint matches_somewhere (p : pattern) (prev : option ascii) (s : str) : bool :=
  match mtch p prev s s [] with
  | Some _ => true
  | None => match s with a :: s' => matches_somewhere p (Some a) s' | [] => false end
  end.

(* the literal text every match of p must begin with: leading one-literal classes, zero-width items skipped *)
Definition single_lit (c : cls) : option ascii :=
  match c with
  | Cls false [CiChar a] => Some a
  | _ => None
  end.
Fixpoint lit_prefix (p : pattern) : str :=
  match p with
  | [] => []
  | it :: p' =>
      match it with
      | ICls c => match single_lit c with Some a => a :: lit_prefix p' | None => [] end
      | IOpen | IClose | IWordB | IBol | INotBehind _ | INotAhead _ => lit_prefix p'
      | IStar _ | IPlus _ | IOpt _ | IEol => []
      end
  end.
