(* Hand model (tie B) of tsim/compile/evaluate.py::evaluate and ::_matmul_gf2 for ONE row of `param_vals`
   (the batch axis is a map over rows).  Executable, no proofs.  The order of `% 2` and the saturating
   float32 -> uint8 cast in `_matmul_gf2` is REGENERATED from the source (gen/Gen_matmul_gf2.v); the phase
   tables and `prod_reduces` come from gen/Gen_exact_scalar.v; products / reduce / sum are those of
   Model/ExactScalar.v (int32 wrap included).
   dtypes: masks, constants, row sums are uint8 (`u8` = wrap mod 256, harmless here and proved so); jnp.sum of
   uint8 accumulates in uint32 (sums stay far below 2^32); coefficient arithmetic is int32.
   Trusted about JAX: a float32 matmul of 0/1 vectors is exact while the row sum is below 2^24 (width < 16.7M
   parameters); float32 `% 2` is exact; float32 -> uint8 saturates at 255; x[idx] clamps an index above the end. *)
From Coq Require Import ZArith List Bool.
Import ListNotations.
Require Import TV.Base.Wrap32 TV.Base.D8 TV.gen.Gen_exact_scalar TV.gen.Gen_matmul_gf2 TV.Model.ExactScalar TV.Model.Compile.
Open Scope Z_scope.

(* ------------------------------------------------------------------ _matmul_gf2 *)
Fixpoint dot (mask bits : list bool) : Z :=                      (* one entry of the float32 matmul *)
  match mask, bits with
  | m :: mr, b :: br => b2z (m && b) + dot mr br
  | _, _ => 0
  end.
Definition sat_u8 (z : Z) : Z := Z.max 0 (Z.min z 255).          (* float32 -> uint8 *)
Definition matmul_gf2_gen (mod_before_cast : bool) (mask bits : list bool) : Z :=
  if mod_before_cast then sat_u8 (dot mask bits mod 2) else sat_u8 (dot mask bits) mod 2.
Definition matmul_gf2 : list bool -> list bool -> Z := matmul_gf2_gen gf2_mod_before_cast.
(* what it is meant to compute: XOR over the positions selected by the mask *)
Fixpoint parity (mask bits : list bool) : bool :=
  match mask, bits with
  | m :: mr, b :: br => xorb (m && b) (parity mr br)
  | _, _ => false
  end.

Definition u8 (z : Z) : Z := z mod 256.
Definition q4_sub (x y : q4) : q4 := q4_add x (q4_scale (-1) y).

Inductive eval_result :=
| EvExact (v : esa)                              (* total_summands.reduce().sum(), before to_complex *)
| EvApprox (l : list (esa * afac * Z)).          (* per graph: exact part, approximate factor, power2; summed in floats *)

Section Row.
  Variable bits : list bool.                     (* one row of param_vals *)
  Definition rs (mask : list bool) : Z := matmul_gf2 mask bits.

  (* where(arange(max)[None, :] < num[:, None], vals, _IDENTITY), with power 0 *)
  Fixpoint masked {A} (f : A -> q4) (j num : Z) (l : list A) : list esa :=
    match l with
    | [] => []
    | t :: r => ((if j <? num then f t else identity_d8), 0) :: masked f (j + 1) num r
    end.

  (* TYPE A *)
  Definition idx_a (t : aterm) : Z := u8 (u8 (4 * rs (snd t)) + fst t) mod 8.
  Definition val_a (t : aterm) : q4 := one_plus_phase (Z.to_nat (idx_a t)).
  Definition ev_a (g : cgraph) : option esa := esa_prod (masked val_a 0 (cg_a_num g) (cg_a g)).

  (* TYPE B *)
  Definition idx_b (t : bterm) : Z := u8 (rs (snd t) * fst t) mod 8.
  Definition ev_b (g : cgraph) : esa := (unit_phase (Z.to_nat (zsum (map idx_b (cg_b g)) mod 8)), 0).

  (* TYPE C *)
  Definition exp_c (t : cterm) : Z :=
    let '(ca, ma, cb, mb) := t in (u8 (u8 (ca + rs ma) mod 2 * (u8 (cb + rs mb) mod 2)) mod 2).
  Definition ev_c (g : cgraph) : esa := (q4_scale (1 - 2 * (zsum (map exp_c (cg_c g)) mod 2)) (1, 0, 0, 0), 0).

  (* TYPE D *)
  Definition val_d (t : dterm) : q4 :=
    let '(ca, cb, ma, mb) := t in
    let alpha := u8 (ca + u8 (rs ma * 4)) mod 8 in
    let beta := u8 (cb + u8 (rs mb * 4)) mod 8 in
    let gamma := u8 (alpha + beta) mod 8 in
    q4_sub (q4_add (q4_add identity_d8 (unit_phase (Z.to_nat alpha))) (unit_phase (Z.to_nat beta))) (unit_phase (Z.to_nat gamma)).
  Definition ev_d (g : cgraph) : option esa := esa_prod (masked val_d 0 (cg_d_num g) (cg_d g)).

  (* static *)
  Definition ev_static (g : cgraph) : esa := (unit_phase (Z.to_nat (Z.min (cg_phase_idx g) 7)), 0).
  Definition ev_float (g : cgraph) : esa := (cg_float g, 0).

  (* functools.reduce(lambda a, b: a * b, [A, B, C, D, static_phases, float_factor]) *)
  Definition ev_factors (g : cgraph) (d : esa) : list esa := [ev_b g; ev_c g; d; ev_static g; ev_float g].
  Definition ev_total (g : cgraph) : option esa :=
    match ev_a g, ev_d g with
    | Some a, Some d => Some (fold_left esa_mul (ev_factors g d) a)
    | _, _ => None
    end.

  (* exact branch, per graph: power + power2, then reduce *)
  Definition ev_exact_one (g : cgraph) : option esa :=
    match ev_total g with
    | Some t => reduce (fst t, wrap32 (snd t + cg_power2 g))
    | None => None
    end.
  Definition ev_approx_one (g : cgraph) : option (esa * afac * Z) :=
    match ev_total g with
    | Some t => Some (t, cg_approx g, cg_power2 g)
    | None => None
    end.

  (* an empty graph axis (every graph was the zero scalar and has been dropped): with the guard at the top of `evaluate`
     (regenerated flag eval_empty_returns_zero) the result is 0; without it the reductions over the empty axis raise (None).
     None otherwise only on fuel exhaustion (excluded in Proofs). *)
  Definition no_graphs (c : compiled) : bool := match c_graphs c with [] => true | _ :: _ => false end.
  Definition evaluate (c : compiled) : option eval_result :=
    if eval_empty_returns_zero && no_graphs c then Some (EvExact (q4_zero, 0))
    else if c_has_approx c then
      match all_some (map ev_approx_one (c_graphs c)) with
      | Some l => Some (EvApprox l)
      | None => None
      end
    else
      match all_some (map ev_exact_one (c_graphs c)) with
      | Some l => match esa_sum l with Some s => Some (EvExact s) | None => None end
      | None => None
      end.

  (* ---------------------------------------------------------------- the C09 no-wrap guard, as a decidable check
     of this very computation: every int32 product below is the exact product, no power leaves int32,
     the aligned sum does not wrap. *)
  Definition pow_ok (p : Z) : bool := (- 2 ^ 29 <? p) && (p <? 2 ^ 29).
  Definition mul_fits (x y : esa) : bool :=
    (norm1 (fst x) * norm1 (fst y) <? H32) && pow_ok (snd x) && pow_ok (snd y).
  Fixpoint fold_guard (l : list esa) (acc : esa) : bool :=
    match l with
    | [] => true
    | x :: r => mul_fits acc x && match combine acc x with Some a => fold_guard r a | None => false end
    end.
  Definition prod_guard (l : list esa) : bool := match l with [] => true | x :: r => fold_guard r x end.
  Fixpoint chain_guard (l : list esa) (acc : esa) : bool :=
    match l with
    | [] => true
    | x :: r => mul_fits acc x && chain_guard r (esa_mul acc x)
    end.
  Definition graph_guard (g : cgraph) : bool :=
    prod_guard (masked val_a 0 (cg_a_num g) (cg_a g)) && prod_guard (masked val_d 0 (cg_d_num g) (cg_d g)) &&
    match ev_a g, ev_d g, ev_total g with
    | Some a, Some d, Some t => chain_guard (ev_factors g d) a && pow_ok (snd t) && pow_ok (cg_power2 g) && pow_ok (snd t + cg_power2 g)
    | _, _, _ => false
    end.
  Definition sum_guard (l : list esa) : bool :=
    match sum_min l with
    | None => false
    | Some m => forallb (fun x => q4_is_zero (fst x) || (snd x - m <? 31)) l
                && (zsum (map (fun x => norm1 (fst x) * 2 ^ (snd x - m)) l) <? H32)
    end.
  Definition eval_guard (c : compiled) : bool :=
    if eval_empty_returns_zero && no_graphs c then true else
    forallb graph_guard (c_graphs c) &&
    (if c_has_approx c then true
     else match all_some (map ev_exact_one (c_graphs c)) with Some l => sum_guard l | None => false end).
End Row.

(* ------------------------------------------------------------------ what a result denotes (same ring as `scalar_value`) *)
Section Denote.
  Variable R : Type.
  Variables (rO rI : R) (radd rmul rsub : R -> R -> R) (ropp : R -> R).
  Variable w : R.
  Variable half : R.
  Variable cexp : Z -> positive -> R.
  Variable opq : Z -> R.
  (* ExactScalarArray: (a + b w + c w^2 - d w^3) * 2^power *)
  Definition esa_value (x : esa) : R := rmul (den4 R rO rI radd rmul ropp w (fst x)) (pow2 R rI radd rmul half (snd x)).
  Definition result_value (r : eval_result) : R :=
    match r with
    | EvExact v => esa_value v                                    (* total_summands.sum().to_complex() *)
    | EvApprox l =>                                               (* sum(to_complex() * approximate_floatfactors * 2.0**power2) *)
      rsuml R rO radd (map (fun x => rmul (rmul (esa_value (fst (fst x))) (afac_value R rI rmul cexp opq (snd (fst x))))
                                          (pow2 R rI radd rmul half (snd x))) l)
    end.
End Denote.
