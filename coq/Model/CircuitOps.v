(* Model of tsim.circuit.Circuit as handles on a heap of stim.Circuit objects.  No proofs here.

   `t_step` interprets one user-level operation by running the effect summary of the corresponding
   method (gen/Gen_circuit_effects.v, regenerated from src/tsim/circuit.py on every run) on the heap;
   Stim's own operations are those of Spec/StimCircuit.v.  `ref_step` is the reference: the same
   operation on plain circuit VALUES (lists of items with REPEAT blocks, no heap, no flattening,
   no merging) -- the "stim-only model" of the property.

   Argument errors that Stim raises before changing anything (negative repetition count, slice step 0,
   index out of range) are no-ops of the whole operation. *)
From Coq Require Import ZArith List String Bool.
Import ListNotations.
Require Import TV.Spec.StimCircuit TV.Model.CircuitEffects TV.gen.Gen_circuit_effects.
Open Scope string_scope.
Open Scope list_scope.

(* ---- arguments of a call ------------------------------------------------------------------------------ *)
Record args := mkA { a_text : circ; a_n : Z; a_start : option Z; a_stop : option Z; a_step : Z; a_idx : Z }.
Definition no_args : args := mkA [] 1 None None 1 0.

(* tsim's own loop in without_annotations: a fresh stim.Circuit() filled by `append` (which merges) *)
Definition dropped (names : list string) (x : item) : bool :=
  match x with It i => mem (iname i) names | Rep _ _ => false end.
Definition stim_filtered (names : list string) (c : circ) : circ :=
  fold_left (fun acc y => if dropped names y then acc else csnoc acc y) c [].

Definition pop_at (i : Z) (c : circ) : circ :=
  match norm_index i (Z.of_nat (List.length c)) with Some k => remove_nth k c | None => c end.

(* ---- value level: what object an expression denotes, given the values of the live objects ------- *)
Fixpoint vexp (e : oexp) (ar : args) (cs co : circ) : circ :=
  match e with
  | XSelf => cs
  | XOtherT | XOtherS => co
  | XParse => a_text ar
  | XEmpty => []
  | XCopy e => vexp e ar cs co
  | XFlattened e => flattened (vexp e ar cs co)
  | XMul e => stim_mul (a_n ar) (vexp e ar cs co)
  | XSlice e => stim_slice (a_start ar) (a_stop ar) (a_step ar) (vexp e ar cs co)
  | XWithoutNoise e => stim_without_noise (vexp e ar cs co)
  | XFiltered names e => stim_filtered names (vexp e ar cs co)
  end.

(* ---- heap level --------------------------------------------------------------------------------------- *)
Fixpoint eval (e : oexp) (ar : args) (self oth : nat) (h : heap) : heap * nat :=
  let alloc1 := fun (e0 : oexp) (f : circ -> circ) =>
                  let '(h1, a) := eval e0 ar self oth h in halloc h1 (f (hread h1 a)) in
  match e with
  | XSelf => (h, self)
  | XOtherT | XOtherS => (h, oth)
  | XParse => halloc h (a_text ar)
  | XEmpty => halloc h []
  | XCopy e0 => alloc1 e0 (fun c => c)
  | XFlattened e0 => alloc1 e0 flattened
  | XMul e0 => alloc1 e0 (stim_mul (a_n ar))
  | XSlice e0 => alloc1 e0 (stim_slice (a_start ar) (a_stop ar) (a_step ar))
  | XWithoutNoise e0 => alloc1 e0 stim_without_noise
  | XFiltered names e0 => alloc1 e0 (stim_filtered names)
  end.

(* one statement on the handle whose wrapped object lives at `self`; returns the heap and the address
   the handle points to afterwards *)
Definition exec_stmt (s : stmt) (ar : args) (self oth : nat) (h : heap) : heap * nat :=
  match s with
  | SSetSelf e => eval e ar self oth h
  | SIAdd e => let '(h1, a) := eval e ar self oth h in
               (hwrite h1 self (if Nat.eqb a self then stim_iadd_self (hread h1 self)
                                else stim_iadd (hread h1 self) (hread h1 a)), self)
  | SIMul => (hwrite h self (stim_mul (a_n ar) (hread h self)), self)
  | SAppendText => (hwrite h self (stim_iadd (hread h self) (a_text ar)), self)
  | SPop => (hwrite h self (pop_at (a_idx ar) (hread h self)), self)
  end.
Fixpoint exec_stmts (l : list stmt) (ar : args) (self oth : nat) (h : heap) : heap * nat :=
  match l with
  | [] => (h, self)
  | s :: r => let '(h1, s1) := exec_stmt s ar self oth h in exec_stmts r ar s1 oth h1
  end.

Inductive outcome := ONone | ONewT (a : nat) | ONewS (a : nat).
Definition run_method (m : meffect) (ar : args) (self oth : nat) (h : heap) : heap * nat * outcome :=
  let '(h1, s1) := exec_stmts (pre m) ar self oth h in
  match ret m with
  | RNew e => let '(h2, a) := eval e ar s1 oth h1 in
              let '(h3, a3) := exec_stmts (post m) ar a oth h2 in (h3, s1, ONewT a3)
  | RStim e => let '(h2, a) := eval e ar s1 oth h1 in (h2, s1, ONewS a)
  | RNone | RSelf | RValue => (h1, s1, ONone)
  end.

(* ---- program state: the heap, the tsim Circuit handles, the user's stim.Circuit variables ------- *)
Record st := mkSt { heap_of : heap; tv : list nat; sv : list nat }.
Definition st0 : st := mkSt [] [] [].

Fixpoint set_nth {A} (l : list A) (k : nat) (x : A) : list A :=
  match l with
  | [] => []
  | y :: r => match k with O => x :: r | S k' => y :: set_nth r k' x end
  end.

Inductive operand := OpT (v : nat) | OpS (s : nat).
Definition operand_addr (o : operand) (s : st) : option nat :=
  match o with OpT v => nth_error (tv s) v | OpS w => nth_error (sv s) w end.

(* call method m on tsim variable v (operand object at address oth) *)
Definition call (m : meffect) (ar : args) (v : nat) (oth : option nat) (s : st) : st :=
  match nth_error (tv s) v with
  | None => s
  | Some a =>
      let o := match oth with Some b => b | None => a end in
      let '(h, a', out) := run_method m ar a o (heap_of s) in
      let tv' := set_nth (tv s) v a' in
      match out with
      | ONone => mkSt h tv' (sv s)
      | ONewT b => mkSt h (tv' ++ [b]) (sv s)
      | ONewS b => mkSt h tv' (sv s ++ [b])
      end
  end.

(* call a method that has no receiver (classmethod): `self` is a scratch object nobody refers to *)
Definition static_call (m : meffect) (ar : args) (b : nat) (s : st) : st :=
  let '(h, _, out) := run_method m ar (List.length (heap_of s)) b (heap_of s ++ [[]]) in
  match out with
  | ONone => mkSt h (tv s) (sv s)
  | ONewT c => mkSt h (tv s ++ [c]) (sv s)
  | ONewS c => mkSt h (tv s) (sv s ++ [c])
  end.

Inductive op :=
| OText (p : circ)                                 (* Circuit(text); p = stim.Circuit(shorthand_to_stim(text)) *)
| OFromStim (s : nat)                              (* Circuit.from_stim_program(stim variable s) *)
| OAppendText (v : nat) (p : circ)                 (* v.append_from_stim_program_text(text) *)
| OAdd (v : nat) (o : operand)                     (* v + o   -> new Circuit *)
| OIAdd (v : nat) (o : operand)                    (* v += o *)
| OMul (v : nat) (n : Z) | ORMul (v : nat) (n : Z) (* v * n, n * v -> new Circuit *)
| OIMul (v : nat) (n : Z)                          (* v *= n *)
| OSlice (v : nat) (start stop : option Z) (step : Z)   (* v[start:stop:step] -> new Circuit *)
| OGetItem (v : nat) (i : Z)                       (* v[i] -> an instruction *)
| OPop (v : nat) (i : Z)                           (* v.pop(i) *)
| OCopy (v : nat) | OWithoutNoise (v : nat) | OWithoutAnnot (v : nat)   (* -> new Circuit *)
| OStimCircuit (v : nat)                           (* v.stim_circuit -> new stim variable *)
| OObserve (k : nat) (v : nat)                     (* the k-th read-only method of the class on v *)
| OStimNew (p : circ)                              (* the user builds a stim.Circuit -> new stim variable *)
| OStimIAdd (s : nat) (p : circ).                  (* the user mutates one of their stim.Circuit objects *)

Definition with_text (p : circ) : args := mkA p 1 None None 1 0.
Definition with_n (n : Z) : args := mkA [] n None None 1 0.
Definition with_slice (a b : option Z) (c : Z) : args := mkA [] 1 a b c 0.
Definition with_idx (i : Z) : args := mkA [] 1 None None 1 i.

Definition tlen (s : st) (v : nat) : Z :=
  match nth_error (tv s) v with Some a => Z.of_nat (List.length (hread (heap_of s) a)) | None => 0%Z end.

Definition t_step (o : op) (s : st) : st :=
  match o with
  | OText p =>                                   (* a new handle (wrapping nothing yet), then __init__ on it *)
      call eff_init (with_text p) (List.length (tv s)) None
           (mkSt (heap_of s ++ [[]]) (tv s ++ [List.length (heap_of s)]) (sv s))
  | OFromStim w =>
      match nth_error (sv s) w with
      | None => s
      | Some b => static_call eff_from_stim_program no_args b s
      end
  | OAppendText v p => call eff_append_text (with_text p) v None s
  | OAdd v x =>
      match operand_addr x s with
      | None => s
      | Some b => call (match x with OpT _ => eff_add_t | OpS _ => eff_add_s end) no_args v (Some b) s
      end
  | OIAdd v x =>
      match operand_addr x s with
      | None => s
      | Some b => call (match x with OpT _ => eff_iadd_t | OpS _ => eff_iadd_s end) no_args v (Some b) s
      end
  | OMul v n => if (n <? 0)%Z then s else call eff_mul (with_n n) v None s
  | ORMul v n => if (n <? 0)%Z then s else call eff_rmul (with_n n) v None s
  | OIMul v n => if (n <? 0)%Z then s else call eff_imul (with_n n) v None s
  | OSlice v a b c => if (c =? 0)%Z then s else call eff_getitem_slice (with_slice a b c) v None s
  | OGetItem v i => match norm_index i (tlen s v) with None => s | Some _ => call eff_getitem_int (with_idx i) v None s end
  | OPop v i => match norm_index i (tlen s v) with None => s | Some _ => call eff_pop (with_idx i) v None s end
  | OCopy v => call eff_copy no_args v None s
  | OWithoutNoise v => call eff_without_noise no_args v None s
  | OWithoutAnnot v => call eff_without_annotations no_args v None s
  | OStimCircuit v => call eff_stim_circuit no_args v None s
  | OObserve k v => match nth_error observer_effects k with Some (_, m) => call m no_args v None s | None => s end
  | OStimNew p => let '(h, a) := halloc (heap_of s) p in mkSt h (tv s) (sv s ++ [a])
  | OStimIAdd w p =>
      match nth_error (sv s) w with
      | None => s
      | Some b => mkSt (hwrite (heap_of s) b (stim_iadd (hread (heap_of s) b) p)) (tv s) (sv s)
      end
  end.
Definition t_run (h : list op) : st := fold_left (fun s o => t_step o s) h st0.

Definition tval (s : st) (v : nat) : circ := match nth_error (tv s) v with Some a => hread (heap_of s) a | None => [] end.
Definition sval (s : st) (w : nat) : circ := match nth_error (sv s) w with Some a => hread (heap_of s) a | None => [] end.

(* ---- the reference: the same operations on circuit values ------------------------------------------ *)
Record rst := mkR { rt : list circ; rs : list circ }.
Definition rst0 : rst := mkR [] [].

Definition annot_names : list string := ["OBSERVABLE_INCLUDE"; "DETECTOR"].
Fixpoint rd_item (names : list string) (x : item) : list item :=
  match x with
  | It i => if mem (iname i) names then [] else [x]
  | Rep n b => [Rep n (flat_map (rd_item names) b)]
  end.
Definition ref_drop (names : list string) (c : circ) : circ := flat_map (rd_item names) c.
Definition ref_without_annot (c : circ) : circ := ref_drop annot_names c.
Fixpoint rwn_item (x : item) : list item :=
  match x with
  | It i => match wn_instr i with Some j => [It j] | None => [] end
  | Rep n b => [Rep n (flat_map rwn_item b)]
  end.
Definition ref_without_noise (c : circ) : circ := flat_map rwn_item c.

Definition rval (o : operand) (r : rst) : option circ :=
  match o with OpT v => nth_error (rt r) v | OpS w => nth_error (rs r) w end.
Definition radd_t (r : rst) (c : circ) : rst := mkR (rt r ++ [c]) (rs r).
Definition rset_t (r : rst) (v : nat) (c : circ) : rst := mkR (set_nth (rt r) v c) (rs r).

(* Index-based operations address the instructions of the (flattened) circuit.  The reference circuit
   being determined only up to merging, they act on SOME REPEAT-free representative F of it. *)
Definition ref_step (o : op) (r r' : rst) : Prop :=
  match o with
  | OText p => r' = radd_t r p
  | OFromStim w => r' = match nth_error (rs r) w with Some c => radd_t r c | None => r end
  | OAppendText v p => r' = match nth_error (rt r) v with Some c => rset_t r v (c ++ p) | None => r end
  | OAdd v x => r' = match nth_error (rt r) v, rval x r with Some c, Some d => radd_t r (c ++ d) | _, _ => r end
  | OIAdd v x => r' = match nth_error (rt r) v, rval x r with Some c, Some d => rset_t r v (c ++ d) | _, _ => r end
  | OMul v n | ORMul v n =>
      r' = match nth_error (rt r) v with
           | Some c => if (n <? 0)%Z then r else radd_t r [Rep (Z.to_nat n) c]
           | None => r end
  | OIMul v n =>
      r' = match nth_error (rt r) v with
           | Some c => if (n <? 0)%Z then r else rset_t r v [Rep (Z.to_nat n) c]
           | None => r end
  | OSlice v a b c =>
      match nth_error (rt r) v with
      | Some R => exists F, is_flat F = true /\ sim F R /\
                            r' = (if (c =? 0)%Z then r else radd_t r (stim_slice a b c F))
      | None => r' = r
      end
  | OPop v i =>
      match nth_error (rt r) v with
      | Some R => exists F, is_flat F = true /\ sim F R /\
                            r' = (match norm_index i (Z.of_nat (List.length F)) with
                                  | Some k => rset_t r v (remove_nth k F) | None => r end)
      | None => r' = r
      end
  | OCopy v => r' = match nth_error (rt r) v with Some c => radd_t r c | None => r end
  | OWithoutNoise v => r' = match nth_error (rt r) v with Some c => radd_t r (ref_without_noise c) | None => r end
  | OWithoutAnnot v => r' = match nth_error (rt r) v with Some c => radd_t r (ref_without_annot c) | None => r end
  | OStimCircuit v => r' = match nth_error (rt r) v with Some c => mkR (rt r) (rs r ++ [c]) | None => r end
  | OGetItem _ _ | OObserve _ _ => r' = r
  | OStimNew p => r' = mkR (rt r) (rs r ++ [p])
  | OStimIAdd w p => r' = match nth_error (rs r) w with Some c => mkR (rt r) (set_nth (rs r) w (c ++ p)) | None => r end
  end.
Inductive ref_run : list op -> rst -> rst -> Prop :=
| rr_nil : forall r, ref_run [] r r
| rr_cons : forall o h r r1 r2, ref_step o r r1 -> ref_run h r1 r2 -> ref_run (o :: h) r r2.

(* the tsim state refines the reference state *)
Definition refines (s : st) (r : rst) : Prop :=
  List.length (tv s) = List.length (rt r) /\ List.length (sv s) = List.length (rs r) /\
  (forall v, v < List.length (tv s) -> is_flat (tval s v) = true /\ sim (tval s v) (nth v (rt r) [])) /\
  (forall w, w < List.length (sv s) -> sim (sval s w) (nth w (rs r) [])).

(* ---- deterministic reference run used by the correspondence check: index-based operations take the
        tsim circuit itself as the representative ------------------------------------------------------- *)
Definition ref_step_fun (o : op) (s : st) (r : rst) : rst :=
  match o with
  | OText p => radd_t r p
  | OFromStim w => match nth_error (rs r) w with Some c => radd_t r c | None => r end
  | OAppendText v p => match nth_error (rt r) v with Some c => rset_t r v (c ++ p) | None => r end
  | OAdd v x => match nth_error (rt r) v, rval x r with Some c, Some d => radd_t r (c ++ d) | _, _ => r end
  | OIAdd v x => match nth_error (rt r) v, rval x r with Some c, Some d => rset_t r v (c ++ d) | _, _ => r end
  | OMul v n | ORMul v n =>
      match nth_error (rt r) v with Some c => if (n <? 0)%Z then r else radd_t r [Rep (Z.to_nat n) c] | None => r end
  | OIMul v n =>
      match nth_error (rt r) v with Some c => if (n <? 0)%Z then r else rset_t r v [Rep (Z.to_nat n) c] | None => r end
  | OSlice v a b c =>
      match nth_error (rt r) v with
      | Some _ => if (c =? 0)%Z then r else radd_t r (stim_slice a b c (tval s v))
      | None => r end
  | OPop v i =>
      match nth_error (rt r) v with
      | Some _ => match norm_index i (tlen s v) with Some k => rset_t r v (remove_nth k (tval s v)) | None => r end
      | None => r end
  | OCopy v => match nth_error (rt r) v with Some c => radd_t r c | None => r end
  | OWithoutNoise v => match nth_error (rt r) v with Some c => radd_t r (ref_without_noise c) | None => r end
  | OWithoutAnnot v => match nth_error (rt r) v with Some c => radd_t r (ref_without_annot c) | None => r end
  | OStimCircuit v => match nth_error (rt r) v with Some c => mkR (rt r) (rs r ++ [c]) | None => r end
  | OGetItem _ _ | OObserve _ _ => r
  | OStimNew p => mkR (rt r) (rs r ++ [p])
  | OStimIAdd w p => match nth_error (rs r) w with Some c => mkR (rt r) (set_nth (rs r) w (c ++ p)) | None => r end
  end.
Definition both_run (h : list op) : st * rst :=
  fold_left (fun sr o => (t_step o (fst sr), ref_step_fun o (fst sr) (snd sr))) h (st0, rst0).

(* no SHIFT_COORDS anywhere in what the user supplies *)
Definition noshift_op (o : op) : bool :=
  match o with
  | OText p | OAppendText _ p | OStimNew p | OStimIAdd _ p => noshift p
  | _ => true
  end.

(* ---- printing for the correspondence check ---------------------------------------------------------- *)
Definition show_i (i : instr) := (iname i, iargs i, itag i, igroups i).
Definition show_flat (c : circ) : option (list (string * list Z * Z * list (list Z))) :=
  if is_flat c then Some (map show_i (flatten0 c)) else None.
Definition show_counts (c : counts) := (c_meas c, c_det c, c_obs c, c_qub c, c_tick c).
