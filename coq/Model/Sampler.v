(* Model of tsim's autoregressive sampler (sampler.py) and of output plugging (compile/pipeline.py::_plug_outputs)
   over an ARBITRARY output tensor  T : list bool -> Q  of a component (index = the component's output bits in
   component-local order; for a doubled diagram T is, up to one positive constant, the outcome probability).
   The code-specific parts (effect string, which outputs get a phase, power compensation, parameter stacking order,
   Bernoulli parameter, prev update, dispatch, reordering) are REGENERATED from /repo/src
   (gen/Gen_sampler_dispatch.v); the rest is the hand model of what pyzx/JAX do with them.  No proofs here. *)
From Coq Require Import QArith Qabs ZArith List Bool Arith.
Import ListNotations.
Require Import TV.Base.ListPerm TV.gen.Gen_sampler_dispatch.
Open Scope Q_scope.

Definition tensor := list bool -> Q.

(* ---------------------------------------------------------------------------------------------------------
   1. specification: marginal weight of a prefix = sum of T over all completions
   --------------------------------------------------------------------------------------------------------- *)
Fixpoint sum_rest (k : nat) (F : list bool -> Q) : Q :=
  match k with
  | O => F []
  | S k' => sum_rest k' (fun r => F (false :: r)) + sum_rest k' (fun r => F (true :: r))
  end.
Definition marg (T : tensor) (n : nat) (p : list bool) : Q := sum_rest (n - length p) (fun r => T (p ++ r)).

Fixpoint all_bits (n : nat) : list (list bool) :=
  match n with O => [[]] | S k => map (cons false) (all_bits k) ++ map (cons true) (all_bits k) end.
Definition Qsum (l : list Q) : Q := fold_right Qplus 0 l.
Definition Qprod (l : list Q) : Q := fold_right Qmult 1 l.

(* ---------------------------------------------------------------------------------------------------------
   2. _plug_outputs: apply_effect(effect); set_phase(v_i, m_i) for i < plug_phase_count; add_power(comp)
      pyzx conventions (oracle; validated numerically by harness c11 `plug` section):
        apply_effect turns output i into an X ('0','1') or Z ('+','-') spider with phase 0 / pi and adds power -1
        (a factor 1/sqrt2) per character; set_phase(v, "m") REPLACES the phase by the parameter m;
        a one-legged X spider with phase b*pi is sqrt2 * <b| ; a one-legged Z spider with phase b*pi is <0| + (-1)^b <1|.
      A weight is kept as (rational coefficient, exponent of sqrt2).
   --------------------------------------------------------------------------------------------------------- *)
Record plug_vertex := PV { pv_is_x : bool; pv_phase : bool }.
Definition vertex_of_effect (c : effect_char) : plug_vertex :=
  match c with Eff0 => PV true false | Eff1 => PV true true | EffPlus => PV false false | EffMinus => PV false true end.
Fixpoint set_phases (cnt : nat) (ms : list bool) (vs : list plug_vertex) : list plug_vertex :=
  match cnt, vs with
  | S c, v :: r => PV (pv_is_x v) (hd false ms) :: set_phases c (tl ms) r
  | _, _ => vs
  end.
(* covector of a one-legged spider: (<v|0>, <v|1>) and its sqrt2 exponent *)
Definition leg (v : plug_vertex) : Q * Q :=
  if pv_is_x v then (if pv_phase v then (0, 1) else (1, 0))
  else (1, if pv_phase v then -(1) else 1).
Definition leg_power (v : plug_vertex) : Z := if pv_is_x v then 1%Z else 0%Z.
Fixpoint contract (vs : list plug_vertex) (T : tensor) : Q :=
  match vs with
  | [] => T []
  | v :: r => fst (leg v) * contract r (fun x => T (false :: x)) + snd (leg v) * contract r (fun x => T (true :: x))
  end.
Definition plugged_vertices (n k : nat) (ms : list bool) : list plug_vertex :=
  set_phases (plug_phase_count n k) ms (map vertex_of_effect (plug_effect n k)).
(* value of the graph with k outputs plugged = plug_coeff * sqrt2 ^ plug_power *)
Definition plug_coeff (T : tensor) (n k : nat) (ms : list bool) : Q := contract (plugged_vertices n k ms) T.
Definition plug_power (n k : nat) (ms : list bool) : Z :=
  (fold_right Z.add 0 (map (fun v => leg_power v - 1) (plugged_vertices n k ms)) + plug_power_comp n k)%Z.

(* ---------------------------------------------------------------------------------------------------------
   3. what `jnp.abs(evaluate(component.compiled_scalar_graphs[g], params))` returns, for a component whose output
      tensor under error assignment f is  T f  (nf = number of selected f-parameters, n = number of outputs):
      graph g has  nth g (outputs_to_plug mode n)  outputs plugged, its parameter row is  f ++ (plugged bits).
      The sqrt2 exponents are tracked separately as integers: `plug_power` (must be 0 for every graph) and the
      balancing exponent `power2_base_of pw g` (must be the same for every graph of the component); the common
      factor sqrt2^(-base) and the scalar dropped by prepare_graph are part of the arbitrary tensor T.
   --------------------------------------------------------------------------------------------------------- *)
Section Weights.
  Variable T : list bool -> tensor.    (* f |-> output tensor *)
  Variable nf n : nat.
  Variable sequential : bool.
  Definition W (g : nat) (params : list bool) : Q :=
    let k := nth g (outputs_to_plug sequential n) 0%nat in
    Qabs (plug_coeff (T (firstn nf params)) n k (skipn nf params)).
  (* total sqrt2 exponent of graph g relative to the common one *)
  Definition W_power (pw : nat -> Z) (g : nat) (params : list bool) : Z :=
    let k := nth g (outputs_to_plug sequential n) 0%nat in
    (plug_power n k (skipn nf params) - power2_base_of pw g + power2_base_of pw 0%nat)%Z.
End Weights.

(* ---------------------------------------------------------------------------------------------------------
   4. _sample_component as a probabilistic program: a binary tree of Bernoulli draws
   --------------------------------------------------------------------------------------------------------- *)
Inductive ptree (A : Type) : Type :=
| Ret (a : A)
| Flip (p : Q) (if_true if_false : ptree A).      (* bit ~ Bernoulli(p) *)
Arguments Ret {A} a.
Arguments Flip {A} p if_true if_false.

Fixpoint set_nth (i : nat) (b : bool) (l : list bool) : list bool :=
  match l, i with
  | [], _ => []
  | _ :: r, O => b :: r
  | x :: r, S i' => x :: set_nth i' b r
  end.

Section SampleComponent.
  Variable Wc : nat -> list bool -> Q.       (* |evaluate(compiled_scalar_graphs[g], params)| *)
  Variable f : list bool.                    (* f_selected row *)
  Fixpoint sc_loop (steps i : nat) (m_acc : list bool) (prev : Q) : ptree (list bool) :=
    match steps with
    | O => Ret m_acc
    | S st =>
        let p1 := Wc (sc_loop_graph i) (sc_params f m_acc i) in
        Flip (sc_bern_p p1 prev)
             (sc_loop st (S i) (set_nth (sc_write_index i) true m_acc) (sc_update true p1 prev))
             (sc_loop st (S i) (set_nth (sc_write_index i) false m_acc) (sc_update false p1 prev))
    end.
  Definition sample_component_plain (n_graphs : nat) : ptree (list bool) :=
    let n := sc_num_outputs n_graphs in
    sc_loop n 0 (repeat false n) (Wc sc_norm_graph (sc_norm_params f)).
  (* sample_component: the generated dispatch applied to the plain sampler *)
  Definition sample_component (n_graphs n_output_indices : nat) : ptree (list bool) :=
    py_dispatch _ (sample_component_plain n_graphs) n_output_indices.
  Definition sample_component_jit (n_graphs : nat) : ptree (list bool) :=
    py_sample_component_jit _ (sample_component_plain n_graphs).
End SampleComponent.

(* exact semantics of a draw tree *)
Fixpoint mass {A} (P : A -> bool) (t : ptree A) : Q :=
  match t with
  | Ret a => if P a then 1 else 0
  | Flip p a b => p * mass P a + (1 - p) * mass P b
  end.
(* the conditionals used along the path that draws the bits m, and the value returned at its end *)
Fixpoint conds {A} (m : list bool) (t : ptree A) : list Q :=
  match t, m with
  | Flip p a b, bit :: r => (if bit then p else 1 - p) :: conds r (if bit then a else b)
  | _, _ => []
  end.
Fixpoint follow {A} (m : list bool) (t : ptree A) : option A :=
  match t, m with
  | Ret a, [] => Some a
  | Flip p a b, bit :: r => follow r (if bit then a else b)
  | _, _ => None
  end.
(* every Bernoulli parameter that can be reached with positive probability is a probability *)
Fixpoint reach_valid {A} (t : ptree A) : Prop :=
  match t with
  | Ret _ => True
  | Flip p a b => 0 <= p <= 1 /\ (0 < p -> reach_valid a) /\ (p < 1 -> reach_valid b)
  end.
Fixpoint bits_eqb (a b : list bool) : bool :=
  match a, b with
  | [], [] => true
  | x :: r, y :: r' => Bool.eqb x y && bits_eqb r r'
  | _, _ => false
  end.

(* ---------------------------------------------------------------------------------------------------------
   5. CompiledStateProbs.probability_of (joint mode) and sample_program's reordering
   --------------------------------------------------------------------------------------------------------- *)
(* one entry per component: (its weight function in joint mode, its f_selected row, state[output_indices]) *)
Definition po_comp := ((nat -> list bool -> Q) * list bool * list bool)%type.
Definition probability_of (comps : list po_comp) : Q :=
  po_result
    (Qprod (map (fun c : po_comp => let '(Wc, f, st) := c in Wc po_joint_graph (po_joint_params f st)) comps))
    (Qprod (map (fun c : po_comp => let '(Wc, f, st) := c in Wc po_norm_graph (po_norm_params f)) comps)).

(* sample_program: results[c] = sample row of component c (component order), output_order = concat of output_indices *)
Definition sample_program_row {A} (d : A) (blocks : list (list nat)) (results : list (list A)) : list A :=
  sp_result d argsort (concat blocks) results.

(* executable helpers for the correspondence run: exact distribution of the sampler on a tensor given as a table *)
Definition tensor_of_table (tbl : list (list bool * Q)) : tensor :=
  fun x => match find (fun e => bits_eqb (fst e) x) tbl with Some e => snd e | None => 0 end.
