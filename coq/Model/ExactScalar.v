(* Hand model (tie B) of tsim/core/exact_scalar.py::ExactScalarArray on int32 data.
   The bilinear form `scalar_mul` and the phase tables are REGENERATED from the source
   (gen/Gen_exact_scalar.v); everything here is executable and contains no proofs.
   Every machine operation is followed by wrap32 (XLA int32 arithmetic wraps silently). *)
From Coq Require Import ZArith List Bool.
Import ListNotations.
Require Import TV.Base.Wrap32 TV.Base.D8 TV.gen.Gen_exact_scalar.
Open Scope Z_scope.

Definition esa := (q4 * Z)%type.                  (* coefficients, power of two *)

(* _scalar_mul on int32: each + - * wraps; the result is congruent to the exact one mod 2^32 *)
Definition mul32 (x y : q4) : q4 := q4_map wrap32 (scalar_mul x y).
Definition esa_mul (x y : esa) : esa := (mul32 (fst x) (fst y), wrap32 (snd x + snd y)).
(* the same without wrap: the exact ring operation *)
Definition esa_mul_exact (x y : esa) : esa := (scalar_mul (fst x) (fst y), snd x + snd y).

(* ---- reduce: `while any(reducible): where(reducible, coeffs // 2, coeffs)` -- per element ---- *)
Definition all_even (x : q4) : bool := let '(a, b, c, d) := x in Z.even a && Z.even b && Z.even c && Z.even d.
Definition is_zero4 (x : q4) : bool := let '(a, b, c, d) := x in (a =? 0) && (b =? 0) && (c =? 0) && (d =? 0).
Definition reducible (x : q4) : bool := all_even x && negb (is_zero4 x).
Definition halve (x : q4) : q4 := q4_map (fun z => z / 2) x.
Fixpoint reduce_fuel (n : nat) (x : esa) : option esa :=
  if reducible (fst x) then
    match n with O => None | S k => reduce_fuel k (halve (fst x), wrap32 (snd x + 1)) end
  else Some x.
(* int32 coefficients: norm1 < 2^33, so 34 rounds always suffice (Proofs: reduce_total_int32) *)
Definition reduce (x : esa) : option esa := reduce_fuel 34 x.

(* ---- sum along the last axis: align to the minimal power, `coeffs * 2**pow` in int32 ---- *)
Definition min_list (l : list Z) : option Z :=
  match l with [] => None | x :: r => Some (fold_left Z.min r x) end.
(* XLA computes int32 `2 ** k` with the exponent taken modulo 64 (observed: 2**64 = 1, 2**32..63 = 0);
   irrelevant below the no-wrap guard k < 31, modelled for bit-exactness of the correspondence *)
Definition pow2_32 (k : Z) : Z := wrap32 (2 ^ (k mod 64)).
Definition align32 (m : Z) (x : esa) : q4 := q4_map (fun c => wrap32 (c * pow2_32 (snd x - m))) (fst x).
Definition add32 (x y : q4) : q4 := q4_map wrap32 (q4_add x y).
(* an exactly-zero summand carries an arbitrary power and is left out of the alignment (tsim 537b58f): the common power is the
   smallest power among the NON-ZERO summands; if every summand is zero it is the plain minimum *)
Definition q4_is_zero (c : q4) : bool := let '(a, b, c', d) := c in (a =? 0) && (b =? 0) && (c' =? 0) && (d =? 0).
Definition sum_min (l : list esa) : option Z :=
  match filter (fun x => negb (q4_is_zero (fst x))) l with
  | [] => min_list (map snd l)
  | nz => min_list (map snd nz)
  end.
Definition align32z (m : Z) (x : esa) : q4 := if q4_is_zero (fst x) then q4_zero else align32 m x.
Definition esa_sum (l : list esa) : option esa :=
  match sum_min l with
  | None => None                                   (* jnp.min of an empty axis raises *)
  | Some m => Some (fold_left add32 (map (align32z m) l) q4_zero, m)
  end.
Definition align_exact (m : Z) (x : esa) : q4 := q4_scale (2 ^ (snd x - m)) (fst x).
Definition align_exactz (m : Z) (x : esa) : q4 := if q4_is_zero (fst x) then q4_zero else align_exact m x.
Definition esa_sum_exact (l : list esa) : option esa :=
  match sum_min l with
  | None => None
  | Some m => Some (fold_left q4_add (map (align_exactz m) l) q4_zero, m)
  end.

(* ---- prod along an axis: associative_scan(combine) then take the last element; empty axis -> identity.
        combine = _scalar_mul_reduced (multiply, then divide out the common power of two -- the closed form
        ctz(a|b|c|d) equals iterating the halving loop) when `prod_reduces` (regenerated from the source),
        else plain _scalar_mul with the powers summed.  The scan may bracket arbitrarily: `tree`. ---- *)
Definition combine (x y : esa) : option esa :=
  if prod_reduces then reduce (esa_mul x y) else Some (esa_mul x y).
Fixpoint fold_combine (l : list esa) (acc : esa) : option esa :=
  match l with
  | [] => Some acc
  | x :: r => match combine acc x with Some a => fold_combine r a | None => None end
  end.
Definition esa_prod (l : list esa) : option esa :=
  match l with [] => Some (q4_one, 0) | x :: r => fold_combine r x end.
Definition esa_prod_exact (l : list esa) : esa :=
  (fold_left scalar_mul (map fst l) q4_one, fold_left Z.add (map snd l) 0).
Inductive tree := Leaf (x : esa) | Node (l r : tree).
Fixpoint tree_eval (t : tree) : option esa :=
  match t with
  | Leaf x => Some x
  | Node l r => match tree_eval l, tree_eval r with Some a, Some b => combine a b | _, _ => None end
  end.
Fixpoint tree_leaves (t : tree) : list esa := match t with Leaf x => [x] | Node l r => tree_leaves l ++ tree_leaves r end.
(* plain int32 products (no reduction) in any bracketing, for the bracketing-independence lemma *)
Inductive tree4 := Leaf4 (x : q4) | Node4 (l r : tree4).
Fixpoint tree_eval32 (t : tree4) : q4 := match t with Leaf4 x => q4_map wrap32 x | Node4 l r => mul32 (tree_eval32 l) (tree_eval32 r) end.
Fixpoint tree4_leaves (t : tree4) : list q4 := match t with Leaf4 x => [x] | Node4 l r => tree4_leaves l ++ tree4_leaves r end.

(* stabilizer-type scalars: what the evaluator multiplies for Clifford circuits.  Raw table values
   w^k, 1+w^k for even k, and their reduced forms u and u*(1+i) with u a power of i (or 0). *)
Definition cliff_units : list q4 := [(1,0,0,0); (0,0,1,0); (-1,0,0,0); (0,0,-1,0)].
Definition cliff_reduced : list q4 :=
  q4_zero :: cliff_units ++ map (scalar_mul (1,0,1,0)) cliff_units.
Definition cliff_raw : list q4 := (2,0,0,0) :: cliff_reduced.
Definition q4_eqb (x y : q4) : bool :=
  let '(a1, b1, c1, d1) := x in let '(a2, b2, c2, d2) := y in (a1 =? a2) && (b1 =? b2) && (c1 =? c2) && (d1 =? d2).
Definition q4_mem (x : q4) (l : list q4) : bool := existsb (q4_eqb x) l.

(* ---- tables of compile/evaluate.py ---- *)
Definition unit_phase (k : nat) : q4 := nth k unit_phases q4_zero.
Definition add_col (col : nat) (v : Z) (x : q4) : q4 :=
  let '(a, b, c, d) := x in
  match col with O => (a + v, b, c, d) | 1%nat => (a, b + v, c, d) | 2%nat => (a, b, c + v, d) | _ => (a, b, c, d + v) end.
Definition one_plus_phase (k : nat) : q4 := add_col one_plus_col one_plus_add (unit_phase k).
