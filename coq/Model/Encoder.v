(* Executable model of tsim/utils/encoder.py (hand-written; tied to the running code by harness/props/c20.py and,
   for the index arithmetic and the class tables, by the regenerated gen/Gen_encoder.v).  No proofs here.

   An input instruction is what `_transform_circuit` reads from a stim.CircuitInstruction: name, (args, tag) as an
   opaque payload `imeta` that is only copied, whether `targets_copy()` is non-empty, and `target_groups()` with every
   target reduced to its `.value` (for rec[-k] the value is -k) and, for the variant of broadcast_targets that keeps
   `M !q` inverted, its is_inverted_result_target flag; the code reads nothing else.  *)
From Coq Require Import ZArith NArith List Bool String.
Import ListNotations.
Require Import TV.Base.PauliTableau TV.gen.Gen_encoder.
Open Scope Z_scope.

Record instr := mkI { iname : string; imeta : Z; ihas : bool; igroups : list (list Z);
                      iinv : list (list bool) (* is_inverted_result_target per target, same shape as igroups;
                                                 missing entries mean "not inverted" *) }.
Inductive otarget := OQ (v : Z) | ORec (v : Z) | OInv (v : Z).
Record oinstr := mkO { oname : string; ometa : Z; otargets : list otarget }.

(* ------------------------------------------------------------------ broadcast_targets / _transform_circuit *)
Definition broadcast_targets (groups : list (list Z)) (stride : Z) (offsets : list Z) : list Z :=
  flat_map (fun g => flat_map (fun off => map (fun t => bt_index t stride off) g) offsets) groups.

(* the inversion flags travel with the targets (same loop structure) *)
Definition broadcast_flags (invs : list (list bool)) (offsets : list Z) : list bool :=
  flat_map (fun g => flat_map (fun _ => g) offsets) invs.
Fixpoint mark (vs : list Z) (fs : list bool) : list otarget :=
  match vs with
  | [] => []
  | v :: vs' => match fs with
                | b :: fs' => (if b && bt_keeps_inversion then OInv v else OQ v) :: mark vs' fs'
                | [] => OQ v :: mark vs' []
                end
  end.

Definition annot_targets (idx : Z -> Z -> Z -> Z) (groups : list (list Z)) (stride : Z) (sup : list Z) : list otarget :=
  flat_map (fun g => flat_map (fun t => map (fun off => ORec (idx t stride off)) sup) g) groups.

Definition nonempty {A} (l : list A) : bool := match l with [] => false | _ => true end.

(* gate_expansions.get(name, [name]) if gate_expansions else [name] *)
Definition gate_seq (exps : list (string * list string)) (nm : string) : list string :=
  match lookup nm exps with Some l => l | None => [nm] end.

Definition transform_instr (stride : Z) (offsets : list Z) (exps : list (string * list string))
           (stabs obs : list (list Z)) (i : instr) : list oinstr :=
  if negb (ihas i) then [mkO (iname i) (imeta i) []]
  else if String.eqb (iname i) "DETECTOR"%string && nonempty stabs then
    map (fun gen => mkO (iname i) (imeta i) (annot_targets det_index (igroups i) stride gen)) stabs
  else if String.eqb (iname i) "OBSERVABLE_INCLUDE"%string && nonempty obs then
    map (fun sup => mkO (iname i) (imeta i) (annot_targets obs_index (igroups i) stride sup)) obs
  else
    let ts := mark (broadcast_targets (igroups i) stride offsets) (broadcast_flags (iinv i) offsets) in
    map (fun g => mkO g (imeta i) ts) (gate_seq exps (iname i)).

Definition transform (stride : Z) (offsets : list Z) (exps : list (string * list string))
           (stabs obs : list (list Z)) (prog : list instr) : list oinstr :=
  flat_map (transform_instr stride offsets exps stabs obs) prog.

(* used_qubits: a Python set, read through sorted(...) *)
Fixpoint insert_u (x : Z) (l : list Z) : list Z :=
  match l with
  | [] => [x]
  | y :: r => if x <? y then x :: l else if x =? y then l else y :: insert_u x r
  end.
Definition used_of (used : list Z) (prog : list instr) : list Z :=
  fold_left (fun u i => if ihas i then fold_left (fun u' t => insert_u t u') (List.concat (igroups i)) u else u) prog used.

(* ------------------------------------------------------------------ TransversalEncoder *)
Record enc_state := mkSt { st_circ : list oinstr; st_used : list Z }.
Definition st0 : enc_state := mkSt [] [].

Definition range (hi : Z) : list Z := map Z.of_nat (seq 0 (Z.to_nat hi)).

Definition enc_instrs (e : enc_table) : list instr :=
  map (fun ng => mkI (fst ng) 0 (nonempty (snd ng)) (snd ng) []) (e_encoding e).

Definition initialize (e : enc_table) (st : enc_state) (prog encoding : list instr) : enc_state :=
  let n := e_n e in let q := e_encq e in
  (* the set handed to _transform_circuit: self.used_qubits itself, or a fresh set (variant encoding new qubits only) *)
  let touched := used_of (if init_encodes_new_only then [] else st_used st) prog in
  let used := if init_encodes_new_only then fold_left (fun u t => insert_u t u) touched (st_used st) else touched in
  let part1 := transform (init_prep_stride n q) (init_prep_offsets n q) [] (e_stabs e) (e_obs e) prog in
  let part2 := transform (init_enc_stride n q) (map (init_enc_offset n q) touched) [] (e_stabs e) (e_obs e) encoding in
  mkSt (st_circ st ++ part1 ++ part2) used.

Definition trans_offsets (e : enc_table) : list Z := range (trans_offsets_hi (e_n e) (e_encq e)).
Definition transversal (e : enc_table) (prog : list instr) : list oinstr :=
  transform (trans_stride (e_n e) (e_encq e)) (trans_offsets e) (e_exps e) (e_stabs e) (e_obs e) prog.
Definition encode_transversally (e : enc_table) (st : enc_state) (prog : list instr) : enc_state :=
  mkSt (st_circ st ++ transversal e prog) (st_used st).

(* the encoding circuit of block j as `initialize` emits it *)
Definition encoding_ops (e : enc_table) (blocks : list Z) : list oinstr :=
  transform (init_enc_stride (e_n e) (e_encq e)) (map (init_enc_offset (e_n e) (e_encq e)) blocks) []
            (e_stabs e) (e_obs e) (enc_instrs e).

(* ------------------------------------------------------------------ Pauli action of physical instruction lists *)
Fixpoint qubits_of (ts : list otarget) : option (list Z) :=
  match ts with
  | [] => Some []
  | OQ v :: r => match qubits_of r with Some l => Some (v :: l) | None => None end
  | _ :: _ => None
  end.
Definition conj_oinstr (o : oinstr) (P : pauli) : option pauli :=
  match qubits_of (otargets o) with Some qs => conj_targets (oname o) qs P | None => None end.
Fixpoint conj_ops (ops : list oinstr) (P : pauli) : option pauli :=
  match ops with
  | [] => Some P
  | o :: r => match conj_oinstr o P with Some P' => conj_ops r P' | None => None end
  end.

(* leading resets of an encoding circuit: (reset qubits, remaining instructions) *)
Fixpoint split_resets (ops : list oinstr) : list Z * list oinstr :=
  match ops with
  | o :: r => if String.eqb (oname o) "R"%string
              then let '(qs, rest) := split_resets r in
                   ((match qubits_of (otargets o) with Some l => l | None => [] end) ++ qs, rest)
              else ([], ops)
  | [] => ([], [])
  end.
Definition no_reset (ops : list oinstr) : bool := forallb (fun o => negb (String.eqb (oname o) "R"%string)) ops.

(* ------------------------------------------------------------------ the code: stabiliser group and logical operators *)
Definition gen_masks (e : enc_table) : list N := map mask (e_stabs e).
Definition stab_x (e : enc_table) : list pauli := map xs_on (e_stabs e).
Definition stab_z (e : enc_table) : list pauli := map zs_on (e_stabs e).
Definition obs_support (e : enc_table) : list Z := hd [] (e_obs e).
Definition Xbar (e : enc_table) : pauli := xs_on (obs_support e).
Definition Zbar (e : enc_table) : pauli := zs_on (obs_support e).
(* i^p Xbar^a Zbar^b *)
Definition lift1 (e : enc_table) (u : l1) : pauli :=
  let '(p, a, b) := u in
  mkP p (if a then mask (obs_support e) else 0%N) (if b then mask (obs_support e) else 0%N).
Definition nN (e : enc_table) : N := Z.to_N (e_n e).
Definition lift2 (e : enc_table) (u : l2) : pauli :=
  let '(p, ab1, ab2) := u in
  pmul (lift1 e (p, fst ab1, snd ab1)) (pshift (nN e) (lift1 e (0, fst ab2, snd ab2))).

Fixpoint select {A} (sel : list bool) (l : list A) : list A :=
  match sel, l with
  | b :: s, x :: r => if b then x :: select s r else select s r
  | _, _ => []
  end.

(* P is a product of listed stabiliser generators (X-type and Z-type on the listed supports), sign included *)
Definition InGroup (e : enc_table) (P : pauli) : Prop :=
  exists sx sz : list bool, P = pmul (pprod (select sx (stab_x e))) (pprod (select sz (stab_z e))).
(* two blocks: block 0 on qubits [0,n), block 1 on [n,2n) *)
Definition InGroup2 (e : enc_table) (P : pauli) : Prop :=
  exists A B, InGroup e A /\ InGroup e B /\ P = pmul A (pshift (nN e) B).

Definition is_some {A} (o : option A) : bool := match o with Some _ => true | None => false end.
Definition in_group (e : enc_table) (P : pauli) : bool :=
  (pph P =? 0) && is_some (find_span (gen_masks e) (px P)) && is_some (find_span (gen_masks e) (pz P)).
Definition plow (n : N) (P : pauli) : pauli := mkP (pph P) (N.land (px P) (N.ones n)) (N.land (pz P) (N.ones n)).
Definition phigh (n : N) (P : pauli) : pauli := mkP 0 (N.shiftr (px P) n) (N.shiftr (pz P) n).
Definition in_group2 (e : enc_table) (P : pauli) : bool :=
  in_group e (plow (nN e) P) && in_group e (phigh (nN e) P) && peqb P (pmul (plow (nN e) P) (pshift (nN e) (phigh (nN e) P))).

Definition pinv (P : pauli) : pauli :=
  mkP ((4 - pph P + 2 * popcount (N.land (px P) (pz P))) mod 4) (px P) (pz P).

(* img = want * s with s in the group *)
Definition rel_ok (ing : pauli -> bool) (want : pauli) (oimg : option pauli) : bool :=
  match oimg with
  | Some img => let s := pmul (pinv want) img in ing s && peqb img (pmul want s)
  | None => false
  end.

Definition PreservesStab (e : enc_table) (ops : list oinstr) : Prop :=
  forall g, In g (stab_x e ++ stab_z e) -> exists img, conj_ops ops g = Some img /\ InGroup e img.
Definition Induces1 (e : enc_table) (ops : list oinstr) (g : string) : Prop :=
  exists tb, img1 g = Some tb /\
  forall u, In u [lX; lZ] -> exists img s, conj_ops ops (lift1 e u) = Some img /\ InGroup e s /\
                                       img = pmul (lift1 e (conj_l1 tb u)) s.
Definition preserves_stab_b (e : enc_table) (ops : list oinstr) : bool :=
  forallb (fun g => match conj_ops ops g with Some img => in_group e img | None => false end) (stab_x e ++ stab_z e).
Definition induces1_b (e : enc_table) (ops : list oinstr) (g : string) : bool :=
  match img1 g with
  | Some tb => forallb (fun u => rel_ok (in_group e) (lift1 e (conj_l1 tb u)) (conj_ops ops (lift1 e u))) [lX; lZ]
  | None => false
  end.

Definition stab2 (e : enc_table) : list pauli :=
  (stab_x e ++ stab_z e) ++ map (pshift (nN e)) (stab_x e ++ stab_z e).
Definition l2gens : list l2 :=
  [(0, (true, false), (false, false)); (0, (false, true), (false, false));
   (0, (false, false), (true, false)); (0, (false, false), (false, true))].
Definition PreservesStab2 (e : enc_table) (ops : list oinstr) : Prop :=
  forall g, In g (stab2 e) -> exists img, conj_ops ops g = Some img /\ InGroup2 e img.
Definition Induces2 (e : enc_table) (ops : list oinstr) (g : string) : Prop :=
  exists tb, img2 g = Some tb /\
  forall u, In u l2gens -> exists img s, conj_ops ops (lift2 e u) = Some img /\ InGroup2 e s /\
                                     img = pmul (lift2 e (conj_l2 tb u)) s.
Definition preserves_stab2_b (e : enc_table) (ops : list oinstr) : bool :=
  forallb (fun g => match conj_ops ops g with Some img => in_group2 e img | None => false end) (stab2 e).
Definition induces2_b (e : enc_table) (ops : list oinstr) (g : string) : bool :=
  match img2 g with
  | Some tb => forallb (fun u => rel_ok (in_group2 e) (lift2 e (conj_l2 tb u)) (conj_ops ops (lift2 e u))) l2gens
  | None => false
  end.

(* the logical gate set of the property *)
Definition logical_gates1 : list string :=
  ["X"; "Y"; "Z"; "H"; "S"; "S_DAG"; "SQRT_X"; "SQRT_X_DAG"; "SQRT_Y"; "SQRT_Y_DAG"]%string.
Definition logical_gates2 : list string := ["CX"; "CZ"]%string.

(* transversal version of a one-/two-qubit logical gate on logical qubit 0 / logical qubits (0,1) *)
Definition transversal1 (e : enc_table) (g : string) : list oinstr := transversal e [mkI g 0 true [[0]] []].
Definition transversal2 (e : enc_table) (g : string) : list oinstr := transversal e [mkI g 0 true [[0; 1]] []].

(* ------------------------------------------------------------------ measurement record and annotations *)
Definition is_meas (nm : string) : bool := String.eqb nm "M"%string.
Definition is_annot (nm : string) : bool := String.eqb nm "DETECTOR"%string || String.eqb nm "OBSERVABLE_INCLUDE"%string.

(* rec[v], v < 0, against a record (list of the qubit each measurement measured) *)
Definition rec_lookup (rc : list Z) (v : Z) : option Z :=
  if v <? 0 then
    let i := Z.of_nat (List.length rc) + v in
    if i <? 0 then None else nth_error rc (Z.to_nat i)
  else None.
Definition otarget_lookup (rc : list Z) (t : otarget) : option Z :=
  match t with ORec v => rec_lookup rc v | _ => None end.
Definition oq_values (ts : list otarget) : list Z :=
  flat_map (fun t => match t with OQ v => [v] | OInv v => [v] | ORec _ => [] end) ts.

(* physical program: for every DETECTOR / OBSERVABLE_INCLUDE the physical qubits whose Z-measurements it adds up *)
Fixpoint presolve (rc : list Z) (prog : list oinstr) : list (string * Z * list (option Z)) :=
  match prog with
  | [] => []
  | o :: r =>
      if is_meas (oname o) then presolve (rc ++ oq_values (otargets o)) r
      else if is_annot (oname o) then (oname o, ometa o, map (otarget_lookup rc) (otargets o)) :: presolve rc r
      else presolve rc r
  end.
(* logical program: for every annotation the logical qubits whose measurements it adds up *)
Fixpoint lresolve (rc : list Z) (prog : list instr) : list (string * Z * bool * list (option Z)) :=
  match prog with
  | [] => []
  | i :: r =>
      if is_meas (iname i) then lresolve (rc ++ List.concat (igroups i)) r
      else if is_annot (iname i) then (iname i, imeta i, ihas i, map (rec_lookup rc) (List.concat (igroups i))) :: lresolve rc r
      else lresolve rc r
  end.

Definition block (n : Z) (q : Z) : list Z := map (fun off => q * n + off) (range n).
Definition block_of (n : Z) (sup : list Z) (oq : option Z) : list (option Z) :=
  map (fun off => option_map (fun q => q * n + off) oq) sup.
(* what the encoded annotations should be: one per listed support, over the blocks of the referenced measurements *)
Definition expand_annot (e : enc_table) (a : string * Z * bool * list (option Z)) : list (string * Z * list (option Z)) :=
  let '(nm, meta, has, L) := a in
  if negb has then [(nm, meta, [])]
  else map (fun sup => (nm, meta, flat_map (block_of (e_n e) sup) L))
           (if String.eqb nm "DETECTOR"%string then e_stabs e else e_obs e).

(* well-formedness of a logical program for the index theorem *)
Definition singletons (gs : list (list Z)) : bool := forallb (fun g => match g with [_] => true | _ => false end) gs.
Definition wf_instr (i : instr) : bool :=
  if is_meas (iname i) then singletons (igroups i) && (ihas i || negb (nonempty (igroups i)))
  else true.
Definition exps_safe (exps : list (string * list string)) : bool :=
  forallb (fun kv => negb (is_meas (fst kv)) && negb (is_annot (fst kv)) &&
                     forallb (fun g => negb (is_meas g) && negb (is_annot g)) (snd kv)) exps.
Definition sups_ok (e : enc_table) : bool :=
  forallb (forallb (fun off => (0 <=? off) && (off <? e_n e))) (e_stabs e ++ e_obs e)
  && nonempty (e_stabs e) && nonempty (e_obs e) && (0 <? e_n e).

(* ------------------------------------------------------------------ statement of "the encoding circuit is correct" *)
Definition enc_resets (e : enc_table) : list Z := fst (split_resets (encoding_ops e [0])).
Definition enc_unitary (e : enc_table) : list oinstr := snd (split_resets (encoding_ops e [0])).
Definition EncodeCorrect (e : enc_table) : Prop :=
  (* all resets come first, and they reset exactly the qubits other than the input qubit *)
  no_reset (enc_unitary e) = true /\
  (forall i, 0 <= i < e_n e -> (In i (enc_resets e) <-> i <> e_encq e)) /\
  (* the stabiliser Z_i of every reset qubit is mapped into the listed stabiliser group, with sign + *)
  (forall i, 0 <= i < e_n e -> i <> e_encq e ->
     exists img, conj_ops (enc_unitary e) (zs_on [i]) = Some img /\ InGroup e img) /\
  (* Z and X of the input qubit become the logical operators (times stabilisers) *)
  (exists s, InGroup e s /\ conj_ops (enc_unitary e) (zs_on [e_encq e]) = Some (pmul (Zbar e) s)) /\
  (exists s, InGroup e s /\ conj_ops (enc_unitary e) (xs_on [e_encq e]) = Some (pmul (Xbar e) s)) /\
  (* the listed supports are independent and give n-1 generators (X- and Z-type), so the images of the n-1
     operators Z_i generate the whole listed group *)
  independent (gen_masks e) = true /\ 2 * Z.of_nat (List.length (e_stabs e)) = e_n e - 1.
Definition encode_b (e : enc_table) : bool :=
  no_reset (enc_unitary e)
  && forallb (fun i => Bool.eqb (existsb (Z.eqb i) (enc_resets e)) (negb (i =? e_encq e))) (range (e_n e))
  && forallb (fun i => (i =? e_encq e) ||
                       match conj_ops (enc_unitary e) (zs_on [i]) with Some img => in_group e img | None => false end)
             (range (e_n e))
  && rel_ok (in_group e) (Zbar e) (conj_ops (enc_unitary e) (zs_on [e_encq e]))
  && rel_ok (in_group e) (Xbar e) (conj_ops (enc_unitary e) (xs_on [e_encq e]))
  && independent (gen_masks e)
  && (2 * Z.of_nat (List.length (e_stabs e)) =? e_n e - 1).

(* ------------------------------------------------------------------ transversal measurement of one block *)
Definition meas_prog : list instr :=
  [mkI "M" 0 true [[0]] []; mkI "DETECTOR" 1 true [[-1]] []; mkI "OBSERVABLE_INCLUDE" 2 true [[-1]] []]%string.
Definition MeasCorrect (e : enc_table) : Prop :=
  (* every rewritten DETECTOR adds up the Z-measurements on the support of one listed generator, the rewritten
     OBSERVABLE_INCLUDE those on the support of the logical Z *)
  presolve [] (transversal e meas_prog)
    = map (fun gen => ("DETECTOR"%string, 1, map Some gen)) (e_stabs e)
      ++ [("OBSERVABLE_INCLUDE"%string, 2, map Some (obs_support e))] /\
  (forall gen, In gen (e_stabs e) -> InGroup e (zs_on gen)) /\
  Zbar e = zs_on (obs_support e) /\ List.length (e_obs e) = 1%nat.

(* programs of logical gates *)
Definition pair_targets (n : Z) (pairs : list (Z * Z)) : list Z :=
  flat_map (fun ab => flat_map (fun off => [fst ab * n + off; snd ab * n + off]) (range n)) pairs.
Inductive gate_instr : instr -> Prop :=
| gate_1q g meta qs : In g logical_gates1 -> qs <> [] -> NoDup qs ->
    gate_instr (mkI g meta true (map (fun q => [q]) qs) [])
| gate_2q g meta pairs : In g logical_gates2 -> pairs <> [] -> NoDup (flat_map (fun ab => [fst ab; snd ab]) pairs) ->
    gate_instr (mkI g meta true (map (fun ab => [fst ab; snd ab]) pairs) []).
Definition all_some (lann : list (string * Z * bool * list (option Z))) : Prop :=
  forall a, In a lann -> forall o, In o (snd a) -> o <> None.

(* ------------------------------------------------------------------ the physics premises of the program theorem
   (NOT modelled in Coq; they are explicit hypotheses of the C20_program theorems).
     implements ops gs : the unitary of the physical instruction list ops maps the code space of every block to
       itself and acts on the encoded qubits as the unitary of the logical instruction list gs, up to a phase.
     prepares : `initialize` leaves every used block in the encoding of the prepared single-qubit state.
     agree ops pann gs lann : with the blocks holding the encoding of an arbitrary logical state psi, after ops every
       physical DETECTOR of pann (the parity of the Z-measurements of the listed physical qubits) is 0 with
       certainty, and the physical OBSERVABLE_INCLUDEs of pann are jointly distributed as the logical annotations
       lann evaluated on Z-measurements of (gs psi). *)
Definition layers (names : list string) (meta : Z) (ts : list Z) : list oinstr :=
  map (fun nm => mkO nm meta (map OQ ts)) names.
Definition PhysicsPremises (e : enc_table)
    (implements : list oinstr -> list instr -> Prop) (prepares : Prop)
    (agree : list oinstr -> list (string * Z * list (option Z)) -> list instr
             -> list (string * Z * bool * list (option Z)) -> Prop) : Prop :=
  (* sequential composition *)
  implements [] [] /\
  (forall ops gs ops' gs', implements ops gs -> implements ops' gs' -> implements (ops ++ ops') (gs ++ gs')) /\
  (* the standard lemma, with tensor locality: layers of one-qubit gates that on ONE block preserve the stabiliser
     group and act on Xbar, Zbar as g acts on X, Z implement g on every block they are applied to *)
  (forall g names meta qs,
     PreservesStab e (layers names 0 (block (e_n e) 0)) -> Induces1 e (layers names 0 (block (e_n e) 0)) g ->
     NoDup qs ->
     implements (layers names meta (flat_map (block (e_n e)) qs)) [mkI g meta true (map (fun q => [q]) qs) []]) /\
  (forall g names meta pairs,
     PreservesStab2 e (layers names 0 (pair_targets (e_n e) [(0, 1)])) ->
     Induces2 e (layers names 0 (pair_targets (e_n e) [(0, 1)])) g ->
     NoDup (flat_map (fun ab => [fst ab; snd ab]) pairs) ->
     implements (layers names meta (pair_targets (e_n e) pairs)) [mkI g meta true (map (fun ab => [fst ab; snd ab]) pairs) []]) /\
  (* measuring code states transversally: stabiliser parities vanish, the Zbar parity is the logical outcome *)
  (forall ops gs lann, EncodeCorrect e -> prepares -> implements ops gs -> all_some lann ->
     agree ops (flat_map (expand_annot e) lann) gs lann).
