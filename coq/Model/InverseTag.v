(* Model of the text half of tsim/circuit.py::Circuit.inverse: an instruction `I[tag]` of stim's inverse whose
   tag parse_parametric_tag recognises is re-tagged with negated (for U3 also swapped) angles.
   Which parameter feeds which slot, the negations, the f-string templates and the formatting function are
   REGENERATED from the source (gen/Gen_inverse.v); hand-written here (shape-checked by the translator) is the exact
   positional formatter `_format_angle` and Fraction normalisation.  Executable, no proofs. *)
From Coq Require Import List Ascii String Bool Arith NArith ZArith Decimal.
Import ListNotations.
Require Import TV.Model.Regex TV.gen.Gen_regex TV.Model.ProgramText TV.gen.Gen_inverse.
Open Scope Z_scope.

(* ---- Python str(int) for a non-negative int: decimal digits, most significant first, "0" for 0 ---- *)
Fixpoint uint_str (u : Decimal.uint) : str :=
  match u with
  | Nil => []
  | D0 u => "0"%char :: uint_str u | D1 u => "1"%char :: uint_str u | D2 u => "2"%char :: uint_str u
  | D3 u => "3"%char :: uint_str u | D4 u => "4"%char :: uint_str u | D5 u => "5"%char :: uint_str u
  | D6 u => "6"%char :: uint_str u | D7 u => "7"%char :: uint_str u | D8 u => "8"%char :: uint_str u
  | D9 u => "9"%char :: uint_str u
  end.
Definition nat_str (n : N) : str := uint_str (N.to_uint n).
(* s.rjust(w, "0") *)
Definition rjust0 (s : str) (w : nat) : str := repeat "0"%char (w - List.length s) ++ s.

(* ---- fractions.Fraction: lowest terms, positive denominator ---- *)
Definition frac := (Z * Z)%type.
Definition fraction_of_dec (d : dec) : frac :=
  let p := 10 ^ Z.of_nat (snd d) in
  let g := Z.gcd (fst d) p in
  (fst d / g, p / g).
Definition frac_neg (x : frac) : frac := (- fst x, snd x).
Definition frac_of (negate : bool) (d : dec) : frac :=
  if negate then frac_neg (fraction_of_dec d) else fraction_of_dec d.

(* ---- _format_angle ----
     sign = "-" if x < 0 else ""
     num, den = abs(x.numerator), x.denominator
     scale = 0
     while num * 10**scale % den != 0: scale += 1
     digits = str(num * 10**scale // den).rjust(scale + 1, "0")
     if scale == 0: return f"{sign}{digits}.0"
     return f"{sign}{digits[:-scale]}.{digits[-scale:]}"
   The loop is fuelled here; Proofs/InverseTagProofs.v shows that scale+1 iterations always suffice for a value
   read from a decimal literal with `scale` fractional digits (so the Python loop terminates). *)
Fixpoint find_scale (fuel : nat) (num den : Z) (scale : nat) : option nat :=
  if (num * 10 ^ Z.of_nat scale) mod den =? 0 then Some scale
  else match fuel with
       | O => None
       | S f => find_scale f num den (S scale)
       end.

Definition format_positional (fuel : nat) (x : frac) : option str :=
  let sign := if fst x <? 0 then ["-"%char] else [] in
  let num := Z.abs (fst x) in
  let den := snd x in
  match find_scale fuel num den 0 with
  | None => None
  | Some scale =>
      let digits := rjust0 (nat_str (Z.to_N (num * 10 ^ Z.of_nat scale / den))) (S scale) in
      match scale with
      | O => Some (sign ++ digits ++ lit ".0")
      | S _ =>
          let cut := (List.length digits - scale)%nat in
          Some (sign ++ firstn cut digits ++ "."%char :: skipn cut digits)
      end
  end.

(* repr(float(x)) is NOT modelled (shortest round-trip digits of the nearest double, scientific notation below
   1e-4 and from 1e16): under FmtFloatRepr no text is produced and the C16 theorems cannot be proved; the harness
   then searches the implementation for an angle whose re-tagged instruction is no longer recognised. *)
Definition format_value (fuel : nat) (x : frac) : option str :=
  match inv_fmt with
  | FmtPositional => format_positional fuel x
  | FmtFloatRepr => None
  end.

(* ---- the re-tagging ---- *)
Inductive retag_result : Type :=
| RKeep                 (* not re-tagged: the instruction of stim's inverse is appended unchanged *)
| RRaise                (* Fraction / KeyError raises *)
| RFuel                 (* model artefact: formatting fuel exhausted (excluded by the theorems) *)
| RTag (t : str).       (* appended as I[t] with the same targets and arguments *)

Fixpoint format_sources (d : list (str * dec)) (srcs : list (str * bool)) : option (option (list str)) :=
  (* None = raises KeyError; Some None = out of fuel; Some (Some l) = formatted values *)
  match srcs with
  | [] => Some (Some [])
  | (key, negate) :: r =>
      match dict_get d key with
      | None => None
      | Some v =>
          match format_value (S (snd v)) (frac_of negate v) with
          | None => Some None
          | Some s =>
              match format_sources d r with
              | Some (Some l) => Some (Some (s :: l))
              | other => other
              end
          end
      end
  end.

Definition build_tag (tpl : list ipiece) (gate : str) (vals : list str) : str :=
  flat_map (fun pc => match pc with PLit s => s | PGate => gate | PVal k => nth k vals [] end) tpl.

Definition retag (tag : str) : retag_result :=
  match parse_parametric_tag tag with
  | PNone => RKeep
  | PError => RRaise
  | POk gate d =>
      let (srcs, tpl) := if str_eqb gate inv_u3_gate then (inv_u3_sources, inv_u3_tpl)
                         else (inv_rot_sources, inv_rot_tpl) in
      match format_sources d srcs with
      | None => RRaise
      | Some None => RFuel
      | Some (Some vals) => RTag (build_tag tpl gate vals)
      end
  end.

(* instruction level: only `I` with a non-empty tag is looked at *)
Definition inverse_instr_tag (name tag : str) : retag_result :=
  if (str_eqb name inv_retag_name && nonempty tag)%bool then retag tag else RKeep.

(* exact equality of decimals as rationals: m1/10^k1 = m2/10^k2 *)
Definition dec_eq (a b : dec) : Prop := fst a * 10 ^ Z.of_nat (snd b) = fst b * 10 ^ Z.of_nat (snd a).
Definition dec_opp (a : dec) : dec := (- fst a, snd a).

(* printable forms for the harness *)
Definition retag_show (r : retag_result) : N * list N :=
  match r with RKeep => (0%N, []) | RRaise => (1%N, []) | RFuel => (3%N, []) | RTag t => (2%N, codes t) end.
