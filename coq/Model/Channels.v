(* Hand model (tie B) of tsim/noise/channels.py: the channel simplification pipeline of ChannelSampler.
   Executable, no proofs.  Tied to the running code by harness/props/c07.py (exact comparison of the simplified
   channel lists and signature matrices on generated inputs).

   Conventions.  Channel = (probs : list Q of length 2^k, col_ids : list nat of length k)  [Base/Dist.v].
   numpy's `probs.reshape((2,)*n, order="F")` gives the element with flat index idx the multi-index
   (bit_0 idx, ..., bit_{n-1} idx) (axis 0 fastest), so every reshape/transpose/sum/`new_probs[new_idx] += ...`
   in channels.py is an INDEX REMAPPING idx |-> g idx of the flat table; `scatter` below is that one primitive
   (new[j] = sum of the weights sent to j).  Probabilities are normalised with Qred entry by entry, which
   does not change their value (==). *)
From Coq Require Import List NArith QArith Bool Arith.
Import ListNotations.
Require Import TV.Base.Dist.
Open Scope nat_scope.

(* new table of size m: entry j is the sum of the weights of the items whose target index is j *)
Definition scatter (m : nat) (items : list (nat * Q)) : list Q :=
  map (fun j => Qred (qsum (map snd (filter (fun it => Nat.eqb (fst it) j) items)))) (seq 0 m).

(* items of a table pushed along g : old index -> new index *)
Definition remap_items (g : nat -> nat) (probs : list Q) : list (nat * Q) :=
  map (fun idx => (g idx, nth idx probs 0%Q)) (seq 0 (length probs)).

(* ---- xor_convolve: for a in range(n): for b in range(n): result[a ^ b] += pa[a] * pb[b] ------------------- *)
(* (the ValueError on unequal lengths is not modelled: callers convolve tables over the same column tuple) *)
Definition xor_convolve (pa pb : list Q) : list Q :=
  let n := length pa in
  scatter n (flat_map (fun a => map (fun b => (Nat.lxor a b, (nth a pa 0 * nth b pb 0)%Q)) (seq 0 n)) (seq 0 n)).

(* ---- reduce_null_bits ------------------------------------------------------------------------------------ *)
(* flat index (order F) of the axes kept after summing out the others *)
Fixpoint compress (keep : list bool) (idx : nat) : nat :=
  match keep with
  | [] => 0
  | k :: ks => if k then Nat.b2n (Nat.odd idx) + 2 * compress ks (Nat.div2 idx)
               else compress ks (Nat.div2 idx)
  end.

Definition non_null (null : nat) (c : nat) : bool := negb (Nat.eqb c null).

Definition reduce_null_channel (null : nat) (ch : channel) : list channel :=
  let new_cols := filter (non_null null) (ch_cols ch) in
  match new_cols with
  | [] => []                                   (* all entries null: channel removed *)
  | _ => [(scatter (2 ^ length new_cols) (remap_items (compress (map (non_null null) (ch_cols ch))) (ch_probs ch)),
           new_cols)]
  end.

Definition reduce_null_bits (null_col_id : option nat) (chs : list channel) : list channel :=
  match null_col_id with
  | None => chs
  | Some null => flat_map (reduce_null_channel null) chs
  end.

(* ---- normalize_channels ---------------------------------------------------------------------------------- *)
(* np.argsort(col_ids, stable=True): positions 0..n-1 inserted in order, each after all keys <= its own *)
Fixpoint insert_stable (key : nat -> nat) (p : nat) (l : list nat) : list nat :=
  match l with
  | [] => [p]
  | q :: r => if key p <? key q then p :: l else q :: insert_stable key p r
  end.
Definition argsort_stable (cols : list nat) : list nat :=
  fold_left (fun acc p => insert_stable (fun i => nth i cols 0) p acc) (seq 0 (length cols)) [].

(* probs_tensor.transpose(perm).reshape(order="F"): new axis a is old axis perm[a], i.e. bit a of the new
   flat index is bit perm[a] of the old one *)
Fixpoint gather_bits (perm : list nat) (idx : nat) : nat :=
  match perm with
  | [] => 0
  | p :: ps => Nat.b2n (Nat.testbit idx p) + 2 * gather_bits ps idx
  end.

Definition normalize_channel (ch : channel) : channel :=
  let perm := argsort_stable (ch_cols ch) in
  (scatter (2 ^ length perm) (remap_items (gather_bits perm) (ch_probs ch)),
   map (fun p => nth p (ch_cols ch) 0) perm).

Definition normalize_channels (chs : list channel) : list channel := map normalize_channel chs.

(* ---- expand_channel -------------------------------------------------------------------------------------- *)
(* tuple.index: first position (ValueError when absent is unreachable: callers establish set(source) < set(target)) *)
Fixpoint index_of (x : nat) (l : list nat) : nat :=
  match l with
  | [] => 0
  | y :: r => if Nat.eqb x y then 0 else S (index_of x r)
  end.

(* new_idx ^= 1 << source_to_target[src_col] for every set bit src_pos of old_idx
   (FIXED behaviour, fixes_proposed/C07-expand-xor.diff) *)
Fixpoint expand_idx (target cols : list nat) (idx : nat) : nat :=
  match cols with
  | [] => 0
  | c :: cs => Nat.lxor (if Nat.odd idx then 2 ^ index_of c target else 0) (expand_idx target cs (Nat.div2 idx))
  end.
(* the code before the fix: new_idx |= 1 << ...  (kept only to state C07_expand_or_refuted) *)
Fixpoint expand_idx_or (target cols : list nat) (idx : nat) : nat :=
  match cols with
  | [] => 0
  | c :: cs => Nat.lor (if Nat.odd idx then 2 ^ index_of c target else 0) (expand_idx_or target cs (Nat.div2 idx))
  end.

Definition expand_channel_with (f : list nat -> list nat -> nat -> nat) (ch : channel) (target : list nat) : channel :=
  (scatter (2 ^ length target) (remap_items (f target (ch_cols ch)) (ch_probs ch)), target).
Definition expand_channel := expand_channel_with expand_idx.
Definition expand_channel_or := expand_channel_with expand_idx_or.

(* ---- merge_identical_channels ---------------------------------------------------------------------------- *)
Fixpoint list_nat_eqb (a b : list nat) : bool :=
  match a, b with
  | [], [] => true
  | x :: a', y :: b' => Nat.eqb x y && list_nat_eqb a' b'
  | _, _ => false
  end.

(* groups is a dict keyed by the col-id tuple (insertion order = order of first occurrence);
   each group is folded from the left with xor_convolve *)
Fixpoint insert_group (acc : list channel) (ch : channel) : list channel :=
  match acc with
  | [] => [ch]
  | g :: r => if list_nat_eqb (ch_cols g) (ch_cols ch)
              then (xor_convolve (ch_probs g) (ch_probs ch), ch_cols g) :: r
              else g :: insert_group r ch
  end.
Definition merge_identical_channels (chs : list channel) : list channel := fold_left insert_group chs [].

(* ---- absorb_subset_channels ------------------------------------------------------------------------------ *)
(* sorted(channels, key=lambda c: -len(c.unique_col_ids)) -- stable *)
Fixpoint insert_by_len (ch : channel) (l : list channel) : list channel :=
  match l with
  | [] => [ch]
  | x :: r => if length (ch_cols x) <? length (ch_cols ch) then ch :: l else x :: insert_by_len ch r
  end.
Definition sort_by_len (chs : list channel) : list channel := fold_left (fun acc ch => insert_by_len ch acc) chs [].

Definition mem (x : nat) (l : list nat) : bool := existsb (Nat.eqb x) l.
Fixpoint dedup (l : list nat) : list nat :=
  match l with
  | [] => []
  | x :: r => if mem x r then dedup r else x :: dedup r
  end.
Definition subset (a b : list nat) : bool := forallb (fun x => mem x b) a.
(* set(a) < set(b) *)
Definition strict_subset (a b : list nat) : bool := subset a b && negb (subset b a).

(* inner loop: `for j, channel_j in enumerate(channels): if j <= i or j in absorbed: continue ...` over the
   channels after position i; `absorbed` is the set of absorbed positions.  `ex` is expand_channel (a parameter
   only so that the pre-fix OR variant can be run through the same loops for the refutation witness). *)
Fixpoint absorb_inner_with (ex : channel -> list nat -> channel) (max_bits : nat) (cols_i : list nat) (cur : list Q)
         (rest : list (nat * channel)) (absorbed : list nat) : list Q * list nat :=
  match rest with
  | [] => (cur, absorbed)
  | (j, cj) :: r =>
      if mem j absorbed then absorb_inner_with ex max_bits cols_i cur r absorbed
      else if strict_subset (ch_cols cj) cols_i && (length (dedup cols_i) <=? max_bits)
           then absorb_inner_with ex max_bits cols_i
                  (xor_convolve cur (ch_probs (ex cj cols_i))) r (j :: absorbed)
           else absorb_inner_with ex max_bits cols_i cur r absorbed
  end.

Fixpoint absorb_outer_with (ex : channel -> list nat -> channel) (max_bits : nat) (l : list (nat * channel))
         (absorbed : list nat) : list channel :=
  match l with
  | [] => []
  | (i, ci) :: r =>
      if mem i absorbed then absorb_outer_with ex max_bits r absorbed
      else let res := absorb_inner_with ex max_bits (ch_cols ci) (ch_probs ci) r absorbed in
           (fst res, ch_cols ci) :: absorb_outer_with ex max_bits r (snd res)
  end.

Definition absorb_subset_channels_with ex (max_bits : nat) (chs : list channel) : list channel :=
  let s := sort_by_len chs in
  absorb_outer_with ex max_bits (combine (seq 0 (length s)) s) [].
Definition absorb_subset_channels := absorb_subset_channels_with expand_channel.

(* ---- simplify_channels ----------------------------------------------------------------------------------- *)
Definition simplify_channels_with ex (max_bits : nat) (null_col_id : option nat) (chs : list channel) : list channel :=
  absorb_subset_channels_with ex max_bits
    (merge_identical_channels (normalize_channels (reduce_null_bits null_col_id chs))).
Definition simplify_channels := simplify_channels_with expand_channel.
(* the pipeline as it was before the fix (OR in expand_channel), only for the refutation witness *)
Definition simplify_channels_or := simplify_channels_with expand_channel_or.

(* ---- ChannelSampler.__init__ ----------------------------------------------------------------------------- *)
(* error_transform is given by its columns, each column an N bitmask with ROW 0 MOST SIGNIFICANT, so that
   np.unique(axis=1)'s lexicographic column order (row 0 first) is the numeric order of the masks. *)
Fixpoint insert_uniq (x : N) (l : list N) : list N :=
  match l with
  | [] => [x]
  | y :: r => if (x <? y)%N then x :: l else if (x =? y)%N then l else y :: insert_uniq x r
  end.
Definition unique_cols (cols : list N) : list N := fold_left (fun acc c => insert_uniq c acc) cols [].

Fixpoint index_ofN (x : N) (l : list N) : nat :=
  match l with
  | [] => 0
  | y :: r => if (x =? y)%N then 0 else S (index_ofN x r)
  end.

(* np.flatnonzero(np.all(unique_cols == 0, axis=0))[0] if any *)
Fixpoint find_zero (u : list N) (i : nat) : option nat :=
  match u with
  | [] => None
  | x :: r => if (x =? 0)%N then Some i else find_zero r (S i)
  end.

(* num_bits = int(np.log2(len(probs))); col_ids = inverse[e_offset : e_offset + num_bits] *)
Fixpoint make_channels (tables : list (list Q)) (inverse : list nat) : list channel :=
  match tables with
  | [] => []
  | t :: r => let k := Nat.log2 (length t) in (t, firstn k inverse) :: make_channels r (skipn k inverse)
  end.

Definition sampler_init (max_bits : nat) (tables : list (list Q)) (cols : list N) : list channel * list N :=
  let u := unique_cols cols in
  let inverse := map (fun c => index_ofN c u) cols in
  (simplify_channels max_bits (find_zero u 0) (make_channels tables inverse), u).

(* What the constructor's arguments MEAN (its docstring): channel i produces k_i = log2(len(probs_i)) raw error bits
   e_j starting at j = k_0 + ... + k_{i-1}, and f = error_transform . e over GF(2); i.e. the original channels
   carry the raw bit positions as column ids and the signature rows are the columns of error_transform. *)
Fixpoint raw_channels (tables : list (list Q)) (off : nat) : list channel :=
  match tables with
  | [] => []
  | t :: r => let k := Nat.log2 (length t) in (t, seq off k) :: raw_channels r (off + k)
  end.
Definition total_bits (tables : list (list Q)) : nat := fold_right (fun t acc => Nat.log2 (length t) + acc) 0 tables.

(* ---- _sample_channels: bits = (samples >> arange(num_bits)) & 1; res ^= bits[:, i] * matrix[col_id] ------- *)
Definition extract_bits (num_bits idx : nat) : list bool :=
  map (fun i => Nat.odd (Nat.shiftr idx i)) (seq 0 num_bits).
Definition sample_contrib (sigs : list N) (ch : channel) (idx : nat) (res : N) : N :=
  let bits := extract_bits (Nat.log2 (length (ch_probs ch))) idx in
  fold_left (fun res ic => N.lxor res (if nth (fst ic) bits false then row sigs (snd ic) else 0%N))
            (combine (seq 0 (length (ch_cols ch))) (ch_cols ch)) res.
(* one sampled row: `o` holds the categorical sample of every channel *)
Definition sample_row (sigs : list N) (chs : list channel) (o : list nat) : N :=
  fold_left (fun res ci => sample_contrib sigs (fst ci) (snd ci) res) (combine chs o) 0%N.

(* ---- printing helpers for the correspondence run ----------------------------------------------------------- *)
Definition show_q (q : Q) : Z * Z := let r := Qred q in (Qnum r, Zpos (Qden r)).
Definition show_channel (ch : channel) : list (Z * Z) * list nat := (map show_q (ch_probs ch), ch_cols ch).
Definition show_sampler (r : list channel * list N) : list (list (Z * Z) * list nat) * list N :=
  (map show_channel (fst r), snd r).
