(* C12 -- what tsim's parser does with one instruction, as a function of the FACTS regenerated from the source
   (gen/Gen_parse_facts.v) and of the target attributes of the installed Stim (gen/Gen_stim_vocab.v: kind_attrs).

     classify : vrow -> Reject | Accept roles args_consumed

   `roles` is how each target ends up being USED (operand qubit, record bit, Pauli factor, ...), which is then
   compared with what the target MEANS in Stim (v_roles).  Executable, no proofs in this file. *)
From Coq Require Import String List Bool Arith.
Import ListNotations.
Require Import TV.Model.ParseTypes TV.gen.Gen_parse_facts TV.gen.Gen_stim_vocab.
Open Scope string_scope.

Inductive verdict := Reject | Accept (roles : list role) (args_consumed : bool).

Definition kind_has (l : list tattr) (k : tkind) : bool := existsb (fun a => mem_attr a (kind_attrs k)) l.

(* ------------------------------------------------------------------------------------------------------
   special branches: the per-target rules run in source order, then the callee uses `.value` *)
Definition pauli_of_attrs (l : list tattr) : option pauli :=
  if mem_attr APX l then Some PX else if mem_attr APY l then Some PY else if mem_attr APZ l then Some PZ else None.

Inductive tres := TReject | TRole (r : role).

Fixpoint run_rules (sp : special) (rules : list rule) (attrs : list tattr) (p : option pauli) : tres :=
  match rules with
  | [] =>
      TRole (match sp_sink sp with
             | SinkNone => RIgnored
             | SinkRecord => RRecRef                      (* b.rec[value], whatever the target was *)
             | SinkQubitPauli =>
                 match p with
                 | Some q => if sp_reads_inverted sp && mem_attr AInverted attrs then RPauliInv q else RPauli q
                 | None => RQubit
                 end
             end)
  | RuleSkipIf a :: r =>
      if mem_attr a attrs then TRole (if tattr_eqb a ACombiner && sp_combiner_joins sp then RCombiner else RIgnored)
      else run_rules sp r attrs p
  | RuleRaiseIf a :: r => if mem_attr a attrs then TReject else run_rules sp r attrs p
  | RuleRaiseUnless a :: r => if mem_attr a attrs then run_rules sp r attrs p else TReject
  | RulePauliOrRaise :: r =>
      match pauli_of_attrs attrs with None => TReject | Some q => run_rules sp r attrs (Some q) end
  end.

Fixpoint collect (l : list tres) : option (list role) :=
  match l with
  | [] => Some []
  | TReject :: _ => None
  | TRole r :: t => match collect t with None => None | Some rs => Some (r :: rs) end
  end.

Definition classify_special (sp : special) (kinds : list tkind) : verdict :=
  match kinds with
  | [] => if sp_rejects_empty sp then Reject else Accept [] (sp_args_consumed sp)
  | _ =>
    match collect (map (fun k => run_rules sp (sp_rules sp) (kind_attrs k) None) kinds) with
    | None => Reject
    | Some rs => Accept rs (sp_args_consumed sp)
    end
  end.

(* ------------------------------------------------------------------------------------------------------
   generic dispatch:  gate_func(b, *chunk, *args [, invert=True | classically_controlled=cc_chunk]) *)

(* Python raises TypeError unless the positional arguments fit, every keyword names a parameter that is not already
   filled positionally, and every remaining parameter has a default or is given by keyword *)
Definition call_ok (f : gfun) (npos : nat) (kws : list string) : bool :=
  let ps := gf_params f in
  Nat.leb npos (length ps) &&
  forallb (fun kw => mem_str kw (map fst (skipn npos ps))) kws &&
  forallb (fun p => snd p || mem_str (fst p) kws) (skipn npos ps).

Definition swap_if {A} (b : bool) (p : A * A) : A * A := if b then (snd p, fst p) else p.

(* follow classically_controlled down to _cx_cz: (is_cx, operand positions (control, target), flags) *)
Fixpoint cc_resolve (fuel : nat) (fname : string) (ops : nat * nat) (flags : bool * bool)
  : option (bool * (nat * nat) * (bool * bool)) :=
  match fuel with
  | O => None
  | S n =>
    match assoc fname cc_flows with
    | None => None
    | Some (CCBase is_cx sw) => Some (is_cx, swap_if sw ops, flags)
    | Some (CCForward callee sw rv) => cc_resolve n callee (swap_if sw ops) (swap_if rv flags)
    end
  end.

(* the classical-control block of _cx_cz; None = raises *)
Definition cxcz_roles (is_cx : bool) (ops : nat * nat) (flags : bool * bool) : option (list role) :=
  let sw := cxcz_cz_swaps && snd flags && negb is_cx in
  let ops := swap_if sw ops in
  let flags := swap_if sw flags in
  if cxcz_rejects_flag1 && snd flags then None
  else
    let crole := if cxcz_control_is_record then RRecCtl else RQubit in
    Some (map (fun j => if Nat.eqb j (fst ops) then crole else RQubit) [0; 1]).

Definition arg_params (f : gfun) (ntargets nargs : nat) : list string :=
  map fst (firstn nargs (skipn ntargets (gf_params f))).

(* one application of the gate function to one chunk of targets *)
Definition classify_chunk (f : gfun) (nargs : nat) (ch : list tkind) : verdict :=
  let inv := match ch with k :: _ => kind_has dispatch_inv_attrs k | [] => false end in
  let ccs := map (kind_has dispatch_cc_attrs) ch in
  let cc0 := match ccs with c :: _ => c | [] => false end in
  if inv && cc0 then Reject (* assert *) else
  let '(pc, pa, kws) := if inv then call_inv else if existsb (fun c => c) ccs then call_cc else call_plain in
  let ntg := if pc then length ch else 0 in
  let npos := ntg + (if pa then nargs else 0) in
  if negb (call_ok f npos kws) then Reject else
  let consumed := pa && forallb (fun p => mem_str p (gf_used f)) (arg_params f ntg nargs) in
  if negb pc then Accept (map (fun _ => RIgnored) ch) consumed else
  if mem_str "classically_controlled" kws then
    match ccs with
    | [c0; c1] =>
      match cc_resolve (S (length cc_flows)) (gf_name f) (0, 1) (c0, c1) with
      | None => Accept (map (fun _ => RInvalid) ch) consumed     (* the model cannot follow the flags *)
      | Some (is_cx, ops, flags) =>
        match cxcz_roles is_cx ops flags with
        | None => Reject
        | Some rs => Accept rs consumed
        end
      end
    | _ => Accept (map (fun _ => RInvalid) ch) consumed
    end
  else
    let honoured := inv && mem_str "invert" kws && mem_str "invert" (gf_used f) in
    Accept (match ch with
            | [] => []
            | _ :: t => (if honoured then RQubitInv else RQubit) :: map (fun _ => RQubit) t
            end) consumed.

Fixpoint classify_chunks (fuel : nat) (f : gfun) (arity nargs : nat) (kinds : list tkind) : verdict :=
  match fuel with
  | O => Accept [] true
  | S n =>
    match kinds with
    | [] => Accept [] true
    | _ =>
      match classify_chunk f nargs (firstn arity kinds) with
      | Reject => Reject
      | Accept rs c =>
        match classify_chunks n f arity nargs (skipn arity kinds) with
        | Reject => Reject
        | Accept rs' c' => Accept (rs ++ rs') (c && c')
        end
      end
    end
  end.

Definition guard_rejects (kinds : list tkind) : bool :=
  existsb (fun k =>
    existsb (fun g => match g with
                      | RuleRaiseIf a => mem_attr a (kind_attrs k)
                      | RuleRaiseUnless a => negb (mem_attr a (kind_attrs k))
                      | _ => false
                      end) dispatch_guards) kinds.

Definition find_fun (n : string) : option gfun := find (fun f => String.eqb n (gf_name f)) gate_funs.
Definition find_special (n : string) : option special := find (fun sp => mem_str n (sp_names sp)) specials.

Definition classify (r : vrow) : verdict :=
  let ignore_all := map (fun _ => RIgnored) (v_kinds r) in
  if v_block r then (if iterates_flattened then Accept [] true else Reject) else
  if mem_str (v_canon r) skipped_names then Accept ignore_all false else
  match find_special (v_canon r) with
  | Some sp => classify_special sp (v_kinds r)
  | None =>
    match assoc (v_canon r) gate_table with
    | None => if unknown_raises then Reject else Accept ignore_all false
    | Some (fname, arity) =>
      match find_fun fname with
      | None => Accept (map (fun _ => RInvalid) (v_kinds r)) false
      | Some f =>
        if guard_rejects (v_kinds r) then Reject
        else if Nat.eqb arity 0 then Accept (map (fun _ => RInvalid) (v_kinds r)) false
        else classify_chunks (S (length (v_kinds r))) f arity (v_nargs r) (v_kinds r)
      end
    end
  end.

(* ------------------------------------------------------------------------------------------------------
   the property, per row: rejected, or every target used as what it means and the arguments not dropped *)
Definition args_ok (r : vrow) (consumed : bool) : bool :=
  negb (v_args_sem r) || Nat.eqb (v_nargs r) 0 || consumed.

Definition ok (r : vrow) : bool :=
  match classify r with
  | Reject => true
  | Accept roles consumed => v_valid r && roles_eqb roles (v_roles r) && args_ok r consumed
  end.

Definition rejects (r : vrow) : bool := match classify r with Reject => true | _ => false end.

(* a printable key: the row as text is produced by the harness; in Coq rows are identified by these three *)
Definition row_id (r : vrow) : string * list tkind * nat := (v_name r, v_kinds r, v_nargs r).
