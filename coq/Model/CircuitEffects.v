(* The effect IR into which translate/circuit_effects.py compiles every method of tsim.circuit.Circuit
   (gen/Gen_circuit_effects.v).  No proofs here.

   An object expression denotes a stim.Circuit OBJECT: either a live one (the receiver's wrapped circuit,
   the operand) or a fresh one produced by a Stim call.  A method is: statements executed on the receiver,
   what it returns, and (when it returns a new tsim Circuit) statements executed on that new handle. *)
From Coq Require Import List String.
Import ListNotations.

Inductive oexp :=
| XSelf                          (* self._stim_circ : the live wrapped object of the receiver *)
| XOtherT                        (* other._stim_circ : the live wrapped object of a tsim operand *)
| XOtherS                        (* the stim.Circuit argument itself (live, owned by the caller) *)
| XParse                         (* stim.Circuit(shorthand_to_stim(text)) : fresh *)
| XEmpty                         (* stim.Circuit() : fresh *)
| XCopy (e : oexp)               (* e.copy() *)
| XFlattened (e : oexp)          (* e.flattened() *)
| XMul (e : oexp)                (* e * repetitions *)
| XSlice (e : oexp)              (* e[slice] *)
| XWithoutNoise (e : oexp)       (* e.without_noise() *)
| XFiltered (drop : list string) (e : oexp).
                                 (* c = stim.Circuit(); for instr in e: if instr.name in drop: continue; c.append(instr) *)

Inductive stmt :=
| SSetSelf (e : oexp)            (* self._stim_circ = e *)
| SIAdd (e : oexp)               (* self._stim_circ += e      (in place on the live object) *)
| SIMul                          (* self._stim_circ *= repetitions   (in place) *)
| SAppendText                    (* self._stim_circ.append_from_stim_program_text(shorthand_to_stim(text))  (in place) *)
| SPop.                          (* self._stim_circ.pop(index)  (in place) *)

Inductive retk :=
| RNone | RSelf | RValue         (* nothing / the receiver / a value that is not a circuit *)
| RNew (e : oexp)                (* a NEW tsim Circuit whose _stim_circ is the object e *)
| RStim (e : oexp).              (* the stim.Circuit object e itself *)

Record meffect := mkE {
  pre : list stmt;               (* on the receiver *)
  ret : retk;
  post : list stmt;              (* on the new Circuit (ret = RNew _) before it is returned *)
  passes_live_to : list string   (* external callees that receive the live object / the receiver (assumed read-only) *)
}.

(* does evaluating the expression allocate a new object? *)
Definition fresh (e : oexp) : bool :=
  match e with XSelf | XOtherT | XOtherS => false | _ => true end.
