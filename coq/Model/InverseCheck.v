(* C16 (matrix half): gate . inverse-gate is the identity up to a unit phase, on the regenerated gate functions. No proofs. *)
From Coq Require Import ZArith List Bool String.
Import ListNotations.
Require Import TV.Base.EP TV.Model.Lane TV.Spec.RotGates TV.gen.Gen_instructions TV.gen.Gen_stim_gates TV.Model.GateCheck.

Definition ident_cols (n : nat) : list vec :=
  map (fun j => tabulate (dim n) (fun i => if Nat.eqb i j then p1 else p0)) (seq 0 (dim n)).
(* stim's inverse keeps the targets of every gate application and replaces the name by gate_data(name).inverse *)
Definition check_inv_row (row : string * (string * nat)) : bool :=
  let '(name, (fn, ar)) := row in
  match doc_of name with
  | None => true
  | Some _ =>
      match assoc (canon name) stim_inverses with
      | None => false
      | Some iname =>
          match assoc iname gate_table with
          | None => false                      (* the inverse must again be a gate tsim interprets *)
          | Some (fn', ar') =>
              Nat.eqb ar ar' &&
              match ar with
              | 1%nat => match assoc fn unitary1, assoc fn' unitary1 with
                         | Some g, Some g' => has_phase clifford_phases (mat 1 (g 0%nat ++ g' 0%nat)) (ident_cols 1)
                         | _, _ => false end
              | 2%nat => match assoc fn unitary2, assoc fn' unitary2 with
                         | Some g, Some g' => has_phase clifford_phases (mat 2 (g 0%nat 1%nat ++ g' 0%nat 1%nat)) (ident_cols 2)
                                              && has_phase clifford_phases (mat 2 (g 1%nat 0%nat ++ g' 1%nat 0%nat)) (ident_cols 2)
                         | _, _ => false end
              | _ => false
              end
          end
      end
  end.
(* T / T_DAG (stim inverts S[T] to S_DAG[T]) and the parametric gates as Circuit.inverse re-tags them *)
Definition check_inv_T : bool :=
  has_phase clifford_phases (mat 1 (g_t 0%nat ++ g_t_dag 0%nat)) (ident_cols 1)
  && has_phase clifford_phases (mat 1 (g_t_dag 0%nat ++ g_t 0%nat)) (ident_cols 1).
Definition check_inv_rot : bool :=
  expo_even theta &&
  forallb (fun g : nat -> expo -> list (op nat) => has_phase all_phases (mat 1 (g 0%nat theta ++ g 0%nat (eneg theta))) (ident_cols 1))
          [g_r_z; g_r_x; g_r_y].
(* U3(t,p,l)^-1 = U3(-t,-l,-p) *)
Definition check_inv_u3 : bool :=
  expo_even theta && expo_even phi && expo_even lambda &&
  has_phase all_phases (mat 1 (g_u3 0%nat theta phi lambda ++ g_u3 0%nat (eneg theta) (eneg lambda) (eneg phi))) (ident_cols 1).
