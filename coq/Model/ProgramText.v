(* Model of tsim/utils/program_text.py (shorthand_to_stim, stim_to_shorthand) and of
   tsim/core/parse.py::parse_parametric_tag.  The regexes, the replacement templates and the order of the
   substitutions are REGENERATED from the source (gen/Gen_regex.v); the matcher is Model/Regex.v.
   Hand-written here: the control flow of parse_parametric_tag (split / strip / early returns / dict update)
   -- its shape is checked statement by statement by the translator -- and the decimal reading performed by
   `fractions.Fraction(str)` on the strings the parameter regex lets through.  Executable, no proofs. *)
From Coq Require Import List Ascii String Bool Arith NArith ZArith.
Import ListNotations.
Require Import TV.Model.Regex TV.gen.Gen_regex.

Definition shorthand_to_stim (text : str) : str := apply_steps s2s_steps text.
Definition stim_to_shorthand (text : str) : str := apply_steps sh_steps text.

(* Circuit.__repr__ *)
Definition circuit_repr (printed : str) : str := repr_prefix ++ stim_to_shorthand printed ++ repr_suffix.

(* ---- str.split(","), str.strip() ---- *)
Fixpoint split_on (sep : ascii) (s : str) (cur : str) : list str :=
  match s with
  | [] => [rev cur]
  | a :: s' => if Ascii.eqb a sep then rev cur :: split_on sep s' [] else split_on sep s' (a :: cur)
  end.
Definition split_comma (s : str) : list str := split_on (ch 44%N) s [].

Fixpoint lstrip (s : str) : str :=
  match s with
  | a :: s' => if is_space a then lstrip s' else s
  | [] => []
  end.
Definition strip (s : str) : str := rev (lstrip (rev (lstrip s))).

(* ---- Fraction(str) on literals: an exact decimal  mantissa / 10^scale ----
   fractions._RATIONAL_FORMAT:  sign? (?=\d|\.\d) num=\d* ( \. decimal=\d* )?  (denominator, exponent,
   underscores and surrounding blanks cannot occur in a string matched by [-+]?[\d.]+).
   numerator = int(num or "0") * 10^len(decimal) + int(decimal), denominator = 10^len(decimal).
   (CPython refuses int() of more than 4300 digits -- a loud ValueError; not modelled.) *)
Definition dec := (Z * nat)%type.              (* (m, k) stands for m / 10^k *)

Definition digit_val (a : ascii) : Z := Z.of_N (code a) - 48.
Definition digits_val (l : str) : Z := fold_left (fun acc a => 10 * acc + digit_val a)%Z l 0%Z.

Fixpoint span_digits (s : str) : str * str :=
  match s with
  | a :: s' => if is_digit a then let (d, r) := span_digits s' in (a :: d, r) else ([], s)
  | [] => ([], [])
  end.

Definition nonempty (s : str) : bool := match s with [] => false | _ => true end.

Definition unsigned_dec (body : str) : option dec :=
  let (ip, rest) := span_digits body in
  match rest with
  | [] => if nonempty ip then Some (digits_val ip, O) else None
  | a :: fr =>
      if Ascii.eqb a (ch 46%N) then
        if (forallb is_digit fr && (nonempty ip || nonempty fr))%bool
        then Some (digits_val (ip ++ fr), List.length fr) else None
      else None
  end.

Definition fraction_of_lit (s : str) : option dec :=
  match s with
  | a :: r =>
      if Ascii.eqb a (ch 45%N) then option_map (fun d => (Z.opp (fst d), snd d)) (unsigned_dec r)
      else if Ascii.eqb a (ch 43%N) then unsigned_dec r
      else unsigned_dec s
  | [] => None
  end.

(* ---- parse_parametric_tag ---- *)
Inductive ppt_result : Type :=
| PNone                                                (* returns None: not a parametric tag *)
| PError                                               (* Fraction(...) raises ValueError *)
| POk (gate : str) (params : list (str * dec)).        (* dict in insertion order *)

Fixpoint str_eqb (a b : str) : bool :=
  match a, b with
  | [], [] => true
  | x :: a', y :: b' => (Ascii.eqb x y && str_eqb a' b')%bool
  | _, _ => false
  end.

Fixpoint dict_set (d : list (str * dec)) (k : str) (v : dec) : list (str * dec) :=
  match d with
  | [] => [(k, v)]
  | (k', v') :: r => if str_eqb k' k then (k', v) :: r else (k', v') :: dict_set r k v
  end.

Fixpoint ppt_params (ps : list str) (acc : list (str * dec)) : option (option (list (str * dec))) :=
  (* None = return None;  Some None = raises;  Some (Some d) = dict *)
  match ps with
  | [] => Some (Some acc)
  | p :: r =>
      let p' := strip p in
      match p' with
      | [] => ppt_params r acc
      | _ =>
          match re_match ppt_param_pat p' with
          | Some [name; value] =>
              match fraction_of_lit value with
              | Some v => ppt_params r (dict_set acc name v)
              | None => Some None
              end
          | _ => None
          end
      end
  end.

Definition parse_parametric_tag (tag : str) : ppt_result :=
  match re_match ppt_tag_pat tag with
  | Some [gate; params_str] =>
      match ppt_params (split_comma params_str) [] with
      | None => PNone
      | Some None => PError
      | Some (Some d) => POk gate d
      end
  | _ => PNone
  end.

(* what parse_stim_circuit then does with an `I[tag]` instruction (names read from the dict) is modelled and
   checked under C05/C12; here only: is the tag one the simulator interprets as a rotation? *)
Definition dict_get (d : list (str * dec)) (k : str) : option dec :=
  match find (fun kv => str_eqb (fst kv) k) d with Some kv => Some (snd kv) | None => None end.

(* printable form for the correspondence harness: (0 = None | 1 = raises | 2 = ok, gate, [(name, mantissa, scale)]) *)
Definition ppt_show (r : ppt_result) : N * list N * list (list N * Z * nat) :=
  match r with
  | PNone => (0%N, [], [])
  | PError => (1%N, [], [])
  | POk g d => (2%N, codes g, map (fun kv => (codes (fst kv), fst (snd kv), snd (snd kv))) d)
  end.
Definition frac_show (o : option dec) : Z * Z := match o with Some (m, k) => (m, Z.of_nat k) | None => (0%Z, (-1)%Z) end.
