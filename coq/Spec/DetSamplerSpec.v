(* Stim's contract for `CompiledDetectorSampler.sample(shots, prepend_observables=, append_observables=,
   separate_observables=, bit_packed=)` (stim 1.x, `stim.CompiledDetectorSampler.sample`), hand-written.
   Independent of /repo.  The harness validates this file against the INSTALLED Stim on all 16 flag
   combinations at run time (harness/props/c13.py, "spec-vs-stim").

   One shot is a pair (D, O): the detector bits and the observable bits of that shot. *)
From Coq Require Import Arith NArith List Bool.
Import ListNotations.

Inductive det_result (A : Type) : Type :=
| SReject                      (* ValueError *)
| SOne (m : A)                 (* one array *)
| SPair (d o : A).             (* the tuple (detection_events, observable_flips) *)
Arguments SReject {A}.
Arguments SOne {A} m.
Arguments SPair {A} d o.

Definition shot := (list bool * list bool)%type.

(* layout of one row when a single array is returned:
   default [D];  append [D|O];  prepend [O|D];  both [O|D|O] *)
Definition stim_row (prepend append : bool) (s : shot) : list bool :=
  (if prepend then snd s else []) ++ fst s ++ (if append then snd s else []).

(* unpacked contract *)
Definition stim_layout (prepend append separate : bool) (shots : list shot) : det_result (list (list bool)) :=
  if separate then
    if prepend || append then SReject
    else SPair (map fst shots) (map snd shots)
  else SOne (map (stim_row prepend append) shots).

(* bit packing: byte k of a row holds columns 8k .. 8k+7, column 8k+j in bit j (little endian), the last
   byte is padded with zeros; a row of w bits becomes ceil(w/8) bytes *)
Fixpoint byte_le (bits : list bool) : N :=
  match bits with
  | [] => 0%N
  | b :: r => (N.b2n b + 2 * byte_le r)%N
  end.

Definition pack_le (row : list bool) : list N :=
  map (fun k => byte_le (firstn 8 (skipn (8 * k) row))) (seq 0 ((length row + 7) / 8)).

(* what is returned: boolean matrices, or uint8 matrices when bit_packed *)
Inductive cells := CBits (m : list (list bool)) | CBytes (m : list (list N)).

Definition stim_format (bit_packed : bool) (m : list (list bool)) : cells :=
  if bit_packed then CBytes (map pack_le m) else CBits m.

Definition map_result {A B} (f : A -> B) (r : det_result A) : det_result B :=
  match r with SReject => SReject | SOne m => SOne (f m) | SPair d o => SPair (f d) (f o) end.

Definition stim_detector_sample (prepend append separate bit_packed : bool) (shots : list shot) : det_result cells :=
  map_result (stim_format bit_packed) (stim_layout prepend append separate shots).
