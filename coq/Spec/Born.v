(* Layer S: Kraus-operator semantics of the collapsing / noise instructions (what Stim's reference says they do),
   as explicit 2x2 matrices over exponential polynomials.  Reader-auditable; independent of tsim's source.
   m2 = (m00, m01, m10, m11), row-major. *)
From Coq Require Import ZArith List Bool.
Import ListNotations.
Require Import TV.Base.EP TV.Model.Lane.

Definition ih : ep := pmul pi_ phalf.                 (* i/2 *)
(* projector onto the (-1)^o eigenstate of the Pauli *)
Definition proj_m (b : pauli) (o : bool) : m2 :=
  match b, o with
  | PZ, false => (p1, p0, p0, p0)
  | PZ, true => (p0, p0, p0, p1)
  | PX, false => (phalf, phalf, phalf, phalf)
  | PX, true => (phalf, pneg phalf, pneg phalf, phalf)
  | PY, false => (phalf, pneg ih, ih, phalf)           (* (I+Y)/2 *)
  | PY, true => (phalf, ih, pneg ih, phalf)            (* (I-Y)/2 *)
  end.
(* |init_b><eig_{b,o}| : project on the (-1)^o eigenstate and re-prepare the +1 eigenstate *)
Definition reset_m (b : pauli) (o : bool) : m2 :=
  match b, o with
  | PZ, false => (p1, p0, p0, p0)
  | PZ, true => (p0, p1, p0, p0)
  | PX, false => (phalf, phalf, phalf, phalf)
  | PX, true => (phalf, pneg phalf, phalf, pneg phalf)
  | PY, false => (phalf, pneg ih, ih, phalf)
  | PY, true => (phalf, ih, ih, pneg phalf)
  end.
Definition mY : m2 := (p0, pneg pi_, pi_, p0).
Definition pauli_m (P : pauli) : m2 := match P with PX => mX | PY => mY | PZ => mZ end.
(* +1 eigenstate of the Pauli as a column (amplitudes of |0>, |1>), times sqrt2 for X and Y to stay polynomial *)
Definition eig_plus (b : pauli) : ep * ep := match b with PZ => (p1, p0) | PX => (p1, p1) | PY => (p1, pi_) end.

(* apply a product of Paulis to a dense vector *)
Definition app_paulis (n : nat) (ps : list (pauli * nat)) (v : vec) : vec :=
  fold_left (fun acc pq => app1 n (snd pq) (pauli_m (fst pq)) acc) ps v.
Definition vadd (a b : vec) : vec := map (fun xy => padd (fst xy) (snd xy)) (combine a b).
(* (1 + (-1)^o P)/2 *)
Definition proj_product (n : nat) (ps : list (pauli * nat)) (o : bool) (v : vec) : vec :=
  let pv := app_paulis n (rev ps) v in
  vscale phalf (vadd v (if o then map pneg pv else pv)).
