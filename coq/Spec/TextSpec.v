(* Reader-auditable vocabulary for the C15 / C16 (text half) statements: the literal grammar [-+]?[\d.]+,
   which of those literals are decimals and what they denote, and the shapes of the lines Stim prints for
   the instructions tsim's shorthand stands for.  No proofs. *)
From Coq Require Import List Ascii String Bool Arith NArith ZArith.
Import ListNotations.
Require Import TV.Model.Regex TV.gen.Gen_regex TV.Model.ProgramText.

(* [\d.] *)
Definition dd (a : ascii) : bool := (is_digit a || Ascii.eqb a "."%char)%bool.

(* [-+]? *)
Definition is_sign (sg : str) : Prop := sg = [] \/ sg = ["-"%char] \/ sg = ["+"%char].

(* sg ++ body is a string matched by [-+]?[\d.]+ *)
Definition lit_shape (sg body : str) : Prop := is_sign sg /\ body <> [] /\ forallb dd body = true.

(* the bodies that are decimal numerals, with mantissa m and scale k (value m / 10^k):
   "ddd"  |  "ddd." "ddd"  with at least one digit overall ("5." and ".5" are numerals, "." is not) *)
Inductive dec_body : str -> Z -> nat -> Prop :=
| DB_int : forall d1, d1 <> [] -> forallb is_digit d1 = true -> dec_body d1 (digits_val d1) 0
| DB_frac : forall d1 d2, d1 ++ d2 <> [] -> forallb is_digit d1 = true -> forallb is_digit d2 = true ->
    dec_body (d1 ++ "."%char :: d2) (digits_val (d1 ++ d2)) (List.length d2).

Definition apply_sign (sg : str) (m : Z) : Z :=
  match sg with a :: _ => if Ascii.eqb a "-"%char then Z.opp m else m | [] => m end.

Definition is_axis (ax : ascii) : Prop := ax = "X"%char \/ ax = "Y"%char \/ ax = "Z"%char.

(* what follows the head of a T / T_DAG / R_? / U3 line: qubit targets, blanks, line breaks, lower-case
   comments ... -- any text without an upper-case letter *)
Definition tail_plain (tail : str) : Prop := forallb (fun a => negb (is_upper a)) tail = true.
(* for T / T_DAG / S[T] / S_DAG[T] the next character additionally must not continue the word or open a tag:
   nothing, or a non-word character other than '[' (Stim prints a blank) *)
Definition tail_ok (tail : str) : Prop :=
  tail_plain tail /\
  match tail with [] => True | a :: _ => is_word a = false /\ a <> "["%char end.

(* blanks allowed by \s* between the arguments of U3( , , ) *)
Definition blanks (w : str) : Prop := forallb is_space w = true.

(* text pieces *)
Definition rot_short (ax : ascii) (l : str) : str := lit "R_" ++ [ax] ++ lit "(" ++ l ++ lit ")".
Definition rot_tag (ax : ascii) (l : str) : str := lit "R_" ++ [ax] ++ lit "(theta=" ++ l ++ lit "*pi)".
Definition rot_stim (ax : ascii) (l : str) : str := lit "I[" ++ rot_tag ax l ++ lit "]".
Definition u3_short (w1 w2 w3 w4 l1 l2 l3 : str) : str :=
  lit "U3(" ++ l1 ++ w1 ++ lit "," ++ w2 ++ l2 ++ w3 ++ lit "," ++ w4 ++ l3 ++ lit ")".
Definition u3_canon (l1 l2 l3 : str) : str := lit "U3(" ++ l1 ++ lit ", " ++ l2 ++ lit ", " ++ l3 ++ lit ")".
Definition u3_tag (l1 l2 l3 : str) : str :=
  lit "U3(theta=" ++ l1 ++ lit "*pi, phi=" ++ l2 ++ lit "*pi, lambda=" ++ l3 ++ lit "*pi)".
Definition u3_stim (l1 l2 l3 : str) : str := lit "I[" ++ u3_tag l1 l2 l3 ++ lit "]".

(* no generated pattern of either function matches anywhere in the text *)
Definition quiet_for (steps : list (pattern * template)) (s : str) : bool :=
  forallb (fun st => negb (matches_somewhere (fst st) None s)) steps.

(* w occurs in s as a contiguous substring *)
Definition substr (w s : str) : Prop := exists pre suf, s = pre ++ w ++ suf.

(* the lines Stim prints for what tsim's shorthand stands for, plus every line in which no pattern of either
   function matches anywhere (all other instructions: see C15_stim_gate_names_quiet, C15_frame) *)
Inductive printed_line : str -> Prop :=
| PL_T : forall tail, tail_ok tail -> printed_line (lit "S[T]" ++ tail)
| PL_TDAG : forall tail, tail_ok tail -> printed_line (lit "S_DAG[T]" ++ tail)
| PL_rot : forall ax sg body tail, is_axis ax -> lit_shape sg body -> tail_plain tail ->
    printed_line (rot_stim ax (sg ++ body) ++ tail)
| PL_u3 : forall sg1 b1 sg2 b2 sg3 b3 tail,
    lit_shape sg1 b1 -> lit_shape sg2 b2 -> lit_shape sg3 b3 -> tail_plain tail ->
    printed_line (u3_stim (sg1 ++ b1) (sg2 ++ b2) (sg3 ++ b3) ++ tail)
| PL_other : forall line, quiet_for sh_steps line = true -> quiet_for s2s_steps line = true -> printed_line line.

(* the literal every match of a step's pattern starts with *)
Definition triggers (steps : list (pattern * template)) : list str := map (fun st => lit_prefix (fst st)) steps.

(* canonical instruction names of stim 1.16.0 (sorted(stim.gate_data())); compared with the installed stim by the harness *)
Definition stim_gate_names : list string :=
  ["CX"; "CXSWAP"; "CY"; "CZ"; "CZSWAP"; "C_NXYZ"; "C_NZYX"; "C_XNYZ"; "C_XYNZ"; "C_XYZ"; "C_ZNYX"; "C_ZYNX";
   "C_ZYX"; "DEPOLARIZE1"; "DEPOLARIZE2"; "DETECTOR"; "E"; "ELSE_CORRELATED_ERROR"; "H"; "HERALDED_ERASE";
   "HERALDED_PAULI_CHANNEL_1"; "H_NXY"; "H_NXZ"; "H_NYZ"; "H_XY"; "H_YZ"; "I"; "II"; "II_ERROR"; "ISWAP";
   "ISWAP_DAG"; "I_ERROR"; "M"; "MPAD"; "MPP"; "MR"; "MRX"; "MRY"; "MX"; "MXX"; "MY"; "MYY"; "MZZ";
   "OBSERVABLE_INCLUDE"; "PAULI_CHANNEL_1"; "PAULI_CHANNEL_2"; "QUBIT_COORDS"; "R"; "REPEAT"; "RX"; "RY"; "S";
   "SHIFT_COORDS"; "SPP"; "SPP_DAG"; "SQRT_X"; "SQRT_XX"; "SQRT_XX_DAG"; "SQRT_X_DAG"; "SQRT_Y"; "SQRT_YY";
   "SQRT_YY_DAG"; "SQRT_Y_DAG"; "SQRT_ZZ"; "SQRT_ZZ_DAG"; "SWAP"; "SWAPCX"; "S_DAG"; "TICK"; "X"; "XCX"; "XCY";
   "XCZ"; "X_ERROR"; "Y"; "YCX"; "YCY"; "YCZ"; "Y_ERROR"; "Z"; "Z_ERROR"]%string.
(* typical argument / target text following an instruction name *)
Definition sample_tails : list string :=
  [""; " 0"; " 0 1 2 3"; "(0.125) 0 1"; "(0.01, 0.02, 0.03) 5"; " rec[-1] rec[-2]"; "(1, 2.5) rec[-1]"; " rec[-1] 3 sweep[0] 4";
   " X0*Y1*Z2 !X3"; "[some-tag] 0 1"; "[tag with blanks, (parens) and = * + signs](0.25) 0"; " 7 {"]%string.
