(* Spec: an abstract model of stim.Circuit as a `list item` algebra (reader-auditable; no proofs here).

   An instruction is (canonical gate name, arguments, tag, target groups).  Arguments are integers in
   units of 1/1024 (the harness only generates dyadic arguments, so this is exact); a tag is an opaque
   identifier (0 = no tag); a target group is what `CircuitInstruction.target_groups()` returns (one
   qubit for single-qubit gates, a pair for two-qubit gates, one Pauli product for MPP, ...), each
   target coded as an integer:   t >= 0 : a target on qubit t/16 (low bits: inverted / Pauli flags),
   t < 0 : a non-qubit target (measurement-record look-back or sweep bit).

   What is modelled of Stim (every item validated against the installed Stim by harness/props/c17.py):
     * `fuse`      : merging of adjacent instructions with identical name/args/tag (not for the gates
                     Stim marks as not fusable) -- the canonical form "up to Stim's merging";
     * `flattened` : REPEAT blocks unrolled, SHIFT_COORDS removed and inlined into the coordinate
                     arguments of later DETECTOR / QUBIT_COORDS, result fully fused;
     * `+=` (fuses at the junction only), `*`, slicing (python slice semantics, no fusing), `pop`,
       `without_noise`, `append` of one instruction (fuses with the last instruction);
     * the counters num_measurements / num_detectors / num_observables / num_qubits / num_ticks;
     * a heap of circuit objects (addresses = positions), for aliasing. *)
From Coq Require Import ZArith List String Bool.
Import ListNotations.
Open Scope string_scope.
Open Scope list_scope.

Record instr := mkI { iname : string; iargs : list Z; itag : Z; igroups : list (list Z) }.

Inductive item :=
| It (i : instr)
| Rep (n : nat) (body : list item).          (* REPEAT n { body } *)
Definition circ := list item.

Definition ARG_UNIT : Z := 1024.

(* ---- gate tables of Stim 1.16 (compared with stim.gate_data() at run time) ------------------------ *)
Definition not_fusable_names : list string :=
  ["DETECTOR"; "E"; "ELSE_CORRELATED_ERROR"; "OBSERVABLE_INCLUDE"; "QUBIT_COORDS"; "SHIFT_COORDS"; "TICK"].
Definition meas_names : list string :=          (* gate_data(...).produces_measurements *)
  ["HERALDED_ERASE"; "HERALDED_PAULI_CHANNEL_1"; "M"; "MPAD"; "MPP"; "MR"; "MRX"; "MRY"; "MX"; "MXX"; "MY"; "MYY"; "MZZ"].
Definition herald_names : list string := ["HERALDED_ERASE"; "HERALDED_PAULI_CHANNEL_1"].
Definition noisy_names : list string :=         (* gate_data(...).is_noisy_gate *)
  ["DEPOLARIZE1"; "DEPOLARIZE2"; "E"; "ELSE_CORRELATED_ERROR"; "HERALDED_ERASE"; "HERALDED_PAULI_CHANNEL_1";
   "II_ERROR"; "I_ERROR"; "M"; "MPP"; "MR"; "MRX"; "MRY"; "MX"; "MXX"; "MY"; "MYY"; "MZZ";
   "PAULI_CHANNEL_1"; "PAULI_CHANNEL_2"; "X_ERROR"; "Y_ERROR"; "Z_ERROR"].
Definition coord_names : list string := ["DETECTOR"; "QUBIT_COORDS"].   (* arguments are coordinates *)

Definition mem (s : string) (l : list string) : bool := existsb (String.eqb s) l.

Fixpoint lz_eqb (a b : list Z) : bool :=
  match a, b with
  | [], [] => true
  | x :: a', y :: b' => Z.eqb x y && lz_eqb a' b'
  | _, _ => false
  end.

(* ---- Stim's merging of adjacent instructions ------------------------------------------------------- *)
Definition same_key (a b : instr) : bool :=
  String.eqb (iname a) (iname b) && lz_eqb (iargs a) (iargs b) && Z.eqb (itag a) (itag b).
Definition fusable (a : instr) : bool := negb (mem (iname a) not_fusable_names).
Definition can_fuse (a b : instr) : bool := fusable a && same_key a b.
Definition merge (a b : instr) : instr := mkI (iname a) (iargs a) (itag a) (igroups a ++ igroups b).

Definition cons_fuse (i : instr) (X : list instr) : list instr :=
  match X with
  | j :: r => if can_fuse i j then merge i j :: r else i :: X
  | [] => [i]
  end.
(* canonical form: every maximal run of mutually fusable adjacent instructions becomes one instruction *)
Definition fuse (l : list instr) : list instr := fold_right cons_fuse [] l.

(* ---- flattening --------------------------------------------------------------------------------------- *)
Fixpoint rep_app {A} (n : nat) (l : list A) : list A :=
  match n with O => [] | S k => l ++ rep_app k l end.

(* structural flattening: unroll REPEAT blocks, nothing else *)
Fixpoint flat_item (x : item) : list instr :=
  match x with
  | It i => [i]
  | Rep n b => rep_app n (flat_map flat_item b)
  end.
Definition flatten0 (c : circ) : list instr := flat_map flat_item c.

(* coordinate shifts: SHIFT_COORDS(a) adds a to the running offset (extending it), DETECTOR / QUBIT_COORDS
   arguments get the offset added on their common prefix *)
Fixpoint add_ext (s a : list Z) : list Z :=
  match s, a with
  | [], _ => a
  | _, [] => s
  | x :: s', y :: a' => (x + y)%Z :: add_ext s' a'
  end.
Fixpoint add_prefix (s a : list Z) : list Z :=
  match s, a with
  | x :: s', y :: a' => (x + y)%Z :: add_prefix s' a'
  | _, _ => a
  end.
Definition is_shift (i : instr) : bool := String.eqb (iname i) "SHIFT_COORDS".
Definition apply_shift (s : list Z) (i : instr) : instr :=
  if mem (iname i) coord_names then mkI (iname i) (add_prefix s (iargs i)) (itag i) (igroups i) else i.

Fixpoint iter_sh (n : nat) (f : list Z -> list instr * list Z) (s : list Z) : list instr * list Z :=
  match n with
  | O => ([], s)
  | S k => let '(o1, s1) := f s in let '(o2, s2) := iter_sh k f s1 in (o1 ++ o2, s2)
  end.

Fixpoint flat_sh_item (x : item) (s : list Z) : list instr * list Z :=
  match x with
  | It i => if is_shift i then ([], add_ext s (iargs i)) else ([apply_shift s i], s)
  | Rep n b =>
      iter_sh n ((fix go (b : list item) (s : list Z) : list instr * list Z :=
                    match b with
                    | [] => ([], s)
                    | y :: r => let '(o1, s1) := flat_sh_item y s in let '(o2, s2) := go r s1 in (o1 ++ o2, s2)
                    end) b) s
  end.
Fixpoint flat_sh (c : circ) (s : list Z) : list instr * list Z :=
  match c with
  | [] => ([], s)
  | y :: r => let '(o1, s1) := flat_sh_item y s in let '(o2, s2) := flat_sh r s1 in (o1 ++ o2, s2)
  end.

Definition embed (l : list instr) : circ := map It l.
(* stim.Circuit.flattened() *)
Definition flattened_l (c : circ) : list instr := fuse (fst (flat_sh c [])).
Definition flattened (c : circ) : circ := embed (flattened_l c).

(* two circuits are the same up to REPEAT unrolling and Stim's merging *)
Definition sim (a b : circ) : Prop := fuse (flatten0 a) = fuse (flatten0 b).

(* no SHIFT_COORDS is ever executed *)
Definition noshift (c : circ) : bool := forallb (fun i => negb (is_shift i)) (flatten0 c).

Definition is_flat (c : circ) : bool :=
  forallb (fun x => match x with It _ => true | Rep _ _ => false end) c.

(* ---- Stim's container operations, as the installed Stim performs them ----------------------------- *)
(* append one item, fusing an instruction with a fusable last instruction (Circuit::safe_append) *)
Definition csnoc (c : circ) (x : item) : circ :=
  match x, rev c with
  | It i, It j :: r => if can_fuse j i then rev r ++ [It (merge j i)] else c ++ [x]
  | _, _ => c ++ [x]
  end.
(* a += b : only the junction is fused, the rest of b is copied verbatim *)
Definition stim_iadd (a b : circ) : circ :=
  match b with
  | [] => a
  | x :: r => csnoc a x ++ r
  end.
(* a += a (the SAME object): Stim 1.16 first merges the first instruction into the last one and then
   copies "the rest of the operand" -- which, the operand being the receiver, already contains the
   modified last instruction.  `Z 0; H 1; Z 0` += itself gives `Z 0; H 1; Z 0 0; H 1; Z 0 0`. *)
Definition stim_iadd_self (c : circ) : circ :=
  match c, rev c with
  | It i :: _, It j :: r =>
      if can_fuse j i then let c' := rev r ++ [It (merge j i)] in c' ++ tl c' else c ++ c
  | _, _ => c ++ c
  end.
(* a * n *)
Definition stim_mul (n : Z) (a : circ) : circ :=
  if (n =? 0)%Z then [] else if (n =? 1)%Z then a else [Rep (Z.to_nat n) a].

(* python slice -> list of positions *)
Fixpoint zrange (fuel : nat) (cur stop step : Z) : list nat :=
  match fuel with
  | O => []
  | S f => if (if (0 <? step)%Z then (cur <? stop)%Z else (stop <? cur)%Z)
           then Z.to_nat cur :: zrange f (cur + step)%Z stop step else []
  end.
Definition slice_indices (start stop : option Z) (step len : Z) : list nat :=
  if (step =? 0)%Z then [] else
  let neg := (step <? 0)%Z in
  let lower := if neg then (-1)%Z else 0%Z in
  let upper := if neg then (len - 1)%Z else len in
  let norm := fun x => if (x <? 0)%Z then Z.max (x + len) lower else Z.min x upper in
  let s := match start with None => if neg then upper else lower | Some x => norm x end in
  let e := match stop with None => if neg then lower else upper | Some x => norm x end in
  zrange (S (Z.to_nat len)) s e step.
Definition select {A} (l : list A) (idx : list nat) : list A :=
  flat_map (fun k => match nth_error l k with Some x => [x] | None => [] end) idx.
Definition stim_slice (start stop : option Z) (step : Z) (c : circ) : circ :=
  select c (slice_indices start stop step (Z.of_nat (List.length c))).

(* python index -> position (None = IndexError) *)
Definition norm_index (i len : Z) : option nat :=
  if ((- len <=? i) && (i <? len))%Z then Some (Z.to_nat (if (i <? 0)%Z then i + len else i)%Z) else None.
Fixpoint remove_nth {A} (k : nat) (l : list A) : list A :=
  match l with
  | [] => []
  | x :: r => match k with O => r | S k' => x :: remove_nth k' r end
  end.

(* without_noise: noise channels disappear, measurements lose their arguments, heralded noise becomes
   MPAD 0 ... (the record keeps its length); instructions are re-appended with fusing *)
Definition wn_instr (i : instr) : option instr :=
  if mem (iname i) meas_names then
    if mem (iname i) herald_names
    then Some (mkI "MPAD" [] (itag i) (map (fun _ => [0%Z]) (igroups i)))
    else Some (mkI (iname i) [] (itag i) (igroups i))
  else if mem (iname i) noisy_names then None else Some i.
Fixpoint wn_item (x : item) : option item :=
  match x with
  | It i => option_map It (wn_instr i)
  | Rep n b =>
      Some (Rep n ((fix go (b : list item) (acc : circ) : circ :=
                      match b with
                      | [] => acc
                      | y :: r => go r (match wn_item y with Some z => csnoc acc z | None => acc end)
                      end) b []))
  end.
Definition stim_without_noise (c : circ) : circ :=
  fold_left (fun acc y => match wn_item y with Some z => csnoc acc z | None => acc end) c [].

(* ---- counters ------------------------------------------------------------------------------------------ *)
Definition nmeas (i : instr) : nat := if mem (iname i) meas_names then List.length (igroups i) else 0.
Definition ndet (i : instr) : nat := if String.eqb (iname i) "DETECTOR" then 1 else 0.
Definition ntick (i : instr) : nat := if String.eqb (iname i) "TICK" then 1 else 0.
Definition nobs (i : instr) : nat :=
  if String.eqb (iname i) "OBSERVABLE_INCLUDE"
  then match iargs i with a :: _ => S (Z.to_nat (a / ARG_UNIT)) | [] => 0 end else 0.
Definition target_qubits (t : Z) : nat := if (t <? 0)%Z then 0 else S (Z.to_nat (t / 16)).
Definition nqub (i : instr) : nat :=
  fold_right Nat.max 0 (map (fun g => fold_right Nat.max 0 (map target_qubits g)) (igroups i)).

Definition sum_l (f : instr -> nat) (l : list instr) : nat := fold_right (fun i a => f i + a) 0 l.
Definition max_l (f : instr -> nat) (l : list instr) : nat := fold_right (fun i a => Nat.max (f i) a) 0 l.
Record counts := mkC { c_meas : nat; c_det : nat; c_obs : nat; c_qub : nat; c_tick : nat }.
Definition counts_l (l : list instr) : counts :=
  mkC (sum_l nmeas l) (sum_l ndet l) (max_l nobs l) (max_l nqub l) (sum_l ntick l).

(* the same counters computed on the unflattened circuit, the way Stim does (loops multiply) *)
Fixpoint sum_item (f : instr -> nat) (x : item) : nat :=
  match x with
  | It i => f i
  | Rep n b => n * fold_right (fun y a => sum_item f y + a) 0 b
  end.
Fixpoint max_item (f : instr -> nat) (x : item) : nat :=
  match x with
  | It i => f i
  | Rep n b => match n with O => 0 | S _ => fold_right (fun y a => Nat.max (max_item f y) a) 0 b end
  end.
Definition sum_c (f : instr -> nat) (c : circ) : nat := fold_right (fun y a => sum_item f y + a) 0 c.
Definition max_c (f : instr -> nat) (c : circ) : nat := fold_right (fun y a => Nat.max (max_item f y) a) 0 c.
Definition counts_c (c : circ) : counts :=
  mkC (sum_c nmeas c) (sum_c ndet c) (max_c nobs c) (max_c nqub c) (sum_c ntick c).

(* ---- the heap of circuit objects -------------------------------------------------------------------- *)
Definition heap := list circ.
Definition hread (h : heap) (a : nat) : circ := nth a h [].
Fixpoint hwrite (h : heap) (a : nat) (c : circ) : heap :=
  match h with
  | [] => []
  | x :: r => match a with O => c :: r | S a' => x :: hwrite r a' c end
  end.
Definition halloc (h : heap) (c : circ) : heap * nat := (h ++ [c], List.length h).
