(* README formulas for the non-Clifford gates, over exponential polynomials.
   Symbolic rotation angles (in units of pi): theta = 2*ta, phi = 2*tb, lambda = 2*tc, where ta,tb,tc are the
   three symbol slots of Base/EP.v (so half angles are expressible).  Matrices as lists of COLUMNS. *)
From Coq Require Import ZArith List.
Import ListNotations.
Require Import TV.Base.EP.
Open Scope Z_scope.

Definition theta : expo := esym1 2.
Definition phi : expo := esym2 2.
Definition lambda : expo := esym3 2.
(* cos(x*pi) and sin(x*pi) for an exponent x *)
Definition pcos (x : expo) : ep := pmul phalf (padd (pE x) (pE (eneg x))).
Definition psin (x : expo) : ep := pmul (pneg pi_) (pmul phalf (psub (pE x) (pE (eneg x)))).

Definition doc_T : list (list ep) := [[p1; p0]; [p0; pE (equarter 1)]].
Definition doc_T_DAG : list (list ep) := [[p1; p0]; [p0; pE (equarter (-1))]].
(* R_Z(a) = diag(e^{-i a pi/2}, e^{i a pi/2}) *)
Definition doc_RZ : list (list ep) := [[pE (esym1 (-1)); p0]; [p0; pE (esym1 1)]].
(* R_X(a) = [[c, -i s],[-i s, c]] *)
Definition doc_RX : list (list ep) :=
  let c := pcos (esym1 1) in let s := psin (esym1 1) in
  [[c; pmul (pneg pi_) s]; [pmul (pneg pi_) s; c]].
(* R_Y(a) = [[c, -s],[s, c]]  (columns: [c; s], [-s; c]) *)
Definition doc_RY : list (list ep) :=
  let c := pcos (esym1 1) in let s := psin (esym1 1) in
  [[c; s]; [pneg s; c]].
(* U3 = [[c, -e^{i l pi} s],[e^{i p pi} s, e^{i (p+l) pi} c]] *)
Definition doc_U3 : list (list ep) :=
  let c := pcos (esym1 1) in let s := psin (esym1 1) in
  [[c; pmul (pE phi) s]; [pneg (pmul (pE lambda) s); pmul (pE (eadd phi lambda)) c]].
