(* Amplitude functions: states of ANY number of qubits as functions from bit assignments to a commutative ring.
   One- and two-qubit operators act on named lanes; no dimension bookkeeping, so composition and embedding lemmas
   hold for every number of lanes and every placement.  Uses functional extensionality. *)
From Coq Require Import Arith Bool List Ring Ring_theory FunctionalExtensionality Lia.
Import ListNotations.
Set Default Timeout 60.

Section Amp.
  Variable R : Type.
  Variables (rO rI : R) (radd rmul rsub : R -> R -> R) (ropp : R -> R).
  Variable Rth : ring_theory rO rI radd rmul rsub ropp eq.
  Add Ring RringAmp : Rth.
  Notation "x + y" := (radd x y).
  Notation "x * y" := (rmul x y).

  Definition bits := nat -> bool.
  Definition upd (x : bits) (q : nat) (b : bool) : bits := fun i => if Nat.eqb i q then b else x i.
  Definition state := bits -> R.
  Definition m2f := bool -> bool -> R.                       (* row, column *)
  Definition m4f := bool -> bool -> bool -> bool -> R.       (* row bits (lane a, lane b), column bits *)
  Definition sum2 (f : bool -> R) : R := f false + f true.
  Definition delta (a b : bool) : R := if Bool.eqb a b then rI else rO.

  Definition app1 (M : m2f) (q : nat) (psi : state) : state :=
    fun x => sum2 (fun c => M (x q) c * psi (upd x q c)).
  Definition app2 (M : m4f) (a b : nat) (psi : state) : state :=
    fun x => sum2 (fun c1 => sum2 (fun c2 => M (x a) (x b) c1 c2 * psi (upd (upd x a c1) b c2))).
  Definition scale (k : R) (psi : state) : state := fun x => k * psi x.
  Definition mul2 (A B : m2f) : m2f := fun i j => sum2 (fun k => A i k * B k j).
  Definition mul4 (A B : m4f) : m4f := fun r1 r2 c1 c2 => sum2 (fun k1 => sum2 (fun k2 => A r1 r2 k1 k2 * B k1 k2 c1 c2)).
  Definition emb1 (A : m2f) : m4f := fun r1 r2 c1 c2 => A r1 c1 * delta r2 c2.     (* A on the first lane *)
  Definition emb2 (A : m2f) : m4f := fun r1 r2 c1 c2 => delta r1 c1 * A r2 c2.     (* A on the second lane *)
  Definition id4 : m4f := fun r1 r2 c1 c2 => delta r1 c1 * delta r2 c2.
  Definition swap4 (A : m4f) : m4f := fun r1 r2 c1 c2 => A r2 r1 c2 c1.            (* exchange the roles of the two lanes *)

  Lemma upd_same x q b : upd x q b q = b.
  Proof. unfold upd. rewrite Nat.eqb_refl. reflexivity. Qed.
  Lemma upd_other x q q' b : q <> q' -> upd x q b q' = x q'.
  Proof. intro H. unfold upd. destruct (Nat.eqb_spec q' q); [congruence | reflexivity]. Qed.
  Lemma upd_upd x q a b : upd (upd x q a) q b = upd x q b.
  Proof. apply functional_extensionality; intro i. unfold upd. destruct (Nat.eqb i q); reflexivity. Qed.
  Lemma upd_comm x q q' a b : q <> q' -> upd (upd x q a) q' b = upd (upd x q' b) q a.
  Proof.
    intro H. apply functional_extensionality; intro i. unfold upd.
    destruct (Nat.eqb_spec i q), (Nat.eqb_spec i q'); try reflexivity. congruence.
  Qed.
  Lemma upd_id x q : upd x q (x q) = x.
  Proof. apply functional_extensionality; intro i. unfold upd. destruct (Nat.eqb_spec i q); [subst; reflexivity | reflexivity]. Qed.
  Lemma upd4 x a b c1 c2 d1 d2 : upd (upd (upd (upd x a c1) b c2) a d1) b d2 = upd (upd x a d1) b d2.
  Proof.
    apply functional_extensionality; intro i. unfold upd.
    destruct (Nat.eqb i b), (Nat.eqb i a); reflexivity.
  Qed.

  Lemma upd2_a x a b c1 c2 : a <> b -> upd (upd x a c1) b c2 a = c1.
  Proof. intro H. rewrite upd_other by auto. apply upd_same. Qed.
  Lemma upd2_b x a b c1 c2 : upd (upd x a c1) b c2 b = c2.
  Proof. apply upd_same. Qed.

  Lemma state_ext (f g : state) : (forall x, f x = g x) -> f = g.
  Proof. apply functional_extensionality. Qed.

  (* ---- composition ---- *)
  Theorem app1_comp A B q psi : app1 A q (app1 B q psi) = app1 (mul2 A B) q psi.
  Proof.
    apply state_ext; intro x. unfold app1, mul2, sum2.
    rewrite !upd_same, !upd_upd. ring.
  Qed.
  Theorem app2_comp A B a b psi : a <> b -> app2 A a b (app2 B a b psi) = app2 (mul4 A B) a b psi.
  Proof.
    intro H. apply state_ext; intro x. unfold app2, mul4, sum2.
    rewrite !upd2_b. rewrite !(upd2_a x a b) by assumption. rewrite !upd4.
    generalize (psi (upd (upd x a false) b false)) (psi (upd (upd x a false) b true))
               (psi (upd (upd x a true) b false)) (psi (upd (upd x a true) b true)).
    intros p00 p01 p10 p11. ring.
  Qed.
  Theorem scale_app1 k A q psi : app1 A q (scale k psi) = scale k (app1 A q psi).
  Proof. apply state_ext; intro x. unfold app1, scale, sum2. ring. Qed.
  Theorem scale_app2 k A a b psi : app2 A a b (scale k psi) = scale k (app2 A a b psi).
  Proof. apply state_ext; intro x. unfold app2, scale, sum2. ring. Qed.
  Theorem scale_scale k l psi : scale k (scale l psi) = scale (k * l) psi.
  Proof. apply state_ext; intro x. unfold scale. ring. Qed.
  Theorem scale_one psi : scale rI psi = psi.
  Proof. apply state_ext; intro x. unfold scale. ring. Qed.

  (* ---- a one-qubit operator is a two-qubit operator on any pair containing its lane ---- *)
  Lemma delta_same b : delta b b = rI.
  Proof. unfold delta. rewrite Bool.eqb_reflx. reflexivity. Qed.
  Lemma delta_neg b : delta b (negb b) = rO.
  Proof. unfold delta. destruct b; reflexivity. Qed.
  Theorem app1_as_app2_first A a b psi : a <> b -> app1 A a psi = app2 (emb1 A) a b psi.
  Proof.
    intro H. apply state_ext; intro x. unfold app1, app2, emb1, sum2.
    assert (Hx : forall c, upd (upd x a c) b (x b) = upd x a c).
    { intro c. rewrite <- (upd_other x a b c H) at 1. apply upd_id. }
    destruct (x b) eqn:Exb; rewrite (Hx false), (Hx true); unfold delta; cbn [Bool.eqb]; ring.
  Qed.
  Theorem app1_as_app2_second A a b psi : a <> b -> app1 A b psi = app2 (emb2 A) a b psi.
  Proof.
    intro H. apply state_ext; intro x. unfold app1, app2, emb2, sum2.
    assert (Hx : forall c, upd (upd x a (x a)) b c = upd x b c).
    { intro c. rewrite upd_id. reflexivity. }
    destruct (x a) eqn:Exa; rewrite (Hx false), (Hx true); unfold delta; cbn [Bool.eqb]; ring.
  Qed.
  Theorem app2_swap_lanes A a b psi : a <> b -> app2 A b a psi = app2 (swap4 A) a b psi.
  Proof.
    intro H. apply state_ext; intro x. unfold app2, swap4, sum2.
    rewrite !(upd_comm x b a) by auto. ring.
  Qed.
  Theorem app2_id a b psi : a <> b -> app2 id4 a b psi = psi.
  Proof.
    intro H. apply state_ext; intro x. unfold app2, id4, sum2.
    assert (Hx : upd (upd x a (x a)) b (x b) = x) by (rewrite upd_id; apply upd_id).
    destruct (x a) eqn:Ea, (x b) eqn:Eb; rewrite Hx; unfold delta; cbn [Bool.eqb]; ring.
  Qed.

  (* two operators that agree entrywise after scaling act identically after scaling *)
  Theorem app2_scale_ext k k' (A B : m4f) a b psi :
    (forall r1 r2 c1 c2, k * A r1 r2 c1 c2 = k' * B r1 r2 c1 c2) ->
    scale k (app2 A a b psi) = scale k' (app2 B a b psi).
  Proof.
    intro H. apply state_ext; intro x. unfold scale, app2, sum2.
    transitivity ((k * A (x a) (x b) false false) * psi (upd (upd x a false) b false) + (k * A (x a) (x b) false true) * psi (upd (upd x a false) b true)
                  + ((k * A (x a) (x b) true false) * psi (upd (upd x a true) b false) + (k * A (x a) (x b) true true) * psi (upd (upd x a true) b true))); [ring|].
    rewrite !H. ring.
  Qed.
  Theorem app1_scale_ext k k' (A B : m2f) q psi :
    (forall r c, k * A r c = k' * B r c) -> scale k (app1 A q psi) = scale k' (app1 B q psi).
  Proof.
    intro H. apply state_ext; intro x. unfold scale, app1, sum2.
    transitivity ((k * A (x q) false) * psi (upd x q false) + (k * A (x q) true) * psi (upd x q true)); [ring|].
    rewrite !H. ring.
  Qed.

  (* operators on disjoint lanes commute *)
  Theorem app1_commute A B q q' psi : q <> q' -> app1 A q (app1 B q' psi) = app1 B q' (app1 A q psi).
  Proof.
    intro H. apply state_ext; intro x. unfold app1, sum2.
    rewrite !(upd_other x q q') by assumption. rewrite !(upd_other x q' q) by auto.
    rewrite !(upd_comm x q q') by assumption. ring.
  Qed.
End Amp.
