(* Splittable PRNG keys as nodes of a forest (the JAX key discipline, idealised).

   A key is a path: a root, or the i-th child of a split key.  Roots are
     RSeed s       -- jax.random.key(s) for the user's seed s
     RDerived k    -- jax.random.key(n) where the integer n was drawn from key k (a "derived seed")
   An event log records, in program order, every jax.random call:
     EvRoot k      -- jax.random.key(..) returned k
     EvSplit k n   -- jax.random.split(k, n) (n = 2 for the plain form)
     EvConsume k   -- bernoulli / categorical / randint drew from k
   Under the PRNG idealisation (threefry as a random function) distinct nodes are independent streams and a
   node that is consumed once yields i.i.d. draws; the discipline to be proved is therefore:
   every key is used at most once, and every used key is a root or a child of an earlier split. *)
From Coq Require Import ZArith List Bool Arith Lia.
Import ListNotations.

Inductive key :=
| RSeed (s : Z)
| RDerived (k : key)
| Child (p : key) (i : nat).

Inductive event :=
| EvRoot (k : key)
| EvSplit (k : key) (n : nat)
| EvConsume (k : key).

Definition children (k : key) (n : nat) : list key := map (Child k) (seq 0 n).

(* keys USED by a log: split or consumed *)
Definition ev_used (e : event) : list key :=
  match e with EvRoot _ => [] | EvSplit k _ => [k] | EvConsume k => [k] end.
Definition used (t : list event) : list key := flat_map ev_used t.

Definition consumed (t : list event) : list key :=
  flat_map (fun e => match e with EvConsume k => [k] | _ => [] end) t.
Definition splits (t : list event) : list key :=
  flat_map (fun e => match e with EvSplit k _ => [k] | _ => [] end) t.

(* where a key comes from, relative to the log so far *)
Definition origin_ok (t : list event) (k : key) : Prop :=
  match k with
  | RSeed _ => True
  | RDerived k' => In (EvConsume k') t
  | Child p i => exists n, In (EvSplit p n) t /\ i < n
  end.

(* the seed a key descends from *)
Fixpoint seed_of (k : key) : Z :=
  match k with RSeed s => s | RDerived k' => seed_of k' | Child p _ => seed_of p end.

Definition ev_key (e : event) : key :=
  match e with EvRoot k => k | EvSplit k _ => k | EvConsume k => k end.

(* the discipline, as a property of a log: at every position, a used key is not used earlier in the log and its
   origin is in the earlier part of the log *)
Definition disciplined (t : list event) : Prop :=
  forall t1 e t2, t = t1 ++ e :: t2 ->
    forall k, In k (ev_used e) -> ~ In k (used t1) /\ origin_ok t1 k.
