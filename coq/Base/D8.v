(* Z[w]/(w^4+1): reference arithmetic on coefficient 4-tuples (a, b, c, d) standing for
   a + b*w + c*w^2 + d*conj(w),  conj(w) = w^7 = -w^3  (tsim's ExactScalarArray layout) *)
From Coq Require Import ZArith List Lia Ring Ring_theory InitialRing Setoid.
Import ListNotations.
Open Scope Z_scope.

Definition q4 := (Z * Z * Z * Z)%type.

Definition q4_mul_ref (x y : q4) : q4 :=
  let '(a1, b1, c1, d1) := x in let '(a2, b2, c2, d2) := y in
  (a1 * a2 + b1 * d2 - c1 * c2 + d1 * b2,
   a1 * b2 + b1 * a2 + c1 * d2 + d1 * c2,
   a1 * c2 + b1 * b2 + c1 * a2 - d1 * d2,
   a1 * d2 - b1 * c2 - c1 * b2 + d1 * a2).
Definition q4_add (x y : q4) : q4 :=
  let '(a1, b1, c1, d1) := x in let '(a2, b2, c2, d2) := y in (a1 + a2, b1 + b2, c1 + c2, d1 + d2).
Definition q4_scale (k : Z) (x : q4) : q4 := let '(a, b, c, d) := x in (k * a, k * b, k * c, k * d).
Definition q4_map (f : Z -> Z) (x : q4) : q4 := let '(a, b, c, d) := x in (f a, f b, f c, f d).
Definition q4_one : q4 := (1, 0, 0, 0).
Definition q4_zero : q4 := (0, 0, 0, 0).
Definition norm1 (x : q4) : Z := let '(a, b, c, d) := x in Z.abs a + Z.abs b + Z.abs c + Z.abs d.

Ltac q4_ext := repeat match goal with |- (_, _) = (_, _) => apply f_equal2 end.

Lemma q4_mul_ref_assoc x y z : q4_mul_ref (q4_mul_ref x y) z = q4_mul_ref x (q4_mul_ref y z).
Proof. destruct x as [[[a1 b1] c1] d1], y as [[[a2 b2] c2] d2], z as [[[a3 b3] c3] d3]. unfold q4_mul_ref. q4_ext; ring. Qed.
Lemma q4_mul_ref_comm x y : q4_mul_ref x y = q4_mul_ref y x.
Proof. destruct x as [[[a1 b1] c1] d1], y as [[[a2 b2] c2] d2]. unfold q4_mul_ref. q4_ext; ring. Qed.
Lemma q4_mul_ref_one_l x : q4_mul_ref q4_one x = x.
Proof. destruct x as [[[a b] c] d]. unfold q4_mul_ref, q4_one. q4_ext; ring. Qed.
Lemma q4_mul_ref_one_r x : q4_mul_ref x q4_one = x.
Proof. rewrite q4_mul_ref_comm. apply q4_mul_ref_one_l. Qed.
Lemma q4_mul_ref_add_r x y z : q4_mul_ref x (q4_add y z) = q4_add (q4_mul_ref x y) (q4_mul_ref x z).
Proof. destruct x as [[[a1 b1] c1] d1], y as [[[a2 b2] c2] d2], z as [[[a3 b3] c3] d3]. unfold q4_mul_ref, q4_add. q4_ext; ring. Qed.
Lemma q4_mul_ref_scale k x y : q4_mul_ref (q4_scale k x) y = q4_scale k (q4_mul_ref x y).
Proof. destruct x as [[[a1 b1] c1] d1], y as [[[a2 b2] c2] d2]. unfold q4_mul_ref, q4_scale. q4_ext; ring. Qed.

Lemma abs4 p q r s : Z.abs (p + q + r + s) <= Z.abs p + Z.abs q + Z.abs r + Z.abs s.
Proof. lia. Qed.

(* each pair (x_i, y_j) feeds exactly one output coefficient, hence sub-multiplicativity of the 1-norm *)
Lemma norm1_mul_ref x y : norm1 (q4_mul_ref x y) <= norm1 x * norm1 y.
Proof.
  destruct x as [[[a1 b1] c1] d1], y as [[[a2 b2] c2] d2]. unfold q4_mul_ref, norm1.
  pose proof (abs4 (a1 * a2) (b1 * d2) (- (c1 * c2)) (d1 * b2)) as H1.
  pose proof (abs4 (a1 * b2) (b1 * a2) (c1 * d2) (d1 * c2)) as H2.
  pose proof (abs4 (a1 * c2) (b1 * b2) (c1 * a2) (- (d1 * d2))) as H3.
  pose proof (abs4 (a1 * d2) (- (b1 * c2)) (- (c1 * b2)) (d1 * a2)) as H4.
  rewrite !Z.abs_opp, !Z.abs_mul in *.
  replace (a1 * a2 + b1 * d2 - c1 * c2 + d1 * b2) with (a1 * a2 + b1 * d2 + - (c1 * c2) + d1 * b2) by ring.
  replace (a1 * c2 + b1 * b2 + c1 * a2 - d1 * d2) with (a1 * c2 + b1 * b2 + c1 * a2 + - (d1 * d2)) by ring.
  replace (a1 * d2 - b1 * c2 - c1 * b2 + d1 * a2) with (a1 * d2 + - (b1 * c2) + - (c1 * b2) + d1 * a2) by ring.
  generalize dependent (Z.abs a1); generalize dependent (Z.abs b1); generalize dependent (Z.abs c1);
  generalize dependent (Z.abs d1); generalize dependent (Z.abs a2); generalize dependent (Z.abs b2);
  generalize dependent (Z.abs c2); generalize dependent (Z.abs d2).
  intros. nia.
Qed.

(* ---- interpretation in an arbitrary commutative ring with an element w, w^4 = -1 ---- *)
Section Interp.
  Variable R : Type.
  Variables (rO rI : R) (radd rmul rsub : R -> R -> R) (ropp : R -> R).
  Variable Rth : ring_theory rO rI radd rmul rsub ropp eq.
  Add Ring RringD8 : Rth.
  Variable w : R.
  Hypothesis w4 : rmul (rmul w w) (rmul w w) = ropp rI.

  Definition ofZ : Z -> R := gen_phiZ rO rI radd rmul ropp.
  Lemma ofZ_morph : ring_morph rO rI radd rmul rsub ropp eq 0%Z 1%Z Z.add Z.mul Z.sub Z.opp Zeq_bool ofZ.
  Proof. apply gen_phiZ_morph; [ apply Eqsth | apply Eq_ext | exact Rth ]. Qed.
  Lemma ofZ_add a b : ofZ (a + b) = radd (ofZ a) (ofZ b). Proof. apply (morph_add ofZ_morph). Qed.
  Lemma ofZ_mul a b : ofZ (a * b) = rmul (ofZ a) (ofZ b). Proof. apply (morph_mul ofZ_morph). Qed.
  Lemma ofZ_sub a b : ofZ (a - b) = rsub (ofZ a) (ofZ b). Proof. apply (morph_sub ofZ_morph). Qed.
  Lemma ofZ_opp a : ofZ (- a) = ropp (ofZ a). Proof. apply (morph_opp ofZ_morph). Qed.
  Lemma ofZ_0 : ofZ 0 = rO. Proof. apply (morph0 ofZ_morph). Qed.
  Lemma ofZ_1 : ofZ 1 = rI. Proof. apply (morph1 ofZ_morph). Qed.
  Lemma ofZ_m1 : ofZ (-1) = ropp rI. Proof. reflexivity. Qed.

  Definition den (x : q4) : R :=
    let '(a, b, c, d) := x in
    radd (radd (radd (ofZ a) (rmul (ofZ b) w)) (rmul (ofZ c) (rmul w w))) (ropp (rmul (ofZ d) (rmul w (rmul w w)))).

  Lemma w4_zero X : rmul (radd (rmul (rmul w w) (rmul w w)) rI) X = rO.
  Proof. rewrite w4. ring. Qed.

  Theorem den_mul_ref x y : den (q4_mul_ref x y) = rmul (den x) (den y).
  Proof.
    destruct x as [[[a1 b1] c1] d1], y as [[[a2 b2] c2] d2]. unfold q4_mul_ref, den.
    rewrite ?ofZ_add, ?ofZ_sub, ?ofZ_mul, ?ofZ_add, ?ofZ_sub, ?ofZ_mul.
    generalize (ofZ a1) (ofZ b1) (ofZ c1) (ofZ d1) (ofZ a2) (ofZ b2) (ofZ c2) (ofZ d2).
    intros A1 B1 C1 D1 A2 B2 C2 D2.
    (* product = result + (w^4 + 1) * cofactor *)
    match goal with |- ?L = ?Rr =>
      assert (E : Rr = radd L (rmul (radd (rmul (rmul w w) (rmul w w)) rI)
         (radd (radd (radd (ropp (rmul B1 D2)) (rmul C1 C2)) (ropp (rmul D1 B2)))
               (radd (rmul (ropp (radd (rmul C1 D2) (rmul D1 C2))) w) (rmul (rmul D1 D2) (rmul w w))))))
        by ring
    end.
    rewrite E, w4_zero. ring.
  Qed.

  Lemma den_add x y : den (q4_add x y) = radd (den x) (den y).
  Proof.
    destruct x as [[[a1 b1] c1] d1], y as [[[a2 b2] c2] d2]. unfold q4_add, den.
    rewrite !ofZ_add. ring.
  Qed.
  Lemma den_scale k x : den (q4_scale k x) = rmul (ofZ k) (den x).
  Proof. destruct x as [[[a b] c] d]. unfold q4_scale, den. rewrite !ofZ_mul. ring. Qed.
  Lemma den_one : den q4_one = rI.
  Proof. unfold den, q4_one. rewrite ofZ_0, ofZ_1. ring. Qed.
  Lemma den_zero : den q4_zero = rO.
  Proof. unfold den, q4_zero. rewrite ofZ_0. ring. Qed.

  Fixpoint wpow (k : nat) : R := match k with O => rI | S n => rmul w (wpow n) end.
End Interp.
