(* int32 two's-complement wrap-around, as performed by JAX/XLA integer arithmetic *)
From Coq Require Import ZArith Lia.
Open Scope Z_scope.

Definition M32 : Z := 4294967296.      (* 2^32 *)
Definition H32 : Z := 2147483648.      (* 2^31 *)
Definition wrap32 (z : Z) : Z := (z + H32) mod M32 - H32.
Definition in32 (z : Z) : Prop := - H32 <= z < H32.

Lemma wrap32_range z : in32 (wrap32 z).
Proof. unfold in32, wrap32, H32, M32. pose proof (Z.mod_pos_bound (z + 2147483648) 4294967296). lia. Qed.

Lemma wrap32_id z : in32 z -> wrap32 z = z.
Proof. unfold in32, wrap32, H32, M32. intros H. rewrite Z.mod_small; lia. Qed.

Lemma wrap32_mod z : (wrap32 z) mod M32 = z mod M32.
Proof.
  unfold wrap32. rewrite Zminus_mod, Zmod_mod, <- Zminus_mod. f_equal. lia.
Qed.

Lemma wrap32_cong a b : a mod M32 = b mod M32 -> wrap32 a = wrap32 b.
Proof.
  intros H. unfold wrap32. f_equal.
  rewrite (Zplus_mod a), (Zplus_mod b), H. reflexivity.
Qed.

Lemma wrap32_idem z : wrap32 (wrap32 z) = wrap32 z.
Proof. apply wrap32_id, wrap32_range. Qed.

Lemma wrap32_add a b : wrap32 (wrap32 a + wrap32 b) = wrap32 (a + b).
Proof. apply wrap32_cong. rewrite Zplus_mod, !wrap32_mod, <- Zplus_mod. reflexivity. Qed.

Lemma wrap32_sub a b : wrap32 (wrap32 a - wrap32 b) = wrap32 (a - b).
Proof. apply wrap32_cong. rewrite Zminus_mod, !wrap32_mod, <- Zminus_mod. reflexivity. Qed.

Lemma wrap32_mul a b : wrap32 (wrap32 a * wrap32 b) = wrap32 (a * b).
Proof. apply wrap32_cong. rewrite Zmult_mod, !wrap32_mod, <- Zmult_mod. reflexivity. Qed.

Lemma wrap32_add_l a b : wrap32 (wrap32 a + b) = wrap32 (a + b).
Proof. apply wrap32_cong. rewrite Zplus_mod, wrap32_mod, <- Zplus_mod. reflexivity. Qed.

Lemma wrap32_mul_l a b : wrap32 (wrap32 a * b) = wrap32 (a * b).
Proof. apply wrap32_cong. rewrite Zmult_mod, wrap32_mod, <- Zmult_mod. reflexivity. Qed.

Lemma wrap32_mul_r a b : wrap32 (a * wrap32 b) = wrap32 (a * b).
Proof. rewrite Z.mul_comm, wrap32_mul_l, Z.mul_comm. reflexivity. Qed.

Lemma wrap32_add_r a b : wrap32 (a + wrap32 b) = wrap32 (a + b).
Proof. rewrite Z.add_comm, wrap32_add_l, Z.add_comm. reflexivity. Qed.

(* congruence modulo 2^32 as a setoid: rewriting `wrap32 z` to `z` under + - * *)
From Coq Require Import Setoid Morphisms.
Definition eqm32 (a b : Z) : Prop := a mod M32 = b mod M32.
Global Instance eqm32_equiv : Equivalence eqm32.
Proof. unfold eqm32. constructor; red; intros; congruence. Qed.
Global Instance eqm32_add : Proper (eqm32 ==> eqm32 ==> eqm32) Z.add.
Proof. unfold eqm32. intros a a' Ha b b' Hb. rewrite (Zplus_mod a), (Zplus_mod a'), Ha, Hb. reflexivity. Qed.
Global Instance eqm32_sub : Proper (eqm32 ==> eqm32 ==> eqm32) Z.sub.
Proof. unfold eqm32. intros a a' Ha b b' Hb. rewrite (Zminus_mod a), (Zminus_mod a'), Ha, Hb. reflexivity. Qed.
Global Instance eqm32_mul : Proper (eqm32 ==> eqm32 ==> eqm32) Z.mul.
Proof. unfold eqm32. intros a a' Ha b b' Hb. rewrite (Zmult_mod a), (Zmult_mod a'), Ha, Hb. reflexivity. Qed.
Global Instance eqm32_opp : Proper (eqm32 ==> eqm32) Z.opp.
Proof. intros a a' Ha. rewrite <- (Z.sub_0_l a), <- (Z.sub_0_l a'). rewrite Ha. reflexivity. Qed.
Lemma wrap32_eqm32 z : eqm32 (wrap32 z) z.
Proof. apply wrap32_mod. Qed.
Lemma wrap32_cong' a b : eqm32 a b -> wrap32 a = wrap32 b.
Proof. apply wrap32_cong. Qed.
Ltac wrap32_solve := apply wrap32_cong'; rewrite ?wrap32_eqm32; reflexivity.
