(* Sign-tracking conjugation of Pauli strings by Clifford gates, with the conjugation table justified
   inside Coq by closed matrix identities over the Gaussian integers.

   Pauli string on any number of qubits:  i^ph * (tensor over qubits q of  X^{x_q} Z^{z_q}),  ph in Z/4,
   x, z bitmasks (N).  Y = i X Z is (1, 1, 1) on its qubit.

   Gate matrices are Stim's documented unitaries, multiplied by sqrt(2)^k so that all entries are Gaussian
   integers ((k, M) stands for M / sqrt 2 ^ k; the harness compares M / sqrt 2 ^ k with
   stim.gate_data(name).unitary_matrix at run time).  A conjugation rule  U P U^-1 = P'  is the closed identity
   M * mat P = mat P' * M, in which the scale cancels; it is decided by vm_compute for every gate and every
   local Pauli (4 for one-qubit gates, 16 for two-qubit gates).  Two-qubit matrices use Stim's little-endian
   convention (index = q1 + 2*q2, q1 the first target).

   NOT proved here: that a gate acting on qubits q (q1,q2) of an n-qubit register conjugates a Pauli string by
   conjugating its local factor (the tensor-product structure).  The harness cross-checks `conj_targets` against
   stim.PauliString.after on random strings. *)
From Coq Require Import ZArith NArith List Bool String Lia.
Import ListNotations.
Open Scope Z_scope.

(* ------------------------------------------------------------------ Gaussian integers and small matrices *)
Definition gi := (Z * Z)%type.
Definition gadd (a b : gi) : gi := (fst a + fst b, snd a + snd b).
Definition gmul (a b : gi) : gi := (fst a * fst b - snd a * snd b, fst a * snd b + snd a * fst b).
Definition geqb (a b : gi) : bool := (fst a =? fst b) && (snd a =? snd b).
Definition g0 : gi := (0, 0).
Definition g1 : gi := (1, 0).
Definition gI : gi := (0, 1).
Definition gm1 : gi := (-1, 0).
Definition gmI : gi := (0, -1).
Definition ipow (p : Z) : gi :=
  match p mod 4 with 0 => g1 | 1 => gI | 2 => gm1 | _ => gmI end.

Definition mat := list (list gi).
Definition gsum (l : list gi) : gi := fold_right gadd g0 l.
Fixpoint dot (r c : list gi) : gi :=
  match r, c with a :: r', b :: c' => gadd (gmul a b) (dot r' c') | _, _ => g0 end.
Definition mcol (j : nat) (B : mat) : list gi := map (fun r => nth j r g0) B.
Definition ncols (B : mat) : nat := match B with [] => O | r :: _ => List.length r end.
Definition mmul (A B : mat) : mat := map (fun row => map (fun j => dot row (mcol j B)) (seq 0 (ncols B))) A.
Definition mscale (c : gi) (A : mat) : mat := map (map (gmul c)) A.
(* kron A B : index = (row of A) * dim B + row of B *)
Definition kron (A B : mat) : mat :=
  flat_map (fun ra => map (fun rb => flat_map (fun a => map (gmul a) rb) ra) B) A.
Fixpoint roweqb (a b : list gi) : bool :=
  match a, b with [], [] => true | x :: a', y :: b' => geqb x y && roweqb a' b' | _, _ => false end.
Fixpoint meqb (A B : mat) : bool :=
  match A, B with [], [] => true | x :: A', y :: B' => roweqb x y && meqb A' B' | _, _ => false end.

Definition mI2 : mat := [[g1; g0]; [g0; g1]].
Definition mX : mat := [[g0; g1]; [g1; g0]].
Definition mZ : mat := [[g1; g0]; [g0; gm1]].
Definition mY : mat := [[g0; gmI]; [gI; g0]].

(* ------------------------------------------------------------------ local Paulis *)
Definition l1 := (Z * bool * bool)%type.      (* i^p X^a Z^b *)
Definition xz_mat (a b : bool) : mat := mmul (if a then mX else mI2) (if b then mZ else mI2).
Definition mat1 (u : l1) : mat := let '(p, a, b) := u in mscale (ipow p) (xz_mat a b).
Definition l1mul (u v : l1) : l1 :=
  let '(p, a, b) := u in let '(p', a', b') := v in
  ((p + p' + (if b && a' then 2 else 0)) mod 4, xorb a a', xorb b b').
Definition l1one : l1 := (0, false, false).
Definition l1pow (u : l1) (e : bool) : l1 := if e then u else l1one.

Definition l2 := (Z * (bool * bool) * (bool * bool))%type.   (* i^p (X^a1 Z^b1 on q1) (X^a2 Z^b2 on q2) *)
Definition mat2 (u : l2) : mat :=
  let '(p, (a1, b1), (a2, b2)) := u in mscale (ipow p) (kron (xz_mat a2 b2) (xz_mat a1 b1)).
Definition l2mul (u v : l2) : l2 :=
  let '(p, (a1, b1), (a2, b2)) := u in let '(p', (a1', b1'), (a2', b2')) := v in
  ((p + p' + (if b1 && a1' then 2 else 0) + (if b2 && a2' then 2 else 0)) mod 4,
   (xorb a1 a1', xorb b1 b1'), (xorb a2 a2', xorb b2 b2')).
Definition l2one : l2 := (0, (false, false), (false, false)).
Definition l2pow (u : l2) (e : bool) : l2 := if e then u else l2one.

(* ------------------------------------------------------------------ gate tables *)
Open Scope string_scope.
(* name, image of X, image of Z, (k, M) with M = sqrt2^k * U *)
Definition lX : l1 := (0, true, false).
Definition lZ : l1 := (0, false, true).
Definition lY : l1 := (1, true, true).
Definition lmX : l1 := (2, true, false).
Definition lmZ : l1 := (2, false, true).
Definition lmY : l1 := (3, true, true).
Local Definition c (a b : Z) : gi := (a, b).

Definition gate1_table : list (string * (l1 * l1) * (Z * mat)) :=
  [ ("I", (lX, lZ), (0, mI2));
    ("X", (lX, lmZ), (0, mX));
    ("Y", (lmX, lmZ), (0, mY));
    ("Z", (lmX, lZ), (0, mZ));
    ("H", (lZ, lX), (1, [[g1; g1]; [g1; gm1]]));
    ("S", (lY, lZ), (0, [[g1; g0]; [g0; gI]]));
    ("S_DAG", (lmY, lZ), (0, [[g1; g0]; [g0; gmI]]));
    ("SQRT_X", (lX, lmY), (2, [[c 1 1; c 1 (-1)]; [c 1 (-1); c 1 1]]));
    ("SQRT_X_DAG", (lX, lY), (2, [[c 1 (-1); c 1 1]; [c 1 1; c 1 (-1)]]));
    ("SQRT_Y", (lmZ, lX), (2, [[c 1 1; c (-1) (-1)]; [c 1 1; c 1 1]]));
    ("SQRT_Y_DAG", (lZ, lmX), (2, [[c 1 (-1); c 1 (-1)]; [c (-1) 1; c 1 (-1)]]));
    (* not in the logical gate set of C20; used for the observations about gates outside the expansion table *)
    ("H_XY", (lY, lmZ), (1, [[g0; c 1 (-1)]; [c 1 1; g0]]));
    ("H_YZ", (lmX, lY), (1, [[g1; gmI]; [gI; gm1]]));
    ("C_XYZ", (lY, lX), (2, [[c 1 (-1); c (-1) (-1)]; [c 1 (-1); c 1 1]]));
    ("C_ZYX", (lZ, lY), (2, [[c 1 1; c 1 1]; [c (-1) 1; c 1 (-1)]])) ].

Local Definition f := false.
Local Definition t := true.
Definition gate2_table : list (string * (l2 * l2 * l2 * l2) * (Z * mat)) :=
  [ ("CX", ((0, (t, f), (t, f)), (0, (f, t), (f, f)), (0, (f, f), (t, f)), (0, (f, t), (f, t))),
      (0, [[g1; g0; g0; g0]; [g0; g0; g0; g1]; [g0; g0; g1; g0]; [g0; g1; g0; g0]]));
    ("CZ", ((0, (t, f), (f, t)), (0, (f, t), (f, f)), (0, (f, t), (t, f)), (0, (f, f), (f, t))),
      (0, [[g1; g0; g0; g0]; [g0; g1; g0; g0]; [g0; g0; g1; g0]; [g0; g0; g0; gm1]])) ].

Close Scope string_scope.

Fixpoint lookup {A} (k : string) (l : list (string * A)) : option A :=
  match l with [] => None | (k', v) :: r => if String.eqb k k' then Some v else lookup k r end.

Definition img1 (g : string) : option (l1 * l1) :=
  lookup g (map (fun e => (fst (fst e), snd (fst e))) gate1_table).
Definition img2 (g : string) : option (l2 * l2 * l2 * l2) :=
  lookup g (map (fun e => (fst (fst e), snd (fst e))) gate2_table).

(* conjugation of a local Pauli: U (i^p X^a Z^b) U^-1 = i^p (U X U^-1)^a (U Z U^-1)^b *)
Definition conj_l1 (tb : l1 * l1) (u : l1) : l1 :=
  let '(p, a, b) := u in l1mul (p, false, false) (l1mul (l1pow (fst tb) a) (l1pow (snd tb) b)).
Definition conj_l2 (tb : l2 * l2 * l2 * l2) (u : l2) : l2 :=
  let '(ix1, iz1, ix2, iz2) := tb in
  let '(p, (a1, b1), (a2, b2)) := u in
  l2mul (p, (f, f), (f, f)) (l2mul (l2mul (l2pow ix1 a1) (l2pow iz1 b1)) (l2mul (l2pow ix2 a2) (l2pow iz2 b2))).

Definition bools := [false; true].
Definition all_l1 : list l1 := flat_map (fun p => flat_map (fun a => map (fun b => (p, a, b)) bools) bools) [0; 1; 2; 3].
Definition all_l2 : list l2 :=
  flat_map (fun p => flat_map (fun a1 => flat_map (fun b1 => flat_map (fun a2 => map (fun b2 => (p, (a1, b1), (a2, b2))) bools) bools) bools) bools) [0; 1; 2; 3].

(* the closed matrix identities *)
Definition gate1_entry_ok (e : string * (l1 * l1) * (Z * mat)) : bool :=
  let '(_, tb, (_, M)) := e in
  forallb (fun u => meqb (mmul M (mat1 u)) (mmul (mat1 (conj_l1 tb u)) M)) all_l1.
Definition gate2_entry_ok (e : string * (l2 * l2 * l2 * l2) * (Z * mat)) : bool :=
  let '(_, tb, (_, M)) := e in
  forallb (fun u => meqb (mmul M (mat2 u)) (mmul (mat2 (conj_l2 tb u)) M)) all_l2.
(* M is sqrt2^k times a unitary:  M * M^dagger = 2^k * identity *)
Definition gconj (a : gi) : gi := (fst a, - snd a).
Definition dagger (M : mat) : mat := map (fun j => map gconj (mcol j M)) (seq 0 (ncols M)).
Definition ident (n : nat) : mat := map (fun i => map (fun j => if Nat.eqb i j then g1 else g0) (seq 0 n)) (seq 0 n).
Definition scaled_unitary (kM : Z * mat) : bool :=
  meqb (mmul (snd kM) (dagger (snd kM))) (mscale (2 ^ fst kM, 0) (ident (List.length (snd kM)))).

Lemma l1mul_is_matrix_product :
  forallb (fun u => forallb (fun v => meqb (mat1 (l1mul u v)) (mmul (mat1 u) (mat1 v))) all_l1) all_l1 = true.
Proof. vm_compute. reflexivity. Qed.
Lemma l2mul_is_matrix_product :
  forallb (fun u => forallb (fun v => meqb (mat2 (l2mul u v)) (mmul (mat2 u) (mat2 v))) all_l2) all_l2 = true.
Proof. vm_compute. reflexivity. Qed.
Lemma gate1_table_justified : forallb gate1_entry_ok gate1_table = true.
Proof. vm_compute. reflexivity. Qed.
Lemma gate2_table_justified : forallb gate2_entry_ok gate2_table = true.
Proof. vm_compute. reflexivity. Qed.
Lemma gate_matrices_scaled_unitary :
  forallb (fun e => scaled_unitary (snd e)) gate1_table && forallb (fun e => scaled_unitary (snd e)) gate2_table = true.
Proof. vm_compute. reflexivity. Qed.

(* reader-level form: for every listed gate (name, table, (k, M)) and every local Pauli u,
   M * mat u = mat (conj u) * M *)
Lemma gate1_conj_rule : forall nm tb k M u, In (nm, tb, (k, M)) gate1_table -> In u all_l1 ->
  meqb (mmul M (mat1 u)) (mmul (mat1 (conj_l1 tb u)) M) = true.
Proof.
  intros nm tb k M u Hin Hu.
  pose proof gate1_table_justified as HJ. rewrite forallb_forall in HJ. specialize (HJ _ Hin).
  cbn [gate1_entry_ok] in HJ. unfold gate1_entry_ok in HJ. rewrite forallb_forall in HJ. exact (HJ _ Hu).
Qed.
Lemma gate2_conj_rule : forall nm tb k M u, In (nm, tb, (k, M)) gate2_table -> In u all_l2 ->
  meqb (mmul M (mat2 u)) (mmul (mat2 (conj_l2 tb u)) M) = true.
Proof.
  intros nm tb k M u Hin Hu.
  pose proof gate2_table_justified as HJ. rewrite forallb_forall in HJ. specialize (HJ _ Hin).
  unfold gate2_entry_ok in HJ. rewrite forallb_forall in HJ. exact (HJ _ Hu).
Qed.

(* ------------------------------------------------------------------ Pauli strings *)
Record pauli := mkP { pph : Z; px : N; pz : N }.

Fixpoint pos_popcount (p : positive) : Z :=
  match p with xH => 1 | xO q => pos_popcount q | xI q => 1 + pos_popcount q end.
Definition popcount (n : N) : Z := match n with N0 => 0 | Npos p => pos_popcount p end.

Definition pone : pauli := mkP 0 0 0.
Definition pmul (P Q : pauli) : pauli :=
  mkP ((pph P + pph Q + 2 * popcount (N.land (pz P) (px Q))) mod 4) (N.lxor (px P) (px Q)) (N.lxor (pz P) (pz Q)).
Definition peqb (P Q : pauli) : bool := (pph P =? pph Q) && N.eqb (px P) (px Q) && N.eqb (pz P) (pz Q).
Definition pprod (l : list pauli) : pauli := fold_right pmul pone l.
Definition pshift (d : N) (P : pauli) : pauli := mkP (pph P) (N.shiftl (px P) d) (N.shiftl (pz P) d).

Lemma peqb_eq P Q : peqb P Q = true -> P = Q.
Proof.
  destruct P as [a b c0], Q as [a' b' c']. unfold peqb. cbn [pph px pz]. intro H.
  apply andb_true_iff in H. destruct H as [H H3]. apply andb_true_iff in H. destruct H as [H1 H2].
  apply Z.eqb_eq in H1. apply N.eqb_eq in H2. apply N.eqb_eq in H3. subst. reflexivity.
Qed.

(* bitmask of a list of qubit indices; a qubit listed twice cancels (parity semantics) *)
Definition mask (sup : list Z) : N := fold_right (fun q m => N.lxor m (N.shiftl 1 (Z.to_N q))) 0%N sup.
Definition xs_on (sup : list Z) : pauli := mkP 0 (mask sup) 0.
Definition zs_on (sup : list Z) : pauli := mkP 0 0 (mask sup).

Definition setb (m q : N) (b : bool) : N := if b then N.setbit m q else N.clearbit m q.

Definition conj1 (tb : l1 * l1) (q : N) (P : pauli) : pauli :=
  let '(p', a', b') := conj_l1 tb (0, N.testbit (px P) q, N.testbit (pz P) q) in
  mkP ((pph P + p') mod 4) (setb (px P) q a') (setb (pz P) q b').
Definition conj2 (tb : l2 * l2 * l2 * l2) (q1 q2 : N) (P : pauli) : pauli :=
  let '(p', (a1, b1), (a2, b2)) :=
    conj_l2 tb (0, (N.testbit (px P) q1, N.testbit (pz P) q1), (N.testbit (px P) q2, N.testbit (pz P) q2)) in
  mkP ((pph P + p') mod 4) (setb (setb (px P) q1 a1) q2 a2) (setb (setb (pz P) q1 b1) q2 b2).

(* a gate name applied to a flat list of qubit targets (Stim broadcasting: one-qubit gates on each target,
   two-qubit gates on consecutive pairs).  None: unknown name, negative target, odd pair list, q1 = q2. *)
Fixpoint conj1_targets (tb : l1 * l1) (ts : list Z) (P : pauli) : option pauli :=
  match ts with
  | [] => Some P
  | q :: r => if q <? 0 then None else conj1_targets tb r (conj1 tb (Z.to_N q) P)
  end.
Fixpoint conj2_targets (tb : l2 * l2 * l2 * l2) (ts : list Z) (P : pauli) : option pauli :=
  match ts with
  | [] => Some P
  | q1 :: q2 :: r => if (q1 <? 0) || (q2 <? 0) || (q1 =? q2) then None
                     else conj2_targets tb r (conj2 tb (Z.to_N q1) (Z.to_N q2) P)
  | _ => None
  end.
Definition conj_targets (g : string) (ts : list Z) (P : pauli) : option pauli :=
  if String.eqb g "TICK"%string then (match ts with [] => Some P | _ => None end) else
  match img1 g with
  | Some tb => conj1_targets tb ts P
  | None => match img2 g with Some tb => conj2_targets tb ts P | None => None end
  end.

(* ------------------------------------------------------------------ span search (GF(2)) by exhaustive subsets *)
Fixpoint xor_select (sel : list bool) (gens : list N) : N :=
  match sel, gens with
  | b :: s, g :: r => N.lxor (if b then g else 0%N) (xor_select s r)
  | _, _ => 0%N
  end.
Fixpoint find_span (gens : list N) (target : N) : option (list bool) :=
  match gens with
  | [] => if N.eqb target 0 then Some [] else None
  | g :: r => match find_span r target with
              | Some s => Some (false :: s)
              | None => match find_span r (N.lxor target g) with Some s => Some (true :: s) | None => None end
              end
  end.
Lemma find_span_sound : forall gens target s, find_span gens target = Some s -> xor_select s gens = target /\ List.length s = List.length gens.
Proof.
  induction gens as [|g r IH]; intros target s H; cbn [find_span] in H.
  - destruct (N.eqb target 0) eqn:E; [|discriminate]. injection H as <-. apply N.eqb_eq in E. subst. split; reflexivity.
  - destruct (find_span r target) as [s1|] eqn:E1.
    + injection H as <-. destruct (IH _ _ E1) as [H1 H2]. cbn [xor_select List.length]. rewrite H1, H2. split; [apply N.lxor_0_l | reflexivity].
    + destruct (find_span r (N.lxor target g)) as [s2|] eqn:E2; [|discriminate].
      injection H as <-. destruct (IH _ _ E2) as [H1 H2]. cbn [xor_select List.length]. rewrite H1, H2. split; [|reflexivity].
      rewrite N.lxor_comm, N.lxor_assoc, N.lxor_nilpotent, N.lxor_0_r. reflexivity.
Qed.
(* independence: the only subset with zero xor is the empty one *)
Fixpoint count_zero_subsets (gens : list N) (acc : N) : Z :=
  match gens with
  | [] => if N.eqb acc 0 then 1 else 0
  | g :: r => count_zero_subsets r acc + count_zero_subsets r (N.lxor acc g)
  end.
Definition independent (gens : list N) : bool := count_zero_subsets gens 0 =? 1.
