(* Generic list / permutation facts: a stable `argsort`, gather (`l[idx]`), positions inside `concat`.
   Used by C06_reorder / C04_reorder (sample_program: combined[:, argsort(output_order)]) and C11_components.
   Independent of /repo. *)
From Coq Require Import List Arith Lia Permutation Sorting.Sorted.
Import ListNotations.
Set Default Timeout 60.

(* ---- argsort: stable insertion sort of the indices 0..len-1 by key (numpy/jnp argsort on distinct keys) ---- *)
Fixpoint insert_idx (key : nat -> nat) (x : nat) (l : list nat) : list nat :=
  match l with
  | [] => [x]
  | y :: r => if key x <=? key y then x :: y :: r else y :: insert_idx key x r
  end.
Definition argsort (l : list nat) : list nat :=
  fold_right (insert_idx (fun i => nth i l 0)) [] (seq 0 (length l)).
(* l[idx] *)
Definition gather {A} (d : A) (idx : list nat) (l : list A) : list A := map (fun j => nth j l d) idx.
(* start position of block c inside concat ll *)
Definition offset {A} (ll : list (list A)) (c : nat) : nat := list_sum (map (@length A) (firstn c ll)).

Lemma insert_idx_perm : forall key x l, Permutation (insert_idx key x l) (x :: l).
Proof.
  intros key x l. induction l as [|y r IH]; cbn [insert_idx].
  - apply Permutation_refl.
  - destruct (key x <=? key y).
    + apply Permutation_refl.
    + eapply Permutation_trans; [apply perm_skip; exact IH | apply perm_swap].
Qed.

Lemma fold_insert_perm : forall key l, Permutation (fold_right (insert_idx key) [] l) l.
Proof.
  intros key l. induction l as [|x r IH]; cbn [fold_right].
  - apply Permutation_refl.
  - eapply Permutation_trans; [apply insert_idx_perm | apply perm_skip; exact IH].
Qed.

Lemma argsort_perm : forall l, Permutation (argsort l) (seq 0 (length l)).
Proof. intros l. apply fold_insert_perm. Qed.

Lemma argsort_length : forall l, length (argsort l) = length l.
Proof. intros l. rewrite (Permutation_length (argsort_perm l)). apply seq_length. Qed.

Lemma insert_idx_sorted : forall key x l,
  StronglySorted le (map key l) -> StronglySorted le (map key (insert_idx key x l)).
Proof.
  intros key x l. induction l as [|y r IH]; intros Hs; cbn [insert_idx map].
  - constructor; constructor.
  - inversion Hs as [|a b Hs' Hall]; subst.
    destruct (key x <=? key y) eqn:E.
    + apply Nat.leb_le in E. cbn [map]. constructor; [exact Hs|].
      constructor; [exact E|].
      eapply Forall_impl; [|exact Hall]. intros z Hz. lia.
    + apply Nat.leb_gt in E. cbn [map]. constructor; [apply IH; exact Hs'|].
      apply Forall_forall. intros z Hz.
      apply in_map_iff in Hz. destruct Hz as [i [Hi Hin]]. subst z.
      apply (Permutation_in _ (insert_idx_perm key x r)) in Hin.
      destruct Hin as [Hin|Hin].
      * subst i. lia.
      * rewrite Forall_forall in Hall. apply Hall. apply in_map. exact Hin.
Qed.

Lemma fold_insert_sorted : forall key l, StronglySorted le (map key (fold_right (insert_idx key) [] l)).
Proof.
  intros key l. induction l as [|x r IH]; cbn [fold_right].
  - constructor.
  - apply insert_idx_sorted. exact IH.
Qed.

Lemma sorted_perm_unique : forall l1 l2 : list nat,
  StronglySorted le l1 -> StronglySorted le l2 -> Permutation l1 l2 -> l1 = l2.
Proof.
  induction l1 as [|a r1 IH]; intros l2 H1 H2 HP.
  - apply Permutation_nil in HP. subst. reflexivity.
  - destruct l2 as [|b r2].
    + apply Permutation_sym in HP. apply Permutation_nil in HP. discriminate.
    + inversion H1 as [|? ? H1' A1]; subst. inversion H2 as [|? ? H2' A2]; subst.
      assert (Hab : a = b).
      { assert (Ia : In a (b :: r2)) by (eapply Permutation_in; [exact HP | left; reflexivity]).
        assert (Ib : In b (a :: r1)) by (eapply Permutation_in; [apply Permutation_sym; exact HP | left; reflexivity]).
        rewrite Forall_forall in A1, A2.
        destruct Ia as [Ia|Ia]; [congruence|]. destruct Ib as [Ib|Ib]; [congruence|].
        specialize (A1 _ Ib). specialize (A2 _ Ia). lia. }
      subst b. f_equal. apply IH; [exact H1' | exact H2' | eapply Permutation_cons_inv; exact HP].
Qed.

Lemma seq_sorted : forall n a, StronglySorted le (seq a n).
Proof.
  induction n as [|n IH]; intros a; cbn [seq].
  - constructor.
  - constructor; [apply IH|]. apply Forall_forall. intros x Hx. apply in_seq in Hx. lia.
Qed.

Lemma map_nth_seq : forall (A : Type) (d : A) (l : list A), map (fun i => nth i l d) (seq 0 (length l)) = l.
Proof.
  intros A d l. induction l as [|a r IH]; [reflexivity|].
  cbn [length seq map nth]. f_equal.
  rewrite <- seq_shift, map_map. cbn [nth]. exact IH.
Qed.

Lemma nth_map_lt : forall (A B : Type) (f : A -> B) (l : list A) (dA : A) (dB : B) n,
  n < length l -> nth n (map f l) dB = f (nth n l dA).
Proof.
  intros A B f l dA dB. induction l as [|a r IH]; intros n Hn; cbn [length] in Hn; [lia|].
  destruct n as [|n]; cbn [map nth]; [reflexivity|]. apply IH. lia.
Qed.

(* keys gathered by argsort are the sorted keys; for a permutation of 0..n-1 they are 0..n-1 *)
Lemma gather_argsort_perm : forall l n, Permutation l (seq 0 n) -> gather 0 (argsort l) l = seq 0 n.
Proof.
  intros l n HP. unfold gather. apply sorted_perm_unique.
  - apply (fold_insert_sorted (fun i => nth i l 0)).
  - apply seq_sorted.
  - eapply Permutation_trans; [|exact HP].
    eapply Permutation_trans; [apply Permutation_map; apply argsort_perm|].
    rewrite map_nth_seq. apply Permutation_refl.
Qed.

Theorem argsort_spec : forall l n, Permutation l (seq 0 n) ->
  forall j, j < n -> nth (nth j (argsort l) 0) l 0 = j /\ nth j (argsort l) 0 < length l.
Proof.
  intros l n HP j Hj.
  assert (Hlen : length l = n) by (rewrite (Permutation_length HP); apply seq_length).
  split.
  - pose proof (gather_argsort_perm l n HP) as HG. unfold gather in HG.
    assert (E : nth j (map (fun i => nth i l 0) (argsort l)) 0 = nth j (seq 0 n) 0) by (rewrite HG; reflexivity).
    rewrite seq_nth in E by exact Hj. cbn in E.
    rewrite (nth_map_lt _ _ (fun i => nth i l 0) (argsort l) 0 0) in E by (rewrite argsort_length; lia).
    exact E.
  - assert (Hin : In (nth j (argsort l) 0) (argsort l)) by (apply nth_In; rewrite argsort_length; lia).
    apply (Permutation_in _ (argsort_perm l)) in Hin. apply in_seq in Hin. lia.
Qed.

(* ---- positions inside concat ---- *)
Lemma offset_0 : forall (A : Type) (ll : list (list A)), offset ll 0 = 0.
Proof. reflexivity. Qed.
Lemma offset_S : forall (A : Type) (x : list A) r c, offset (x :: r) (S c) = length x + offset r c.
Proof. reflexivity. Qed.
Lemma nth_concat : forall (A : Type) (d : A) (ll : list (list A)) c k,
  k < length (nth c ll []) -> nth (offset ll c + k) (concat ll) d = nth k (nth c ll []) d.
Proof.
  intros A d ll. induction ll as [|x r IH]; intros c k Hk.
  - destruct c; cbn in Hk; lia.
  - destruct c as [|c].
    + cbn [nth] in Hk |- *. rewrite offset_0. cbn [concat plus]. rewrite app_nth1 by exact Hk. reflexivity.
    + cbn [nth] in Hk |- *. rewrite offset_S. cbn [concat].
      rewrite app_nth2 by lia.
      replace (length x + offset r c + k - length x) with (offset r c + k) by lia.
      apply IH. exact Hk.
Qed.

Lemma offset_lt : forall (A : Type) (ll : list (list A)) c k,
  k < length (nth c ll []) -> offset ll c + k < length (concat ll).
Proof.
  intros A ll. induction ll as [|x r IH]; intros c k Hk.
  - destruct c; cbn in Hk; lia.
  - destruct c as [|c]; cbn [nth concat] in Hk |- *; rewrite app_length.
    + rewrite offset_0. lia.
    + rewrite offset_S. specialize (IH c k Hk). lia.
Qed.

Lemma offset_shape : forall (A B : Type) (l1 : list (list A)) (l2 : list (list B)) c,
  map (@length A) l1 = map (@length B) l2 -> offset l1 c = offset l2 c.
Proof.
  intros A B l1 l2 c H. unfold offset. rewrite <- !firstn_map. rewrite H. reflexivity.
Qed.

Lemma nth_shape : forall (A B : Type) (l1 : list (list A)) (l2 : list (list B)) c,
  map (@length A) l1 = map (@length B) l2 -> length (nth c l1 []) = length (nth c l2 []).
Proof.
  intros A B l1 l2 c H.
  change (length (nth c l1 [])) with ((fun x => length x) (nth c l1 [])).
  change (length (nth c l2 [])) with ((fun x => length x) (nth c l2 [])).
  rewrite <- (map_nth (@length A)), <- (map_nth (@length B)). rewrite H. reflexivity.
Qed.

(* ---- the reorder theorem: blocks = per-component global output indices (component order), values = per-component
        sample columns.  combined = concat values, output_order = concat blocks, result = combined[argsort(output_order)].
        Whenever the k-th output of component c is global output j, result[j] is the k-th value of component c. ---- *)
Theorem reorder_correct : forall (A : Type) (d : A) (blocks : list (list nat)) (values : list (list A)) (n : nat),
  Permutation (concat blocks) (seq 0 n) ->
  map (@length A) values = map (@length nat) blocks ->
  forall c k, k < length (nth c blocks []) ->
    let j := nth k (nth c blocks []) 0 in
    j < n /\ nth j (gather d (argsort (concat blocks)) (concat values)) d = nth k (nth c values []) d.
Proof.
  intros A d blocks values n HP Hshape c k Hk j.
  set (order := concat blocks) in *.
  assert (Hlen : length order = n) by (rewrite (Permutation_length HP); apply seq_length).
  assert (Hpos : nth (offset blocks c + k) order 0 = j) by (apply nth_concat; exact Hk).
  assert (Hposlt : offset blocks c + k < length order) by (apply offset_lt; exact Hk).
  assert (Hjn : j < n).
  { assert (Hin : In j order) by (rewrite <- Hpos; apply nth_In; exact Hposlt).
    apply (Permutation_in _ HP) in Hin. apply in_seq in Hin. lia. }
  split; [exact Hjn|].
  destruct (argsort_spec order n HP j Hjn) as [Hs Hslt].
  assert (Hnd : NoDup order) by (eapply Permutation_NoDup; [apply Permutation_sym; exact HP | apply seq_NoDup]).
  assert (Heq : nth j (argsort order) 0 = offset blocks c + k).
  { rewrite NoDup_nth in Hnd. apply Hnd; [exact Hslt | exact Hposlt |]. rewrite Hs, Hpos. reflexivity. }
  unfold gather.
  rewrite (nth_map_lt _ _ (fun i => nth i (concat values) d) (argsort order) 0 d) by (rewrite argsort_length; lia).
  rewrite Heq.
  rewrite (offset_shape _ _ blocks values c) by (symmetry; exact Hshape).
  apply nth_concat. rewrite (nth_shape _ _ values blocks c Hshape). exact Hk.
Qed.

Lemma gather_length : forall (A : Type) (d : A) idx (l : list A), length (gather d idx l) = length idx.
Proof. intros. unfold gather. apply map_length. Qed.
