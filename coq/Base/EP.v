(* Exponential polynomials: finite sums  2^{-sc} * sum_j c_j * E(e_j),  c_j : Z,
   E(x) = exp(i*pi*x), exponent e = c0/4 + s1*ta + s2*tb + s3*tc with ta,tb,tc three SYMBOLIC
   angles (they stand for HALF rotation angles, so that R(theta) and its scalar E(-theta/2) are both
   expressible).  Normal form: c0 reduced mod 8 into [0,4) with the sign E(x+1) = -E(x) folded into the
   coefficient, equal exponents merged, zero coefficients dropped.  Fully computable: closed identities
   between such expressions are decided by vm_compute (`peq`) and transported to every ring with such a
   character E by EPSound.peq_sound. *)
From Coq Require Import ZArith List Bool Lia.
Import ListNotations.
Open Scope Z_scope.

Record expo := mkE { c0 : Z; s1 : Z; s2 : Z; s3 : Z }.
Definition eadd (x y : expo) := mkE (c0 x + c0 y) (s1 x + s1 y) (s2 x + s2 y) (s3 x + s3 y).
Definition eneg (x : expo) := mkE (- c0 x) (- s1 x) (- s2 x) (- s3 x).
Definition escale (k : Z) (x : expo) := mkE (k * c0 x) (k * s1 x) (k * s2 x) (k * s3 x).
Definition e0 := mkE 0 0 0 0.
Definition equarter (k : Z) := mkE k 0 0 0.          (* k * pi/4 *)
Definition esym1 (k : Z) := mkE 0 k 0 0.             (* k * ta *)
Definition esym2 (k : Z) := mkE 0 0 k 0.
Definition esym3 (k : Z) := mkE 0 0 0 k.
Definition enorm (x : expo) : bool * expo :=
  let r := c0 x mod 8 in
  if r <? 4 then (false, mkE r (s1 x) (s2 x) (s3 x)) else (true, mkE (r - 4) (s1 x) (s2 x) (s3 x)).
Definition eeqb (x y : expo) := (c0 x =? c0 y) && (s1 x =? s1 y) && (s2 x =? s2 y) && (s3 x =? s3 y).
Definition mono := (expo * Z)%type.
Fixpoint insert (m : mono) (p : list mono) : list mono :=
  match p with
  | [] => [m]
  | (e, c) :: q => if eeqb e (fst m) then (e, c + snd m) :: q else (e, c) :: insert m q
  end.
Definition nmono (m : mono) : mono :=
  let '(sg, e) := enorm (fst m) in (e, if sg then - snd m else snd m).
Definition normalize (p : list mono) : list mono :=
  filter (fun m => negb (snd m =? 0)) (fold_right (fun m acc => insert (nmono m) acc) [] p).
Record ep := mkP { sc : nat; terms : list mono }.
Fixpoint pow2 (n : nat) : Z := match n with O => 1 | S k => 2 * pow2 k end.
Definition lift (s : nat) (p : ep) := map (fun m => (fst m, snd m * pow2 (s - sc p))) (terms p).
(* keep the scale small: divide out common factors of two *)
Definition all_even_terms (l : list mono) : bool := forallb (fun m => Z.even (snd m)) l.
Fixpoint shrink (fuel : nat) (s : nat) (l : list mono) : ep :=
  match fuel, s with
  | S f, S s' => match l with
                 | [] => mkP 0 []
                 | _ => if all_even_terms l then shrink f s' (map (fun m => (fst m, snd m / 2)) l) else mkP s l
                 end
  | _, _ => match l with [] => mkP 0 [] | _ => mkP s l end
  end.
Definition mk (s : nat) (l : list mono) : ep := shrink s s (normalize l).
Definition padd (x y : ep) : ep :=
  let s := Nat.max (sc x) (sc y) in mk s (lift s x ++ lift s y).
Definition mulmono (a b : mono) : mono := (eadd (fst a) (fst b), snd a * snd b).
Definition pmul (x y : ep) : ep :=
  mk (sc x + sc y) (flat_map (fun a => map (mulmono a) (terms y)) (terms x)).
Definition pconst (z : Z) : ep := mk 0 [(e0, z)].
Definition pE (e : expo) : ep := mk 0 [(e, 1)].
Definition pneg (x : ep) := mkP (sc x) (map (fun m => (fst m, - snd m)) (terms x)).
Definition pconj (x : ep) := mk (sc x) (map (fun m => (eneg (fst m), snd m)) (terms x)).
Definition phalf : ep := mkP 1 [(e0, 1)].
Definition pzero (x : ep) : bool := match terms x with [] => true | _ => false end.
Definition psub (x y : ep) := padd x (pneg y).
Definition peq (x y : ep) : bool := pzero (psub x y).
Definition p0 := pconst 0.
Definition p1 := pconst 1.
Definition pi_ := pE (equarter 2).                    (* the imaginary unit *)
Definition psqrt2 := padd (pE (equarter 1)) (pE (equarter (-1))).
Definition psqrt2inv := pmul phalf psqrt2.
Fixpoint ppow (x : ep) (n : nat) : ep := match n with O => p1 | S k => pmul x (ppow x k) end.
(* sqrt(2)^n for n : Z *)
Definition psqrt2pow (n : Z) : ep := match n with Z0 => p1 | Zpos p => ppow psqrt2 (Pos.to_nat p) | Zneg p => ppow psqrt2inv (Pos.to_nat p) end.
