From Coq Require Import ZArith QArith Qcanon List Bool Lia Ring Setoid Ring_theory InitialRing.
Import ListNotations.
Require Import TV.Base.EP.
Open Scope Z_scope.
Declare Scope R_scope.
Delimit Scope R_scope with R.

Section Abstract.
Variable R : Type.
Variables (rO rI : R) (radd rmul rsub : R -> R -> R) (ropp : R -> R).
Variable Rth : ring_theory rO rI radd rmul rsub ropp eq.
Add Ring Rring : Rth.
Notation "x + y" := (radd x y) : R_scope.
Notation "x * y" := (rmul x y) : R_scope.
Notation "x - y" := (rsub x y) : R_scope.
Notation "- x" := (ropp x) : R_scope.
Notation "0" := rO : R_scope.
Notation "1" := rI : R_scope.
Variable E : Qc -> R.
Hypothesis E_add : forall a b, E (a + b)%Qc = (E a * E b)%R.
Hypothesis E_0 : E 0%Qc = rI.
Hypothesis E_1 : E 1%Qc = ropp rI.
Variable half : R.
Hypothesis half_2 : (half + half)%R = rI.
Variable conj : R -> R.
Hypothesis conj_add : forall a b, conj (a + b)%R = (conj a + conj b)%R.
Hypothesis conj_mul : forall a b, conj (a * b)%R = (conj a * conj b)%R.
Hypothesis conj_1 : conj rI = rI.
Hypothesis conj_E : forall q, conj (E q) = E (- q)%Qc.
Hypothesis conj_half : conj half = half.
Variables ta tb tc : Qc.

Definition ofZ : Z -> R := gen_phiZ rO rI radd rmul ropp.
Lemma ofZ_morph : ring_morph rO rI radd rmul rsub ropp eq 0%Z 1%Z Z.add Z.mul Z.sub Z.opp Zeq_bool ofZ.
Proof. apply gen_phiZ_morph; [ apply Eqsth | apply Eq_ext | exact Rth ]. Qed.
Lemma ofZ_add a b : ofZ (a + b) = (ofZ a + ofZ b)%R. Proof. apply (morph_add ofZ_morph). Qed.
Lemma ofZ_mul a b : ofZ (a * b) = (ofZ a * ofZ b)%R. Proof. apply (morph_mul ofZ_morph). Qed.
Lemma ofZ_opp a : ofZ (- a) = (- ofZ a)%R. Proof. apply (morph_opp ofZ_morph). Qed.
Lemma ofZ_0 : ofZ 0 = rO. Proof. apply (morph0 ofZ_morph). Qed.
Lemma ofZ_1 : ofZ 1 = rI. Proof. apply (morph1 ofZ_morph). Qed.

Definition z2qc (z : Z) : Qc := Q2Qc (inject_Z z).
Lemma z2qc_add a b : z2qc (a + b) = (z2qc a + z2qc b)%Qc.
Proof. unfold z2qc, Qcplus. apply Q2Qc_eq_iff. cbn [this Q2Qc]. rewrite !Qred_correct. rewrite inject_Z_plus. reflexivity. Qed.
Lemma z2qc_mul a b : z2qc (a * b) = (z2qc a * z2qc b)%Qc.
Proof. unfold z2qc, Qcmult. apply Q2Qc_eq_iff. cbn [this Q2Qc]. rewrite !Qred_correct. rewrite inject_Z_mult. reflexivity. Qed.
Lemma z2qc_opp a : z2qc (- a) = (- z2qc a)%Qc.
Proof. unfold z2qc, Qcopp. apply Q2Qc_eq_iff. cbn [this Q2Qc]. rewrite !Qred_correct. rewrite inject_Z_opp. reflexivity. Qed.
Definition quarter : Qc := Q2Qc (1#4).
Definition expo_val (e : expo) : Qc :=
  (z2qc (c0 e) * quarter + z2qc (s1 e) * ta + z2qc (s2 e) * tb + z2qc (s3 e) * tc)%Qc.
Lemma expo_val_add x y : expo_val (eadd x y) = (expo_val x + expo_val y)%Qc.
Proof. unfold expo_val, eadd; simpl. rewrite !z2qc_add. ring. Qed.

(* E on integers *)
Lemma E_2 : E (1+1)%Qc = rI. Proof. rewrite E_add, E_1. ring. Qed.
Lemma E_neg a : (E a * E (- a)%Qc)%R = rI.
Proof. rewrite <- E_add. replace (a + - a)%Qc with 0%Qc by ring. exact E_0. Qed.
Lemma E_2k_nat (n : nat) : E (z2qc (2 * Z.of_nat n)) = rI.
Proof.
  induction n as [|n IH].
  - simpl. exact E_0.
  - replace (2 * Z.of_nat (S n)) with (2 * Z.of_nat n + 2) by lia.
    rewrite z2qc_add, E_add, IH. replace (z2qc 2) with (1+1)%Qc by (apply Qc_is_canon; reflexivity).
    rewrite E_2. ring.
Qed.
Lemma E_2k (k : Z) : E (z2qc (2 * k)) = rI.
Proof.
  destruct (Z_le_gt_dec 0 k) as [Hk|Hk].
  - rewrite <- (Z2Nat.id k Hk). apply E_2k_nat.
  - pose proof (E_neg (z2qc (2 * k))) as H.
    rewrite <- z2qc_opp in H. replace (- (2 * k)) with (2 * Z.of_nat (Z.to_nat (- k))) in H by lia.
    rewrite E_2k_nat in H. rewrite <- H. ring.
Qed.

Definition eval_mono (m : mono) : R := (ofZ (snd m) * E (expo_val (fst m)))%R.
Fixpoint eval_terms (l : list mono) : R := match l with [] => rO | m :: q => (eval_mono m + eval_terms q)%R end.
Fixpoint halfpow (n : nat) : R := match n with O => rI | S k => (half * halfpow k)%R end.
Definition eval (p : ep) : R := (halfpow (sc p) * eval_terms (terms p))%R.

Lemma eeqb_eq x y : eeqb x y = true -> x = y.
Proof.
  unfold eeqb. destruct x as [a b c d], y as [a' b' c' d']; simpl.
  rewrite !andb_true_iff, !Z.eqb_eq. intros [[[-> ->] ->] ->]. reflexivity.
Qed.
Lemma eval_insert m p : eval_terms (insert m p) = (eval_mono m + eval_terms p)%R.
Proof.
  destruct m as [e' c'].
  induction p as [|[e c] q IH]; cbn [insert eval_terms fst snd].
  - reflexivity.
  - destruct (eeqb e e') eqn:He.
    + apply eeqb_eq in He. subst e'. cbn [eval_terms].
      unfold eval_mono; cbn [fst snd]. rewrite ofZ_add. ring.
    + cbn [eval_terms]. rewrite IH. ring.
Qed.
Lemma eval_nmono m : eval_mono (nmono m) = eval_mono m.
Proof.
  destruct m as [e c]. unfold nmono, enorm; cbn [fst snd].
  pose proof (Z.div_mod (c0 e) 8 ltac:(lia)) as Hdm.
  pose proof (Z.mod_pos_bound (c0 e) 8 ltac:(lia)) as Hb.
  set (r := c0 e mod 8) in *. set (k := c0 e / 8) in *.
  assert (Hsplit : forall r', expo_val e = (z2qc (2 * k) + (z2qc (c0 e - 8 * k - r') * quarter + expo_val (mkE r' (s1 e) (s2 e) (s3 e))))%Qc).
  { intro r'. unfold expo_val; cbn [c0 s1 s2 s3].
    assert (Hq : (z2qc 4 * quarter = 1)%Qc) by (apply Qc_is_canon; reflexivity).
    assert (Hc : z2qc (c0 e) = (z2qc (2 * k) * z2qc 4 + z2qc (c0 e - 8 * k - r') + z2qc r')%Qc).
    { rewrite <- z2qc_mul, <- !z2qc_add. f_equal. lia. }
    rewrite Hc.
    transitivity ((z2qc (2 * k) * (z2qc 4 * quarter) + z2qc (c0 e - 8 * k - r') * quarter + z2qc r' * quarter + z2qc (s1 e) * ta + z2qc (s2 e) * tb + z2qc (s3 e) * tc)%Qc); [ring|].
    rewrite Hq. ring. }
  destruct (r <? 4) eqn:Hr; unfold eval_mono; cbn [fst snd].
  - rewrite (Hsplit r). replace (c0 e - 8 * k - r) with 0 by lia.
    rewrite !E_add, E_2k. replace (z2qc 0 * quarter)%Qc with 0%Qc by (apply Qc_is_canon; reflexivity).
    rewrite E_0. ring.
  - rewrite (Hsplit (r - 4)). replace (c0 e - 8 * k - (r - 4)) with 4 by lia.
    rewrite !E_add, E_2k. replace (z2qc 4 * quarter)%Qc with 1%Qc by (apply Qc_is_canon; reflexivity).
    rewrite E_1, ofZ_opp. ring.
Qed.
Lemma eval_filter l : eval_terms (filter (fun m => negb (snd m =? 0)) l) = eval_terms l.
Proof.
  induction l as [|[e c] q IH]; cbn [filter eval_terms snd]; [reflexivity|].
  destruct (c =? 0) eqn:Hc; cbn [negb eval_terms].
  - apply Z.eqb_eq in Hc. subst c. unfold eval_mono; cbn [fst snd]. rewrite ofZ_0, IH. ring.
  - rewrite IH. reflexivity.
Qed.
Lemma eval_normalize l : eval_terms (normalize l) = eval_terms l.
Proof.
  unfold normalize. rewrite eval_filter.
  induction l as [|m q IH]; simpl; [reflexivity|].
  rewrite eval_insert, eval_nmono, IH. reflexivity.
Qed.
Lemma eval_app l1 l2 : eval_terms (l1 ++ l2) = (eval_terms l1 + eval_terms l2)%R.
Proof. induction l1 as [|m q IH]; simpl; [ring | rewrite IH; ring]. Qed.

Definition two : R := (rI + rI)%R.
Lemma ofZ_pow2 n : (halfpow n * ofZ (pow2 n))%R = rI.
Proof.
  induction n as [|n IH]; simpl halfpow; cbn [pow2].
  - rewrite ofZ_1. ring.
  - rewrite ofZ_mul. replace (ofZ 2) with two by (unfold two; rewrite <- ofZ_1, <- ofZ_add; reflexivity).
    transitivity ((half + half) * (halfpow n * ofZ (pow2 n)))%R; [unfold two; ring|]. rewrite IH, half_2. ring.
Qed.
Lemma halfpow_add a b : halfpow (a + b) = (halfpow a * halfpow b)%R.
Proof. induction a as [|a IH]; simpl; [ring | rewrite IH; ring]. Qed.
Lemma eval_lift s p : (sc p <= s)%nat ->
  (halfpow s * eval_terms (lift s p))%R = eval p.
Proof.
  intro Hs. unfold eval, lift. replace s with (sc p + (s - sc p))%nat at 1 by lia.
  rewrite halfpow_add. set (d := (s - sc p)%nat).
  assert (H : eval_terms (map (fun m => (fst m, snd m * pow2 d)) (terms p)) = (ofZ (pow2 d) * eval_terms (terms p))%R).
  { induction (terms p) as [|m q IH]; simpl; [ring|]. rewrite IH. unfold eval_mono; simpl. rewrite ofZ_mul. ring. }
  rewrite H. transitivity (halfpow (sc p) * (halfpow d * ofZ (pow2 d)) * eval_terms (terms p))%R; [ring|].
  rewrite ofZ_pow2. ring.
Qed.
(* shrink: dividing even coefficients by two while lowering the scale keeps the value *)
Lemma ofZ_even_half c : Z.even c = true -> ofZ c = (two * ofZ (c / 2))%R.
Proof.
  intro H. apply Zeven_bool_iff, Zeven_div2 in H. rewrite Z.div2_div in H.
  rewrite H at 1. rewrite ofZ_mul. f_equal; try (unfold two; rewrite <- ofZ_1, <- ofZ_add; reflexivity).
Qed.
Lemma eval_terms_halve l : all_even_terms l = true ->
  eval_terms l = (two * eval_terms (map (fun m => (fst m, snd m / 2)) l))%R.
Proof.
  induction l as [|[e c] q IH]; cbn [all_even_terms forallb map eval_terms fst snd]; intro H.
  - ring.
  - apply andb_true_iff in H. destruct H as [Hc Hq]. rewrite (IH Hq).
    unfold eval_mono; cbn [fst snd]. rewrite (ofZ_even_half c Hc). ring.
Qed.
Lemma half_two : (half * two)%R = rI.
Proof. unfold two. transitivity (half + half)%R; [ring | exact half_2]. Qed.
Lemma eval_shrink f : forall s l, eval (shrink f s l) = (halfpow s * eval_terms l)%R.
Proof.
  induction f as [|f IH]; intros s l; cbn [shrink].
  - destruct l; unfold eval; cbn [sc terms eval_terms]; [ring | reflexivity].
  - destruct s as [|s'].
    + destruct l; unfold eval; cbn [sc terms eval_terms]; [ring | reflexivity].
    + destruct l as [|m q]; [unfold eval; cbn [sc terms eval_terms halfpow]; ring|].
      destruct (all_even_terms (m :: q)) eqn:He.
      * rewrite IH. rewrite (eval_terms_halve (m :: q) He). cbn [halfpow].
        transitivity ((half * two) * (halfpow s' * eval_terms (map (fun m0 => (fst m0, snd m0 / 2)) (m :: q))))%R; [rewrite half_two; ring | ring].
      * reflexivity.
Qed.
Lemma eval_mk s l : eval (mk s l) = (halfpow s * eval_terms l)%R.
Proof. unfold mk. rewrite eval_shrink, eval_normalize. reflexivity. Qed.

Theorem eval_padd x y : eval (padd x y) = (eval x + eval y)%R.
Proof.
  unfold padd. rewrite eval_mk, eval_app.
  rewrite <- (eval_lift (Nat.max (sc x) (sc y)) x) by lia.
  rewrite <- (eval_lift (Nat.max (sc x) (sc y)) y) by lia. ring.
Qed.
Lemma eval_mulmono a b : eval_mono (mulmono a b) = (eval_mono a * eval_mono b)%R.
Proof. unfold eval_mono, mulmono; simpl. rewrite ofZ_mul, expo_val_add, E_add. ring. Qed.
Lemma eval_map_mul a l : eval_terms (map (mulmono a) l) = (eval_mono a * eval_terms l)%R.
Proof. induction l as [|m q IH]; simpl; [ring | rewrite IH, eval_mulmono; ring]. Qed.
Theorem eval_pmul x y : eval (pmul x y) = (eval x * eval y)%R.
Proof.
  unfold pmul. rewrite eval_mk, halfpow_add. unfold eval.
  assert (H : eval_terms (flat_map (fun a => map (mulmono a) (terms y)) (terms x)) = (eval_terms (terms x) * eval_terms (terms y))%R).
  { induction (terms x) as [|a q IH]; simpl; [ring|]. rewrite eval_app, IH, eval_map_mul. ring. }
  rewrite H. ring.
Qed.
Theorem eval_pneg x : eval (pneg x) = (- eval x)%R.
Proof.
  unfold pneg, eval; simpl.
  assert (H : eval_terms (map (fun m => (fst m, - snd m)) (terms x)) = (- eval_terms (terms x))%R).
  { induction (terms x) as [|m q IH]; simpl; [ring|]. rewrite IH. unfold eval_mono; simpl. rewrite ofZ_opp. ring. }
  rewrite H. ring.
Qed.
Lemma expo_val_e0 : expo_val e0 = 0%Qc.
Proof. unfold expo_val, e0; cbn [c0 s1 s2 s3]. replace (z2qc 0) with 0%Qc by (apply Qc_is_canon; reflexivity). ring. Qed.
Theorem eval_pconst z : eval (pconst z) = ofZ z.
Proof.
  unfold pconst. rewrite eval_mk. cbn [halfpow eval_terms]. unfold eval_mono; cbn [fst snd].
  rewrite expo_val_e0, E_0. ring.
Qed.
Theorem eval_pE e : eval (pE e) = E (expo_val e).
Proof. unfold pE. rewrite eval_mk. cbn [halfpow eval_terms]. unfold eval_mono; cbn [fst snd]. rewrite ofZ_1. ring. Qed.
Theorem eval_phalf : eval phalf = half.
Proof.
  unfold phalf, eval; cbn [sc terms halfpow eval_terms]. unfold eval_mono; cbn [fst snd]. rewrite ofZ_1.
  rewrite expo_val_e0, E_0. ring.
Qed.
Theorem eval_psub x y : eval (psub x y) = (eval x - eval y)%R.
Proof. unfold psub. rewrite eval_padd, eval_pneg. ring. Qed.
Theorem peq_sound x y : peq x y = true -> eval x = eval y.
Proof.
  unfold peq, pzero. intro H.
  assert (Hz : eval (psub x y) = rO).
  { unfold eval. destruct (terms (psub x y)); [simpl; ring | discriminate]. }
  rewrite eval_psub in Hz.
  transitivity (eval x - eval y + eval y)%R; [ring | rewrite Hz; ring].
Qed.
Theorem eval_p0 : eval p0 = rO. Proof. unfold p0. rewrite eval_pconst. apply ofZ_0. Qed.
Theorem eval_p1 : eval p1 = rI. Proof. unfold p1. rewrite eval_pconst. apply ofZ_1. Qed.

(* conjugation *)
Lemma conj_0 : conj rO = rO.
Proof.
  pose proof (conj_add rO rO) as H. replace (rO + rO)%R with rO in H by ring.
  transitivity (conj rO + conj rO - conj rO)%R; [ring | rewrite <- H; ring].
Qed.
Lemma conj_opp a : conj (- a)%R = (- conj a)%R.
Proof.
  pose proof (conj_add a (- a)%R) as H. replace (a + - a)%R with rO in H by ring. rewrite conj_0 in H.
  transitivity (rO - conj a)%R; [rewrite H; ring | ring].
Qed.
Lemma conj_ofZ_pos p : conj (gen_phiPOS1 rI radd rmul p) = gen_phiPOS1 rI radd rmul p.
Proof. induction p as [p IH|p IH|]; cbn [gen_phiPOS1]; repeat (rewrite ?conj_add, ?conj_mul, ?IH, ?conj_1); reflexivity. Qed.
Lemma conj_ofZ z : conj (ofZ z) = ofZ z.
Proof.
  assert (Hs : forall p, gen_phiPOS rI radd rmul p = gen_phiPOS1 rI radd rmul p).
  { intro p. symmetry. apply (same_gen (Eqsth R) (Eq_ext radd rmul ropp) (Rth_ARth (Eqsth R) (Eq_ext radd rmul ropp) Rth)). }
  unfold ofZ. destruct z as [|p|p]; cbn [gen_phiZ].
  - apply conj_0.
  - rewrite Hs. apply conj_ofZ_pos.
  - rewrite conj_opp, Hs, conj_ofZ_pos. reflexivity.
Qed.
Lemma expo_val_neg e : expo_val (eneg e) = (- expo_val e)%Qc.
Proof. unfold expo_val, eneg; cbn [c0 s1 s2 s3]. rewrite !z2qc_opp. ring. Qed.
Lemma conj_halfpow n : conj (halfpow n) = halfpow n.
Proof. induction n as [|n IH]; cbn [halfpow]; [apply conj_1 | rewrite conj_mul, conj_half, IH; reflexivity]. Qed.
Theorem eval_pconj x : eval (pconj x) = conj (eval x).
Proof.
  unfold pconj. rewrite eval_mk. unfold eval. rewrite conj_mul, conj_halfpow. f_equal.
  induction (terms x) as [|m q IH]; cbn [map eval_terms]; [symmetry; apply conj_0|].
  rewrite conj_add, <- IH. f_equal. unfold eval_mono; cbn [fst snd].
  rewrite conj_mul, conj_ofZ, conj_E, expo_val_neg. reflexivity.
Qed.
End Abstract.
