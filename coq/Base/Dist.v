(* Dist.v -- SPEC: exact rational distribution of the XOR of independently sampled channels (C07, C02).

   A channel is a probability table over the outcomes idx = 0 .. 2^k-1 together with k column ids; bit i of
   the sampled outcome selects row `cols[i]` of the signature matrix `sigs` (rows as N bitmasks).  The value
   contributed by an outcome is the XOR of the selected rows.  `fdist chs sigs v` is the total probability, over
   ALL joint outcomes of independently sampled channels, that the XOR of all contributions equals v.
   Everything is exact (Coq's Q, compared with ==).  The second half of the file is a small library about finite
   sums over Q used by the proofs; it does not depend on tsim. *)
From Coq Require Import List NArith QArith Bool Arith Lia Permutation Setoid Morphisms.
Import ListNotations.
Open Scope Q_scope.

Definition channel := (list Q * list nat)%type.
Definition ch_probs (c : channel) : list Q := fst c.
Definition ch_cols (c : channel) : list nat := snd c.

(* well-formed: a table over k bits has 2^k entries *)
Definition wf_channel (c : channel) : Prop := length (ch_probs c) = (2 ^ length (ch_cols c))%nat.

(* a probability table sums to one (needed only where a channel that touches no output is dropped) *)
Definition qsum (l : list Q) : Q := fold_right Qplus 0 l.
Definition normalized (c : channel) : Prop := qsum (ch_probs c) == 1.

(* row c of the signature matrix; ids outside the matrix select the zero row *)
Definition row (sigs : list N) (c : nat) : N := nth c sigs 0%N.

(* XOR of the rows selected by the bits of idx: bit 0 of idx selects the first row, bit 1 the second, ... *)
Fixpoint sig_rows (rows : list N) (idx : nat) : N :=
  match rows with
  | [] => 0%N
  | r :: rs => N.lxor (if Nat.odd idx then r else 0%N) (sig_rows rs (Nat.div2 idx))
  end.
Definition sig_of (sigs : list N) (cols : list nat) (idx : nat) : N := sig_rows (map (row sigs) cols) idx.

(* all joint outcomes: one table index per channel *)
Fixpoint outcomes (chs : list channel) : list (list nat) :=
  match chs with
  | [] => [[]]
  | ch :: r => flat_map (fun i => map (cons i) (outcomes r)) (seq 0 (length (ch_probs ch)))
  end.
(* probability of a joint outcome: channels are independent *)
Fixpoint oprob (chs : list channel) (o : list nat) : Q :=
  match chs, o with
  | ch :: r, i :: o' => nth i (ch_probs ch) 0 * oprob r o'
  | _, _ => 1
  end.
(* value of a joint outcome: XOR of all selected rows *)
Fixpoint osig (sigs : list N) (chs : list channel) (o : list nat) : N :=
  match chs, o with
  | ch :: r, i :: o' => N.lxor (sig_of sigs (ch_cols ch) i) (osig sigs r o')
  | _, _ => 0%N
  end.

Definition fdist (chs : list channel) (sigs : list N) (v : N) : Q :=
  qsum (map (fun o => if N.eqb (osig sigs chs o) v then oprob chs o else 0) (outcomes chs)).

(* pushforward of one table through its signature map *)
Definition push (ch : channel) (sigs : list N) (v : N) : Q := fdist [ch] sigs v.

(* ------------------------------------------------------------------------------------------------ *)
(* finite sums over Q                                                                                *)
(* ------------------------------------------------------------------------------------------------ *)

Lemma qsum_nil : qsum [] = 0.
Proof. reflexivity. Qed.
Lemma qsum_cons x l : qsum (x :: l) = x + qsum l.
Proof. reflexivity. Qed.

Lemma qsum_app l1 l2 : qsum (l1 ++ l2) == qsum l1 + qsum l2.
Proof.
  induction l1 as [|x l1 IH]; cbn [app].
  - rewrite qsum_nil. ring.
  - rewrite !qsum_cons, IH. ring.
Qed.

Lemma qsum_map_ext {A} (f g : A -> Q) l :
  (forall x, In x l -> f x == g x) -> qsum (map f l) == qsum (map g l).
Proof.
  induction l as [|x l IH]; intros H; cbn [map].
  - reflexivity.
  - rewrite !qsum_cons. rewrite (H x (or_introl eq_refl)), IH; [reflexivity|].
    intros y Hy. apply H. right. exact Hy.
Qed.

Lemma qsum_map_zero {A} (f : A -> Q) l : (forall x, In x l -> f x == 0) -> qsum (map f l) == 0.
Proof.
  induction l as [|x l IH]; intros H; cbn [map].
  - reflexivity.
  - rewrite qsum_cons. rewrite (H x (or_introl eq_refl)), IH; [ring|].
    intros y Hy. apply H. right. exact Hy.
Qed.

Lemma qsum_map_scale {A} (c : Q) (f : A -> Q) l : qsum (map (fun x => c * f x) l) == c * qsum (map f l).
Proof.
  induction l as [|x l IH]; cbn [map].
  - rewrite qsum_nil. ring.
  - rewrite !qsum_cons, IH. ring.
Qed.

Lemma qsum_map_plus {A} (f g : A -> Q) l :
  qsum (map (fun x => f x + g x) l) == qsum (map f l) + qsum (map g l).
Proof.
  induction l as [|x l IH]; cbn [map].
  - rewrite qsum_nil. ring.
  - rewrite !qsum_cons, IH. ring.
Qed.

Lemma qsum_swap {A B} (f : A -> B -> Q) la lb :
  qsum (map (fun a => qsum (map (fun b => f a b) lb)) la) == qsum (map (fun b => qsum (map (fun a => f a b) la)) lb).
Proof.
  induction la as [|a la IH]; cbn [map].
  - rewrite qsum_nil. symmetry. apply qsum_map_zero. intros; reflexivity.
  - rewrite qsum_cons, IH. rewrite <- qsum_map_plus. apply qsum_map_ext. intros b _. rewrite qsum_cons. reflexivity.
Qed.

Lemma qsum_flat_map {A B} (f : B -> Q) (g : A -> list B) l :
  qsum (map f (flat_map g l)) == qsum (map (fun x => qsum (map f (g x))) l).
Proof.
  induction l as [|x l IH]; cbn [flat_map map].
  - reflexivity.
  - rewrite map_app, qsum_app, qsum_cons, IH. reflexivity.
Qed.

(* a Kronecker delta picks one term of a sum over a range *)
Lemma qsum_delta_seq (f : nat -> Q) t s m :
  (s <= t < s + m)%nat ->
  qsum (map (fun j => if Nat.eqb t j then f j else 0) (seq s m)) == f t.
Proof.
  revert s. induction m as [|m IH]; intros s H; [lia|].
  cbn [seq map]. rewrite qsum_cons.
  destruct (Nat.eqb_spec t s) as [->|Hne].
  - rewrite qsum_map_zero; [ring|].
    intros j Hj. apply in_seq in Hj. destruct (Nat.eqb_spec s j); [lia|reflexivity].
  - rewrite IH by lia. ring.
Qed.

Lemma qsum_perm l l' : Permutation l l' -> qsum l == qsum l'.
Proof.
  induction 1 as [|x l l' _ IH|x y l|l l' l'' _ IH1 _ IH2].
  - reflexivity.
  - rewrite !qsum_cons, IH. reflexivity.
  - rewrite !qsum_cons. ring.
  - rewrite IH1. exact IH2.
Qed.

Lemma qsum_filter {A} (P : A -> bool) (f : A -> Q) l :
  qsum (map f (filter P l)) == qsum (map (fun x => if P x then f x else 0) l).
Proof.
  induction l as [|x l IH]; cbn [filter map].
  - reflexivity.
  - rewrite qsum_cons. destruct (P x); cbn [map]; rewrite ?qsum_cons, IH; ring.
Qed.

(* ------------------------------------------------------------------------------------------------ *)
(* fdist unfolds channel by channel                                                                  *)
(* ------------------------------------------------------------------------------------------------ *)

(* expectation of a test function G of the contribution of one channel *)
Definition hsum (sigs : list N) (ch : channel) (G : N -> Q) : Q :=
  qsum (map (fun idx => nth idx (ch_probs ch) 0 * G (sig_of sigs (ch_cols ch) idx)) (seq 0 (length (ch_probs ch)))).

Lemma fdist_nil sigs v : fdist [] sigs v = (if N.eqb 0 v then 1 else 0) + 0.
Proof. reflexivity. Qed.

Lemma lxor_eqb_move (a b v : N) : N.eqb (N.lxor a b) v = N.eqb b (N.lxor v a).
Proof.
  destruct (N.eqb_spec (N.lxor a b) v) as [H|H]; destruct (N.eqb_spec b (N.lxor v a)) as [H'|H']; try reflexivity; exfalso.
  - apply H'. rewrite <- H. rewrite (N.lxor_comm a b), N.lxor_assoc, N.lxor_nilpotent, N.lxor_0_r. reflexivity.
  - apply H. rewrite H'. rewrite (N.lxor_comm v a), <- N.lxor_assoc, N.lxor_nilpotent, N.lxor_0_l. reflexivity.
Qed.

Lemma fdist_cons ch r sigs v :
  fdist (ch :: r) sigs v == hsum sigs ch (fun w => fdist r sigs (N.lxor v w)).
Proof.
  unfold fdist at 1, hsum. cbn [outcomes].
  rewrite qsum_flat_map. apply qsum_map_ext. intros i _.
  rewrite map_map. cbn [osig oprob].
  unfold fdist. rewrite <- qsum_map_scale. apply qsum_map_ext. intros o _.
  rewrite lxor_eqb_move.
  destruct (N.eqb (osig sigs r o) (N.lxor v (sig_of sigs (ch_cols ch) i))); [reflexivity|ring].
Qed.
