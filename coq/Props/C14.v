(* C14 -- randomness discipline.  Statements only; proofs live in Proofs/KeyFlowProofs.v.

   `run seed h` interprets the key programs REGENERATED from /repo/src/tsim/sampler.py and noise/channels.py
   (gen/Gen_keyflow.v) on a sampler created with `seed` and then called according to the history h; every
   call carries an arbitrary list of numbers that its loops read (numbers of batches, channels, components,
   outputs), so `forall h` covers all shot counts, batch sizes and sampler structures.  `st_trace` is the log
   of jax.random calls: EvRoot k / EvSplit k n / EvConsume k, with keys as tree paths (Base/KeyTree.v). *)
From Coq Require Import ZArith String List Bool Arith.
Import ListNotations.
Require Import TV.Base.KeyTree TV.gen.Gen_keyflow TV.Model.KeyFlow TV.Proofs.KeyFlowProofs.

(* For all seeds and all histories:
   - no key is used twice (split or drawn from);  drawn keys are pairwise distinct, split keys are pairwise
     distinct, and no key is both drawn from and split;
   - at every position of the log the key used there has not been used before and is a root (the seed, or
     the seed derived from an EARLIER draw) or child i < n of an EARLIER split(k, n);
   - the two stored keys (_CompiledSamplerBase._key, ChannelSampler._key) are unused, legitimate and
     different, so the next call starts from fresh keys. *)
Theorem C14_fresh : forall seed h,
  let st := run seed h in
  let t := st_trace st in
  NoDup (used t) /\
  NoDup (consumed t) /\ NoDup (splits t) /\ (forall k, In k (consumed t) -> ~ In k (splits t)) /\
  (forall t1 e t2, t = t1 ++ e :: t2 -> forall k, In k (ev_used e) -> ~ In k (used t1) /\ origin_ok t1 k) /\
  (forall k, In k (st_env st gen_sampler_key) \/ In k (st_env st gen_channel_key) -> ~ In k (used t) /\ origin_ok t k) /\
  (forall k, In k (st_env st gen_sampler_key) -> ~ In k (st_env st gen_channel_key)).
Proof. exact keys_fresh. Qed.

(* the linearity checker that carries the proof: whenever it accepts a statement, executing the statement
   from a state satisfying the invariant for the available variables G yields a state satisfying it for G' *)
Theorem C14_checker_sound : forall s G G' st, check s G = Some G' -> Inv G st -> Inv G' (exec s st).
Proof. exact check_sound. Qed.

Theorem C14_generated_programs_accepted :
  checks_to prog_init [gen_seed_var] = true /\ forall e, checks_to (prog_of e) stored = true.
Proof. exact (conj gen_init_checks gen_entry_checks). Qed.

(* reproducibility: the log -- and with it every draw, for any PRNG `prng : key -> A` -- is a function of
   (seed, history) (it is a Coq function of nothing else), and what earlier calls drew is not affected by
   later calls *)
Theorem C14_repro : forall (A : Type) (prng : key -> A) seed h1 h2,
  exists later, draws prng (run seed (h1 ++ h2)) = draws prng (run seed h1) ++ later.
Proof. exact draws_prefix. Qed.

(* all keys of a sampler descend from its seed, so samplers with different seeds share no key *)
Theorem C14_distinct_seeds : forall s1 s2 h1 h2, s1 <> s2 ->
  forall e1 e2, In e1 (st_trace (run s1 h1)) -> In e2 (st_trace (run s2 h2)) -> ev_key e1 <> ev_key e2.
Proof. exact distinct_seeds_disjoint. Qed.

(* non-vacuity: a concrete history (2 batches, 2 channels, components with 1 and 2 outputs; then
   probability_of) really draws keys, and the stored keys are single keys *)
Example C14_history_inhabited :
  let st := run 5 [(ESampleMeasurement, sample_counts 2 2 [1; 2]); (EProbabilityOf, probability_of_counts 2)] in
  length (st_trace st) = 30 /\ length (consumed (st_trace st)) = 13 /\
  st_env st gen_sampler_key = [Child (Child (Child (RSeed 5) 0) 0) 0] /\
  st_env st gen_channel_key = [Child (Child (Child (RDerived (Child (RSeed 5) 1)) 0) 0) 0].
Proof. vm_compute. repeat split; reflexivity. Qed.
