(* C12 -- constructs tsim cannot simulate are rejected, never silently reinterpreted.
   Statements only; proofs live in Proofs/ParseClassifyProofs.v.

   `stim_vocab` (gen/Gen_stim_vocab.v) is the vocabulary of the INSTALLED Stim, probed on every run: every name and
   alias x every target-kind pattern its parser accepts x minimal / maximal argument count, with the true role of
   every target.  `classify` (Model/ParseClassify.v) is driven by facts regenerated from tsim's source on every run
   (gen/Gen_parse_facts.v).  `row_ok r`: the parser raises on r, or it uses every target of r as what it means in
   Stim (roles equal, Stim itself accepts the instruction) and the arguments reach the gate function whenever they
   carry semantics.  The domain is finite and enumerated completely (bound: the installed Stim's vocabulary with the
   pattern lengths stated in harness/props/c12.py).  No row is excluded: there is no known finding for C12. *)
From Coq Require Import String List Bool Arith.
Import ListNotations.
Require Import TV.Model.ParseTypes TV.gen.Gen_parse_facts TV.gen.Gen_stim_vocab TV.Model.ParseClassify
               TV.Proofs.ParseClassifyProofs.
Open Scope string_scope.

Theorem C12_table : forallb ok stim_vocab = true.
Proof. exact vocab_all_ok. Qed.

(* the same, for every row of the installed vocabulary, with `ok` spelled out *)
Theorem C12_every_row : forall r, In r stim_vocab ->
  classify r = Reject \/
  exists consumed, classify r = Accept (v_roles r) consumed /\ v_valid r = true /\
                   (v_args_sem r = true -> v_nargs r <> 0%nat -> consumed = true).
Proof. exact vocab_every_row. Qed.

(* beyond the probed vocabulary: ANY name that is neither skipped, special-cased nor in GATE_TABLE is rejected *)
Theorem C12_unknown_names_rejected : forall r,
  v_block r = false -> mem_str (v_canon r) skipped_names = false -> find_special (v_canon r) = None ->
  assoc (v_canon r) gate_table = None -> classify r = Reject.
Proof. exact unknown_name_rejected. Qed.

(* ANY instruction of the dispatch table with a sweep-bit target anywhere is rejected *)
Theorem C12_sweep_never_dispatched : forall r,
  v_block r = false -> mem_str (v_canon r) skipped_names = false -> find_special (v_canon r) = None ->
  In KSWEEP (v_kinds r) -> classify r = Reject.
Proof. exact dispatch_rejects_sweep. Qed.

(* DETECTOR / OBSERVABLE_INCLUDE with ANY target that is not a measurement-record target is rejected *)
Theorem C12_annotations_take_records_only : forall r k,
  v_block r = false -> (v_canon r = "DETECTOR" \/ v_canon r = "OBSERVABLE_INCLUDE") ->
  In k (v_kinds r) -> mem_attr ARecord (kind_attrs k) = false -> classify r = Reject.
Proof. exact annotation_rejects_non_record. Qed.

(* non-vacuity: the vocabulary is large, and contains both accepted rows with targets and rejected rows *)
Example C12_vocabulary_large : Nat.leb 1000 (length stim_vocab) = true.
Proof. exact vocab_large. Qed.
Example C12_vocabulary_mixed :
  (exists r, In r stim_vocab /\ rejects r = false /\ v_kinds r <> []) /\ (exists r, In r stim_vocab /\ rejects r = true).
Proof. exact vocab_has_accepted_and_rejected. Qed.
