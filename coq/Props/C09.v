(* C09 -- exact scalar arithmetic is exact.  Statements only; proofs live in Proofs/ExactScalarProofs.v.
   `scalar_mul`, `unit_phases`, `one_plus_*` are regenerated from /repo/src on every run. *)
From Coq Require Import ZArith List Ring_theory.
Import ListNotations.
Require Import TV.Base.Wrap32 TV.Base.D8 TV.gen.Gen_exact_scalar TV.Model.ExactScalar TV.Proofs.ExactScalarProofs TV.Proofs.CliffordProd.
Open Scope Z_scope.

(* multiplication is the product of Z[w]/(w^4+1), in every commutative ring with w^4 = -1 (e.g. C, w = e^{i pi/4}) *)
Theorem C09_mul_is_ring_product :
  forall (R : Type) (rO rI : R) (radd rmul rsub : R -> R -> R) (ropp : R -> R),
  ring_theory rO rI radd rmul rsub ropp eq ->
  forall w : R, rmul (rmul w w) (rmul w w) = ropp rI ->
  forall x y : q4, den R rO rI radd rmul ropp w (scalar_mul x y)
                 = rmul (den R rO rI radd rmul ropp w x) (den R rO rI radd rmul ropp w y).
Proof. exact den_scalar_mul. Qed.

Theorem C09_mul_assoc : forall x y z, scalar_mul (scalar_mul x y) z = scalar_mul x (scalar_mul y z).
Proof. exact scalar_mul_assoc. Qed.
Theorem C09_mul_comm : forall x y, scalar_mul x y = scalar_mul y x.
Proof. exact scalar_mul_comm. Qed.
Theorem C09_mul_unit : forall x, scalar_mul identity_d8 x = x.
Proof. exact scalar_mul_one_l. Qed.

(* int32: the machine product is the exact product reduced mod 2^32, for all inputs *)
Theorem C09_mul32_is_exact_mod_2_32 : forall x y, mul32 (q4_map wrap32 x) (q4_map wrap32 y) = q4_map wrap32 (scalar_mul x y).
Proof. exact mul32_wrap. Qed.

(* guard under which no wrap happens (1-norm is sub-multiplicative) *)
Theorem C09_norm1_submultiplicative : forall x y, norm1 (scalar_mul x y) <= norm1 x * norm1 y.
Proof. exact norm1_scalar_mul. Qed.
Theorem C09_mul_nowrap : forall x y, norm1 x * norm1 y < H32 -> mul32 x y = scalar_mul x y.
Proof. exact mul32_exact. Qed.
Theorem C09_prod_nowrap : forall l acc,
  (forall pre, (exists suf, l = pre ++ suf) -> fold_left Z.mul (map norm1 pre) (norm1 acc) < H32) ->
  (forall z, In z l -> 1 <= norm1 z) ->
  fold_left mul32 l acc = fold_left scalar_mul l acc.
Proof. exact fold_mul32_exact. Qed.

(* products: any bracketing chosen by the associative scan equals the ordered fold *)
Theorem C09_prod_any_bracketing : forall t, tree_eval32 t =
  match tree4_leaves t with [] => q4_one | x :: r => fold_left mul32 (map (q4_map wrap32) r) (q4_map wrap32 x) end.
Proof. exact tree_eval32_fold. Qed.
Theorem C09_prod_is_ring_product :
  forall (R : Type) (rO rI : R) (radd rmul rsub : R -> R -> R) (ropp : R -> R),
  ring_theory rO rI radd rmul rsub ropp eq ->
  forall w : R, rmul (rmul w w) (rmul w w) = ropp rI ->
  forall l, den R rO rI radd rmul ropp w (fst (esa_prod_exact l))
          = rprod R rI rmul (map (fun x => den R rO rI radd rmul ropp w (fst x)) l).
Proof. exact den_prod_exact. Qed.

(* power-aligned sums *)
Theorem C09_sum_is_ring_sum :
  forall (R : Type) (rO rI : R) (radd rmul rsub : R -> R -> R) (ropp : R -> R),
  ring_theory rO rI radd rmul rsub ropp eq ->
  forall w : R,
  forall l s m, esa_sum_exact l = Some (s, m) ->
    den R rO rI radd rmul ropp w s
      = rsum R rO radd (map (fun x => rmul (ofZ R rO rI radd rmul ropp (2 ^ (snd x - m))) (den R rO rI radd rmul ropp w (fst x))) l)
    /\ (forall x, In x l -> q4_is_zero (fst x) = false -> m <= snd x) /\ In m (map snd l).
Proof. exact den_sum_exact. Qed.

(* reduction never changes the represented value, ends irreducible, and terminates *)
Theorem C09_reduce_sound : forall n c p c' p', reduce_fuel n (c, p) = Some (c', p') ->
  in32 p -> p + Z.of_nat n < H32 ->
  exists k, 0 <= k <= Z.of_nat n /\ p' = p + k /\ c = q4_scale (2 ^ k) c' /\ reducible c' = false.
Proof. exact reduce_fuel_sound. Qed.
Theorem C09_reduce_terminates : forall n c p, norm1 c < 2 ^ Z.of_nat n -> reduce_fuel n (c, p) <> None.
Proof. exact reduce_fuel_total. Qed.

(* lookup tables *)
Theorem C09_tables :
  forall (R : Type) (rO rI : R) (radd rmul rsub : R -> R -> R) (ropp : R -> R),
  ring_theory rO rI radd rmul rsub ropp eq ->
  forall w : R, rmul (rmul w w) (rmul w w) = ropp rI ->
  forall k, (k < 8)%nat ->
    den R rO rI radd rmul ropp w (unit_phase k) = wpow R rI rmul w k /\
    den R rO rI radd rmul ropp w (one_plus_phase k) = radd rI (wpow R rI rmul w k).
Proof. intros. split; [eapply den_unit_phase | eapply den_one_plus_phase]; eassumption. Qed.

Theorem C09_reduce_total_int32 : forall c p, q4_in32 c -> reduce (c, p) <> None.
Proof. exact reduce_total_int32. Qed.

(* prod(): stabilizer-type factor lists (raw table values 2, 0, i^k, i^k(1+i), all powers 0) of ANY length, in ANY
   bracketing the associative scan may choose, never wrap and give exactly the ordered product:
   value = 2^p * c.  (`prod_reduces` is regenerated from the source: it is true iff the scan reduces after
   every multiplication; reverting that makes this theorem unprovable.) *)
Theorem C09_prod_stabilizer_exact_any_bracketing : prod_reduces = true -> forall t,
  Forall (fun x => In (fst x) cliff_raw /\ snd x = 0) (tree_leaves t) ->
  Z.of_nat (tree_nodes t) < 2 ^ 28 ->
  exists c p, tree_eval t = Some (c, p) /\ In c cliff_raw /\ 0 <= p <= 2 * Z.of_nat (tree_nodes t) /\
              q4_scale (2 ^ p) c = fold_left scalar_mul (map fst (tree_leaves t)) q4_one.
Proof. exact tree_cliff_exact. Qed.
Theorem C09_prod_reduces_in_source : prod_reduces = true.
Proof. reflexivity. Qed.
Theorem C09_fold_is_a_bracketing : forall l acc a, tree_eval acc = Some a -> fold_combine l a = tree_eval (left_tree acc l).
Proof. exact fold_combine_left_tree. Qed.

(* the unguarded clause "no operation silently wraps" is false of the faithful int32 model for non-Clifford
   growth: 64 factors (1 + w) -- recorded as a known finding *)
Theorem C09_wrap_refuted :
  exists r, esa_prod (repeat (one_plus_w, 0) 64) = Some r /\
            value_of r <> fold_left scalar_mul (repeat one_plus_w 64) q4_one.
Proof. exact prod_wraps_witness. Qed.

(* non-vacuity: the guard of C09_prod_nowrap is met by a concrete 20-factor product of (1 + w) *)
Example C09_guard_inhabited : fold_left mul32 (repeat (1, 1, 0, 0) 20) q4_one = fold_left scalar_mul (repeat (1, 1, 0, 0) 20) q4_one.
Proof. vm_compute. reflexivity. Qed.
