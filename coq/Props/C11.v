(* C11 -- diagram surgery (decomposition, components, plugging) preserves value.  Statements only.
   `decompose`, `find_stab`, `find_stab_passes` are REGENERATED from /repo/src/tsim/compile/stabrank.py
   (gen/Gen_decompose.v); `plug_*` from compile/pipeline.py (gen/Gen_sampler_dispatch.v).  pyzx_param's operations
   (full_reduce, replace_u3_states, replace_magic_states, is_zero, tensor of a disjoint union) are ORACLES: they appear
   as universally quantified functions with explicit hypotheses, validated numerically by harness/props/c11.py. *)
From Coq Require Import QArith ZArith List Bool Arith Permutation Sorting.Sorted.
Import ListNotations.
Require Import TV.Base.ListPerm TV.gen.Gen_decompose TV.gen.Gen_sampler_dispatch TV.Model.Decompose TV.Model.Components TV.Model.Sampler
               TV.Proofs.DecomposeProofs TV.Proofs.ComponentsProofs TV.Proofs.SamplerProofs.
Open Scope nat_scope.

(* find_stab: for every parameter assignment the returned scalar diagrams sum to the value of the input; the list is
   never empty; every pruned term has value 0; the results contain no non-Clifford phase; no fuel exhaustion. *)
Theorem C11_decompose :
  forall (G P V : Type) (vzero : V) (vadd : V -> V -> V),
  (forall x, vadd vzero x = x) -> (forall x, vadd x vzero = x) -> (forall x y z, vadd x (vadd y z) = vadd (vadd x y) z) ->
  forall (val : P -> G -> V) (u3_count tcount : G -> nat) (replace_u3 replace_magic : G -> list G) (reduce : G -> G) (is_zero : G -> bool),
  (* oracles *)
  (forall rho g, val rho (reduce g) = val rho g) ->
  (forall rho g, is_zero g = true -> val rho g = vzero) ->
  (forall rho g, u3_count g <> 0 -> vsum V vzero vadd (map (val rho) (replace_u3 g)) = val rho g) ->
  (forall g x, u3_count g <> 0 -> In x (replace_u3 g) -> u3_count (reduce x) < u3_count g) ->
  (forall g, u3_count g <> 0 -> replace_u3 g <> []) ->
  (forall rho g, u3_count g = 0 -> tcount g <> 0 -> vsum V vzero vadd (map (val rho) (replace_magic g)) = val rho g) ->
  (forall g x, u3_count g = 0 -> tcount g <> 0 -> In x (replace_magic g) -> tcount (reduce x) < tcount g) ->
  (forall g x, u3_count g = 0 -> tcount g <> 0 -> In x (replace_magic g) -> u3_count (reduce x) = 0) ->
  (forall g, u3_count g = 0 -> tcount g <> 0 -> replace_magic g <> []) ->
  forall g, exists n0, forall fuel, n0 <= fuel ->
    exists r pruned,
      find_stab G u3_count tcount replace_u3 replace_magic reduce is_zero fuel g = Some (r, pruned) /\
      (forall rho, vsum V vzero vadd (map (val rho) r) = val rho g) /\
      r <> [] /\
      Forall (fun x => forall rho, val rho x = vzero) pruned /\
      Forall (fun x => tcount x = 0 /\ u3_count x = 0) r.
Proof. exact find_stab_correct. Qed.

(* one pass of _decompose with arbitrary count/replace functions and an invariant the pass maintains *)
Theorem C11_decompose_pass :
  forall (G P V : Type) (vzero : V) (vadd : V -> V -> V),
  (forall x, vadd vzero x = x) -> (forall x, vadd x vzero = x) -> (forall x y z, vadd x (vadd y z) = vadd (vadd x y) z) ->
  forall (val : P -> G -> V) (count : G -> nat) (replace : G -> list G) (reduce : G -> G) (is_zero : G -> bool) (Inv : G -> Prop),
  (forall rho g, val rho (reduce g) = val rho g) ->
  (forall rho g, is_zero g = true -> val rho g = vzero) ->
  (forall rho g, Inv g -> count g <> 0 -> vsum V vzero vadd (map (val rho) (replace g)) = val rho g) ->
  (forall g x, Inv g -> count g <> 0 -> In x (replace g) -> count (reduce x) < count g) ->
  (forall g x, Inv g -> count g <> 0 -> In x (replace g) -> Inv (reduce x)) ->
  (forall g, Inv g -> count g <> 0 -> replace g <> []) ->
  forall graphs fuel, pass_fuel count graphs <= fuel -> Forall Inv graphs ->
    exists r p, decompose G count replace reduce is_zero fuel graphs = Some (r, p) /\
      (forall rho, vsum V vzero vadd (map (val rho) r) = vsum V vzero vadd (map (val rho) graphs)) /\
      (graphs <> [] -> r <> []) /\
      Forall (fun x => forall rho, val rho x = vzero) p /\
      Forall (fun x => count x = 0 /\ Inv x) r.
Proof. exact decompose_pass_fuel. Qed.

(* connected_components on any finite undirected graph: partition, no crossing edge, output ownership and order *)
Theorem C11_components : forall g : zgraph,
  (forall v w, In v (g_verts g) -> In w (g_nbrs g v) -> In w (g_verts g)) ->
  (forall v w, In w (g_nbrs g v) -> In v (g_nbrs g w)) ->
  NoDup (g_verts g) -> NoDup (g_outs g) -> (forall v, In v (g_outs g) -> In v (g_verts g)) ->
  exists ccs, connected_components g = Some ccs /\
    Permutation (concat (map fst ccs)) (g_verts g) /\
    Forall (fun cc => fst cc <> [] /\ forall u w, In u (fst cc) -> In w (g_nbrs g u) -> In w (fst cc)) ccs /\
    Permutation (concat (map snd ccs)) (seq 0 (length (g_outs g))) /\
    Forall (fun cc =>
              StronglySorted le (snd cc) /\
              (forall i, In i (snd cc) <-> i < length (g_outs g) /\ In (nth i (g_outs g) 0) (fst cc)) /\
              map (fun i => nth i (g_outs g) 0) (snd cc) = sub_outputs (g_outs g) (fst cc)) ccs.
Proof. exact connected_components_correct. Qed.

(* with the disjoint-union oracle: the tensor is the product of the component tensors, each reading the global output
   bits at its output_indices, in that order *)
Theorem C11_components_tensor : forall g : zgraph,
  (forall v w, In v (g_verts g) -> In w (g_nbrs g v) -> In w (g_verts g)) ->
  (forall v w, In w (g_nbrs g v) -> In v (g_nbrs g w)) ->
  NoDup (g_verts g) -> NoDup (g_outs g) ->
  forall (V : Type) (vone : V) (vmul : V -> V -> V) (tens : list nat -> list bool -> V),
  (forall parts, Permutation (concat parts) (g_verts g) -> Forall (closed_set (g_nbrs g)) parts ->
     forall x, length x = length (g_outs g) ->
       tens (g_verts g) x = vprod V vone vmul (map (fun s => tens s (restrict x (out_positions (g_outs g) s))) parts)) ->
  exists ccs, connected_components g = Some ccs /\
    forall x, length x = length (g_outs g) ->
      tens (g_verts g) x = vprod V vone vmul (map (fun cc => tens (fst cc) (restrict x (snd cc))) ccs).
Proof. exact components_tensor. Qed.

(* plugging the first k outputs yields exactly the marginal weight of that prefix (= C06_plug) *)
Theorem C11_plug : forall (T : tensor) n k ms, (k <= n)%nat -> length ms = k ->
  length (plug_effect n k) = n /\ plug_power n k ms = 0%Z /\ (plug_coeff T n k ms == marg T n ms)%Q.
Proof. exact plug_correct. Qed.

(* ---- non-vacuity: a toy instance satisfies every oracle hypothesis of C11_decompose, and the model runs ---- *)
Definition toyG := (nat * nat * nat)%type.                 (* (#arbitrary-angle phases, #T phases, weight) *)
Definition t_u3 (g : toyG) : nat := fst (fst g).
Definition t_tc (g : toyG) : nat := fst (fst g) + snd (fst g).
Definition t_rep_u3 (g : toyG) : list toyG := match g with (S a, b, w) => [(a, b, w); (a, b, 2 * w)] | _ => [] end.
Definition t_rep_m (g : toyG) : list toyG := match g with (a, S b, w) => [(a, b, w); (a, b, 0); (a, b, 4 * w)] | _ => [] end.
Definition t_zero (g : toyG) : bool := Nat.eqb (snd g) 0.
Definition t_val (_ : unit) (g : toyG) : nat := 3 ^ fst (fst g) * 5 ^ snd (fst g) * snd g.
Example C11_model_runs :
  match find_stab toyG t_u3 t_tc t_rep_u3 t_rep_m (fun g => g) t_zero 6 (1, 2, 1) with
  | Some (r, pruned) => (length r, length pruned, fold_right plus 0 (map (t_val tt) r)) = (8, 6, t_val tt (1, 2, 1))
  | None => False
  end.
Proof. vm_compute. reflexivity. Qed.
Example C11_hyp_inhabited :
  (forall rho g, t_zero g = true -> t_val rho g = 0) /\
  (forall rho g, t_u3 g <> 0 -> vsum nat 0 plus (map (t_val rho) (t_rep_u3 g)) = t_val rho g) /\
  (forall g x, t_u3 g <> 0 -> In x (t_rep_u3 g) -> t_u3 x < t_u3 g) /\
  (forall rho g, t_u3 g = 0 -> t_tc g <> 0 -> vsum nat 0 plus (map (t_val rho) (t_rep_m g)) = t_val rho g) /\
  (forall g x, t_u3 g = 0 -> t_tc g <> 0 -> In x (t_rep_m g) -> t_tc x < t_tc g /\ t_u3 x = 0) /\
  (forall g, t_u3 g = 0 -> t_tc g <> 0 -> t_rep_m g <> []).
Proof.
  unfold t_zero, t_val, t_u3, t_tc, t_rep_u3, t_rep_m, vsum.
  repeat split.
  - intros rho [[a b] w] H. cbn [fst snd] in *. apply Nat.eqb_eq in H. subst w. apply Nat.mul_0_r.
  - intros rho [[[|a] b] w] H; cbn [fst snd] in *; [congruence|]. cbn [map fold_right fst snd]. rewrite Nat.pow_succ_r'. ring.
  - intros [[[|a] b] w] x H Hx; cbn [fst snd] in *; [congruence|]. destruct Hx as [Hx|[Hx|[]]]; subst x; cbn [fst snd]; apply Nat.lt_succ_diag_r.
  - intros rho [[a [|b]] w] H0 H; cbn [fst snd] in *; [subst a; cbn in H; congruence|]. cbn [map fold_right fst snd]. rewrite Nat.pow_succ_r'. ring.
  - destruct g as [[a [|b]] w]; cbn [fst snd] in *; [subst a; cbn in H0; congruence|].
    destruct H1 as [Hx|[Hx|[Hx|[]]]]; subst x; cbn [fst snd]; rewrite Nat.add_succ_r; apply Nat.lt_succ_diag_r.
  - destruct g as [[a [|b]] w]; cbn [fst snd] in *; [subst a; cbn in H0; congruence|].
    destruct H1 as [Hx|[Hx|[Hx|[]]]]; subst x; cbn [fst snd]; exact H.
  - intros [[a [|b]] w] H0 H; cbn [fst snd] in *; [subst a; cbn in H; congruence | discriminate].
Qed.
Example C11_components_example :
  connected_components (graph_of_adj [(5, [7]); (2, []); (7, [5; 9]); (9, [7]); (4, [])] [9; 2; 5])
  = Some [([5; 7; 9], [0; 2]); ([2], [1]); ([4], [])].
Proof. vm_compute. reflexivity. Qed.
