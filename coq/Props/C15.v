(* C15 -- program text round-trips and shorthand expands faithfully.  Statements only; proofs are in
   Proofs/ProgramTextProofs.v (and the generic matcher facts in Proofs/RegexProofs.v).

   shorthand_to_stim / stim_to_shorthand / parse_parametric_tag are the model Model/ProgramText.v running the
   character-level `re` model Model/Regex.v on the patterns, replacement templates and substitution order
   REGENERATED from tsim/utils/program_text.py and tsim/core/parse.py (gen/Gen_regex.v).  Vocabulary
   (lit_shape = the literal grammar [-+]?[\d.]+, dec_body = which of them are decimal numerals and their
   mantissa/scale, tail_plain / tail_ok, rot_* / u3_* text pieces, printed_line, triggers) is in Spec/TextSpec.v.
   Text is ASCII (code points < 128).  The theorems are per line; whole-program texts, Stim's own printer and
   parser, and str()/repr()/Circuit() are covered by the correspondence run (harness/props/c15.py). *)
From Coq Require Import List Ascii String Bool ZArith.
Import ListNotations.
Require Import TV.Model.Regex TV.gen.Gen_regex TV.Model.ProgramText TV.Spec.TextSpec TV.Proofs.ProgramTextProofs.

(* R_X(l) / R_Y(l) / R_Z(l) followed by any text without upper-case letters (targets, blanks, line breaks):
   for EVERY literal l = sg ++ body the grammar [-+]?[\d.]+ accepts, the text becomes I[R_a(theta=l*pi)] and
   nothing else changes; the tag is read back as exactly ("R_a", {theta: +-m/10^k}) when body is the decimal
   numeral with mantissa m and scale k, and Fraction raises (PError) for every other body (1.2.3, ., ..) *)
Theorem C15_expand_rotation : forall ax sg body tail,
  is_axis ax -> lit_shape sg body -> tail_plain tail ->
  shorthand_to_stim (rot_short ax (sg ++ body) ++ tail) = rot_stim ax (sg ++ body) ++ tail
  /\ (forall m k, dec_body body m k ->
        parse_parametric_tag (rot_tag ax (sg ++ body)) = POk (lit "R_" ++ [ax]) [(lit "theta", (apply_sign sg m, k))])
  /\ ((forall m k, ~ dec_body body m k) -> parse_parametric_tag (rot_tag ax (sg ++ body)) = PError).
Proof. exact expand_rotation. Qed.

(* U3(l1 , l2 , l3) with arbitrary blanks w1..w4 around the commas *)
Theorem C15_expand_u3 : forall w1 w2 w3 w4 sg1 b1 sg2 b2 sg3 b3 tail,
  blanks w1 -> blanks w2 -> blanks w3 -> blanks w4 ->
  lit_shape sg1 b1 -> lit_shape sg2 b2 -> lit_shape sg3 b3 -> tail_plain tail ->
  shorthand_to_stim (u3_short w1 w2 w3 w4 (sg1 ++ b1) (sg2 ++ b2) (sg3 ++ b3) ++ tail)
    = u3_stim (sg1 ++ b1) (sg2 ++ b2) (sg3 ++ b3) ++ tail
  /\ (forall m1 k1 m2 k2 m3 k3, dec_body b1 m1 k1 -> dec_body b2 m2 k2 -> dec_body b3 m3 k3 ->
        parse_parametric_tag (u3_tag (sg1 ++ b1) (sg2 ++ b2) (sg3 ++ b3))
        = POk (lit "U3") [(lit "theta", (apply_sign sg1 m1, k1)); (lit "phi", (apply_sign sg2 m2, k2));
                          (lit "lambda", (apply_sign sg3 m3, k3))])
  /\ ((forall m k, ~ dec_body b1 m k) \/ (forall m k, ~ dec_body b2 m k) \/ (forall m k, ~ dec_body b3 m k) ->
        parse_parametric_tag (u3_tag (sg1 ++ b1) (sg2 ++ b2) (sg3 ++ b3)) = PError).
Proof. exact expand_u3. Qed.

Theorem C15_expand_T : forall tail, tail_ok tail -> shorthand_to_stim (lit "T" ++ tail) = lit "S[T]" ++ tail.
Proof. exact s2s_T. Qed.
Theorem C15_expand_T_DAG : forall tail, tail_ok tail -> shorthand_to_stim (lit "T_DAG" ++ tail) = lit "S_DAG[T]" ++ tail.
Proof. exact s2s_TDAG. Qed.

(* the pair (mantissa, scale) of "d1.d2" is d1 * 10^|d2| + d2 over 10^|d2| *)
Theorem C15_decimal_value : forall d1 d2,
  digits_val (d1 ++ d2) = (digits_val d1 * 10 ^ Z.of_nat (List.length d2) + digits_val d2)%Z.
Proof. exact digits_val_app. Qed.

(* what str() prints parses back: stim_to_shorthand followed by shorthand_to_stim is the identity on every
   printed line of the grammar `printed_line` *)
Theorem C15_roundtrip : forall line, printed_line line -> shorthand_to_stim (stim_to_shorthand line) = line.
Proof. exact roundtrip. Qed.

(* frame: a text in which no pattern matches is unchanged by both functions ... *)
Theorem C15_frame_quiet : forall s,
  (quiet_for s2s_steps s = true -> shorthand_to_stim s = s) /\ (quiet_for sh_steps s = true -> stim_to_shorthand s = s).
Proof. exact frame_quiet. Qed.
(* ... in particular a text that contains none of the trigger substrings *)
Theorem C15_frame : forall s,
  ((forall w, In w (triggers s2s_steps) -> ~ substr w s) -> shorthand_to_stim s = s) /\
  ((forall w, In w (triggers sh_steps) -> ~ substr w s) -> stim_to_shorthand s = s).
Proof. exact frame_substr. Qed.
Theorem C15_triggers_shorthand_to_stim : triggers s2s_steps = [lit "T_DAG"; lit "T"; lit "R_"; lit "U3("].
Proof. exact triggers_s2s. Qed.
Theorem C15_triggers_stim_to_shorthand : triggers sh_steps = [lit "I[U3(theta="; lit "I[R_"; lit "S_DAG[T]"; lit "S[T]"].
Proof. exact triggers_sh. Qed.
(* every Stim instruction name followed by typical arguments/targets/tags is such a text (DETECTOR, TICK,
   SQRT_X ... contain the letter T but never as a word of its own) *)
Theorem C15_stim_gate_names_quiet :
  forallb (fun n => forallb (fun t => let line := lit n ++ lit t in
                                      (quiet_for s2s_steps line && quiet_for sh_steps line)%bool) sample_tails)
          stim_gate_names = true.
Proof. exact gate_names_quiet. Qed.

(* The unrestricted statements ("every printed line round-trips", "no other instruction is altered") are FALSE
   of the code: the rewriting ignores tag brackets.  Kernel-checked witnesses (findings, see the harness):
   a DETECTOR carrying the user tag  S[T  prints as ...[T rec[-1] ... and parses back with another tag and one
   target less; a user tag containing the word T next to a bracket is rewritten on input. *)
Theorem C15_roundtrip_refuted :
  exists line, shorthand_to_stim (stim_to_shorthand line) <> line /\ line = lit "DETECTOR[S[T] rec[-1] rec[-2]".
Proof. exact roundtrip_refuted. Qed.
Theorem C15_frame_refuted :
  exists line, shorthand_to_stim line <> line /\ line = lit "DETECTOR[a T rec[-1] rec[-2]".
Proof. exact frame_refuted. Qed.

(* ---- non-vacuity: the hypotheses have realistic inhabitants ---- *)
Example C15_ex_literal : lit_shape (lit "-") (lit "0.25") /\ dec_body (lit "0.25") 25 2 /\ apply_sign (lit "-") 25 = (-25)%Z.
Proof.
  split; [repeat split; [right; left; reflexivity|discriminate]|].
  split; [exact (DB_frac (lit "0") (lit "25") ltac:(discriminate) eq_refl eq_refl)|reflexivity].
Qed.
Example C15_ex_trailing_dot : dec_body (lit "5.") 5 0 /\ dec_body (lit ".5") 5 1 /\ dec_body (lit "007") 7 0.
Proof.
  split; [exact (DB_frac (lit "5") [] ltac:(discriminate) eq_refl eq_refl)|].
  split; [exact (DB_frac [] (lit "5") ltac:(discriminate) eq_refl eq_refl)|].
  exact (DB_int (lit "007") ltac:(discriminate) eq_refl).
Qed.
Example C15_ex_tails : tail_ok (lit " 0 1 2") /\ tail_ok [] /\ tail_plain (s_of [32; 48; 10; 32; 32; 35; 32; 99]%N).
Proof. repeat split; discriminate. Qed.
Example C15_ex_concrete :
  shorthand_to_stim (lit "R_Z(-0.25) 0 1") = lit "I[R_Z(theta=-0.25*pi)] 0 1"
  /\ parse_parametric_tag (lit "R_Z(theta=-0.25*pi)") = POk (lit "R_Z") [(lit "theta", ((-25)%Z, 2))]
  /\ parse_parametric_tag (lit "R_Z(theta=1.2.3*pi)") = PError
  /\ parse_parametric_tag (lit "R_Z(theta=.*pi)") = PError
  /\ parse_parametric_tag (lit "R_Z(theta=+*pi)") = PNone
  /\ shorthand_to_stim (lit "R_Z(+) 0") = lit "R_Z(+) 0"
  /\ shorthand_to_stim (lit "U3(0.3,  0.24 ,.5) 7") = lit "I[U3(theta=0.3*pi, phi=0.24*pi, lambda=.5*pi)] 7"
  /\ stim_to_shorthand (lit "S_DAG[T] 0 1") = lit "T_DAG 0 1".
Proof. vm_compute. repeat split. Qed.
(* the tag grammar is tight: near misses of a rotation tag (among them the scientific notation that float
   formatting produces, see C16) are NOT parametric tags *)
Example C15_ex_tag_grammar_is_tight :
  forallb (fun t => match parse_parametric_tag (lit t) with PNone => true | _ => false end)
    ["R_Z(theta=0.5*pix)"; "R_Z(theta=0.5*p)"; "R_Z(theta=0.5 *pi)"; " R_Z(theta=0.5*pi)"; "R_Z(theta=0.5*pi) ";
     "R_Z(theta=0.5*pi)x"; "R_Z theta=0.5*pi)"; "R_Z(theta=0.5*pi"; "R_Z(theta0.5*pi)"; "R_Z(theta=*pi)";
     "R_Z(theta=0.5pi)"; "R_Z(theta=1e-5*pi)"; "R_Z(theta=-1e-05*pi)"; "R_Z(theta=0,5*pi)"; "R-Z(theta=0.5*pi)";
     "(theta=0.5*pi)"; "R_Z(theta=0.5*pi)(x)"; "R_Z(x theta=0.5*pi)"; "R_Z(theta=0.5*pi x)"; "R_Z(theta=+-1*pi)"]%string
  = true.
Proof. vm_compute. reflexivity. Qed.
(* what each look-around / word boundary of the patterns is there for: keywords inside longer words, next to a
   bracket or glued to a word are NOT rewritten *)
Example C15_ex_boundaries :
  forallb (fun t => str_eqb (shorthand_to_stim (lit t)) (lit t))
    ["XT 0"; "T_DAGG 0"; "_T 0"; "T_ 0"; "T9 0"; "aT_DAG 0"; "X[T] 0"; "I[T] 0"; "T[x] 0"; "T_DAG[x] 0"; "DETECTOR rec[-1]";
     "SQRT_X 0"; "TICK"; "aR_Z(0.5) 0"; "R_Q(0.5) 0"; "R_Z(0.5 ) 0"; "R_Z( 0.5) 0"; "R_Z() 0"; "R_Z(1e-3) 0"; "R_Z(--1) 0";
     "aU3(1,2,3) 0"; "U3(1,2) 0"; "U3( 1,2,3) 0"; "U3(1,2,3 ) 0"; "U3(1;2;3) 0"]%string = true
  /\ forallb (fun t => str_eqb (stim_to_shorthand (lit t)) (lit t))
    ["XS[T] 0"; "S[T]a 0"; "S[T]_ 0"; "9S_DAG[T] 0"; "S_DAG[T]9"; "S[X] 0"; "S_DAG[TT] 0"; "MI[R_X(theta=1*pi)] 0";
     "I[R_Q(theta=1*pi)] 0"; "I[R_X(theta=1e-3*pi)] 0"; "I[R_X(theta=1*pi) ] 0"; "I[R_X(phi=1*pi)] 0";
     "I[U3(theta=1*pi,phi=2*pi, lambda=3*pi)] 0"; "I[U3(theta=1*pi, phi=2*pi)] 0"; "xI[U3(theta=1*pi, phi=2*pi, lambda=3*pi)] 0"]%string
    = true.
Proof. vm_compute. split; reflexivity. Qed.
Example C15_ex_printed_other : printed_line (lit "DETECTOR(1, 2.5) rec[-1] rec[-2]") /\ printed_line (lit "X[I[T] 0").
Proof. split; apply PL_other; vm_compute; reflexivity. Qed.
