(* C08 -- error-basis reduction is an exact reparametrisation.  Statements only; proofs live in
   Proofs/LinalgProofs.v; the model (Model/Linalg.v) is tied to tsim/utils/linalg.py::find_basis and
   tsim/core/graph.py::transform_error_basis by the exhaustive/random correspondence of harness/props/c08.py.
   All theorems hold for EVERY rectangular boolean matrix V (any number of rows, any width d; empty, zero,
   duplicate and dependent rows included).  `rect d V` is exactly what numpy accepts as an (N, d) array. *)
From Coq Require Import List Bool Arith Sorted ZArith.
Import ListNotations.
Require Import TV.Model.Linalg TV.Proofs.LinalgProofs.

(* V = T.B over GF(2), row by row *)
Theorem C08_factor : forall d V, rect d V ->
  matmul (snd (find_basis V)) (fst (find_basis V)) d = V.
Proof. exact find_basis_factor. Qed.

(* the rows of B are linearly independent: no non-trivial combination of them is the zero vector *)
Theorem C08_independent : forall d V, rect d V ->
  forall c, length c = length (fst (find_basis V)) ->
            comb c (fst (find_basis V)) (zeros d) = zeros d -> c = zeros (length (fst (find_basis V))).
Proof. exact find_basis_independent. Qed.

(* B is the sub-list of V at basis_indices, which are strictly increasing valid row numbers *)
Theorem C08_sub : forall d V, rect d V ->
  fst (find_basis V) = map (fun i => nth i V []) (basis_indices V)
  /\ StronglySorted lt (basis_indices V) /\ Forall (fun i => i < length V) (basis_indices V).
Proof. exact find_basis_sub_full. Qed.

(* ... namely the greedy ones: row i is taken iff it is NOT a GF(2) combination of the rows before it *)
Theorem C08_basis_is_greedy : forall d V, rect d V -> forall i, i < length V ->
  (In i (basis_indices V) <->
   ~ exists a, length a = length (firstn i V) /\ nth i V [] = comb a (firstn i V) (zeros d)).
Proof. exact basis_indices_greedy. Qed.

(* shapes: T is N x rank, B is rank x d, rank <= min(N, d) *)
Theorem C08_shapes : forall d V, rect d V ->
  let B := fst (find_basis V) in let T := snd (find_basis V) in
  length T = length V /\ rect (length B) T /\ rect d B /\ length B <= length V /\ length B <= d
  /\ length B = rank_of V.
Proof. exact find_basis_shapes. Qed.

(* T is the ONLY matrix of that shape with T.B = V (so (B, T) is completely determined by the theorems above) *)
Theorem C08_transform_unique : forall d V T', rect d V ->
  rect (length (fst (find_basis V))) T' -> matmul T' (fst (find_basis V)) d = V -> T' = snd (find_basis V).
Proof. exact find_basis_transform_unique. Qed.

(* the reparametrisation: for EVERY raw assignment e and every row i,
   parity(T_i, [parity(b, e) | b in B]) = parity(V_i, e)   (stated for all rows at once) *)
Theorem C08_reparam : forall d V e, rect d V ->
  map (fun t => dot t (map (fun b => dot b e) (fst (find_basis V)))) (snd (find_basis V))
  = map (fun v => dot v e) V.
Proof. exact find_basis_reparam. Qed.

(* transform_error_basis: for every graph (list of vertices with duplicate-free parameter sets), every num_e and
   every assignment e of the raw error bits, each vertex keeps its name, an unparametrised vertex is untouched, and
   the parity of the NEW f-set under f = B.e equals the parity of the OLD e-set under e; B has `n` columns. *)
Theorem C08_transform_error_basis : forall verts num_e e, (forall p, In p verts -> NoDup (snd p)) ->
  let '(verts', B, n) := transform_error_basis verts num_e in
  Forall2 (fun old new =>
             fst new = fst old
             /\ par_set (snd new) (f_of B e) = par_set (snd old) e
             /\ (is_param old = false -> new = old)) verts verts'
  /\ rect n B.
Proof. exact teb_reparam. Qed.

(* the new parameter sets are sets of valid f-indices *)
Theorem C08_new_sets : forall t, StronglySorted lt (nonzero_idx t) /\ Forall (fun j => j < length t) (nonzero_idx t).
Proof. exact nonzero_idx_set. Qed.

(* ---- examples: hypotheses are satisfiable, the statements are not vacuous ---- *)
Definition ex_V : list vec :=
  [[true;false;true]; [true;false;true]; [false;true;true]; [true;true;false]; [false;false;false]].
Example C08_ex_rect : rect 3 ex_V.
Proof. repeat constructor. Qed.
Example C08_ex_find_basis :
  find_basis ex_V = ([[true;false;true]; [false;true;true]],
                     [[true;false]; [true;false]; [false;true]; [true;true]; [false;false]])
  /\ basis_indices ex_V = [0; 2].
Proof. vm_compute. split; reflexivity. Qed.
Example C08_ex_empty : find_basis [] = ([], []) /\ find_basis [[]; []] = ([], [[]; []]) /\ rect 7 [] /\ rect 0 [[]; []].
Proof. vm_compute. repeat split; repeat constructor. Qed.
(* vertices 4 and 9 carry {e0,e2}, vertex 6 {e1}, vertex 5 nothing; 5 raw error bits *)
Example C08_ex_transform :
  transform_error_basis [(4%Z, [0; 2]); (5%Z, []); (9%Z, [2; 0]); (6%Z, [1])] (Some 5)
  = ([(4%Z, [0]); (5%Z, []); (9%Z, [0]); (6%Z, [1])],
     [[true;false;true;false;false]; [false;true;false;false;false]], 5).
Proof. vm_compute. reflexivity. Qed.
