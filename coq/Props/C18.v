(* C18 -- detector error models agree with Stim whenever Stim can produce one.
   Statements only; proofs live in Proofs/DemProofs.v.

   `dem_rule`, `dem_shift_sign`, `dem_mapping_offset`, `dem_filter`, `dem_filter_prob` are re-extracted from
   src/tsim/noise/dem.py on every run, `stim_meas_table` from the installed Stim (gen/Gen_dem_facts.v).
   A circuit is a list of abstract instructions (Model/Dem.v: dins); `stim_instr i` says that i is a
   well-shaped instruction of the installed Stim (record-appending gates with one / two targets / one Pauli
   product per result, DETECTOR, OBSERVABLE_INCLUDE, or anything that does not append to the record). *)
From Coq Require Import ZArith List String Bool.
Import ListNotations.
Require Import TV.Model.DemFacts TV.gen.Gen_dem_facts TV.Model.Dem TV.Proofs.DemProofs.
Open Scope Z_scope.

(* for every record-appending gate of the installed Stim and every well-shaped target list, the number of
   results by which the relocation loop shifts the look-backs is the number Stim appends *)
Theorem C18_counts : forall n k sizes, In (n, k) stim_meas_table -> shaped k sizes = true ->
  impl_count dem_rule (DMeas n sizes) = Z.of_nat (List.length sizes).
Proof. exact counts_now. Qed.
(* ... and nothing else shifts them *)
Theorem C18_counts_all : forall i, stim_instr i = true -> impl_count dem_rule i = true_count i.
Proof. exact counts_agree_now. Qed.

(* for ALL circuits: the detectors of the circuit handed to stim are, as sets of ABSOLUTE measurement indices,
   the original detectors followed by one detector per observable index (in order of first declaration,
   without duplicates) that XORs exactly the measurements of the union of its OBSERVABLE_INCLUDEs -- wherever
   these stand relative to later measurements, for repeated and out-of-order indices; every other instruction
   is kept, in order *)
Theorem C18_relocate : forall c, forallb stim_instr c = true ->
  abs_dets (relocated_now c) 0 = abs_dets c 0 ++ map (fun k => abs_obs c 0 k) (obs_keys c) /\
  snd (relocate dem_rule dem_shift_sign c [] []) = filter not_obs c /\
  map fst (fst (relocate dem_rule dem_shift_sign c [] [])) = obs_keys c /\ NoDup (obs_keys c).
Proof. exact relocate_now. Qed.

(* for EVERY error analysis that sees detectors and observables only through their measurement sets (E: the
   error sources with their probabilities and the measurement results they flip), mapping the model of the
   relocated circuit back gives exactly Stim's model of the original circuit -- before the gauge filter *)
Theorem C18_dem : forall c, forallb stim_instr c = true ->
  forall E, dem_tsim_nofilter E dem_rule dem_shift_sign dem_mapping_offset c = dem_stim E c.
Proof. exact dem_now_nofilter. Qed.

(* the filter `args == [0.5] and all targets logical` does NOT only remove gauges: the full statement
   "dem_tsim_now E c = dem_stim E c" fails on the circuit of DESIGN.md section 6 *)
Theorem C18_filter_refuted : exists E c, forallb stim_instr c = true /\ dem_tsim_now E c <> dem_stim E c.
Proof. exact filter_refuted. Qed.
Example C18_filter_witness :
  dem_stim witness_sources witness_circuit = [(512, [TL 0]); (102, [TD 0%nat; TL 1])] /\
  dem_tsim_now witness_sources witness_circuit = [(102, [TD 0%nat; TL 1])].
Proof. exact witness_values. Qed.

(* with the hypothesis that Stim's model has no mechanism of probability exactly 1/2 whose symptoms are all
   observables, the returned model is Stim's *)
Theorem C18_dem_partial : forall c, forallb stim_instr c = true ->
  forall E, forallb (fun m => negb (genuine_half_on_observables m)) (dem_stim E c) = true ->
  dem_tsim_now E c = dem_stim E c.
Proof. exact dem_now_partial. Qed.

(* the hypotheses are satisfiable by a non-trivial circuit (pair measurement, MPP, MPAD, heralded gate between
   the declarations of repeated, out-of-order observables; a probability-1/2 error that also flips a detector) *)
Example C18_hypotheses_inhabited :
  forallb stim_instr example_circuit = true /\
  forallb (fun m => negb (genuine_half_on_observables m)) (dem_stim example_sources example_circuit) = true /\
  List.length (dem_stim example_sources example_circuit) = 3%nat.
Proof. exact example_ok. Qed.
