(* C19 -- sampling is invariant under semantics-preserving rewrites.  Statements only.
   Proved at the model level (gate functions regenerated from instructions.py; Model/Parse.v hand model of the parser):
   layout instructions draw nothing, broadcast targets may be split/merged, and the documented gate equivalences
   hold as matrix identities up to a unit phase.  Qubit relabelling, REPEAT unrolling, commuting disjoint instructions
   and appended U U^-1 are validated by comparing the exact sampler distributions of original and rewritten circuits. *)
From Coq Require Import ZArith QArith List Bool String.
Import ListNotations.
Require Import TV.Base.EP TV.Model.Lane TV.Spec.RotGates TV.gen.Gen_instructions TV.gen.Gen_stim_gates TV.Model.GateCheck
  TV.Model.InverseCheck TV.Model.RewriteCheck TV.Model.InstrCheck TV.Model.Parse TV.Proofs.RewriteProofs.

(* inserting TICK / QUBIT_COORDS / SHIFT_COORDS anywhere changes neither the lane program, nor the record count, nor the annotations *)
Theorem C19_layout_insertion : forall aux c1 c2 i, layout_name (iname i) = true -> itag i <> TagT ->
  build aux (c1 ++ i :: c2) = build aux (c1 ++ c2).
Proof. exact build_layout_insertion. Qed.
(* G t1..tk tk+1..tm  =  G t1..tk ; G tk+1..tm   (k a multiple of the arity; any gate function, arguments, target kinds) *)
Theorem C19_broadcast_split : forall fn ar args s ts1 ts2 k, (0 < ar)%nat -> List.length ts1 = (k * ar)%nat ->
  dispatch_targets fn ar args s (ts1 ++ ts2) =
  match dispatch_targets fn ar args s ts1 with Some s1 => dispatch_targets fn ar args s1 ts2 | None => None end.
Proof. exact broadcast_split. Qed.
(* H H = I, S S = Z, T T = S, CX = H CZ H (both orders), U3 = R_Z R_Y R_Z (all angles), I = identity: up to a unit phase *)
Theorem C19_gate_rules :
  rule_HH = true /\ rule_SS_Z = true /\ rule_TT_S = true /\ rule_CX_HCZH = true /\ rule_U3 = true /\ rule_I = true.
Proof. exact gate_rules_ok. Qed.
Example C19_layout_example : layout_name "TICK" = true /\ layout_name "QUBIT_COORDS" = true.
Proof. split; reflexivity. Qed.
