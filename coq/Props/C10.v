Require Import TV.Proofs.CompileProofs.
Theorem C10_stub : True. Proof. exact stub. Qed.
