(* C10 -- compiled scalar programs evaluate to the ZX scalars they were compiled from.
   Statements only; proofs live in Proofs/CompileProofs.v.
   Model/Compile.v  : pyzx `Scalar` record, `scalar_value` (= Scalar.evaluate_scalar, the reference), `compile_scalar_graphs`;
   Model/Evaluate.v : `matmul_gf2`, `evaluate` (one row of param_vals), `eval_guard` (the int32 no-wrap guard of C09, decidable);
   gen/Gen_matmul_gf2.v : `gf2_mod_before_cast`, `eval_empty_returns_zero`, regenerated from compile/evaluate.py on every run. *)
From Coq Require Import ZArith List Bool Ring_theory.
Import ListNotations.
Require Import TV.Base.D8 TV.gen.Gen_matmul_gf2 TV.Model.ExactScalar TV.Model.Compile TV.Model.Evaluate TV.Proofs.CompileProofs.
Open Scope Z_scope.

(* ---- the GF(2) row sums: parity of (mask AND bits), for every width (no bound on the number of set parameters) ---- *)
Theorem C10_gf2 : forall mask bits : list bool, matmul_gf2 mask bits = b2z (parity mask bits).
Proof. exact gf2_correct. Qed.

(* the two orders of `% 2` and the saturating float32 -> uint8 cast the translator distinguishes *)
Theorem C10_gf2_mod_before_cast_all_widths : forall mask bits, matmul_gf2_gen true mask bits = b2z (parity mask bits).
Proof. exact gf2_gen_mod_first. Qed.
Theorem C10_gf2_cast_before_mod_guarded : forall mask bits, dot mask bits < 256 -> matmul_gf2_gen false mask bits = b2z (parity mask bits).
Proof. exact gf2_gen_cast_first_guarded. Qed.
(* ... and without the guard the cast-first variant is wrong: 256 selected parameters set (kernel-checked witness) *)
Theorem C10_gf2_cast_before_mod_refuted : exists mask bits, matmul_gf2_gen false mask bits <> b2z (parity mask bits).
Proof. exact gf2_gen_cast_first_refuted. Qed.

(* ---- main theorem.  In every commutative ring with w^4 = -1 (w = e^{i pi/4}) and 1/2, for every character `cexp` agreeing with
   w on multiples of 1/4 and every interpretation `opq` of the floating-point factors; for ALL lists of scalars, all duplicate-free
   parameter lists covering their variables (wf_scalar), all 0/1 assignments: if the decidable no-wrap guard holds on this input,
   the compiled evaluator returns a result and its value is the sum of pyzx's evaluate_scalar over the list
   (zero graphs contribute 0; exact branch: one ExactScalarArray element; approximate branch: sum of exact part * float * 2^power2). ---- *)
Theorem C10_eval :
  forall (R : Type) (rO rI : R) (radd rmul rsub : R -> R -> R) (ropp : R -> R),
  ring_theory rO rI radd rmul rsub ropp eq ->
  forall w : R, rmul (rmul w w) (rmul w w) = ropp rI ->
  forall half : R, radd half half = rI ->
  forall (cexp : Z -> positive -> R) (opq : Z -> R),
  (forall n, 0 <= n -> cexp n 1%positive = cexp4 R rI rmul w (4 * n)) ->
  (forall n, 0 <= n -> cexp n 2%positive = cexp4 R rI rmul w (2 * n)) ->
  (forall n, 0 <= n -> cexp n 4%positive = cexp4 R rI rmul w n) ->
  forall (vals : nat -> Z) (ps : list nat), binary vals -> NoDup ps ->
  forall (gs : list scalar) (c : compiled), Forall (wf_scalar ps) gs ->
  compile_scalar_graphs gs ps = Some c ->
  eval_guard (row_of vals ps) c = true ->
  exists r, evaluate (row_of vals ps) c = Some r /\
    result_value R rO rI radd rmul ropp w half cexp opq r
    = rsuml R rO radd (map (scalar_value R rO rI radd rmul rsub ropp w half cexp opq vals) gs).
Proof. exact eval_correct. Qed.

(* every 0/1 row of param_vals of the right width is such an assignment *)
Theorem C10_rows_are_assignments : forall ps, NoDup ps -> forall bits : list bool, length bits = length ps ->
  exists vals, binary vals /\ row_of vals ps = bits.
Proof. exact row_of_surjective. Qed.

(* compile_scalar_graphs itself never fails on well-formed scalars (the DyadicNumber normalisation loop terminates) *)
Theorem C10_compile_total : forall gs ps, Forall (wf_scalar ps) gs -> exists c, compile_scalar_graphs gs ps = Some c.
Proof. exact compile_total. Qed.

(* a list in which every graph is the zero scalar (nothing is left after compilation): with the guard for an empty graph axis at
   the top of `evaluate` the result is the exact 0 and the no-wrap guard holds, so C10_eval covers it; without that guard the
   evaluator raises instead of returning 0.  Which case applies is regenerated from the source (eval_empty_returns_zero). *)
Theorem C10_all_zero_value : forall gs ps c bits, eval_empty_returns_zero = true ->
  Forall (fun g => s_is_zero g = true) gs -> compile_scalar_graphs gs ps = Some c ->
  evaluate bits c = Some (EvExact (q4_zero, 0)) /\ eval_guard bits c = true.
Proof. exact all_zero_value. Qed.
Theorem C10_all_zero_raises : forall gs ps c bits, eval_empty_returns_zero = false ->
  Forall (fun g => s_is_zero g = true) gs -> compile_scalar_graphs gs ps = Some c -> evaluate bits c = None.
Proof. exact all_zero_raises. Qed.

(* ---- the pieces, stated on their own ---- *)
(* phase-node term of the table = 1 + cexp(const + sum of the variables) *)
Theorem C10_term_A :
  forall (R : Type) (rO rI : R) (radd rmul rsub : R -> R -> R) (ropp : R -> R),
  ring_theory rO rI radd rmul rsub ropp eq ->
  forall w : R, rmul (rmul w w) (rmul w w) = ropp rI ->
  forall (vals : nat -> Z) (ps : list nat), binary vals -> NoDup ps ->
  forall k vs, byte k -> vars_ok ps vs ->
  den R rO rI radd rmul ropp w (val_a (row_of vals ps) (k, bitstr ps vs)) = node_value R rI radd rmul w vals (k, vs).
Proof. exact val_a_value. Qed.
(* phase-pair term = 1 + cexp(psi) + cexp(phi) - cexp(psi + phi) *)
Theorem C10_term_D :
  forall (R : Type) (rO rI : R) (radd rmul rsub : R -> R -> R) (ropp : R -> R),
  ring_theory rO rI radd rmul rsub ropp eq ->
  forall w : R, rmul (rmul w w) (rmul w w) = ropp rI ->
  forall (vals : nat -> Z) (ps : list nat), binary vals -> NoDup ps ->
  forall pp, byte (sp_alpha pp) -> byte (sp_beta pp) -> vars_ok ps (sp_A pp) -> vars_ok ps (sp_B pp) ->
  den R rO rI radd rmul ropp w (val_d (row_of vals ps) (sp_alpha pp, sp_beta pp, bitstr ps (sp_A pp), bitstr ps (sp_B pp)))
  = pair_value R rI radd rmul rsub w vals pp.
Proof. exact val_d_value. Qed.
(* static data: (floatfactor coefficients) * 2^power2 = sqrt2^power2 * DyadicNumber value, for odd and even, positive and negative powers *)
Theorem C10_static_float :
  forall (R : Type) (rO rI : R) (radd rmul rsub : R -> R -> R) (ropp : R -> R),
  ring_theory rO rI radd rmul rsub ropp eq ->
  forall w : R, rmul (rmul w w) (rmul w w) = ropp rI ->
  forall half : R, radd half half = rI ->
  forall g p2 ff, static_float g = Some (p2, ff) ->
  rmul (den R rO rI radd rmul ropp w ff) (pow2 R rI radd rmul half p2)
  = rmul (sqrt2pow R rI rmul rsub w half (s_power2 g)) (dy_value R rO rI radd rmul ropp w half (s_floatfactor g)).
Proof. exact static_float_value. Qed.
(* the products / the aligned sum inside the guard are the ring product / sum *)
Theorem C10_prod_in_guard :
  forall (R : Type) (rO rI : R) (radd rmul rsub : R -> R -> R) (ropp : R -> R),
  ring_theory rO rI radd rmul rsub ropp eq ->
  forall w : R, rmul (rmul w w) (rmul w w) = ropp rI ->
  forall half : R, radd half half = rI ->
  forall l, prod_guard l = true ->
  exists r, esa_prod l = Some r /\
    esa_value R rO rI radd rmul ropp w half r = rprodl R rI rmul (map (esa_value R rO rI radd rmul ropp w half) l).
Proof. exact esa_prod_value. Qed.
Theorem C10_sum_in_guard :
  forall (R : Type) (rO rI : R) (radd rmul rsub : R -> R -> R) (ropp : R -> R),
  ring_theory rO rI radd rmul rsub ropp eq ->
  forall w : R,
  forall half : R, radd half half = rI ->
  forall l s, sum_guard l = true -> esa_sum l = Some s ->
  esa_value R rO rI radd rmul ropp w half s = rsuml R rO radd (map (esa_value R rO rI radd rmul ropp w half) l).
Proof. exact esa_sum_value. Qed.

(* ---- non-vacuity ---- *)
(* the ring hypotheses are met by a non-trivial ring: Q(w) = Q[x]/(x^4 + 1) *)
Example C10_ring_inhabited :
  ring_theory QW.zero QW.one QW.add QW.mul QW.sub QW.opp eq /\
  QW.mul (QW.mul QW.w QW.w) (QW.mul QW.w QW.w) = QW.opp QW.one /\ QW.add QW.half QW.half = QW.one /\ QW.zero <> QW.one.
Proof. exact (conj QW.ring (conj QW.w4 (conj QW.half2 QW.nontrivial))). Qed.

(* a list with all four term types, a '1' member, an odd negative sqrt2 power, a dyadic factor, a zero graph, unequal term counts:
   well-formed, compiles, and the guard holds on all 8 assignments *)
Definition ex_ps : list nat := [7; 3; 5]%nat.
Definition ex_gs : list scalar :=
  [ mkScalar (-3) 3 4 [((true, [7%nat]), (false, [3%nat; 5%nat]))] [[7%nat]; [7%nat; 3%nat]] [[7%nat]] [mkSP 1 6 [3%nat] [5%nat; 7%nat]]
             [(1, [7%nat]); (7, [3%nat; 5%nat]); (2, [])] (mkDy 2 (3, 1, 0, -1)) AOne false;
    mkScalar 2 1 1 [] [] [] [] [(4, [])] (mkDy 0 (1, 0, 0, 0)) AOne true;
    mkScalar 4 0 1 [] [] [[5%nat]] [] [(3, [5%nat])] (mkDy 0 (1, 0, 0, 0)) AOne false ].
Example C10_wf_inhabited : Forall (wf_scalar ex_ps) ex_gs.
Proof. exact (proj2 (Forall_forall _ _) (fun g Hg => wf_scalarb_sound ex_ps g (proj1 (forallb_forall _ _) (eq_refl : forallb (wf_scalarb ex_ps) ex_gs = true) g Hg))). Qed.
Example C10_guard_inhabited :
  match compile_scalar_graphs ex_gs ex_ps with
  | Some c => forallb (fun bits => eval_guard bits c)
                [[false; false; false]; [true; false; false]; [false; true; false]; [true; true; false];
                 [false; false; true]; [true; false; true]; [false; true; true]; [true; true; true]]
  | None => false
  end = true.
Proof. vm_compute. reflexivity. Qed.
