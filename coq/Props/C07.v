(* C07 -- channel simplification preserves the distribution of error parameters exactly.
   Statements only; proofs live in Proofs/ChannelsProofs.v.  Spec: Base/Dist.v (fdist = exact rational
   distribution of the XOR of the signature rows selected by independently sampled channels).
   Model: Model/Channels.v (hand model of tsim/noise/channels.py WITH fixes_proposed/C07-expand-xor.diff applied,
   tied to the running code by harness/props/c07.py).

   No statement assumes that the column ids inside a channel are distinct, that signature rows are distinct or
   non-zero, or anything about max_bits.  Hypotheses used: tables have 2^k entries for k column ids
   (wf_channel; established by ChannelSampler.__init__), tables sum to one (normalized; needed only because
   reduce_null_bits DROPS channels that touch no output), and the null column id really names a zero row. *)
From Coq Require Import List NArith QArith.
Import ListNotations.
Require Import TV.Base.Dist TV.Model.Channels TV.Proofs.ChannelsProofs.
Open Scope Q_scope.

(* the index-remapping lemma: pushing a table forward along g preserves the pushforward whenever
   sig'(g idx) = sig idx *)
Theorem C07_index_remapping : forall sigs g m probs cols cols',
  (forall idx, (idx < length probs)%nat ->
     (g idx < m)%nat /\ sig_of sigs cols' (g idx) = sig_of sigs cols idx) ->
  forall v, push (scatter m (remap_items g probs), cols') sigs v == push (probs, cols) sigs v.
Proof. exact remap_push. Qed.

Theorem C07_reduce_null_ok : forall sigs null chs,
  (forall c, null = Some c -> row sigs c = 0%N) -> Forall normalized chs ->
  forall v, fdist (reduce_null_bits null chs) sigs v == fdist chs sigs v.
Proof. exact reduce_null_ok. Qed.

Theorem C07_normalize_ok : forall sigs chs v, fdist (normalize_channels chs) sigs v == fdist chs sigs v.
Proof. exact normalize_ok. Qed.

Theorem C07_expand_ok : forall sigs ch target,
  incl (ch_cols ch) target -> forall v, push (expand_channel ch target) sigs v == push ch sigs v.
Proof. exact expand_push. Qed.

(* pushforward of the XOR-convolution = distribution of the XOR of two independent draws *)
Theorem C07_xor_convolve_ok : forall sigs pa pb cols,
  length pa = (2 ^ length cols)%nat -> length pb = (2 ^ length cols)%nat ->
  forall v, push (xor_convolve pa pb, cols) sigs v == fdist [(pa, cols); (pb, cols)] sigs v.
Proof. exact xor_convolve_push. Qed.
Theorem C07_xor_convolve_in_context : forall sigs pa pb cols rest,
  length pa = (2 ^ length cols)%nat -> length pb = (2 ^ length cols)%nat ->
  forall v, fdist ((xor_convolve pa pb, cols) :: rest) sigs v == fdist ((pa, cols) :: (pb, cols) :: rest) sigs v.
Proof. exact xor_convolve_ok. Qed.

(* the order of the channel list is irrelevant *)
Theorem C07_permutation_invariant : forall sigs l l',
  Permutation.Permutation l l' -> forall v, fdist l sigs v == fdist l' sigs v.
Proof. exact deq_perm. Qed.

Theorem C07_merge_ok : forall sigs chs,
  Forall wf_channel chs -> forall v, fdist (merge_identical_channels chs) sigs v == fdist chs sigs v.
Proof. exact merge_ok. Qed.

Theorem C07_absorb_ok : forall sigs max_bits chs,
  Forall wf_channel chs -> forall v, fdist (absorb_subset_channels max_bits chs) sigs v == fdist chs sigs v.
Proof. exact absorb_ok. Qed.

(* the whole pipeline, for all channel lists, matrices, max_bits *)
Theorem C07_simplify : forall sigs max_bits null chs,
  Forall wf_channel chs -> Forall normalized chs ->
  (forall c, null = Some c -> row sigs c = 0%N) ->
  forall v, fdist (simplify_channels max_bits null chs) sigs v == fdist chs sigs v.
Proof. exact simplify_ok. Qed.

Theorem C07_simplify_wf : forall max_bits null chs,
  Forall wf_channel chs -> Forall wf_channel (simplify_channels max_bits null chs).
Proof. exact simplify_wf. Qed.

(* end to end: the channels and signature matrix built by ChannelSampler.__init__ (np.unique column dedup,
   null_col_id, simplification) have exactly the distribution of "sample every original channel independently
   and apply error_transform over GF(2)" -- zero and repeated columns allowed anywhere *)
Theorem C07_sampler : forall max_bits tables cols,
  Forall pow2_table tables -> Forall (fun t => qsum t == 1) tables ->
  (total_bits tables <= length cols)%nat ->
  forall v, fdist (fst (sampler_init max_bits tables cols)) (snd (sampler_init max_bits tables cols)) v
            == fdist (raw_channels tables 0) cols v.
Proof. exact sampler_ok. Qed.

(* the bit extraction of _sample_channels computes exactly the value function used by fdist *)
Theorem C07_sample_row : forall sigs chs o,
  Forall wf_channel chs -> length o = length chs -> sample_row sigs chs o = osig sigs chs o.
Proof. exact sample_row_ok. Qed.

(* the code BEFORE the proposed fix (OR instead of XOR in expand_channel) violates the property *)
Theorem C07_expand_or_refuted :
  exists chs sigs v, Forall wf_channel chs /\ Forall normalized chs /\
    ~ fdist (simplify_channels_or 4 None chs) sigs v == fdist chs sigs v.
Proof. exact simplify_or_refuted. Qed.

(* ---- non-vacuity ------------------------------------------------------------------------------------------ *)
(* a zero row (id 0), a channel with a duplicated column id, two channels with identical id sets, a strict subset *)
Definition ex_sigs : list N := [0; 1; 2; 3]%N.
Definition ex_chs : list channel :=
  [([1#2; 1#4; 1#8; 1#8], [2; 1]%nat);
   ([1#2; 1#8; 1#4; 1#8], [1; 1]%nat);
   ([3#4; 1#4], [0]%nat);
   ([1#2; 1#4; 1#8; 1#8], [1; 2]%nat);
   ([1#4; 1#8; 1#8; 1#8; 1#8; 1#16; 1#16; 1#8], [3; 0; 2]%nat);
   ([7#8; 1#8], [3]%nat)].

Example C07_hypotheses_inhabited :
  Forall wf_channel ex_chs /\ Forall normalized ex_chs /\ (forall c, Some 0%nat = Some c -> row ex_sigs c = 0%N).
Proof.
  split; [repeat constructor|split; [repeat constructor|]].
  intros c H. injection H as <-. reflexivity.
Qed.

(* the pipeline really does something on it (6 channels become 2) and the instance of C07_simplify computes *)
Example C07_example_nontrivial :
  map ch_cols (simplify_channels 4 (Some 0%nat) ex_chs) = [[1; 2]; [2; 3]]%nat /\
  forallb (fun v => Qeq_bool (fdist (simplify_channels 4 (Some 0%nat) ex_chs) ex_sigs v) (fdist ex_chs ex_sigs v))
          [0; 1; 2; 3; 4]%N = true /\
  Qeq_bool (fdist ex_chs ex_sigs 1%N) (fdist ex_chs ex_sigs 2%N) = false.
Proof. vm_compute. repeat split. Qed.

Example C07_sampler_hypotheses_inhabited :
  let tables := [[1#2; 1#4; 1#8; 1#8]; [1#2; 1#8; 1#4; 1#8]; [3#4; 1#4]] in
  let cols := [2; 1; 1; 1; 0]%N in
  Forall pow2_table tables /\ Forall (fun t => qsum t == 1) tables /\ (total_bits tables <= length cols)%nat /\
  map ch_cols (fst (sampler_init 4 tables cols)) = [[1; 2]]%nat /\ snd (sampler_init 4 tables cols) = [0; 1; 2]%N.
Proof. vm_compute. repeat split; repeat constructor. Qed.
