(* C13 -- sampler API contract: shapes, batching, output-format flags, bit packing.
   Statements only; proofs live in Proofs/SamplerApiProofs.v.
   `gen_detector_sample` and `gen_maybe_bit_pack` are regenerated from /repo/src/tsim/sampler.py on every run;
   `sample_batches`, `packbits`, `detector_sample_model` are the hand model (Model/SamplerApi.v);
   `stim_detector_sample`, `pack_le` are Stim's contract (Spec/DetSamplerSpec.v). *)
From Coq Require Import Arith ZArith NArith List Bool.
Import ListNotations.
Require Import TV.Spec.DetSamplerSpec TV.gen.Gen_sampler_flags TV.Model.SamplerApi TV.Proofs.SamplerApiProofs.
Local Open Scope nat_scope.

(* _sample_batches: for every positive shot count and every batch size (None = shots), whatever the batches
   contain (draw i n = the i-th batch, n rows): exactly `shots` rows, a prefix of the concatenated batches,
   the number of batches is ceil(shots/b) (covers, no superfluous batch, least), and row k of the result is
   row (k mod b) of batch (k / b). *)
Theorem C13_rows : forall (row : Type) (draw : nat -> nat -> list row),
  (forall i n, length (draw i n) = n) ->
  forall shots bs, 1 <= shots -> (forall b, bs = Some b -> 1 <= b) ->
    let b := effective_batch shots bs in
    let n := n_batches shots bs in
    let out := sample_batches draw shots bs in
    length out = shots /\
    (exists rest, all_batches draw shots bs = out ++ rest) /\
    1 <= n /\ shots <= n * b /\ n * b < shots + b /\ (forall m, shots <= m * b -> n <= m) /\
    (forall k d, k < shots -> nth k out d = nth (k mod b) (draw (k / b) b) d).
Proof. exact @sample_batches_rows. Qed.

Theorem C13_rows_default_batch : forall (row : Type) (draw : nat -> nat -> list row),
  (forall i n, length (draw i n) = n) ->
  forall shots, 1 <= shots -> n_batches shots None = 1 /\ sample_batches draw shots None = draw 0 shots.
Proof. exact @sample_batches_none. Qed.

(* every returned row is a row of one of the batches, so the column count / row contents never depend on
   the batch size *)
Theorem C13_rows_are_batch_rows : forall (row : Type) (draw : nat -> nat -> list row) shots bs r,
  In r (sample_batches draw shots bs) ->
  exists i, i < n_batches shots bs /\ In r (draw i (effective_batch shots bs)).
Proof. exact sample_batches_rows_from_batches. Qed.

(* flags: for all 16 combinations and every list of shots (any number of detector / observable columns,
   0 included), the regenerated cascade applied to the matrix [D|O] with self._num_detectors = #D returns
   what Stim's contract prescribes, and rejects exactly where Stim rejects *)
Theorem C13_flags : forall prepend append separate bit_packed nd (shots : list shot),
  (forall sh, In sh shots -> length (fst sh) = nd) ->
  detector_sample_model prepend append separate bit_packed (Z.of_nat nd) (map (fun sh => fst sh ++ snd sh) shots)
  = stim_detector_sample prepend append separate bit_packed shots.
Proof. exact detector_sample_model_is_spec. Qed.

Theorem C13_flags_reject : forall prepend append separate bit_packed nd samples,
  detector_sample_model prepend append separate bit_packed nd samples = SReject
  <-> separate && (prepend || append) = true.
Proof. exact detector_sample_rejects_iff. Qed.

(* packing: the mode _maybe_bit_pack selects is little-endian row packing; that packing is Stim's pack_le;
   a row of w bits gives ceil(w/8) bytes < 256; bit j of byte k is column 8k+j (false = zero padding beyond
   the last column); unpacking the first w bits gives the row back *)
Theorem C13_pack :
  (gen_maybe_bit_pack false = PackNo /\ gen_maybe_bit_pack true = PackBits true) /\
  forall row : list bool,
    packbits true row = pack_le row /\
    length (pack_le row) = (length row + 7) / 8 /\
    (forall b, In b (pack_le row) -> (b < 256)%N) /\
    (forall k j, j < 8 -> N.testbit (nth k (pack_le row) 0%N) (N.of_nat j) = nth (8 * k + j) row false) /\
    unpackbits_le (length row) (packbits true row) = row.
Proof. exact pack_contract. Qed.

(* non-vacuity: concrete inhabitants of the hypotheses *)
Example C13_rows_inhabited :
  sample_batches labelled_draw 7 (Some 3) = [(0, 0); (0, 1); (0, 2); (1, 0); (1, 1); (1, 2); (2, 0)]
  /\ n_batches 7 (Some 3) = 3 /\ (forall i n, length (labelled_draw i n) = n).
Proof.
  split; [vm_compute; reflexivity|]. split; [vm_compute; reflexivity|].
  intros i n. unfold labelled_draw. rewrite map_length, seq_length. reflexivity.
Qed.

Example C13_flags_inhabited :
  detector_sample_model true true false true 3 [[true; false; true; false; true]]
  = SOne (CBytes [[86%N]])     (* [O|D|O] = 0,1 | 1,0,1 | 0,1  ->  0b1010110 *)
  /\ detector_sample_model true false true false 3 [[true; false; true; false; true]] = SReject
  /\ detector_sample_model false false true false 0 [[true; false]] = SPair (CBits [[]]) (CBits [[true; false]]).
Proof. vm_compute. repeat split; reflexivity. Qed.
