(* C16 (matrix half) -- gate followed by the gate stim/Circuit.inverse puts in its place is the identity up to a unit
   phase.  Statements only; the reading of `has_phase ... = true` in an arbitrary ring is C05's has_phase_sound
   (Proofs/GateProofs.v).  The text half (re-tagging, exact formatting) is Props/C16Text.v. *)
From Coq Require Import ZArith QArith Qcanon List Bool String Ring_theory.
Import ListNotations.
Require Import TV.Base.EP TV.Base.EPSound TV.Model.Lane TV.Spec.RotGates TV.gen.Gen_instructions TV.gen.Gen_stim_gates
  TV.Model.GateCheck TV.Model.InverseCheck TV.Proofs.GateProofs TV.Proofs.InverseProofs.

(* every unitary GATE_TABLE row: the inverse named by the installed Stim is again in GATE_TABLE, and
   gate ; inverse = E(k/4) * identity, in both target orders *)
Theorem C16_gate_table : forallb check_inv_row gate_table = true.
Proof. exact inv_table_ok. Qed.
Theorem C16_T : check_inv_T = true.
Proof. exact inv_T_ok. Qed.
(* R_X/R_Y/R_Z(theta) ; R(-theta) and U3(t,p,l) ; U3(-t,-l,-p) = unit phase * identity for EVERY angle *)
Theorem C16_rotations : check_inv_rot = true.
Proof. exact inv_rot_ok. Qed.
Theorem C16_u3 : check_inv_u3 = true.
Proof. exact inv_u3_ok. Qed.
Theorem C16_reading :
  forall (R : Type) (rO rI : R) (radd rmul rsub : R -> R -> R) (ropp : R -> R),
  ring_theory rO rI radd rmul rsub ropp eq ->
  forall E : Qc -> R, (forall a b, E (a + b)%Qc = rmul (E a) (E b)) -> E 0%Qc = rI -> E 1%Qc = ropp rI ->
  forall half : R, radd half half = rI -> forall ta tb tc : Qc,
  forall cands A D, has_phase cands A D = true ->
    exists e, In e cands /\ prop_to R rO rI radd rmul ropp E half ta tb tc (E (expo_val ta tb tc e)) A D.
Proof. exact has_phase_sound. Qed.
