(* C17 -- Circuit behaves like a flattened stim.Circuit under every container operation.
   Statements only; proofs live in Proofs/CircuitOpsProofs.v.

   `t_run h` is the state (heap of stim.Circuit objects, tsim handles, user-held stim objects) after the
   operation history h, computed by running the effect summaries REGENERATED from src/tsim/circuit.py
   (gen/Gen_circuit_effects.v) with Stim's operations as modelled in Spec/StimCircuit.v.
   `ref_run h` is the stim-only reference: the same operations on plain circuit values, never flattened,
   never merged.  Index-based operations (pop, slicing) address a REPEAT-free representative of the
   reference circuit, which is only determined up to Stim's merging (see Model/CircuitOps.v: ref_step). *)
From Coq Require Import ZArith List String Bool.
Import ListNotations.
Require Import TV.Spec.StimCircuit TV.Model.CircuitEffects TV.gen.Gen_circuit_effects TV.Model.CircuitOps
               TV.Proofs.StimCircuitProofs TV.Proofs.CircuitOpsProofs.

(* after ANY history, no tsim Circuit wraps a circuit containing a REPEAT block *)
Theorem C17_flat : forall h v, v < List.length (tv (t_run h)) -> is_flat (tval (t_run h) v) = true.
Proof. exact flat_always. Qed.

(* after ANY history, no two handles / user-held stim objects share a heap object (so the result of +, *,
   slicing, copy, stim_circuit, without_* never aliases an operand), and no handle dangles *)
Theorem C17_alias : forall h,
  NoDup (tv (t_run h) ++ sv (t_run h)) /\
  forall a, In a (tv (t_run h) ++ sv (t_run h)) -> a < List.length (heap_of (t_run h)).
Proof. exact alias_never. Qed.

(* every method of the class outside the container operations, and integer indexing, leave the whole state
   (heap and handles) unchanged -- given that the callees listed in `passes_live_to` do not mutate *)
Theorem C17_observers : forall s k v, t_step (OObserve k v) s = s.
Proof. exact observers_identity. Qed.
Theorem C17_observers_getitem : forall s v i, t_step (OGetItem v i) s = s.
Proof. exact getitem_identity. Qed.

(* refinement: for histories whose inputs contain no SHIFT_COORDS there is a reference run such that every
   wrapped circuit is REPEAT-free and equals the reference circuit up to unrolling and merging, and every
   user-held stim object likewise *)
Theorem C17_refine_partial : forall h, forallb noshift_op h = true ->
  exists r, ref_run h rst0 r /\ refines (t_run h) r.
Proof. exact refine_partial. Qed.

(* ... i.e. its canonical form is Stim's flattened() of the reference circuit *)
Theorem C17_refine_partial_flattened : forall h, forallb noshift_op h = true ->
  exists r, ref_run h rst0 r /\ refines (t_run h) r /\
    forall v, v < List.length (tv (t_run h)) -> fuse (flatten0 (tval (t_run h) v)) = flattened_l (nth v (rt r) []).
Proof. exact refine_partial_flattened. Qed.

(* hence equal measurement / detector / observable / qubit / tick counts (Stim's counters on the unflattened
   reference, loops multiplying) *)
Theorem C17_counts : forall s r, refines s r ->
  forall v, v < List.length (tv s) -> counts_c (tval s v) = counts_c (nth v (rt r) []).
Proof. exact refines_counts. Qed.

(* the unrestricted statement is FALSE of the code: flattening on entry removes SHIFT_COORDS, so coordinates
   of later-appended DETECTOR / QUBIT_COORDS differ from Stim's.  Witness:
   Circuit("SHIFT_COORDS(1)\nM 0").append_from_stim_program_text("DETECTOR(0) rec[-1]") *)
(* Stim's flattened() leaves no SHIFT_COORDS instruction behind, for any nesting of REPEAT blocks (so a wrapped circuit that
   still contains one is not the flattened circuit: the run-time comparison `not-flattened` of harness/props/c17.py) *)
Theorem C17_flattened_has_no_shift : forall c, forallb (fun i => negb (is_shift i)) (flattened_l c) = true.
Proof. exact flattened_no_shift. Qed.
Theorem C17_refine_refuted : exists h, forall r, ref_run h rst0 r -> ~ refines (t_run h) r.
Proof. exact refine_refuted. Qed.

(* non-vacuity: a history with nested-free REPEAT text, a REPEAT-containing stim operand, +=, *, pop, slicing,
   self-append and without_annotations satisfies the hypothesis of C17_refine_partial *)
Example C17_hypothesis_inhabited :
  forallb noshift_op example_history = true /\ List.length (tv (t_run example_history)) = 4 /\
  List.length (flatten0 (tval (t_run example_history) 0)) = 14.
Proof. exact example_history_ok. Qed.
