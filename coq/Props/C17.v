Require Import TV.Proofs.CircuitOpsProofs.
