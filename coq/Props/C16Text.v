(* C16 (text / tag half) -- every non-Clifford gate of circuit.inverse() is again a gate the simulator
   interprets, with exactly the negated angle.  Statements only; proofs are in Proofs/InverseTagProofs.v.
   (The matrix half -- doc(g) . doc(inv g) = 1 up to phase, U3(t,p,l)^-1 = U3(-t,-l,-p) -- is Props/C16.v.)

   `retag` (Model/InverseTag.v) is the model of what Circuit.inverse does to an `I[tag]` instruction of stim's
   inverse; which parameter is read for which slot, the negations, the f-strings and the formatting function are
   REGENERATED from tsim/circuit.py (gen/Gen_inverse.v); parse_parametric_tag is the C15 model over the regenerated
   regexes.  A decimal (m, k) stands for m / 10^k; dec_eq is equality of the rationals; dec_opp negation.
   The theorems hold for decimal literals of ANY magnitude and length (m, k unbounded); they are provable only
   because the angle is printed as an exact positional decimal -- with repr(float) (`-1e-05`, 17 significant digits)
   the generated `inv_fmt` is FmtFloatRepr and these proofs do not go through. *)
From Coq Require Import List Ascii String Bool ZArith.
Import ListNotations.
Require Import TV.Model.Regex TV.gen.Gen_regex TV.Model.ProgramText TV.Spec.TextSpec TV.gen.Gen_inverse
               TV.Model.InverseTag TV.Proofs.InverseTagProofs.
Open Scope Z_scope.

(* R_X / R_Y / R_Z: for every literal sg ++ body that is a decimal numeral (mantissa m, scale k) the tag
   R_a(theta=sg++body*pi) is replaced by a tag t that parse_parametric_tag reads as the same gate with
   theta = -(+-m / 10^k) exactly; no fuel artefact, no exception, no degradation to a plain identity *)
Theorem C16_tag_rotation : forall ax sg body m k,
  is_axis ax -> lit_shape sg body -> dec_body body m k ->
  exists t v,
    retag (rot_tag ax (sg ++ body)) = RTag t
    /\ parse_parametric_tag t = POk (lit "R_" ++ [ax]) [(lit "theta", v)]
    /\ dec_eq v (dec_opp (apply_sign sg m, k)).
Proof. exact retag_rotation. Qed.

(* U3(theta, phi, lambda) |-> U3(-theta, -lambda, -phi) *)
Theorem C16_tag_u3 : forall sg1 b1 sg2 b2 sg3 b3 m1 k1 m2 k2 m3 k3,
  lit_shape sg1 b1 -> lit_shape sg2 b2 -> lit_shape sg3 b3 ->
  dec_body b1 m1 k1 -> dec_body b2 m2 k2 -> dec_body b3 m3 k3 ->
  exists t v1 v2 v3,
    retag (u3_tag (sg1 ++ b1) (sg2 ++ b2) (sg3 ++ b3)) = RTag t
    /\ parse_parametric_tag t = POk (lit "U3") [(lit "theta", v1); (lit "phi", v2); (lit "lambda", v3)]
    /\ dec_eq v1 (dec_opp (apply_sign sg1 m1, k1))
    /\ dec_eq v2 (dec_opp (apply_sign sg3 m3, k3))
    /\ dec_eq v3 (dec_opp (apply_sign sg2 m2, k2)).
Proof. exact retag_u3. Qed.

(* the exact positional formatter: for x = +-m/10^k the loop ends within k+1 rounds and the text is
   sign, at least one integer digit, a dot, at least one fractional digit, denoting x exactly *)
Theorem C16_format_exact : forall (negate : bool) m k,
  exists sg ip fp,
    format_positional (S k) (frac_of negate (m, k)) = Some (sg ++ ip ++ "."%char :: fp)
    /\ (sg = [] \/ sg = ["-"%char]) /\ ip <> [] /\ fp <> []
    /\ forallb is_digit ip = true /\ forallb is_digit fp = true
    /\ apply_sign sg (digits_val (ip ++ fp)) * 10 ^ Z.of_nat k
       = (if negate then - m else m) * 10 ^ Z.of_nat (List.length fp).
Proof. exact format_positional_spec. Qed.

(* frame: instructions other than I, untagged I, and I with a tag that is not parametric are left to stim *)
Theorem C16_tag_frame : forall name tag,
  (str_eqb name inv_retag_name = false \/ tag = [] \/ parse_parametric_tag tag = PNone) ->
  inverse_instr_tag name tag = RKeep.
Proof. exact retag_frame. Qed.

(* non-vacuity and the historical witness: 0.00001, a 19-digit decimal, a large value *)
Example C16_ex_small_angle :
  retag (lit "R_Z(theta=0.00001*pi)") = RTag (lit "R_Z(theta=-0.00001*pi)")
  /\ parse_parametric_tag (lit "R_Z(theta=-0.00001*pi)") = POk (lit "R_Z") [(lit "theta", (-1, 5%nat))]
  /\ parse_parametric_tag (lit "R_Z(theta=-1e-05*pi)") = PNone.
Proof. vm_compute. repeat split. Qed.
Example C16_ex_many_digits :
  retag (lit "R_X(theta=0.1234567890123456789*pi)") = RTag (lit "R_X(theta=-0.1234567890123456789*pi)")
  /\ retag (lit "R_Y(theta=-12345678901234567890*pi)") = RTag (lit "R_Y(theta=12345678901234567890.0*pi)")
  /\ retag (lit "U3(theta=0.3*pi, phi=0.24*pi, lambda=+.490*pi)") = RTag (lit "U3(theta=-0.3*pi, phi=-0.49*pi, lambda=-0.24*pi)")
  /\ retag (lit "R_Z(theta=-0*pi)") = RTag (lit "R_Z(theta=0.0*pi)").
Proof. vm_compute. repeat split. Qed.
