(* C02 -- Pauli noise instructions act with their documented Paulis and probabilities.  Statements only.
   The gate functions and the probability-table constructors are regenerated from instructions.py / channels.py.
   Composition over whole circuits is validated by correspondence (harness/props/c02.py), not proved. *)
From Coq Require Import ZArith QArith Qcanon List Bool String Ring_theory.
Import ListNotations.
Require Import TV.Base.EP TV.Model.Lane TV.Spec.Born TV.gen.Gen_instructions TV.gen.Gen_channel_tables
  TV.Model.GateCheck TV.Model.InstrCheck TV.Proofs.InstrProofs.

(* which Pauli the spiders apply for every error-bit pattern: X/Y/Z_ERROR, PAULI_CHANNEL_1/2, DEPOLARIZE1/2, E(...) *)
Theorem C02_noise_paulis :
  check_pc1 = true /\ check_pc2 = true /\ check_single_errors = true /\ check_depolarize = true /\ check_correlated = true.
Proof. exact noise_ok. Qed.

(* ... and the table entry at that pattern is the argument Stim documents for that Pauli, for ALL argument values *)
Theorem C02_pauli_channel_1_table : forall px py pz idx, (idx < 4)%nat ->
  nth idx (table_of (ChPauli1 px py pz)) 0%Q = pc1_arg px py pz idx.
Proof. exact pc1_table. Qed.
Theorem C02_pauli_channel_2_table : forall a : list Q, List.length a = 15%nat -> forall idx, (0 < idx < 16)%nat ->
  nth idx (table_of (ChPauli2 a)) 0%Q = nth (pc2_arg_pos idx - 1) a 0%Q.
Proof. exact pc2_table. Qed.
Theorem C02_pauli_channel_2_identity : forall a : list Q, List.length a = 15%nat ->
  nth 0 (table_of (ChPauli2 a)) 0%Q == 1 - fold_right Qplus 0 a.
Proof. exact pc2_table_identity. Qed.
(* every one of the 3 resp. 15 non-identity outcomes of a depolarizing channel has probability p/3 resp. p/15 *)
Theorem C02_depolarize1 : forall p idx, (0 < idx < 4)%nat ->
  match chan_of (g_depolarize1 0%nat p) with [c] => nth idx (table_of c) 0%Q == p / 3 | _ => False end.
Proof. exact depolarize1_table. Qed.
Theorem C02_depolarize2 : forall p idx, (0 < idx < 16)%nat ->
  match chan_of (g_depolarize2 0%nat 1%nat p) with [c] => nth idx (table_of c) 0%Q == p / 15 | _ => False end.
Proof. exact depolarize2_table. Qed.
Theorem C02_error_table : forall p, table_of (ChError p) = [1 - p; p]%Q.
Proof. exact error_table. Qed.

(* CORRELATED_ERROR / ELSE_CORRELATED_ERROR chains of ANY length k: outcome i has probability
   (1-p_1)...(1-p_{i-1}) p_i, "no error" the product of all (1-p_j) (hand model of correlated_error_probs) *)
Theorem C02_correlated_chain : forall ps z i,
  let '(l, z') := corr_acc ps z i in
  z' == z * fold_right (fun p acc => (1 - p) * acc) 1 ps /\
  forall j, (j < List.length ps)%nat ->
    exists q, nth_error l j = Some (Nat.pow 2 (i + j), q) /\
              q == z * fold_right (fun p acc => (1 - p) * acc) 1 (firstn j ps) * nth j ps 0.
Proof. exact corr_acc_spec. Qed.

(* measurement noise M/MX/MY/MR*(p), MPP(p): flips the REPORTED bit only -- the post-measurement state is the
   projection onto the TRUE outcome r xor inv xor e (these are the noisy cases of the C01 tables) *)
Theorem C02_measurement_noise : forallb check_meas meas_fns = true /\ check_mpp = true.
Proof. split; [exact meas_ok | exact mpp_ok]. Qed.
