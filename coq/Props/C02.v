(* C02 -- Pauli noise instructions act with their documented Paulis and probabilities.  Statements only.
   The gate functions and the probability-table constructors are regenerated from instructions.py / channels.py.
   Composition over whole circuits is validated by correspondence (harness/props/c02.py), not proved. *)
From Coq Require Import ZArith QArith Qcanon List Bool String Ring_theory.
Import ListNotations.
Require Import TV.Base.EP TV.Model.Lane TV.Spec.Born TV.gen.Gen_instructions TV.gen.Gen_channel_tables
  TV.Model.GateCheck TV.Model.InstrCheck TV.Model.KrausCheck TV.Proofs.InstrProofs TV.Base.Amp
  TV.Proofs.CircuitTheorem TV.Proofs.DenseBridge TV.Proofs.KrausSem TV.Proofs.KrausTheorem TV.Proofs.KrausGates TV.Proofs.KrausNoise2 TV.Proofs.KrausChain TV.Proofs.KrausCircuit TV.Model.Parse TV.Proofs.ParseElab.

(* which Pauli the spiders apply for every error-bit pattern: X/Y/Z_ERROR, PAULI_CHANNEL_1/2, DEPOLARIZE1/2, E(...) *)
Theorem C02_noise_paulis :
  check_pc1 = true /\ check_pc2 = true /\ check_single_errors = true /\ check_depolarize = true /\ check_correlated = true.
Proof. exact noise_ok. Qed.

(* ... and the table entry at that pattern is the argument Stim documents for that Pauli, for ALL argument values *)
Theorem C02_pauli_channel_1_table : forall px py pz idx, (idx < 4)%nat ->
  nth idx (table_of (ChPauli1 px py pz)) 0%Q = pc1_arg px py pz idx.
Proof. exact pc1_table. Qed.
Theorem C02_pauli_channel_2_table : forall a : list Q, List.length a = 15%nat -> forall idx, (0 < idx < 16)%nat ->
  nth idx (table_of (ChPauli2 a)) 0%Q = nth (pc2_arg_pos idx - 1) a 0%Q.
Proof. exact pc2_table. Qed.
Theorem C02_pauli_channel_2_identity : forall a : list Q, List.length a = 15%nat ->
  nth 0 (table_of (ChPauli2 a)) 0%Q == 1 - fold_right Qplus 0 a.
Proof. exact pc2_table_identity. Qed.
(* every one of the 3 resp. 15 non-identity outcomes of a depolarizing channel has probability p/3 resp. p/15 *)
Theorem C02_depolarize1 : forall p idx, (0 < idx < 4)%nat ->
  match chan_of (g_depolarize1 0%nat p) with [c] => nth idx (table_of c) 0%Q == p / 3 | _ => False end.
Proof. exact depolarize1_table. Qed.
Theorem C02_depolarize2 : forall p idx, (0 < idx < 16)%nat ->
  match chan_of (g_depolarize2 0%nat 1%nat p) with [c] => nth idx (table_of c) 0%Q == p / 15 | _ => False end.
Proof. exact depolarize2_table. Qed.
Theorem C02_error_table : forall p, table_of (ChError p) = [1 - p; p]%Q.
Proof. exact error_table. Qed.

(* CORRELATED_ERROR / ELSE_CORRELATED_ERROR chains of ANY length k: outcome i has probability
   (1-p_1)...(1-p_{i-1}) p_i, "no error" the product of all (1-p_j) (hand model of correlated_error_probs) *)
Theorem C02_correlated_chain : forall ps z i,
  let '(l, z') := corr_acc ps z i in
  z' == z * fold_right (fun p acc => (1 - p) * acc) 1 ps /\
  forall j, (j < List.length ps)%nat ->
    exists q, nth_error l j = Some (Nat.pow 2 (i + j), q) /\
              q == z * fold_right (fun p acc => (1 - p) * acc) 1 (firstn j ps) * nth j ps 0.
Proof. exact corr_acc_spec. Qed.

(* measurement noise M/MX/MY/MR*(p), MPP(p): flips the REPORTED bit only -- the post-measurement state is the
   projection onto the TRUE outcome r xor inv xor e (these are the noisy cases of the C01 tables) *)
Theorem C02_measurement_noise : forallb check_meas meas_fns = true /\ check_mpp = true.
Proof. split; [exact meas_ok | exact mpp_ok]. Qed.


(* ======================= composition with noise ======================= *)
(* the single-qubit Pauli channels and the noisy measurements, entered on a lane in EVERY flag state, for every value of the
   record / silent / four error bits in their window: the error bits select the documented Pauli (x_error: X^e0, y_error: Y^e0,
   z_error: Z^e0, depolarize1 / pauli_channel_1: Z^e0 X^e1, i.e. table index e0 + 2 e1 -> I, Z, X, Y); a noisy measurement
   reports the true outcome xor its error bit while the post-measurement state follows the true outcome *)
Theorem C02_noise_fragments_every_entry_state :
  forallb check_noise1_at noise1_fns = true /\ forallb check_meas_noisy_at meas_fns = true.
Proof. exact (conj noise1_at_ok meas_noisy_at_ok). Qed.

(* the composition theorem of C01 with noise inside: circuits of GATE_TABLE gates, noiseless and NOISY single-qubit measurements,
   resets and single-qubit Pauli channels (X/Y/Z_ERROR, DEPOLARIZE1, PAULI_CHANNEL_1, any probabilities) on any lanes of a
   register of any size n.  For EVERY assignment b of record, silent and error bits the executable dense model computes the ordered
   composition of the documented operators -- with exactly the Paulis that b's error bits select -- times a bit-independent product
   of powers of sqrt2 and a unit phase.  Together with the table theorems above (entry idx of a channel's table = the documented
   probability of the Pauli drawn at idx) this is the mixture semantics of the channels, channel by channel.  The two-qubit
   channels (DEPOLARIZE2, PAULI_CHANNEL_2; instruction CN2) are inside too: on amplitudes and bookkeeping their program is the
   PAULI_CHANNEL_1 program on the first target followed by the one on the second (bits e0,e1 resp. e2,e3; C02_two_qubit_channel).
   Correlated chains are inside as well (instruction CE, C02_chain_element below); MPP noise stays at fragment level
   (C02_measurement_noise). *)
Theorem C02_circuit_dense :
  forall (R : Type) (rO rI : R) (radd rmul rsub : R -> R -> R) (ropp : R -> R),
  ring_theory rO rI radd rmul rsub ropp eq ->
  forall E : Qc -> R, (forall a b, E (a + b)%Qc = rmul (E a) (E b)) -> E 0%Qc = rI -> E 1%Qc = ropp rI ->
  forall half : R, radd half half = rI -> forall ta tb tc : Qc,
  forall (n : nat) (c : list cinstr) (ops : list (op nat)), ccircuit_ops c = Some ops -> forallb (cinstr_lanes_ok n) c = true ->
  ccircuit_ok R rO rI radd rmul ropp E half ta tb tc (kinit R rO rI n) c = true ->
  exists C, sq2 R rO rI radd rmul ropp E half ta tb tc C /\ forall b, exists e : Qc,
    st_of R rO rI radd rmul ropp E half ta tb tc n (final_vec (run n b ops (init_state n)))
    = Amp.scale R rmul (rmul (E e) C)
        (cspec R rO rI radd rmul ropp E half ta tb tc b (kinit R rO rI n) c (kpsi R (kinit R rO rI n))).
Proof. exact circuit_kraus_dense. Qed.

Theorem C02_two_qubit_channel :
  forall (R : Type) (rO rI : R) (radd rmul : R -> R -> R) (ropp : R -> R) (E : Qc -> R) (half : R) (ta tb tc : Qc)
         (b : Lane.bits) (qi qj : nat) (a1 a2 a3 a4 a5 a6 a7 a8 a9 a10 a11 a12 a13 a14 a15 x1 y1 z1 x2 y2 z2 : prob) (t : kst R),
  krun R rO rI radd rmul ropp E half ta tb tc b (g_pauli_channel_2 qi qj a1 a2 a3 a4 a5 a6 a7 a8 a9 a10 a11 a12 a13 a14 a15) t
  = krun R rO rI radd rmul ropp E half ta tb tc b (g_pauli_channel_1 qi x1 y1 z1 ++ g_pauli_channel_1 qj x2 y2 z2) t.
Proof. exact pc2_is_two_pc1. Qed.

Example C02_circuit_inhabited :
  let c := [CG (GA1 "H" 1); CN "x_error" [1 # 8] 1; CG (GA2 "CX" 1 0); CN "pauli_channel_1" [1 # 16; 1 # 8; 1 # 4] 0; CN "depolarize1" [3 # 4] 2; CN2 [1 # 16] 0 2;
            CMp "mr" (1 # 8) true 1; CN "y_error" [1 # 2] 1; CMp "mx" (1 # 1000) false 0; CM "my" false 2]%string%Q in
  (exists ops, ccircuit_ops c = Some ops /\ (20 < List.length ops)%nat) /\ forallb (cinstr_lanes_ok 3) c = true.
Proof. vm_compute. split; [eexists; split; [reflexivity | repeat constructor] | reflexivity]. Qed.

(* ONE ELEMENT OF A CORRELATED-ERROR CHAIN, anywhere in a circuit: `E(p) P1 q1 ... Pk qk` (first = true: the pending chain is closed
   first) or `ELSE_CORRELATED_ERROR(p) ...` applies, for every assignment b of the bits, the Pauli product P1 q1 ... Pk qk (a Y
   factor as Z.X) when the element's chain bit is set and nothing otherwise, times a power of sqrt 2 that depends on lane flags
   only; the chain bit is error bit number  num_error_bits + num_correlated_error_bits + rel  at the element (rel = error bits
   other channels take before the chain is closed).  Which element fires with which probability is C02_correlated_chain. *)
Theorem C02_chain_element :
  forall (R : Type) (rO rI : R) (radd rmul rsub : R -> R -> R) (ropp : R -> R),
  ring_theory rO rI radd rmul rsub ropp eq ->
  forall E : Qc -> R, E 0%Qc = rI -> forall (half : R) (ta tb tc : Qc),
  forall (first : bool) (tg : list (pauli * nat)) (p : Q) (rel : Z) (sk : kst R),
  exists C, sq2 R rO rI radd rmul ropp E half ta tb tc C /\ forall b t, skel_eq R t sk ->
    kfinal R rmul (krun R rO rI radd rmul ropp E half ta tb tc b (ce_ops first tg p rel) t)
    = Amp.scale R rmul (rmul (E 0%Qc) C)
        (if bit (berr b) (knerr R sk + kncorr R sk + Z.to_nat rel)%nat
         then link_spec R rO rI radd rmul ropp E half ta tb tc (link_ops tg rel) (kfinal R rmul t) else kfinal R rmul t).
Proof. exact ce_sound. Qed.
(* non-vacuity, from program text: a chain of three elements interrupted by a Z_ERROR and closed after a noisy MRX, followed by a
   second chain, is read by the parse model as exactly the lane program of the elaborated circuit (with the chain bits renumbered
   as finalize_correlated_error does) -- so C01_parsed_text_is_kraus_product applies to it *)
Example C02_chain_from_text :
  let c := [ mkI "H" [] TagNone [TQ 0 false; TQ 1 false];
             mkI "E" [1 # 4] TagNone [TPauli PX 0 false; TPauli PY 2 false];
             mkI "ELSE_CORRELATED_ERROR" [1 # 2] TagNone [TPauli PZ 1 false];
             mkI "Z_ERROR" [1 # 8] TagNone [TQ 0 false];
             mkI "ELSE_CORRELATED_ERROR" [1 # 8] TagNone [TPauli PY 1 false; TPauli PX 2 false];
             mkI "MRX" [1 # 16] TagNone [TQ 2 true];
             mkI "E" [1 # 16] TagNone [TPauli PZ 2 false];
             mkI "M" [] TagNone [TQ 0 false; TQ 1 false; TQ 2 false] ]%string in
  match elab_circuit 3 c with
  | Some cs => parse_is_circuit 3 c cs && forallb (cinstr_lanes_ok 4) cs
               && existsb (fun i => match i with CE true _ _ 2%Z => true | _ => false end) cs
               && existsb (fun i => match i with CE false _ _ 1%Z => true | _ => false end) cs
  | None => false
  end = true.
Proof. vm_compute. reflexivity. Qed.
