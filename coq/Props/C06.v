(* C06 -- sampling probabilities obey the chain rule and are normalised; joint = product of the conditionals used;
   JIT and non-JIT paths are the same function.  Statements only; proofs in Proofs/SamplerProofs.v.
   plug_effect / plug_phase_count / plug_power_comp / outputs_to_plug / power2_base_of (compile/pipeline.py) and
   sc_* / py_dispatch / po_* / sp_result (sampler.py) are REGENERATED from /repo/src on every run.
   T is an ARBITRARY output tensor (list bool -> Q); that the compiled scalar programs of a component evaluate to the
   plugged tensor of its diagram is the pyzx oracle, validated numerically by harness/props/c06.py. *)
From Coq Require Import QArith Qabs ZArith List Bool Arith Permutation.
Import ListNotations.
Require Import TV.Base.ListPerm TV.gen.Gen_sampler_dispatch TV.Model.Sampler TV.Proofs.SamplerProofs.
Open Scope Q_scope.

(* _plug_outputs: k outputs plugged with X effects carrying the bits ms, the other n-k traced out: every output gets an
   effect, no stray power of sqrt2 remains, and the value is the marginal weight of the prefix ms *)
Theorem C06_plug : forall (T : tensor) n k ms, (k <= n)%nat -> length ms = k ->
  length (plug_effect n k) = n /\ plug_power n k ms = 0%Z /\ plug_coeff T n k ms == marg T n ms.
Proof. exact plug_correct. Qed.

(* all graphs of a component (normalisation and plugged ones) are rescaled by the same power of two *)
Theorem C06_common_scale : forall pw g g', power2_base_of pw g = power2_base_of pw g'.
Proof. exact power2_base_common. Qed.

Theorem C06_chain : forall (T : tensor) n p, (length p < n)%nat ->
  marg T n p == marg T n (p ++ [false]) + marg T n (p ++ [true]).
Proof. exact marg_chain. Qed.

Theorem C06_bounds : forall (T : tensor) n p, (forall x, 0 <= T x) -> (length p <= n)%nat -> 0 <= marg T n p <= marg T n [].
Proof. exact marg_bounds. Qed.

Theorem C06_norm_positive : forall (T : tensor) n x, (forall y, 0 <= T y) -> length x = n -> 0 < T x -> 0 < marg T n [].
Proof. exact marg_pos. Qed.

Theorem C06_total : forall (T : tensor) n, Qsum (map (marg T n) (all_bits n)) == marg T n [].
Proof. exact marg_total. Qed.

(* the conditionals do not depend on the common positive factor (dropped scalar, power2 balancing) *)
Theorem C06_balance : forall (T T' : tensor) c n p, 0 < c -> (forall x, T' x == c * T x) ->
  marg T' n p / marg T' n [] == marg T n p / marg T n [].
Proof. exact marg_balance. Qed.

(* the sampler, for ANY weight function obeying the chain rule (any number of outputs n) *)
Theorem C06_sampler_chain : forall (Wc : nat -> list bool -> Q) (f : list bool) (n : nat),
  (forall g ps, 0 <= Wc g ps) ->
  (forall p, (length p < n)%nat ->
     Wc (length p) (f ++ p) == Wc (S (length p)) (f ++ p ++ [false]) + Wc (S (length p)) (f ++ p ++ [true])) ->
  forall k, 0 < Wc 0%nat f ->
  let t := sample_component Wc f (n + 1) k in
  reach_valid t /\
  (forall m, length m = n ->
     mass (bits_eqb m) t == Wc n (f ++ m) / Wc 0%nat f /\
     Qprod (conds m t) == Wc n (f ++ m) / Wc 0%nat f /\
     follow m t = Some m) /\
  Qsum (map (fun m => mass (bits_eqb m) t) (all_bits n)) == 1.
Proof. exact sampler_abstract. Qed.

(* the sampler on the plugged weights of a non-negative tensor: every reachable Bernoulli parameter is a probability,
   P(return m) = w_n(m)/w_0 = product of the conditionals drawn along m, the draws m return m, total mass 1 *)
Theorem C06_sampler : forall (T : list bool -> tensor) nf n f k,
  (forall x, 0 <= T f x) -> length f = nf -> 0 < marg (T f) n [] ->
  let t := sample_component (W T nf n true) f (n + 1) k in
  reach_valid t /\
  (forall m, length m = n ->
     mass (bits_eqb m) t == marg (T f) n m / marg (T f) n [] /\
     Qprod (conds m t) == marg (T f) n m / marg (T f) n [] /\
     follow m t = Some m) /\
  Qsum (map (fun m => mass (bits_eqb m) t) (all_bits n)) == 1.
Proof. exact sampler_correct. Qed.

(* probability_of (joint mode, graphs [0, n]) = product over components of w_n/w_0 = product of the sequential sampler's masses *)
Theorem C06_joint : forall comps : list jcomp, Forall jcomp_ok comps ->
  probability_of (map jcomp_po comps) == Qprod (map jcomp_ratio comps) /\
  probability_of (map jcomp_po comps) == Qprod (map jcomp_seq_mass comps).
Proof. exact joint_correct. Qed.

(* sample_component (either branch of the dispatch) and the jitted function are the plain sampler *)
Theorem C06_jit : forall Wc f ng k,
  sample_component Wc f ng k = sample_component_plain Wc f ng /\
  sample_component_jit Wc f ng = sample_component_plain Wc f ng.
Proof. exact dispatch_same. Qed.

(* sample_program: concat(results)[argsort(concat(blocks))] puts the k-th value of component c at column blocks[c][k] *)
Theorem C06_reorder : forall (A : Type) (d : A) (blocks : list (list nat)) (results : list (list A)) (n : nat),
  Permutation (concat blocks) (seq 0 n) ->
  map (@length A) results = map (@length nat) blocks ->
  length (sample_program_row d blocks results) = n /\
  forall c k, (k < length (nth c blocks []))%nat ->
    let j := nth k (nth c blocks []) 0%nat in
    (j < n)%nat /\ nth j (sample_program_row d blocks results) d = nth k (nth c results []) d.
Proof. exact sample_program_reorder. Qed.

(* non-vacuity: a concrete correlated 2-output tensor (with one error bit) meets the hypotheses, and the model computes *)
Definition ex_T (f : list bool) : tensor :=
  tensor_of_table (if hd false f then [([false; true], 3 # 4); ([true; false], 1 # 4)]
                   else [([false; false], 1 # 2); ([true; true], 1 # 8); ([true; false], 3 # 8)]).
Example C06_hyp_inhabited : (forall x, 0 <= ex_T [false] x) /\ 0 < marg (ex_T [false]) 2 [].
Proof.
  split; [|vm_compute; reflexivity].
  intros x. unfold ex_T, tensor_of_table. cbn [hd find fst snd].
  repeat (match goal with |- context [if ?c then _ else _] => destruct c end); cbn [snd]; discriminate.
Qed.
Example C06_model_runs :
  map (fun m => Qred (mass (bits_eqb m) (sample_component (W ex_T 1 2 true) [false] 3 2))) (all_bits 2)
  = [1 # 2; 0; 3 # 8; 1 # 8].
Proof. vm_compute. reflexivity. Qed.
Example C06_reorder_example : sample_program_row 0%nat [[2]; [0; 3]; [1]]%nat [[20]; [0; 30]; [10]]%nat = [0; 10; 20; 30]%nat.
Proof. vm_compute. reflexivity. Qed.
