(* C01 -- measurement samples follow the Born rule.  Statements only.
   Proved here (for the model regenerated from instructions.py on every run): every collapsing / feedback
   FRAGMENT acts as the Kraus operator of Stim's semantics for every value of the record, silent and noise
   bits, with one bit-independent power of sqrt2 -- so the weights sum_s sum_x |amp|^2 of a record are
   proportional to the Born probabilities fragment by fragment.  The composition over whole circuits
   (lane bookkeeping, doubling, pyzx rewriting, decomposition, autoregressive sampling) is NOT proved here;
   it is validated on every run against an independent reference simulator on every joint outcome
   (harness/props/c01.py), see DESIGN.md 4.C01 (strength: partial).

   Proved in addition (second half of this file): the COMPOSITION for circuits of GATE_TABLE gates and noiseless single-qubit
   collapses (M MX MY MR MRX MRY with optional inversion, R RX RY) on any lanes of a register of any size, in any order:
   for every value of the record and silent bits, the dense lane interpreter (the executable model the correspondence run ties
   to tsim) computes the ordered composition of the documented operators, times a product of powers of sqrt2 that does NOT
   depend on the bits, times a unit phase (C01_circuit, C01_circuit_dense).  Squared and summed over the silent bits this is
   the Born weight of the record, up to one record-independent constant.  MPP, feedback, doubling, pyzx rewriting and the
   sampler stay outside these theorems. *)
From Coq Require Import ZArith QArith Qcanon List Bool String Ring_theory.
Import ListNotations.
Require Import TV.Base.EP TV.Base.EPSound TV.Base.Amp TV.Model.Lane TV.Spec.Born TV.gen.Gen_instructions TV.gen.Gen_channel_tables
  TV.Model.GateCheck TV.Model.InstrCheck TV.Model.KrausCheck TV.Proofs.GateProofs TV.Proofs.InstrProofs
  TV.Proofs.CircuitProofs TV.Proofs.CircuitTheorem TV.Proofs.DenseBridge TV.Proofs.KrausSem TV.Proofs.KrausLocal TV.Proofs.KrausTheorem
  TV.Proofs.KrausGates TV.Proofs.KrausCircuit TV.Proofs.KrausBorn TV.Proofs.KrausMpp TV.Model.Parse TV.Proofs.ParseElab TV.Proofs.ParseBorn TV.Proofs.ParseWeights TV.Proofs.ParseOk.

(* M MX MY MR MRX MRY x {plain, inverted} x {noiseless, noisy} x {existing lane, fresh lane} x all bits:
   Kraus(reported r, inversion inv, noise e) = projector / projector-and-reprepare onto outcome r xor inv xor e *)
Theorem C01_measure_fragments_partial : forallb check_meas meas_fns = true.
Proof. exact meas_ok. Qed.
(* R RX RY: |init><eig_s| summed over the silent bit s; fresh lane: prepares the +1 eigenstate *)
Theorem C01_reset_fragments_partial : forallb check_reset reset_fns = true.
Proof. exact reset_ok. Qed.
(* MPP on products of 1..3 Paulis (X, Y, Z mixed), inverted or not, noisy or not, auxiliary lane fresh or reused:
   (1 + (-1)^o P)/2 on the data qubits *)
Theorem C01_mpp_fragments_partial : check_mpp = true.
Proof. exact mpp_ok. Qed.
(* CX/CY/CZ rec q, CZ/XCZ/YCZ q rec: the Pauli is applied iff the referenced record bit is 1 *)
Theorem C01_feedback_fragments_partial : forallb check_fb fb_rows = true.
Proof. exact fb_ok. Qed.
(* editing the measurement record is rejected *)
Theorem C01_record_editing_rejected : forallb check_fb_rejected fb_rejected = true.
Proof. exact fb_rejected_ok. Qed.

(* how to read `agree_all cases = true` in any commutative ring with a character E and half:
   model matrix = E(e) * sqrt2^k * specification matrix, k the same for all bit values *)
Theorem C01_fragment_reading :
  forall (R : Type) (rO rI : R) (radd rmul rsub : R -> R -> R) (ropp : R -> R),
  ring_theory rO rI radd rmul rsub ropp eq ->
  forall E : Qc -> R, (forall a b, E (a + b)%Qc = rmul (E a) (E b)) -> E 0%Qc = rI -> E 1%Qc = ropp rI ->
  forall half : R, radd half half = rI -> forall ta tb tc : Qc,
  forall cases, agree_all cases = true ->
    exists k, forall c, In c cases -> exists e, In e clifford_phases /\
      prop_to R rO rI radd rmul ropp E half ta tb tc
        (rmul (E (expo_val ta tb tc e)) (eval R rO rI radd rmul ropp E half ta tb tc (psqrt2pow k))) (fst c) (snd c).
Proof. exact agree_all_sound. Qed.


(* ======================= composition ======================= *)
(* every collapse fragment entered on a lane in EVERY flag state (created or not, last spider Z or X), every bit value:
   documented Kraus operator, one power of sqrt2 per entry state, bit-independent effect on flags and counters *)
Theorem C01_collapse_fragments_every_entry_state :
  forallb check_meas_at meas_fns = true /\ forallb check_reset_at reset_fns = true.
Proof. exact (conj meas_at_ok reset_at_ok). Qed.

(* the dense interpreter on n lanes IS the amplitude-function interpreter, for every primitive (unitary, collapsing, noise,
   feedback, bookkeeping), every n, every bit assignment: no bound on the register *)
Theorem C01_dense_is_amplitude :
  forall (R : Type) (rO rI : R) (radd rmul rsub : R -> R -> R) (ropp : R -> R),
  ring_theory rO rI radd rmul rsub ropp eq ->
  forall E : Qc -> R, (forall a b, E (a + b)%Qc = rmul (E a) (E b)) -> E 0%Qc = rI -> E 1%Qc = ropp rI ->
  forall half : R, radd half half = rI -> forall ta tb tc : Qc,
  forall (n : nat) (b : bits) (ops : list (op nat)) (s : lstate) (t : kst R),
  brel R rO rI radd rmul ropp E half ta tb tc n s t -> forallb (wf_op n) ops = true ->
  brel R rO rI radd rmul ropp E half ta tb tc n (run n b ops s) (krun R rO rI radd rmul ropp E half ta tb tc b ops t).
Proof. exact run_bridge. Qed.

(* a one-lane program run at any lane q of any state applies the abstract 2x2 operator of its local run to lane q *)
Theorem C01_local :
  forall (R : Type) (rO rI : R) (radd rmul rsub : R -> R -> R) (ropp : R -> R),
  ring_theory rO rI radd rmul rsub ropp eq ->
  forall (E : Qc -> R) (half : R) (ta tb tc : Qc) (q : nat) (b : bits) (ops : list (op nat)) (t0 : kst R),
  forallb (one_lane_op 8) ops = true ->
  prel R radd rmul q t0 (krun R rO rI radd rmul ropp E half ta tb tc b (map (op_map (fun _ => q)) ops) t0)
       (lrun R rO rI radd rmul ropp E half ta tb tc b ops (linit R rO rI t0 q)).
Proof. exact local_run. Qed.

(* THE composition theorem, on amplitude functions: circuits of gates / measurements / resets, any lanes, any order.
   sq2 C: C is a product of powers of sqrt2; it is chosen before the bits b.  cspec composes the documented operators:
   gapp_doc (Stim's matrix), spec_meas_m (projector, or projector-and-reprepare, onto outcome rec xor inv),
   spec_reset_m (|init><eig_s| with the silent bit s; on a never-used lane the basis change to the +1 eigenstate), and for a
   record-controlled Pauli (CF) the Pauli if the referenced record bit is 1, nothing otherwise.
   kinv sk: every recorded measurement lane exists (true of the initial state and preserved by every primitive);
   ccircuit_ok: a feedback instruction refers to a record bit that exists at that point. *)
Theorem C01_circuit :
  forall (R : Type) (rO rI : R) (radd rmul rsub : R -> R -> R) (ropp : R -> R),
  ring_theory rO rI radd rmul rsub ropp eq ->
  forall E : Qc -> R, (forall a b, E (a + b)%Qc = rmul (E a) (E b)) -> E 0%Qc = rI -> E 1%Qc = ropp rI ->
  forall half : R, radd half half = rI -> forall ta tb tc : Qc,
  forall (c : list cinstr) (ops : list (op nat)), ccircuit_ops c = Some ops -> forall sk : kst R,
  kinv R sk -> ccircuit_ok R rO rI radd rmul ropp E half ta tb tc sk c = true ->
  exists C, sq2 R rO rI radd rmul ropp E half ta tb tc C /\
    forall b t, skel_eq R t sk -> exists e : Qc,
      kfinal R rmul (krun R rO rI radd rmul ropp E half ta tb tc b ops t)
      = Amp.scale R rmul (rmul (E e) C) (cspec R rO rI radd rmul ropp E half ta tb tc b sk c (kfinal R rmul t)).
Proof. exact circuit_kraus. Qed.

(* ... and about the executable dense model on n lanes, started in |0...0> (kinv holds of the initial state) *)
Theorem C01_circuit_dense :
  forall (R : Type) (rO rI : R) (radd rmul rsub : R -> R -> R) (ropp : R -> R),
  ring_theory rO rI radd rmul rsub ropp eq ->
  forall E : Qc -> R, (forall a b, E (a + b)%Qc = rmul (E a) (E b)) -> E 0%Qc = rI -> E 1%Qc = ropp rI ->
  forall half : R, radd half half = rI -> forall ta tb tc : Qc,
  forall (n : nat) (c : list cinstr) (ops : list (op nat)), ccircuit_ops c = Some ops -> forallb (cinstr_lanes_ok n) c = true ->
  ccircuit_ok R rO rI radd rmul ropp E half ta tb tc (kinit R rO rI n) c = true ->
  exists C, sq2 R rO rI radd rmul ropp E half ta tb tc C /\ forall b, exists e : Qc,
    st_of R rO rI radd rmul ropp E half ta tb tc n (final_vec (run n b ops (init_state n)))
    = Amp.scale R rmul (rmul (E e) C)
        (cspec R rO rI radd rmul ropp E half ta tb tc b (kinit R rO rI n) c (kpsi R (kinit R rO rI n))).
Proof. exact circuit_kraus_dense. Qed.

(* THE BORN WEIGHT.  In every commutative ring with a character E, half and a conjugation (conj E(q) = E(-q), conj half = half;
   true of C with E q = e^{i pi q}): the squared norm of the final dense vector of the lane program -- what the doubled diagram
   g ; g-adjoint evaluates for one assignment b of record, silent and error bits -- equals |C|^2 times the squared norm of the
   ordered product of the documented Kraus operators applied to |0...0>, with C chosen before b.  Summed over the silent bits this
   is, up to the single constant |C|^2, the quantum-mechanical probability of the record (for the error bits in b). *)
Theorem C01_born_weight :
  forall (R : Type) (rO rI : R) (radd rmul rsub : R -> R -> R) (ropp : R -> R),
  ring_theory rO rI radd rmul rsub ropp eq ->
  forall E : Qc -> R, (forall a b, E (a + b)%Qc = rmul (E a) (E b)) -> E 0%Qc = rI -> E 1%Qc = ropp rI ->
  forall half : R, radd half half = rI ->
  forall conj : R -> R, (forall a b, conj (radd a b) = radd (conj a) (conj b)) -> (forall a b, conj (rmul a b) = rmul (conj a) (conj b)) ->
  conj rI = rI -> (forall q, conj (E q) = E (- q)%Qc) -> conj half = half -> forall ta tb tc : Qc,
  forall (n : nat) (c : list cinstr) (ops : list (op nat)), ccircuit_ops c = Some ops -> forallb (cinstr_lanes_ok n) c = true ->
  ccircuit_ok R rO rI radd rmul ropp E half ta tb tc (kinit R rO rI n) c = true ->
  exists C, sq2 R rO rI radd rmul ropp E half ta tb tc C /\ forall b,
    eval R rO rI radd rmul ropp E half ta tb tc (norm2 (final_vec (run n b ops (init_state n))))
    = rmul (sqabs R rmul conj C)
        (rsum R rO radd (map (fun i => sqabs R rmul conj (cspec R rO rI radd rmul ropp E half ta tb tc b (kinit R rO rI n) c (kpsi R (kinit R rO rI n)) (Nat.testbit i)))
                             (seq 0 (dim n)))).
Proof. exact born_weight. Qed.

(* MPP is inside the domain of the composition theorem: the program drawn for `MPP P1*...*Pk` (noiseless) IS the program of the
   circuit `R aux; H aux; C-P1 aux q1; ...; C-Pk aux qk; H aux; M aux` (each C-P with the auxiliary lane as control), so a circuit
   containing MPPs is covered by C01_circuit after replacing each MPP by that circuit.  What this does not say is that the
   composition of these steps equals the projector (1 +- P1...Pk)/2 on the data lanes: that identity is proved per product for
   the seven mixed products of C01_mpp_fragments_partial (one to three factors) by computation, not for every k. *)
Theorem C01_mpp_is_circuit : forall aux ps inv, forallb (fun pq : pauli * nat => negb (Nat.eqb aux (snd pq))) ps = true ->
  ccircuit_ops (mpp_circuit aux ps inv) = Some (g_mpp aux ps inv qz).
Proof. exact mpp_is_circuit. Qed.
(* ... and for products of ANY length that circuit, composed from the documented operators (Stim's H and controlled Paulis, the
   |0><s| of the reset, the Z projector), IS the projector: the auxiliary lane is set to the outcome o = rec xor inv and the data
   lanes receive (1 + (-1)^o P)/2, P = the ordered product of the factors, applied to the state with the auxiliary lane read at the
   silent bit s (at 0 when the auxiliary lane was never used: it then holds |0>, which is the premise below and an invariant of the
   lane interpreter, C01_unused_lanes_hold_zero). *)
Theorem C01_mpp_projector :
  forall (R : Type) (rO rI : R) (radd rmul rsub : R -> R -> R) (ropp : R -> R),
  ring_theory rO rI radd rmul rsub ropp eq ->
  forall E : Qc -> R, (forall a b, E (a + b)%Qc = rmul (E a) (E b)) -> E 0%Qc = rI -> E 1%Qc = ropp rI ->
  forall half : R, radd half half = rI -> forall ta tb tc : Qc,
  forall (b : bits) (sk : kst R) (aux : nat) (ps : list (pauli * nat)) (inv : bool) (psi : Amp.state R),
  off aux ps -> (kex R sk aux = false -> forall y, y aux = true -> psi y = rO) ->
  let s := bit (bsil b) (knsil R sk) in
  let o := xorb (bit (brec b) (knrec R sk)) inv in
  let G : Amp.state R := fun y => psi (Amp.upd y aux (if kex R sk aux then s else false)) in
  cspec R rO rI radd rmul ropp E half ta tb tc b sk (mpp_circuit aux ps inv) psi
  = fun x => if Bool.eqb (x aux) o
             then rmul half (radd (G x) (rmul (sgn R rI ropp o) (appP R rO rI radd rmul ropp E half ta tb tc ps G x)))
             else rO.
Proof. exact mpp_projector. Qed.
Theorem C01_unused_lanes_hold_zero :
  forall (R : Type) (rO rI : R) (radd rmul rsub : R -> R -> R) (ropp : R -> R),
  ring_theory rO rI radd rmul rsub ropp eq ->
  forall (E : Qc -> R) (half : R) (ta tb tc : Qc) (n : nat) (b : bits) (ops : list (op nat)),
  ksupp R rO n (krun R rO rI radd rmul ropp E half ta tb tc b ops (kinit R rO rI n)).
Proof. intros R rO rI radd rmul rsub ropp Rth E half ta tb tc n b ops. exact (ksupp_run R rO rI radd rmul rsub ropp Rth E half ta tb tc n b ops _ (ksupp_init R rO rI n)). Qed.

Theorem C01_circuit_concat : forall c1 c2 o1 o2, ccircuit_ops c1 = Some o1 -> ccircuit_ops c2 = Some o2 -> ccircuit_ops (c1 ++ c2) = Some (o1 ++ o2).
Proof. exact ccircuit_ops_app. Qed.

(* non-vacuity: a circuit with gates on non-adjacent lanes, an inverted measure-reset, a reset of a used lane, a reset of a
   never-used lane and a Y-basis measurement is in the domain of the theorems *)
Definition C01_example_circuit : list cinstr :=
  [CG (GA1 "H" 0); CG (GA2 "CX" 0 3); CG (GA1 "S_DAG" 3); CM "mr" true 3; CF "CY rec q" 0 1; CR "rx" 0; CR "ry" 2; CG (GA2 "ISWAP" 2 1);
   CM "my" false 0; CF "XCZ q rec" 1 3; CF "CZ q rec" 0 0; CM "mx" false 2]%string.
Example C01_circuit_inhabited :
  (exists ops, ccircuit_ops C01_example_circuit = Some ops /\ (20 < List.length ops)%nat) /\ forallb (cinstr_lanes_ok 4) C01_example_circuit = true.
Proof. vm_compute. split; [eexists; split; [reflexivity | repeat constructor] | reflexivity]. Qed.
Example C01_circuit_inhabited_ok :
  forall (R : Type) (rO rI : R) (radd rmul : R -> R -> R) (ropp : R -> R) (E : Qc -> R) (half : R) (ta tb tc : Qc),
  ccircuit_ok R rO rI radd rmul ropp E half ta tb tc (kinit R rO rI 4) C01_example_circuit = true.
Proof. intros. lazy. reflexivity. Qed.

(* FROM PROGRAM TEXT.  Model/Parse.v models tsim/core/parse.py (instruction list with typed targets -> lane program); its output
   distribution is compared with the implementation's on every run.  ParseElab.elab_circuit reads the same instruction list as a
   circuit in the vocabulary of C01_circuit (broadcast = one application per target group in order; `!q` = inverted result; an
   argument of an M-family instruction = flip probability; CX rec[-k] q = Pauli controlled by the record bit; MPP = the circuit of
   C01_mpp_is_circuit, with a noisy measurement of the auxiliary qubit for MPP(p); S[T] = T; I[R_Z(theta=..*pi)] = the rotation, any
   angle; E / ELSE_CORRELATED_ERROR = chain elements numbered as finalize_correlated_error numbers them), and parse_is_circuit DECIDES that the lane
   program the parse model draws is the lane program of that circuit.  Whenever it says yes, the dense run of the parse model's
   program on |0...0> is, for every assignment of record / silent / error bits, the ordered product of the documented operators,
   times a bit-independent product of powers of sqrt 2 and a unit phase.  The harness evaluates the decision on every circuit of
   the model comparison and reports the coverage. *)
Theorem C01_parsed_text_is_kraus_product :
  forall (R : Type) (rO rI : R) (radd rmul rsub : R -> R -> R) (ropp : R -> R),
  ring_theory rO rI radd rmul rsub ropp eq ->
  forall E : Qc -> R, (forall a b, E (a + b)%Qc = rmul (E a) (E b)) -> E 0%Qc = rI -> E 1%Qc = ropp rI ->
  forall half : R, radd half half = rI -> forall ta tb tc : Qc,
  forall (n aux : nat) (c : list instr) (cs : list cinstr) (ps : pstate),
    build aux c = Some ps -> parse_is_circuit aux c cs = true ->
    forallb (cinstr_lanes_ok n) cs = true -> ccircuit_ok R rO rI radd rmul ropp E half ta tb tc (kinit R rO rI n) cs = true ->
    exists C, sq2 R rO rI radd rmul ropp E half ta tb tc C /\ forall b, exists e : Qc,
      st_of R rO rI radd rmul ropp E half ta tb tc n (final_vec (run n b (pops ps) (init_state n)))
      = Amp.scale R rmul (rmul (E e) C)
          (cspec R rO rI radd rmul ropp E half ta tb tc b (kinit R rO rI n) cs (kpsi R (kinit R rO rI n))).
Proof. exact parse_kraus. Qed.
(* non-vacuity: a text with broadcast gates, T, rotations with generic angles, U3, inverted and noisy measurements, feedback in both
   target orders, single- and two-qubit channels, MPP with an inverted factor, resets, annotations and skipped instructions
   elaborates (31 instructions of the small vocabulary), is accepted by the parse model and passes the decision *)
Example C01_parsed_text_inhabited :
  match elab_circuit 3 elab_example with
  | Some cs => parse_is_circuit 3 elab_example cs && forallb (cinstr_lanes_ok 4) cs && Nat.ltb 20 (List.length cs)
  | None => false
  end = true.
Proof. exact elab_example_ok. Qed.
Example C01_parsed_text_inhabited_ok :
  forall (R : Type) (rO rI : R) (radd rmul : R -> R -> R) (ropp : R -> R) (E : Qc -> R) (half : R) (ta tb tc : Qc),
  match elab_circuit 3 elab_example with
  | Some cs => ccircuit_ok R rO rI radd rmul ropp E half ta tb tc (kinit R rO rI 4) cs
  | None => false
  end = true.
Proof. intros. lazy. reflexivity. Qed.

(* ... and the Born weight from program text: Model/Parse.weights -- the numbers whose normalised form the correspondence run compares
   with the distribution tsim's sampler uses on every run -- are squared norms of final dense vectors of the parse model's lane
   program.  For every text whose parse is the lane program of its elaborated circuit, that squared norm is |C|^2 times the squared
   norm of the ordered product of the documented Kraus operators applied to |0...0>, with C a product of powers of sqrt 2 chosen
   before the record, silent and error bits. *)
Theorem C01_parsed_text_born_weight :
  forall (R : Type) (rO rI : R) (radd rmul rsub : R -> R -> R) (ropp : R -> R),
  ring_theory rO rI radd rmul rsub ropp eq ->
  forall E : Qc -> R, (forall a b, E (a + b)%Qc = rmul (E a) (E b)) -> E 0%Qc = rI -> E 1%Qc = ropp rI ->
  forall half : R, radd half half = rI ->
  forall conj : R -> R, (forall a b, conj (radd a b) = radd (conj a) (conj b)) -> (forall a b, conj (rmul a b) = rmul (conj a) (conj b)) ->
  conj rI = rI -> (forall q, conj (E q) = E (- q)%Qc) -> conj half = half -> forall ta tb tc : Qc,
  forall (n aux : nat) (c : list instr) (cs : list cinstr) (ps : pstate),
    build aux c = Some ps -> parse_is_circuit aux c cs = true ->
    forallb (cinstr_lanes_ok n) cs = true -> ccircuit_ok R rO rI radd rmul ropp E half ta tb tc (kinit R rO rI n) cs = true ->
    exists C, sq2 R rO rI radd rmul ropp E half ta tb tc C /\ forall b,
      eval R rO rI radd rmul ropp E half ta tb tc (norm2 (final_vec (run n b (pops ps) (init_state n))))
      = rmul (sqabs R rmul conj C)
          (rsum R rO radd (map (fun i => sqabs R rmul conj (cspec R rO rI radd rmul ropp E half ta tb tc b (kinit R rO rI n) cs (kpsi R (kinit R rO rI n)) (Nat.testbit i)))
                               (seq 0 (dim n)))).
Proof. exact parsed_born_weight. Qed.

(* ... and the very number the correspondence run evaluates: Model/Parse.weight n ops rec err (the sum over the silent bits of the
   squared norms; its normalised form is compared with the distribution tsim's sampler uses, for every record and error assignment,
   on every run) equals |C|^2 times the sum over the silent bits of the squared norms of the ordered product of the documented Kraus
   operators applied to |0...0> -- the Born weight of the record, for that error assignment, up to one constant. *)
Theorem C01_parsed_text_weight :
  forall (R : Type) (rO rI : R) (radd rmul rsub : R -> R -> R) (ropp : R -> R),
  ring_theory rO rI radd rmul rsub ropp eq ->
  forall E : Qc -> R, (forall a b, E (a + b)%Qc = rmul (E a) (E b)) -> E 0%Qc = rI -> E 1%Qc = ropp rI ->
  forall half : R, radd half half = rI ->
  forall conj : R -> R, (forall a b, conj (radd a b) = radd (conj a) (conj b)) -> (forall a b, conj (rmul a b) = rmul (conj a) (conj b)) ->
  conj rI = rI -> (forall q, conj (E q) = E (- q)%Qc) -> conj half = half -> forall ta tb tc : Qc,
  forall (n aux : nat) (c : list instr) (cs : list cinstr) (ps : pstate),
    build aux c = Some ps -> parse_is_circuit aux c cs = true ->
    forallb (cinstr_lanes_ok n) cs = true -> ccircuit_ok R rO rI radd rmul ropp E half ta tb tc (kinit R rO rI n) cs = true ->
    exists C, sq2 R rO rI radd rmul ropp E half ta tb tc C /\ forall rec err,
      eval R rO rI radd rmul ropp E half ta tb tc (weight n (pops ps) rec err)
      = rmul (sqabs R rmul conj C)
          (rsum R rO radd (map (fun sil => kraus_norm R rO rI radd rmul ropp E half conj ta tb tc n cs (mkB rec sil err))
                               (bitvecs (snd (fst (counts n (pops ps))))))).
Proof. exact parsed_weight. Qed.

(* EVERY HYPOTHESIS DECIDABLE.  The bookkeeping hypothesis (every record a feedback instruction refers to exists) only depends on the
   number of non-silent measurements drawn so far -- a computation on natural numbers (ParseOk.ccircuit_ok_nat, proved to imply the
   ring-level hypothesis in every ring).  parsed_ok n aux c cs is a boolean; the harness evaluates it for every circuit of the model
   comparison, and whenever it is true the parsed text is the ordered product of the documented operators. *)
Theorem C01_parsed_text_decidable :
  forall (R : Type) (rO rI : R) (radd rmul rsub : R -> R -> R) (ropp : R -> R),
  ring_theory rO rI radd rmul rsub ropp eq ->
  forall E : Qc -> R, (forall a b, E (a + b)%Qc = rmul (E a) (E b)) -> E 0%Qc = rI -> E 1%Qc = ropp rI ->
  forall half : R, radd half half = rI -> forall ta tb tc : Qc,
  forall (n aux : nat) (c : list instr) (cs : list cinstr) (ps : pstate),
    build aux c = Some ps -> parsed_ok n aux c cs = true ->
    exists C, sq2 R rO rI radd rmul ropp E half ta tb tc C /\ forall b, exists e : Qc,
      st_of R rO rI radd rmul ropp E half ta tb tc n (final_vec (run n b (pops ps) (init_state n)))
      = Amp.scale R rmul (rmul (E e) C)
          (cspec R rO rI radd rmul ropp E half ta tb tc b (kinit R rO rI n) cs (kpsi R (kinit R rO rI n))).
Proof. exact parse_kraus_dec. Qed.
Example C01_parsed_text_decidable_inhabited :
  match elab_circuit 3 elab_example with Some cs => parsed_ok 4 3 elab_example cs | None => false end = true.
Proof. exact parsed_ok_example. Qed.
