(* C01 -- measurement samples follow the Born rule.  Statements only.
   Proved here (for the model regenerated from instructions.py on every run): every collapsing / feedback
   FRAGMENT acts as the Kraus operator of Stim's semantics for every value of the record, silent and noise
   bits, with one bit-independent power of sqrt2 -- so the weights sum_s sum_x |amp|^2 of a record are
   proportional to the Born probabilities fragment by fragment.  The composition over whole circuits
   (lane bookkeeping, doubling, pyzx rewriting, decomposition, autoregressive sampling) is NOT proved here;
   it is validated on every run against an independent reference simulator on every joint outcome
   (harness/props/c01.py), see DESIGN.md 4.C01 (strength: partial). *)
From Coq Require Import ZArith QArith Qcanon List Bool String Ring_theory.
Import ListNotations.
Require Import TV.Base.EP TV.Base.EPSound TV.Model.Lane TV.Spec.Born TV.gen.Gen_instructions TV.gen.Gen_channel_tables
  TV.Model.GateCheck TV.Model.InstrCheck TV.Proofs.GateProofs TV.Proofs.InstrProofs.

(* M MX MY MR MRX MRY x {plain, inverted} x {noiseless, noisy} x {existing lane, fresh lane} x all bits:
   Kraus(reported r, inversion inv, noise e) = projector / projector-and-reprepare onto outcome r xor inv xor e *)
Theorem C01_measure_fragments_partial : forallb check_meas meas_fns = true.
Proof. exact meas_ok. Qed.
(* R RX RY: |init><eig_s| summed over the silent bit s; fresh lane: prepares the +1 eigenstate *)
Theorem C01_reset_fragments_partial : forallb check_reset reset_fns = true.
Proof. exact reset_ok. Qed.
(* MPP on products of 1..3 Paulis (X, Y, Z mixed), inverted or not, noisy or not, auxiliary lane fresh or reused:
   (1 + (-1)^o P)/2 on the data qubits *)
Theorem C01_mpp_fragments_partial : check_mpp = true.
Proof. exact mpp_ok. Qed.
(* CX/CY/CZ rec q, CZ/XCZ/YCZ q rec: the Pauli is applied iff the referenced record bit is 1 *)
Theorem C01_feedback_fragments_partial : forallb check_fb fb_rows = true.
Proof. exact fb_ok. Qed.
(* editing the measurement record is rejected *)
Theorem C01_record_editing_rejected : forallb check_fb_rejected fb_rejected = true.
Proof. exact fb_rejected_ok. Qed.

(* how to read `agree_all cases = true` in any commutative ring with a character E and half:
   model matrix = E(e) * sqrt2^k * specification matrix, k the same for all bit values *)
Theorem C01_fragment_reading :
  forall (R : Type) (rO rI : R) (radd rmul rsub : R -> R -> R) (ropp : R -> R),
  ring_theory rO rI radd rmul rsub ropp eq ->
  forall E : Qc -> R, (forall a b, E (a + b)%Qc = rmul (E a) (E b)) -> E 0%Qc = rI -> E 1%Qc = ropp rI ->
  forall half : R, radd half half = rI -> forall ta tb tc : Qc,
  forall cases, agree_all cases = true ->
    exists k, forall c, In c cases -> exists e, In e clifford_phases /\
      prop_to R rO rI radd rmul ropp E half ta tb tc
        (rmul (E (expo_val ta tb tc e)) (eval R rO rI radd rmul ropp E half ta tb tc (psqrt2pow k))) (fst c) (snd c).
Proof. exact agree_all_sound. Qed.
