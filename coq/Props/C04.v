(* C04 -- stabilizer circuits of realistic size agree with Stim.  Statements only.
   The size-independent facts: arithmetic never wraps for stabilizer-type scalars (C09, on the regenerated prod),
   conditionals are invariant under the per-component power-of-two rescaling.  Component partition / output ownership
   is C11_components, the column re-ordering is C06_reorder (re-stated in those files).  Agreement with Stim's tableau
   semantics on concrete large circuits is validated by replay of every sampled shot (harness/props/c04.py). *)
From Coq Require Import ZArith QArith Qpower List.
Import ListNotations.
Require Import TV.Base.Wrap32 TV.Base.D8 TV.gen.Gen_exact_scalar TV.Model.ExactScalar TV.Proofs.ExactScalarProofs
  TV.Proofs.CliffordProd TV.Proofs.BalanceProofs.
Require TV.Props.C06 TV.Props.C11.

(* a component with ANY number of correlated outputs: the product of its stabilizer-type term values (raw table
   values 2, 0, i^k, i^k(1+i)) is exact in ANY bracketing of the associative scan -- no int32 wrap *)
Theorem C04_no_wrap_for_stabilizer_components : prod_reduces = true -> forall t,
  Forall (fun x => In (fst x) cliff_raw /\ snd x = 0%Z) (tree_leaves t) ->
  (Z.of_nat (tree_nodes t) < 2 ^ 28)%Z ->
  exists c p, tree_eval t = Some (c, p) /\ In c cliff_raw /\ (0 <= p <= 2 * Z.of_nat (tree_nodes t))%Z /\
              q4_scale (2 ^ p) c = fold_left scalar_mul (map fst (tree_leaves t)) q4_one.
Proof. exact tree_cliff_exact. Qed.
Theorem C04_prod_reduces_in_source : prod_reduces = true.
Proof. reflexivity. Qed.

(* power-of-two balancing between the graphs of a component does not change any conditional probability *)
Theorem C04_balance : forall (k : Z) (p1 prev : Q), ~ prev == 0 ->
  ((2 # 1) ^ k * p1) / ((2 # 1) ^ k * prev) == p1 / prev.
Proof. exact conditional_invariant_under_rescaling. Qed.
Theorem C04_balance_update : forall (k : Z) (p1 prev : Q) (bit : bool),
  (if bit then (2 # 1) ^ k * p1 else (2 # 1) ^ k * prev - (2 # 1) ^ k * p1) == (2 # 1) ^ k * (if bit then p1 else prev - p1).
Proof. exact update_commutes_with_rescaling. Qed.
Theorem C04_balance_positive : forall (k : Z) (w : Q), 0 < w -> 0 < (2 # 1) ^ k * w.
Proof. exact rescaling_preserves_positivity. Qed.

(* component split and output index bookkeeping, for graphs of any size (= C11_components) and the final column
   re-ordering combined[:, argsort(output_order)] for ANY partition of the outputs into per-component blocks
   (= C06_reorder): the hypothesis of the second is a conclusion of the first *)
Definition C04_partition := TV.Props.C11.C11_components.
Definition C04_reorder := TV.Props.C06.C06_reorder.
