(* C03 -- detector and observable samples are the parities of the measurement record.  Statements only.
   What is proved: the column layout and the parity bookkeeping of the model (Model/Parse.v), with the order in
   which build_sampling_graph creates the annotation outputs REGENERATED from core/graph.py.  That the X spider
   wired to the record spiders computes the XOR is pyzx-level (oracle), validated on every run by comparing the
   detector sampler's exact joint distribution with the parities of the reference simulator's record distribution. *)
From Coq Require Import ZArith QArith List Bool Arith String Permutation.
Import ListNotations.
Require Import TV.Base.EP TV.Model.Lane TV.Model.Parse TV.gen.Gen_sampling_graph TV.Proofs.AnnotProofs.

(* observable column k is logical observable k, k = 0 .. max declared index: any declaration order, any gaps *)
Theorem C03_observable_outputs_in_index_order : forall keys, obs_output_order keys = seq 0 (max_succ keys).
Proof. exact obs_outputs_in_index_order. Qed.
Theorem C03_observable_count : forall keys, List.length (obs_output_order keys) = max_succ keys.
Proof. exact obs_output_count. Qed.
Theorem C03_declared_index_has_its_column : forall keys k, In k keys -> nth k (obs_output_order keys) (max_succ keys) = k.
Proof. exact declared_index_has_column. Qed.
Theorem C03_detector_outputs_in_declaration_order : forall nd, det_output_order nd = seq 0 nd.
Proof. reflexivity. Qed.
(* the model's layout: detectors in declaration order, then observables 0..K-1 with K = num_observables = max+1 *)
Theorem C03_columns : forall s,
  List.length (det_columns s) = (List.length (pdets s) + num_observables s)%nat /\
  (forall j, (j < List.length (pdets s))%nat -> nth j (det_columns s) [] = nth j (pdets s) []) /\
  (forall k, (k < num_observables s)%nat -> nth (List.length (pdets s) + k) (det_columns s) [] = obs_targets s k).
Proof. exact det_columns_layout. Qed.
Theorem C03_num_observables : forall s, num_observables s = max_succ (map fst (pobs s)).
Proof. exact num_observables_is_max_succ. Qed.
(* all OBSERVABLE_INCLUDE(k) accumulate into observable k; parities add; repeated targets cancel *)
Theorem C03_accumulate : forall dets pobs_ k recs k' nm ops,
  obs_targets (mkPS ops nm dets (pobs_ ++ [(k, recs)])) k' =
  obs_targets (mkPS ops nm dets pobs_) k' ++ (if Nat.eqb k k' then recs else []).
Proof. exact obs_targets_accumulate. Qed.
Theorem C03_parity_additive : forall l1 l2 r, parity (l1 ++ l2) r = xorb (parity l1 r) (parity l2 r).
Proof. exact parity_app. Qed.
Theorem C03_repeated_target_cancels : forall i r, parity [i; i] r = false.
Proof. exact parity_repeated. Qed.
(* the order of a detector's targets is irrelevant; detectors and observables are GF(2)-linear in the measurement record
   (so a record error e flips detector d exactly by parity d e); one flipped record bit flips a detector iff it is
   targeted an odd number of times *)
Theorem C03_target_order_irrelevant : forall l1 l2 r, Permutation l1 l2 -> parity l1 r = parity l2 r.
Proof. exact parity_perm. Qed.
Theorem C03_parity_linear_in_record : forall l r r1 r2, (forall i, nth i r false = xorb (nth i r1 false) (nth i r2 false)) ->
  parity l r = xorb (parity l r1) (parity l r2).
Proof. exact parity_linear. Qed.
Theorem C03_single_flip : forall l j r r', (forall i, nth i r' false = xorb (nth i r false) (Nat.eqb i j)) ->
  parity l r' = xorb (parity l r) (Nat.odd (count_occ Nat.eq_dec l j)).
Proof. exact parity_single_flip. Qed.
Theorem C03_detector_outcome_linear : forall s r r1 r2, (forall i, nth i r false = xorb (nth i r1 false) (nth i r2 false)) ->
  det_outcome s r = map (fun ab => xorb (fst ab) (snd ab)) (combine (det_outcome s r1) (det_outcome s r2)).
Proof. exact det_outcome_linear. Qed.
Example C03_single_flip_hyp_inhabited : forall i, nth i [true; true] false = xorb (nth i [true; false] false) (Nat.eqb i 1).
Proof. intros [|[|[|i]]]; reflexivity. Qed.
Theorem C03_observable_include_order_irrelevant : forall ops nm dets pobs1 pobs2 k r, Permutation pobs1 pobs2 ->
  parity (obs_targets (mkPS ops nm dets pobs1) k) r = parity (obs_targets (mkPS ops nm dets pobs2) k) r.
Proof. exact obs_include_order_irrelevant. Qed.
Theorem C03_lookback : forall nm k, tvalue nm (TRec k) = if (Nat.leb 1 k && Nat.leb k nm)%bool then Some (nm - k)%nat else None.
Proof. exact lookback_resolution. Qed.
Example C03_layout_example :
  obs_output_order [3; 1; 3]%nat = [0; 1; 2; 3]%nat.
Proof. reflexivity. Qed.
