(* C20 -- transversal encoders preserve logical semantics.  Statements only; proofs in Proofs/EncoderProofs.v and
   Base/PauliTableau.v.  `steane`, `color5` (class tables) and bt_index / det_index / obs_index / the stride and
   offset expressions of initialize / encode_transversally are regenerated from /repo/src/tsim/utils/encoder.py on
   every run (gen/Gen_encoder.v); Model/Encoder.v is the hand model of _transform_circuit and the two methods.

   Strength: C20_encode_*, C20_gate*_*, C20_meas_* are complete finite facts (vm_compute) about the Pauli-tableau
   action; C20_index_* hold for all programs on any number of logical qubits; C20_program_* are PREMISE-CARRYING:
   the step from "preserves the stabiliser group and induces G on the logical Paulis" to "acts as G on the code
   space", and the measurement statistics of code states, are the explicit hypothesis `PhysicsPremises`.  The
   lifting of the one-/two-qubit conjugation rules to n-qubit Pauli strings (tensor structure) is not proved in Coq
   (cross-checked against Stim at run time). *)
From Coq Require Import ZArith NArith List Bool String.
Import ListNotations.
Require Import TV.Base.PauliTableau TV.gen.Gen_encoder TV.Model.Encoder TV.Proofs.EncoderProofs.
Open Scope Z_scope.

(* ---- the conjugation table is justified by closed matrix identities M * mat P = mat P' * M over Z[i],
        M = sqrt2^k * (Stim's unitary) *)
Theorem C20_pauli_table_1q : forall nm tb k M u, In (nm, tb, (k, M)) gate1_table -> In u all_l1 ->
  meqb (mmul M (mat1 u)) (mmul (mat1 (conj_l1 tb u)) M) = true.
Proof. exact gate1_conj_rule. Qed.
Theorem C20_pauli_table_2q : forall nm tb k M u, In (nm, tb, (k, M)) gate2_table -> In u all_l2 ->
  meqb (mmul M (mat2 u)) (mmul (mat2 (conj_l2 tb u)) M) = true.
Proof. exact gate2_conj_rule. Qed.
Theorem C20_pauli_products :
  forallb (fun u => forallb (fun v => meqb (mat1 (l1mul u v)) (mmul (mat1 u) (mat1 v))) all_l1) all_l1 = true /\
  forallb (fun u => forallb (fun v => meqb (mat2 (l2mul u v)) (mmul (mat2 u) (mat2 v))) all_l2) all_l2 = true.
Proof. exact (conj l1mul_is_matrix_product l2mul_is_matrix_product). Qed.
Theorem C20_gate_matrices_unitary :
  forallb (fun e => scaled_unitary (snd e)) gate1_table && forallb (fun e => scaled_unitary (snd e)) gate2_table = true.
Proof. exact gate_matrices_scaled_unitary. Qed.

(* ---- the encoding circuits *)
Theorem C20_encode_steane : EncodeCorrect steane.
Proof. exact encode_steane. Qed.
Theorem C20_encode_color5 : EncodeCorrect color5.
Proof. exact encode_color5. Qed.

(* ---- transversal gates, with the table's expansions (S -> S,Z ...), act as their logical counterparts *)
Theorem C20_gate_steane : forall g, In g logical_gates1 ->
  PreservesStab steane (transversal1 steane g) /\ Induces1 steane (transversal1 steane g) g.
Proof. exact gate1_steane. Qed.
Theorem C20_gate_color5 : forall g, In g logical_gates1 ->
  PreservesStab color5 (transversal1 color5 g) /\ Induces1 color5 (transversal1 color5 g) g.
Proof. exact gate1_color5. Qed.
Theorem C20_gate2_steane : forall g, In g logical_gates2 ->
  PreservesStab2 steane (transversal2 steane g) /\ Induces2 steane (transversal2 steane g) g.
Proof. exact gate2_steane. Qed.
Theorem C20_gate2_color5 : forall g, In g logical_gates2 ->
  PreservesStab2 color5 (transversal2 color5 g) /\ Induces2 color5 (transversal2 color5 g) g.
Proof. exact gate2_color5. Qed.

(* every gate that has an entry in the expansion table (also beyond the gate set of the property) is a correct
   logical gate; EntryOk is defined in Proofs/EncoderProofs.v as the one-block or the two-block statement above *)
Theorem C20_table_entries_steane : forall g, In g (map fst (e_exps steane)) -> EntryOk steane g.
Proof. exact entries_steane. Qed.
Theorem C20_table_entries_color5 : forall g, In g (map fst (e_exps color5)) -> EntryOk color5 g.
Proof. exact entries_color5. Qed.

(* ---- transversal measurement and the rewritten annotations of one block *)
Theorem C20_meas_steane : MeasCorrect steane.
Proof. exact meas_steane. Qed.
Theorem C20_meas_color5 : MeasCorrect color5.
Proof. exact meas_color5. Qed.

(* ---- index arithmetic, any number of logical qubits *)
Theorem C20_index_blocks : forall n t off, 0 <= off < n -> t * n <= bt_index t n off < (t + 1) * n.
Proof. exact bt_index_block. Qed.
Theorem C20_index_blocks_disjoint : forall n t off t' off', 0 <= off < n -> 0 <= off' < n ->
  bt_index t n off = bt_index t' n off' -> t = t' /\ off = off'.
Proof. exact bt_index_inj. Qed.
Theorem C20_index_gate_1q : forall e g meta qs,
  String.eqb g "DETECTOR" = false -> String.eqb g "OBSERVABLE_INCLUDE" = false ->
  transversal e [mkI g meta true (map (fun q => [q]) qs) []]
  = map (fun nm => mkO nm meta (map OQ (flat_map (block (e_n e)) qs))) (gate_seq (e_exps e) g).
Proof. exact transversal_1q. Qed.
Theorem C20_index_gate_2q : forall e g meta pairs,
  String.eqb g "DETECTOR" = false -> String.eqb g "OBSERVABLE_INCLUDE" = false ->
  transversal e [mkI g meta true (map (fun ab => [fst ab; snd ab]) pairs) []]
  = map (fun nm => mkO nm meta (map OQ (pair_targets (e_n e) pairs))) (gate_seq (e_exps e) g).
Proof. exact transversal_2q. Qed.
Theorem C20_index_encoding : forall e groups blocks,
  broadcast_targets groups (init_enc_stride (e_n e) (e_encq e)) (map (init_enc_offset (e_n e) (e_encq e)) blocks)
  = flat_map (fun g => flat_map (fun j => map (fun t => t + e_n e * j) g) blocks) groups.
Proof. exact encoding_broadcast. Qed.
Theorem C20_index_preparation : forall e groups,
  broadcast_targets groups (init_prep_stride (e_n e) (e_encq e)) (init_prep_offsets (e_n e) (e_encq e))
  = map (fun t => t * e_n e + e_encq e) (List.concat groups).
Proof. exact prep_broadcast. Qed.
Theorem C20_index_lookback : forall n lrec qs j off, 0 < n -> 0 <= off < n -> (1 <= j <= List.length qs)%nat ->
  rec_lookup (flat_map (block n) (lrec ++ qs)) (- Z.of_nat j * n + off)
  = Some (nth (List.length qs - j) qs 0 * n + off).
Proof. exact lookback_hits_block. Qed.
(* all programs: the encoded annotations are exactly the listed supports inside the blocks of the logical
   measurements the original annotation refers to *)
Theorem C20_index : forall e, sups_ok e = true -> exps_safe (e_exps e) = true ->
  forall prog lrec, forallb wf_instr prog = true ->
  presolve (flat_map (block (e_n e)) lrec) (transversal e prog) = flat_map (expand_annot e) (lresolve lrec prog).
Proof. exact index_annotations. Qed.
Theorem C20_index_tables_ok :
  sups_ok steane = true /\ exps_safe (e_exps steane) = true /\ sups_ok color5 = true /\ exps_safe (e_exps color5) = true.
Proof. exact (conj sups_ok_steane (conj exps_safe_steane (conj sups_ok_color5 exps_safe_color5))). Qed.

(* ---- programs (PARTIAL: relative to PhysicsPremises, see Model/Encoder.v) *)
Theorem C20_program_steane_partial :
  forall implements prepares agree, PhysicsPremises steane implements prepares agree ->
  forall gates tail, prepares ->
  Forall gate_instr gates -> forallb wf_instr tail = true -> all_some (lresolve [] tail) ->
  agree (transversal steane gates) (presolve [] (transversal steane tail)) gates (lresolve [] tail).
Proof. exact (program_distribution steane sups_ok_steane exps_safe_steane encode_steane gate1_steane gate2_steane). Qed.
Theorem C20_program_color5_partial :
  forall implements prepares agree, PhysicsPremises color5 implements prepares agree ->
  forall gates tail, prepares ->
  Forall gate_instr gates -> forallb wf_instr tail = true -> all_some (lresolve [] tail) ->
  agree (transversal color5 gates) (presolve [] (transversal color5 tail)) gates (lresolve [] tail).
Proof. exact (program_distribution color5 sups_ok_color5 exps_safe_color5 encode_color5 gate1_color5 gate2_color5). Qed.
Theorem C20_program_unitary_steane_partial :
  forall implements prepares agree, PhysicsPremises steane implements prepares agree ->
  forall gates, Forall gate_instr gates -> implements (transversal steane gates) gates.
Proof. exact (program_unitary steane gate1_steane gate2_steane). Qed.
Theorem C20_program_unitary_color5_partial :
  forall implements prepares agree, PhysicsPremises color5 implements prepares agree ->
  forall gates, Forall gate_instr gates -> implements (transversal color5 gates) gates.
Proof. exact (program_unitary color5 gate1_color5 gate2_color5). Qed.

(* the table's expansions are needed: bare transversal S on the Steane code is not the logical S *)
Theorem C20_expansion_needed :
  induces1_b steane (transform (e_n steane) (trans_offsets steane) [] (e_stabs steane) (e_obs steane)
                               [mkI "S" 0 true [[0]] []]) "S" = false.
Proof. exact steane_bare_S_is_not_logical_S. Qed.

(* ---- non-vacuity *)
Example C20_gate_prog_inhabited :
  Forall gate_instr [mkI "H" 0 true (map (fun q => [q]) [0; 2]) []; mkI "S" 1 true (map (fun q => [q]) [1]) [];
                     mkI "CX" 2 true (map (fun ab => [fst ab; snd ab]) [(0, 1)]) []].
Proof. exact gate_prog_example. Qed.
(* M 0 1 2; DETECTOR rec[-1]; DETECTOR rec[-3] rec[-2]; OBSERVABLE_INCLUDE(..) rec[-2] on the Steane code *)
Example C20_tail_inhabited :
  forallb wf_instr example_tail = true /\ all_some (lresolve [] example_tail) /\
  presolve [] (transversal steane example_tail) =
    [("DETECTOR"%string, 1, map Some [14; 15; 16; 17]); ("DETECTOR"%string, 1, map Some [15; 16; 18; 19]);
     ("DETECTOR"%string, 1, map Some [16; 17; 18; 20]);
     ("DETECTOR"%string, 2, map Some [0; 1; 2; 3; 7; 8; 9; 10]); ("DETECTOR"%string, 2, map Some [1; 2; 4; 5; 8; 9; 11; 12]);
     ("DETECTOR"%string, 2, map Some [2; 3; 4; 6; 9; 10; 11; 13]);
     ("OBSERVABLE_INCLUDE"%string, 3, map Some [7; 8; 12])].
Proof. exact tail_example. Qed.
(* the physics premises are not contradictory (trivial instance; their intended reading is the comment in Model/Encoder.v) *)
Example C20_premises_consistent : forall e, PhysicsPremises e (fun _ _ => True) True (fun _ _ _ _ => True).
Proof. exact premises_consistent. Qed.
