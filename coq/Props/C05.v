(* C05 -- every gate denotes its documented unitary (statements only).
   `gate_table`, `unitary1/2`, `g_*` are regenerated from /repo/src/tsim/core/instructions.py on every run;
   `stim_unitaries`/`stim_aliases` are regenerated from the installed Stim's gate reference; doc_R*/doc_U3/doc_T
   are the README formulas (Spec/RotGates.v).  `mat n ops` is the matrix (list of columns) of the lane program
   `ops` on n lanes (Model/Lane.v); `prop_to c A D` says A = c * D entrywise in the ring R. *)
From Coq Require Import ZArith QArith Qcanon List Bool String Ring_theory.
Import ListNotations.
Require Import TV.Base.EP TV.Base.EPSound TV.Model.Lane TV.Spec.RotGates TV.gen.Gen_instructions TV.gen.Gen_stim_gates
  TV.Model.GateCheck TV.Proofs.GateProofs.

(* the finite table: every GATE_TABLE row whose name Stim documents as a unitary, in both target orders *)
Theorem C05_gate_table : forallb check_row gate_table = true.
Proof. exact gate_table_ok. Qed.
Theorem C05_gate_table_nonvacuous : (30 <= List.length unitary_rows)%nat.
Proof. exact unitary_rows_nonempty. Qed.

(* ... read in ANY commutative ring R with a character E (E(a+b)=E a E b, E 0 = 1, E 1 = -1, i.e. E q = e^{i pi q})
   and an element half (half+half=1): the gate's matrix is E(k/4) times Stim's documented matrix *)
Theorem C05_gate1 :
  forall (R : Type) (rO rI : R) (radd rmul rsub : R -> R -> R) (ropp : R -> R),
  ring_theory rO rI radd rmul rsub ropp eq ->
  forall E : Qc -> R, (forall a b, E (a + b)%Qc = rmul (E a) (E b)) -> E 0%Qc = rI -> E 1%Qc = ropp rI ->
  forall half : R, radd half half = rI -> forall ta tb tc : Qc,
  forall name fn D, In (name, (fn, 1%nat)) gate_table -> doc_of name = Some (1%nat, D) ->
  exists g e, assoc fn unitary1 = Some g /\ In e clifford_phases /\
    prop_to R rO rI radd rmul ropp E half ta tb tc (E (expo_val ta tb tc e)) (mat 1 (g 0%nat)) D.
Proof. exact gate1_sound. Qed.
Theorem C05_gate2 :
  forall (R : Type) (rO rI : R) (radd rmul rsub : R -> R -> R) (ropp : R -> R),
  ring_theory rO rI radd rmul rsub ropp eq ->
  forall E : Qc -> R, (forall a b, E (a + b)%Qc = rmul (E a) (E b)) -> E 0%Qc = rI -> E 1%Qc = ropp rI ->
  forall half : R, radd half half = rI -> forall ta tb tc : Qc,
  forall name fn D, In (name, (fn, 2%nat)) gate_table -> doc_of name = Some (2%nat, D) ->
  exists g e e', assoc fn unitary2 = Some g /\ In e clifford_phases /\ In e' clifford_phases /\
    prop_to R rO rI radd rmul ropp E half ta tb tc (E (expo_val ta tb tc e)) (mat 2 (g 0%nat 1%nat)) D /\
    prop_to R rO rI radd rmul ropp E half ta tb tc (E (expo_val ta tb tc e')) (mat 2 (g 1%nat 0%nat)) (swap_qubits D).
Proof. exact gate2_sound. Qed.

(* rotations: for EVERY angle (theta = 2 ta, phi = 2 tb, lambda = 2 tc with ta tb tc arbitrary rationals) *)
Theorem C05_rotations :
  forall (R : Type) (rO rI : R) (radd rmul rsub : R -> R -> R) (ropp : R -> R),
  ring_theory rO rI radd rmul rsub ropp eq ->
  forall E : Qc -> R, (forall a b, E (a + b)%Qc = rmul (E a) (E b)) -> E 0%Qc = rI -> E 1%Qc = ropp rI ->
  forall half : R, radd half half = rI -> forall ta tb tc : Qc,
    (exists e, prop_to R rO rI radd rmul ropp E half ta tb tc (E (expo_val ta tb tc e)) (mat 1 (g_r_z 0%nat theta)) doc_RZ) /\
    (exists e, prop_to R rO rI radd rmul ropp E half ta tb tc (E (expo_val ta tb tc e)) (mat 1 (g_r_x 0%nat theta)) doc_RX) /\
    (exists e, prop_to R rO rI radd rmul ropp E half ta tb tc (E (expo_val ta tb tc e)) (mat 1 (g_r_y 0%nat theta)) doc_RY) /\
    (exists e, prop_to R rO rI radd rmul ropp E half ta tb tc (E (expo_val ta tb tc e)) (mat 1 (g_u3 0%nat theta phi lambda)) doc_U3) /\
    (exists e, prop_to R rO rI radd rmul ropp E half ta tb tc (E (expo_val ta tb tc e)) (mat 1 (g_t 0%nat)) doc_T) /\
    (exists e, prop_to R rO rI radd rmul ropp E half ta tb tc (E (expo_val ta tb tc e)) (mat 1 (g_t_dag 0%nat)) doc_T_DAG).
Proof. exact rot_sound. Qed.

(* R_Z(1/4) equals T up to the phase E(-1/8) *)
Theorem C05_rz_quarter_is_T :
  forall (R : Type) (rO rI : R) (radd rmul rsub : R -> R -> R) (ropp : R -> R),
  ring_theory rO rI radd rmul rsub ropp eq ->
  forall E : Qc -> R, (forall a b, E (a + b)%Qc = rmul (E a) (E b)) -> E 0%Qc = rI -> E 1%Qc = ropp rI ->
  forall half : R, radd half half = rI -> forall tb tc : Qc, forall i j,
    eval R rO rI radd rmul ropp E half eighth tb tc (entry doc_RZ i j)
    = rmul (E (- eighth)%Qc) (eval R rO rI radd rmul ropp E half eighth tb tc (entry doc_T i j)).
Proof. exact rz_quarter_is_T. Qed.
