(* C05 -- every gate denotes its documented unitary (statements only).
   `gate_table`, `unitary1/2`, `g_*` are regenerated from /repo/src/tsim/core/instructions.py on every run;
   `stim_unitaries`/`stim_aliases` are regenerated from the installed Stim's gate reference; doc_R*/doc_U3/doc_T
   are the README formulas (Spec/RotGates.v).  `mat n ops` is the matrix (list of columns) of the lane program
   `ops` on n lanes (Model/Lane.v); `prop_to c A D` says A = c * D entrywise in the ring R. *)
From Coq Require Import ZArith QArith Qcanon List Bool String Ring_theory.
Import ListNotations.
Require Import TV.Base.EP TV.Base.EPSound TV.Model.Lane TV.Spec.RotGates TV.gen.Gen_instructions TV.gen.Gen_stim_gates
  TV.Model.GateCheck TV.Proofs.GateProofs TV.Base.Amp TV.Proofs.CircuitProofs TV.Proofs.CircuitTheorem
  TV.Proofs.DenseBridge TV.Proofs.KrausSem TV.Proofs.KrausCircuit TV.Proofs.KrausRot.

(* the finite table: every GATE_TABLE row whose name Stim documents as a unitary, in both target orders *)
Theorem C05_gate_table : forallb check_row gate_table = true.
Proof. exact gate_table_ok. Qed.
Theorem C05_gate_table_nonvacuous : (30 <= List.length unitary_rows)%nat.
Proof. exact unitary_rows_nonempty. Qed.

(* ... read in ANY commutative ring R with a character E (E(a+b)=E a E b, E 0 = 1, E 1 = -1, i.e. E q = e^{i pi q})
   and an element half (half+half=1): the gate's matrix is E(k/4) times Stim's documented matrix *)
Theorem C05_gate1 :
  forall (R : Type) (rO rI : R) (radd rmul rsub : R -> R -> R) (ropp : R -> R),
  ring_theory rO rI radd rmul rsub ropp eq ->
  forall E : Qc -> R, (forall a b, E (a + b)%Qc = rmul (E a) (E b)) -> E 0%Qc = rI -> E 1%Qc = ropp rI ->
  forall half : R, radd half half = rI -> forall ta tb tc : Qc,
  forall name fn D, In (name, (fn, 1%nat)) gate_table -> doc_of name = Some (1%nat, D) ->
  exists g e, assoc fn unitary1 = Some g /\ In e clifford_phases /\
    prop_to R rO rI radd rmul ropp E half ta tb tc (E (expo_val ta tb tc e)) (mat 1 (g 0%nat)) D.
Proof. exact gate1_sound. Qed.
Theorem C05_gate2 :
  forall (R : Type) (rO rI : R) (radd rmul rsub : R -> R -> R) (ropp : R -> R),
  ring_theory rO rI radd rmul rsub ropp eq ->
  forall E : Qc -> R, (forall a b, E (a + b)%Qc = rmul (E a) (E b)) -> E 0%Qc = rI -> E 1%Qc = ropp rI ->
  forall half : R, radd half half = rI -> forall ta tb tc : Qc,
  forall name fn D, In (name, (fn, 2%nat)) gate_table -> doc_of name = Some (2%nat, D) ->
  exists g e e', assoc fn unitary2 = Some g /\ In e clifford_phases /\ In e' clifford_phases /\
    prop_to R rO rI radd rmul ropp E half ta tb tc (E (expo_val ta tb tc e)) (mat 2 (g 0%nat 1%nat)) D /\
    prop_to R rO rI radd rmul ropp E half ta tb tc (E (expo_val ta tb tc e')) (mat 2 (g 1%nat 0%nat)) (swap_qubits D).
Proof. exact gate2_sound. Qed.

(* rotations: for EVERY angle (theta = 2 ta, phi = 2 tb, lambda = 2 tc with ta tb tc arbitrary rationals) *)
Theorem C05_rotations :
  forall (R : Type) (rO rI : R) (radd rmul rsub : R -> R -> R) (ropp : R -> R),
  ring_theory rO rI radd rmul rsub ropp eq ->
  forall E : Qc -> R, (forall a b, E (a + b)%Qc = rmul (E a) (E b)) -> E 0%Qc = rI -> E 1%Qc = ropp rI ->
  forall half : R, radd half half = rI -> forall ta tb tc : Qc,
    (exists e, prop_to R rO rI radd rmul ropp E half ta tb tc (E (expo_val ta tb tc e)) (mat 1 (g_r_z 0%nat theta)) doc_RZ) /\
    (exists e, prop_to R rO rI radd rmul ropp E half ta tb tc (E (expo_val ta tb tc e)) (mat 1 (g_r_x 0%nat theta)) doc_RX) /\
    (exists e, prop_to R rO rI radd rmul ropp E half ta tb tc (E (expo_val ta tb tc e)) (mat 1 (g_r_y 0%nat theta)) doc_RY) /\
    (exists e, prop_to R rO rI radd rmul ropp E half ta tb tc (E (expo_val ta tb tc e)) (mat 1 (g_u3 0%nat theta phi lambda)) doc_U3) /\
    (exists e, prop_to R rO rI radd rmul ropp E half ta tb tc (E (expo_val ta tb tc e)) (mat 1 (g_t 0%nat)) doc_T) /\
    (exists e, prop_to R rO rI radd rmul ropp E half ta tb tc (E (expo_val ta tb tc e)) (mat 1 (g_t_dag 0%nat)) doc_T_DAG).
Proof. exact rot_sound. Qed.

(* R_Z(1/4) equals T up to the phase E(-1/8) *)
Theorem C05_rz_quarter_is_T :
  forall (R : Type) (rO rI : R) (radd rmul rsub : R -> R -> R) (ropp : R -> R),
  ring_theory rO rI radd rmul rsub ropp eq ->
  forall E : Qc -> R, (forall a b, E (a + b)%Qc = rmul (E a) (E b)) -> E 0%Qc = rI -> E 1%Qc = ropp rI ->
  forall half : R, radd half half = rI -> forall tb tc : Qc, forall i j,
    eval R rO rI radd rmul ropp E half eighth tb tc (entry doc_RZ i j)
    = rmul (E (- eighth)%Qc) (eval R rO rI radd rmul ropp E half eighth tb tc (entry doc_T i j)).
Proof. exact rz_quarter_is_T. Qed.

(* ---------------------------------------------------------------------------------------------------------------
   Composition on registers of ANY size (amplitude functions, Base/Amp.v; uses functional extensionality).
   `U ops` is the operator (scalar included) that the unitary fragment of the lane program `ops` applies to a state;
   `app1 M a`, `app2 M a b` apply a one-/two-qubit matrix to lane a / lanes a,b of a state on any number of lanes. *)

(* a GATE_TABLE gate on ANY lane(s) of ANY register is its documented matrix applied there, times a unit phase *)
Theorem C05_gate1_anywhere :
  forall (R : Type) (rO rI : R) (radd rmul rsub : R -> R -> R) (ropp : R -> R),
  ring_theory rO rI radd rmul rsub ropp eq ->
  forall E : Qc -> R, (forall a b, E (a + b)%Qc = rmul (E a) (E b)) -> E 0%Qc = rI -> E 1%Qc = ropp rI ->
  forall half : R, radd half half = rI -> forall ta tb tc : Qc,
  forall name fn D, In (name, (fn, 1%nat)) gate_table -> doc_of name = Some (1%nat, D) ->
  exists g e, assoc fn unitary1 = Some g /\ In e clifford_phases /\
    forall a psi, U R rO rI radd rmul ropp E half ta tb tc (g a) psi =
      Amp.scale R rmul (E (expo_val ta tb tc e)) (Amp.app1 R radd rmul (m2f_doc R rO rI radd rmul ropp E half ta tb tc D) a psi).
Proof. exact gate1_anywhere. Qed.
Theorem C05_gate2_anywhere :
  forall (R : Type) (rO rI : R) (radd rmul rsub : R -> R -> R) (ropp : R -> R),
  ring_theory rO rI radd rmul rsub ropp eq ->
  forall E : Qc -> R, (forall a b, E (a + b)%Qc = rmul (E a) (E b)) -> E 0%Qc = rI -> E 1%Qc = ropp rI ->
  forall half : R, radd half half = rI -> forall ta tb tc : Qc,
  forall name fn D, In (name, (fn, 2%nat)) gate_table -> doc_of name = Some (2%nat, D) ->
  exists g e, assoc fn unitary2 = Some g /\ In e clifford_phases /\
    forall a b psi, a <> b -> U R rO rI radd rmul ropp E half ta tb tc (g a b) psi =
      Amp.scale R rmul (E (expo_val ta tb tc e)) (Amp.app2 R radd rmul (m4f_of R rO rI radd rmul ropp E half ta tb tc D) a b psi).
Proof. exact gate2_anywhere. Qed.
(* rotations, U3, T, T_DAG at any lane of any register, for every angle *)
Theorem C05_rotations_anywhere :
  forall (R : Type) (rO rI : R) (radd rmul rsub : R -> R -> R) (ropp : R -> R),
  ring_theory rO rI radd rmul rsub ropp eq ->
  forall E : Qc -> R, (forall a b, E (a + b)%Qc = rmul (E a) (E b)) -> E 0%Qc = rI -> E 1%Qc = ropp rI ->
  forall half : R, radd half half = rI -> forall ta tb tc : Qc,
    (exists e, forall a psi, U R rO rI radd rmul ropp E half ta tb tc (g_r_z a theta) psi = Amp.scale R rmul (E (expo_val ta tb tc e)) (Amp.app1 R radd rmul (m2f_doc R rO rI radd rmul ropp E half ta tb tc doc_RZ) a psi)) /\
    (exists e, forall a psi, U R rO rI radd rmul ropp E half ta tb tc (g_r_x a theta) psi = Amp.scale R rmul (E (expo_val ta tb tc e)) (Amp.app1 R radd rmul (m2f_doc R rO rI radd rmul ropp E half ta tb tc doc_RX) a psi)) /\
    (exists e, forall a psi, U R rO rI radd rmul ropp E half ta tb tc (g_r_y a theta) psi = Amp.scale R rmul (E (expo_val ta tb tc e)) (Amp.app1 R radd rmul (m2f_doc R rO rI radd rmul ropp E half ta tb tc doc_RY) a psi)) /\
    (exists e, forall a psi, U R rO rI radd rmul ropp E half ta tb tc (g_u3 a theta phi lambda) psi = Amp.scale R rmul (E (expo_val ta tb tc e)) (Amp.app1 R radd rmul (m2f_doc R rO rI radd rmul ropp E half ta tb tc doc_U3) a psi)) /\
    (exists e, forall a psi, U R rO rI radd rmul ropp E half ta tb tc (g_t a) psi = Amp.scale R rmul (E (expo_val ta tb tc e)) (Amp.app1 R radd rmul (m2f_doc R rO rI radd rmul ropp E half ta tb tc doc_T) a psi)) /\
    (exists e, forall a psi, U R rO rI radd rmul ropp E half ta tb tc (g_t_dag a) psi = Amp.scale R rmul (E (expo_val ta tb tc e)) (Amp.app1 R radd rmul (m2f_doc R rO rI radd rmul ropp E half ta tb tc doc_T_DAG) a psi)).
Proof. exact rotations_anywhere. Qed.
(* sequential composition *)
Theorem C05_sequential :
  forall (R : Type) (rO rI : R) (radd rmul rsub : R -> R -> R) (ropp : R -> R),
  ring_theory rO rI radd rmul rsub ropp eq ->
  forall (E : Qc -> R) (half : R) (ta tb tc : Qc) o1 o2 psi,
    U R rO rI radd rmul ropp E half ta tb tc (o1 ++ o2) psi = U R rO rI radd rmul ropp E half ta tb tc o2 (U R rO rI radd rmul ropp E half ta tb tc o1 psi).
Proof. exact U_app. Qed.
(* THE composition theorem: for every sequence of GATE_TABLE unitaries on any lanes (two-qubit gates on distinct lanes) of a
   register of any size, the drawn program acts as one unit phase E(q) times the documented gates applied in order *)
Theorem C05_circuit :
  forall (R : Type) (rO rI : R) (radd rmul rsub : R -> R -> R) (ropp : R -> R),
  ring_theory rO rI radd rmul rsub ropp eq ->
  forall E : Qc -> R, (forall a b, E (a + b)%Qc = rmul (E a) (E b)) -> E 0%Qc = rI -> E 1%Qc = ropp rI ->
  forall half : R, radd half half = rI -> forall ta tb tc : Qc,
  forall c ops, circuit_ops c = Some ops ->
    exists q : Qc, forall psi,
      U R rO rI radd rmul ropp E half ta tb tc ops psi =
      Amp.scale R rmul (E q) (fold_left (fun s x => gapp_doc R rO rI radd rmul ropp E half ta tb tc x s) c psi).
Proof. exact circuit_sound. Qed.
(* non-vacuity: a concrete circuit on lanes 0, 3, 7 with repeated and non-adjacent targets is accepted *)
Example C05_circuit_inhabited :
  exists ops, circuit_ops [GA1 "H" 3; GA2 "CX" 3 0; GA2 "ISWAP" 7 3; GA1 "S_DAG" 0; GA2 "XCY" 0 7; GA1 "C_XYZ" 3]%string%nat = Some ops
              /\ (10 <= List.length ops)%nat.
Proof. eexists. split; [vm_compute; reflexivity | vm_compute; repeat constructor]. Qed.

(* ... and about the executable dense model: column j of the matrix `mat n ops` that the lane interpreter computes on n lanes
   (the object compared with tsim's to_matrix on every run), read as an amplitude function, is the ordered product of the
   documented gate matrices applied to |j>, times ONE unit phase for the whole matrix; any register size n *)
Theorem C05_circuit_dense :
  forall (R : Type) (rO rI : R) (radd rmul rsub : R -> R -> R) (ropp : R -> R),
  ring_theory rO rI radd rmul rsub ropp eq ->
  forall E : Qc -> R, (forall a b, E (a + b)%Qc = rmul (E a) (E b)) -> E 0%Qc = rI -> E 1%Qc = ropp rI ->
  forall half : R, radd half half = rI -> forall ta tb tc : Qc,
  forall n c ops, circuit_ops c = Some ops -> forallb (fun x => cinstr_lanes_ok n (CG x)) c = true ->
    exists q : Qc, forall j,
      st_of R rO rI radd rmul ropp E half ta tb tc n (nth j (mat n ops) [])
      = Amp.scale R rmul (E q) (fold_left (fun s x => gapp_doc R rO rI radd rmul ropp E half ta tb tc x s) c (kpsi R (kbasis R rO rI n j)))
      \/ (dim n <= j)%nat.
Proof. exact circuit_mat_dense. Qed.

(* T, T_DAG, R_Z, R_X, R_Y and U3 with ARBITRARY angles, on any lane of any state.  An angle is an `expo` (k pi/4 plus an integer
   combination of three generic angles; the statement holds for all values of those) -- what the parse model carries for
   `I[R_Z(theta=..*pi)]`.  The operator is given through phase matrices, which needs no normal form of the angle:
   Zph(e) = diag(1, E(e)), Xph(e) = H Zph(e) H, R_Y(e) = H_YZ Zph(e) H_YZ with Stim's documented H_YZ,
   U3(theta, phi, lambda) = Zph(phi) R_Y(theta) Zph(lambda); T = Zph(pi/4) exactly.  For the symbolic angles C05_rotations
   identifies these programs with the README formulas.  With C01_circuit (instruction CU) these gates compose with Clifford
   gates, measurements, resets, noise and feedback. *)
Theorem C05_rotations_any_angle :
  forall (R : Type) (rO rI : R) (radd rmul rsub : R -> R -> R) (ropp : R -> R),
  ring_theory rO rI radd rmul rsub ropp eq ->
  forall E : Qc -> R, (forall a b, E (a + b)%Qc = rmul (E a) (E b)) -> E 0%Qc = rI -> E 1%Qc = ropp rI ->
  forall half : R, radd half half = rI -> forall ta tb tc : Qc,
  forall name angles a ops, cu_ops name angles a = Some ops ->
    exists q : Qc, forall psi, U R rO rI radd rmul ropp E half ta tb tc ops psi
      = Amp.scale R rmul (E q) (spec_cu R rO rI radd rmul ropp E half ta tb tc name angles a psi).
Proof. exact cu_sound. Qed.
Example C05_rotations_any_angle_inhabited :
  cu_ops "U3" [mkE 1 2 0 0; mkE 0 0 (-2) 0; mkE 3 0 0 4] 5 = Some (g_u3 5%nat (mkE 1 2 0 0) (mkE 0 0 (-2) 0) (mkE 3 0 0 4))
  /\ cu_ops "R_Y" [mkE 0 0 0 6] 2 = Some (g_r_y 2%nat (mkE 0 0 0 6)) /\ cu_ops "T" [] 0 = Some (g_t 0%nat).
Proof. repeat split. Qed.
