(* C05: the regenerated gate functions denote the documented unitaries, up to one unit phase E(x).
   Decided by vm_compute over exponential polynomials (symbolic in the rotation angles) and transported to
   every commutative ring with a character E by EPSound.peq_sound. *)
From Coq Require Import ZArith QArith Qcanon List Bool String Lia Ring Ring_theory.
Import ListNotations.
Require Import TV.Base.EP TV.Base.EPSound TV.Model.Lane TV.Spec.RotGates TV.gen.Gen_instructions TV.gen.Gen_stim_gates TV.Model.GateCheck.
Set Default Timeout 120.

Lemma gate_table_ok : forallb check_row gate_table = true.
Proof. vm_compute. reflexivity. Qed.
Lemma unitary_rows_nonempty : (30 <= List.length unitary_rows)%nat.
Proof. vm_compute. repeat constructor. Qed.
Lemma rot_ok : check_rot "r_z" doc_RZ = true /\ check_rot "r_x" doc_RX = true /\ check_rot "r_y" doc_RY = true.
Proof. vm_compute. repeat split. Qed.
Lemma T_ok : check_T = true. Proof. vm_compute. reflexivity. Qed.
Lemma U3_ok : check_U3 = true. Proof. vm_compute. reflexivity. Qed.

Section Interp.
  Variable R : Type.
  Variables (rO rI : R) (radd rmul rsub : R -> R -> R) (ropp : R -> R).
  Variable Rth : ring_theory rO rI radd rmul rsub ropp eq.
  Add Ring RringGP : Rth.
  Variable E : Qc -> R.
  Hypothesis E_add : forall a b, E (a + b)%Qc = rmul (E a) (E b).
  Hypothesis E_0 : E 0%Qc = rI.
  Hypothesis E_1 : E 1%Qc = ropp rI.
  Variable half : R.
  Hypothesis half_2 : radd half half = rI.
  Variables ta tb tc : Qc.          (* the values of the symbolic half-angles *)
  Notation ev := (eval R rO rI radd rmul ropp E half ta tb tc).
  Notation xv := (expo_val ta tb tc).

  Definition entry (M : list vec) (i j : nat) : ep := nth i (nth j M []) p0.
  (* A = c * D entrywise, in R *)
  Definition prop_to (c : R) (A D : list vec) : Prop := forall i j, ev (entry A i j) = rmul c (ev (entry D i j)).

  Lemma ev_p0 : ev p0 = rO.
  Proof. apply (eval_p0 R rO rI radd rmul rsub ropp Rth E E_add E_0 E_1 half half_2 ta tb tc). Qed.

  Lemma veq_sound a b : veq a b = true -> forall i, ev (nth i a p0) = ev (nth i b p0).
  Proof.
    unfold veq. rewrite andb_true_iff. intros [Hl Hf]. apply Nat.eqb_eq in Hl.
    revert b Hl Hf. induction a as [|x a IH]; intros [|y b] Hl Hf i; cbn in Hl; try discriminate.
    - reflexivity.
    - cbn [combine forallb fst snd] in Hf. apply andb_true_iff in Hf. destruct Hf as [Hxy Hf].
      destruct i as [|i]; cbn [nth].
      + apply (peq_sound R rO rI radd rmul rsub ropp Rth E E_add E_0 E_1 half half_2 ta tb tc). exact Hxy.
      + apply IH; [lia | exact Hf].
  Qed.
  Lemma meq_sound A B : meq A B = true -> forall i j, ev (entry A i j) = ev (entry B i j).
  Proof.
    unfold meq. rewrite andb_true_iff. intros [Hl Hf]. apply Nat.eqb_eq in Hl.
    revert B Hl Hf. induction A as [|x A IH]; intros [|y B] Hl Hf i j; cbn in Hl; try discriminate.
    - reflexivity.
    - cbn [combine forallb fst snd] in Hf. apply andb_true_iff in Hf. destruct Hf as [Hxy Hf].
      unfold entry. destruct j as [|j]; cbn [nth].
      + apply veq_sound. exact Hxy.
      + apply (IH B); [lia | exact Hf].
  Qed.
  Lemma entry_mscale c D i j : ev (entry (mscale c D) i j) = rmul (ev c) (ev (entry D i j)).
  Proof.
    unfold entry, mscale, vscale.
    destruct (Nat.lt_ge_cases j (List.length D)) as [Hj|Hj].
    - rewrite (nth_indep _ [] (map (pmul c) [])) by (rewrite map_length; exact Hj).
      rewrite map_nth.
      destruct (Nat.lt_ge_cases i (List.length (nth j D []))) as [Hi|Hi].
      + rewrite (nth_indep _ p0 (pmul c p0)) by (rewrite map_length; exact Hi).
        rewrite map_nth. apply (eval_pmul R rO rI radd rmul rsub ropp Rth E E_add E_0 E_1 half half_2 ta tb tc).
      + rewrite !nth_overflow by (rewrite ?map_length; exact Hi). rewrite ev_p0. ring.
    - rewrite (nth_overflow (map _ D)) by (rewrite map_length; exact Hj).
      rewrite (nth_overflow D) by exact Hj. destruct i; cbn [nth]; rewrite ev_p0; ring.
  Qed.

  Theorem has_phase_sound cands A D : has_phase cands A D = true ->
    exists e, In e cands /\ prop_to (E (xv e)) A D.
  Proof.
    unfold has_phase, find_phase. destruct (find _ cands) as [e|] eqn:Hf; [|discriminate]. intros _.
    apply find_some in Hf. destruct Hf as [Hin Hm]. exists e. split; [exact Hin|].
    intros i j. rewrite (meq_sound _ _ Hm), entry_mscale.
    rewrite (eval_pE R rO rI radd rmul rsub ropp Rth E E_add E_0 E_1 half half_2 ta tb tc). reflexivity.
  Qed.

  (* every unitary row of GATE_TABLE: one-qubit gates *)
  Theorem gate1_sound name fn D : In (name, (fn, 1%nat)) gate_table -> doc_of name = Some (1%nat, D) ->
    exists g e, assoc fn unitary1 = Some g /\ In e clifford_phases /\ prop_to (E (xv e)) (mat 1 (g 0%nat)) D.
  Proof.
    intros Hin Hdoc. pose proof gate_table_ok as Hall. rewrite forallb_forall in Hall. specialize (Hall _ Hin).
    unfold check_row in Hall. rewrite Hdoc in Hall. cbn [Nat.eqb andb] in Hall.
    destruct (assoc fn unitary1) as [g|]; [|discriminate].
    apply has_phase_sound in Hall. destruct Hall as (e & He & Hp). exists g, e. repeat split; assumption.
  Qed.
  (* two-qubit gates, both target orders *)
  Theorem gate2_sound name fn D : In (name, (fn, 2%nat)) gate_table -> doc_of name = Some (2%nat, D) ->
    exists g e e', assoc fn unitary2 = Some g /\ In e clifford_phases /\ In e' clifford_phases /\
      prop_to (E (xv e)) (mat 2 (g 0%nat 1%nat)) D /\ prop_to (E (xv e')) (mat 2 (g 1%nat 0%nat)) (swap_qubits D).
  Proof.
    intros Hin Hdoc. pose proof gate_table_ok as Hall. rewrite forallb_forall in Hall. specialize (Hall _ Hin).
    unfold check_row in Hall. rewrite Hdoc in Hall. cbn [Nat.eqb andb] in Hall.
    destruct (assoc fn unitary2) as [g|]; [|discriminate].
    apply andb_true_iff in Hall. destruct Hall as [H1 H2].
    apply has_phase_sound in H1, H2. destruct H1 as (e & He & Hp), H2 as (e' & He' & Hp').
    exists g, e, e'. repeat split; assumption.
  Qed.
  Theorem rot_sound :
    (exists e, prop_to (E (xv e)) (mat 1 (g_r_z 0%nat theta)) doc_RZ) /\
    (exists e, prop_to (E (xv e)) (mat 1 (g_r_x 0%nat theta)) doc_RX) /\
    (exists e, prop_to (E (xv e)) (mat 1 (g_r_y 0%nat theta)) doc_RY) /\
    (exists e, prop_to (E (xv e)) (mat 1 (g_u3 0%nat theta phi lambda)) doc_U3) /\
    (exists e, prop_to (E (xv e)) (mat 1 (g_t 0%nat)) doc_T) /\
    (exists e, prop_to (E (xv e)) (mat 1 (g_t_dag 0%nat)) doc_T_DAG).
  Proof.
    destruct rot_ok as (Hz & Hx & Hy). pose proof U3_ok as Hu. pose proof T_ok as Ht.
    unfold check_rot in Hz, Hx, Hy. unfold check_U3 in Hu. unfold check_T in Ht.
    apply andb_true_iff in Hz, Hx, Hy. destruct Hz as [_ Hz], Hx as [_ Hx], Hy as [_ Hy].
    apply andb_true_iff in Hu. destruct Hu as [_ Hu]. apply andb_true_iff in Ht. destruct Ht as [Ht Htd].
    cbn [assoc rotation1 String.eqb] in Hz, Hx, Hy.
    repeat split.
    - revert Hz. vm_compute (assoc "r_z" rotation1). intro Hz. apply has_phase_sound in Hz. destruct Hz as (e & _ & H). exists e. exact H.
    - revert Hx. vm_compute (assoc "r_x" rotation1). intro Hx. apply has_phase_sound in Hx. destruct Hx as (e & _ & H). exists e. exact H.
    - revert Hy. vm_compute (assoc "r_y" rotation1). intro Hy. apply has_phase_sound in Hy. destruct Hy as (e & _ & H). exists e. exact H.
    - apply has_phase_sound in Hu. destruct Hu as (e & _ & H). exists e. exact H.
    - apply has_phase_sound in Ht. destruct Ht as (e & _ & H). exists e. exact H.
    - apply has_phase_sound in Htd. destruct Htd as (e & _ & H). exists e. exact H.
  Qed.
End Interp.

(* R_Z(1/4) ~ T:  the documented R_Z matrix at half-angle ta = 1/8 is E(-1/8) * T *)
Section RZT.
  Variable R : Type.
  Variables (rO rI : R) (radd rmul rsub : R -> R -> R) (ropp : R -> R).
  Variable Rth : ring_theory rO rI radd rmul rsub ropp eq.
  Add Ring RringRZT : Rth.
  Variable E : Qc -> R.
  Hypothesis E_add : forall a b, E (a + b)%Qc = rmul (E a) (E b).
  Hypothesis E_0 : E 0%Qc = rI.
  Hypothesis E_1 : E 1%Qc = ropp rI.
  Variable half : R.
  Hypothesis half_2 : radd half half = rI.
  Variables tb tc : Qc.
  Definition eighth : Qc := Q2Qc (1 # 8).
  Notation ev8 := (eval R rO rI radd rmul ropp E half eighth tb tc).
  Theorem rz_quarter_is_T : forall i j,
    ev8 (entry doc_RZ i j) = rmul (E (- eighth)%Qc) (ev8 (entry doc_T i j)).
  Proof.
    assert (Hpe : forall e, ev8 (pE e) = E (expo_val eighth tb tc e)).
    { intro e. apply (eval_pE R rO rI radd rmul rsub ropp Rth E E_add E_0 E_1 half half_2). }
    assert (H0 : ev8 p0 = rO) by (apply (eval_p0 R rO rI radd rmul rsub ropp Rth E E_add E_0 E_1 half half_2)).
    assert (H1 : ev8 p1 = rI) by (apply (eval_p1 R rO rI radd rmul rsub ropp Rth E E_add E_0 E_1 half half_2)).
    intros i j. unfold entry, doc_RZ, doc_T.
    assert (Ha : expo_val eighth tb tc (esym1 (-1)) = (- eighth)%Qc).
    { unfold expo_val, esym1; cbn [c0 s1 s2 s3]. unfold z2qc. apply Qc_is_canon. vm_compute. reflexivity. }
    assert (Hb : expo_val eighth tb tc (esym1 1) = (- eighth + expo_val eighth tb tc (equarter 1))%Qc).
    { unfold expo_val, esym1, equarter; cbn [c0 s1 s2 s3]. unfold z2qc. apply Qc_is_canon. vm_compute. reflexivity. }
    destruct j as [|[|j]]; destruct i as [|[|i]]; cbn [nth]; rewrite ?Hpe, ?H0, ?H1, ?Ha; try ring.
    all: try (rewrite Hb, E_add; ring).
    all: try (destruct i; cbn [nth]; rewrite ?H0; ring).
    all: try (destruct j; cbn [nth]; rewrite ?H0; try ring; destruct i; cbn [nth]; rewrite ?H0; ring).
  Qed.
End RZT.
