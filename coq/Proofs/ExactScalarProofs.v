From Coq Require Import ZArith List Bool Lia Ring Ring_theory.
Import ListNotations.
Require Import TV.Base.Wrap32 TV.Base.D8 TV.gen.Gen_exact_scalar TV.Model.ExactScalar.
Open Scope Z_scope.
Set Default Timeout 60.

(* the regenerated bilinear form is the reference product of Z[w]/(w^4+1) *)
Lemma gen_mul_is_ref x y : scalar_mul x y = q4_mul_ref x y.
Proof. destruct x as [[[a1 b1] c1] d1], y as [[[a2 b2] c2] d2]. unfold scalar_mul, q4_mul_ref. q4_ext; ring. Qed.

Lemma scalar_mul_assoc x y z : scalar_mul (scalar_mul x y) z = scalar_mul x (scalar_mul y z).
Proof. rewrite !gen_mul_is_ref. apply q4_mul_ref_assoc. Qed.
Lemma scalar_mul_comm x y : scalar_mul x y = scalar_mul y x.
Proof. rewrite !gen_mul_is_ref. apply q4_mul_ref_comm. Qed.
Lemma scalar_mul_one_l x : scalar_mul q4_one x = x.
Proof. rewrite gen_mul_is_ref. apply q4_mul_ref_one_l. Qed.
Lemma scalar_mul_one_r x : scalar_mul x q4_one = x.
Proof. rewrite gen_mul_is_ref. apply q4_mul_ref_one_r. Qed.
Lemma identity_is_one : identity_d8 = q4_one.
Proof. reflexivity. Qed.

Lemma norm1_scalar_mul x y : norm1 (scalar_mul x y) <= norm1 x * norm1 y.
Proof. rewrite gen_mul_is_ref. apply norm1_mul_ref. Qed.

(* ---------- int32: wrapping commutes with the ring operations ---------- *)
Definition q4_in32 (x : q4) : Prop := let '(a, b, c, d) := x in in32 a /\ in32 b /\ in32 c /\ in32 d.
Lemma q4_map_wrap_id x : q4_in32 x -> q4_map wrap32 x = x.
Proof. destruct x as [[[a b] c] d]. cbn. intros (Ha & Hb & Hc & Hd). rewrite !wrap32_id by assumption. reflexivity. Qed.
Lemma abs_le_norm1 x : let '(a, b, c, d) := x in Z.abs a <= norm1 x /\ Z.abs b <= norm1 x /\ Z.abs c <= norm1 x /\ Z.abs d <= norm1 x.
Proof. destruct x as [[[a b] c] d]. cbn. lia. Qed.
Lemma norm1_small_in32 x : norm1 x < H32 -> q4_in32 x.
Proof. destruct x as [[[a b] c] d]. unfold norm1, q4_in32, in32, H32. lia. Qed.

Lemma mul32_wrap_l u v : q4_map wrap32 (scalar_mul (q4_map wrap32 u) v) = q4_map wrap32 (scalar_mul u v).
Proof.
  destruct u as [[[a1 b1] c1] d1], v as [[[a2 b2] c2] d2]. unfold scalar_mul, q4_map. q4_ext; wrap32_solve.
Qed.
Lemma mul32_wrap_r u v : q4_map wrap32 (scalar_mul u (q4_map wrap32 v)) = q4_map wrap32 (scalar_mul u v).
Proof. rewrite (scalar_mul_comm u), mul32_wrap_l, scalar_mul_comm. reflexivity. Qed.

(* mul32 of wrapped inputs = wrap of the exact product: the int32 result is always the exact one mod 2^32 *)
Lemma mul32_wrap x y : mul32 (q4_map wrap32 x) (q4_map wrap32 y) = q4_map wrap32 (scalar_mul x y).
Proof. unfold mul32. rewrite mul32_wrap_l, mul32_wrap_r. reflexivity. Qed.

Lemma mul32_exact x y : norm1 x * norm1 y < H32 -> mul32 x y = scalar_mul x y.
Proof.
  intro H. unfold mul32. apply q4_map_wrap_id, norm1_small_in32.
  pose proof (norm1_scalar_mul x y). lia.
Qed.

Lemma mul32_assoc x y z : mul32 (mul32 x y) z = mul32 x (mul32 y z).
Proof. unfold mul32. rewrite mul32_wrap_l, mul32_wrap_r, scalar_mul_assoc. reflexivity. Qed.

(* any bracketing the associative scan may choose gives the left fold *)
Lemma tree_eval32_fold t : tree_eval32 t =
  match tree4_leaves t with [] => q4_one | x :: r => fold_left mul32 (map (q4_map wrap32) r) (q4_map wrap32 x) end.
Proof.
  assert (Hfold : forall l a b, fold_left mul32 l (mul32 a b) = mul32 a (fold_left mul32 l b)).
  { induction l as [|c l IH]; intros a b; cbn [fold_left]; [reflexivity|]. rewrite mul32_assoc. apply IH. }
  induction t as [x | l IHl r IHr]; cbn [tree_eval32 tree4_leaves]; [reflexivity|].
  rewrite IHl, IHr.
  destruct (tree4_leaves l) as [|a la] eqn:El.
  { exfalso. clear -El. induction l; cbn in El; [discriminate|]. apply app_eq_nil in El. tauto. }
  destruct (tree4_leaves r) as [|b lb] eqn:Er.
  { exfalso. clear -Er. induction r; cbn in Er; [discriminate|]. apply app_eq_nil in Er. tauto. }
  cbn [app]. rewrite map_app, fold_left_app. cbn [map fold_left].
  rewrite <- Hfold. reflexivity.
Qed.

(* ---------- reduce ---------- *)
Lemma even_half z : Z.even z = true -> 2 * (z / 2) = z.
Proof. intro H. apply Zeven_bool_iff, Zeven_div2 in H. rewrite Z.div2_div in H. symmetry. exact H. Qed.
Lemma halve_double x : all_even x = true -> q4_scale 2 (halve x) = x.
Proof.
  destruct x as [[[a b] c] d]. unfold all_even, halve, q4_scale, q4_map.
  rewrite !andb_true_iff. intros [[[Ha Hb] Hc] Hd].
  q4_ext; apply even_half; assumption.
Qed.

(* value preserved: coefficients_before = 2^(k) * coefficients_after with k = number of halvings;
   stated without wrap on the power, under the guard that the power stays in int32 *)
Lemma q4_scale_pow0 x : x = q4_scale (2 ^ 0) x.
Proof. destruct x as [[[a b] c] d]. unfold q4_scale. rewrite Z.pow_0_r. q4_ext; ring. Qed.
Lemma reduce_fuel_sound n : forall c p c' p', reduce_fuel n (c, p) = Some (c', p') ->
  in32 p -> p + Z.of_nat n < H32 ->
  exists k, 0 <= k <= Z.of_nat n /\ p' = p + k /\ c = q4_scale (2 ^ k) c' /\ reducible c' = false.
Proof.
  induction n as [|n IH]; intros c p c' p' H Hp Hn; cbn [reduce_fuel fst snd] in H.
  - destruct (reducible c) eqn:Hr; [discriminate|]. inversion H; subst. exists 0. repeat split; try lia.
    apply q4_scale_pow0. assumption.
  - destruct (reducible c) eqn:Hr.
    + rewrite wrap32_id in H by (unfold in32, H32 in *; lia).
      apply IH in H; [| unfold in32, H32 in *; lia | lia].
      destruct H as (k & Hk & -> & Hc & Hred). exists (k + 1). repeat split; try lia; [|assumption].
      unfold reducible in Hr. apply andb_true_iff in Hr. destruct Hr as [He _].
      rewrite <- (halve_double c He), Hc.
      destruct c' as [[[a b] c0] d]. unfold q4_scale. rewrite Z.pow_add_r by lia. q4_ext; ring.
    + inversion H; subst. exists 0. repeat split; try lia; [|assumption].
      apply q4_scale_pow0.
Qed.

(* termination: 32 rounds always suffice for int32 coefficients that are not all zero *)
Lemma reducible_halve_abs x : reducible x = true -> 0 < norm1 x /\ 2 * norm1 (halve x) = norm1 x.
Proof.
  destruct x as [[[a b] c] d]. unfold reducible, all_even, is_zero4, halve, q4_map, norm1.
  rewrite !andb_true_iff, negb_true_iff, !andb_false_iff, !Z.eqb_neq.
  intros [[[[Ha Hb] Hc] Hd] Hz].
  apply even_half in Ha, Hb, Hc, Hd. lia.
Qed.
Lemma reduce_fuel_total n : forall c p, norm1 c < 2 ^ Z.of_nat n -> reduce_fuel n (c, p) <> None.
Proof.
  induction n as [|n IH]; intros c p Hc; cbn [reduce_fuel fst snd].
  - destruct (reducible c) eqn:Hr; [|discriminate].
    apply reducible_halve_abs in Hr. cbn in Hc. lia.
  - destruct (reducible c) eqn:Hr; [|discriminate].
    apply IH. apply reducible_halve_abs in Hr. rewrite Nat2Z.inj_succ, Z.pow_succ_r in Hc by lia. lia.
Qed.

(* ---------- sum ---------- *)
Lemma fold_min_le l : forall x y, In y (x :: l) -> fold_left Z.min l x <= y.
Proof.
  induction l as [|z l IH]; intros x y Hy; cbn [fold_left].
  - destruct Hy as [->|[]]. lia.
  - destruct Hy as [->|[->|Hy]].
    + specialize (IH (Z.min y z) (Z.min y z) (or_introl eq_refl)). lia.
    + specialize (IH (Z.min x y) (Z.min x y) (or_introl eq_refl)). lia.
    + apply IH. right. assumption.
Qed.
Lemma min_list_le l m : min_list l = Some m -> forall y, In y l -> m <= y.
Proof. destruct l as [|x l]; [discriminate|]. cbn. intros [= <-] y Hy. apply fold_min_le. assumption. Qed.
Lemma min_list_in l m : min_list l = Some m -> In m l.
Proof.
  destruct l as [|x l]; [discriminate|]. cbn. intros [= <-].
  revert x. induction l as [|z l IH]; intro x; cbn [fold_left]; [left; reflexivity|].
  destruct (IH (Z.min x z)) as [H|H]; [|right; right; assumption].
  destruct (Z.min_spec x z) as [[_ E]|[_ E]]; rewrite E in H; [left|right; left]; congruence.
Qed.

Section Den.
  Variable R : Type.
  Variables (rO rI : R) (radd rmul rsub : R -> R -> R) (ropp : R -> R).
  Variable Rth : ring_theory rO rI radd rmul rsub ropp eq.
  Add Ring RringES : Rth.
  Variable w : R.
  Hypothesis w4 : rmul (rmul w w) (rmul w w) = ropp rI.
  Notation den := (den R rO rI radd rmul ropp w).
  Notation ofZ := (ofZ R rO rI radd rmul ropp).

  Theorem den_scalar_mul x y : den (scalar_mul x y) = rmul (den x) (den y).
  Proof. rewrite gen_mul_is_ref. apply (den_mul_ref R rO rI radd rmul rsub ropp Rth w w4). Qed.

  Fixpoint rsum (l : list R) : R := match l with [] => rO | x :: r => radd x (rsum r) end.
  Fixpoint rprod (l : list R) : R := match l with [] => rI | x :: r => rmul x (rprod r) end.

  Lemma den_fold_add l : forall acc, den (fold_left q4_add l acc) = radd (den acc) (rsum (map den l)).
  Proof.
    induction l as [|x l IH]; intro acc; cbn [fold_left map rsum]; [ring|].
    rewrite IH, (den_add R rO rI radd rmul rsub ropp Rth). ring.
  Qed.
  (* the aligned sum: sum_i den(c_i) * 2^(p_i - m), m = the smallest power among the non-zero summands *)
  Lemma q4_is_zero_eq c : q4_is_zero c = true -> c = q4_zero.
  Proof.
    destruct c as [[[a b] c'] d]. unfold q4_is_zero, q4_zero. rewrite !andb_true_iff, !Z.eqb_eq. intros [[[-> ->] ->] ->]. reflexivity.
  Qed.
  Lemma sum_min_le l m : sum_min l = Some m -> forall x, In x l -> q4_is_zero (fst x) = false -> m <= snd x.
  Proof.
    unfold sum_min. intros Hm x Hx Hz.
    assert (Hin : In x (filter (fun y => negb (q4_is_zero (fst y))) l)) by (apply filter_In; split; [exact Hx | rewrite Hz; reflexivity]).
    destruct (filter (fun y => negb (q4_is_zero (fst y))) l) as [|y nz] eqn:Hf; [destruct Hin|].
    apply (min_list_le _ _ Hm). apply in_map. exact Hin.
  Qed.
  Lemma sum_min_in l m : sum_min l = Some m -> In m (map snd l).
  Proof.
    unfold sum_min. intro Hm.
    destruct (filter (fun y => negb (q4_is_zero (fst y))) l) as [|y nz] eqn:Hf; [apply min_list_in; exact Hm|].
    apply min_list_in in Hm. apply in_map_iff in Hm. destruct Hm as (x & <- & Hx). apply in_map.
    rewrite <- Hf in Hx. apply filter_In in Hx. apply Hx.
  Qed.
  Theorem den_sum_exact l s m : esa_sum_exact l = Some (s, m) ->
    den s = rsum (map (fun x => rmul (ofZ (2 ^ (snd x - m))) (den (fst x))) l)
    /\ (forall x, In x l -> q4_is_zero (fst x) = false -> m <= snd x) /\ In m (map snd l).
  Proof.
    unfold esa_sum_exact. destruct (sum_min l) as [m'|] eqn:Hm; [|discriminate].
    intros [= <- <-]. split; [|split].
    - rewrite den_fold_add, (den_zero R rO rI radd rmul rsub ropp Rth), map_map.
      transitivity (rsum (map (fun x => den (align_exactz m' x)) l)); [ring|].
      f_equal. apply map_ext. intro x. unfold align_exactz. destruct (q4_is_zero (fst x)) eqn:Hz.
      + rewrite (q4_is_zero_eq _ Hz), (den_zero R rO rI radd rmul rsub ropp Rth). ring.
      + unfold align_exact. apply (den_scale R rO rI radd rmul rsub ropp Rth).
    - apply (sum_min_le _ _ Hm).
    - apply (sum_min_in _ _ Hm).
  Qed.

  Theorem den_prod_exact l : den (fst (esa_prod_exact l)) = rprod (map (fun x => den (fst x)) l).
  Proof.
    unfold esa_prod_exact; cbn [fst].
    assert (H : forall l acc, den (fold_left scalar_mul l acc) = rmul (den acc) (rprod (map den l))).
    { induction l0 as [|x l0 IH]; intro acc; cbn [fold_left map rprod]; [ring|]. rewrite IH, den_scalar_mul. ring. }
    rewrite H, (den_one R rO rI radd rmul rsub ropp Rth), map_map. ring.
  Qed.

  (* tables: UNIT k = w^k, ONE_PLUS k = 1 + w^k for k < 8 *)
  Notation wpow := (wpow R rI rmul w).
  Theorem den_unit_phase k : (k < 8)%nat -> den (unit_phase k) = wpow k.
  Proof.
    intro Hk.
    assert (Hc : (k = 0 \/ k = 1 \/ k = 2 \/ k = 3 \/ k = 4 \/ k = 5 \/ k = 6 \/ k = 7)%nat) by lia.
    destruct Hc as [->|[->|[->|[->|[->|[->|[->| ->]]]]]]];
      unfold unit_phase; cbn [nth unit_phases D8.wpow D8.den];
      rewrite ?(ofZ_0 R rO rI radd rmul rsub ropp Rth), ?(ofZ_1 R rO rI radd rmul rsub ropp Rth), ?(ofZ_m1 R rO rI radd rmul ropp);
      first [ ring
            | match goal with |- ?L = ?Rr =>
                assert (E : Rr = radd L (rmul (radd (rmul (rmul w w) (rmul w w)) rI) (ropp L))) by ring;
                rewrite E, (w4_zero R rO rI radd rmul rsub ropp Rth w w4); ring end ].
  Qed.
  Theorem den_one_plus_phase k : (k < 8)%nat -> den (one_plus_phase k) = radd rI (wpow k).
  Proof.
    intro Hk. rewrite <- den_unit_phase by assumption.
    unfold one_plus_phase. change one_plus_col with 0%nat. change one_plus_add with 1.
    destruct (unit_phase k) as [[[a b] c] d]. cbn [add_col D8.den].
    rewrite (ofZ_add R rO rI radd rmul rsub ropp Rth), (ofZ_1 R rO rI radd rmul rsub ropp Rth). ring.
  Qed.
End Den.

(* ---------- no-wrap guard for whole products ---------- *)
Lemma fold_mul_mono l : forall a b, 0 <= a <= b -> (forall z, In z l -> 0 <= z) -> fold_left Z.mul l a <= fold_left Z.mul l b.
Proof.
  induction l as [|z l IH]; intros a b Hab Hl; cbn [fold_left]; [lia|].
  apply IH; [|intros; apply Hl; right; assumption]. pose proof (Hl z (or_introl eq_refl)). nia.
Qed.
Lemma norm1_fold_mul l : forall acc, norm1 (fold_left scalar_mul l acc) <= fold_left Z.mul (map norm1 l) (norm1 acc).
Proof.
  induction l as [|x l IH]; intro acc; cbn [fold_left map]; [lia|].
  etransitivity; [apply IH|].
  apply fold_mul_mono.
  - split; [destruct (scalar_mul acc x) as [[[a b] c] d]; cbn; lia | apply norm1_scalar_mul].
  - intros z Hz. apply in_map_iff in Hz. destruct Hz as ([[[a b] c] d] & <- & _). cbn. lia.
Qed.

(* If the running bound stays below 2^31, the int32 fold equals the exact fold (prefix-closed guard). *)
Lemma fold_mul32_exact l : forall acc,
  (forall pre, (exists suf, l = pre ++ suf) -> fold_left Z.mul (map norm1 pre) (norm1 acc) < H32) ->
  (forall z, In z l -> 1 <= norm1 z) ->
  fold_left mul32 l acc = fold_left scalar_mul l acc.
Proof.
  induction l as [|x l IH]; intros acc Hpre Hnz; cbn [fold_left]; [reflexivity|].
  assert (Hx : norm1 acc * norm1 x < H32).
  { specialize (Hpre [x] (ex_intro _ l eq_refl)). cbn in Hpre. exact Hpre. }
  rewrite (mul32_exact acc x Hx). apply IH.
  - intros pre [suf ->]. specialize (Hpre (x :: pre) (ex_intro _ suf eq_refl)). cbn [map fold_left] in Hpre.
    eapply Z.le_lt_trans; [|exact Hpre].
    apply fold_mul_mono.
    + split; [destruct (scalar_mul acc x) as [[[a b] c] d]; cbn; lia | apply norm1_scalar_mul].
    + intros z Hz. apply in_map_iff in Hz. destruct Hz as ([[[a b] c] d] & <- & _). cbn. lia.
  - intros z Hz. apply Hnz. right. assumption.
Qed.

(* reduce always terminates on int32 data (34 rounds of fuel) *)
Lemma reduce_total_int32 c p : q4_in32 c -> reduce (c, p) <> None.
Proof.
  intro H. unfold reduce. apply reduce_fuel_total.
  destruct c as [[[a b] c0] d]. unfold q4_in32, in32, H32 in H. unfold norm1.
  change (2 ^ Z.of_nat 34) with 17179869184. lia.
Qed.

