(* C11_decompose: tsim's recursion/pruning around pyzx's decompositions preserves the value, terminates, never returns
   an empty list, and only prunes terms of value 0.  `decompose`, `find_stab`, `find_stab_passes` are REGENERATED from
   /repo/src/tsim/compile/stabrank.py; pyzx's operations are Section variables with explicit hypotheses (oracles). *)
From Coq Require Import List Bool Arith Lia.
Import ListNotations.
Require Import TV.gen.Gen_decompose TV.Model.Decompose.
Set Default Timeout 60.

Section Pass.
  Variable G : Type.
  Variable P : Type.                        (* parameter assignments *)
  Variable V : Type.
  Variable vzero : V.
  Variable vadd : V -> V -> V.
  Hypothesis vadd_0_l : forall x, vadd vzero x = x.
  Hypothesis vadd_0_r : forall x, vadd x vzero = x.
  Hypothesis vadd_assoc : forall x y z, vadd x (vadd y z) = vadd (vadd x y) z.
  Variable val : P -> G -> V.               (* value of a scalar diagram under a parameter assignment *)

  Variable count : G -> nat.
  Variable replace : G -> list G.
  Variable reduce : G -> G.
  Variable is_zero : G -> bool.
  Variable Inv : G -> Prop.                 (* precondition of `replace` that the pass maintains *)
  (* ---- oracle hypotheses (pyzx) ---- *)
  Hypothesis H_reduce : forall rho g, val rho (reduce g) = val rho g.
  Hypothesis H_zero : forall rho g, is_zero g = true -> val rho g = vzero.
  Hypothesis H_replace : forall rho g, Inv g -> count g <> 0 -> vsum V vzero vadd (map (val rho) (replace g)) = val rho g.
  Hypothesis H_dec : forall g x, Inv g -> count g <> 0 -> In x (replace g) -> count (reduce x) < count g.
  Hypothesis H_inv : forall g x, Inv g -> count g <> 0 -> In x (replace g) -> Inv (reduce x).
  Hypothesis H_nonempty : forall g, Inv g -> count g <> 0 -> replace g <> [].

  Notation vs rho l := (vsum V vzero vadd (map (val rho) l)).

  Lemma vsum_app : forall (l1 l2 : list V), vsum V vzero vadd (l1 ++ l2) = vadd (vsum V vzero vadd l1) (vsum V vzero vadd l2).
  Proof.
    induction l1 as [|x l1 IH]; intros l2; cbn [app vsum fold_right].
    - rewrite vadd_0_l. reflexivity.
    - fold (vsum V vzero vadd (l1 ++ l2)). fold (vsum V vzero vadd l1). rewrite IH. apply vadd_assoc.
  Qed.
  Lemma vs_app : forall rho l1 l2, vs rho (l1 ++ l2) = vadd (vs rho l1) (vs rho l2).
  Proof. intros. rewrite map_app. apply vsum_app. Qed.
  Lemma vs_cons : forall rho x l, vs rho (x :: l) = vadd (val rho x) (vs rho l).
  Proof. reflexivity. Qed.
  Lemma vs_nil : forall rho, vs rho [] = vzero.
  Proof. reflexivity. Qed.

  (* what a (sub)call must deliver *)
  Definition good (inputs : list G) (st : dstate G) : Prop :=
    exists r p, st = Some (r, p) /\
      (forall rho, vs rho r = vs rho inputs) /\
      (inputs <> [] -> r <> []) /\
      Forall (fun x => forall rho, val rho x = vzero) p /\
      Forall (fun x => count x = 0 /\ Inv x) r.

  Section Step.
    Variable rec : list G -> dstate G.
    Variable k : nat.
    Hypothesis IH : forall graphs, graphs <> [] -> Forall Inv graphs -> (forall g, In g graphs -> count g < k) -> good graphs (rec graphs).

    Lemma inner_fold : forall terms results pruned,
      (forall x, In x terms -> Inv (reduce x) /\ count (reduce x) < k) ->
      exists r' p', fold_left (inner_step G count replace reduce is_zero rec) terms (Some (results, pruned)) = Some (results ++ r', pruned ++ p') /\
        (forall rho, vs rho r' = vs rho terms) /\
        (terms <> [] -> results ++ r' <> []) /\
        Forall (fun x => forall rho, val rho x = vzero) p' /\
        Forall (fun x => count x = 0 /\ Inv x) r'.
    Proof.
      induction terms as [|x terms IHt]; intros results pruned Hx.
      - exists [], []. cbn [fold_left]. rewrite !app_nil_r. repeat split; auto; try (intros H; congruence).
      - cbn [fold_left]. unfold inner_step at 2.
        destruct (Hx x (or_introl eq_refl)) as [Hi Hc].
        assert (Hx' : forall y, In y terms -> Inv (reduce y) /\ count (reduce y) < k) by (intros y Hy; apply Hx; right; exact Hy).
        match goal with |- context [if ?c then _ else _] => destruct c eqn:E end.
        + (* pruned: the term is zero and results is non-empty *)
          apply andb_prop in E. destruct E as [Ez El]. apply Nat.ltb_lt in El.
          destruct (IHt results (pruned ++ [reduce x]) Hx') as [r' [p' [F [S1 [N1 [Z1 C1]]]]]].
          exists r', (reduce x :: p'). rewrite F. rewrite <- app_assoc. cbn [app].
          split; [reflexivity|]. split; [|split; [|split]].
          * intros rho. rewrite vs_cons, S1. rewrite <- (H_reduce rho x), (H_zero rho _ Ez), vadd_0_l. reflexivity.
          * intros _ Hnil. apply app_eq_nil in Hnil. destruct Hnil as [Hr _]. subst results. cbn in El. lia.
          * constructor; [intros rho; apply H_zero; exact Ez | exact Z1].
          * exact C1.
        + (* recursive call on [reduce x] *)
          destruct (IH [reduce x]) as [r [p [R [S0 [N0 [Z0 C0]]]]]].
          { discriminate. }
          { constructor; [exact Hi | constructor]. }
          { intros g [Hg|[]]. subst g. exact Hc. }
          rewrite R.
          destruct (IHt (results ++ r) (pruned ++ p) Hx') as [r' [p' [F [S1 [N1 [Z1 C1]]]]]].
          exists (r ++ r'), (p ++ p'). rewrite F. rewrite !app_assoc.
          split; [reflexivity|]. split; [|split; [|split]].
          * intros rho. rewrite vs_app, vs_cons, S1, S0. rewrite vs_cons, vs_nil, vadd_0_r, H_reduce. reflexivity.
          * intros _ Hnil. apply app_eq_nil in Hnil. destruct Hnil as [Hnil _]. apply app_eq_nil in Hnil. destruct Hnil as [_ Hr].
            apply N0; [discriminate | exact Hr].
          * apply Forall_app. split; assumption.
          * apply Forall_app. split; assumption.
    Qed.

    Lemma outer_fold : forall graphs results pruned,
      Forall Inv graphs -> (forall g, In g graphs -> count g < S k) ->
      exists r' p', fold_left (outer_step G count replace reduce is_zero rec) graphs (Some (results, pruned)) = Some (results ++ r', pruned ++ p') /\
        (forall rho, vs rho r' = vs rho graphs) /\
        (graphs <> [] -> results ++ r' <> []) /\
        Forall (fun x => forall rho, val rho x = vzero) p' /\
        Forall (fun x => count x = 0 /\ Inv x) r'.
    Proof.
      induction graphs as [|g graphs IHg]; intros results pruned HI Hc.
      - exists [], []. cbn [fold_left]. rewrite !app_nil_r. repeat split; auto; try (intros H; congruence).
      - cbn [fold_left]. unfold outer_step at 2.
        inversion HI as [|? ? Ig HI']; subst.
        assert (Hc' : forall y, In y graphs -> count y < S k) by (intros y Hy; apply Hc; right; exact Hy).
        pose proof (Hc g (or_introl eq_refl)) as Hcg.
        match goal with |- context [if ?c then _ else _] => destruct c eqn:E end.
        + assert (E0 : count g = 0)
            by (first [apply Nat.eqb_eq in E; exact E | apply Nat.ltb_lt in E; lia | apply Nat.leb_le in E; lia]).
          clear E. rename E0 into E.
          destruct (IHg (results ++ [g]) pruned HI' Hc') as [r' [p' [F [S1 [N1 [Z1 C1]]]]]].
          exists (g :: r'), p'. rewrite F. rewrite <- app_assoc. cbn [app].
          split; [reflexivity|]. split; [|split; [|split]].
          * intros rho. rewrite !vs_cons, S1. reflexivity.
          * intros _ Hnil. apply app_eq_nil in Hnil. destruct Hnil as [_ Hnil]. discriminate.
          * exact Z1.
          * constructor; [split; assumption | exact C1].
        + assert (E0 : count g <> 0)
            by (first [apply Nat.eqb_neq in E; exact E | apply Nat.ltb_ge in E; lia | apply Nat.leb_gt in E; lia]).
          clear E. rename E0 into E.
          destruct (inner_fold (replace g) results pruned) as [r [p [F0 [S0 [N0 [Z0 C0]]]]]].
          { intros x Hx. split; [apply (H_inv g x Ig E Hx) | pose proof (H_dec g x Ig E Hx); lia]. }
          rewrite F0.
          destruct (IHg (results ++ r) (pruned ++ p) HI' Hc') as [r' [p' [F [S1 [N1 [Z1 C1]]]]]].
          exists (r ++ r'), (p ++ p'). rewrite F. rewrite !app_assoc.
          split; [reflexivity|]. split; [|split; [|split]].
          * intros rho. rewrite vs_app, vs_cons, S1, S0. rewrite (H_replace rho g Ig E). reflexivity.
          * intros _ Hnil. apply app_eq_nil in Hnil. destruct Hnil as [Hnil _]. apply (N0 (H_nonempty g Ig E)). exact Hnil.
          * apply Forall_app. split; assumption.
          * apply Forall_app. split; assumption.
    Qed.
  End Step.

  Theorem decompose_good : forall fuel graphs, 0 < fuel -> Forall Inv graphs -> (forall g, In g graphs -> count g < fuel) ->
    good graphs (decompose G count replace reduce is_zero fuel graphs).
  Proof.
    induction fuel as [|k IHk]; intros graphs Hpos HI Hc; [lia|].
    cbn [decompose].
    assert (IH' : forall gs, gs <> [] -> Forall Inv gs -> (forall g, In g gs -> count g < k) -> good gs (decompose G count replace reduce is_zero k gs)).
    { intros gs Hne HI' Hc'. apply IHk; [|exact HI' | exact Hc'].
      destruct gs as [|g gs]; [congruence|]. specialize (Hc' g (or_introl eq_refl)). lia. }
    destruct (outer_fold (decompose G count replace reduce is_zero k) k IH' graphs [] [] HI Hc) as [r [p [F [S1 [N1 [Z1 C1]]]]]].
    exists r, p. cbn [app] in F, N1. split; [exact F|]. repeat split; assumption.
  Qed.

  Lemma max_count_bound : forall (l : list G) g, In g l -> count g < pass_fuel count l.
  Proof.
    intros l g H. unfold pass_fuel, max_count. induction l as [|x l IH]; [destruct H|].
    cbn [map fold_right]. destruct H as [H|H]; [subst; lia | specialize (IH H); lia].
  Qed.

  Corollary decompose_pass_fuel : forall graphs fuel, pass_fuel count graphs <= fuel -> Forall Inv graphs ->
    good graphs (decompose G count replace reduce is_zero fuel graphs).
  Proof.
    intros graphs fuel Hf HI. apply decompose_good; [unfold pass_fuel in Hf; lia | exact HI |].
    intros g Hg. pose proof (max_count_bound graphs g Hg). lia.
  Qed.
End Pass.

(* ---- more fuel never changes a result ---- *)
Section Mono.
  Variable G : Type.
  Variable count : G -> nat.
  Variable replace : G -> list G.
  Variable reduce : G -> G.
  Variable is_zero : G -> bool.

  Lemma inner_fold_none : forall rec terms, fold_left (inner_step G count replace reduce is_zero rec) terms None = None.
  Proof. intros rec terms. induction terms as [|x terms IH]; [reflexivity | exact IH]. Qed.
  Lemma outer_fold_none : forall rec graphs, fold_left (outer_step G count replace reduce is_zero rec) graphs None = None.
  Proof. intros rec graphs. induction graphs as [|x graphs IH]; [reflexivity | exact IH]. Qed.

  Section Rec.
    Variables rec rec' : list G -> dstate G.
    Hypothesis Hrec : forall l s, rec l = Some s -> rec' l = Some s.
    Lemma inner_mono : forall terms st s,
      fold_left (inner_step G count replace reduce is_zero rec) terms st = Some s -> fold_left (inner_step G count replace reduce is_zero rec') terms st = Some s.
    Proof.
      induction terms as [|x terms IH]; intros st s H; [exact H|].
      cbn [fold_left] in H |- *.
      destruct st as [[results pruned]|]; [|cbn [inner_step] in H; rewrite inner_fold_none in H; discriminate].
      unfold inner_step at 2 in H. unfold inner_step at 2.
      match type of H with context [if ?c then _ else _] => destruct c end; [apply IH; exact H|].
      destruct (rec [_]) as [[r p]|] eqn:E.
      - rewrite (Hrec _ _ E). apply IH. exact H.
      - rewrite inner_fold_none in H. discriminate.
    Qed.
    Lemma outer_mono : forall graphs st s,
      fold_left (outer_step G count replace reduce is_zero rec) graphs st = Some s ->
      fold_left (outer_step G count replace reduce is_zero rec') graphs st = Some s.
    Proof.
      induction graphs as [|g graphs IH]; intros st s H; [exact H|].
      cbn [fold_left] in H |- *.
      destruct st as [[results pruned]|]; [|cbn [outer_step] in H; rewrite outer_fold_none in H; discriminate].
      unfold outer_step at 2 in H. unfold outer_step at 2.
      match type of H with context [if ?c then _ else _] => destruct c end; [apply IH; exact H|].
      destruct (fold_left (inner_step G count replace reduce is_zero rec) (replace g) (Some (results, pruned))) as [s1|] eqn:E.
      - rewrite (inner_mono _ _ _ E). apply IH. exact H.
      - rewrite outer_fold_none in H. discriminate.
    Qed.
  End Rec.

  Lemma decompose_mono_S : forall k gs s, decompose G count replace reduce is_zero k gs = Some s ->
    decompose G count replace reduce is_zero (S k) gs = Some s.
  Proof.
    induction k as [|k IH]; intros gs s H; [discriminate|].
    cbn [decompose] in H. change (decompose G count replace reduce is_zero (S (S k)) gs)
      with (fold_left (outer_step G count replace reduce is_zero (decompose G count replace reduce is_zero (S k))) gs (Some ([], []))).
    eapply outer_mono; [|exact H]. intros l s0 Hl. apply IH. exact Hl.
  Qed.
  Lemma decompose_mono : forall k k' gs s, k <= k' -> decompose G count replace reduce is_zero k gs = Some s ->
    decompose G count replace reduce is_zero k' gs = Some s.
  Proof. intros k k' gs s Hle H. induction Hle as [|k' Hle IH]; [exact H | apply decompose_mono_S; exact IH]. Qed.
End Mono.

(* ---- find_stab: full_reduce, then the U3 pass, then the magic-state pass ---- *)
Section FindStab.
  Variable G : Type.
  Variable P : Type.
  Variable V : Type.
  Variable vzero : V.
  Variable vadd : V -> V -> V.
  Hypothesis vadd_0_l : forall x, vadd vzero x = x.
  Hypothesis vadd_0_r : forall x, vadd x vzero = x.
  Hypothesis vadd_assoc : forall x y z, vadd x (vadd y z) = vadd (vadd x y) z.
  Variable val : P -> G -> V.
  Variables u3_count tcount : G -> nat.
  Variables replace_u3 replace_magic : G -> list G.
  Variable reduce : G -> G.
  Variable is_zero : G -> bool.
  (* ---- oracle hypotheses (pyzx_param), validated numerically by harness/props/c11.py ---- *)
  Hypothesis H_reduce : forall rho g, val rho (reduce g) = val rho g.
  Hypothesis H_zero : forall rho g, is_zero g = true -> val rho g = vzero.
  Hypothesis H_u3_replace : forall rho g, u3_count g <> 0 -> vsum V vzero vadd (map (val rho) (replace_u3 g)) = val rho g.
  Hypothesis H_u3_dec : forall g x, u3_count g <> 0 -> In x (replace_u3 g) -> u3_count (reduce x) < u3_count g.
  Hypothesis H_u3_nonempty : forall g, u3_count g <> 0 -> replace_u3 g <> [].
  (* replace_magic_states is only applied to graphs without arbitrary-angle phases *)
  Hypothesis H_m_replace : forall rho g, u3_count g = 0 -> tcount g <> 0 -> vsum V vzero vadd (map (val rho) (replace_magic g)) = val rho g.
  Hypothesis H_m_dec : forall g x, u3_count g = 0 -> tcount g <> 0 -> In x (replace_magic g) -> tcount (reduce x) < tcount g.
  Hypothesis H_m_inv : forall g x, u3_count g = 0 -> tcount g <> 0 -> In x (replace_magic g) -> u3_count (reduce x) = 0.
  Hypothesis H_m_nonempty : forall g, u3_count g = 0 -> tcount g <> 0 -> replace_magic g <> [].

  Theorem find_stab_correct : forall g, exists n0, forall fuel, n0 <= fuel ->
    exists r pruned,
      find_stab G u3_count tcount replace_u3 replace_magic reduce is_zero fuel g = Some (r, pruned) /\
      (forall rho, vsum V vzero vadd (map (val rho) r) = val rho g) /\
      r <> [] /\
      Forall (fun x => forall rho, val rho x = vzero) pruned /\
      Forall (fun x => tcount x = 0 /\ u3_count x = 0) r.
  Proof.
    intros g. set (g1 := reduce g).
    (* U3 pass at its own sufficient fuel *)
    pose proof (decompose_pass_fuel G P V vzero vadd vadd_0_l vadd_0_r vadd_assoc val u3_count replace_u3 reduce is_zero (fun _ => True)
                  H_reduce H_zero (fun rho x _ => H_u3_replace rho x) (fun x y _ => H_u3_dec x y) (fun _ _ _ _ _ => I) (fun x _ => H_u3_nonempty x)
                  [g1] (pass_fuel u3_count [g1]) (le_n _) (Forall_cons _ I (Forall_nil _))) as [r1 [p1 [E1 [S1 [N1 [Z1 C1]]]]]].
    assert (I1 : Forall (fun x => u3_count x = 0) r1) by (eapply Forall_impl; [|exact C1]; intros a [Ha _]; exact Ha).
    exists (Nat.max (pass_fuel u3_count [g1]) (pass_fuel tcount r1)). intros fuel Hfuel.
    assert (F2 : pass_fuel tcount r1 <= fuel) by lia.
    assert (F1 : pass_fuel u3_count [g1] <= fuel) by lia.
    pose proof (decompose_pass_fuel G P V vzero vadd vadd_0_l vadd_0_r vadd_assoc val tcount replace_magic reduce is_zero (fun x => u3_count x = 0)
                  H_reduce H_zero H_m_replace H_m_dec H_m_inv H_m_nonempty r1 fuel F2 I1) as [r2 [p2 [E2 [S2 [N2 [Z2 C2]]]]]].
    exists r2, (p1 ++ p2).
    unfold find_stab, find_stab_passes, find_stab_reduces_first. cbn [fold_left run_pass app]. fold g1.
    rewrite (decompose_mono G u3_count replace_u3 reduce is_zero _ fuel [g1] _ F1 E1). cbn [app run_pass].
    rewrite E2.
    split; [reflexivity|]. split; [|split; [|split]].
    - intros rho. rewrite S2, S1. cbn [map vsum fold_right]. rewrite vadd_0_r. unfold g1. apply H_reduce.
    - apply N2. apply N1. discriminate.
    - apply Forall_app. split; assumption.
    - exact C2.
  Qed.
End FindStab.
