(* Proofs about Model/Linalg.v (find_basis, transform_error_basis): for ALL matrices, by induction over the rows
   with an explicit loop invariant.  Plain stdlib, no axioms. *)
Set Default Timeout 60.
From Coq Require Import List Bool Arith Lia NArith ZArith Sorted.
Import ListNotations.
Require Import TV.Model.Linalg.

Ltac vlia := unfold vec in *; lia.

(* ================================================================== generic list facts *)
Lemma Forall2_nth {A B} (P : A -> B -> Prop) l1 l2 d1 d2 i :
  Forall2 P l1 l2 -> i < length l1 -> P (nth i l1 d1) (nth i l2 d2).
Proof.
  intros HF. revert i. induction HF as [|x y l1 l2 Hxy HF IH]; intros i Hi; cbn [length] in Hi; [lia|].
  destruct i as [|i]; cbn [nth]; [exact Hxy|apply IH; lia].
Qed.

Lemma Forall2_snoc {A B} (P : A -> B -> Prop) l1 l2 x y :
  Forall2 P l1 l2 -> P x y -> Forall2 P (l1 ++ [x]) (l2 ++ [y]).
Proof. intros H1 H2. apply Forall2_app; [exact H1|constructor; [exact H2|constructor]]. Qed.

Lemma Forall2_impl {A B} (P Q : A -> B -> Prop) l1 l2 :
  (forall a b, P a b -> Q a b) -> Forall2 P l1 l2 -> Forall2 Q l1 l2.
Proof. intros HPQ HF. induction HF; constructor; auto. Qed.

Lemma Forall2_flip_impl {A B} (P : A -> B -> Prop) (Q : B -> A -> Prop) l1 l2 :
  (forall a b, P a b -> Q b a) -> Forall2 P l1 l2 -> Forall2 Q l2 l1.
Proof. intros HPQ HF. induction HF; constructor; auto. Qed.

Lemma Forall2_Forall_r {A B} (P : A -> B -> Prop) (Q : B -> Prop) l1 l2 :
  (forall a b, P a b -> Q b) -> Forall2 P l1 l2 -> Forall Q l2.
Proof. intros HPQ HF. induction HF; constructor; eauto. Qed.

Lemma Forall2_map_eq {A B} (f : A -> B) l1 l2 : Forall2 (fun a b => f a = b) l1 l2 -> map f l1 = l2.
Proof. intros HF. induction HF as [|x y l1 l2 Hxy HF IH]; cbn [map]; [reflexivity|]. rewrite Hxy, IH. reflexivity. Qed.

Lemma Forall2_length' {A B} (P : A -> B -> Prop) l1 l2 : Forall2 P l1 l2 -> length l1 = length l2.
Proof. intros HF. induction HF; cbn [length]; auto. Qed.

Lemma snoc_split {A} (l : list A) n : length l = S n -> exists l' x, l = l' ++ [x] /\ length l' = n.
Proof.
  intros Hl. destruct (exists_last (l := l)) as [l' [x Hx]].
  - intros ->. discriminate.
  - exists l', x. split; [exact Hx|]. subst l. rewrite app_length in Hl. cbn [length] in Hl. lia.
Qed.

(* ================================================================== zeros / vxor *)
Lemma zeros_length n : length (zeros n) = n.
Proof. apply repeat_length. Qed.

Lemma zeros_S n : zeros (S n) = false :: zeros n.
Proof. reflexivity. Qed.

Lemma zeros_snoc n : zeros n ++ [false] = zeros (S n).
Proof. unfold zeros. induction n as [|n IH]; cbn [repeat app]; [reflexivity|]. rewrite IH. reflexivity. Qed.

Lemma nth_zeros q n : nth q (zeros n) false = false.
Proof. unfold zeros. revert q. induction n as [|n IH]; intros [|q]; cbn [repeat nth]; auto. Qed.

Lemma vxor_nil_r a : vxor a [] = a.
Proof. destruct a; reflexivity. Qed.

Lemma vxor_comm a b : vxor a b = vxor b a.
Proof.
  revert b. induction a as [|x a IH]; intros [|y b]; cbn [vxor]; try reflexivity.
  rewrite IH, xorb_comm. reflexivity.
Qed.

Lemma vxor_assoc a b c : vxor (vxor a b) c = vxor a (vxor b c).
Proof.
  revert b c. induction a as [|x a IH]; intros [|y b] [|z c]; cbn [vxor]; try reflexivity.
  rewrite IH, xorb_assoc. reflexivity.
Qed.

Lemma vxor_length a b : length (vxor a b) = Nat.max (length a) (length b).
Proof.
  revert b. induction a as [|x a IH]; intros [|y b]; cbn [vxor length]; try lia.
  rewrite IH. lia.
Qed.

Lemma vxor_length_eq d a b : length a = d -> length b = d -> length (vxor a b) = d.
Proof. intros Ha Hb. rewrite vxor_length. lia. Qed.

Lemma nth_vxor q a b : nth q (vxor a b) false = xorb (nth q a false) (nth q b false).
Proof.
  revert q b. induction a as [|x a IH]; intros q [|y b]; cbn [vxor].
  - destruct q; reflexivity.
  - destruct q; cbn [nth]; rewrite xorb_false_l; reflexivity.
  - destruct q; cbn [nth]; rewrite xorb_false_r; reflexivity.
  - destruct q as [|q]; cbn [nth]; [reflexivity|apply IH].
Qed.

Lemma vxor_self a : vxor a a = zeros (length a).
Proof. induction a as [|x a IH]; cbn [vxor length]; [reflexivity|]. rewrite IH, xorb_nilpotent. reflexivity. Qed.

Lemma vxor_zeros_r a n : n <= length a -> vxor a (zeros n) = a.
Proof.
  revert n. induction a as [|x a IH]; intros n Hn; cbn [length] in Hn.
  - assert (n = 0) as -> by lia. reflexivity.
  - destruct n as [|n]; [apply vxor_nil_r|]. rewrite zeros_S. cbn [vxor]. rewrite xorb_false_r, IH by lia. reflexivity.
Qed.

Lemma vxor_zeros_l a n : n <= length a -> vxor (zeros n) a = a.
Proof. intros Hn. rewrite vxor_comm. apply vxor_zeros_r. exact Hn. Qed.

Lemma vxor_cancel_l a b : length b <= length a -> vxor a (vxor a b) = b ++ zeros (length a - length b).
Proof.
  revert b. induction a as [|x a IH]; intros [|y b] Hl; cbn [length] in Hl |- *; try lia.
  - reflexivity.
  - rewrite vxor_nil_r, vxor_self. reflexivity.
  - cbn [vxor app]. rewrite IH by lia. rewrite <- xorb_assoc, xorb_nilpotent, xorb_false_l. reflexivity.
Qed.

Lemma vxor_cancel d a b : length a = d -> length b = d -> vxor a (vxor a b) = b.
Proof.
  intros Ha Hb. rewrite vxor_cancel_l by lia. replace (length a - length b) with 0 by lia.
  apply app_nil_r.
Qed.

Lemma vxor_eq_zeros d a b : length a = d -> length b = d -> vxor a b = zeros d -> a = b.
Proof.
  intros Ha Hb Hz. rewrite <- (vxor_cancel d a b Ha Hb), Hz. symmetry. apply vxor_zeros_r. lia.
Qed.

Lemma vxor_snoc_false a e : length e <= length a -> vxor (a ++ [false]) e = vxor a e ++ [false].
Proof.
  revert e. induction a as [|x a IH]; intros [|y e] Hl; cbn [length] in Hl; try lia; cbn [app vxor].
  - reflexivity.
  - rewrite ?vxor_nil_r. reflexivity.
  - rewrite IH by lia. reflexivity.
Qed.

(* ================================================================== anyb / first_true / set_true / pad / unit_vec *)
Lemma anyb_zeros n : anyb (zeros n) = false.
Proof. unfold anyb, zeros. induction n as [|n IH]; cbn [repeat existsb]; auto. Qed.

Lemma anyb_false v : anyb v = false -> v = zeros (length v).
Proof.
  unfold anyb. induction v as [|x v IH]; cbn [existsb length]; intros H; [reflexivity|].
  apply orb_false_iff in H. destruct H as [-> H]. rewrite zeros_S, <- IH by exact H. reflexivity.
Qed.

Lemma first_true_spec v : anyb v = true -> nth (first_true v) v false = true.
Proof.
  unfold anyb. induction v as [|x v IH]; cbn [existsb first_true]; intros H; [discriminate|].
  destruct x; cbn [nth]; [reflexivity|]. apply IH. exact H.
Qed.

Lemma nth_true_lt q (v : vec) : nth q v false = true -> q < length v.
Proof.
  intros H. destruct (Nat.lt_ge_cases q (length v)) as [Hlt|Hge]; [exact Hlt|].
  rewrite nth_overflow in H by exact Hge. discriminate.
Qed.

Lemma set_true_length k v : length (set_true k v) = length v.
Proof. revert k. induction v as [|x v IH]; intros [|k]; cbn [set_true length]; auto. Qed.

Lemma set_true_snoc a : set_true (length a) (a ++ [false]) = a ++ [true].
Proof. induction a as [|x a IH]; cbn [length app set_true]; [reflexivity|]. rewrite IH. reflexivity. Qed.

Lemma set_true_snoc' a r : length a = r -> set_true r (a ++ [false]) = a ++ [true].
Proof. intros <-. apply set_true_snoc. Qed.

Lemma nth_set_true_other k q v : q <> k -> nth q (set_true k v) false = nth q v false.
Proof.
  revert k q. induction v as [|x v IH]; intros [|k] [|q] Hne; cbn [set_true nth]; try reflexivity; try lia.
  apply IH. lia.
Qed.

Lemma pad_length n v : length v <= n -> length (pad n v) = n.
Proof. intros H. unfold pad. rewrite app_length, zeros_length. lia. Qed.

Lemma unit_vec_last r : unit_vec (S r) r = zeros r ++ [true].
Proof.
  induction r as [|r IH]; [reflexivity|].
  change (unit_vec (S (S r)) (S r)) with (false :: unit_vec (S r) r). rewrite IH. reflexivity.
Qed.

(* ================================================================== dot *)
Lemma dot_nil_r a : dot a [] = false.
Proof. destruct a; reflexivity. Qed.

Lemma dot_zeros_l n e : dot (zeros n) e = false.
Proof.
  revert e. induction n as [|n IH]; intros [|y e]; try reflexivity.
  rewrite zeros_S. cbn [dot]. rewrite IH. reflexivity.
Qed.

Lemma dot_vxor_l a b e : dot (vxor a b) e = xorb (dot a e) (dot b e).
Proof.
  revert b e. induction a as [|x a IH]; intros [|y b] [|z e]; cbn [vxor dot]; try reflexivity.
  - rewrite xorb_false_l. reflexivity.
  - rewrite xorb_false_r. reflexivity.
  - rewrite IH. destruct x, y, z, (dot a e), (dot b e); reflexivity.
Qed.

Lemma dot_app_zeros t k f : dot (t ++ zeros k) f = dot t f.
Proof.
  revert f. induction t as [|c t IH]; intros [|y f]; cbn [app dot].
  - apply dot_nil_r.
  - apply dot_zeros_l.
  - reflexivity.
  - rewrite IH. reflexivity.
Qed.

(* ================================================================== comb *)
Lemma comb_nil_r t z : comb t [] z = z.
Proof. destruct t; reflexivity. Qed.

Lemma comb_length d t B : rect d B -> length (comb t B (zeros d)) = d.
Proof.
  intros HB. revert t. induction HB as [|b B Hb HB IH]; intros [|c t]; cbn [comb]; try apply zeros_length.
  destruct c; [|apply IH]. apply vxor_length_eq; [exact Hb|apply IH].
Qed.

Lemma comb_zeros n B z : comb (zeros n) B z = z.
Proof.
  revert B. induction n as [|n IH]; intros [|b B]; try reflexivity.
  rewrite zeros_S. cbn [comb]. apply IH.
Qed.

Lemma comb_app_zeros t k B z : comb (t ++ zeros k) B z = comb t B z.
Proof.
  revert B. induction t as [|c t IH]; intros [|b B]; cbn [app comb]; try reflexivity.
  - apply comb_nil_r.
  - apply comb_zeros.
  - rewrite IH. reflexivity.
Qed.

Lemma comb_pad n t B z : comb (pad n t) B z = comb t B z.
Proof. apply comb_app_zeros. Qed.

Lemma comb_app_short t B B2 z : length t <= length B -> comb t (B ++ B2) z = comb t B z.
Proof.
  revert B. induction t as [|c t IH]; intros [|b B] Hl; cbn [length] in Hl; try lia; cbn [app comb].
  - destruct B2; reflexivity.
  - reflexivity.
  - rewrite IH by lia. reflexivity.
Qed.

Lemma comb_snoc d t c B b : length t = length B -> rect d B -> length b = d ->
  comb (t ++ [c]) (B ++ [b]) (zeros d) = if c then vxor (comb t B (zeros d)) b else comb t B (zeros d).
Proof.
  intros Hl HB Hb. revert t Hl. induction HB as [|b0 B Hb0 HB IH]; intros [|c0 t] Hl; cbn [length] in Hl; try lia.
  - cbn [app comb]. destruct c; [|reflexivity]. rewrite vxor_comm. reflexivity.
  - cbn [app comb]. rewrite IH by lia. destruct c0, c; try reflexivity. rewrite vxor_assoc. reflexivity.
Qed.

Lemma comb_vxor d a b B : rect d B ->
  comb (vxor a b) B (zeros d) = vxor (comb a B (zeros d)) (comb b B (zeros d)).
Proof.
  intros HB. revert a b. induction HB as [|b0 B Hb0 HB IH]; intros a b.
  - rewrite !comb_nil_r. rewrite vxor_self, zeros_length. reflexivity.
  - destruct a as [|x a], b as [|y b]; cbn [vxor].
    + cbn [comb]. rewrite vxor_self, zeros_length. reflexivity.
    + cbn [comb]. symmetry. apply vxor_zeros_l.
      destruct y; [rewrite vxor_length_eq with (d := d)|rewrite comb_length]; auto using comb_length; lia.
    + cbn [comb]. symmetry. apply vxor_zeros_r.
      destruct x; [rewrite vxor_length_eq with (d := d)|rewrite comb_length]; auto using comb_length; lia.
    + cbn [comb]. rewrite IH.
      pose proof (comb_length d a B HB) as La. pose proof (comb_length d b B HB) as Lb.
      set (ca := comb a B (zeros d)) in *. set (cb := comb b B (zeros d)) in *.
      destruct x, y; cbn [xorb].
      * rewrite (vxor_assoc b0 ca (vxor b0 cb)), <- (vxor_assoc ca b0 cb), (vxor_comm ca b0), (vxor_assoc b0 ca cb).
        symmetry. apply (vxor_cancel d); [exact Hb0|apply vxor_length_eq; assumption].
      * symmetry. apply vxor_assoc.
      * rewrite <- !vxor_assoc, (vxor_comm b0 ca). reflexivity.
      * reflexivity.
Qed.

Lemma nth_comb_zero p d a B : Forall (fun b => nth p b false = false) B -> nth p (comb a B (zeros d)) false = false.
Proof.
  intros HB. revert a. induction HB as [|b B Hb HB IH]; intros [|c a]; cbn [comb]; try apply nth_zeros.
  destruct c; [|apply IH]. rewrite nth_vxor, Hb, IH. reflexivity.
Qed.

(* <t.B, e> = <t, B.e> : the associativity behind the reparametrisation *)
Lemma dot_comb d t B e : dot (comb t B (zeros d)) e = dot t (map (fun b => dot b e) B).
Proof.
  revert B. induction t as [|c t IH]; intros [|b B]; cbn [comb map dot]; try apply dot_zeros_l.
  destruct c; cbn [andb].
  - rewrite dot_vxor_l, IH. reflexivity.
  - rewrite IH, xorb_false_l. reflexivity.
Qed.

(* ================================================================== span *)
Definition in_span (d : nat) (R : list vec) (x : vec) : Prop :=
  exists a, length a = length R /\ x = comb a R (zeros d).

Lemma in_span_zeros d R : in_span d R (zeros d).
Proof. exists (zeros (length R)). split; [apply zeros_length|]. symmetry. apply comb_zeros. Qed.

Lemma in_span_vxor d R x y : rect d R -> in_span d R x -> in_span d R y -> in_span d R (vxor x y).
Proof.
  intros HR [a [La ->]] [b [Lb ->]]. exists (vxor a b). split.
  - rewrite vxor_length. lia.
  - symmetry. apply comb_vxor. exact HR.
Qed.

Lemma in_span_In d R x : rect d R -> In x R -> in_span d R x.
Proof.
  intros HR. induction HR as [|b R Hb HR IH]; intros Hin; [destruct Hin|].
  destruct Hin as [->|Hin].
  - exists (true :: zeros (length R)). split; [cbn [length]; rewrite zeros_length; reflexivity|].
    cbn [comb]. rewrite comb_zeros. symmetry. apply vxor_zeros_r. lia.
  - destruct (IH Hin) as [a [La ->]]. exists (false :: a). split; [cbn [length]; lia|reflexivity].
Qed.

Lemma in_span_weaken d R y x : rect d R -> length y = d -> in_span d R x -> in_span d (R ++ [y]) x.
Proof.
  intros HR Hy [a [La ->]]. exists (a ++ [false]). split.
  - rewrite !app_length. cbn [length]. lia.
  - rewrite (comb_snoc d) by assumption. reflexivity.
Qed.

Lemma in_span_comb d R B c : rect d R -> Forall (in_span d R) B -> in_span d R (comb c B (zeros d)).
Proof.
  intros HR HB. revert c. induction HB as [|b B Hb HB IH]; intros [|x c]; cbn [comb]; try apply in_span_zeros.
  destruct x; [|apply IH]. apply in_span_vxor; [exact HR|exact Hb|apply IH].
Qed.

(* ================================================================== echelon structure of the reduced basis *)
(* reduced vector j has a 1 at pivot j; every LATER reduced vector has a 0 there *)
Fixpoint echelon (d : nat) (R : list vec) (ps : list nat) : Prop :=
  match R, ps with
  | [], [] => True
  | b :: R', p :: ps' =>
      length b = d /\ nth p b false = true /\ Forall (fun b' => nth p b' false = false) R' /\ echelon d R' ps'
  | _, _ => False
  end.

Lemma echelon_rect d R ps : echelon d R ps -> rect d R.
Proof.
  revert ps. induction R as [|b R IH]; intros [|p ps] H; cbn [echelon] in H; try contradiction; [constructor|].
  destruct H as [Hb [_ [_ H]]]. constructor; [exact Hb|eapply IH; exact H].
Qed.

Lemma echelon_length d R ps : echelon d R ps -> length R = length ps.
Proof.
  revert ps. induction R as [|b R IH]; intros [|p ps] H; cbn [echelon] in H; try contradiction; [reflexivity|].
  destruct H as [_ [_ [_ H]]]. cbn [length]. f_equal. eapply IH; exact H.
Qed.

Lemma echelon_snoc d R ps v p : echelon d R ps -> length v = d -> nth p v false = true ->
  Forall (fun q => nth q v false = false) ps -> echelon d (R ++ [v]) (ps ++ [p]).
Proof.
  revert ps. induction R as [|b R IH]; intros [|q ps] H Hv Hp Hz; cbn [echelon] in H; try contradiction.
  - cbn [app echelon]. repeat split; auto.
  - destruct H as [Hb [Hq [HF H]]]. cbn [app echelon]. repeat split; auto.
    + apply Forall_app. split; [exact HF|]. constructor; [|constructor]. inversion Hz; assumption.
    + apply IH; auto. inversion Hz; assumption.
Qed.

(* a combination of echelon vectors that vanishes at every pivot is the zero vector *)
Lemma echelon_comb_zero d R ps a : echelon d R ps -> length a = length R ->
  Forall (fun p => nth p (comb a R (zeros d)) false = false) ps -> comb a R (zeros d) = zeros d.
Proof.
  revert ps a. induction R as [|b R IH]; intros [|p ps] a H La Hz; cbn [echelon] in H; try contradiction.
  - apply comb_nil_r.
  - destruct H as [Hb [Hp [HF H]]]. destruct a as [|c a]; [discriminate La|]. cbn [length] in La.
    cbn [comb] in Hz |- *. inversion Hz as [|p' ps' Hz1 Hz2]; subst p' ps'.
    destruct c.
    + rewrite nth_vxor, Hp, (nth_comb_zero p d a R HF) in Hz1. discriminate.
    + apply (IH ps a H); [lia|exact Hz2].
Qed.

(* pivots are distinct and inside the row, hence rank <= width *)
Lemma echelon_pivots_lt d R ps : echelon d R ps -> Forall (fun p => p < d) ps.
Proof.
  revert ps. induction R as [|b R IH]; intros [|p ps] H; cbn [echelon] in H; try contradiction; [constructor|].
  destruct H as [Hb [Hp [_ H]]]. constructor; [|eapply IH; exact H]. rewrite <- Hb. apply nth_true_lt. exact Hp.
Qed.

Lemma echelon_pivot_later d R ps p : echelon d R ps -> In p ps -> exists b', In b' R /\ nth p b' false = true.
Proof.
  revert ps. induction R as [|b0 R IH]; intros [|q ps] H Hin; cbn [echelon] in H; try contradiction.
  destruct H as [_ [Hq [_ H]]]. destruct Hin as [->|Hin].
  - exists b0. split; [left; reflexivity|exact Hq].
  - destruct (IH ps H Hin) as [b' [Hb' Hn]]. exists b'. split; [right; exact Hb'|exact Hn].
Qed.

Lemma echelon_NoDup d R ps : echelon d R ps -> NoDup ps.
Proof.
  revert ps. induction R as [|b R IH]; intros [|p ps] H; cbn [echelon] in H; try contradiction; [constructor|].
  destruct H as [_ [_ [HF H]]]. constructor; [|eapply IH; exact H].
  intros Hin. destruct (echelon_pivot_later d R ps p H Hin) as [b' [Hb' Hn]].
  rewrite Forall_forall in HF. rewrite (HF b' Hb') in Hn. discriminate.
Qed.

Lemma echelon_rank_le d R ps : echelon d R ps -> length ps <= d.
Proof.
  intros H. rewrite <- (seq_length d 0). apply NoDup_incl_length; [eapply echelon_NoDup; exact H|].
  intros p Hp. apply in_seq. pose proof (echelon_pivots_lt d R ps H) as HF. rewrite Forall_forall in HF.
  specialize (HF p Hp). lia.
Qed.

(* ================================================================== the reduction loop *)
Definition xor_sel (g : nat -> vec) (cs : list nat) (w : vec) : vec := fold_left (fun w idx => vxor w (g idx)) cs w.

Lemma xor_sel_shift d g cs w : Forall (fun idx => length (g idx) = d) cs -> length w = d ->
  xor_sel g cs w = vxor w (xor_sel g cs (zeros d)).
Proof.
  unfold xor_sel. intros Hg. revert w. induction Hg as [|c cs Hc Hg IH]; intros w Hw; cbn [fold_left].
  - symmetry. apply vxor_zeros_r. lia.
  - rewrite IH by (apply vxor_length_eq; assumption).
    rewrite (IH (vxor (zeros d) (g c))) by (apply vxor_length_eq; [apply zeros_length|assumption]).
    rewrite (vxor_zeros_l (g c) d) by lia. apply vxor_assoc.
Qed.

Lemma xor_sel_length d g cs w : Forall (fun idx => length (g idx) = d) cs -> length w = d -> length (xor_sel g cs w) = d.
Proof.
  unfold xor_sel. intros Hg. revert w. induction Hg as [|c cs Hc Hg IH]; intros w Hw; cbn [fold_left]; [exact Hw|].
  apply IH. apply vxor_length_eq; assumption.
Qed.

Lemma xor_sel_span d R g cs w : rect d R -> Forall (fun idx => in_span d R (g idx)) cs -> in_span d R w ->
  in_span d R (xor_sel g cs w).
Proof.
  unfold xor_sel. intros HR Hg. revert w. induction Hg as [|c cs Hc Hg IH]; intros w Hw; cbn [fold_left]; [exact Hw|].
  apply IH. apply in_span_vxor; assumption.
Qed.

Lemma xor_sel_ext g g' cs w : Forall (fun idx => g idx = g' idx) cs -> xor_sel g cs w = xor_sel g' cs w.
Proof.
  unfold xor_sel. intros Hg. revert w. induction Hg as [|c cs Hc Hg IH]; intros w; cbn [fold_left]; [reflexivity|].
  rewrite Hc. apply IH.
Qed.

(* v' is v plus the reduced vectors named by coeffs; coeffs are valid indices *)
Lemma reduce_loop_spec pre rs : forall ps j v, j = length pre ->
  fst (reduce_loop j v rs ps) = xor_sel (fun idx => nth idx (pre ++ rs) []) (snd (reduce_loop j v rs ps)) v
  /\ Forall (fun idx => idx < j + length rs) (snd (reduce_loop j v rs ps)).
Proof.
  revert pre. induction rs as [|b rs IH]; intros pre [|p ps] j v Hj; cbn [reduce_loop fst snd];
    try (split; [reflexivity|constructor]).
  assert (Hpre : (pre ++ [b]) ++ rs = pre ++ b :: rs) by (rewrite <- app_assoc; reflexivity).
  assert (HSj : S j = length (pre ++ [b])) by (rewrite app_length; cbn [length]; lia).
  destruct (nth p v false).
  - specialize (IH (pre ++ [b]) ps (S j) (vxor v b) HSj). rewrite Hpre in IH.
    destruct (reduce_loop (S j) (vxor v b) rs ps) as [v' cs]. cbn [fst snd] in IH |- *. destruct IH as [IH1 IH2].
    split.
    + unfold xor_sel in IH1 |- *. cbn [fold_left]. rewrite Hj at 1. rewrite nth_middle. exact IH1.
    + constructor; [cbn [length]; lia|]. eapply Forall_impl; [|exact IH2]. cbn [length]. intros; lia.
  - specialize (IH (pre ++ [b]) ps (S j) v HSj). rewrite Hpre in IH. destruct IH as [IH1 IH2].
    split; [exact IH1|]. eapply Forall_impl; [|exact IH2]. cbn [length]. intros; lia.
Qed.

Lemma reduce_loop_preserve q rs : forall ps j v, Forall (fun b => nth q b false = false) rs ->
  nth q v false = false -> nth q (fst (reduce_loop j v rs ps)) false = false.
Proof.
  induction rs as [|b rs IH]; intros [|p ps] j v HF Hv; cbn [reduce_loop fst]; try exact Hv.
  inversion HF as [|b' rs' Hb HF']; subst b' rs'.
  destruct (nth p v false).
  - specialize (IH ps (S j) (vxor v b) HF'). destruct (reduce_loop (S j) (vxor v b) rs ps) as [v' cs].
    cbn [fst] in IH |- *. apply IH. rewrite nth_vxor, Hv, Hb. reflexivity.
  - apply IH; assumption.
Qed.

Lemma reduce_loop_clears d rs : forall ps j v, echelon d rs ps ->
  Forall (fun p => nth p (fst (reduce_loop j v rs ps)) false = false) ps.
Proof.
  induction rs as [|b rs IH]; intros [|p ps] j v H; cbn [echelon] in H; try contradiction; [constructor|].
  destruct H as [Hb [Hp [HF H]]]. cbn [reduce_loop]. destruct (nth p v false) eqn:Hv.
  - pose proof (reduce_loop_preserve p rs ps (S j) (vxor v b) HF) as Hpres.
    specialize (IH ps (S j) (vxor v b) H). destruct (reduce_loop (S j) (vxor v b) rs ps) as [v' cs].
    cbn [fst] in *. constructor; [|exact IH]. apply Hpres. rewrite nth_vxor, Hv, Hp. reflexivity.
  - constructor; [|apply IH; exact H]. apply reduce_loop_preserve; assumption.
Qed.

(* ================================================================== dep_sum *)
Definition exp_ok (d r : nat) (Bs : list vec) (R e : vec) : Prop := comb e Bs (zeros d) = R /\ length e <= r.

Lemma dep_sum_length r es cs : Forall (fun idx => length (nth idx es []) <= r) cs -> length (dep_sum r es cs) = r.
Proof.
  unfold dep_sum. intros Hc. assert (Hz : length (zeros r) = r) by apply zeros_length. revert Hz.
  generalize (zeros r). induction Hc as [|c cs Hc Hcs IH]; intros w Hw; cbn [fold_left]; [exact Hw|].
  apply IH. cbn beta in Hc. rewrite vxor_length. vlia.
Qed.

Lemma dep_sum_S r es cs : Forall (fun idx => length (nth idx es []) <= r) cs ->
  dep_sum (S r) es cs = dep_sum r es cs ++ [false].
Proof.
  unfold dep_sum. rewrite <- zeros_snoc. intros Hc. assert (Hz : length (zeros r) = r) by apply zeros_length. revert Hz.
  generalize (zeros r). induction Hc as [|c cs Hc Hcs IH]; intros w Hw; cbn [fold_left]; [reflexivity|].
  cbn beta in Hc. rewrite vxor_snoc_false by vlia. apply IH. rewrite vxor_length. vlia.
Qed.

Lemma comb_dep_sum d r Bs Rs es cs : rect d Bs -> Forall2 (exp_ok d r Bs) Rs es ->
  Forall (fun idx => idx < length Rs) cs ->
  comb (dep_sum r es cs) Bs (zeros d) = xor_sel (fun idx => nth idx Rs []) cs (zeros d).
Proof.
  intros HB HF Hc. unfold dep_sum, xor_sel.
  rewrite <- (comb_zeros r Bs (zeros d)) at 2. generalize (zeros r).
  induction Hc as [|c cs Hc Hcs IH]; intros w; cbn [fold_left]; [reflexivity|].
  rewrite IH, (comb_vxor d) by exact HB.
  destruct (Forall2_nth _ Rs es [] [] c HF Hc) as [He _]. rewrite He. reflexivity.
Qed.

(* ================================================================== the loop invariant of find_basis *)
Definition basis_rows (vs : list vec) (idx : list nat) : list vec := map (fun i => nth i vs []) idx.
Definition indep (d : nat) (Bs : list vec) : Prop :=
  forall c, length c = length Bs -> comb c Bs (zeros d) = zeros d -> c = zeros (length Bs).

Record Inv (d : nat) (vs : list vec) (s : st) : Prop := {
  inv_idx_lt   : Forall (fun i => i < length vs) (basis_idx s);
  inv_idx_sort : StronglySorted lt (basis_idx s);
  inv_rank_le  : length (basis_idx s) <= length vs;
  inv_len_red  : length (reduced s) = length (basis_idx s);
  inv_echelon  : echelon d (reduced s) (pivots s);
  inv_exp      : Forall2 (exp_ok d (length (basis_idx s)) (basis_rows vs (basis_idx s))) (reduced s) (expansion s);
  inv_span     : Forall (in_span d (reduced s)) (basis_rows vs (basis_idx s));
  inv_indep    : indep d (basis_rows vs (basis_idx s));
  inv_trows    : Forall2 (exp_ok d (length (basis_idx s)) (basis_rows vs (basis_idx s))) vs (trows s)
}.

Lemma basis_rows_length vs idx : length (basis_rows vs idx) = length idx.
Proof. apply map_length. Qed.

Lemma basis_rows_rect d vs idx : rect d vs -> Forall (fun i => i < length vs) idx -> rect d (basis_rows vs idx).
Proof.
  intros Hvs Hidx. unfold rect, basis_rows. rewrite Forall_map. eapply Forall_impl; [|exact Hidx].
  cbn beta. intros i Hi. unfold rect in Hvs. rewrite Forall_forall in Hvs. apply Hvs. apply nth_In. exact Hi.
Qed.

Lemma basis_rows_old vs v idx : Forall (fun i => i < length vs) idx -> basis_rows (vs ++ [v]) idx = basis_rows vs idx.
Proof.
  intros Hidx. unfold basis_rows. apply map_ext_in. intros i Hi. rewrite Forall_forall in Hidx.
  apply app_nth1. apply Hidx. exact Hi.
Qed.

Lemma basis_rows_new vs v idx : Forall (fun i => i < length vs) idx ->
  basis_rows (vs ++ [v]) (idx ++ [length vs]) = basis_rows vs idx ++ [v].
Proof.
  intros Hidx. unfold basis_rows at 1. rewrite map_app. fold (basis_rows (vs ++ [v]) idx).
  rewrite basis_rows_old by exact Hidx. cbn [map]. rewrite nth_middle. reflexivity.
Qed.

Lemma sorted_snoc idx n : StronglySorted lt idx -> Forall (fun i => i < n) idx -> StronglySorted lt (idx ++ [n]).
Proof.
  intros Hs. induction Hs as [|i idx Hs IH Hi]; intros Hlt; cbn [app].
  - constructor; constructor.
  - inversion Hlt as [|i' idx' Hin Hlt']; subst i' idx'. constructor; [apply IH; exact Hlt'|].
    apply Forall_app. split; [exact Hi|]. constructor; [exact Hin|constructor].
Qed.

Lemma exp_ok_grow d r Bs v R e : exp_ok d r Bs R e -> r <= length Bs -> exp_ok d (S r) (Bs ++ [v]) R e.
Proof.
  intros [He Hl] Hr. split; [|lia]. rewrite comb_app_short by lia. exact He.
Qed.

Lemma inv_init d : Inv d [] st0.
Proof.
  constructor; cbn [st0 basis_idx reduced pivots expansion trows length basis_rows map echelon]; try constructor.
  intros c Hc _. destruct c; [reflexivity|discriminate].
Qed.

Lemma inv_step d vs s v : Inv d vs s -> rect d vs -> length v = d -> Inv d (vs ++ [v]) (step s (length vs, v)).
Proof.
  intros HI Hvs Hv. destruct HI as [Hlt Hsort Hrk Hlr Hech Hexp Hspan Hind Htr].
  set (r := length (basis_idx s)) in *. set (Bs := basis_rows vs (basis_idx s)) in *.
  assert (HBs : rect d Bs) by (apply basis_rows_rect; assumption).
  assert (HR : rect d (reduced s)) by (eapply echelon_rect; exact Hech).
  assert (LBs : length Bs = r) by apply basis_rows_length.
  assert (Hlt' : Forall (fun i => i < length (vs ++ [v])) (basis_idx s)).
  { eapply Forall_impl; [|exact Hlt]. cbn beta. intros i Hi. rewrite app_length. cbn [length]. lia. }
  unfold step.
  pose proof (reduce_loop_spec [] (reduced s) (pivots s) 0 v eq_refl) as [Hv' Hcs].
  pose proof (reduce_loop_clears d (reduced s) (pivots s) 0 v Hech) as Hclr.
  destruct (reduce_loop 0 v (reduced s) (pivots s)) as [v' cs]. cbn [fst snd app] in Hv', Hcs, Hclr.
  cbn [Nat.add] in Hcs.
  (* lengths of the selected reduced vectors / expansions *)
  assert (HgR : Forall (fun idx => length (nth idx (reduced s) []) = d) cs).
  { eapply Forall_impl; [|exact Hcs]. cbn beta. intros idx Hidx. unfold rect in HR. rewrite Forall_forall in HR.
    apply HR. apply nth_In. exact Hidx. }
  assert (Hge : Forall (fun idx => length (nth idx (expansion s) []) <= r) cs).
  { eapply Forall_impl; [|exact Hcs]. cbn beta. intros idx Hidx.
    destruct (Forall2_nth _ _ _ [] [] idx Hexp Hidx) as [_ Hl]. exact Hl. }
  set (X := xor_sel (fun idx => nth idx (reduced s) []) cs (zeros d)) in *.
  assert (HvX : v' = vxor v X) by (rewrite Hv'; apply xor_sel_shift; assumption).
  assert (LX : length X = d) by (apply xor_sel_length; [exact HgR|apply zeros_length]).
  assert (Lv' : length v' = d) by (rewrite HvX; apply vxor_length_eq; assumption).
  assert (HXspan : in_span d (reduced s) X).
  { apply xor_sel_span; [exact HR| |apply in_span_zeros].
    eapply Forall_impl; [|exact Hcs]. cbn beta. intros idx Hidx. apply in_span_In; [exact HR|]. apply nth_In. exact Hidx. }
  assert (Hdep : comb (dep_sum r (expansion s) cs) Bs (zeros d) = X).
  { apply (comb_dep_sum d r Bs (reduced s)); assumption. }
  assert (Ldep : length (dep_sum r (expansion s) cs) = r) by (apply dep_sum_length; exact Hge).
  assert (HvX' : v = vxor v' X).
  { rewrite HvX, vxor_assoc, vxor_self, LX. symmetry. apply vxor_zeros_r. lia. }
  destruct (anyb v') eqn:Hany.
  - (* independent *)
    constructor; cbn [basis_idx reduced pivots expansion trows].
    + apply Forall_app. split; [exact Hlt'|]. constructor; [|constructor]. rewrite app_length. cbn [length]. lia.
    + apply sorted_snoc; assumption.
    + rewrite !app_length. cbn [length]. lia.
    + rewrite !app_length. cbn [length]. lia.
    + apply echelon_snoc; try assumption. apply first_true_spec. exact Hany.
    + rewrite basis_rows_new by exact Hlt. rewrite app_length. cbn [length]. fold r. fold Bs.
      replace (r + 1) with (S r) by lia.
      apply Forall2_snoc.
      * eapply Forall2_impl; [|exact Hexp]. intros R e Hok. apply exp_ok_grow; [exact Hok|lia].
      * rewrite dep_sum_S by exact Hge. rewrite (set_true_snoc' _ r Ldep). split.
        -- rewrite (comb_snoc d) by (try assumption; lia). rewrite Hdep, HvX. apply vxor_comm.
        -- rewrite app_length. cbn [length]. lia.
    + rewrite basis_rows_new by exact Hlt. fold Bs. apply Forall_app. split.
      * eapply Forall_impl; [|exact Hspan]. intros b Hb. apply in_span_weaken; assumption.
      * constructor; [|constructor]. rewrite HvX'. apply in_span_vxor.
        -- apply Forall_app. split; [exact HR|constructor; [exact Lv'|constructor]].
        -- apply in_span_In; [apply Forall_app; split; [exact HR|constructor; [exact Lv'|constructor]]|].
           apply in_or_app. right. left. reflexivity.
        -- apply in_span_weaken; assumption.
    + rewrite basis_rows_new by exact Hlt. fold Bs. intros c Lc Hc.
      rewrite app_length in Lc |- *. cbn [length] in Lc |- *. rewrite LBs in Lc |- *.
      replace (r + 1) with (S r) in * by lia.
      destruct (snoc_split c r Lc) as [c0 [cr [-> Lc0]]].
      rewrite (comb_snoc d) in Hc by (try assumption; lia).
      destruct cr.
      * exfalso.
        assert (Hveq : v = comb c0 Bs (zeros d)).
        { symmetry. apply (vxor_eq_zeros d); [apply comb_length; exact HBs|exact Hv|exact Hc]. }
        assert (Hvspan : in_span d (reduced s) v) by (rewrite Hveq; apply in_span_comb; assumption).
        assert (Hv'span : in_span d (reduced s) v') by (rewrite HvX; apply in_span_vxor; assumption).
        destruct Hv'span as [a [La Ha]].
        assert (Hz : v' = zeros d).
        { rewrite Ha. apply (echelon_comb_zero d (reduced s) (pivots s)); [exact Hech|exact La|]. rewrite <- Ha. exact Hclr. }
        rewrite Hz, anyb_zeros in Hany. discriminate.
      * rewrite (Hind c0) by (try exact Hc; lia). rewrite LBs. apply zeros_snoc.
    + rewrite basis_rows_new by exact Hlt. rewrite app_length. cbn [length]. fold r. fold Bs.
      replace (r + 1) with (S r) by lia.
      apply Forall2_snoc.
      * eapply Forall2_impl; [|exact Htr]. intros R e Hok. apply exp_ok_grow; [exact Hok|lia].
      * rewrite unit_vec_last. split.
        -- rewrite (comb_snoc d) by (try assumption; rewrite zeros_length; lia).
           rewrite comb_zeros. apply vxor_zeros_l. lia.
        -- rewrite app_length, zeros_length. cbn [length]. lia.
  - (* dependent *)
    assert (Hz : v' = zeros d) by (rewrite <- Lv'; apply anyb_false; exact Hany).
    assert (HvXeq : v = X).
    { apply (vxor_eq_zeros d); try assumption. rewrite <- HvX. exact Hz. }
    constructor; cbn [basis_idx reduced pivots expansion trows]; fold r;
      try (rewrite basis_rows_old by exact Hlt; fold Bs); try assumption.
    + rewrite app_length. cbn [length]. lia.
    + apply Forall2_snoc; [exact Htr|]. split; [rewrite Hdep; symmetry; exact HvXeq|lia].
Qed.

Lemma enumerate_app {A} n (l : list A) x : enumerate n (l ++ [x]) = enumerate n l ++ [(n + length l, x)].
Proof.
  revert n. induction l as [|y l IH]; intros n; cbn [app enumerate length].
  - rewrite Nat.add_0_r. reflexivity.
  - rewrite IH. replace (S n + length l) with (n + S (length l)) by lia. reflexivity.
Qed.

Lemma run_snoc vs v : run (vs ++ [v]) = step (run vs) (length vs, v).
Proof. unfold run. rewrite enumerate_app, fold_left_app. reflexivity. Qed.

Lemma run_inv d vs : rect d vs -> Inv d vs (run vs).
Proof.
  induction vs as [|v vs IH] using rev_ind; intros Hvs; [apply inv_init|].
  apply Forall_app in Hvs. destruct Hvs as [Hvs Hv]. inversion Hv as [|v0 l0 Hv0 _]; subst v0 l0.
  rewrite run_snoc. apply inv_step; auto.
Qed.

(* ================================================================== theorems about find_basis *)
Theorem find_basis_factor d V : rect d V -> matmul (snd (find_basis V)) (fst (find_basis V)) d = V.
Proof.
  intros HV. pose proof (inv_trows d V (run V) (run_inv d V HV)) as Htr.
  unfold find_basis, matmul. cbn [fst snd]. fold (basis_rows V (basis_idx (run V))). rewrite map_map.
  apply Forall2_map_eq. apply Forall2_flip_impl with (P := exp_ok d (length (basis_idx (run V))) (basis_rows V (basis_idx (run V)))).
  - intros v t [Hok _]. rewrite comb_pad. exact Hok.
  - exact Htr.
Qed.

Theorem find_basis_independent d V : rect d V -> indep d (fst (find_basis V)).
Proof. intros HV. exact (inv_indep d V (run V) (run_inv d V HV)). Qed.

Theorem find_basis_sub V :
  fst (find_basis V) = map (fun i => nth i V []) (basis_indices V).
Proof. reflexivity. Qed.

Theorem basis_indices_sorted d V : rect d V ->
  StronglySorted lt (basis_indices V) /\ Forall (fun i => i < length V) (basis_indices V).
Proof.
  intros HV. pose proof (run_inv d V HV) as HI. split; [exact (inv_idx_sort d V _ HI)|exact (inv_idx_lt d V _ HI)].
Qed.

Theorem find_basis_sub_full d V : rect d V ->
  fst (find_basis V) = map (fun i => nth i V []) (basis_indices V)
  /\ StronglySorted lt (basis_indices V) /\ Forall (fun i => i < length V) (basis_indices V).
Proof. intros HV. split; [apply find_basis_sub|exact (basis_indices_sorted d V HV)]. Qed.

Theorem find_basis_shapes d V : rect d V ->
  let B := fst (find_basis V) in let T := snd (find_basis V) in
  length T = length V /\ rect (length B) T /\ rect d B /\ length B <= length V /\ length B <= d
  /\ length B = rank_of V.
Proof.
  intros HV. pose proof (run_inv d V HV) as HI. destruct HI as [Hlt Hsort Hrk Hlr Hech Hexp Hspan Hind Htr].
  unfold find_basis, rank_of, basis_indices. cbn [fst snd]. rewrite !map_length.
  split; [symmetry; eapply Forall2_length'; exact Htr|].
  split.
  { unfold rect. rewrite Forall_map. eapply Forall2_Forall_r; [|exact Htr]. cbn beta.
    intros v t [_ Hl]. apply pad_length. exact Hl. }
  split; [apply basis_rows_rect; assumption|].
  split; [exact Hrk|]. split; [|reflexivity].
  rewrite <- Hlr, (echelon_length d _ _ Hech). eapply echelon_rank_le. exact Hech.
Qed.

(* every raw assignment: <T_i, B.e> = <V_i, e> *)
Theorem find_basis_reparam d V e : rect d V ->
  map (fun t => dot t (map (fun b => dot b e) (fst (find_basis V)))) (snd (find_basis V)) = map (fun v => dot v e) V.
Proof.
  intros HV.
  transitivity (map (fun v => dot v e) (matmul (snd (find_basis V)) (fst (find_basis V)) d));
    [|rewrite (find_basis_factor d V HV); reflexivity].
  unfold matmul. rewrite map_map. apply map_ext. intros t. symmetry. apply dot_comb.
Qed.

(* ================================================================== transform_error_basis *)
Lemma list_max_ge x l : In x l -> x <= list_max l.
Proof.
  unfold list_max. induction l as [|y l IH]; intros Hin; [destruct Hin|]. cbn [fold_right].
  destruct Hin as [->|Hin]; [lia|]. specialize (IH Hin). lia.
Qed.

Lemma num_errors_gt par num_e p k : In p par -> In k (snd p) -> k < num_errors par num_e.
Proof.
  intros Hp Hk. unfold num_errors.
  assert (k <= list_max (map (fun p => list_max (snd p)) par)).
  { etransitivity; [apply list_max_ge; exact Hk|]. apply list_max_ge. apply in_map_iff. exists p. split; auto. }
  destruct num_e; lia.
Qed.

Lemma indicator_length n idx : length (indicator n idx) = n.
Proof.
  unfold indicator. rewrite <- (zeros_length n) at 2. generalize (zeros n).
  induction idx as [|k idx IH]; intros v; cbn [fold_left]; [reflexivity|]. rewrite IH. apply set_true_length.
Qed.

Lemma dot_set_true k v el : k < length v -> nth k v false = false ->
  dot (set_true k v) el = xorb (dot v el) (nth k el false).
Proof.
  revert k el. induction v as [|x v IH]; intros k el Hk Hn; cbn [length] in Hk; [lia|].
  destruct k as [|k]; cbn [set_true nth] in *.
  - subst x. destruct el as [|y el]; cbn [dot nth]; [reflexivity|]. destruct y, (dot v el); reflexivity.
  - destruct el as [|y el]; cbn [dot nth]; [reflexivity|]. rewrite IH by (try assumption; lia).
    rewrite xorb_assoc. reflexivity.
Qed.

Lemma dot_indicator_gen es : forall v el, NoDup es -> Forall (fun k => k < length v /\ nth k v false = false) es ->
  dot (fold_left (fun v k => set_true k v) es v) el = xorb (dot v el) (fold_right (fun k acc => xorb (nth k el false) acc) false es).
Proof.
  induction es as [|k es IH]; intros v el Hnd HF; cbn [fold_left fold_right]; [rewrite xorb_false_r; reflexivity|].
  inversion Hnd as [|k' es' Hnin Hnd']; subst k' es'. inversion HF as [|k' es' [Hk Hn] HF']; subst k' es'.
  rewrite IH.
  - rewrite dot_set_true by assumption. rewrite xorb_assoc. reflexivity.
  - exact Hnd'.
  - rewrite Forall_forall in HF' |- *. intros q Hq. destruct (HF' q Hq) as [Hq1 Hq2].
    rewrite set_true_length. split; [exact Hq1|]. rewrite nth_set_true_other; [exact Hq2|]. intros ->. contradiction.
Qed.

Lemma nth_map_seq (e : nat -> bool) n k : k < n -> nth k (map e (seq 0 n)) false = e k.
Proof.
  intros Hk. rewrite nth_indep with (d' := e 0) by (rewrite map_length, seq_length; exact Hk).
  rewrite map_nth. rewrite seq_nth by exact Hk. reflexivity.
Qed.

Lemma dot_indicator n es e : NoDup es -> Forall (fun k => k < n) es ->
  dot (indicator n es) (map e (seq 0 n)) = par_set es e.
Proof.
  intros Hnd Hlt. unfold indicator. rewrite dot_indicator_gen.
  - rewrite dot_zeros_l, xorb_false_l. unfold par_set. clear Hnd.
    induction Hlt as [|k es Hk Hlt IH]; cbn [fold_right]; [reflexivity|]. rewrite IH, nth_map_seq by exact Hk. reflexivity.
  - exact Hnd.
  - eapply Forall_impl; [|exact Hlt]. cbn beta. intros k Hk. rewrite zeros_length, nth_zeros. auto.
Qed.

Lemma par_nonzero g t : forall k fl, length t <= length fl -> (forall j, j < length t -> g (k + j) = nth j fl false) ->
  par_set (nonzero_from k t) g = dot t fl.
Proof.
  unfold par_set. induction t as [|x t IH]; intros k fl Hl Hg; cbn [nonzero_from]; [reflexivity|].
  destruct fl as [|y fl]; cbn [length] in Hl; [lia|]. cbn [dot].
  assert (Hrec : fold_right (fun k0 acc => xorb (g k0) acc) false (nonzero_from (S k) t) = dot t fl).
  { apply IH; [lia|]. intros j Hj. replace (S k + j) with (k + S j) by lia. rewrite Hg by (cbn [length]; lia). reflexivity. }
  pose proof (Hg 0 ltac:(cbn [length]; lia)) as H0. rewrite Nat.add_0_r in H0. cbn [nth] in H0.
  destruct x; cbn [fold_right andb]; rewrite Hrec; [rewrite H0; reflexivity|rewrite xorb_false_l; reflexivity].
Qed.

Lemma dot_app_r b l1 l2 : length b <= length l1 -> dot b (l1 ++ l2) = dot b l1.
Proof.
  revert l1. induction b as [|x b IH]; intros [|y l1] Hl; cbn [length] in Hl; try lia; cbn [app dot].
  - destruct l2; reflexivity.
  - reflexivity.
  - rewrite IH by lia. reflexivity.
Qed.

Lemma dotf_dot b e n : length b <= n -> dot b (map e (seq 0 n)) = dotf b e.
Proof.
  intros Hl. unfold dotf. replace n with (length b + (n - length b)) by lia. rewrite seq_app, map_app.
  apply dot_app_r. rewrite map_length, seq_length. lia.
Qed.

Lemma Forall2_same {A} (P : A -> A -> Prop) l : (forall x, In x l -> P x x) -> Forall2 P l l.
Proof. induction l as [|x l IH]; intros H; constructor; [apply H; left; reflexivity|apply IH; intros y Hy; apply H; right; exact Hy]. Qed.

Lemma map_eq_Forall2 {A B C} (f : A -> C) (g : B -> C) l1 l2 : map f l1 = map g l2 -> Forall2 (fun a b => f a = g b) l1 l2.
Proof.
  revert l2. induction l1 as [|a l1 IH]; intros [|b l2] H; cbn [map] in H; try discriminate; constructor.
  - injection H as H1 _. exact H1.
  - apply IH. injection H as _ H2. exact H2.
Qed.

Lemma Forall2_impl_in {A B} (P Q : A -> B -> Prop) l1 l2 :
  (forall a b, In a l1 -> In b l2 -> P a b -> Q a b) -> Forall2 P l1 l2 -> Forall2 Q l1 l2.
Proof.
  intros HPQ HF. induction HF as [|a b l1 l2 Hab HF IH]; constructor.
  - apply HPQ; [left; reflexivity|left; reflexivity|exact Hab].
  - apply IH. intros a' b' Ha Hb. apply HPQ; right; assumption.
Qed.

Lemma is_param_false p : is_param p = false -> snd p = [].
Proof. unfold is_param. destruct (snd p); [reflexivity|discriminate]. Qed.

Lemma filter_nil {A} (f : A -> bool) l : filter f l = [] -> forall x, In x l -> f x = false.
Proof.
  induction l as [|y l IH]; intros H x Hx; [destruct Hx|]. cbn [filter] in H. destruct (f y) eqn:Hy; [discriminate|].
  destruct Hx as [->|Hx]; [exact Hy|apply IH; assumption].
Qed.

(* what the re-labelling loop guarantees per vertex *)
Definition vertex_ok (B : list vec) (e : nat -> bool) (old new : vtx * list nat) : Prop :=
  fst new = fst old
  /\ par_set (snd new) (f_of B e) = par_set (snd old) e
  /\ (is_param old = false -> new = old).

Lemma reassign_spec B e : forall verts T,
  Forall2 (fun t p => par_set (nonzero_idx t) (f_of B e) = par_set (snd p) e) T (filter is_param verts) ->
  Forall2 (vertex_ok B e) verts (reassign verts T).
Proof.
  induction verts as [|p verts IH]; intros T HF; cbn [reassign]; [constructor|].
  cbn [filter] in HF. destruct (is_param p) eqn:Hp.
  - inversion HF as [|t p' T' par' Htp HF']; subst. constructor; [|apply IH; exact HF'].
    split; [reflexivity|]. split; [exact Htp|]. intros Hc. rewrite Hp in Hc. discriminate.
  - constructor; [|apply IH; exact HF]. split; [reflexivity|]. split; [|reflexivity].
    rewrite (is_param_false p Hp). reflexivity.
Qed.

Lemma error_matrix_rect par num_e : rect (num_errors par num_e) (error_matrix par num_e).
Proof. unfold rect, error_matrix. rewrite Forall_map. apply Forall_forall. intros p _. apply indicator_length. Qed.

Theorem teb_reparam verts num_e e : (forall p, In p verts -> NoDup (snd p)) ->
  let '(verts', B, n) := transform_error_basis verts num_e in
  Forall2 (vertex_ok B e) verts verts' /\ rect n B.
Proof.
  intros Hnd. unfold transform_error_basis. destruct (filter is_param verts) as [|p0 par'] eqn:Hpar.
  - split; [|constructor]. apply Forall2_same. intros p Hp. split; [reflexivity|]. split; [|reflexivity].
    rewrite (is_param_false p (filter_nil _ _ Hpar p Hp)). reflexivity.
  - set (par := p0 :: par') in *. set (n := num_errors par num_e). set (M := error_matrix par num_e).
    assert (HM : rect n M) by apply error_matrix_rect.
    pose proof (find_basis_shapes n M HM) as Hsh. pose proof (find_basis_reparam n M (map e (seq 0 n)) HM) as Hrp.
    destruct (find_basis M) as [B T]. cbn [fst snd] in Hsh, Hrp. cbn zeta in Hsh.
    destruct Hsh as [_ [HT [HB _]]]. split; [|exact HB].
    apply reassign_spec. rewrite Hpar. fold par.
    unfold M, error_matrix in Hrp. rewrite map_map in Hrp. apply map_eq_Forall2 in Hrp.
    eapply Forall2_impl_in; [|exact Hrp]. cbn beta. intros t p Ht Hp Heq.
    assert (Hpv : In p verts).
    { assert (Hpf : In p (filter is_param verts)) by (rewrite Hpar; exact Hp). apply filter_In in Hpf. tauto. }
    rewrite dot_indicator in Heq.
    + rewrite <- Heq. unfold nonzero_idx.
      unfold rect in HT. rewrite Forall_forall in HT. specialize (HT t Ht).
      apply par_nonzero; [rewrite map_length; lia|]. intros j Hj. cbn [Nat.add].
      rewrite nth_indep with (d' := dot [] (map e (seq 0 n))) by (rewrite map_length; lia).
      rewrite (map_nth (fun b => dot b (map e (seq 0 n)))). unfold f_of. symmetry. apply dotf_dot.
      unfold rect in HB. rewrite Forall_forall in HB. rewrite (HB (nth j B [])); [lia|]. apply nth_In. lia.
    + apply Hnd. exact Hpv.
    + apply Forall_forall. intros k Hk. eapply num_errors_gt; eassumption.
Qed.

(* the new parameter sets are sets (strictly increasing index lists) of valid f-indices *)
Lemma nonzero_from_bounds t : forall k, Forall (fun j => k <= j < k + length t) (nonzero_from k t).
Proof.
  induction t as [|x t IH]; intros k; cbn [nonzero_from length]; [constructor|].
  assert (H : Forall (fun j => k <= j < k + S (length t)) (nonzero_from (S k) t)).
  { eapply Forall_impl; [|apply IH]. cbn beta. intros; lia. }
  destruct x; [constructor; [lia|exact H]|exact H].
Qed.

Lemma nonzero_from_sorted t : forall k, StronglySorted lt (nonzero_from k t).
Proof.
  induction t as [|x t IH]; intros k; cbn [nonzero_from]; [constructor|].
  destruct x; [|apply IH]. constructor; [apply IH|].
  eapply Forall_impl; [|apply nonzero_from_bounds]. cbn beta. intros; lia.
Qed.

Theorem nonzero_idx_set t : StronglySorted lt (nonzero_idx t) /\ Forall (fun j => j < length t) (nonzero_idx t).
Proof.
  split; [apply nonzero_from_sorted|]. eapply Forall_impl; [|apply (nonzero_from_bounds t 0)]. cbn beta. intros; lia.
Qed.

(* T is determined by B: any T' of the right shape with T'.B = V is the T that find_basis returns *)
Theorem find_basis_transform_unique d V T' : rect d V ->
  rect (length (fst (find_basis V))) T' -> matmul T' (fst (find_basis V)) d = V -> T' = snd (find_basis V).
Proof.
  intros HV HT' Hmm. pose proof (find_basis_factor d V HV) as Hf. pose proof (find_basis_independent d V HV) as Hind.
  pose proof (find_basis_shapes d V HV) as Hsh. cbn zeta in Hsh. destruct Hsh as [_ [HT [HB _]]].
  set (B := fst (find_basis V)) in *. set (T := snd (find_basis V)) in *.
  rewrite <- Hf in Hmm. unfold matmul in Hmm. clear Hf. revert T' HT' Hmm.
  induction HT as [|t T Ht HT IH]; intros [|t' T'] HT' Hmm; cbn [map] in Hmm; try discriminate; [reflexivity|].
  inversion HT' as [|t0 T0 Ht' HT'']; subst t0 T0. injection Hmm as Hrow Hrest. f_equal; [|apply IH; assumption].
  apply (vxor_eq_zeros (length B)); [exact Ht'|exact Ht|]. apply Hind.
  - rewrite vxor_length. unfold vec in *. lia.
  - rewrite (comb_vxor d) by exact HB. rewrite Hrow, vxor_self, comb_length by exact HB. reflexivity.
Qed.

(* ================================================================== the basis is the greedy (left-most) one *)
Lemma exp_ok_span d r Bs x t : length Bs = r -> exp_ok d r Bs x t -> in_span d Bs x.
Proof.
  intros LB [Hc Hl]. exists (pad r t). split; [rewrite pad_length by exact Hl; symmetry; exact LB|].
  rewrite comb_pad. symmetry. exact Hc.
Qed.

Lemma step_idx s n v : basis_idx (step s (n, v)) = basis_idx s ++ [n] \/ basis_idx (step s (n, v)) = basis_idx s.
Proof.
  unfold step. destruct (reduce_loop 0 v (reduced s) (pivots s)) as [v' cs]. destruct (anyb v'); cbn [basis_idx]; auto.
Qed.

Lemma basis_rows_in vs idx : Forall (fun i => i < length vs) idx -> Forall (fun b => In b vs) (basis_rows vs idx).
Proof.
  intros H. unfold basis_rows. rewrite Forall_map. eapply Forall_impl; [|exact H]. cbn beta. intros i Hi. apply nth_In. exact Hi.
Qed.

Theorem basis_indices_greedy d V : rect d V -> forall i, i < length V ->
  (In i (basis_indices V) <-> ~ in_span d (firstn i V) (nth i V [])).
Proof.
  unfold basis_indices. induction V as [|v vs IH] using rev_ind; intros HV i Hi; [cbn [length] in Hi; lia|].
  pose proof (run_inv d _ HV) as HI'.
  apply Forall_app in HV. destruct HV as [Hvs Hv]. inversion Hv as [|v0 l0 Hv0 _]; subst v0 l0.
  pose proof (run_inv d vs Hvs) as HI. rewrite run_snoc in *.
  set (s := run vs) in *.
  assert (LBs : length (basis_rows vs (basis_idx s)) = length (basis_idx s)) by apply basis_rows_length.
  assert (HBs : rect d (basis_rows vs (basis_idx s))) by (apply basis_rows_rect; [exact Hvs|exact (inv_idx_lt _ _ _ HI)]).
  rewrite app_length in Hi. cbn [length] in Hi.
  destruct (Nat.eq_dec i (length vs)) as [->|Hne].
  - (* the row just processed *)
    rewrite firstn_app, firstn_all, Nat.sub_diag. cbn [firstn]. rewrite app_nil_r. rewrite nth_middle.
    destruct (step_idx s (length vs) v) as [Hidx|Hidx].
    + split; [intros _ Hsp|intros _; rewrite Hidx; apply in_or_app; right; left; reflexivity].
      pose proof (inv_indep _ _ _ HI') as Hind. rewrite Hidx in Hind. rewrite basis_rows_new in Hind by exact (inv_idx_lt _ _ _ HI).
      assert (HspB : in_span d (basis_rows vs (basis_idx s)) v).
      { destruct Hsp as [a [_ ->]]. apply in_span_comb; [exact HBs|].
        eapply Forall2_Forall_r with (l1 := trows s); [|apply Forall2_flip_impl with (Q := fun t x => exp_ok d (length (basis_idx s)) (basis_rows vs (basis_idx s)) x t) (2 := inv_trows _ _ _ HI); auto].
        cbn beta. intros t x Hok. eapply exp_ok_span; [exact LBs|exact Hok]. }
      destruct HspB as [a [La Ha]].
      specialize (Hind (a ++ [true])). rewrite !app_length in Hind. cbn [length] in Hind.
      rewrite (comb_snoc d) in Hind by assumption. rewrite <- Ha, vxor_self, Hv0 in Hind.
      specialize (Hind ltac:(lia) eq_refl). replace (length (basis_rows vs (basis_idx s)) + 1) with (S (length (basis_rows vs (basis_idx s)))) in Hind by lia.
      rewrite <- zeros_snoc in Hind. apply app_inj_tail in Hind. destruct Hind as [_ Hc]. discriminate.
    + split.
      * intros Hin. rewrite Hidx in Hin. pose proof (inv_idx_lt _ _ _ HI) as Hlt. rewrite Forall_forall in Hlt.
        specialize (Hlt (length vs) Hin). lia.
      * intros Hns. exfalso. apply Hns.
        pose proof (inv_trows _ _ _ HI') as Htr. rewrite Hidx in Htr. rewrite basis_rows_old in Htr by exact (inv_idx_lt _ _ _ HI).
        pose proof (Forall2_nth _ _ _ [] [] (length vs) Htr ltac:(rewrite app_length; cbn [length]; lia)) as Hok.
        rewrite nth_middle in Hok. apply exp_ok_span in Hok; [|exact LBs].
        destruct Hok as [a [_ ->]]. apply in_span_comb; [exact Hvs|].
        eapply Forall_impl; [|apply basis_rows_in; exact (inv_idx_lt _ _ _ HI)]. intros b Hb. apply in_span_In; assumption.
  - (* an earlier row: nothing changed *)
    assert (Hi' : i < (length vs)) by lia.
    rewrite firstn_app. replace (i - length vs) with 0 by (lia). cbn [firstn]. rewrite app_nil_r.
    rewrite app_nth1 by exact Hi'. rewrite <- (IH Hvs i Hi').
    destruct (step_idx s (length vs) v) as [Hidx|Hidx]; rewrite Hidx; [|reflexivity].
    split; [intros Hin; apply in_app_or in Hin; destruct Hin as [Hin|[Hin|[]]]; [exact Hin|lia]|intros Hin; apply in_or_app; left; exact Hin].
Qed.
