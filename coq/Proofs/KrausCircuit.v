(* C01_circuit: circuits of GATE_TABLE gates and noiseless single-qubit collapses (M MX MY MR MRX MRY, plain or inverted;
   R RX RY) on any lanes of a register of any size.  For every value of the record and silent bits, the lane program drawn
   for the circuit computes the ordered composition of the documented operators (unitaries, projectors, projector-and-reprepare),
   times a product of powers of sqrt2 that does not depend on the bits, times a unit phase.  The statement is transported to
   the dense interpreter Model/Lane.run on n lanes (the executable model that the correspondence run ties to the code). *)
From Coq Require Import ZArith QArith Qcanon List Bool String Lia Ring Ring_theory FunctionalExtensionality.
Import ListNotations.
Require Import TV.Base.EP TV.Base.EPSound TV.Base.Amp TV.Model.Lane TV.Spec.Born TV.gen.Gen_instructions TV.gen.Gen_stim_gates
  TV.Model.GateCheck TV.Model.InstrCheck TV.Model.KrausCheck TV.Proofs.GateProofs TV.Proofs.InstrProofs
  TV.Proofs.BitIdx TV.Proofs.CircuitProofs TV.Proofs.CircuitTheorem TV.Proofs.DenseBridge TV.Proofs.KrausSem TV.Proofs.KrausLocal
  TV.Proofs.KrausTheorem TV.Proofs.KrausGates TV.Proofs.KrausFeedback TV.Proofs.KrausNoise2 TV.Proofs.KrausRot TV.Proofs.KrausChain.
Set Default Timeout 200.

(* ---- finite facts about the regenerated collapse fragments ---- *)
Definition meas_row := (string * (pauli * bool * (nat -> Q -> bool -> list (op nat))))%type.
Definition reset_row := (string * (pauli * (nat -> list (op nat))))%type.
Lemma meas_natural : Forall (fun r : meas_row => forall q inv, snd (snd r) q qz inv = map (op_map (fun _ => q)) (snd (snd r) 0%nat qz inv)) meas_fns.
Proof. repeat constructor; intros q inv; destruct inv; reflexivity. Qed.
Lemma reset_natural : Forall (fun r : reset_row => forall q, snd (snd r) q = map (op_map (fun _ => q)) (snd (snd r) 0%nat)) reset_fns.
Proof. repeat constructor; intros q; reflexivity. Qed.
Definition meas_static (r : meas_row) : bool :=
  forallb (fun inv => forallb (one_lane_op 8) (snd (snd r) 0%nat qz inv) && forallb quiet_op (snd (snd r) 0%nat qz inv)
    && forallb (fun k : bool * colour => let ref := run 1 KrausCheck.b00 (snd (snd r) 0%nat qz inv) (start_state (fst k) (snd k) 0) in
                 Nat.eqb (nrec ref) 1 && Nat.eqb (nsil ref) 0) entry_kinds) [false; true].
Definition reset_static (r : reset_row) : bool :=
  forallb (one_lane_op 8) (snd (snd r) 0%nat) && forallb quiet_op (snd (snd r) 0%nat)
  && forallb (fun k : bool * colour => let ref := run 1 KrausCheck.b00 (snd (snd r) 0%nat) (start_state (fst k) (snd k) 0) in
               Nat.eqb (nrec ref) 0 && Nat.eqb (nsil ref) (if fst k then 1 else 0)) entry_kinds.
Definition meas_noisy_static (r : meas_row) : bool :=
  forallb (fun inv => forallb (one_lane_op 8) (snd (snd r) 0%nat qp inv) && forallb quiet_op (snd (snd r) 0%nat qp inv)) [false; true].
Definition noise1_row := (string * (nat -> list (op nat)))%type.
Definition noise1_static (r : noise1_row) : bool := forallb (one_lane_op 8) (snd r 0%nat) && forallb quiet_op (snd r 0%nat).
Lemma meas_noisy_static_ok : forallb meas_noisy_static meas_fns = true. Proof. vm_compute. reflexivity. Qed.
Lemma noise1_static_ok : forallb noise1_static noise1_fns = true. Proof. vm_compute. reflexivity. Qed.
Lemma meas_noisy_natural : Forall (fun r : meas_row => forall q inv, snd (snd r) q qp inv = map (op_map (fun _ => q)) (snd (snd r) 0%nat qp inv)) meas_fns.
Proof. repeat constructor; intros q inv; destruct inv; reflexivity. Qed.
Lemma noise1_natural : Forall (fun r : noise1_row => forall q, snd r q = map (op_map (fun _ => q)) (snd r 0%nat)) noise1_fns.
Proof. repeat constructor; intros q; reflexivity. Qed.
(* the fragment drawn for probability p > 0 is the one drawn for the canonical probability, up to OChan payloads and the value of p in OMeas *)
Lemma meas_noisy_same : Forall (fun r : meas_row => forall q p inv, noisy_p p = true -> Forall2 op_same (snd (snd r) q p inv) (snd (snd r) q qp inv)) meas_fns.
Proof.
  unfold meas_fns.
  repeat (apply Forall_cons;
    [intros q p inv Hp; destruct inv; cbn -[op_same];
     repeat (apply Forall2_cons; [first [apply op_same_refl | cbn [op_same]; repeat split; rewrite Hp; reflexivity]|]); apply Forall2_nil |]).
  apply Forall_nil.
Qed.
Lemma meas_static_ok : forallb meas_static meas_fns = true. Proof. vm_compute. reflexivity. Qed.
Lemma reset_static_ok : forallb reset_static reset_fns = true. Proof. vm_compute. reflexivity. Qed.
Lemma kind_in (ex : bool) (col : colour) : In (ex, col) entry_kinds.
Proof. destruct ex, col; cbn; tauto. Qed.

Definition cn_ops (name : string) (args : list Q) (q : nat) : option (list (op nat)) :=
  match args with
  | [p] => if String.eqb name "x_error" then Some (g_x_error q p) else if String.eqb name "y_error" then Some (g_y_error q p)
           else if String.eqb name "z_error" then Some (g_z_error q p) else if String.eqb name "depolarize1" then Some (g_depolarize1 q p) else None
  | [px; py; pz] => if String.eqb name "pauli_channel_1" then Some (g_pauli_channel_1 q px py pz) else None
  | _ => None
  end.
Lemma cn_ops_row name args q o : cn_ops name args q = Some o -> exists g, In (name, g) noise1_fns /\ Forall2 op_same o (g q).
Proof.
  unfold cn_ops. intro Ho. destruct args as [|p [|py [|pz [|? ?]]]]; try discriminate Ho.
  - destruct (String.eqb name "x_error") eqn:E1; [apply String.eqb_eq in E1; subst; injection Ho as <-; eexists; split; [left; reflexivity|]; cbn -[op_same]; repeat (constructor; [first [apply op_same_refl | exact I]|]); constructor|].
    destruct (String.eqb name "y_error") eqn:E2; [apply String.eqb_eq in E2; subst; injection Ho as <-; eexists; split; [right; left; reflexivity|]; cbn -[op_same]; repeat (constructor; [first [apply op_same_refl | exact I]|]); constructor|].
    destruct (String.eqb name "z_error") eqn:E3; [apply String.eqb_eq in E3; subst; injection Ho as <-; eexists; split; [right; right; left; reflexivity|]; cbn -[op_same]; repeat (constructor; [first [apply op_same_refl | exact I]|]); constructor|].
    destruct (String.eqb name "depolarize1") eqn:E4; [apply String.eqb_eq in E4; subst; injection Ho as <-; eexists; split; [right; right; right; left; reflexivity|]; cbn -[op_same]; repeat (constructor; [first [apply op_same_refl | exact I]|]); constructor|].
    discriminate Ho.
  - destruct (String.eqb name "pauli_channel_1") eqn:E5; [|discriminate Ho]. apply String.eqb_eq in E5; subst; injection Ho as <-; eexists; split; [right; right; right; right; left; reflexivity|]; cbn -[op_same]; repeat (constructor; [first [apply op_same_refl | exact I]|]); constructor.
Qed.
Definition cn2_ops (args : list Q) (qi qj : nat) : option (list (op nat)) :=
  match args with
  | [p] => Some (g_depolarize2 qi qj p)
  | [a1; a2; a3; a4; a5; a6; a7; a8; a9; a10; a11; a12; a13; a14; a15] => Some (g_pauli_channel_2 qi qj a1 a2 a3 a4 a5 a6 a7 a8 a9 a10 a11 a12 a13 a14 a15)
  | _ => None
  end.
Lemma wf_all_same n o o' : Forall2 op_same o o' -> forallb (wf_op n) o = forallb (wf_op n) o'.
Proof. induction 1 as [|x y l l' Hxy Hl IH]; cbn [forallb]; [reflexivity | rewrite (wf_op_same n x y Hxy), IH; reflexivity]. Qed.

Section KCirc.
  Variable R : Type.
  Variables (rO rI : R) (radd rmul rsub : R -> R -> R) (ropp : R -> R).
  Variable Rth : ring_theory rO rI radd rmul rsub ropp eq.
  Add Ring RringKC : Rth.
  Variable E : Qc -> R.
  Hypothesis E_add : forall a b, E (a + b)%Qc = rmul (E a) (E b).
  Hypothesis E_0 : E 0%Qc = rI.
  Hypothesis E_1 : E 1%Qc = ropp rI.
  Variable half : R.
  Hypothesis half_2 : radd half half = rI.
  Variables ta tb tc : Qc.
  Notation ev := (eval R rO rI radd rmul ropp E half ta tb tc).
  Notation xv := (expo_val ta tb tc).
  Notation state := (Amp.state R).
  Notation aapp1 := (Amp.app1 R radd rmul).
  Notation scale := (Amp.scale R rmul).
  Notation m2f_of := (m2f_of R rO rI radd rmul ropp E half ta tb tc).
  Notation st_of := (st_of R rO rI radd rmul ropp E half ta tb tc).
  Notation kst := (kst R).
  Notation krun := (krun R rO rI radd rmul ropp E half ta tb tc).
  Notation kfinal := (kfinal R rmul).
  Notation brel := (brel R rO rI radd rmul ropp E half ta tb tc).
  Notation skel_eq := (skel_eq R).
  Notation gapp_doc := (gapp_doc R rO rI radd rmul ropp E half ta tb tc).
  Notation sq2 := (sq2 R rO rI radd rmul ropp E half ta tb tc).
  Notation uM := (uM R rO rI radd rmul ropp E half ta tb tc).
  Infix "+" := radd.
  Infix "*" := rmul.

  (* ---- circuits ---- *)
  Inductive cinstr :=
  | CG (x : gapp)                               (* a gate of GATE_TABLE on one or two lanes *)
  | CM (name : string) (inv : bool) (q : nat)   (* m mx my mr mrx mry, noiseless, optionally inverted *)
  | CR (name : string) (q : nat)                (* r rx ry *)
  | CMp (name : string) (p : Q) (inv : bool) (q : nat)   (* the same measurements with flip probability p > 0 *)
  | CN (name : string) (args : list Q) (q : nat)         (* x_error y_error z_error depolarize1 (one argument), pauli_channel_1 (three) *)
  | CF (name : string) (r q : nat)                       (* a Pauli on lane q controlled by record bit r: "CX rec q" ... "YCZ q rec" *)
  | CN2 (args : list Q) (qi qj : nat)                    (* DEPOLARIZE2 (one argument) / PAULI_CHANNEL_2 (fifteen) on lanes qi, qj *)
  | CU (name : string) (angles : list expo) (q : nat)    (* T T_DAG (no angle), R_Z R_X R_Y (one), U3 (theta, phi, lambda): any angles *)
  | CE (first : bool) (tg : list (pauli * nat)) (p : Q) (rel : Z).   (* E(p) (first) / ELSE_CORRELATED_ERROR(p) on a Pauli product; rel: see KrausChain.v *)
  Definition cinstr_ops (i : cinstr) : option (list (op nat)) :=
    match i with
    | CG x => gapp_ops x
    | CM name inv q => match assoc name meas_fns with Some (_, _, g) => Some (g q qz inv) | None => None end
    | CR name q => match assoc name reset_fns with Some (_, g) => Some (g q) | None => None end
    | CMp name p inv q => if noisy_p p then match assoc name meas_fns with Some (_, _, g) => Some (g q p inv) | None => None end else None
    | CN name args q => cn_ops name args q
    | CF name r q => match assoc name fb_fns with Some (_, g) => Some (g r q) | None => None end
    | CN2 args qi qj => cn2_ops args qi qj
    | CU name angles q => cu_ops name angles q
    | CE first tg p rel => Some (ce_ops first tg p rel)
    end.
  (* a feedback instruction may only refer to a record bit that exists at that point *)
  Definition cinstr_ok (sk : kst) (i : cinstr) : bool := match i with CF _ r _ => Nat.ltb r (knrec R sk) | _ => true end.
  Fixpoint ccircuit_ops (c : list cinstr) : option (list (op nat)) :=
    match c with
    | [] => Some []
    | i :: r => match cinstr_ops i, ccircuit_ops r with Some o, Some o' => Some (o ++ o') | _, _ => None end
    end.
  (* the documented operator of one instruction.  sk carries the bookkeeping at that point of the circuit: how many record
     and silent bits were consumed before, and whether the lane has been used before (a reset of a never-used lane, which
     holds |0>, is the basis change to the +1 eigenstate and consumes no silent bit) *)
  Definition spec_instr (b : bits) (sk : kst) (i : cinstr) (psi : state) : state :=
    match i with
    | CG x => gapp_doc x psi
    | CM name inv q =>
        match assoc name meas_fns with
        | Some (basis, is_reset, _) => aapp1 (m2f_of (spec_meas_m basis is_reset inv (window b (knrec R sk) (knsil R sk) (knerr R sk)))) q psi
        | None => psi end
    | CR name q =>
        match assoc name reset_fns with
        | Some (basis, _) => aapp1 (m2f_of (spec_reset_m basis (kex R sk q) (window b (knrec R sk) (knsil R sk) (knerr R sk)))) q psi
        | None => psi end
    | CMp name p inv q =>
        match assoc name meas_fns with
        | Some (basis, is_reset, _) => aapp1 (m2f_of (spec_meas_noisy_m basis is_reset inv (window b (knrec R sk) (knsil R sk) (knerr R sk)))) q psi
        | None => psi end
    | CN name args q => aapp1 (m2f_of (spec_noise1_m name (window b (knrec R sk) (knsil R sk) (knerr R sk)))) q psi
    | CF name r q =>
        match assoc name fb_fns with
        | Some (P, _) => if bit (brec b) r then aapp1 (m2f_of (pauli_m P)) q psi else psi
        | None => psi end
    | CN2 args qi qj =>      (* error bits e0,e1 select the Pauli on qi (Z^e0 X^e1), e2,e3 the Pauli on qj *)
        aapp1 (m2f_of (spec_noise1_m "pauli_channel_1" (window b (knrec R sk) (knsil R sk) (knerr R sk + 2)))) qj
          (aapp1 (m2f_of (spec_noise1_m "pauli_channel_1" (window b (knrec R sk) (knsil R sk) (knerr R sk)))) qi psi)
    | CU name angles q => spec_cu R rO rI radd rmul ropp E half ta tb tc name angles q psi
    | CE first tg p rel => spec_ce R rO rI radd rmul ropp E half ta tb tc b sk tg rel psi
    end.
  Fixpoint cspec (b : bits) (sk : kst) (c : list cinstr) (psi : state) : state :=
    match c with
    | [] => psi
    | i :: r => match cinstr_ops i with
                | Some o => cspec b (krun KrausGates.b00 o sk) r (spec_instr b sk i psi)
                | None => psi end
    end.

  Lemma gapp_doc_scale x c psi : gapp_doc x (scale c psi) = scale c (gapp_doc x psi).
  Proof.
    destruct x as [name a | name a a']; cbn [CircuitTheorem.gapp_doc]; destruct (doc_of name) as [[n D]|]; try reflexivity.
    - apply (scale_app1 R rO rI radd rmul rsub ropp Rth).
    - apply (scale_app2 R rO rI radd rmul rsub ropp Rth).
  Qed.
  Lemma spec_instr_scale b sk i c psi : spec_instr b sk i (scale c psi) = scale c (spec_instr b sk i psi).
  Proof.
    destruct i as [x | name inv q | name q | name p inv q | name args q | name r q | args qi qj | name angles q | first tg p rel]; cbn [spec_instr].
    - apply gapp_doc_scale.
    - destruct (assoc name meas_fns) as [[[basis is_reset] g]|]; [apply (scale_app1 R rO rI radd rmul rsub ropp Rth) | reflexivity].
    - destruct (assoc name reset_fns) as [[basis g]|]; [apply (scale_app1 R rO rI radd rmul rsub ropp Rth) | reflexivity].
    - destruct (assoc name meas_fns) as [[[basis is_reset] g]|]; [apply (scale_app1 R rO rI radd rmul rsub ropp Rth) | reflexivity].
    - apply (scale_app1 R rO rI radd rmul rsub ropp Rth).
    - destruct (assoc name fb_fns) as [[P g]|]; [|reflexivity]. destruct (bit (brec b) r); [apply (scale_app1 R rO rI radd rmul rsub ropp Rth) | reflexivity].
    - rewrite !(scale_app1 R rO rI radd rmul rsub ropp Rth). reflexivity.
    - apply (spec_cu_scale R rO rI radd rmul rsub ropp Rth E half ta tb tc).
    - apply (spec_ce_scale R rO rI radd rmul rsub ropp Rth E half ta tb tc).
  Qed.
  Lemma cspec_scale b c0 : forall sk c psi, cspec b sk c0 (scale c psi) = scale c (cspec b sk c0 psi).
  Proof.
    induction c0 as [|i r IH]; intros sk c psi; cbn [cspec]; [reflexivity|].
    destruct (cinstr_ops i); [|reflexivity]. rewrite spec_instr_scale. apply IH.
  Qed.

  Lemma cn_sound name args q o : cn_ops name args q = Some o -> forall sk : kst,
    exists C, sq2 C /\ forall b t, skel_eq t sk -> exists e : Qc,
      kfinal (krun b o t) = scale (E e * C) (aapp1 (m2f_of (spec_noise1_m name (window b (knrec R sk) (knsil R sk) (knerr R sk)))) q (kfinal t)).
  Proof.
    intros Ho sk.
      pose proof (cn_ops_row name args q o Ho) as Hrow.
      destruct Hrow as (g & Hin & Hsm).
      pose proof noise1_natural as Hn. rewrite Forall_forall in Hn. specialize (Hn _ Hin q). cbn [snd] in Hn.
      pose proof noise1_static_ok as Hst. rewrite forallb_forall in Hst. specialize (Hst _ Hin). unfold noise1_static in Hst. cbn [snd] in Hst.
      apply andb_true_iff in Hst. destruct Hst as [Hone Hq].
      pose proof noise1_at_ok as Hck. rewrite forallb_forall in Hck. specialize (Hck _ Hin). unfold check_noise1_at in Hck.
      rewrite forallb_forall in Hck. specialize (Hck _ (kind_in (kex R sk q) (kcol R sk q))). cbv beta iota in Hck.
      apply andb_true_iff in Hck. destruct Hck as [Hag Hfl].
      destruct (frag_anywhere R rO rI radd rmul rsub ropp Rth E E_add E_0 E_1 half half_2 ta tb tc (g 0%nat)
                  (spec_noise1_m name) (kex R sk q) (kcol R sk q) Hone Hq Hag Hfl) as (k & Hk).
      exists (ev (psqrt2pow k)). split; [constructor|]. intros b t Hs. pose proof Hs as Hs'. destruct Hs' as (Kex & Kcol & Knr & Kns & Kne & _).
      destruct (Hk b t q ltac:(rewrite Kex; reflexivity) ltac:(rewrite Kcol; reflexivity)) as ((e & _ & He) & _).
      exists (xv e). rewrite (krun_same R rO rI radd rmul ropp E half ta tb tc b _ _ Hsm t), Hn, He, Knr, Kns, Kne. reflexivity.
  Qed.

  (* ---- one instruction, in any context ---- *)
  Theorem instr_sound i o : cinstr_ops i = Some o -> forall sk : kst, kinv R sk -> cinstr_ok sk i = true ->
    exists C, sq2 C /\ forall b t, skel_eq t sk -> exists e : Qc, kfinal (krun b o t) = scale (E e * C) (spec_instr b sk i (kfinal t)).
  Proof.
    destruct i as [x | name inv q | name q | name p inv q | name args q | name r q | args qi qj | name angles q | first tg p rel]; cbn [cinstr_ops spec_instr cinstr_ok]; intros Ho sk Hkinv Hok.
    - (* gate *)
      destruct (gate_in_context R rO rI radd rmul rsub ropp Rth E E_add E_0 E_1 half half_2 ta tb tc x o Ho) as (e & He).
      exists (uM sk o). split; [apply sq2_uM|]. intros b t Hs. exists (xv e). rewrite (He b t).
      rewrite (uM_skel R rO rI radd rmul ropp E half ta tb tc o t sk Hs). reflexivity.
    - (* measurement *)
      destruct (assoc name meas_fns) as [[[basis is_reset] g]|] eqn:Ha; [|discriminate]. injection Ho as <-.
      pose proof (assoc_in _ _ _ Ha) as Hin.
      pose proof meas_natural as Hn. rewrite Forall_forall in Hn. specialize (Hn _ Hin q inv). cbn [snd] in Hn.
      pose proof meas_static_ok as Hst. rewrite forallb_forall in Hst. specialize (Hst _ Hin). unfold meas_static in Hst. cbn [snd] in Hst.
      rewrite forallb_forall in Hst. assert (Hinv : In inv [false; true]) by (destruct inv; cbn; tauto). specialize (Hst inv Hinv).
      rewrite !andb_true_iff in Hst. destruct Hst as [[Hone Hq] _].
      pose proof meas_at_ok as Hck. rewrite forallb_forall in Hck. specialize (Hck _ Hin). unfold check_meas_at in Hck.
      rewrite forallb_forall in Hck. assert (Hinv' : In inv bools) by (destruct inv; cbn; tauto). specialize (Hck inv Hinv').
      rewrite forallb_forall in Hck. specialize (Hck _ (kind_in (kex R sk q) (kcol R sk q))). cbv beta iota in Hck.
      apply andb_true_iff in Hck. destruct Hck as [Hag Hfl].
      destruct (frag_anywhere R rO rI radd rmul rsub ropp Rth E E_add E_0 E_1 half half_2 ta tb tc (g 0%nat qz inv)
                  (spec_meas_m basis is_reset inv) (kex R sk q) (kcol R sk q) Hone Hq Hag Hfl) as (k & Hk).
      exists (ev (psqrt2pow k)). split; [constructor|]. intros b t Hs. pose proof Hs as Hs'. destruct Hs' as (Kex & Kcol & Knr & Kns & Kne & _).
      destruct (Hk b t q ltac:(rewrite Kex; reflexivity) ltac:(rewrite Kcol; reflexivity)) as ((e & _ & He) & _).
      exists (xv e). rewrite Hn, He, Knr, Kns, Kne. reflexivity.
    - (* reset *)
      destruct (assoc name reset_fns) as [[basis g]|] eqn:Ha; [|discriminate]. injection Ho as <-.
      pose proof (assoc_in _ _ _ Ha) as Hin.
      pose proof reset_natural as Hn. rewrite Forall_forall in Hn. specialize (Hn _ Hin q). cbn [snd] in Hn.
      pose proof reset_static_ok as Hst. rewrite forallb_forall in Hst. specialize (Hst _ Hin). unfold reset_static in Hst. cbn [snd] in Hst.
      rewrite !andb_true_iff in Hst. destruct Hst as [[Hone Hq] _].
      pose proof reset_at_ok as Hck. rewrite forallb_forall in Hck. specialize (Hck _ Hin). unfold check_reset_at in Hck.
      rewrite forallb_forall in Hck. specialize (Hck _ (kind_in (kex R sk q) (kcol R sk q))). cbv beta iota in Hck.
      apply andb_true_iff in Hck. destruct Hck as [Hag Hfl].
      destruct (frag_anywhere R rO rI radd rmul rsub ropp Rth E E_add E_0 E_1 half half_2 ta tb tc (g 0%nat)
                  (spec_reset_m basis (kex R sk q)) (kex R sk q) (kcol R sk q) Hone Hq Hag Hfl) as (k & Hk).
      exists (ev (psqrt2pow k)). split; [constructor|]. intros b t Hs. pose proof Hs as Hs'. destruct Hs' as (Kex & Kcol & Knr & Kns & Kne & _).
      destruct (Hk b t q ltac:(rewrite Kex; reflexivity) ltac:(rewrite Kcol; reflexivity)) as ((e & _ & He) & _).
      exists (xv e). rewrite Hn, He, Knr, Kns, Kne. reflexivity.
    - (* noisy measurement *)
      destruct (noisy_p p) eqn:Hp; [|discriminate].
      destruct (assoc name meas_fns) as [[[basis is_reset] g]|] eqn:Ha; [|discriminate]. injection Ho as <-.
      pose proof (assoc_in _ _ _ Ha) as Hin.
      pose proof meas_noisy_same as Hsm. rewrite Forall_forall in Hsm. specialize (Hsm _ Hin q p inv Hp). cbn [snd] in Hsm.
      pose proof meas_noisy_natural as Hn. rewrite Forall_forall in Hn. specialize (Hn _ Hin q inv). cbn [snd] in Hn.
      pose proof meas_noisy_static_ok as Hst. rewrite forallb_forall in Hst. specialize (Hst _ Hin). unfold meas_noisy_static in Hst. cbn [snd] in Hst.
      rewrite forallb_forall in Hst. assert (Hinv : In inv [false; true]) by (destruct inv; cbn; tauto). specialize (Hst inv Hinv).
      rewrite !andb_true_iff in Hst. destruct Hst as [Hone Hq].
      pose proof meas_noisy_at_ok as Hck. rewrite forallb_forall in Hck. specialize (Hck _ Hin). unfold check_meas_noisy_at in Hck.
      rewrite forallb_forall in Hck. assert (Hinv' : In inv bools) by (destruct inv; cbn; tauto). specialize (Hck inv Hinv').
      rewrite forallb_forall in Hck. specialize (Hck _ (kind_in (kex R sk q) (kcol R sk q))). cbv beta iota in Hck.
      apply andb_true_iff in Hck. destruct Hck as [Hag Hfl].
      destruct (frag_anywhere R rO rI radd rmul rsub ropp Rth E E_add E_0 E_1 half half_2 ta tb tc (g 0%nat qp inv)
                  (spec_meas_noisy_m basis is_reset inv) (kex R sk q) (kcol R sk q) Hone Hq Hag Hfl) as (k & Hk).
      exists (ev (psqrt2pow k)). split; [constructor|]. intros b t Hs. pose proof Hs as Hs'. destruct Hs' as (Kex & Kcol & Knr & Kns & Kne & _).
      destruct (Hk b t q ltac:(rewrite Kex; reflexivity) ltac:(rewrite Kcol; reflexivity)) as ((e & _ & He) & _).
      exists (xv e). rewrite (krun_same R rO rI radd rmul ropp E half ta tb tc b _ _ Hsm t), Hn, He, Knr, Kns, Kne. reflexivity.
    - (* single-qubit Pauli channel *) apply (cn_sound name args q o Ho sk).
    - (* feedback *)
      destruct (assoc name fb_fns) as [[P g]|] eqn:Ha; [|discriminate]. injection Ho as <-. apply Nat.ltb_lt in Hok.
      apply (fb_anywhere R rO rI radd rmul rsub ropp Rth E E_add E_0 E_1 half half_2 ta tb tc name P g (assoc_in _ _ _ Ha) r q sk Hkinv Hok).
    - (* two-qubit Pauli channel = PAULI_CHANNEL_1 on qi, then on qj *)
      set (o1 := g_pauli_channel_1 qi qp qp qp). set (o2 := g_pauli_channel_1 qj qp qp qp).
      assert (Hrun : forall b t, krun b o t = krun b o2 (krun b o1 t)).
      { intros b t. transitivity (krun b (o1 ++ o2) t); [|unfold KrausSem.krun; apply fold_left_app].
        unfold cn2_ops in Ho. repeat (destruct args as [|? args]; try discriminate Ho); injection Ho as <-;
          [unfold g_depolarize2|]; apply (pc2_is_two_pc1 R rO rI radd rmul ropp E half ta tb tc). }
      destruct (cn_sound "pauli_channel_1" [qp; qp; qp] qi o1 eq_refl sk) as (C1 & HC1 & H1).
      destruct (cn_sound "pauli_channel_1" [qp; qp; qp] qj o2 eq_refl (krun KrausGates.b00 o1 sk)) as (C2 & HC2 & H2).
      destruct (pc1_counters R rO rI radd rmul ropp E half ta tb tc KrausGates.b00 qi qp qp qp sk) as (N1 & N2 & N3). fold o1 in N1, N2, N3.
      exists (C1 * C2). split; [apply sq2_mul; assumption|]. intros b t Hs.
      destruct (H1 b t Hs) as (e1 & He1).
      destruct (H2 b (krun b o1 t) (skel_run R rO rI radd rmul ropp E half ta tb tc b KrausGates.b00 o1 t sk Hs)) as (e2 & He2).
      exists (e1 + e2)%Qc. rewrite Hrun, He2, He1, N1, N2, N3.
      rewrite (scale_app1 R rO rI radd rmul rsub ropp Rth), (scale_scale R rO rI radd rmul rsub ropp Rth), E_add. f_equal. ring.
    - (* T, T_DAG and rotations with arbitrary angles *)
      destruct (cu_in_context R rO rI radd rmul rsub ropp Rth E E_add E_0 E_1 half half_2 ta tb tc name angles q o Ho) as (e & He).
      exists (uM sk o). split; [apply sq2_uM|]. intros b t Hs. exists e. rewrite (He b t).
      rewrite (uM_skel R rO rI radd rmul ropp E half ta tb tc o t sk Hs). reflexivity.
    - (* one element of a correlated-error chain *)
      injection Ho as <-.
      destruct (ce_sound R rO rI radd rmul rsub ropp Rth E E_0 half ta tb tc first tg p rel sk) as (C & HC & H).
      exists C. split; [exact HC|]. intros b t Hs. exists 0%Qc. apply (H b t Hs).
  Qed.

  (* ---- THE composition theorem on amplitude functions ---- *)
  Fixpoint ccircuit_ok (sk : kst) (c : list cinstr) : bool :=
    match c with
    | [] => true
    | i :: r => cinstr_ok sk i && match cinstr_ops i with Some o => ccircuit_ok (krun KrausGates.b00 o sk) r | None => false end
    end.
  Theorem circuit_kraus c : forall ops, ccircuit_ops c = Some ops -> forall sk : kst, kinv R sk -> ccircuit_ok sk c = true ->
    exists C, sq2 C /\ forall b t, skel_eq t sk -> exists e : Qc, kfinal (krun b ops t) = scale (E e * C) (cspec b sk c (kfinal t)).
  Proof.
    induction c as [|i r IH]; intros ops Hops sk Hinv Hok; cbn [ccircuit_ops ccircuit_ok] in Hops, Hok.
    - injection Hops as <-. exists rI. split; [constructor|]. intros b t _. exists 0%Qc. cbn [cspec]. unfold KrausSem.krun. cbn [fold_left].
      rewrite E_0. unfold KrausSem.kfinal. rewrite (scale_scale R rO rI radd rmul rsub ropp Rth). f_equal. ring.
    - destruct (cinstr_ops i) as [o|] eqn:Hi; [|discriminate]. destruct (ccircuit_ops r) as [o'|] eqn:Hr; [|discriminate]. injection Hops as <-.
      apply andb_true_iff in Hok. destruct Hok as [Hok1 Hok2].
      destruct (instr_sound i o Hi sk Hinv Hok1) as (C1 & HC1 & H1).
      destruct (IH o' eq_refl (krun KrausGates.b00 o sk) (kinv_run R rO rI radd rmul ropp E half ta tb tc KrausGates.b00 o sk Hinv) Hok2) as (C2 & HC2 & H2).
      exists (C1 * C2). split; [apply sq2_mul; assumption|]. intros b t Hs.
      destruct (H1 b t Hs) as (e1 & He1).
      assert (Hs' : skel_eq (krun b o t) (krun KrausGates.b00 o sk)) by (apply (skel_run R rO rI radd rmul ropp E half ta tb tc); exact Hs).
      destruct (H2 b (krun b o t) Hs') as (e2 & He2).
      exists (e1 + e2)%Qc. unfold KrausSem.krun in *. rewrite fold_left_app. rewrite He2, He1. cbn [cspec]. rewrite Hi.
      rewrite cspec_scale, (scale_scale R rO rI radd rmul rsub ropp Rth), E_add. f_equal. ring.
  Qed.

  (* ---- transport to the dense interpreter on n lanes ---- *)
  Notation at_lane q := (op_map (fun _ : nat => q)).
  Lemma one_lane_wf_at n q f : (q < n)%nat -> forall o, one_lane_op f o = true -> wf_op n (at_lane q o) = true.
  Proof.
    intro Hq. apply Nat.ltb_lt in Hq. induction f as [|f IH]; intros o Ho; destruct o; cbn [KrausLocal.one_lane_op] in Ho; try discriminate Ho;
      cbn [op_map wf_op]; try exact Hq; try reflexivity.
    apply andb_true_iff in Ho. destruct Ho as [_ Hb]. rewrite Hq. cbn [andb].
    induction body as [|o body IHb]; cbn [map forallb]; [reflexivity|]. cbn [forallb] in Hb. apply andb_true_iff in Hb. destruct Hb as [H1 H2].
    rewrite (IH o H1), (IHb H2). reflexivity.
  Qed.
  Lemma unitary1_wf_at n a o : (a < n)%nat -> unitary_op1 o = true -> wf_op n (at_lane a o) = true.
  Proof. intros Ha Hu. apply Nat.ltb_lt in Ha. destruct o; cbn [unitary_op1] in Hu; try discriminate Hu; cbn [op_map wf_op]; try exact Ha; reflexivity. Qed.
  Lemma unitary2_wf_at n a c o : (a < n)%nat -> (c < n)%nat -> a <> c -> unitary_op o = true -> lanes01 o = true -> wf_op n (op_map (place a c) o) = true.
  Proof.
    intros Ha Hc Hac Hu Hl. apply Nat.ltb_lt in Ha, Hc.
    assert (Hp : forall x, Nat.ltb (place a c x) n = true) by (intro x; unfold place; destruct (Nat.eqb x 0); assumption).
    destruct o as [? q ? | | q | is_cx x y cc | x y | q | | | | | | | | |]; cbn [unitary_op] in Hu; try discriminate Hu; cbn [op_map wf_op]; try apply Hp; try reflexivity.
    - destruct cc; [discriminate Hu|]. rewrite !Hp. cbn [andb]. cbn [lanes01] in Hl. apply andb_true_iff in Hl. destruct Hl as [L1 L2]. apply Nat.ltb_lt in L1, L2.
      apply negb_true_iff, Nat.eqb_neq in Hu. apply negb_true_iff, Nat.eqb_neq. unfold place.
      destruct x as [|[|x]], y as [|[|y]]; cbn [Nat.eqb]; try lia; auto.
    - rewrite !Hp. cbn [andb]. cbn [lanes01] in Hl. apply andb_true_iff in Hl. destruct Hl as [L1 L2]. apply Nat.ltb_lt in L1, L2.
      apply negb_true_iff, Nat.eqb_neq in Hu. apply negb_true_iff, Nat.eqb_neq. unfold place.
      destruct x as [|[|x]], y as [|[|y]]; cbn [Nat.eqb]; try lia; auto.
  Qed.
  Definition cinstr_lanes_ok (n : nat) (i : cinstr) : bool :=
    match i with
    | CG (GA1 _ a) => Nat.ltb a n
    | CG (GA2 _ a c) => Nat.ltb a n && Nat.ltb c n
    | CM _ _ q | CR _ q | CMp _ _ _ q | CN _ _ q | CF _ _ q => Nat.ltb q n
    | CN2 _ qi qj => Nat.ltb qi n && Nat.ltb qj n
    | CU _ _ q => Nat.ltb q n
    | CE _ tg _ _ => forallb (fun pq : pauli * nat => Nat.ltb (snd pq) n) tg
    end.
  Lemma cinstr_wf n i o : cinstr_ops i = Some o -> cinstr_lanes_ok n i = true -> forallb (wf_op n) o = true.
  Proof.
    destruct i as [[name a | name a c] | name inv q | name q | name p inv q | name args q | name r q | args qi qj | name angles q | first tg p rel]; cbn [cinstr_ops cinstr_lanes_ok gapp_ops]; intros Ho Hl.
    - apply Nat.ltb_lt in Hl.
      destruct (assoc name gate_table) as [[fn [|[|ar]]]|] eqn:Ha; try discriminate.
      destruct (doc_of name) as [[[|[|n']] D]|] eqn:Hd; try discriminate.
      destruct (assoc fn unitary1) as [g|] eqn:Hg; [|discriminate]. injection Ho as <-.
      pose proof rows_fragment_ok as Hf. rewrite forallb_forall in Hf. specialize (Hf _ (assoc_in _ _ _ Ha)). unfold row_fragment_ok in Hf. rewrite Hd, Hg in Hf.
      pose proof unitary1_natural as Hn. rewrite Forall_forall in Hn. specialize (Hn _ (assoc_in _ _ _ Hg) a). cbn [snd] in Hn. rewrite Hn.
      apply (forallb_map_imp unitary_op1 (wf_op n)); [intros x Hx; apply unitary1_wf_at; assumption | exact Hf].
    - apply andb_true_iff in Hl. destruct Hl as [La Lc]. apply Nat.ltb_lt in La, Lc.
      destruct (Nat.eqb a c) eqn:Eac; [discriminate|]. apply Nat.eqb_neq in Eac.
      destruct (assoc name gate_table) as [[fn [|[|[|ar]]]]|] eqn:Ha; try discriminate.
      destruct (doc_of name) as [[[|[|[|n']]] D]|] eqn:Hd; try discriminate.
      destruct (assoc fn unitary2) as [g|] eqn:Hg; [|discriminate]. injection Ho as <-.
      pose proof rows_fragment_ok as Hf. rewrite forallb_forall in Hf. specialize (Hf _ (assoc_in _ _ _ Ha)). unfold row_fragment_ok in Hf. rewrite Hd, Hg in Hf.
      apply andb_true_iff in Hf. destruct Hf as [Hu Hl].
      pose proof unitary2_natural as Hn. rewrite Forall_forall in Hn. specialize (Hn _ (assoc_in _ _ _ Hg) a c). cbn [snd] in Hn. rewrite Hn.
      clear Hn. induction (g 0%nat 1%nat) as [|o l IH]; cbn [map forallb] in *; [reflexivity|].
      apply andb_true_iff in Hu, Hl. destruct Hu as [U1 U2], Hl as [L1 L2].
      rewrite (unitary2_wf_at n a c o La Lc Eac U1 L1), (IH U2 L2). reflexivity.
    - apply Nat.ltb_lt in Hl.
      destruct (assoc name meas_fns) as [[[basis is_reset] g]|] eqn:Ha; [|discriminate]. injection Ho as <-.
      pose proof (assoc_in _ _ _ Ha) as Hin.
      pose proof meas_natural as Hn. rewrite Forall_forall in Hn. specialize (Hn _ Hin q inv). cbn [snd] in Hn. rewrite Hn.
      pose proof meas_static_ok as Hst. rewrite forallb_forall in Hst. specialize (Hst _ Hin). unfold meas_static in Hst. cbn [snd] in Hst.
      rewrite forallb_forall in Hst. assert (Hinv : In inv [false; true]) by (destruct inv; cbn; tauto). specialize (Hst inv Hinv).
      rewrite !andb_true_iff in Hst. destruct Hst as [[Hone _] _].
      apply (forallb_map_imp (one_lane_op 8) (wf_op n)); [intros x Hx; apply (one_lane_wf_at n q 8 Hl x Hx) | exact Hone].
    - apply Nat.ltb_lt in Hl.
      destruct (assoc name reset_fns) as [[basis g]|] eqn:Ha; [|discriminate]. injection Ho as <-.
      pose proof (assoc_in _ _ _ Ha) as Hin.
      pose proof reset_natural as Hn. rewrite Forall_forall in Hn. specialize (Hn _ Hin q). cbn [snd] in Hn. rewrite Hn.
      pose proof reset_static_ok as Hst. rewrite forallb_forall in Hst. specialize (Hst _ Hin). unfold reset_static in Hst. cbn [snd] in Hst.
      rewrite !andb_true_iff in Hst. destruct Hst as [[Hone _] _].
      apply (forallb_map_imp (one_lane_op 8) (wf_op n)); [intros x Hx; apply (one_lane_wf_at n q 8 Hl x Hx) | exact Hone].
    - apply Nat.ltb_lt in Hl. destruct (noisy_p p) eqn:Hp; [|discriminate].
      destruct (assoc name meas_fns) as [[[basis is_reset] g]|] eqn:Ha; [|discriminate]. injection Ho as <-.
      pose proof (assoc_in _ _ _ Ha) as Hin.
      pose proof meas_noisy_same as Hsm. rewrite Forall_forall in Hsm. specialize (Hsm _ Hin q p inv Hp). cbn [snd] in Hsm.
      rewrite (wf_all_same n _ _ Hsm).
      pose proof meas_noisy_natural as Hn. rewrite Forall_forall in Hn. specialize (Hn _ Hin q inv). cbn [snd] in Hn. rewrite Hn.
      pose proof meas_noisy_static_ok as Hst. rewrite forallb_forall in Hst. specialize (Hst _ Hin). unfold meas_noisy_static in Hst. cbn [snd] in Hst.
      rewrite forallb_forall in Hst. assert (Hinv : In inv [false; true]) by (destruct inv; cbn; tauto). specialize (Hst inv Hinv).
      rewrite !andb_true_iff in Hst. destruct Hst as [Hone _].
      apply (forallb_map_imp (one_lane_op 8) (wf_op n)); [intros x Hx; apply (one_lane_wf_at n q 8 Hl x Hx) | exact Hone].
    - apply Nat.ltb_lt in Hl. destruct (cn_ops_row name args q o Ho) as (g & Hin & Hsm).
      rewrite (wf_all_same n _ _ Hsm).
      pose proof noise1_natural as Hn. rewrite Forall_forall in Hn. specialize (Hn _ Hin q). cbn [snd] in Hn. rewrite Hn.
      pose proof noise1_static_ok as Hst. rewrite forallb_forall in Hst. specialize (Hst _ Hin). unfold noise1_static in Hst. cbn [snd] in Hst.
      apply andb_true_iff in Hst. destruct Hst as [Hone _].
      apply (forallb_map_imp (one_lane_op 8) (wf_op n)); [intros x Hx; apply (one_lane_wf_at n q 8 Hl x Hx) | exact Hone].
    - apply Nat.ltb_lt in Hl. destruct (assoc name fb_fns) as [[P g]|] eqn:Ha; [|discriminate]. injection Ho as <-.
      pose proof fb_wf as Hw. rewrite Forall_forall in Hw. apply (Hw _ (assoc_in _ _ _ Ha) r q n Hl).
    - apply andb_true_iff in Hl. destruct Hl as [Li Lj].
      unfold cn2_ops in Ho. repeat (destruct args as [|? args]; try discriminate Ho); injection Ho as <-;
        [unfold g_depolarize2|]; unfold g_pauli_channel_2; cbn [app forallb wf_op]; rewrite Li, Lj; reflexivity.
    - apply (cu_wf n name angles q o Ho Hl).
    - injection Ho as <-. unfold ce_ops. rewrite !forallb_app, (link_ops_wf n tg rel Hl). destruct first; reflexivity.
  Qed.
  Lemma ccircuit_wf n c : forall ops, ccircuit_ops c = Some ops -> forallb (cinstr_lanes_ok n) c = true -> forallb (wf_op n) ops = true.
  Proof.
    induction c as [|i r IH]; intros ops Hops Hl; cbn [ccircuit_ops forallb] in *.
    - injection Hops as <-. reflexivity.
    - destruct (cinstr_ops i) as [o|] eqn:Hi; [|discriminate]. destruct (ccircuit_ops r) as [o'|] eqn:Hr; [|discriminate]. injection Hops as <-.
      apply andb_true_iff in Hl. destruct Hl as [L1 L2]. rewrite forallb_app, (cinstr_wf n i o Hi L1), (IH o' eq_refl L2). reflexivity.
  Qed.

  (* all n lanes in |0>, none of them created yet *)
  Definition kinit (n : nat) : kst :=
    mkK R rI (fun x => if Nat.eqb (idx n x) 0 then rI else rO) (fun _ => false) (fun _ => CXc) 0 0 0 0 [] true.
  Lemma map_const_seq {A} (a : A) n : repeat a n = map (fun _ => a) (seq 0 n).
  Proof. generalize 0%nat. induction n as [|n IH]; intro s; cbn [repeat seq map]; [reflexivity | rewrite (IH (S s)); reflexivity]. Qed.
  Lemma brel_init n : brel n (init_state n) (kinit n).
  Proof.
    unfold KrausSem.brel, init_state, kinit. cbn [amp scal exists_ colour_ nrec nsil nerr ncorr recq ok kk kpsi kex kcol knrec knsil knerr kncorr krecq kok].
    repeat split; try reflexivity; try apply map_const_seq; try constructor.
    - apply functional_extensionality; intro x. rewrite (st_tab R rO rI radd rmul ropp E half ta tb tc).
      destruct (Nat.eqb (idx n x) 0);
        [apply (eval_p1 R rO rI radd rmul rsub ropp Rth E E_add E_0 E_1 half half_2 ta tb tc) | apply (eval_p0 R rO rI radd rmul rsub ropp Rth E E_add E_0 E_1 half half_2 ta tb tc)].
    - apply (eval_p1 R rO rI radd rmul rsub ropp Rth E E_add E_0 E_1 half half_2 ta tb tc).
  Qed.
  Theorem dense_is_kraus n b ops : forallb (wf_op n) ops = true ->
    st_of n (final_vec (run n b ops (init_state n))) = kfinal (krun b ops (kinit n)).
  Proof.
    intro Hw. pose proof (run_bridge R rO rI radd rmul rsub ropp Rth E E_add E_0 E_1 half half_2 ta tb tc n b ops _ _ (brel_init n) Hw) as Hb.
    destruct Hb as (Bpsi & Bk & _). unfold final_vec, KrausSem.kfinal.
    rewrite (st_scale R rO rI radd rmul rsub ropp Rth E E_add E_0 E_1 half half_2 ta tb tc), Bpsi, Bk. reflexivity.
  Qed.

  (* ---- THE theorem, about the executable dense model ---- *)
  Lemma ksupp_init n : ksupp R rO n (kinit n).
  Proof.
    intros u Hu _ x Hx. cbn [kpsi kinit]. destruct (Nat.eqb_spec (idx n x) 0) as [Hz|Hz]; [|reflexivity].
    pose proof (idx_zero_inv n x Hz u Hu) as Hf. congruence.
  Qed.
  Lemma kinv_init n : kinv R (kinit n).
  Proof. split; [reflexivity | constructor]. Qed.
  Theorem circuit_kraus_dense n c ops : ccircuit_ops c = Some ops -> forallb (cinstr_lanes_ok n) c = true -> ccircuit_ok (kinit n) c = true ->
    exists C, sq2 C /\ forall b, exists e : Qc,
      st_of n (final_vec (run n b ops (init_state n))) = scale (E e * C) (cspec b (kinit n) c (kpsi R (kinit n))).
  Proof.
    intros Hops Hl Hok. destruct (circuit_kraus c ops Hops (kinit n) (kinv_init n) Hok) as (C & HC & H).
    exists C. split; [exact HC|]. intro b. destruct (H b (kinit n) (skel_refl R (kinit n))) as (e & He).
    exists e. rewrite (dense_is_kraus n b ops (ccircuit_wf n c ops Hops Hl)), He.
    f_equal. unfold KrausSem.kfinal. cbn [kk kinit]. rewrite (scale_one R rO rI radd rmul rsub ropp Rth). reflexivity.
  Qed.

  (* ---- unitary circuits: the dense MATRIX of the lane program on n lanes (what to_matrix is compared with) ---- *)
  Notation kstep := (kstep R rO rI radd rmul ropp E half ta tb tc).
  Notation U := (U R rO rI radd rmul ropp E half ta tb tc).
  Lemma circuit_unitary c : forall ops, circuit_ops c = Some ops -> forallb unitary_op ops = true.
  Proof.
    induction c as [|x c IH]; intros ops Hops; cbn [circuit_ops] in Hops; [injection Hops as <-; reflexivity|].
    destruct (gapp_ops x) as [o|] eqn:Hx; [|discriminate]. destruct (circuit_ops c) as [o'|] eqn:Hc; [|discriminate]. injection Hops as <-.
    rewrite forallb_app, (gapp_unitary x o Hx), (IH o' eq_refl). reflexivity.
  Qed.
  Lemma circuit_wf n c : forall ops, circuit_ops c = Some ops -> forallb (fun x => cinstr_lanes_ok n (CG x)) c = true -> forallb (wf_op n) ops = true.
  Proof.
    induction c as [|x c IH]; intros ops Hops Hl; cbn [circuit_ops forallb] in *; [injection Hops as <-; reflexivity|].
    destruct (gapp_ops x) as [o|] eqn:Hx; [|discriminate]. destruct (circuit_ops c) as [o'|] eqn:Hc; [|discriminate]. injection Hops as <-.
    apply andb_true_iff in Hl. destruct Hl as [L1 L2]. rewrite forallb_app, (cinstr_wf n (CG x) o Hx L1), (IH o' eq_refl L2). reflexivity.
  Qed.
  Lemma kensure_id t q : kex R t q = true -> KrausSem.kensure R rO rI radd rmul ropp E half ta tb tc t q = t.
  Proof. intro H. unfold KrausSem.kensure. rewrite H. reflexivity. Qed.
  Lemma kstep_unitary_ex f b t o : unitary_op o = true -> (forall q, kex R t q = true) -> forall q, kex R (kstep f b t o) q = true.
  Proof.
    intros Hu Hex. destruct o as [c q0 e | | q0 | is_cx a c cc | a c | q0 | | | e | k | | | | |]; try discriminate Hu; destruct f; cbn [KrausSem.kstep];
      try (destruct cc; [discriminate Hu|]); rewrite ?kensure_id by (rewrite ?kensure_id by apply Hex; apply Hex); cbn [kex ksetcol ksetpsi ksetk]; exact Hex.
  Qed.
  Lemma uM_all_ex ops : forallb unitary_op ops = true -> forall t, (forall q, kex R t q = true) -> uM t ops = rI.
  Proof.
    induction ops as [|o ops IH]; intros Hu t Hex; cbn [KrausGates.uM forallb] in *; [reflexivity|].
    apply andb_true_iff in Hu. destruct Hu as [H1 H2]. rewrite (IH H2 _ (kstep_unitary_ex 8 KrausGates.b00 t o H1 Hex)).
    assert (Hm : umult R rO rI radd rmul ropp E half ta tb tc (kex R t) o = rI).
    { destruct o; cbn [KrausGates.umult]; try (destruct cc); unfold KrausGates.emult; rewrite ?Hex; try reflexivity; ring. }
    rewrite Hm. ring.
  Qed.
  Definition kbasis (n j : nat) : kst :=
    mkK R rI (fun x => if Nat.eqb (idx n x) j then rI else rO) (fun _ => true) (fun _ => CZc) 0 0 0 0 [] true.
  Lemma brel_basis n j : brel n (basis_state n j) (kbasis n j).
  Proof.
    unfold KrausSem.brel, basis_state, kbasis. cbn [amp scal exists_ colour_ nrec nsil nerr ncorr recq ok kk kpsi kex kcol knrec knsil knerr kncorr krecq kok].
    repeat split; try reflexivity; try apply map_const_seq; try constructor.
    - apply functional_extensionality; intro x. rewrite (st_tab R rO rI radd rmul ropp E half ta tb tc).
      destruct (Nat.eqb (idx n x) j);
        [apply (eval_p1 R rO rI radd rmul rsub ropp Rth E E_add E_0 E_1 half half_2 ta tb tc) | apply (eval_p0 R rO rI radd rmul rsub ropp Rth E E_add E_0 E_1 half half_2 ta tb tc)].
    - apply (eval_p1 R rO rI radd rmul rsub ropp Rth E E_add E_0 E_1 half half_2 ta tb tc).
  Qed.
  (* column j of `mat n ops`, read as an amplitude function, is the ordered product of the documented matrices applied to |j>, times one unit phase *)
  Theorem circuit_mat_dense n c ops : circuit_ops c = Some ops -> forallb (fun x => cinstr_lanes_ok n (CG x)) c = true ->
    exists q : Qc, forall j,
      st_of n (nth j (mat n ops) []) = scale (E q) (fold_left (fun s x => gapp_doc x s) c (kpsi R (kbasis n j))) \/ (dim n <= j)%nat.
  Proof.
    intros Hops Hl. destruct (circuit_sound R rO rI radd rmul rsub ropp Rth E E_add E_0 E_1 half half_2 ta tb tc c ops Hops) as (q & Hq).
    exists q. intro j. destruct (Nat.ltb_spec j (dim n)) as [Hj|Hj]; [left | right; exact Hj].
    unfold mat. rewrite (nth_indep _ [] (final_vec (run n (mkB [] [] []) ops (basis_state n 0)))) by (rewrite map_length, seq_length; exact Hj).
    rewrite (map_nth (fun j => final_vec (run n (mkB [] [] []) ops (basis_state n j)))), seq_nth by exact Hj. cbn [Nat.add].
    pose proof (run_bridge R rO rI radd rmul rsub ropp Rth E E_add E_0 E_1 half half_2 ta tb tc n (mkB [] [] []) ops _ _ (brel_basis n j) (circuit_wf n c ops Hops Hl)) as Hb.
    destruct Hb as (Bpsi & Bk & _). unfold final_vec.
    rewrite (st_scale R rO rI radd rmul rsub ropp Rth E E_add E_0 E_1 half half_2 ta tb tc), Bpsi, Bk.
    fold (kfinal (krun (mkB [] [] []) ops (kbasis n j))).
    rewrite (krun_unitary_final R rO rI radd rmul rsub ropp Rth E half ta tb tc _ ops (kbasis n j) (circuit_unitary c ops Hops)).
    rewrite (uM_all_ex ops (circuit_unitary c ops Hops) (kbasis n j) (fun _ => eq_refl)), (scale_one R rO rI radd rmul rsub ropp Rth), Hq.
    unfold KrausSem.kfinal. cbn [kk kbasis]. rewrite (scale_one R rO rI radd rmul rsub ropp Rth). reflexivity.
  Qed.

  (* ---- MPP is, literally, a circuit of instructions the composition theorem covers: the ancilla-based parity measurement
          (reset aux, H, one controlled Pauli per factor with the ancilla as control, H, measure aux) ---- *)
  Definition mpp_circuit (aux : nat) (ps : list (pauli * nat)) (inv : bool) : list cinstr :=
    [CR "r" aux; CG (GA1 "H" aux)]
    ++ map (fun pq : pauli * nat => CG (GA2 (match fst pq with PX => "CX" | PY => "CY" | PZ => "CZ" end) aux (snd pq))) ps
    ++ [CG (GA1 "H" aux); CM "m" inv aux].
  Lemma ccircuit_ops_app c1 : forall c2 o1 o2, ccircuit_ops c1 = Some o1 -> ccircuit_ops c2 = Some o2 -> ccircuit_ops (c1 ++ c2) = Some (o1 ++ o2).
  Proof.
    induction c1 as [|i r IH]; intros c2 o1 o2 H1 H2; cbn [ccircuit_ops app] in *.
    - injection H1 as <-. exact H2.
    - destruct (cinstr_ops i) as [o|]; [|discriminate]. destruct (ccircuit_ops r) as [o'|] eqn:Hr; [|discriminate]. injection H1 as <-.
      rewrite (IH c2 o' o2 eq_refl H2), app_assoc. reflexivity.
  Qed.
  Theorem mpp_is_circuit aux ps inv : forallb (fun pq : pauli * nat => negb (Nat.eqb aux (snd pq))) ps = true ->
    ccircuit_ops (mpp_circuit aux ps inv) = Some (g_mpp aux ps inv qz).
  Proof.
    intro Hd. unfold mpp_circuit, g_mpp.
    assert (Hmid : ccircuit_ops (map (fun pq : pauli * nat => CG (GA2 (match fst pq with PX => "CX" | PY => "CY" | PZ => "CZ" end) aux (snd pq))) ps)
                   = Some (flat_map (fun pq : pauli * nat => let pauli_type := fst pq in let qubit := snd pq in
                        match pauli_type with PX => g_cnot aux qubit None | PY => g_cy aux qubit None | PZ => g_cz aux qubit None end) ps)).
    { induction ps as [|[P q] ps IH]; [reflexivity|]. cbn [forallb snd] in Hd. apply andb_true_iff in Hd. destruct Hd as [Hq Hr].
      apply negb_true_iff in Hq. cbn [map flat_map fst snd ccircuit_ops]. rewrite (IH Hr).
      assert (Hg : cinstr_ops (CG (GA2 (match P with PX => "CX" | PY => "CY" | PZ => "CZ" end) aux q))
                   = Some (match P with PX => g_cnot aux q None | PY => g_cy aux q None | PZ => g_cz aux q None end))
        by (destruct P; cbn [cinstr_ops gapp_ops]; rewrite Hq; vm_compute; reflexivity).
      rewrite Hg. reflexivity. }
    assert (H1 : ccircuit_ops [CR "r" aux; CG (GA1 "H" aux)] = Some (g_r aux ++ [OH aux])) by (vm_compute; reflexivity).
    assert (H3 : ccircuit_ops [CG (GA1 "H" aux); CM "m" inv aux] = Some ([OH aux] ++ g_m aux qz inv)) by (destruct inv; vm_compute; reflexivity).
    rewrite (ccircuit_ops_app _ _ _ _ H1 (ccircuit_ops_app _ _ _ _ Hmid H3)). rewrite <- !app_assoc. reflexivity.
  Qed.
End KCirc.
