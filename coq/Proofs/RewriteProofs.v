(* C19: rewrite rules that are provable at the model level *)
From Coq Require Import ZArith QArith List Bool String Lia.
Import ListNotations.
Require Import TV.Base.EP TV.Model.Lane TV.Spec.RotGates TV.gen.Gen_instructions TV.gen.Gen_stim_gates TV.Model.GateCheck
  TV.Model.InverseCheck TV.Model.RewriteCheck TV.Model.InstrCheck TV.Model.Parse.
Set Default Timeout 120.

Lemma gate_rules_ok : rule_HH = true /\ rule_SS_Z = true /\ rule_TT_S = true /\ rule_CX_HCZH = true /\ rule_U3 = true /\ rule_I = true.
Proof. vm_compute. repeat split. Qed.

(* TICK, QUBIT_COORDS, SHIFT_COORDS (any arguments, targets, tags) draw nothing: inserting them anywhere leaves the
   lane program, the measurement count and the annotations unchanged *)
Definition layout_name (s : string) : bool := (String.eqb s "TICK" || String.eqb s "QUBIT_COORDS" || String.eqb s "SHIFT_COORDS")%bool.
Lemma layout_step aux s i : layout_name (iname i) = true -> itag i <> TagT -> step_instr aux s i = Some s.
Proof.
  unfold layout_name. intros H Ht. unfold step_instr.
  destruct (String.eqb (iname i) "QUBIT_COORDS") eqn:E1.
  { apply String.eqb_eq in E1. rewrite E1. reflexivity. }
  destruct (String.eqb (iname i) "SHIFT_COORDS") eqn:E2.
  { apply String.eqb_eq in E2. rewrite E2. reflexivity. }
  rewrite orb_false_r in H. rewrite orb_false_r in H. apply String.eqb_eq in H. rewrite H. cbn.
  destruct (itag i); reflexivity.
Qed.
Definition run_instrs (aux : nat) (c : list instr) (s : pstate) : option pstate :=
  fold_left (fun acc i => match acc with Some st => step_instr aux st i | None => None end) c (Some s).
Lemma run_instrs_app aux c1 c2 s : run_instrs aux (c1 ++ c2) s = match run_instrs aux c1 s with Some s1 => run_instrs aux c2 s1 | None => None end.
Proof.
  unfold run_instrs. rewrite fold_left_app. destruct (fold_left _ c1 (Some s)) as [s1|]; [reflexivity|].
  induction c2 as [|i c2 IH]; [reflexivity | exact IH].
Qed.
Theorem layout_insertion aux c1 c2 i s : layout_name (iname i) = true -> itag i <> TagT ->
  run_instrs aux (c1 ++ i :: c2) s = run_instrs aux (c1 ++ c2) s.
Proof.
  intros H Ht. rewrite !run_instrs_app. destruct (run_instrs aux c1 s) as [s1|]; [|reflexivity].
  unfold run_instrs at 1. cbn [fold_left]. rewrite (layout_step aux s1 i H Ht). reflexivity.
Qed.
Theorem build_layout_insertion aux c1 c2 i : layout_name (iname i) = true -> itag i <> TagT ->
  build aux (c1 ++ i :: c2) = build aux (c1 ++ c2).
Proof. intros H Ht. unfold build. fold (run_instrs aux (c1 ++ i :: c2) (mkPS [] 0 [] [])). fold (run_instrs aux (c1 ++ c2) (mkPS [] 0 [] [])). rewrite layout_insertion by assumption. reflexivity. Qed.

(* ---- splitting / merging broadcast targets ---- *)
Section Chunks.
  Context {A : Type}.
  Lemma chunks_fuel_indep ar (Har : (0 < ar)%nat) : forall n (l : list A) f1 f2,
    (List.length l <= n)%nat -> (List.length l < f1)%nat -> (List.length l < f2)%nat ->
    chunks_fuel f1 ar l = chunks_fuel f2 ar l.
  Proof.
    induction n as [|n IH]; intros l f1 f2 Hn H1 H2.
    - destruct l; [|cbn in Hn; lia]. destruct f1, f2; try lia. reflexivity.
    - destruct f1 as [|f1]; [lia|]. destruct f2 as [|f2]; [lia|].
      cbn [chunks_fuel]. destruct l as [|x l']; [reflexivity|].
      destruct (Nat.ltb (List.length (x :: l')) ar) eqn:Hlt; [reflexivity|].
      apply Nat.ltb_ge in Hlt.
      assert (Hs : (List.length (skipn ar (x :: l')) < List.length (x :: l'))%nat) by (rewrite skipn_length; lia).
      rewrite (IH (skipn ar (x :: l')) f1 f2) by lia. reflexivity.
  Qed.
  Lemma chunks_fuel_more ar (Har : (0 < ar)%nat) : forall f (l : list A), (List.length l < f)%nat ->
    chunks_fuel f ar l = chunks_fuel (S (List.length l)) ar l.
  Proof. intros f l Hf. apply (chunks_fuel_indep ar Har (List.length l)); lia. Qed.
  Lemma chunks_fuel_step ar (Har : (0 < ar)%nat) (l : list A) : (ar <= List.length l)%nat ->
    chunks_fuel (S (List.length l)) ar l =
    match chunks_fuel (S (List.length (skipn ar l))) ar (skipn ar l) with Some r => Some (firstn ar l :: r) | None => None end.
  Proof.
    intro Hge. destruct l as [|x l']; [cbn in Hge; lia|].
    remember (x :: l') as l eqn:El.
    assert (Hlt : Nat.ltb (List.length l) ar = false) by (apply Nat.ltb_ge; exact Hge).
    assert (Hs : (List.length (skipn ar l) < List.length l)%nat) by (rewrite skipn_length; subst l; cbn [List.length] in *; lia).
    rewrite <- (chunks_fuel_more ar Har (List.length l) (skipn ar l) Hs).
    subst l. cbn [chunks_fuel]. rewrite Hlt. reflexivity.
  Qed.
  Lemma chunks_app ar (Har : (0 < ar)%nat) : forall k (l1 l2 : list A), List.length l1 = (k * ar)%nat ->
    chunks_fuel (S (List.length (l1 ++ l2))) ar (l1 ++ l2) =
    match chunks_fuel (S (List.length l1)) ar l1, chunks_fuel (S (List.length l2)) ar l2 with
    | Some a, Some b => Some (a ++ b) | _, _ => None end.
  Proof.
    induction k as [|k IH]; intros l1 l2 Hl.
    - destruct l1; [|discriminate]. cbn [app].
      replace (chunks_fuel (S (List.length (@nil A))) ar []) with (Some (@nil (list A))) by reflexivity.
      destruct (chunks_fuel (S (List.length l2)) ar l2); reflexivity.
    - assert (Hge : (ar <= List.length l1)%nat) by (rewrite Hl; cbn; lia).
      rewrite (chunks_fuel_step ar Har (l1 ++ l2)) by (rewrite app_length; lia).
      rewrite (chunks_fuel_step ar Har l1 Hge).
      rewrite skipn_app, firstn_app.
      replace (ar - List.length l1)%nat with 0%nat by lia. cbn [skipn firstn]. rewrite app_nil_r.
      assert (Hl' : List.length (skipn ar l1) = (k * ar)%nat) by (rewrite skipn_length, Hl; cbn; lia).
      rewrite (IH (skipn ar l1) l2 Hl').
      destruct (chunks_fuel (S (List.length (skipn ar l1))) ar (skipn ar l1)); [|reflexivity].
      destruct (chunks_fuel (S (List.length l2)) ar l2); reflexivity.
  Qed.
End Chunks.

Lemma fold_dispatch_none fn args chs : fold_left (fun acc ch => match acc with Some st => dispatch_chunk fn args st ch | None => None end) chs None = None.
Proof. induction chs as [|c chs IH]; [reflexivity | exact IH]. Qed.

(* `G q1 .. qk qk+1 .. qm` draws exactly what `G q1 .. qk ; G qk+1 .. qm` draws (k a multiple of the gate's arity):
   for every gate function, argument list, and target kinds (plain, inverted, record) *)
Theorem broadcast_split fn ar args s ts1 ts2 k : (0 < ar)%nat -> List.length ts1 = (k * ar)%nat ->
  dispatch_targets fn ar args s (ts1 ++ ts2) =
  match dispatch_targets fn ar args s ts1 with Some s1 => dispatch_targets fn ar args s1 ts2 | None => None end.
Proof.
  intros Har Hl. unfold dispatch_targets. rewrite existsb_app.
  destruct (existsb _ ts1) eqn:E1; [reflexivity|]. cbn [orb].
  rewrite (chunks_app ar Har k ts1 ts2 Hl).
  destruct (chunks_fuel (S (List.length ts1)) ar ts1) as [a|] eqn:Ea.
  2:{ destruct (existsb _ ts2); reflexivity. }
  destruct (existsb _ ts2) eqn:E2.
  { destruct (fold_left _ a (Some s)); reflexivity. }
  destruct (chunks_fuel (S (List.length ts2)) ar ts2) as [b|].
  - rewrite fold_left_app. destruct (fold_left _ a (Some s)) as [s1|]; [reflexivity | apply fold_dispatch_none].
  - destruct (fold_left _ a (Some s)); reflexivity.
Qed.
