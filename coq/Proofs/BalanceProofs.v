(* C04: the sampler's conditionals p1/prev are invariant under the common rescaling that
   _compile_component applies to all graphs of a component (scalar.add_power(-power2_base)). *)
From Coq Require Import ZArith QArith Qpower Lia.
Open Scope Q_scope.

Lemma pow2_nonzero k : ~ (2 # 1) ^ k == 0.
Proof. apply Qpower_not_0. discriminate. Qed.

(* every weight of a component is multiplied by the same 2^k: the Bernoulli parameter is unchanged *)
Theorem conditional_invariant_under_rescaling (k : Z) (p1 prev : Q) : ~ prev == 0 ->
  ((2 # 1) ^ k * p1) / ((2 # 1) ^ k * prev) == p1 / prev.
Proof. intro H. field. split; [exact H | apply pow2_nonzero]. Qed.
(* ... and so is the branch update prev <- p1 | prev - p1, up to the same factor *)
Theorem update_commutes_with_rescaling (k : Z) (p1 prev : Q) (bit : bool) :
  (if bit then (2 # 1) ^ k * p1 else (2 # 1) ^ k * prev - (2 # 1) ^ k * p1) == (2 # 1) ^ k * (if bit then p1 else prev - p1).
Proof. destruct bit; ring. Qed.
(* positivity of the normalisation is preserved *)
Theorem rescaling_preserves_positivity (k : Z) (w : Q) : 0 < w -> 0 < (2 # 1) ^ k * w.
Proof.
  intro H. apply Qmult_lt_0_compat; [|exact H]. apply Qpower_0_lt. reflexivity.
Qed.
