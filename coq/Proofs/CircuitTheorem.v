(* C05_circuit: every sequence of GATE_TABLE gates on any qubits of a register of any size acts as the ordered
   composition of the documented matrices (Stim's gate reference), up to one unit phase. *)
From Coq Require Import ZArith QArith Qcanon List Bool String Lia Ring Ring_theory FunctionalExtensionality.
Import ListNotations.
Require Import TV.Base.EP TV.Base.EPSound TV.Base.Amp TV.Model.Lane TV.Spec.RotGates TV.gen.Gen_instructions TV.gen.Gen_stim_gates
  TV.Model.GateCheck TV.Proofs.GateProofs TV.Proofs.CircuitProofs.
Set Default Timeout 200.

(* ---- finite facts about the regenerated gate functions ---- *)
Lemma assoc_in {A} k (l : list (string * A)) v : assoc k l = Some v -> In (k, v) l.
Proof.
  induction l as [|[k' v'] l IH]; cbn [assoc]; [discriminate|].
  destruct (String.eqb k k') eqn:Ek; [intros [= <-]; apply String.eqb_eq in Ek; subst; left; reflexivity | intro H; right; apply IH; exact H].
Qed.
(* every gate function is natural in the lane names (they only pass their arguments around) *)
Lemma unitary1_natural : Forall (fun p : string * (nat -> list (op nat)) => forall a, snd p a = map (op_map (fun _ => a)) (snd p 0%nat)) unitary1.
Proof. repeat constructor; intros; reflexivity. Qed.
Lemma unitary2_natural : Forall (fun p : string * (nat -> nat -> list (op nat)) => forall a b, snd p a b = map (op_map (place a b)) (snd p 0%nat 1%nat)) unitary2.
Proof. repeat constructor; intros; reflexivity. Qed.
(* the gate functions behind the unitary rows of GATE_TABLE only use the unitary fragment, on their own lanes *)
Definition row_fragment_ok (row : string * (string * nat)) : bool :=
  let '(name, (fn, ar)) := row in
  match doc_of name with
  | None => true
  | Some _ =>
      match ar with
      | 1%nat => match assoc fn unitary1 with Some g => forallb unitary_op1 (g 0%nat) | None => false end
      | 2%nat => match assoc fn unitary2 with
                 | Some g => forallb unitary_op (g 0%nat 1%nat) && forallb lanes01 (g 0%nat 1%nat)
                 | None => false end
      | _ => false
      end
  end.
Lemma rows_fragment_ok : forallb row_fragment_ok gate_table = true.
Proof. vm_compute. reflexivity. Qed.

Section Thm.
  Variable R : Type.
  Variables (rO rI : R) (radd rmul rsub : R -> R -> R) (ropp : R -> R).
  Variable Rth : ring_theory rO rI radd rmul rsub ropp eq.
  Add Ring RringThm : Rth.
  Variable E : Qc -> R.
  Hypothesis E_add : forall a b, E (a + b)%Qc = rmul (E a) (E b).
  Hypothesis E_0 : E 0%Qc = rI.
  Hypothesis E_1 : E 1%Qc = ropp rI.
  Variable half : R.
  Hypothesis half_2 : radd half half = rI.
  Variables ta tb tc : Qc.
  Notation ev := (eval R rO rI radd rmul ropp E half ta tb tc).
  Notation xv := (expo_val ta tb tc).
  Notation state := (Amp.state R).
  Notation app1 := (Amp.app1 R radd rmul).
  Notation app2 := (Amp.app2 R radd rmul).
  Notation scale := (Amp.scale R rmul).
  Notation asem := (asem R rO rI radd rmul ropp E half ta tb tc).
  Notation final := (final R rmul).
  Notation m4f_of := (m4f_of R rO rI radd rmul ropp E half ta tb tc).
  Notation m2f_doc := (m2f_doc R rO rI radd rmul ropp E half ta tb tc).
  Infix "*" := rmul.

  (* the operator a lane program applies to a state (scalar included) *)
  Definition U (ops : list (op nat)) (psi : state) : state := final (asem ops (rI, psi)).

  Lemma astep_split o k psi :
    astep R rO rI radd rmul ropp E half ta tb tc (k, psi) o =
    (k * fst (astep R rO rI radd rmul ropp E half ta tb tc (rI, psi) o), snd (astep R rO rI radd rmul ropp E half ta tb tc (rI, psi) o)).
  Proof.
    destruct o as [c q e | | q | is_cx ca cb cc | ca cb | q | | | e | n | | | | |]; cbn [astep fst snd];
      try (apply pair_eq; [ring | reflexivity]).
    destruct cc; cbn [fst snd]; apply pair_eq; try ring; reflexivity.
  Qed.
  Lemma astep_scale o c psi :
    snd (astep R rO rI radd rmul ropp E half ta tb tc (rI, scale c psi) o) = scale c (snd (astep R rO rI radd rmul ropp E half ta tb tc (rI, psi) o))
    /\ fst (astep R rO rI radd rmul ropp E half ta tb tc (rI, scale c psi) o) = fst (astep R rO rI radd rmul ropp E half ta tb tc (rI, psi) o).
  Proof.
    destruct o as [cl q e | | q | is_cx ca cb cc | ca cb | q | | | e | n | | | | |]; cbn [astep fst snd]; split; try reflexivity;
      try apply (scale_app1 R rO rI radd rmul rsub ropp Rth); try apply (scale_app2 R rO rI radd rmul rsub ropp Rth).
    all: destruct cc; cbn [fst snd]; try reflexivity; apply (scale_app2 R rO rI radd rmul rsub ropp Rth).
  Qed.
  Lemma asem_split ops : forall k psi, asem ops (k, psi) = (k * fst (asem ops (rI, psi)), snd (asem ops (rI, psi))).
  Proof.
    induction ops as [|o ops IH]; intros k psi; unfold CircuitProofs.asem in *; cbn [fold_left fst snd].
    - apply pair_eq; [ring | reflexivity].
    - rewrite (astep_split o k psi).
      destruct (astep R rO rI radd rmul ropp E half ta tb tc (rI, psi) o) as [k1 p1] eqn:E1. cbn [fst snd].
      rewrite (IH (k * k1) p1), (IH k1 p1). cbn [fst snd]. apply pair_eq; [ring | reflexivity].
  Qed.
  Lemma asem_scale ops : forall c psi,
    snd (asem ops (rI, scale c psi)) = scale c (snd (asem ops (rI, psi))) /\ fst (asem ops (rI, scale c psi)) = fst (asem ops (rI, psi)).
  Proof.
    induction ops as [|o ops IH]; intros c psi; unfold CircuitProofs.asem in *; cbn [fold_left fst snd]; [split; reflexivity|].
    destruct (astep_scale o c psi) as [Hs Hf].
    destruct (astep R rO rI radd rmul ropp E half ta tb tc (rI, scale c psi) o) as [k1 p1] eqn:E1.
    destruct (astep R rO rI radd rmul ropp E half ta tb tc (rI, psi) o) as [k2 p2] eqn:E2.
    cbn [fst snd] in Hs, Hf. subst k1 p1.
    fold (asem ops (k2, scale c p2)). fold (asem ops (k2, p2)).
    rewrite (asem_split ops k2 (scale c p2)), (asem_split ops k2 p2). cbn [fst snd].
    destruct (IH c p2) as [Hs' Hf']. fold (asem ops (rI, scale c p2)) in Hs', Hf'. fold (asem ops (rI, p2)) in Hs', Hf'.
    rewrite Hs', Hf'. split; reflexivity.
  Qed.
  Lemma U_scale ops c psi : U ops (scale c psi) = scale c (U ops psi).
  Proof.
    unfold U, CircuitProofs.final. destruct (asem_scale ops c psi) as [Hs Hf]. rewrite Hs, Hf.
    rewrite !(scale_scale R rO rI radd rmul rsub ropp Rth). f_equal. ring.
  Qed.
  (* sequential composition of programs = composition of operators *)
  Theorem U_app o1 o2 psi : U (o1 ++ o2) psi = U o2 (U o1 psi).
  Proof.
    unfold U. rewrite asem_app.
    destruct (asem o1 (rI, psi)) as [k1 p1] eqn:E1.
    rewrite (asem_split o2 k1 p1). unfold CircuitProofs.final. cbn [fst snd].
    destruct (asem_scale o2 k1 p1) as [Hs Hf]. rewrite Hs, Hf.
    rewrite !(scale_scale R rO rI radd rmul rsub ropp Rth). f_equal. ring.
  Qed.

  (* ---- one gate of GATE_TABLE at any lane(s) of any register ---- *)
  Theorem gate1_anywhere name fn D : In (name, (fn, 1%nat)) gate_table -> doc_of name = Some (1%nat, D) ->
    exists g e, assoc fn unitary1 = Some g /\ In e clifford_phases /\
      forall a psi, U (g a) psi = scale (E (xv e)) (app1 (m2f_doc D) a psi).
  Proof.
    intros Hin Hdoc.
    destruct (gate1_sound R rO rI radd rmul rsub ropp Rth E E_add E_0 E_1 half half_2 ta tb tc name fn D Hin Hdoc) as (g & e & Hg & He & Hp).
    exists g, e. repeat split; try assumption. intros a psi.
    pose proof rows_fragment_ok as Hf. rewrite forallb_forall in Hf. specialize (Hf _ Hin). unfold row_fragment_ok in Hf. rewrite Hdoc, Hg in Hf.
    pose proof unitary1_natural as Hn. rewrite Forall_forall in Hn. specialize (Hn _ (assoc_in _ _ _ Hg) a). cbn [snd] in Hn.
    unfold U. rewrite Hn.
    rewrite (program_at_lane R rO rI radd rmul rsub ropp Rth E E_add E_0 E_1 half half_2 ta tb tc (g 0%nat) D (E (xv e)) Hf Hp a rI psi).
    f_equal. ring.
  Qed.
  Theorem gate2_anywhere name fn D : In (name, (fn, 2%nat)) gate_table -> doc_of name = Some (2%nat, D) ->
    exists g e, assoc fn unitary2 = Some g /\ In e clifford_phases /\
      forall a b psi, a <> b -> U (g a b) psi = scale (E (xv e)) (app2 (m4f_of D) a b psi).
  Proof.
    intros Hin Hdoc.
    destruct (gate2_sound R rO rI radd rmul rsub ropp Rth E E_add E_0 E_1 half half_2 ta tb tc name fn D Hin Hdoc) as (g & e & e' & Hg & He & _ & Hp & _).
    exists g, e. repeat split; try assumption. intros a b psi Hab.
    pose proof rows_fragment_ok as Hf. rewrite forallb_forall in Hf. specialize (Hf _ Hin). unfold row_fragment_ok in Hf. rewrite Hdoc, Hg in Hf.
    apply andb_true_iff in Hf. destruct Hf as [Hu Hl].
    pose proof unitary2_natural as Hn. rewrite Forall_forall in Hn. specialize (Hn _ (assoc_in _ _ _ Hg) a b). cbn [snd] in Hn.
    unfold U. rewrite Hn.
    rewrite (program_at_placement R rO rI radd rmul rsub ropp Rth E E_add E_0 E_1 half half_2 ta tb tc (g 0%nat 1%nat) D (E (xv e)) Hu Hl Hp a b rI psi Hab).
    f_equal. ring.
  Qed.

  (* ---- circuits ---- *)
  Inductive gapp := GA1 (name : string) (a : nat) | GA2 (name : string) (a b : nat).
  (* what the parser draws for one gate application (None: not a unitary row / same lane twice) *)
  Definition gapp_ops (x : gapp) : option (list (op nat)) :=
    match x with
    | GA1 name a => match assoc name gate_table, doc_of name with
                    | Some (fn, 1%nat), Some (1%nat, _) => match assoc fn unitary1 with Some g => Some (g a) | None => None end
                    | _, _ => None end
    | GA2 name a b => if Nat.eqb a b then None else
                      match assoc name gate_table, doc_of name with
                      | Some (fn, 2%nat), Some (2%nat, _) => match assoc fn unitary2 with Some g => Some (g a b) | None => None end
                      | _, _ => None end
    end.
  (* the documented operator of that gate application *)
  Definition gapp_doc (x : gapp) (psi : state) : state :=
    match x with
    | GA1 name a => match doc_of name with Some (_, D) => app1 (m2f_doc D) a psi | None => psi end
    | GA2 name a b => match doc_of name with Some (_, D) => app2 (m4f_of D) a b psi | None => psi end
    end.
  Fixpoint circuit_ops (c : list gapp) : option (list (op nat)) :=
    match c with
    | [] => Some []
    | x :: r => match gapp_ops x, circuit_ops r with Some o, Some o' => Some (o ++ o') | _, _ => None end
    end.
  Definition unit_phase (k : R) : Prop := exists q : Qc, k = E q.

  Lemma gapp_sound x ops : gapp_ops x = Some ops -> exists e, forall psi, U ops psi = scale (E (xv e)) (gapp_doc x psi).
  Proof.
    destruct x as [name a | name a b]; cbn [gapp_ops gapp_doc].
    - destruct (assoc name gate_table) as [[fn [|[|ar]]]|] eqn:Ha; try discriminate.
      destruct (doc_of name) as [[[|[|n]] D]|] eqn:Hd; try discriminate.
      destruct (assoc fn unitary1) as [g|] eqn:Hg; [|discriminate]. intros [= <-].
      destruct (gate1_anywhere name fn D (assoc_in _ _ _ Ha) Hd) as (g' & e & Hg' & _ & H).
      rewrite Hg in Hg'. injection Hg' as <-. exists e. intro psi. apply H.
    - destruct (Nat.eqb a b) eqn:Eab; [discriminate|]. apply Nat.eqb_neq in Eab.
      destruct (assoc name gate_table) as [[fn [|[|[|ar]]]]|] eqn:Ha; try discriminate.
      destruct (doc_of name) as [[[|[|[|n]]] D]|] eqn:Hd; try discriminate.
      destruct (assoc fn unitary2) as [g|] eqn:Hg; [|discriminate]. intros [= <-].
      destruct (gate2_anywhere name fn D (assoc_in _ _ _ Ha) Hd) as (g' & e & Hg' & _ & H).
      rewrite Hg in Hg'. injection Hg' as <-. exists e. intro psi. apply H. exact Eab.
  Qed.

  (* THE composition theorem: the program drawn for a circuit acts as a unit phase times the documented gates applied in order *)
  Theorem circuit_sound c : forall ops, circuit_ops c = Some ops ->
    exists q : Qc, forall psi, U ops psi = scale (E q) (fold_left (fun s x => gapp_doc x s) c psi).
  Proof.
    induction c as [|x c IH]; intros ops Hops; cbn [circuit_ops] in Hops.
    - injection Hops as <-. exists 0%Qc. intro psi. cbn [fold_left]. unfold U, CircuitProofs.final, CircuitProofs.asem. cbn [fold_left fst snd].
      rewrite E_0. reflexivity.
    - destruct (gapp_ops x) as [o|] eqn:Hx; [|discriminate]. destruct (circuit_ops c) as [o'|] eqn:Hc; [|discriminate].
      injection Hops as <-. destruct (gapp_sound x o Hx) as (e & He). destruct (IH o' eq_refl) as (q & Hq).
      exists (xv e + q)%Qc. intro psi. rewrite U_app, He, U_scale, Hq. cbn [fold_left].
      rewrite (scale_scale R rO rI radd rmul rsub ropp Rth), E_add. reflexivity.
  Qed.

  (* ---- the parametric gates at any lane of any register, for every angle ---- *)
  Lemma rot_fragment_ok :
    forallb unitary_op1 (g_r_z 0%nat theta) = true /\ forallb unitary_op1 (g_r_x 0%nat theta) = true /\
    forallb unitary_op1 (g_r_y 0%nat theta) = true /\ forallb unitary_op1 (g_u3 0%nat theta phi lambda) = true /\
    forallb unitary_op1 (g_t 0%nat) = true /\ forallb unitary_op1 (g_t_dag 0%nat) = true.
  Proof. vm_compute. repeat split. Qed.
  Theorem rotations_anywhere :
    (exists e, forall a psi, U (g_r_z a theta) psi = scale (E (xv e)) (app1 (m2f_doc doc_RZ) a psi)) /\
    (exists e, forall a psi, U (g_r_x a theta) psi = scale (E (xv e)) (app1 (m2f_doc doc_RX) a psi)) /\
    (exists e, forall a psi, U (g_r_y a theta) psi = scale (E (xv e)) (app1 (m2f_doc doc_RY) a psi)) /\
    (exists e, forall a psi, U (g_u3 a theta phi lambda) psi = scale (E (xv e)) (app1 (m2f_doc doc_U3) a psi)) /\
    (exists e, forall a psi, U (g_t a) psi = scale (E (xv e)) (app1 (m2f_doc doc_T) a psi)) /\
    (exists e, forall a psi, U (g_t_dag a) psi = scale (E (xv e)) (app1 (m2f_doc doc_T_DAG) a psi)).
  Proof.
    destruct (rot_sound R rO rI radd rmul rsub ropp Rth E E_add E_0 E_1 half half_2 ta tb tc) as ((ez & Hz) & (ex & Hx) & (ey & Hy) & (eu & Hu) & (et & Ht) & (ed & Hd)).
    destruct rot_fragment_ok as (Fz & Fx & Fy & Fu & Ft & Fd).
    repeat split.
    - exists ez. intros a psi. unfold U. change (g_r_z a theta) with (map (op_map (fun _ : nat => a)) (g_r_z 0%nat theta)).
      rewrite (program_at_lane R rO rI radd rmul rsub ropp Rth E E_add E_0 E_1 half half_2 ta tb tc _ doc_RZ (E (xv ez)) Fz Hz a rI psi). f_equal. ring.
    - exists ex. intros a psi. unfold U. change (g_r_x a theta) with (map (op_map (fun _ : nat => a)) (g_r_x 0%nat theta)).
      rewrite (program_at_lane R rO rI radd rmul rsub ropp Rth E E_add E_0 E_1 half half_2 ta tb tc _ doc_RX (E (xv ex)) Fx Hx a rI psi). f_equal. ring.
    - exists ey. intros a psi. unfold U. change (g_r_y a theta) with (map (op_map (fun _ : nat => a)) (g_r_y 0%nat theta)).
      rewrite (program_at_lane R rO rI radd rmul rsub ropp Rth E E_add E_0 E_1 half half_2 ta tb tc _ doc_RY (E (xv ey)) Fy Hy a rI psi). f_equal. ring.
    - exists eu. intros a psi. unfold U. change (g_u3 a theta phi lambda) with (map (op_map (fun _ : nat => a)) (g_u3 0%nat theta phi lambda)).
      rewrite (program_at_lane R rO rI radd rmul rsub ropp Rth E E_add E_0 E_1 half half_2 ta tb tc _ doc_U3 (E (xv eu)) Fu Hu a rI psi). f_equal. ring.
    - exists et. intros a psi. unfold U. change (g_t a) with (map (op_map (fun _ : nat => a)) (g_t 0%nat)).
      rewrite (program_at_lane R rO rI radd rmul rsub ropp Rth E E_add E_0 E_1 half half_2 ta tb tc _ doc_T (E (xv et)) Ft Ht a rI psi). f_equal. ring.
    - exists ed. intros a psi. unfold U. change (g_t_dag a) with (map (op_map (fun _ : nat => a)) (g_t_dag 0%nat)).
      rewrite (program_at_lane R rO rI radd rmul rsub ropp Rth E E_add E_0 E_1 half half_2 ta tb tc _ doc_T_DAG (E (xv ed)) Fd Hd a rI psi). f_equal. ring.
  Qed.
End Thm.
