(* The Born weight, from program text.  Model/Parse.weights -- what the correspondence run compares with the distribution tsim's
   sampler uses -- is the squared norm of the final dense vector of the parse model's lane program, one bit assignment at a time.
   For every text whose parse is the lane program of its elaborated circuit (ParseElab.parse_is_circuit) that number is |C|^2 times
   the squared norm of the ordered product of the documented Kraus operators applied to |0...0>, C a product of powers of sqrt 2
   chosen before the bits.  Same proof as KrausBorn.born_weight, started from ParseElab.parse_kraus. *)
From Coq Require Import ZArith QArith Qcanon List Bool String Lia Ring Ring_theory.
Import ListNotations.
Require Import TV.Base.EP TV.Base.EPSound TV.Base.Amp TV.Model.Lane TV.Model.Parse TV.Proofs.BitIdx TV.Proofs.DenseBridge TV.Proofs.KrausSem
  TV.Proofs.KrausGates TV.Proofs.KrausCircuit TV.Proofs.KrausBorn TV.Proofs.ParseElab.

Section PBorn.
  Variable R : Type.
  Variables (rO rI : R) (radd rmul rsub : R -> R -> R) (ropp : R -> R).
  Variable Rth : ring_theory rO rI radd rmul rsub ropp eq.
  Add Ring RringPB : Rth.
  Variable E : Qc -> R.
  Hypothesis E_add : forall a b, E (a + b)%Qc = rmul (E a) (E b).
  Hypothesis E_0 : E 0%Qc = rI.
  Hypothesis E_1 : E 1%Qc = ropp rI.
  Variable half : R.
  Hypothesis half_2 : radd half half = rI.
  Variable conj : R -> R.
  Hypothesis conj_add : forall a b, conj (radd a b) = radd (conj a) (conj b).
  Hypothesis conj_mul : forall a b, conj (rmul a b) = rmul (conj a) (conj b).
  Hypothesis conj_1 : conj rI = rI.
  Hypothesis conj_E : forall q, conj (E q) = E (- q)%Qc.
  Hypothesis conj_half : conj half = half.
  Variables ta tb tc : Qc.
  Notation ev := (eval R rO rI radd rmul ropp E half ta tb tc).
  Notation st_of := (st_of R rO rI radd rmul ropp E half ta tb tc).
  Notation sq2 := (sq2 R rO rI radd rmul ropp E half ta tb tc).
  Notation cspec := (cspec R rO rI radd rmul ropp E half ta tb tc).
  Notation ccircuit_ok := (ccircuit_ok R rO rI radd rmul ropp E half ta tb tc).
  Notation sqabs := (sqabs R rmul conj).
  Notation rsum := (rsum R rO radd).
  Infix "*" := rmul.

  Theorem parsed_born_weight n aux c cs ps :
    build aux c = Some ps -> parse_is_circuit aux c cs = true ->
    forallb (cinstr_lanes_ok n) cs = true -> ccircuit_ok (kinit R rO rI n) cs = true ->
    exists C, sq2 C /\ forall b,
      ev (norm2 (final_vec (run n b (pops ps) (init_state n))))
      = sqabs C * rsum (map (fun i => sqabs (cspec b (kinit R rO rI n) cs (kpsi R (kinit R rO rI n)) (Nat.testbit i))) (seq 0 (dim n))).
  Proof.
    intros Hb Hp Hl Hok.
    destruct (parse_kraus R rO rI radd rmul rsub ropp Rth E E_add E_0 E_1 half half_2 ta tb tc n aux c cs ps Hb Hp Hl Hok) as (C & HC & H).
    exists C. split; [exact HC|]. intro b. destruct (H b) as (e & He).
    set (v := final_vec (run n b (pops ps) (init_state n))) in *.
    assert (Hlen : List.length v = dim n).
    { unfold v, final_vec, vscale. rewrite map_length. apply (len_run n b (pops ps) (init_state n)). unfold len_ok, init_state. cbn [amp]. apply tab_len. }
    rewrite (ev_norm2 R rO rI radd rmul rsub ropp Rth E E_add E_0 E_1 half half_2 conj conj_add conj_mul conj_1 conj_E conj_half ta tb tc).
    rewrite <- (map_nth_seq v p0) at 1.
    rewrite map_map, Hlen, <- (rsum_scale R rO rI radd rmul rsub ropp Rth), map_map. f_equal.
    apply map_ext_in. intros i Hi. apply in_seq in Hi. cbn [Nat.add] in Hi.
    assert (Hx : ev (nth i v p0) = st_of n v (Nat.testbit i)).
    { unfold DenseBridge.st_of, vget. rewrite (idx_testbit n i) by (apply Hi). reflexivity. }
    rewrite Hx, He. unfold Amp.scale.
    rewrite !(sqabs_mul R rO rI radd rmul rsub ropp Rth conj conj_mul), (sqabs_E R rI rmul E E_add E_0 conj conj_E). ring.
  Qed.
End PBorn.
