(* C05 composition: the unitary fragment of the lane IR on ANY number of lanes, at ANY placement.

   `asem` is the semantics of the unitary primitives on amplitude functions (Base/Amp.v): the same formulas as the
   dense interpreter Model/Lane.step, lane by lane, without a bound on the number of lanes.
   (a) two-lane bridge: for a program on lanes {0,1}, the dense matrix `Lane.mat 2` (what the gate theorems of
       Proofs/GateProofs.v are about) is, entry by entry, the two-qubit operator `m4_of` that `asem` applies;
   (b) placement: the program instantiated at lanes (a, b), a <> b, acts as that operator on lanes a, b of any state;
   (c) hence every gate of GATE_TABLE, applied to any targets inside any circuit, acts as its documented matrix
       (up to the unit phase of the gate theorem), and a circuit acts as the ordered composition. *)
From Coq Require Import ZArith QArith Qcanon List Bool String Lia Ring Ring_theory FunctionalExtensionality.
Import ListNotations.
Require Import TV.Base.EP TV.Base.EPSound TV.Base.Amp TV.Model.Lane TV.Spec.RotGates TV.gen.Gen_instructions TV.gen.Gen_stim_gates
  TV.Model.GateCheck TV.Proofs.GateProofs.
Set Default Timeout 120.

Section Circ.
  Variable R : Type.
  Variables (rO rI : R) (radd rmul rsub : R -> R -> R) (ropp : R -> R).
  Variable Rth : ring_theory rO rI radd rmul rsub ropp eq.
  Add Ring RringCirc : Rth.
  Variable E : Qc -> R.
  Hypothesis E_add : forall a b, E (a + b)%Qc = rmul (E a) (E b).
  Hypothesis E_0 : E 0%Qc = rI.
  Hypothesis E_1 : E 1%Qc = ropp rI.
  Variable half : R.
  Hypothesis half_2 : radd half half = rI.
  Variables ta tb tc : Qc.
  Notation ev := (eval R rO rI radd rmul ropp E half ta tb tc).
  Notation state := (Amp.state R).
  Notation app1 := (Amp.app1 R radd rmul).
  Notation app2 := (Amp.app2 R radd rmul).
  Notation scale := (Amp.scale R rmul).
  Notation m2f := (Amp.m2f R).
  Notation m4f := (Amp.m4f R).
  Notation delta := (Amp.delta R rO rI).
  Notation emb1 := (Amp.emb1 R rO rI rmul).
  Notation emb2 := (Amp.emb2 R rO rI rmul).
  Notation mul4 := (Amp.mul4 R radd rmul).
  Notation swap4 := (Amp.swap4 R).
  Notation id4 := (Amp.id4 R rO rI rmul).
  Infix "+" := radd.
  Infix "*" := rmul.

  Definition m2f_of (m : m2) : m2f :=
    let '(m00, m01, m10, m11) := m in
    fun r c => ev (match r, c with false, false => m00 | false, true => m01 | true, false => m10 | true, true => m11 end).
  (* control on the first lane *)
  Definition cx4 : m4f := fun r1 r2 c1 c2 => delta r1 c1 * delta r2 (xorb c2 c1).
  Definition cz4 : m4f := fun r1 r2 c1 c2 => delta r1 c1 * delta r2 c2 * (if (c1 && c2)%bool then ropp rI else rI).
  Definition sw4 : m4f := fun r1 r2 c1 c2 => delta r1 c2 * delta r2 c1.

  (* the unitary fragment *)
  Definition unitary_op (o : op nat) : bool :=
    match o with
    | OSpider _ _ _ | OH _ | OI _ | OPhase _ | OPower _ => true
    | OSwap a b => negb (Nat.eqb a b)
    | OCxCz _ a b None => negb (Nat.eqb a b)
    | _ => false
    end.
  Definition astep (st : R * state) (o : op nat) : R * state :=
    let '(k, psi) := st in
    match o with
    | OSpider c q e => (k, app1 (m2f_of (match c with CZc => mZph e | CXc => mXph e end)) q psi)
    | OH q => (k, app1 (m2f_of mH) q psi)
    | OI _ => (k, psi)
    | OSwap a b => (k, app2 sw4 a b psi)
    | OCxCz is_cx a b None => (k, app2 (if is_cx then cx4 else cz4) a b psi)
    | OPhase e => (k * ev (pE e), psi)
    | OPower n => (k * ev (psqrt2pow n), psi)
    | _ => (k, psi)
    end.
  Definition asem (ops : list (op nat)) (st : R * state) : R * state := fold_left astep ops st.
  Definition final (st : R * state) : state := scale (fst st) (snd st).

  Lemma asem_app o1 o2 st : asem (o1 ++ o2) st = asem o2 (asem o1 st).
  Proof. unfold asem. apply fold_left_app. Qed.

  (* ---- the two-qubit operator of a program on lanes {0,1} ---- *)
  Definition lanes01 (o : op nat) : bool :=
    match o with
    | OSpider _ q _ | OH q | OI q => Nat.ltb q 2
    | OSwap a b | OCxCz _ a b _ => Nat.ltb a 2 && Nat.ltb b 2
    | _ => true
    end.
  Definition prim4 (o : op nat) : R * m4f :=
    match o with
    | OSpider c q e => (rI, (if Nat.eqb q 0 then emb1 else emb2) (m2f_of (match c with CZc => mZph e | CXc => mXph e end)))
    | OH q => (rI, (if Nat.eqb q 0 then emb1 else emb2) (m2f_of mH))
    | OSwap _ _ => (rI, sw4)
    | OCxCz is_cx a _ None => (rI, (if Nat.eqb a 0 then fun m => m else swap4) (if is_cx then cx4 else cz4))
    | OPhase e => (ev (pE e), id4)
    | OPower n => (ev (psqrt2pow n), id4)
    | _ => (rI, id4)
    end.
  Definition m4_of (ops : list (op nat)) : R * m4f :=
    fold_left (fun acc o => let '(k, M) := acc in let '(k', P) := prim4 o in (k * k', mul4 P M)) ops (rI, id4).

  Definition place (a b : nat) (q : nat) : nat := if Nat.eqb q 0 then a else b.

  Lemma mul4_id_l M : mul4 id4 M = M.
  Proof.
    apply functional_extensionality; intro r1. apply functional_extensionality; intro r2.
    apply functional_extensionality; intro c1. apply functional_extensionality; intro c2.
    unfold Amp.mul4, Amp.id4, Amp.sum2, Amp.delta. destruct r1, r2; cbn [Bool.eqb]; ring.
  Qed.
  Lemma sw4_sym : swap4 sw4 = sw4.
  Proof.
    apply functional_extensionality; intro r1. apply functional_extensionality; intro r2.
    apply functional_extensionality; intro c1. apply functional_extensionality; intro c2.
    unfold Amp.swap4, sw4. ring.
  Qed.

  Lemma mul_one (k : R) : k = k * rI.
  Proof. ring. Qed.
  Lemma pair_eq (k k' : R) (s s' : state) : k = k' -> s = s' -> (k, s) = (k', s').
  Proof. intros -> ->. reflexivity. Qed.

  (* one primitive at placement (a, b) *)
  Lemma astep_place a b o k psi : a <> b -> unitary_op o = true -> lanes01 o = true ->
    astep (k, psi) (op_map (place a b) o) = (k * fst (prim4 o), app2 (snd (prim4 o)) a b psi).
  Proof.
    intros Hab Hu Hl. destruct o as [c q e | | q | is_cx ca cb cc | ca cb | q | | | e | n | | | | |]; try discriminate; cbn [op_map astep prim4 fst snd].
    - (* spider *) cbn [lanes01] in Hl. apply Nat.ltb_lt in Hl.
      destruct q as [|[|q]]; [| |lia]; cbn [place Nat.eqb].
      + rewrite (app1_as_app2_first R rO rI radd rmul rsub ropp Rth _ a b psi Hab). apply pair_eq; [apply mul_one | reflexivity].
      + rewrite (app1_as_app2_second R rO rI radd rmul rsub ropp Rth _ a b psi Hab). apply pair_eq; [apply mul_one | reflexivity].
    - (* H *) cbn [lanes01] in Hl. apply Nat.ltb_lt in Hl.
      destruct q as [|[|q]]; [| |lia]; cbn [place Nat.eqb].
      + rewrite (app1_as_app2_first R rO rI radd rmul rsub ropp Rth _ a b psi Hab). apply pair_eq; [apply mul_one | reflexivity].
      + rewrite (app1_as_app2_second R rO rI radd rmul rsub ropp Rth _ a b psi Hab). apply pair_eq; [apply mul_one | reflexivity].
    - (* CX / CZ *) destruct cc as [cc|]; [discriminate|]. cbn [unitary_op] in Hu. cbn [lanes01] in Hl.
      apply andb_true_iff in Hl. destruct Hl as [Hl1 Hl2]. apply Nat.ltb_lt in Hl1, Hl2. apply negb_true_iff, Nat.eqb_neq in Hu.
      destruct ca as [|[|ca]]; [| |lia]; destruct cb as [|[|cb]]; try lia; cbn [place Nat.eqb].
      + apply pair_eq; [apply mul_one | reflexivity].
      + rewrite (app2_swap_lanes R rO rI radd rmul rsub ropp Rth _ a b psi Hab). apply pair_eq; [apply mul_one | reflexivity].
    - (* swap *) cbn [unitary_op] in Hu. cbn [lanes01] in Hl.
      apply andb_true_iff in Hl. destruct Hl as [Hl1 Hl2]. apply Nat.ltb_lt in Hl1, Hl2. apply negb_true_iff, Nat.eqb_neq in Hu.
      destruct ca as [|[|ca]]; [| |lia]; destruct cb as [|[|cb]]; try lia; cbn [place Nat.eqb].
      + apply pair_eq; [apply mul_one | reflexivity].
      + rewrite (app2_swap_lanes R rO rI radd rmul rsub ropp Rth _ a b psi Hab), sw4_sym. apply pair_eq; [apply mul_one | reflexivity].
    - (* I *) rewrite (app2_id R rO rI radd rmul rsub ropp Rth a b psi Hab). apply pair_eq; [apply mul_one | reflexivity].
    - (* phase *) rewrite (app2_id R rO rI radd rmul rsub ropp Rth a b psi Hab). reflexivity.
    - (* power *) rewrite (app2_id R rO rI radd rmul rsub ropp Rth a b psi Hab). reflexivity.
  Qed.

  (* (b) a whole two-lane program at placement (a, b) *)
  Theorem asem_place a b ops : a <> b -> forallb unitary_op ops = true -> forallb lanes01 ops = true ->
    forall k psi, asem (map (op_map (place a b)) ops) (k, psi) = (k * fst (m4_of ops), app2 (snd (m4_of ops)) a b psi).
  Proof.
    intros Hab Hu Hl. unfold m4_of.
    assert (G : forall ops k0 M0 k psi, forallb unitary_op ops = true -> forallb lanes01 ops = true ->
      asem (map (op_map (place a b)) ops) (k * k0, app2 M0 a b psi) =
      (let '(k1, M1) := fold_left (fun acc o => let '(k, M) := acc in let '(k', P) := prim4 o in (k * k', mul4 P M)) ops (k0, M0) in
       (k * k1, app2 M1 a b psi))).
    { clear Hu Hl ops. induction ops as [|o ops IH]; intros k0 M0 k psi Hu Hl; cbn [map fold_left asem]; [reflexivity|].
      cbn [forallb] in Hu, Hl. apply andb_true_iff in Hu, Hl. destruct Hu as [Hu1 Hu2], Hl as [Hl1 Hl2].
      unfold asem in *. cbn [fold_left]. rewrite (astep_place a b o _ _ Hab Hu1 Hl1).
      rewrite (app2_comp R rO rI radd rmul rsub ropp Rth _ _ a b psi Hab).
      destruct (prim4 o) as [k' P] eqn:EP. cbn [fst snd].
      replace (k * k0 * k') with (k * (k0 * k')) by ring.
      apply (IH (k0 * k') (mul4 P M0) k psi Hu2 Hl2). }
    intros k psi. specialize (G ops rI id4 k psi Hu Hl).
    rewrite (app2_id R rO rI radd rmul rsub ropp Rth a b psi Hab) in G.
    replace (k * rI) with k in G by ring. rewrite G.
    destruct (fold_left _ ops (rI, id4)) as [k1 M1]. reflexivity.
  Qed.

  (* ---- (a) the two-lane bridge: Model/Lane.run on two existing lanes multiplies the column by prim4 ---- *)
  Let ev_add := eval_padd R rO rI radd rmul rsub ropp Rth E E_add E_0 E_1 half half_2 ta tb tc.
  Let ev_mul := eval_pmul R rO rI radd rmul rsub ropp Rth E E_add E_0 E_1 half half_2 ta tb tc.
  Let ev_neg := eval_pneg R rO rI radd rmul rsub ropp Rth E half ta tb tc.
  Let ev_sub := eval_psub R rO rI radd rmul rsub ropp Rth E E_add E_0 E_1 half half_2 ta tb tc.
  Let ev_0 := eval_p0 R rO rI radd rmul rsub ropp Rth E E_add E_0 E_1 half half_2 ta tb tc.
  Let ev_1 := eval_p1 R rO rI radd rmul rsub ropp Rth E E_add E_0 E_1 half half_2 ta tb tc.

  Definition col_rel (s : lstate) (k : R) (M : m4f) (c1 c2 : bool) : Prop :=
    exists v0 v1 v2 v3, amp s = [v0; v1; v2; v3] /\ exists_ s = [true; true] /\ ev (scal s) = k /\
      ev v0 = M false false c1 c2 /\ ev v1 = M true false c1 c2 /\ ev v2 = M false true c1 c2 /\ ev v3 = M true true c1 c2.

  Ltac entries H0 H1 H2 H3 :=
    unfold cx4, cz4, sw4, m2f_of, mZph, mXph, mH; unfold Amp.mul4, Amp.emb1, Amp.emb2, Amp.sum2, Amp.id4, Amp.swap4; unfold Amp.delta;
    cbn [Bool.eqb xorb andb];
    repeat (progress rewrite ?ev_add, ?ev_mul, ?ev_neg, ?ev_sub);
    rewrite ?ev_0, ?ev_1, ?H0, ?H1, ?H2, ?H3;
    try ring.

  Lemma step_rel b o s k M c1 c2 : col_rel s k M c1 c2 -> unitary_op o = true -> lanes01 o = true ->
    col_rel (step 8 2 b s o) (k * fst (prim4 o)) (mul4 (snd (prim4 o)) M) c1 c2.
  Proof.
    intros (v0 & v1 & v2 & v3 & Ha & Hex & Hk & H0 & H1 & H2 & H3) Hu Hl.
    destruct s as [am sc ex co nr ns ne nc rq ch cp okf]. cbn [amp exists_ scal] in *. subst am ex.
    destruct o as [c q e | | q | is_cx ca cb cc | ca cb | q | | | e | n | | | | |]; try discriminate.
    - (* spider *) cbn [lanes01] in Hl. apply Nat.ltb_lt in Hl. destruct q as [|[|q]]; [| |lia];
        destruct c; cbn -[padd pmul pneg pE phalf psub p0 p1]; unfold col_rel; cbn [amp exists_ scal setcol setamp setscal setex];
        do 4 eexists; (split; [reflexivity|]); (split; [reflexivity|]); (split; [rewrite Hk; cbn [prim4 fst]; ring|]);
        cbn [prim4 snd Nat.eqb]; repeat split; entries H0 H1 H2 H3.
    - (* H *) cbn [lanes01] in Hl. apply Nat.ltb_lt in Hl. destruct q as [|[|q]]; [| |lia];
        cbn -[padd pmul pneg pE phalf psub p0 p1 psqrt2inv]; unfold col_rel; cbn [amp exists_ scal setcol setamp setscal setex];
        do 4 eexists; (split; [reflexivity|]); (split; [reflexivity|]); (split; [rewrite Hk; cbn [prim4 fst]; ring|]);
        cbn [prim4 snd Nat.eqb]; repeat split; entries H0 H1 H2 H3.
    - (* CX / CZ *) destruct cc as [cc|]; [discriminate|]. cbn [unitary_op] in Hu. cbn [lanes01] in Hl.
      apply andb_true_iff in Hl. destruct Hl as [Hl1 Hl2]. apply Nat.ltb_lt in Hl1, Hl2. apply negb_true_iff, Nat.eqb_neq in Hu.
      destruct ca as [|[|ca]]; [| |lia]; destruct cb as [|[|cb]]; try lia; destruct is_cx;
        cbn -[padd pmul pneg pE phalf psub p0 p1]; unfold col_rel; cbn [amp exists_ scal setcol setamp setscal setex];
        do 4 eexists; (split; [reflexivity|]); (split; [reflexivity|]); (split; [rewrite Hk; cbn [prim4 fst]; ring|]);
        cbn [prim4 snd Nat.eqb]; repeat split; entries H0 H1 H2 H3.
    - (* swap *) cbn [unitary_op] in Hu. cbn [lanes01] in Hl.
      apply andb_true_iff in Hl. destruct Hl as [Hl1 Hl2]. apply Nat.ltb_lt in Hl1, Hl2. apply negb_true_iff, Nat.eqb_neq in Hu.
      destruct ca as [|[|ca]]; [| |lia]; destruct cb as [|[|cb]]; try lia;
        cbn -[padd pmul pneg pE phalf psub p0 p1]; unfold col_rel; cbn [amp exists_ scal setcol setamp setscal setex];
        do 4 eexists; (split; [reflexivity|]); (split; [reflexivity|]); (split; [rewrite Hk; cbn [prim4 fst]; ring|]);
        cbn [prim4 snd Nat.eqb]; repeat split; entries H0 H1 H2 H3.
    - (* I *) cbn [lanes01] in Hl. apply Nat.ltb_lt in Hl. destruct q as [|[|q]]; [| |lia];
        cbn -[padd pmul pneg pE phalf psub p0 p1]; unfold col_rel; cbn [amp exists_ scal setcol setamp setscal setex];
        do 4 eexists; (split; [reflexivity|]); (split; [reflexivity|]); (split; [rewrite Hk; cbn [prim4 fst]; ring|]);
        cbn [prim4 snd]; repeat split; entries H0 H1 H2 H3.
    - (* phase *) cbn -[padd pmul pneg pE phalf psub p0 p1]; unfold col_rel; cbn [amp exists_ scal setcol setamp setscal setex];
        do 4 eexists; (split; [reflexivity|]); (split; [reflexivity|]); (split; [rewrite ev_mul, Hk; cbn [prim4 fst]; ring|]);
        cbn [prim4 snd]; repeat split; entries H0 H1 H2 H3.
    - (* power *) cbn -[padd pmul pneg pE phalf psub p0 p1 psqrt2pow]; unfold col_rel; cbn [amp exists_ scal setcol setamp setscal setex];
        do 4 eexists; (split; [reflexivity|]); (split; [reflexivity|]); (split; [rewrite ev_mul, Hk; cbn [prim4 fst]; ring|]);
        cbn [prim4 snd]; repeat split; entries H0 H1 H2 H3.
  Qed.

  Definition b2n (b : bool) : nat := if b then 1%nat else 0%nat.
  Lemma run_rel b ops : forall s k M c1 c2, col_rel s k M c1 c2 -> forallb unitary_op ops = true -> forallb lanes01 ops = true ->
    col_rel (fold_left (step 8 2 b) ops s)
            (fst (fold_left (fun acc o => let '(k, M) := acc in let '(k', P) := prim4 o in (k * k', mul4 P M)) ops (k, M)))
            (snd (fold_left (fun acc o => let '(k, M) := acc in let '(k', P) := prim4 o in (k * k', mul4 P M)) ops (k, M))) c1 c2.
  Proof.
    induction ops as [|o ops IH]; intros s k M c1 c2 Hr Hu Hl; cbn [fold_left fst snd]; [exact Hr|].
    cbn [forallb] in Hu, Hl. apply andb_true_iff in Hu, Hl. destruct Hu as [Hu1 Hu2], Hl as [Hl1 Hl2].
    pose proof (step_rel b o s k M c1 c2 Hr Hu1 Hl1) as Hs.
    destruct (prim4 o) as [k' P] eqn:EP. cbn [fst snd] in Hs.
    apply (IH _ _ _ c1 c2 Hs Hu2 Hl2).
  Qed.
  Lemma basis_rel c1 c2 : col_rel (basis_state 2 (b2n c1 + 2 * b2n c2)) rI id4 c1 c2.
  Proof.
    unfold col_rel. destruct c1, c2; cbn [b2n Nat.add Nat.mul basis_state amp exists_ scal]; cbn -[p0 p1];
      do 4 eexists; (split; [reflexivity|]); (split; [reflexivity|]); (split; [apply ev_1|]);
      rewrite ?ev_0, ?ev_1; unfold Amp.id4, Amp.delta; cbn [Bool.eqb]; repeat split; ring.
  Qed.
  (* (a) every entry of the dense two-lane matrix is the scalar times the operator entry *)
  Theorem two_lane_bridge ops : forallb unitary_op ops = true -> forallb lanes01 ops = true ->
    forall r1 r2 c1 c2,
      ev (entry (mat 2 ops) (b2n r1 + 2 * b2n r2) (b2n c1 + 2 * b2n c2)) = fst (m4_of ops) * snd (m4_of ops) r1 r2 c1 c2.
  Proof.
    intros Hu Hl r1 r2 c1 c2.
    pose proof (run_rel (mkB [] [] []) ops _ _ _ c1 c2 (basis_rel c1 c2) Hu Hl) as Hr. fold (m4_of ops) in Hr.
    destruct Hr as (v0 & v1 & v2 & v3 & Ha & _ & Hk & H0 & H1 & H2 & H3).
    unfold entry, mat, run, final_vec, vscale.
    destruct c1, c2; cbn [b2n Nat.add Nat.mul] in *; cbn [dim Nat.pow Nat.mul Nat.add seq map nth];
      rewrite Ha; destruct r1, r2; cbn [b2n Nat.add Nat.mul map nth]; rewrite ev_mul, Hk, ?H0, ?H1, ?H2, ?H3; reflexivity.
  Qed.

  (* documented matrix (columns, little endian) as a two-qubit operator *)
  Definition m4f_of (D : list vec) : m4f := fun r1 r2 c1 c2 => ev (entry D (b2n r1 + 2 * b2n r2) (b2n c1 + 2 * b2n c2)).

  (* (c) a two-lane program whose dense matrix is e * D acts at ANY placement (a, b) of ANY register as e * D on lanes a, b *)
  Theorem program_at_placement ops D e : forallb unitary_op ops = true -> forallb lanes01 ops = true ->
    prop_to R rO rI radd rmul ropp E half ta tb tc e (mat 2 ops) D ->
    forall a b k psi, a <> b ->
      final (asem (map (op_map (place a b)) ops) (k, psi)) = scale (k * e) (app2 (m4f_of D) a b psi).
  Proof.
    intros Hu Hl Hp a b k psi Hab. rewrite (asem_place a b ops Hab Hu Hl). unfold final. cbn [fst snd].
    rewrite <- (scale_scale R rO rI radd rmul rsub ropp Rth k (fst (m4_of ops))).
    rewrite <- (scale_scale R rO rI radd rmul rsub ropp Rth k e).
    f_equal. apply (app2_scale_ext R rO rI radd rmul rsub ropp Rth).
    intros r1 r2 c1 c2. rewrite <- (two_lane_bridge ops Hu Hl). unfold m4f_of. apply Hp.
  Qed.

  (* ---- the same for one-lane programs (single-qubit gates) ---- *)
  Notation mul2 := (Amp.mul2 R radd rmul).
  Definition id2 : m2f := fun r c => delta r c.
  Definition unitary_op1 (o : op nat) : bool :=
    match o with OSpider _ q _ | OH q | OI q => Nat.eqb q 0 | OPhase _ | OPower _ => true | _ => false end.
  Definition prim2 (o : op nat) : R * m2f :=
    match o with
    | OSpider c _ e => (rI, m2f_of (match c with CZc => mZph e | CXc => mXph e end))
    | OH _ => (rI, m2f_of mH)
    | OPhase e => (ev (pE e), id2)
    | OPower n => (ev (psqrt2pow n), id2)
    | _ => (rI, id2)
    end.
  Definition m2_of (ops : list (op nat)) : R * m2f :=
    fold_left (fun acc o => let '(k, M) := acc in let '(k', P) := prim2 o in (k * k', mul2 P M)) ops (rI, id2).
  Lemma app1_id q psi : app1 id2 q psi = psi.
  Proof.
    apply functional_extensionality; intro x. unfold Amp.app1, id2, Amp.sum2, Amp.delta.
    assert (Hx : Amp.upd x q (x q) = x) by apply upd_id.
    destruct (x q) eqn:Eq; rewrite Hx; cbn [Bool.eqb]; ring.
  Qed.
  Lemma astep_place1 a o k psi : unitary_op1 o = true ->
    astep (k, psi) (op_map (fun _ => a) o) = (k * fst (prim2 o), app1 (snd (prim2 o)) a psi).
  Proof.
    intro Hu. destruct o as [c q e | | q | | | q | | | e | n | | | | |]; try discriminate; cbn [op_map astep prim2 fst snd];
      rewrite ?app1_id; apply pair_eq; try apply mul_one; reflexivity.
  Qed.
  Theorem asem_place1 a ops : forallb unitary_op1 ops = true ->
    forall k psi, asem (map (op_map (fun _ => a)) ops) (k, psi) = (k * fst (m2_of ops), app1 (snd (m2_of ops)) a psi).
  Proof.
    intro Hu. unfold m2_of.
    assert (G : forall ops k0 M0 k psi, forallb unitary_op1 ops = true ->
      asem (map (op_map (fun _ => a)) ops) (k * k0, app1 M0 a psi) =
      (let '(k1, M1) := fold_left (fun acc o => let '(k, M) := acc in let '(k', P) := prim2 o in (k * k', mul2 P M)) ops (k0, M0) in
       (k * k1, app1 M1 a psi))).
    { clear Hu ops. induction ops as [|o ops IH]; intros k0 M0 k psi Hu; cbn [map fold_left asem]; [reflexivity|].
      cbn [forallb] in Hu. apply andb_true_iff in Hu. destruct Hu as [Hu1 Hu2].
      unfold asem in *. cbn [fold_left]. rewrite (astep_place1 a o _ _ Hu1).
      rewrite (app1_comp R rO rI radd rmul rsub ropp Rth _ _ a psi).
      destruct (prim2 o) as [k' P] eqn:EP. cbn [fst snd].
      replace (k * k0 * k') with (k * (k0 * k')) by ring.
      apply (IH (k0 * k') (mul2 P M0) k psi Hu2). }
    intros k psi. specialize (G ops rI id2 k psi Hu). rewrite app1_id in G.
    replace (k * rI) with k in G by ring. rewrite G.
    destruct (fold_left _ ops (rI, id2)) as [k1 M1]. reflexivity.
  Qed.

  Definition col_rel1 (s : lstate) (k : R) (M : m2f) (c : bool) : Prop :=
    exists v0 v1, amp s = [v0; v1] /\ exists_ s = [true] /\ ev (scal s) = k /\ ev v0 = M false c /\ ev v1 = M true c.
  Ltac entries1 H0 H1 :=
    unfold m2f_of, mZph, mXph, mH, id2; unfold Amp.mul2, Amp.sum2; unfold Amp.delta; cbn [Bool.eqb];
    repeat (progress rewrite ?ev_add, ?ev_mul, ?ev_neg, ?ev_sub); rewrite ?ev_0, ?ev_1, ?H0, ?H1; try ring.
  Lemma step_rel1 b o s k M c : col_rel1 s k M c -> unitary_op1 o = true ->
    col_rel1 (step 8 1 b s o) (k * fst (prim2 o)) (mul2 (snd (prim2 o)) M) c.
  Proof.
    intros (v0 & v1 & Ha & Hex & Hk & H0 & H1) Hu.
    destruct s as [am sc ex co nr ns ne nc rq ch cp okf]. cbn [amp exists_ scal] in *. subst am ex.
    destruct o as [cl q e | | q | | | q | | | e | n | | | | |]; try discriminate.
    - cbn [unitary_op1] in Hu. apply Nat.eqb_eq in Hu. subst q.
      destruct cl; cbn -[padd pmul pneg pE phalf psub p0 p1]; unfold col_rel1; cbn [amp exists_ scal setcol setamp setscal setex];
        do 2 eexists; (split; [reflexivity|]); (split; [reflexivity|]); (split; [rewrite Hk; cbn [prim2 fst]; ring|]);
        cbn [prim2 snd]; split; entries1 H0 H1.
    - cbn [unitary_op1] in Hu. apply Nat.eqb_eq in Hu. subst q.
      cbn -[padd pmul pneg pE phalf psub p0 p1 psqrt2inv]; unfold col_rel1; cbn [amp exists_ scal setcol setamp setscal setex];
        do 2 eexists; (split; [reflexivity|]); (split; [reflexivity|]); (split; [rewrite Hk; cbn [prim2 fst]; ring|]);
        cbn [prim2 snd]; split; entries1 H0 H1.
    - cbn [unitary_op1] in Hu. apply Nat.eqb_eq in Hu. subst q.
      cbn -[padd pmul pneg pE phalf psub p0 p1]; unfold col_rel1; cbn [amp exists_ scal setcol setamp setscal setex];
        do 2 eexists; (split; [reflexivity|]); (split; [reflexivity|]); (split; [rewrite Hk; cbn [prim2 fst]; ring|]);
        cbn [prim2 snd]; split; entries1 H0 H1.
    - cbn -[padd pmul pneg pE phalf psub p0 p1]; unfold col_rel1; cbn [amp exists_ scal setcol setamp setscal setex];
        do 2 eexists; (split; [reflexivity|]); (split; [reflexivity|]); (split; [rewrite ev_mul, Hk; cbn [prim2 fst]; ring|]);
        cbn [prim2 snd]; split; entries1 H0 H1.
    - cbn -[padd pmul pneg pE phalf psub p0 p1 psqrt2pow]; unfold col_rel1; cbn [amp exists_ scal setcol setamp setscal setex];
        do 2 eexists; (split; [reflexivity|]); (split; [reflexivity|]); (split; [rewrite ev_mul, Hk; cbn [prim2 fst]; ring|]);
        cbn [prim2 snd]; split; entries1 H0 H1.
  Qed.
  Lemma run_rel1 b ops : forall s k M c, col_rel1 s k M c -> forallb unitary_op1 ops = true ->
    col_rel1 (fold_left (step 8 1 b) ops s)
             (fst (fold_left (fun acc o => let '(k, M) := acc in let '(k', P) := prim2 o in (k * k', mul2 P M)) ops (k, M)))
             (snd (fold_left (fun acc o => let '(k, M) := acc in let '(k', P) := prim2 o in (k * k', mul2 P M)) ops (k, M))) c.
  Proof.
    induction ops as [|o ops IH]; intros s k M c Hr Hu; cbn [fold_left fst snd]; [exact Hr|].
    cbn [forallb] in Hu. apply andb_true_iff in Hu. destruct Hu as [Hu1 Hu2].
    pose proof (step_rel1 b o s k M c Hr Hu1) as Hs.
    destruct (prim2 o) as [k' P] eqn:EP. cbn [fst snd] in Hs.
    apply (IH _ _ _ c Hs Hu2).
  Qed.
  Theorem one_lane_bridge ops : forallb unitary_op1 ops = true ->
    forall r c, ev (entry (mat 1 ops) (b2n r) (b2n c)) = fst (m2_of ops) * snd (m2_of ops) r c.
  Proof.
    intros Hu r c.
    assert (Hb : col_rel1 (basis_state 1 (b2n c)) rI id2 c).
    { unfold col_rel1. destruct c; cbn [b2n basis_state amp exists_ scal]; cbn -[p0 p1];
        do 2 eexists; (split; [reflexivity|]); (split; [reflexivity|]); (split; [apply ev_1|]);
        rewrite ?ev_0, ?ev_1; unfold id2, Amp.delta; cbn [Bool.eqb]; split; reflexivity. }
    pose proof (run_rel1 (mkB [] [] []) ops _ _ _ c Hb Hu) as Hr. fold (m2_of ops) in Hr.
    destruct Hr as (v0 & v1 & Ha & _ & Hk & H0 & H1).
    unfold entry, mat, run, final_vec, vscale.
    destruct c; cbn [b2n] in *; cbn [dim Nat.pow Nat.mul Nat.add seq map nth];
      rewrite Ha; destruct r; cbn [b2n map nth]; rewrite ev_mul, Hk, ?H0, ?H1; reflexivity.
  Qed.
  Definition m2f_doc (D : list vec) : m2f := fun r c => ev (entry D (b2n r) (b2n c)).
  Theorem program_at_lane ops D e : forallb unitary_op1 ops = true ->
    prop_to R rO rI radd rmul ropp E half ta tb tc e (mat 1 ops) D ->
    forall a k psi, final (asem (map (op_map (fun _ => a)) ops) (k, psi)) = scale (k * e) (app1 (m2f_doc D) a psi).
  Proof.
    intros Hu Hp a k psi. rewrite (asem_place1 a ops Hu). unfold final. cbn [fst snd].
    rewrite <- (scale_scale R rO rI radd rmul rsub ropp Rth k (fst (m2_of ops))).
    rewrite <- (scale_scale R rO rI radd rmul rsub ropp Rth k e).
    f_equal. apply (app1_scale_ext R rO rI radd rmul rsub ropp Rth).
    intros r c. rewrite <- (one_lane_bridge ops Hu). unfold m2f_doc. apply Hp.
  Qed.
End Circ.
