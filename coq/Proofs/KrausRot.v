(* Non-Clifford one-qubit gates inside the composition theorem: T, T_DAG, R_Z, R_X, R_Y, U3 with ARBITRARY angles.

   The angle of a rotation is an `expo` (a multiple of pi/4 plus an integer combination of three generic angles ta tb tc, every
   statement holding for all values of those), exactly what the parse model carries.  The operator is given by its definition in
   terms of phase matrices, which needs no normal form of the angle:
       T = diag(1, E(1/4)),  T_DAG = diag(1, E(-1/4)),
       R_Z(e) ~ Zph(e) = diag(1, E(e)),          R_X(e) ~ Xph(e) = H Zph(e) H,
       R_Y(e) ~ H_YZ Zph(e) H_YZ                 (H_YZ: Stim's documented matrix; H_YZ Z H_YZ = Y),
       U3(theta, phi, lambda) ~ Zph(phi) R_Y(theta) Zph(lambda),
   "~" = up to a unit phase E(q), which the statements of the composition theorem quantify existentially anyway. *)
From Coq Require Import ZArith QArith Qcanon List Bool String Lia Ring Ring_theory FunctionalExtensionality.
Import ListNotations.
Require Import TV.Base.EP TV.Base.EPSound TV.Base.Amp TV.Model.Lane TV.gen.Gen_instructions TV.gen.Gen_stim_gates
  TV.Model.GateCheck TV.Proofs.GateProofs TV.Proofs.CircuitProofs TV.Proofs.CircuitTheorem TV.Proofs.DenseBridge TV.Proofs.KrausSem TV.Proofs.KrausGates.
Set Default Timeout 200.

Definition cu_ops (name : string) (angles : list expo) (q : nat) : option (list (op nat)) :=
  match angles with
  | [] => if String.eqb name "T" then Some (g_t q) else if String.eqb name "T_DAG" then Some (g_t_dag q) else None
  | [th] => if String.eqb name "R_Z" then Some (g_r_z q th) else if String.eqb name "R_X" then Some (g_r_x q th)
            else if String.eqb name "R_Y" then Some (g_r_y q th) else None
  | [th; ph; la] => if String.eqb name "U3" then Some (g_u3 q th ph la) else None
  | _ => None
  end.
Definition hyz_D : list (list ep) := match doc_of "H_YZ" with Some (_, D) => D | None => [] end.
Lemma hyz_doc : doc_of "H_YZ" = Some (1%nat, hyz_D). Proof. vm_compute. reflexivity. Qed.
Lemma hyz_row : In ("H_YZ"%string, ("h_yz"%string, 1%nat)) gate_table. Proof. vm_compute. tauto. Qed.
Lemma hyz_fn : assoc "h_yz" unitary1 = Some (fun q : nat => g_h_yz q). Proof. reflexivity. Qed.

Section KRot.
  Variable R : Type.
  Variables (rO rI : R) (radd rmul rsub : R -> R -> R) (ropp : R -> R).
  Variable Rth : ring_theory rO rI radd rmul rsub ropp eq.
  Add Ring RringKR : Rth.
  Variable E : Qc -> R.
  Hypothesis E_add : forall a b, E (a + b)%Qc = rmul (E a) (E b).
  Hypothesis E_0 : E 0%Qc = rI.
  Hypothesis E_1 : E 1%Qc = ropp rI.
  Variable half : R.
  Hypothesis half_2 : radd half half = rI.
  Variables ta tb tc : Qc.
  Notation ev := (eval R rO rI radd rmul ropp E half ta tb tc).
  Notation xv := (expo_val ta tb tc).
  Notation state := (Amp.state R).
  Notation scale := (Amp.scale R rmul).
  Notation app1 := (Amp.app1 R radd rmul).
  Notation m2f_of := (m2f_of R rO rI radd rmul ropp E half ta tb tc).
  Notation m2f_doc := (m2f_doc R rO rI radd rmul ropp E half ta tb tc).
  Notation U := (U R rO rI radd rmul ropp E half ta tb tc).
  Notation kst := (kst R).
  Notation krun := (krun R rO rI radd rmul ropp E half ta tb tc).
  Notation kfinal := (kfinal R rmul).
  Notation uM := (uM R rO rI radd rmul ropp E half ta tb tc).
  Infix "+" := radd.
  Infix "*" := rmul.

  Definition zph (e : expo) (a : nat) (psi : state) : state := app1 (m2f_of (mZph e)) a psi.
  Definition xph (e : expo) (a : nat) (psi : state) : state := app1 (m2f_of (mXph e)) a psi.
  Definition hyz (a : nat) (psi : state) : state := app1 (m2f_doc hyz_D) a psi.
  Definition ry (e : expo) (a : nat) (psi : state) : state := hyz a (zph e a (hyz a psi)).
  (* the operator of the instruction (up to a unit phase) *)
  Definition spec_cu (name : string) (angles : list expo) (a : nat) (psi : state) : state :=
    match angles with
    | [] => if String.eqb name "T" then zph (equarter 1) a psi else if String.eqb name "T_DAG" then zph (equarter (-1)) a psi else psi
    | [th] => if String.eqb name "R_Z" then zph th a psi else if String.eqb name "R_X" then xph th a psi
              else if String.eqb name "R_Y" then ry th a psi else psi
    | [th; ph; la] => if String.eqb name "U3" then zph ph a (ry th a (zph la a psi)) else psi
    | _ => psi
    end.

  Lemma U_spider c a e psi : U [OSpider c a e] psi = app1 (m2f_of (match c with CZc => mZph e | CXc => mXph e end)) a psi.
  Proof.
    unfold CircuitTheorem.U, CircuitProofs.final, CircuitProofs.asem. cbn [fold_left CircuitProofs.astep fst snd].
    apply (scale_one R rO rI radd rmul rsub ropp Rth).
  Qed.
  Lemma U_phase e psi : U [OPhase e] psi = scale (E (xv e)) psi.
  Proof.
    unfold CircuitTheorem.U, CircuitProofs.final, CircuitProofs.asem. cbn [fold_left CircuitProofs.astep fst snd].
    rewrite (eval_pE R rO rI radd rmul rsub ropp Rth E E_add E_0 E_1 half half_2 ta tb tc). f_equal. ring.
  Qed.
  Lemma U_hyz : exists e, forall a psi, U (g_h_yz a) psi = scale (E (xv e)) (hyz a psi).
  Proof.
    destruct (gate1_anywhere R rO rI radd rmul rsub ropp Rth E E_add E_0 E_1 half half_2 ta tb tc "H_YZ" "h_yz" hyz_D hyz_row hyz_doc)
      as (g & e & Hg & _ & H).
    rewrite hyz_fn in Hg. injection Hg as <-. exists e. intros a psi. apply H.
  Qed.
  Lemma U_rz a e psi : U (g_r_z a e) psi = scale (E (xv (ehalf (eneg e)))) (zph e a psi).
  Proof. unfold g_r_z. rewrite (U_app R rO rI radd rmul rsub ropp Rth E half ta tb tc), U_spider, U_phase. reflexivity. Qed.
  Lemma U_rx a e psi : U (g_r_x a e) psi = scale (E (xv (ehalf (eneg e)))) (xph e a psi).
  Proof. unfold g_r_x. rewrite (U_app R rO rI radd rmul rsub ropp Rth E half ta tb tc), U_spider, U_phase. reflexivity. Qed.
  Lemma zph_scale e a c psi : zph e a (scale c psi) = scale c (zph e a psi).
  Proof. apply (scale_app1 R rO rI radd rmul rsub ropp Rth). Qed.
  Lemma xph_scale e a c psi : xph e a (scale c psi) = scale c (xph e a psi).
  Proof. apply (scale_app1 R rO rI radd rmul rsub ropp Rth). Qed.
  Lemma hyz_scale a c psi : hyz a (scale c psi) = scale c (hyz a psi).
  Proof. apply (scale_app1 R rO rI radd rmul rsub ropp Rth). Qed.
  Lemma ry_scale e a c psi : ry e a (scale c psi) = scale c (ry e a psi).
  Proof. unfold ry. rewrite hyz_scale, zph_scale, hyz_scale. reflexivity. Qed.
  Lemma U_ry : exists q : Qc, forall a e psi, U (g_r_y a e) psi = scale (E (q + xv (ehalf (eneg e)))) (ry e a psi).
  Proof.
    destruct U_hyz as (h & Hh). exists (xv h + xv h)%Qc. intros a e psi. unfold g_r_y.
    rewrite !(U_app R rO rI radd rmul rsub ropp Rth E half ta tb tc). rewrite (Hh a psi).
    rewrite (U_scale R rO rI radd rmul rsub ropp Rth E half ta tb tc), U_rz.
    rewrite !(U_scale R rO rI radd rmul rsub ropp Rth E half ta tb tc), Hh.
    unfold ry. rewrite !(scale_scale R rO rI radd rmul rsub ropp Rth). f_equal. rewrite !E_add. ring.
  Qed.
  Lemma spec_cu_scale name angles a c psi : spec_cu name angles a (scale c psi) = scale c (spec_cu name angles a psi).
  Proof.
    unfold spec_cu. destruct angles as [|th [|ph [|la [|? ?]]]]; try reflexivity.
    - destruct (String.eqb name "T"); [apply zph_scale|]. destruct (String.eqb name "T_DAG"); [apply zph_scale | reflexivity].
    - destruct (String.eqb name "R_Z"); [apply zph_scale|]. destruct (String.eqb name "R_X"); [apply xph_scale|].
      destruct (String.eqb name "R_Y"); [apply ry_scale | reflexivity].
    - destruct (String.eqb name "U3"); [|reflexivity]. rewrite zph_scale, ry_scale, zph_scale. reflexivity.
  Qed.

  Theorem cu_sound name angles a ops : cu_ops name angles a = Some ops ->
    exists q : Qc, forall psi, U ops psi = scale (E q) (spec_cu name angles a psi).
  Proof.
    unfold cu_ops, spec_cu. destruct angles as [|th [|ph [|la [|? ?]]]]; try discriminate.
    - destruct (String.eqb name "T"); [intros [= <-]; exists 0%Qc; intro psi; unfold g_t; rewrite U_spider, E_0; symmetry; apply (scale_one R rO rI radd rmul rsub ropp Rth)|].
      destruct (String.eqb name "T_DAG"); [|discriminate]. intros [= <-]. exists 0%Qc. intro psi. unfold g_t_dag. rewrite U_spider, E_0. symmetry. apply (scale_one R rO rI radd rmul rsub ropp Rth).
    - destruct (String.eqb name "R_Z"); [intros [= <-]; eexists; intro psi; apply U_rz|].
      destruct (String.eqb name "R_X"); [intros [= <-]; eexists; intro psi; apply U_rx|].
      destruct (String.eqb name "R_Y"); [|discriminate]. intros [= <-]. destruct U_ry as (q & Hq). eexists. intro psi. apply Hq.
    - destruct (String.eqb name "U3"); [|discriminate]. intros [= <-]. destruct U_ry as (q & Hq).
      exists (xv (ehalf (eneg la)) + (q + xv (ehalf (eneg th))) + xv (ehalf (eneg ph)) + xv (ehalf (eadd ph la)))%Qc. intro psi. unfold g_u3.
      rewrite !(U_app R rO rI radd rmul rsub ropp Rth E half ta tb tc). rewrite (U_rz a la psi).
      rewrite (U_scale R rO rI radd rmul rsub ropp Rth E half ta tb tc), Hq.
      rewrite !(U_scale R rO rI radd rmul rsub ropp Rth E half ta tb tc), U_rz.
      rewrite !(U_scale R rO rI radd rmul rsub ropp Rth E half ta tb tc), U_phase.
      rewrite !(scale_scale R rO rI radd rmul rsub ropp Rth). f_equal. rewrite !E_add. ring.
  Qed.

  Lemma hyz_unitary a : forallb unitary_op (g_h_yz a) = true. Proof. reflexivity. Qed.
  Lemma cu_unitary name angles a ops : cu_ops name angles a = Some ops -> forallb unitary_op ops = true.
  Proof.
    unfold cu_ops. destruct angles as [|th [|ph [|la [|? ?]]]]; try discriminate.
    - destruct (String.eqb name "T"); [intros [= <-]; reflexivity|]. destruct (String.eqb name "T_DAG"); [intros [= <-]; reflexivity | discriminate].
    - destruct (String.eqb name "R_Z"); [intros [= <-]; reflexivity|]. destruct (String.eqb name "R_X"); [intros [= <-]; reflexivity|].
      destruct (String.eqb name "R_Y"); [intros [= <-]; reflexivity | discriminate].
    - destruct (String.eqb name "U3"); [intros [= <-]; reflexivity | discriminate].
  Qed.
  Lemma cu_wf n name angles a ops : cu_ops name angles a = Some ops -> Nat.ltb a n = true -> forallb (wf_op n) ops = true.
  Proof.
    unfold cu_ops. intros Ho Ha. destruct angles as [|th [|ph [|la [|? ?]]]]; try discriminate.
    - destruct (String.eqb name "T"); [injection Ho as <-; cbn -[Nat.ltb]; rewrite ?Ha; reflexivity|].
      destruct (String.eqb name "T_DAG"); [injection Ho as <-; cbn -[Nat.ltb]; rewrite ?Ha; reflexivity | discriminate].
    - destruct (String.eqb name "R_Z"); [injection Ho as <-; cbn -[Nat.ltb]; rewrite ?Ha; reflexivity|].
      destruct (String.eqb name "R_X"); [injection Ho as <-; cbn -[Nat.ltb]; rewrite ?Ha; reflexivity|].
      destruct (String.eqb name "R_Y"); [injection Ho as <-; cbn -[Nat.ltb]; rewrite ?Ha; reflexivity | discriminate].
    - destruct (String.eqb name "U3"); [injection Ho as <-; cbn -[Nat.ltb]; rewrite ?Ha; reflexivity | discriminate].
  Qed.

  (* anywhere in a circuit with collapses *)
  Theorem cu_in_context name angles a ops : cu_ops name angles a = Some ops ->
    exists q : Qc, forall b t, kfinal (krun b ops t) = scale (E q * uM t ops) (spec_cu name angles a (kfinal t)).
  Proof.
    intro Ho. destruct (cu_sound name angles a ops Ho) as (q & Hq). exists q. intros b t.
    rewrite (krun_unitary_final R rO rI radd rmul rsub ropp Rth E half ta tb tc b ops t (cu_unitary name angles a ops Ho)), Hq.
    rewrite (scale_scale R rO rI radd rmul rsub ropp Rth). f_equal. ring.
  Qed.
End KRot.
