(* MPP as a projector, for products of ANY length.  The circuit that the MPP program is (Proofs/KrausCircuit.mpp_is_circuit):
   reset aux, H aux, one controlled Pauli per factor with aux as control, H aux, measure aux -- composed from the DOCUMENTED
   operators of these instructions -- equals: set the auxiliary lane to the outcome o and apply (1 + (-1)^o P)/2 to the data
   lanes, P the ordered product of the factors, applied to the state with the auxiliary lane read at the silent bit. *)
From Coq Require Import ZArith QArith Qcanon List Bool String Lia Ring Ring_theory FunctionalExtensionality.
Import ListNotations.
Require Import TV.Base.EP TV.Base.EPSound TV.Base.Amp TV.Model.Lane TV.Spec.Born TV.gen.Gen_instructions TV.gen.Gen_stim_gates
  TV.Model.GateCheck TV.Model.InstrCheck TV.Model.KrausCheck TV.Proofs.GateProofs TV.Proofs.CircuitProofs TV.Proofs.CircuitTheorem
  TV.Proofs.DenseBridge TV.Proofs.KrausSem TV.Proofs.KrausTheorem TV.Proofs.KrausGates TV.Proofs.KrausFeedback TV.Proofs.KrausCircuit.
Set Default Timeout 200.

(* Stim's matrices of CX, CY, CZ are the controlled Paulis, control = first target (regenerated from the installed Stim) *)
Definition ctrl_cols (P : pauli) : list vec :=
  let '(m00, m01, m10, m11) := pauli_m P in [[p1; p0; p0; p0]; [p0; m00; p0; m10]; [p0; p0; p1; p0]; [p0; m01; p0; m11]].
Definition ctrl_name (P : pauli) : string := match P with PX => "CX" | PY => "CY" | PZ => "CZ" end.
Lemma ctrl_docs_ok : forallb (fun P => match doc_of (ctrl_name P) with Some (2%nat, D) => meq D (ctrl_cols P) | _ => false end) [PX; PY; PZ] = true.
Proof. vm_compute. reflexivity. Qed.
(* H, the |0><s| of a Z reset, the Z projector: the documented 2x2 matrices, entry by entry *)
Definition mH_cols : list vec := [[psqrt2inv; psqrt2inv]; [psqrt2inv; pneg psqrt2inv]].
Lemma h_doc_ok : match doc_of "H" with Some (1%nat, D) => meq D mH_cols | _ => false end = true.
Proof. vm_compute. reflexivity. Qed.

Section KMpp.
  Variable R : Type.
  Variables (rO rI : R) (radd rmul rsub : R -> R -> R) (ropp : R -> R).
  Variable Rth : ring_theory rO rI radd rmul rsub ropp eq.
  Add Ring RringKM : Rth.
  Variable E : Qc -> R.
  Hypothesis E_add : forall a b, E (a + b)%Qc = rmul (E a) (E b).
  Hypothesis E_0 : E 0%Qc = rI.
  Hypothesis E_1 : E 1%Qc = ropp rI.
  Variable half : R.
  Hypothesis half_2 : radd half half = rI.
  Variables ta tb tc : Qc.
  Notation ev := (eval R rO rI radd rmul ropp E half ta tb tc).
  Notation state := (Amp.state R).
  Notation aapp1 := (Amp.app1 R radd rmul).
  Notation aapp2 := (Amp.app2 R radd rmul).
  Notation scale := (Amp.scale R rmul).
  Notation delta := (Amp.delta R rO rI).
  Notation m2f_of := (m2f_of R rO rI radd rmul ropp E half ta tb tc).
  Notation m2f_doc := (m2f_doc R rO rI radd rmul ropp E half ta tb tc).
  Notation m4f_of := (m4f_of R rO rI radd rmul ropp E half ta tb tc).
  Notation gapp_doc := (gapp_doc R rO rI radd rmul ropp E half ta tb tc).
  Notation kst := (kst R).
  Notation cspec := (cspec R rO rI radd rmul ropp E half ta tb tc).
  Notation spec_instr := (spec_instr R rO rI radd rmul ropp E half ta tb tc).
  Notation krun := (krun R rO rI radd rmul ropp E half ta tb tc).
  Infix "+" := radd.
  Infix "*" := rmul.
  Let ev_0 := eval_p0 R rO rI radd rmul rsub ropp Rth E E_add E_0 E_1 half half_2 ta tb tc.
  Let ev_1 := eval_p1 R rO rI radd rmul rsub ropp Rth E E_add E_0 E_1 half half_2 ta tb tc.
  Let msound := meq_sound R rO rI radd rmul rsub ropp Rth E E_add E_0 E_1 half half_2 ta tb tc.

  Definition pauli_f (P : pauli) := m2f_of (pauli_m P).

  (* the documented controlled Pauli: identity when the control lane holds 0, the Pauli on the target when it holds 1 *)
  Lemma ctrl_doc_apply P a q psi : a <> q ->
    gapp_doc (GA2 (ctrl_name P) a q) psi = fun x => if x a then aapp1 (pauli_f P) q psi x else psi x.
  Proof.
    intro Haq. pose proof ctrl_docs_ok as Hok. rewrite forallb_forall in Hok.
    assert (HP : In P [PX; PY; PZ]) by (destruct P; cbn; tauto). specialize (Hok P HP).
    cbn [CircuitTheorem.gapp_doc]. destruct (doc_of (ctrl_name P)) as [[[|[|[|n]]] D]|]; try discriminate Hok.
    apply functional_extensionality; intro x.
    assert (Hent : forall r1 r2 c1 c2, m4f_of D r1 r2 c1 c2 = delta r1 c1 * (if c1 then pauli_f P r2 c2 else delta r2 c2)).
    { intros r1 r2 c1 c2. unfold CircuitProofs.m4f_of. rewrite (msound _ _ Hok). unfold ctrl_cols, pauli_f, CircuitProofs.m2f_of, Amp.delta.
      destruct (pauli_m P) as [[[m00 m01] m10] m11].
      destruct r1, r2, c1, c2; cbn [b2n Nat.add Nat.mul entry nth Bool.eqb]; rewrite ?ev_0, ?ev_1; ring. }
    unfold Amp.app2, Amp.app1, Amp.sum2. rewrite !Hent. unfold Amp.delta.
    assert (U1 : forall c, Amp.upd (Amp.upd x a (x a)) q c = Amp.upd x q c) by (intro c; rewrite upd_id; reflexivity).
    assert (U2 : Amp.upd x q (x q) = x) by apply upd_id.
    destruct (x a) eqn:Ea; cbn [Bool.eqb].
    - rewrite !U1. ring.
    - rewrite !U1. transitivity (psi (Amp.upd x q (x q))); [|rewrite U2; reflexivity]. destruct (x q); cbn [Bool.eqb]; ring.
  Qed.

  (* the ordered product of the factors, on amplitude functions *)
  Definition appP (ps : list (pauli * nat)) (psi : state) : state := fold_left (fun s pq => aapp1 (pauli_f (fst pq)) (snd pq) s) ps psi.
  Definition indep (aux : nat) (G : state) : Prop := forall y c, G (Amp.upd y aux c) = G y.
  Definition off (aux : nat) (ps : list (pauli * nat)) : Prop := Forall (fun pq : pauli * nat => snd pq <> aux) ps.

  Lemma app1_indep M q aux G : q <> aux -> indep aux G -> indep aux (aapp1 M q G).
  Proof.
    intros Hq HG y c. unfold Amp.app1, Amp.sum2. rewrite (upd_other y aux q c) by auto.
    rewrite !(upd_comm y aux q) by auto. rewrite !HG. reflexivity.
  Qed.
  Lemma appP_indep aux ps : off aux ps -> forall G, indep aux G -> indep aux (appP ps G).
  Proof.
    unfold appP. induction ps as [|[P q] ps IH]; intros Ho G HG; cbn [fold_left fst snd]; [exact HG|].
    apply Forall_cons_iff in Ho; destruct Ho as [Hq Hr]. cbn [snd] in Hq. apply IH; [exact Hr|]. apply app1_indep; [exact Hq | exact HG].
  Qed.
  (* a one-lane operator on a data lane acts separately on the two halves selected by the auxiliary lane *)
  Lemma app1_if M q aux (f g : state) : q <> aux ->
    aapp1 M q (fun x => if x aux then f x else g x) = fun x => if x aux then aapp1 M q f x else aapp1 M q g x.
  Proof.
    intro Hq. apply functional_extensionality; intro x. unfold Amp.app1, Amp.sum2. rewrite !(upd_other x q aux) by auto.
    destruct (x aux); reflexivity.
  Qed.
  (* the chain of controlled Paulis (control = aux) *)
  Lemma ctrl_chain aux ps : off aux ps -> forall psi,
    fold_left (fun s pq => gapp_doc (GA2 (ctrl_name (fst pq)) aux (snd pq)) s) ps psi = fun x => if x aux then appP ps psi x else psi x.
  Proof.
    induction ps as [|[P q] ps IH]; intros Ho psi; cbn [fold_left fst snd].
    - apply functional_extensionality; intro x. unfold appP. cbn [fold_left]. destruct (x aux); reflexivity.
    - apply Forall_cons_iff in Ho; destruct Ho as [Hq Hr]. cbn [snd] in Hq. rewrite (ctrl_doc_apply P aux q psi) by auto. rewrite (IH Hr).
      apply functional_extensionality; intro x. unfold appP. cbn [fold_left fst snd]. fold (appP ps (aapp1 (pauli_f P) q psi)).
      destruct (x aux) eqn:Ea; [|reflexivity].
      (* appP ps of the if-function, at a point with aux = 1, is appP ps of its `then` branch *)
      assert (G : forall (f g : state) y, y aux = true -> appP ps (fun x => if x aux then f x else g x) y = appP ps f y).
      { clear -Hr. intros f g. revert f g. unfold appP. induction ps as [|[P' q'] ps IH]; intros f g y Hy; cbn [fold_left fst snd]; [rewrite Hy; reflexivity|].
        apply Forall_cons_iff in Hr; destruct Hr as [Hq' Hr']. cbn [snd] in Hq'. rewrite (app1_if _ q' aux f g Hq'). apply (IH Hr'). exact Hy. }
      apply G. exact Ea.
  Qed.

  (* ---- the five steps on a state of the form [aux = 0] * G, G independent of aux ---- *)
  Notation hh := (ev psqrt2inv).
  Lemma hh_half : hh * hh = half.
  Proof.
    transitivity (ev (pmul psqrt2inv psqrt2inv)); [symmetry; apply (eval_pmul R rO rI radd rmul rsub ropp Rth E E_add E_0 E_1 half half_2 ta tb tc)|].
    transitivity (ev phalf); [|apply (eval_phalf R rO rI radd rmul rsub ropp Rth E E_0 half ta tb tc)].
    apply (peq_sound R rO rI radd rmul rsub ropp Rth E E_add E_0 E_1 half half_2 ta tb tc). vm_compute. reflexivity.
  Qed.
  Lemma h_doc_entries : forall r c, m2f_doc (match doc_of "H" with Some (_, D) => D | None => [] end) r c = if (r && c)%bool then ropp hh else hh.
  Proof.
    pose proof h_doc_ok as Hok. destruct (doc_of "H") as [[[|[|n]] D]|]; try discriminate Hok.
    intros r c. unfold CircuitProofs.m2f_doc. rewrite (msound _ _ Hok). unfold mH_cols.
    destruct r, c; cbn [b2n entry nth andb]; try reflexivity.
    apply (eval_pneg R rO rI radd rmul rsub ropp Rth E half ta tb tc).
  Qed.
  Definition sgn (o : bool) : R := if o then ropp rI else rI.

  Theorem mpp_steps aux ps (o : bool) (G : state) : off aux ps -> indep aux G ->
    let D := match doc_of "H" with Some (_, D) => D | None => [] end in
    aapp1 (m2f_of (proj_m PZ o)) aux
      (aapp1 (m2f_doc D) aux
        (fold_left (fun s pq => gapp_doc (GA2 (ctrl_name (fst pq)) aux (snd pq)) s) ps
          (aapp1 (m2f_doc D) aux (fun y => if y aux then rO else G y))))
    = fun x => if Bool.eqb (x aux) o then half * (G x + sgn o * appP ps G x) else rO.
  Proof.
    intros Ho HG D. rewrite (ctrl_chain aux ps Ho).
    pose proof (appP_indep aux ps Ho) as HP.
    apply functional_extensionality; intro x.
    (* first H: the state becomes hh * G, independent of aux *)
    assert (H1 : aapp1 (m2f_doc D) aux (fun y => if y aux then rO else G y) = fun y => hh * G y).
    { apply functional_extensionality; intro y. unfold Amp.app1, Amp.sum2. rewrite !upd_same, !h_doc_entries, HG. cbn [andb].
      rewrite andb_false_r. ring. }
    rewrite H1.
    assert (Hs : indep aux (fun y => hh * G y)) by (intros y c; rewrite HG; reflexivity).
    assert (HPs : forall y, appP ps (fun y => hh * G y) y = hh * appP ps G y).
    { intro y. unfold appP. clear -Rth. revert G y. induction ps as [|[P q] ps IH]; intros G y; cbn [fold_left fst snd]; [reflexivity|].
      rewrite <- IH. f_equal. apply functional_extensionality; intro z. unfold Amp.app1, Amp.sum2. ring. }
    unfold Amp.app1 at 1 2. unfold Amp.sum2. rewrite !upd_same, !upd_upd, !h_doc_entries.
    rewrite !HPs. rewrite !(HP G HG), !HG.
    unfold CircuitProofs.m2f_of, proj_m, sgn. pose proof hh_half as Hh.
    destruct (x aux), o; cbn [andb Bool.eqb]; rewrite ?ev_0, ?ev_1;
      repeat match goal with |- context [hh * hh] => rewrite Hh end.
    all: try (transitivity (rO); [ring|reflexivity]).
    all: try ring.
    all: match goal with |- _ = half * ?z => transitivity ((hh * hh) * z); [ring | rewrite Hh; reflexivity] end.
  Qed.

  (* ---- the circuit of an MPP, composed from the documented operators, is the projector ---- *)
  Notation kstep := (kstep R rO rI radd rmul ropp E half ta tb tc).
  Lemma unitary_run_nrec b ops : forallb unitary_op ops = true -> forall t, knrec R (krun b ops t) = knrec R t.
  Proof.
    unfold KrausSem.krun. induction ops as [|o ops IH]; intros Hu t; cbn [fold_left forallb] in *; [reflexivity|].
    apply andb_true_iff in Hu. destruct Hu as [H1 H2]. rewrite (IH H2).
    apply (unitary_keeps R rO rI radd rmul ropp E half ta tb tc 8 b o t H1).
  Qed.
  Lemma reset_run_nrec b aux t : knrec R (krun b (g_r aux) t) = knrec R t.
  Proof.
    unfold KrausSem.krun, g_r. cbn [fold_left KrausSem.kstep]. destruct (negb (kex R t aux)); [reflexivity|]. cbv zeta.
    unfold KrausSem.kdo_meas, KrausSem.kensure. destruct (kex R t aux); cbn [knrec ksetcol ksetpsi ksetk ksetex kcnt kcol];
      repeat match goal with |- context [match ?c with CZc => _ | CXc => _ end] => destruct c end; reflexivity.
  Qed.
  Definition cg_ctrl (aux : nat) (pq : pauli * nat) : cinstr := CG (GA2 (match fst pq with PX => "CX" | PY => "CY" | PZ => "CZ" end) aux (snd pq)).
  Lemma cspec_ctrl b aux ps rest : off aux ps -> forall (sk : kst) psi,
    exists sk', cspec b sk (map (cg_ctrl aux) ps ++ rest) psi
                = cspec b sk' rest (fold_left (fun s pq => gapp_doc (GA2 (ctrl_name (fst pq)) aux (snd pq)) s) ps psi)
                /\ knrec R sk' = knrec R sk.
  Proof.
    induction ps as [|[P q] ps IH]; intros Ho sk psi; cbn [map app fold_left fst snd].
    - exists sk. split; reflexivity.
    - apply Forall_cons_iff in Ho; destruct Ho as [Hq Hr]. cbn [snd] in Hq.
      assert (Hg : exists o, cinstr_ops (cg_ctrl aux (P, q)) = Some o /\ forallb unitary_op o = true).
      { assert (He : Nat.eqb aux q = false) by (apply Nat.eqb_neq; auto).
        assert (Hx : gapp_ops (GA2 (ctrl_name P) aux q) = Some (match P with PX => g_cnot aux q None | PY => g_cy aux q None | PZ => g_cz aux q None end))
          by (destruct P; cbn [gapp_ops ctrl_name]; rewrite He; vm_compute; reflexivity).
        exists (match P with PX => g_cnot aux q None | PY => g_cy aux q None | PZ => g_cz aux q None end). split; [destruct P; exact Hx|]. apply (gapp_unitary _ _ Hx). }
      destruct Hg as (o & Ho1 & Ho2).
      cbn [KrausCircuit.cspec]. rewrite Ho1.
      destruct (IH Hr (krun KrausGates.b00 o sk) (spec_instr b sk (cg_ctrl aux (P, q)) psi)) as (sk' & Hc & Hn).
      exists sk'. split.
      + rewrite Hc. unfold cg_ctrl. cbn [KrausCircuit.spec_instr fst snd]. destruct P; reflexivity.
      + rewrite Hn. apply unitary_run_nrec. exact Ho2.
  Qed.

  Theorem mpp_projector b (sk : kst) aux ps inv psi : off aux ps ->
    (kex R sk aux = false -> forall y, y aux = true -> psi y = rO) ->
    let s := bit (bsil b) (knsil R sk) in
    let o := xorb (bit (brec b) (knrec R sk)) inv in
    let G : state := fun y => psi (Amp.upd y aux (if kex R sk aux then s else false)) in
    cspec b sk (mpp_circuit aux ps inv) psi = fun x => if Bool.eqb (x aux) o then half * (G x + sgn o * appP ps G x) else rO.
  Proof.
    intros Ho Hsup s o G.
    assert (HG : indep aux G) by (intros y c; unfold G; rewrite upd_upd; reflexivity).
    unfold mpp_circuit. change (map (fun pq : pauli * nat => CG (GA2 match fst pq with PX => "CX"%string | PY => "CY"%string | PZ => "CZ"%string end aux (snd pq))) ps)
      with (map (cg_ctrl aux) ps).
    cbn [app KrausCircuit.cspec].
    assert (Hr : cinstr_ops (CR "r" aux) = Some (g_r aux)) by (vm_compute; reflexivity). rewrite Hr.
    assert (Hh : cinstr_ops (CG (GA1 "H" aux)) = Some [OH aux]) by (vm_compute; reflexivity). rewrite Hh.
    set (sk1 := krun KrausGates.b00 (g_r aux) sk). set (sk2 := krun KrausGates.b00 [OH aux] sk1).
    destruct (cspec_ctrl b aux ps [CG (GA1 "H" aux); CM "m" inv aux] Ho sk2
                (spec_instr b sk1 (CG (GA1 "H" aux)) (spec_instr b sk (CR "r" aux) psi))) as (sk3 & Hc & Hn3).
    rewrite Hc. cbn [KrausCircuit.cspec]. rewrite Hh.
    assert (Hm : cinstr_ops (CM "m" inv aux) = Some (g_m aux qz inv)) by (destruct inv; vm_compute; reflexivity). rewrite Hm.
    set (sk4 := krun KrausGates.b00 [OH aux] sk3).
    assert (Hn4 : knrec R sk4 = knrec R sk).
    { unfold sk4. rewrite (unitary_run_nrec KrausGates.b00 [OH aux] eq_refl), Hn3. unfold sk2. rewrite (unitary_run_nrec KrausGates.b00 [OH aux] eq_refl).
      unfold sk1. apply reset_run_nrec. }
    (* the documented operators of the five steps *)
    assert (S1 : spec_instr b sk (CR "r" aux) psi = fun y => if y aux then rO else G y).
    { cbn [KrausCircuit.spec_instr]. change (assoc "r" reset_fns) with (Some (PZ, @g_r nat)). cbv beta iota.
      apply functional_extensionality; intro y. unfold Amp.app1, Amp.sum2, spec_reset_m, G.
      destruct (kex R sk aux) eqn:Ex.
      - unfold KrausTheorem.window. cbn [bsil bit nth]. fold s. unfold CircuitProofs.m2f_of, reset_m.
        destruct (y aux), s; rewrite ?ev_0, ?ev_1; ring.
      - unfold prep_m, mI, CircuitProofs.m2f_of. destruct (y aux) eqn:Ey; rewrite ?ev_0, ?ev_1.
        + rewrite (Hsup eq_refl (Amp.upd y aux true)) by apply upd_same. ring.
        + ring. }
    assert (S2 : forall sk' phi, spec_instr b sk' (CG (GA1 "H" aux)) phi = aapp1 (m2f_doc (match doc_of "H" with Some (_, D) => D | None => [] end)) aux phi).
    { intros sk' phi. cbn [KrausCircuit.spec_instr CircuitTheorem.gapp_doc]. pose proof h_doc_ok as Hok.
      destruct (doc_of "H") as [[n D]|]; [reflexivity | discriminate Hok]. }
    assert (S5 : forall phi, spec_instr b sk4 (CM "m" inv aux) phi = aapp1 (m2f_of (proj_m PZ o)) aux phi).
    { intro phi. cbn [KrausCircuit.spec_instr]. change (assoc "m" meas_fns) with (Some (PZ, false, @g_m nat)). cbv beta iota.
      unfold spec_meas_m, KrausTheorem.window. cbn [brec bit nth]. rewrite Hn4. reflexivity. }
    rewrite S5, !S2, S1.
    apply (mpp_steps aux ps o G Ho HG).
  Qed.
End KMpp.
