(* C03: column layout and parity bookkeeping of detectors / observables (model: Model/Parse.v; the output
   order of build_sampling_graph is regenerated: gen/Gen_sampling_graph.v). *)
From Coq Require Import ZArith QArith List Bool Arith Lia String Permutation.
Import ListNotations.
Require Import TV.Base.EP TV.Model.Lane TV.Model.Parse TV.gen.Gen_sampling_graph.

Definition max_succ (keys : list nat) : nat := fold_left (fun m k => Nat.max m (S k)) keys 0%nat.
Lemma fold_max_ge l : forall m, (m <= fold_left (fun m k => Nat.max m (S k)) l m)%nat.
Proof. induction l as [|k l IH]; intro m; cbn [fold_left]; [lia|]. specialize (IH (Nat.max m (S k))). lia. Qed.
Lemma max_succ_bound l : forall m k, In k l -> (k < fold_left (fun m k => Nat.max m (S k)) l m)%nat.
Proof.
  induction l as [|x l IH]; intros m k Hk; [destruct Hk|]. cbn [fold_left]. destruct Hk as [->|Hk].
  - pose proof (fold_max_ge l (Nat.max m (S k))). lia.
  - apply IH. exact Hk.
Qed.
Lemma max_succ_tight l : forall m, (fold_left (fun m k => Nat.max m (S k)) l m = m \/ exists k, In k l /\ fold_left (fun m k => Nat.max m (S k)) l m = S k)%nat.
Proof.
  induction l as [|x l IH]; intro m; cbn [fold_left]; [left; reflexivity|].
  destruct (IH (Nat.max m (S x))) as [H|(k & Hk & H)].
  - rewrite H. destruct (Nat.max_spec m (S x)) as [[_ E]|[_ E]]; rewrite E; [right; exists x; split; [left; reflexivity | reflexivity] | left; reflexivity].
  - right. exists k. split; [right; exact Hk | exact H].
Qed.

(* observable output k is logical observable k, for k = 0 .. max declared index: no reordering, no gaps *)
Theorem obs_outputs_in_index_order keys : obs_output_order keys = seq 0 (max_succ keys).
Proof. reflexivity. Qed.
Theorem obs_output_count keys : List.length (obs_output_order keys) = max_succ keys.
Proof. rewrite obs_outputs_in_index_order. apply seq_length. Qed.
Theorem declared_index_has_column keys k : In k keys -> nth k (obs_output_order keys) (max_succ keys) = k.
Proof.
  intro H. rewrite obs_outputs_in_index_order. rewrite seq_nth; [reflexivity|]. apply max_succ_bound. exact H.
Qed.

(* the model's column layout = detectors in declaration order, then observables 0..K-1, K = num_observables *)
Lemma num_observables_is_max_succ s : num_observables s = max_succ (map fst (pobs s)).
Proof.
  unfold num_observables, max_succ. generalize 0%nat as m. induction (pobs s) as [|kv l IH]; intro m; cbn [fold_left map]; [reflexivity|]. apply IH.
Qed.
Theorem det_columns_layout s :
  List.length (det_columns s) = (List.length (pdets s) + num_observables s)%nat /\
  (forall j, (j < List.length (pdets s))%nat -> nth j (det_columns s) [] = nth j (pdets s) []) /\
  (forall k, (k < num_observables s)%nat -> nth (List.length (pdets s) + k) (det_columns s) [] = obs_targets s k).
Proof.
  unfold det_columns. repeat split.
  - rewrite app_length, map_length, seq_length. reflexivity.
  - intros j Hj. apply app_nth1. exact Hj.
  - intros k Hk. rewrite app_nth2 by lia. replace (List.length (pdets s) + k - List.length (pdets s))%nat with k by lia.
    rewrite (nth_indep _ [] (obs_targets s 0)) by (rewrite map_length, seq_length; exact Hk).
    rewrite map_nth. rewrite seq_nth by exact Hk. reflexivity.
Qed.

(* parities: all OBSERVABLE_INCLUDE(k) instructions accumulate; repeated targets cancel *)
Lemma parity_fold recs r : forall acc, fold_left (fun a i => xorb a (nth i r false)) recs acc = xorb acc (parity recs r).
Proof.
  unfold parity. induction recs as [|i l IH]; intro acc; cbn [fold_left]; [rewrite xorb_false_r; reflexivity|].
  rewrite (IH (xorb acc (nth i r false))). rewrite ?xorb_false_l. rewrite (IH (nth i r false)).
  destruct acc, (nth i r false), (fold_left (fun a i0 => xorb a (nth i0 r false)) l false); reflexivity.
Qed.
Theorem parity_app l1 l2 r : parity (l1 ++ l2) r = xorb (parity l1 r) (parity l2 r).
Proof. unfold parity at 1. rewrite fold_left_app. rewrite parity_fold. fold (parity l1 r). reflexivity. Qed.
Theorem parity_repeated i r : parity [i; i] r = false.
Proof. unfold parity. cbn [fold_left]. destruct (nth i r false); reflexivity. Qed.
(* a detector / observable is a set-like object over GF(2): the order of its targets is irrelevant, it is linear in the
   measurement record, and flipping ONE record bit flips it exactly when that bit is targeted an odd number of times *)
Lemma parity_cons i l r : parity (i :: l) r = xorb (nth i r false) (parity l r).
Proof. change (i :: l) with ([i] ++ l). rewrite parity_app. unfold parity at 1. cbn [fold_left]. rewrite xorb_false_l. reflexivity. Qed.
Theorem parity_perm l1 l2 r : Permutation l1 l2 -> parity l1 r = parity l2 r.
Proof.
  intro H. induction H as [|x l l' _ IH|x y l|l l' l'' _ IH1 _ IH2].
  - reflexivity.
  - rewrite !parity_cons, IH. reflexivity.
  - rewrite !parity_cons. destruct (nth x r false), (nth y r false), (parity l r); reflexivity.
  - rewrite IH1. exact IH2.
Qed.
Theorem parity_linear l r r1 r2 : (forall i, nth i r false = xorb (nth i r1 false) (nth i r2 false)) ->
  parity l r = xorb (parity l r1) (parity l r2).
Proof.
  intro H. induction l as [|i l IH]; [reflexivity|]. rewrite !parity_cons, IH, H.
  destruct (nth i r1 false), (nth i r2 false), (parity l r1), (parity l r2); reflexivity.
Qed.
Theorem parity_single_flip l j r r' : (forall i, nth i r' false = xorb (nth i r false) (Nat.eqb i j)) ->
  parity l r' = xorb (parity l r) (Nat.odd (count_occ Nat.eq_dec l j)).
Proof.
  intro H. induction l as [|i l IH]; [reflexivity|]. rewrite !parity_cons, IH, H. cbn [count_occ].
  destruct (Nat.eq_dec i j) as [E|E].
  - subst i. rewrite Nat.eqb_refl, Nat.odd_succ, <- Nat.negb_odd.
    destruct (nth j r false), (parity l r), (Nat.odd (count_occ Nat.eq_dec l j)); reflexivity.
  - apply Nat.eqb_neq in E. rewrite E.
    destruct (nth i r false), (parity l r), (Nat.odd (count_occ Nat.eq_dec l j)); reflexivity.
Qed.
Theorem det_outcome_linear s r r1 r2 : (forall i, nth i r false = xorb (nth i r1 false) (nth i r2 false)) ->
  det_outcome s r = map (fun ab => xorb (fst ab) (snd ab)) (combine (det_outcome s r1) (det_outcome s r2)).
Proof.
  intro H. unfold det_outcome. induction (det_columns s) as [|c cs IH]; [reflexivity|].
  cbn [map combine fst snd]. rewrite IH, (parity_linear c r r1 r2 H). reflexivity.
Qed.
Theorem obs_targets_accumulate dets pobs_ k recs k' nm ops :
  obs_targets (mkPS ops nm dets (pobs_ ++ [(k, recs)])) k' =
  obs_targets (mkPS ops nm dets pobs_) k' ++ (if Nat.eqb k k' then recs else []).
Proof.
  unfold obs_targets. cbn [Parse.pobs]. rewrite flat_map_app. cbn [flat_map fst snd]. rewrite app_nil_r. reflexivity.
Qed.
(* the observable's parity does not depend on the order in which the OBSERVABLE_INCLUDE instructions appear *)
Theorem obs_include_order_irrelevant ops nm dets pobs1 pobs2 k r : Permutation pobs1 pobs2 ->
  parity (obs_targets (mkPS ops nm dets pobs1) k) r = parity (obs_targets (mkPS ops nm dets pobs2) k) r.
Proof. intro H. apply parity_perm. unfold obs_targets. cbn [Parse.pobs]. apply Permutation_flat_map. exact H. Qed.
(* a record lookback rec[-k] issued after nm measurements denotes measurement nm - k; out-of-range lookbacks are rejected *)
Theorem lookback_resolution nm k : tvalue nm (TRec k) = if (Nat.leb 1 k && Nat.leb k nm)%bool then Some (nm - k)%nat else None.
Proof. reflexivity. Qed.
