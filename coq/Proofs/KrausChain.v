(* Correlated-error chains inside the composition theorem.

   One element of a chain, `E(p) P1 q1 ... Pk qk` or `ELSE_CORRELATED_ERROR(p) ...`, draws one error spider per X / Z part of
   every factor, all carrying the SAME chain bit, and appends p to the pending chain; an `E` first closes the pending chain
   (finalize_correlated_error: the chain bits become ordinary error bits).  For a given assignment of the error bits the
   element applies the Pauli product P1 q1 ... Pk qk (a Y factor as Z.X, i.e. up to the phase i) when its bit is set, and
   nothing otherwise.  The bit index is  num_error_bits + num_correlated_error_bits + rel  at the element, `rel` being the
   number of error bits other channels take before the chain is closed (Model/Parse.fix_corr).  The joint distribution of the
   chain's bits (first element that fires) is the table of C02_correlated_chain. *)
From Coq Require Import ZArith QArith Qcanon List Bool String Lia Ring Ring_theory FunctionalExtensionality.
Import ListNotations.
Require Import TV.Base.EP TV.Base.EPSound TV.Base.Amp TV.Model.Lane TV.gen.Gen_instructions
  TV.Proofs.CircuitProofs TV.Proofs.DenseBridge TV.Proofs.KrausSem TV.Proofs.KrausGates.
Set Default Timeout 200.

Definition link_ops (tg : list (pauli * nat)) (rel : Z) : list (op nat) :=
  flat_map (fun pq : pauli * nat =>
    (match fst pq with PX | PY => [OErr CXc (snd pq) rel true] | PZ => [] end) ++
    (match fst pq with PX => [] | PY | PZ => [OErr CZc (snd pq) rel true] end)) tg.
Definition ce_ops (first : bool) (tg : list (pauli * nat)) (p : Q) (rel : Z) : list (op nat) :=
  (if first then [OFinalize] else []) ++ link_ops tg rel ++ [OCorrProb p].
Definition err_op (o : op nat) : bool := match o with OErr _ _ _ true => true | _ => false end.
Lemma link_ops_err tg rel : forallb err_op (link_ops tg rel) = true.
Proof.
  unfold link_ops. induction tg as [|[P q] tg IH]; cbn [flat_map]; [reflexivity|].
  rewrite forallb_app, IH, andb_true_r. destruct P; reflexivity.
Qed.
Lemma link_ops_rel tg rel : Forall (fun o => match o with OErr _ _ r _ => r = rel | _ => True end) (link_ops tg rel).
Proof.
  unfold link_ops. induction tg as [|[P q] tg IH]; cbn [flat_map]; [constructor|].
  apply Forall_app. split; [destruct P; repeat constructor | exact IH].
Qed.
Lemma link_ops_wf n tg rel : forallb (fun pq : pauli * nat => Nat.ltb (snd pq) n) tg = true -> forallb (wf_op n) (link_ops tg rel) = true.
Proof.
  unfold link_ops. induction tg as [|[P q] tg IH]; cbn [flat_map forallb snd]; [reflexivity|]. intro H.
  apply andb_true_iff in H. destruct H as [H1 H2]. rewrite forallb_app, (IH H2), andb_true_r.
  destruct P; cbn [app forallb wf_op fst snd]; rewrite H1; reflexivity.
Qed.

Section KChain.
  Variable R : Type.
  Variables (rO rI : R) (radd rmul rsub : R -> R -> R) (ropp : R -> R).
  Variable Rth : ring_theory rO rI radd rmul rsub ropp eq.
  Add Ring RringKCh : Rth.
  Variable E : Qc -> R.
  Hypothesis E_add : forall a b, E (a + b)%Qc = rmul (E a) (E b).
  Hypothesis E_0 : E 0%Qc = rI.
  Hypothesis E_1 : E 1%Qc = ropp rI.
  Variable half : R.
  Hypothesis half_2 : radd half half = rI.
  Variables ta tb tc : Qc.
  Notation ev := (eval R rO rI radd rmul ropp E half ta tb tc).
  Notation state := (Amp.state R).
  Notation scale := (Amp.scale R rmul).
  Notation aapp1 := (Amp.app1 R radd rmul).
  Notation m2f_of := (m2f_of R rO rI radd rmul ropp E half ta tb tc).
  Notation kst := (kst R).
  Notation kstep := (kstep R rO rI radd rmul ropp E half ta tb tc).
  Notation krun := (krun R rO rI radd rmul ropp E half ta tb tc).
  Notation kensure := (kensure R rO rI radd rmul ropp E half ta tb tc).
  Notation kdo_err := (kdo_err R rO rI radd rmul ropp E half ta tb tc).
  Notation kfinal := (kfinal R rmul).
  Notation emult := (emult R rO rI radd rmul ropp E half ta tb tc).
  Notation sq2 := (sq2 R rO rI radd rmul ropp E half ta tb tc).
  Notation skel_eq := (skel_eq R).
  Infix "+" := radd.
  Infix "*" := rmul.

  (* the operator of one error spider and of a list of them, for a set chain bit *)
  Definition err_mat (c : colour) : m2 := match c with CXc => mX | CZc => mZ end.
  Fixpoint link_spec (ops : list (op nat)) (psi : state) : state :=
    match ops with
    | [] => psi
    | OErr c q _ _ :: r => link_spec r (aapp1 (m2f_of (err_mat c)) q psi)
    | _ :: r => link_spec r psi
    end.
  (* the power of sqrt 2 collected when error spiders create lanes: depends on the flags only *)
  Fixpoint eM (t : kst) (ops : list (op nat)) : R :=
    match ops with
    | [] => rI
    | OErr c q rel corr :: r => emult (kex R t) q * eM (kstep 8 b00 t (OErr c q rel corr)) r
    | o :: r => eM (kstep 8 b00 t o) r
    end.
  Lemma sq2_eM ops : forall t, sq2 (eM t ops).
  Proof.
    induction ops as [|o ops IH]; intro t; cbn [eM]; [constructor|].
    destruct o; try apply IH. apply sq2_mul; [apply sq2_emult | apply IH].
  Qed.
  Lemma eM_skel ops : forall t t', skel_eq t t' -> eM t ops = eM t' ops.
  Proof.
    induction ops as [|o ops IH]; intros t t' H; cbn [eM]; [reflexivity|].
    pose proof (skel_step R rO rI radd rmul ropp E half ta tb tc b00 b00 8 o t t' H) as Hs.
    destruct o; try (apply IH; exact Hs). destruct H as (Kex & _). rewrite Kex. f_equal. apply IH. exact Hs.
  Qed.

  Lemma link_spec_scale ops : forall c psi, link_spec ops (scale c psi) = scale c (link_spec ops psi).
  Proof.
    induction ops as [|o ops IH]; intros c psi; cbn [link_spec]; [reflexivity|].
    destruct o; try apply IH. rewrite (scale_app1 R rO rI radd rmul rsub ropp Rth). apply IH.
  Qed.

  (* one error spider with a resolved bit *)
  Lemma kdo_err_final b t c q idx :
    kfinal (kdo_err b t c q idx) = scale (emult (kex R t) q) (if bit (berr b) idx then aapp1 (m2f_of (err_mat c)) q (kfinal t) else kfinal t).
  Proof.
    unfold KrausSem.kdo_err, KrausSem.kfinal. destruct (kensure_k R rO rI radd rmul rsub ropp Rth E half ta tb tc t q) as [A1 A2].
    destruct (bit (berr b) idx); cbn [kk kpsi ksetcol ksetpsi]; rewrite A1, ?A2.
    - rewrite (scale_app1 R rO rI radd rmul rsub ropp Rth), (scale_scale R rO rI radd rmul rsub ropp Rth). destruct c; reflexivity.
    - rewrite (scale_scale R rO rI radd rmul rsub ropp Rth). reflexivity.
  Qed.
  Lemma kdo_err_counters b t c q idx : knerr R (kdo_err b t c q idx) = knerr R t /\ kncorr R (kdo_err b t c q idx) = kncorr R t.
  Proof.
    unfold KrausSem.kdo_err, KrausSem.kensure. destruct (kex R t q), (bit (berr b) idx); cbn [knerr kncorr ksetcol ksetpsi ksetex ksetk]; split; reflexivity.
  Qed.

  (* a list of chain error spiders that all read the same relative index *)
  Theorem link_run b ops rel : forallb err_op ops = true -> Forall (fun o => match o with OErr _ _ r _ => r = rel | _ => True end) ops ->
    forall t, kfinal (krun b ops t)
              = scale (eM t ops) (if bit (berr b) (knerr R t + kncorr R t + Z.to_nat rel)%nat then link_spec ops (kfinal t) else kfinal t)
              /\ knerr R (krun b ops t) = knerr R t /\ kncorr R (krun b ops t) = kncorr R t.
  Proof.
    unfold KrausSem.krun. induction ops as [|o ops IH]; intros He Hr t; cbn [fold_left eM link_spec forallb] in *.
    - split; [|split; reflexivity]. destruct (bit _ _); symmetry; apply (scale_one R rO rI radd rmul rsub ropp Rth).
    - apply andb_true_iff in He. destruct He as [H1 H2]. inversion Hr as [|? ? Hr1 Hr2]; subst.
      destruct o as [| c q r corr | | | | | | | | | | | | |]; try discriminate H1. destruct corr; [|discriminate H1]. cbn in Hr1. subst r.
      set (idx := (knerr R t + kncorr R t + Z.to_nat rel)%nat).
      change (kstep 8 b t (OErr c q rel true)) with (kdo_err b t c q idx).
      destruct (kdo_err_counters b t c q idx) as [C1 C2].
      destruct (IH H2 Hr2 (kdo_err b t c q idx)) as (F & N1 & N2).
      rewrite N1, N2, C1, C2. split; [|split; reflexivity].
      rewrite F, C1, C2. fold idx. rewrite (kdo_err_final b t c q idx).
      assert (HeM : eM (kstep 8 b00 t (OErr c q rel true)) ops = eM (kdo_err b t c q idx) ops).
      { apply eM_skel. change (kdo_err b t c q idx) with (kstep 8 b t (OErr c q rel true)).
        apply (skel_step R rO rI radd rmul ropp E half ta tb tc). apply skel_refl. }
      rewrite HeM. destruct (bit (berr b) idx).
      + rewrite link_spec_scale, (scale_scale R rO rI radd rmul rsub ropp Rth). f_equal. ring.
      + rewrite (scale_scale R rO rI radd rmul rsub ropp Rth). f_equal. ring.
  Qed.

  (* ---- one element of a chain ---- *)
  (* its operator: the Pauli product when the chain bit is set *)
  Definition spec_ce (b : bits) (sk : kst) (tg : list (pauli * nat)) (rel : Z) (psi : state) : state :=
    if bit (berr b) (knerr R sk + kncorr R sk + Z.to_nat rel)%nat then link_spec (link_ops tg rel) psi else psi.
  Lemma spec_ce_scale b sk tg rel c psi : spec_ce b sk tg rel (scale c psi) = scale c (spec_ce b sk tg rel psi).
  Proof. unfold spec_ce. destruct (bit _ _); [apply link_spec_scale | reflexivity]. Qed.

  Lemma kfinalize_final t : kfinal (kfinalize R t) = kfinal t.
  Proof. unfold KrausSem.kfinalize. destruct (kncorr R t); reflexivity. Qed.
  Lemma kfinalize_sum t : (knerr R (kfinalize R t) + kncorr R (kfinalize R t) = knerr R t + kncorr R t)%nat.
  Proof. unfold KrausSem.kfinalize. destruct (kncorr R t) eqn:Hc; cbn [knerr kncorr kcnt]; lia. Qed.

  Lemma corrprob_final b p x : kfinal (fold_left (kstep 8 b) [OCorrProb p] x) = kfinal x.
  Proof. reflexivity. Qed.

  Theorem ce_sound first tg p rel (sk : kst) :
    exists C, sq2 C /\ forall b t, skel_eq t sk ->
      kfinal (krun b (ce_ops first tg p rel) t) = scale (E 0%Qc * C) (spec_ce b sk tg rel (kfinal t)).
  Proof.
    set (sk1 := if first then kfinalize R sk else sk).
    exists (eM sk1 (link_ops tg rel)). split; [apply sq2_eM|]. intros b t Hs.
    unfold ce_ops, KrausSem.krun. rewrite !fold_left_app.
    set (t1 := fold_left (kstep 8 b) (if first then [OFinalize] else []) t).
    assert (Ht1 : t1 = if first then kfinalize R t else t) by (unfold t1; destruct first; reflexivity).
    assert (Hs1 : skel_eq t1 sk1).
    { rewrite Ht1. unfold sk1. destruct first; [|exact Hs].
      change (kfinalize R t) with (kstep 8 b t OFinalize). change (kfinalize R sk) with (kstep 8 b sk OFinalize).
      apply (skel_step R rO rI radd rmul ropp E half ta tb tc). exact Hs. }
    assert (Hf1 : kfinal t1 = kfinal t) by (rewrite Ht1; destruct first; [apply kfinalize_final | reflexivity]).
    assert (Hsum : (knerr R t1 + kncorr R t1 = knerr R sk + kncorr R sk)%nat).
    { rewrite Ht1. destruct Hs as (_ & _ & _ & _ & Kne & Knc & _). destruct first; [rewrite kfinalize_sum|]; rewrite Kne, Knc; reflexivity. }
    destruct (link_run b (link_ops tg rel) rel (link_ops_err tg rel) (link_ops_rel tg rel) t1) as (F & _ & _).
    unfold KrausSem.krun in F. rewrite corrprob_final.
    rewrite F, Hsum, Hf1, (eM_skel _ t1 sk1 Hs1), E_0. unfold spec_ce. f_equal. ring.
  Qed.
End KChain.
