(* The hand model of the graph-touching primitives (Model/Lane.v), of parse_stim_circuit's dispatch and of
   build_sampling_graph was written against the source whose AST fingerprints are recorded here.  The translator
   re-computes the fingerprints from /repo/src on every run; if any of these functions is edited, this lemma no
   longer checks and the check falls back to its search (numeric comparison of the model with pyzx and of the
   sampler with the reference simulator).  After reviewing an edit and updating Model/Lane.v accordingly, the
   expected values are updated by hand (harness/tools/update_fingerprints.py prints them). *)
From Coq Require Import List String.
Import ListNotations.
Require Import TV.gen.Gen_instructions.
Definition expected_fingerprints : list (string * string) :=
  [("x_phase"%string, "840e6f5e210d86ea"%string);
   ("z_phase"%string, "b6f4c761a2923797"%string);
   ("h"%string, "6923dfad20b7725e"%string);
   ("_cx_cz"%string, "83bfc8bad8825c64"%string);
   ("swap"%string, "a01db8beee491fdc"%string);
   ("i"%string, "f9ec56284ad7bc6f"%string);
   ("_error"%string, "51e68ff2baf85710"%string);
   ("_m"%string, "b4c95e6c279917b2"%string);
   ("_r"%string, "27ab642a7019b945"%string);
   ("add_lane"%string, "b27b7ade9f59f970"%string);
   ("add_dummy"%string, "83ec9fca0a1d212d"%string);
   ("ensure_lane"%string, "1b63383536671323"%string);
   ("last_row"%string, "ba7cfd355f39e1fe"%string);
   ("last_edge"%string, "461d6c9f758945d5"%string);
   ("detector"%string, "20059e4dfc9778f8"%string);
   ("observable_include"%string, "d38a84c75e229119"%string);
   ("tick"%string, "280c30077e220548"%string);
   ("finalize_correlated_error"%string, "d038f6be3ef3a11c"%string);
   ("parse_stim_circuit"%string, "73acdc5e5a6c4574"%string);
   ("build_sampling_graph"%string, "9c40d1f2d6e5462b"%string)].
Lemma fingerprints_match : fingerprints = expected_fingerprints.
Proof. reflexivity. Qed.
