(* C16 (text half): the re-tagged instruction of Circuit.inverse is again recognised by parse_parametric_tag, with
   exactly the negated value, for decimal values of any magnitude.  Over gen/Gen_inverse.v + gen/Gen_regex.v. *)
From Coq Require Import List Ascii String Bool Arith NArith ZArith Lia Decimal DecimalPos DecimalN.
Import ListNotations.
Require Import TV.Model.Regex TV.gen.Gen_regex TV.Model.ProgramText TV.Spec.TextSpec TV.Proofs.RegexProofs
               TV.Proofs.ProgramTextProofs TV.gen.Gen_inverse TV.Model.InverseTag.
Set Default Timeout 60.
Open Scope Z_scope.

(* ================= str(int) ================= *)
Lemma uint_str_digits : forall u, forallb is_digit (uint_str u) = true.
Proof. induction u; cbn [uint_str forallb]; try rewrite IHu; reflexivity. Qed.

Definition horner (acc : Z) (a : ascii) : Z := 10 * acc + digit_val a.

Lemma uint_str_val_gen : forall u u',
  fold_left horner (uint_str u) (Z.of_N (Unsigned.of_lu u')) = Z.of_N (Unsigned.of_lu (Decimal.revapp u u')).
Proof.
  induction u; intros u'; cbn [uint_str fold_left Decimal.revapp]; [reflexivity| ..];
    rewrite <- IHu; f_equal; unfold horner; cbn [Unsigned.of_lu];
    rewrite ?N2Z.inj_add, ?N2Z.inj_mul; vm_compute (digit_val _); vm_compute (Z.of_N 10);
    try vm_compute (Z.of_N 1); try vm_compute (Z.of_N 2); try vm_compute (Z.of_N 3); try vm_compute (Z.of_N 4);
    try vm_compute (Z.of_N 5); try vm_compute (Z.of_N 6); try vm_compute (Z.of_N 7); try vm_compute (Z.of_N 8);
    try vm_compute (Z.of_N 9); lia.
Qed.

Lemma nat_str_val : forall n, digits_val (nat_str n) = Z.of_N n.
Proof.
  intros n. unfold digits_val, nat_str.
  change (fun acc a => 10 * acc + digit_val a) with horner.
  change 0 with (Z.of_N (Unsigned.of_lu Nil)).
  rewrite uint_str_val_gen. change (Decimal.revapp (N.to_uint n) Nil) with (Decimal.rev (N.to_uint n)).
  rewrite <- Unsigned.of_uint_alt. f_equal.
  change (Pos.of_uint (N.to_uint n)) with (N.of_uint (N.to_uint n)). apply DecimalN.Unsigned.of_to.
Qed.

Lemma nat_str_nonempty : forall n, nat_str n <> [].
Proof.
  intros n. unfold nat_str. destruct n as [|p]; [discriminate|].
  cbn [N.to_uint]. pose proof (Unsigned.to_uint_nonnil p) as H.
  destruct (Pos.to_uint p); [congruence|..]; discriminate.
Qed.

Lemma digits_val_zeros : forall j, digits_val (repeat "0"%char j) = 0.
Proof.
  intros j. unfold digits_val. induction j as [|j IH]; [reflexivity|].
  cbn [repeat fold_left]. exact IH.
Qed.

Lemma repeat_zero_digits : forall j, forallb is_digit (repeat "0"%char j) = true.
Proof. induction j as [|j IH]; [reflexivity|]. cbn [repeat forallb]. rewrite IH. reflexivity. Qed.

Lemma rjust0_spec : forall s w, forallb is_digit s = true ->
  forallb is_digit (rjust0 s w) = true /\ digits_val (rjust0 s w) = digits_val s /\ (w <= List.length (rjust0 s w))%nat
  /\ (List.length s <= List.length (rjust0 s w))%nat.
Proof.
  intros s w Hs. unfold rjust0. repeat split.
  - rewrite forallb_app, repeat_zero_digits, Hs. reflexivity.
  - rewrite digits_val_app, digits_val_zeros. lia.
  - rewrite app_length, repeat_length. lia.
  - rewrite app_length. lia.
Qed.

(* ================= find_scale ================= *)
Lemma find_scale_spec : forall fuel num den s0 t,
  (s0 <= t <= s0 + fuel)%nat -> (num * 10 ^ Z.of_nat t) mod den = 0 ->
  exists s, find_scale fuel num den s0 = Some s /\ (s0 <= s <= t)%nat /\ (num * 10 ^ Z.of_nat s) mod den = 0.
Proof.
  induction fuel as [|f IH]; intros num den s0 t Hr Ht; cbn [find_scale].
  - assert (t = s0) by lia. subst t. rewrite Ht. cbn. exists s0. repeat split; auto; lia.
  - destruct ((num * 10 ^ Z.of_nat s0) mod den =? 0) eqn:E.
    + apply Z.eqb_eq in E. exists s0. repeat split; auto; lia.
    + assert (t <> s0) by (intros ->; rewrite Ht in E; discriminate).
      destruct (IH num den (S s0) t ltac:(lia) Ht) as [s [H1 [H2 H3]]].
      exists s. repeat split; auto; lia.
Qed.

(* ================= _format_angle on a (negated) decimal ================= *)
Lemma pow10_pos : forall k, 0 < 10 ^ Z.of_nat k.
Proof. intros k. apply Z.pow_pos_nonneg; lia. Qed.

(* the normalised fraction of m / 10^k *)
Lemma fraction_of_dec_spec : forall m k, let x := fraction_of_dec (m, k) in
  exists g, 0 < g /\ fst x * g = m /\ snd x * g = 10 ^ Z.of_nat k /\ 0 < snd x.
Proof.
  intros m k. cbn zeta. unfold fraction_of_dec. cbn [fst snd].
  set (p := 10 ^ Z.of_nat k). set (g := Z.gcd m p).
  assert (Hp : 0 < p) by apply pow10_pos.
  assert (Hg : 0 < g).
  { pose proof (Z.gcd_nonneg m p). assert (g <> 0); [|lia].
    unfold g. intros E. apply Z.gcd_eq_0_r in E. lia. }
  destruct (Z.gcd_divide_l m p) as [a Ha]. destruct (Z.gcd_divide_r m p) as [b Hb]. fold g in Ha, Hb.
  exists g. repeat split; auto.
  - rewrite Ha at 1. rewrite Z.div_mul by lia. lia.
  - rewrite Hb at 1. rewrite Z.div_mul by lia. lia.
  - rewrite Hb. rewrite Z.div_mul by lia. nia.
Qed.

Lemma firstn_skipn_digits : forall c (l : str), forallb is_digit l = true ->
  forallb is_digit (firstn c l) = true /\ forallb is_digit (skipn c l) = true.
Proof.
  intros c l H. rewrite <- (firstn_skipn c l) in H. rewrite forallb_app in H. apply andb_prop in H. exact H.
Qed.

(* the text produced for x = +- m/10^k (normalised): sg ++ ip ++ "." ++ fp, a decimal numeral denoting x exactly *)
Lemma format_positional_spec : forall (negate : bool) m k,
  exists sg ip fp,
    format_positional (S k) (frac_of negate (m, k)) = Some (sg ++ ip ++ "."%char :: fp)
    /\ (sg = [] \/ sg = ["-"%char]) /\ ip <> [] /\ fp <> []
    /\ forallb is_digit ip = true /\ forallb is_digit fp = true
    /\ apply_sign sg (digits_val (ip ++ fp)) * 10 ^ Z.of_nat k
       = (if negate then - m else m) * 10 ^ Z.of_nat (List.length fp).
Proof.
  intros negate m k.
  destruct (fraction_of_dec_spec m k) as [g [Hg [Hn [Hd Hdpos]]]].
  set (x := fraction_of_dec (m, k)) in *.
  set (n := fst x) in *. set (d := snd x) in *.
  (* numerator of the value that is formatted *)
  set (n' := if negate then - n else n).
  assert (Hx : frac_of negate (m, k) = (n', d)).
  { unfold frac_of, frac_neg, n'. fold x. destruct negate; [reflexivity|]. unfold n, d. destruct x; reflexivity. }
  set (M := if negate then - m else m).
  assert (Hn' : n' * g = M) by (unfold n', M; destruct negate; lia).
  unfold format_positional. rewrite Hx. cbn [fst snd].
  set (a := Z.abs n').
  (* the loop stops within k+1 steps *)
  assert (Hk : (a * 10 ^ Z.of_nat k) mod d = 0).
  { rewrite <- Hd. rewrite (Z.mul_comm d g), Z.mul_assoc. apply Z.mod_mul. lia. }
  destruct (find_scale_spec (S k) a d 0 k ltac:(lia) Hk) as [s [Hfs [Hsk Hs]]].
  rewrite Hfs.
  set (D := a * 10 ^ Z.of_nat s / d).
  assert (HD : D * d = a * 10 ^ Z.of_nat s).
  { unfold D. rewrite Z.mul_comm. symmetry. apply Z_div_exact_full_2; [lia|exact Hs]. }
  assert (HD0 : 0 <= D).
  { unfold D. apply Z.div_pos; [|lia]. pose proof (pow10_pos s). unfold a. nia. }
  set (digits := rjust0 (nat_str (Z.to_N D)) (S s)).
  destruct (rjust0_spec (nat_str (Z.to_N D)) (S s) (uint_str_digits _)) as [Hdig [Hval [Hlen Hlen2]]].
  fold digits in Hdig, Hval, Hlen, Hlen2. rewrite nat_str_val, Z2N.id in Hval by exact HD0.
  set (sg := if n' <? 0 then ["-"%char] else []).
  assert (Hsg : sg = [] \/ sg = ["-"%char]) by (unfold sg; destruct (n' <? 0); auto).
  (* value equation shared by both shapes:  apply_sign sg D * 10^k = M * 10^s *)
  assert (Hval2 : apply_sign sg D * 10 ^ Z.of_nat k = M * 10 ^ Z.of_nat s).
  { assert (E : D * 10 ^ Z.of_nat k = a * g * 10 ^ Z.of_nat s) by (rewrite <- Hd; nia).
    unfold sg, apply_sign. destruct (n' <? 0) eqn:En.
    - apply Z.ltb_lt in En. change (Ascii.eqb "-" "-") with true. cbn match.
      unfold a in E. rewrite Z.abs_neq in E by lia. nia.
    - apply Z.ltb_ge in En. unfold a in E. rewrite Z.abs_eq in E by lia. nia. }
  destruct s as [|s'].
  - (* scale = 0: digits ++ ".0" *)
    exists sg, digits, ["0"%char].
    split; [cbn [lit list_ascii_of_string]; reflexivity|].
    split; [exact Hsg|].
    split.
    { intros E. pose proof (nat_str_nonempty (Z.to_N D)) as Hne.
      assert (List.length (nat_str (Z.to_N D)) <> 0%nat) by (destruct (nat_str (Z.to_N D)); [congruence|discriminate]).
      rewrite E in Hlen2. cbn in Hlen2. lia. }
    split; [discriminate|].
    split; [exact Hdig|].
    split; [reflexivity|].
    rewrite digits_val_app. cbn [List.length]. rewrite Hval.
    change (digits_val ["0"%char]) with 0. change (Z.of_nat 1) with 1.
    change (Z.of_nat 0) with 0 in Hval2. rewrite Z.pow_0_r in Hval2. rewrite Z.pow_1_r.
    unfold apply_sign in *. destruct sg as [|c sg']; [nia|]. destruct (Ascii.eqb c "-"); nia.
  - (* scale > 0: split the digit string *)
    set (cut := (List.length digits - S s')%nat).
    destruct (firstn_skipn_digits cut digits Hdig) as [Hip Hfp].
    exists sg, (firstn cut digits), (skipn cut digits).
    split; [reflexivity|].
    split; [exact Hsg|].
    split.
    { intros E. assert (H : List.length (firstn cut digits) = 0%nat) by (rewrite E; reflexivity).
      rewrite firstn_length in H. unfold cut in H. lia. }
    split.
    { intros E. assert (H : List.length (skipn cut digits) = 0%nat) by (rewrite E; reflexivity).
      rewrite skipn_length in H. unfold cut in H. lia. }
    split; [exact Hip|].
    split; [exact Hfp|].
    rewrite firstn_skipn, Hval, skipn_length. unfold cut.
    replace (List.length digits - (List.length digits - S s'))%nat with (S s') by lia. exact Hval2.
Qed.

(* ================= the re-tagged instruction ================= *)
Lemma digits_dd : forall l, forallb is_digit l = true -> forallb dd l = true.
Proof. intros l H. apply (forallb_impl is_digit); [|exact H]. intros a Ha. unfold dd. rewrite Ha. reflexivity. Qed.

Lemma formatted_is_literal : forall sg ip fp,
  (sg = [] \/ sg = ["-"%char]) -> ip <> [] -> forallb is_digit ip = true -> forallb is_digit fp = true ->
  lit_shape sg (ip ++ "."%char :: fp) /\ dec_body (ip ++ "."%char :: fp) (digits_val (ip ++ fp)) (List.length fp).
Proof.
  intros sg ip fp Hsg Hne Hip Hfp. split.
  - split; [destruct Hsg; [left|right; left]; assumption|]. split.
    + intros E. apply app_eq_nil in E. tauto.
    + rewrite forallb_app. cbn [forallb]. rewrite (digits_dd ip Hip), (digits_dd fp Hfp). reflexivity.
  - apply DB_frac; [|exact Hip|exact Hfp]. intros E. apply app_eq_nil in E. tauto.
Qed.

Lemma dict_get_hit : forall k' v r k, str_eqb k' k = true -> dict_get ((k', v) :: r) k = Some v.
Proof. intros k' v r k H. unfold dict_get. cbn [find fst snd]. rewrite H. reflexivity. Qed.
Lemma dict_get_miss : forall k' v r k, str_eqb k' k = false -> dict_get ((k', v) :: r) k = dict_get r k.
Proof. intros k' v r k H. unfold dict_get. cbn [find fst snd]. rewrite H. reflexivity. Qed.

Lemma retag_rotation : forall ax sg body m k,
  is_axis ax -> lit_shape sg body -> dec_body body m k ->
  exists t v,
    retag (rot_tag ax (sg ++ body)) = RTag t
    /\ parse_parametric_tag t = POk (lit "R_" ++ [ax]) [(lit "theta", v)]
    /\ dec_eq v (dec_opp (apply_sign sg m, k)).
Proof.
  intros ax sg body m k Hax Hl Hd.
  destruct (expand_rotation ax sg body [] Hax Hl eq_refl) as [_ [Hp _]].
  unfold retag. rewrite (Hp m k Hd).
  replace (str_eqb (lit "R_" ++ [ax]) inv_u3_gate) with false by reflexivity.
  unfold inv_rot_sources, inv_rot_tpl. cbn [format_sources].
  rewrite dict_get_hit by reflexivity.
  unfold format_value. change inv_fmt with FmtPositional. cbn match. cbn [snd].
  destruct (format_positional_spec true (apply_sign sg m) k) as [sg' [ip [fp [Hf [Hsg' [Hip0 [Hfp0 [Hip [Hfp Hv]]]]]]]]].
  rewrite Hf.
  destruct (formatted_is_literal sg' ip fp Hsg' Hip0 Hip Hfp) as [Hl' Hd'].
  exists (rot_tag ax (sg' ++ ip ++ "."%char :: fp)), (apply_sign sg' (digits_val (ip ++ fp)), List.length fp).
  split.
  - unfold build_tag, rot_tag. cbn [flat_map nth]. f_equal; norm; rewrite ?app_nil_r; reflexivity.
  - split.
    + destruct (expand_rotation ax sg' (ip ++ "."%char :: fp) [] Hax Hl' eq_refl) as [_ [Hp' _]].
      exact (Hp' _ _ Hd').
    + unfold dec_eq, dec_opp. cbn [fst snd]. exact Hv.
Qed.

Lemma retag_u3 : forall sg1 b1 sg2 b2 sg3 b3 m1 k1 m2 k2 m3 k3,
  lit_shape sg1 b1 -> lit_shape sg2 b2 -> lit_shape sg3 b3 ->
  dec_body b1 m1 k1 -> dec_body b2 m2 k2 -> dec_body b3 m3 k3 ->
  exists t v1 v2 v3,
    retag (u3_tag (sg1 ++ b1) (sg2 ++ b2) (sg3 ++ b3)) = RTag t
    /\ parse_parametric_tag t = POk (lit "U3") [(lit "theta", v1); (lit "phi", v2); (lit "lambda", v3)]
    /\ dec_eq v1 (dec_opp (apply_sign sg1 m1, k1))       (* theta  := - theta  *)
    /\ dec_eq v2 (dec_opp (apply_sign sg3 m3, k3))       (* phi    := - lambda *)
    /\ dec_eq v3 (dec_opp (apply_sign sg2 m2, k2)).      (* lambda := - phi    *)
Proof.
  intros sg1 b1 sg2 b2 sg3 b3 m1 k1 m2 k2 m3 k3 L1 L2 L3 D1 D2 D3.
  destruct (expand_u3 [] [] [] [] sg1 b1 sg2 b2 sg3 b3 [] eq_refl eq_refl eq_refl eq_refl L1 L2 L3 eq_refl) as [_ [Hp _]].
  unfold retag. rewrite (Hp _ _ _ _ _ _ D1 D2 D3).
  replace (str_eqb (lit "U3") inv_u3_gate) with true by reflexivity.
  unfold inv_u3_sources, inv_u3_tpl. cbn [format_sources].
  rewrite dict_get_hit by reflexivity.
  rewrite (dict_get_miss (lit "theta")) by reflexivity. rewrite (dict_get_miss (lit "phi")) by reflexivity.
  rewrite dict_get_hit by reflexivity.
  rewrite (dict_get_miss (lit "theta")) by reflexivity. rewrite dict_get_hit by reflexivity.
  unfold format_value. change inv_fmt with FmtPositional. cbn match. cbn [snd].
  destruct (format_positional_spec true (apply_sign sg1 m1) k1) as [s1 [ip1 [fp1 [F1 [S1 [I1 [_ [P1 [Q1 V1]]]]]]]]].
  destruct (format_positional_spec true (apply_sign sg3 m3) k3) as [s3 [ip3 [fp3 [F3 [S3 [I3 [_ [P3 [Q3 V3]]]]]]]]].
  destruct (format_positional_spec true (apply_sign sg2 m2) k2) as [s2 [ip2 [fp2 [F2 [S2 [I2 [_ [P2 [Q2 V2]]]]]]]]].
  rewrite F1, F3, F2.
  destruct (formatted_is_literal s1 ip1 fp1 S1 I1 P1 Q1) as [L1' D1'].
  destruct (formatted_is_literal s2 ip2 fp2 S2 I2 P2 Q2) as [L2' D2'].
  destruct (formatted_is_literal s3 ip3 fp3 S3 I3 P3 Q3) as [L3' D3'].
  exists (u3_tag (s1 ++ ip1 ++ "."%char :: fp1) (s3 ++ ip3 ++ "."%char :: fp3) (s2 ++ ip2 ++ "."%char :: fp2)),
         (apply_sign s1 (digits_val (ip1 ++ fp1)), List.length fp1),
         (apply_sign s3 (digits_val (ip3 ++ fp3)), List.length fp3),
         (apply_sign s2 (digits_val (ip2 ++ fp2)), List.length fp2).
  split.
  - unfold build_tag, u3_tag. cbn [flat_map nth]. f_equal; norm; rewrite ?app_nil_r; reflexivity.
  - split.
    + destruct (expand_u3 [] [] [] [] s1 _ s3 _ s2 _ [] eq_refl eq_refl eq_refl eq_refl L1' L3' L2' eq_refl) as [_ [Hp' _]].
      exact (Hp' _ _ _ _ _ _ D1' D3' D2').
    + unfold dec_eq, dec_opp. cbn [fst snd]. repeat split; assumption.
Qed.

(* frame: what is not a recognised parametric tag is left to stim's own inverse *)
Lemma retag_frame : forall name tag,
  (str_eqb name inv_retag_name = false \/ tag = [] \/ parse_parametric_tag tag = PNone) ->
  inverse_instr_tag name tag = RKeep.
Proof.
  intros name tag H. unfold inverse_instr_tag. destruct H as [H|[H|H]].
  - rewrite H. reflexivity.
  - subst tag. rewrite andb_false_r. reflexivity.
  - destruct (str_eqb name inv_retag_name && nonempty tag)%bool; [|reflexivity]. unfold retag. rewrite H. reflexivity.
Qed.

Lemma inverse_instr_I : forall tag, tag <> [] -> inverse_instr_tag (lit "I") tag = retag tag.
Proof. intros tag H. unfold inverse_instr_tag. destruct tag; [congruence|reflexivity]. Qed.
