(* Lemmas about Spec/StimCircuit.v: the algebra of `fuse` (Stim's merging as a canonical form), flattening,
   the container operations up to merging, counters. *)
From Coq Require Import ZArith List String Bool Lia Arith.
Import ListNotations.
Require Import TV.Spec.StimCircuit.
Open Scope string_scope.
Open Scope list_scope.
Set Default Timeout 60.

(* ---- keys ------------------------------------------------------------------------------------------------ *)
Lemma lz_eqb_eq : forall a b, lz_eqb a b = true <-> a = b.
Proof.
  induction a as [|x a IH]; intros [|y b]; cbn [lz_eqb]; split; intro H; try discriminate; try reflexivity.
  - apply andb_true_iff in H as [H1 H2]. apply Z.eqb_eq in H1. apply IH in H2. subst. reflexivity.
  - injection H as -> ->. rewrite Z.eqb_refl. cbn. apply IH. reflexivity.
Qed.

Lemma same_key_eq : forall a b, same_key a b = true <->
  iname a = iname b /\ iargs a = iargs b /\ itag a = itag b.
Proof.
  intros a b. unfold same_key. rewrite !andb_true_iff, String.eqb_eq, lz_eqb_eq, Z.eqb_eq. tauto.
Qed.

Lemma same_key_refl : forall a, same_key a a = true.
Proof. intro a. apply same_key_eq. auto. Qed.

Lemma can_fuse_inv : forall a b, can_fuse a b = true ->
  fusable a = true /\ iname a = iname b /\ iargs a = iargs b /\ itag a = itag b.
Proof. intros a b H. unfold can_fuse in H. apply andb_true_iff in H as [H1 H2]. apply same_key_eq in H2. tauto. Qed.

Lemma same_key_congr : forall a a' b b',
  iname a = iname a' -> iargs a = iargs a' -> itag a = itag a' ->
  iname b = iname b' -> iargs b = iargs b' -> itag b = itag b' ->
  same_key a b = same_key a' b'.
Proof. intros. unfold same_key. congruence. Qed.

Lemma can_fuse_congr : forall a a' b b',
  iname a = iname a' -> iargs a = iargs a' -> itag a = itag a' ->
  iname b = iname b' -> iargs b = iargs b' -> itag b = itag b' ->
  can_fuse a b = can_fuse a' b'.
Proof.
  intros a a' b b' H1 H2 H3 H4 H5 H6. unfold can_fuse, fusable. rewrite H1.
  f_equal. apply same_key_congr; assumption.
Qed.

Lemma can_fuse_merge_l : forall i j k, can_fuse i j = true -> can_fuse (merge i j) k = can_fuse j k.
Proof.
  intros i j k H. apply can_fuse_inv in H as (_ & Hn & Ha & Ht).
  apply can_fuse_congr; cbn [merge iname iargs itag]; auto.
Qed.

Lemma can_fuse_merge_r : forall i j k, can_fuse j k = true -> can_fuse i (merge j k) = can_fuse i j.
Proof. intros i j k H. apply can_fuse_congr; cbn [merge iname iargs itag]; auto. Qed.

Lemma can_fuse_merge_l' : forall i j k, can_fuse (merge i j) k = can_fuse i k.
Proof. intros. apply can_fuse_congr; cbn [merge iname iargs itag]; auto. Qed.

Lemma merge_assoc : forall i j k, merge (merge i j) k = merge i (merge j k).
Proof. intros. unfold merge. cbn [iname iargs itag igroups]. rewrite app_assoc. reflexivity. Qed.

Lemma can_fuse_trans : forall i j k, can_fuse i j = true -> can_fuse j k = true -> can_fuse i k = true.
Proof.
  intros i j k H1 H2. apply can_fuse_inv in H1 as (Hf & Hn & Ha & Ht). apply can_fuse_inv in H2 as (_ & Hn2 & Ha2 & Ht2).
  unfold can_fuse. rewrite Hf. cbn. apply same_key_eq. repeat split; congruence.
Qed.

(* ---- fuse: canonical form --------------------------------------------------------------------------- *)
Fixpoint fusedb (l : list instr) : bool :=
  match l with
  | i :: ((j :: _) as r) => negb (can_fuse i j) && fusedb r
  | _ => true
  end.

Lemma fuse_cons : forall i l, fuse (i :: l) = cons_fuse i (fuse l).
Proof. reflexivity. Qed.

Lemma cons_fuse_fused : forall i X, fusedb X = true -> fusedb (cons_fuse i X) = true.
Proof.
  intros i [|j r] HX; cbn [cons_fuse]; [reflexivity|].
  destruct (can_fuse i j) eqn:E.
  - destruct r as [|k r']; [reflexivity|].
    cbn [fusedb] in HX |- *. apply andb_true_iff in HX as [H1 H2].
    rewrite can_fuse_merge_l by exact E. rewrite H1, H2. reflexivity.
  - cbn [fusedb]. rewrite E. cbn [negb andb]. exact HX.
Qed.

Lemma fuse_fused : forall l, fusedb (fuse l) = true.
Proof. induction l as [|i l IH]; [reflexivity|]. rewrite fuse_cons. apply cons_fuse_fused. exact IH. Qed.

Lemma fused_fuse_id : forall l, fusedb l = true -> fuse l = l.
Proof.
  induction l as [|i l IH]; intro H; [reflexivity|].
  rewrite fuse_cons. destruct l as [|j r]; [reflexivity|].
  cbn [fusedb] in H. apply andb_true_iff in H as [H1 H2].
  rewrite IH by exact H2. cbn [cons_fuse]. apply negb_true_iff in H1. rewrite H1. reflexivity.
Qed.

Lemma fuse_idem : forall l, fuse (fuse l) = fuse l.
Proof. intro l. apply fused_fuse_id. apply fuse_fused. Qed.

Lemma cons_fuse_merge : forall i j X, can_fuse i j = true ->
  cons_fuse i (cons_fuse j X) = cons_fuse (merge i j) X.
Proof.
  intros i j [|k r] H.
  - cbn [cons_fuse]. rewrite H. reflexivity.
  - unfold cons_fuse at 2 3. rewrite can_fuse_merge_l by exact H.
    destruct (can_fuse j k) eqn:E; cbn [cons_fuse].
    + rewrite can_fuse_merge_r by exact E. rewrite H. rewrite merge_assoc. reflexivity.
    + rewrite H. reflexivity.
Qed.

Lemma fuse_app_r : forall a b, fuse (a ++ b) = fuse (a ++ fuse b).
Proof.
  induction a as [|i a IH]; intro b; cbn [app].
  - symmetry. apply fuse_idem.
  - rewrite !fuse_cons. rewrite IH. reflexivity.
Qed.

Lemma fuse_app_l : forall a b, fuse (a ++ b) = fuse (fuse a ++ b).
Proof.
  induction a as [|i a IH]; intro b; [reflexivity|].
  cbn [app]. rewrite !fuse_cons. rewrite IH.
  destruct (fuse a) as [|j r] eqn:E; cbn [cons_fuse app]; [reflexivity|].
  destruct (can_fuse i j) eqn:F.
  - cbn [app]. rewrite !fuse_cons. rewrite cons_fuse_merge by exact F. reflexivity.
  - reflexivity.
Qed.

Lemma fuse_app_congr : forall a a' b b', fuse a = fuse a' -> fuse b = fuse b' -> fuse (a ++ b) = fuse (a' ++ b').
Proof.
  intros a a' b b' H1 H2.
  rewrite (fuse_app_l a), (fuse_app_l a'), H1.
  rewrite (fuse_app_r (fuse a')), (fuse_app_r (fuse a') b'), H2. reflexivity.
Qed.

Lemma fuse_pair : forall a i j b, can_fuse i j = true -> fuse (a ++ i :: j :: b) = fuse (a ++ merge i j :: b).
Proof.
  intros a i j b H. apply fuse_app_congr; [reflexivity|].
  rewrite !fuse_cons. apply cons_fuse_merge. exact H.
Qed.

Lemma fuse_nil_inv : forall l, fuse l = [] -> l = [].
Proof.
  intros [|i l] H; [reflexivity|]. rewrite fuse_cons in H.
  destruct (fuse l) as [|j r]; cbn [cons_fuse] in H; [discriminate|]. destruct (can_fuse i j); discriminate.
Qed.

(* ---- flattening --------------------------------------------------------------------------------------- *)
Section ItemInd.
  Variable P : item -> Prop.
  Hypothesis HIt : forall i, P (It i).
  Hypothesis HRep : forall n b, Forall P b -> P (Rep n b).
  Fixpoint item_ind2 (x : item) : P x :=
    match x with
    | It i => HIt i
    | Rep n b => HRep n b ((fix go (b : list item) : Forall P b :=
                              match b with
                              | [] => Forall_nil P
                              | y :: r => Forall_cons y (item_ind2 y) (go r)
                              end) b)
    end.
End ItemInd.

Lemma flatten0_app : forall a b, flatten0 (a ++ b) = flatten0 a ++ flatten0 b.
Proof. intros. unfold flatten0. apply flat_map_app. Qed.

Lemma flatten0_cons : forall x c, flatten0 (x :: c) = flat_item x ++ flatten0 c.
Proof. reflexivity. Qed.

Lemma flatten0_embed : forall l, flatten0 (embed l) = l.
Proof. induction l as [|i l IH]; [reflexivity|]. cbn [embed map]. rewrite flatten0_cons. cbn [flat_item app]. f_equal. exact IH. Qed.

Lemma is_flat_embed : forall l, is_flat (embed l) = true.
Proof. induction l as [|i l IH]; [reflexivity|]. cbn. exact IH. Qed.

Lemma is_flat_embed_flatten0 : forall c, is_flat c = true -> c = embed (flatten0 c).
Proof.
  induction c as [|x c IH]; intro H; [reflexivity|].
  cbn [is_flat forallb] in H. apply andb_true_iff in H as [H1 H2]. destruct x as [i|n b]; [|discriminate].
  rewrite flatten0_cons. cbn [flat_item app embed map]. f_equal. apply IH. exact H2.
Qed.

Lemma is_flat_app : forall a b, is_flat (a ++ b) = is_flat a && is_flat b.
Proof. intros. unfold is_flat. apply forallb_app. Qed.

Lemma rep_app_app : forall {A} n (l : list A), rep_app (S n) l = l ++ rep_app n l.
Proof. reflexivity. Qed.

Lemma fuse_rep_app_congr : forall n a b, fuse a = fuse b -> fuse (rep_app n a) = fuse (rep_app n b).
Proof.
  induction n as [|n IH]; intros a b H; [reflexivity|].
  cbn [rep_app]. apply fuse_app_congr; [exact H|]. apply IH. exact H.
Qed.

(* ---- equality up to unrolling and merging ----------------------------------------------------------- *)

Lemma simc_refl : forall a, sim a a. Proof. reflexivity. Qed.
Lemma simc_sym : forall a b, sim a b -> sim b a. Proof. unfold sim. intros. congruence. Qed.
Lemma simc_trans : forall a b c, sim a b -> sim b c -> sim a c. Proof. unfold sim. intros. congruence. Qed.

Lemma simc_app : forall a a' b b', sim a a' -> sim b b' -> sim (a ++ b) (a' ++ b').
Proof. unfold sim. intros. rewrite !flatten0_app. apply fuse_app_congr; assumption. Qed.

Lemma simc_rep : forall n a a', sim a a' -> sim [Rep n a] [Rep n a'].
Proof.
  unfold sim. intros n a a' H. unfold flatten0. cbn [flat_map flat_item]. rewrite !app_nil_r.
  apply fuse_rep_app_congr. exact H.
Qed.

Lemma simc_embed_fuse : forall l, sim (embed (fuse l)) (embed l).
Proof. intro l. unfold sim. rewrite !flatten0_embed. apply fuse_idem. Qed.

(* csnoc: append with merging *)
Lemma rev_cons_inv : forall {A} (c : list A) y r, rev c = y :: r -> c = rev r ++ [y].
Proof. intros A c y r H. rewrite <- (rev_involutive c), H. reflexivity. Qed.

Lemma csnoc_fuse : forall c x Y, fuse (flatten0 (csnoc c x) ++ Y) = fuse (flatten0 c ++ flat_item x ++ Y).
Proof.
  intros c x Y. unfold csnoc.
  destruct x as [i|n b].
  - destruct (rev c) as [|y r] eqn:E.
    + rewrite flatten0_app. rewrite <- app_assoc. cbn [flatten0 flat_map flat_item app]. reflexivity.
    + destruct y as [j|m b'].
      * destruct (can_fuse j i) eqn:F.
        -- apply rev_cons_inv in E. subst c. rewrite !flatten0_app. cbn [flatten0 flat_map flat_item app].
           rewrite <- !app_assoc. cbn [app]. symmetry. apply fuse_pair. exact F.
        -- rewrite flatten0_app. rewrite <- app_assoc. reflexivity.
      * rewrite flatten0_app. rewrite <- app_assoc. reflexivity.
  - rewrite flatten0_app. rewrite <- app_assoc. cbn [flatten0 flat_map]. rewrite app_nil_r. reflexivity.
Qed.

Lemma csnoc_simc : forall c x, sim (csnoc c x) (c ++ [x]).
Proof.
  intros c x. unfold sim. pose proof (csnoc_fuse c x []) as H. rewrite !app_nil_r in H.
  rewrite H. rewrite flatten0_app. cbn [flatten0 flat_map]. rewrite app_nil_r. reflexivity.
Qed.

Lemma stim_iadd_simc : forall a b, sim (stim_iadd a b) (a ++ b).
Proof.
  intros a [|x r]; unfold stim_iadd.
  - rewrite app_nil_r. apply simc_refl.
  - unfold sim. rewrite flatten0_app. rewrite csnoc_fuse. rewrite flatten0_app. reflexivity.
Qed.

Lemma stim_mul_simc : forall n a, (0 <= n)%Z -> sim (stim_mul n a) [Rep (Z.to_nat n) a].
Proof.
  intros n a Hn. unfold stim_mul.
  destruct (n =? 0)%Z eqn:E0.
  - apply Z.eqb_eq in E0. subst n. reflexivity.
  - destruct (n =? 1)%Z eqn:E1.
    + apply Z.eqb_eq in E1. subst n. unfold sim. change (Z.to_nat 1) with 1.
      unfold flatten0 at 2. cbn [flat_map flat_item rep_app]. rewrite !app_nil_r. reflexivity.
    + apply simc_refl.
Qed.

Lemma is_flat_csnoc : forall c x, is_flat c = true -> is_flat [x] = true -> is_flat (csnoc c x) = true.
Proof.
  intros c x Hc Hx. unfold csnoc. destruct x as [i|n b]; [|discriminate].
  destruct (rev c) as [|y r] eqn:E.
  - rewrite is_flat_app, Hc. reflexivity.
  - destruct y as [j|m b'].
    + destruct (can_fuse j i).
      * apply rev_cons_inv in E. subst c. rewrite is_flat_app in Hc |- *. apply andb_true_iff in Hc as [H1 _]. rewrite H1. reflexivity.
      * rewrite is_flat_app, Hc. reflexivity.
    + rewrite is_flat_app, Hc. reflexivity.
Qed.

Lemma is_flat_stim_iadd : forall a b, is_flat a = true -> is_flat b = true -> is_flat (stim_iadd a b) = true.
Proof.
  intros a [|x r] Ha Hb; unfold stim_iadd; [exact Ha|].
  cbn [is_flat forallb] in Hb. apply andb_true_iff in Hb as [H1 H2].
  rewrite is_flat_app. rewrite is_flat_csnoc; [exact H2|exact Ha|]. cbn [is_flat forallb]. rewrite H1. reflexivity.
Qed.

Lemma is_flat_remove_nth : forall k c, is_flat c = true -> is_flat (remove_nth k c) = true.
Proof.
  induction k as [|k IH]; intros [|x c] H; cbn [remove_nth]; try reflexivity.
  - cbn [is_flat forallb] in H. apply andb_true_iff in H as [_ H]. exact H.
  - cbn [is_flat forallb] in H |- *. apply andb_true_iff in H as [H1 H2]. rewrite H1. apply IH. exact H2.
Qed.

Lemma is_flat_select : forall c idx, is_flat c = true -> is_flat (select c idx) = true.
Proof.
  intros c idx H. unfold select. induction idx as [|k idx IH]; [reflexivity|].
  cbn [flat_map]. rewrite is_flat_app, IH, andb_true_r.
  destruct (nth_error c k) as [x|] eqn:E; [|reflexivity].
  apply nth_error_In in E. unfold is_flat in H. rewrite forallb_forall in H. cbn [is_flat forallb]. rewrite (H x E). reflexivity.
Qed.

(* ---- without_noise ---------------------------------------------------------------------------------- *)
Definition wnl (l : list instr) : list instr :=
  flat_map (fun i => match wn_instr i with Some j => [j] | None => [] end) l.

Lemma wnl_app : forall a b, wnl (a ++ b) = wnl a ++ wnl b.
Proof. intros. unfold wnl. apply flat_map_app. Qed.

Lemma mpad_fusable : mem "MPAD" not_fusable_names = false. Proof. reflexivity. Qed.

Lemma wn_instr_merge : forall i j, can_fuse i j = true ->
  match wn_instr i, wn_instr j with
  | Some i', Some j' => can_fuse i' j' = true /\ wn_instr (merge i j) = Some (merge i' j')
  | None, None => wn_instr (merge i j) = None
  | _, _ => False
  end.
Proof.
  intros i j H. pose proof (can_fuse_inv _ _ H) as (Hf & Hn & Ha & Ht).
  unfold wn_instr. cbn [merge iname iargs itag igroups]. rewrite <- Hn.
  destruct (mem (iname i) meas_names) eqn:M.
  - destruct (mem (iname i) herald_names) eqn:Hh.
    + split.
      * unfold can_fuse, fusable. cbn [iname]. rewrite mpad_fusable. cbn [negb andb].
        apply same_key_eq. cbn [iname iargs itag]. auto.
      * unfold merge. cbn [iname iargs itag igroups]. rewrite map_app. reflexivity.
    + split.
      * unfold can_fuse, fusable in *. cbn [iname]. rewrite Hf. cbn [andb].
        apply same_key_eq. cbn [iname iargs itag]. auto.
      * reflexivity.
  - destruct (mem (iname i) noisy_names); [reflexivity|].
    split; [exact H|reflexivity].
Qed.

Lemma fuse_wnl_cons_fuse : forall i X, fuse (wnl (cons_fuse i X)) = fuse (wnl (i :: X)).
Proof.
  intros i [|j r]; cbn [cons_fuse]; [reflexivity|].
  destruct (can_fuse i j) eqn:E; [|reflexivity].
  pose proof (wn_instr_merge i j E) as H.
  change (wnl (merge i j :: r)) with ((match wn_instr (merge i j) with Some x => [x] | None => [] end) ++ wnl r).
  change (wnl (i :: j :: r)) with ((match wn_instr i with Some x => [x] | None => [] end) ++
                                   (match wn_instr j with Some x => [x] | None => [] end) ++ wnl r).
  destruct (wn_instr i) as [i'|], (wn_instr j) as [j'|]; try contradiction.
  - destruct H as [H1 H2]. rewrite H2. cbn [app]. symmetry. apply (fuse_pair [] i' j'). exact H1.
  - rewrite H. reflexivity.
Qed.

Lemma fuse_wnl_fuse : forall l, fuse (wnl (fuse l)) = fuse (wnl l).
Proof.
  induction l as [|i l IH]; [reflexivity|].
  rewrite fuse_cons, fuse_wnl_cons_fuse.
  change (wnl (i :: fuse l)) with (wnl ([i] ++ fuse l)). change (wnl (i :: l)) with (wnl ([i] ++ l)).
  rewrite !wnl_app. apply fuse_app_congr; [reflexivity|exact IH].
Qed.

Lemma fuse_wnl_congr : forall a b, fuse a = fuse b -> fuse (wnl a) = fuse (wnl b).
Proof. intros a b H. rewrite <- (fuse_wnl_fuse a), <- (fuse_wnl_fuse b), H. reflexivity. Qed.

(* stim_without_noise on a REPEAT-free circuit *)
Lemma stim_without_noise_flat_acc : forall l acc Y,
  fuse (flatten0 (fold_left (fun acc y => match wn_item y with Some z => csnoc acc z | None => acc end) (embed l) acc) ++ Y)
  = fuse (flatten0 acc ++ wnl l ++ Y).
Proof.
  induction l as [|i l IH]; intros acc Y; [reflexivity|].
  cbn [embed map fold_left]. fold (embed l). rewrite IH.
  change (wnl (i :: l)) with ((match wn_instr i with Some x => [x] | None => [] end) ++ wnl l).
  cbn [wn_item]. destruct (wn_instr i) as [j|]; cbn [option_map].
  - rewrite csnoc_fuse. cbn [flat_item]. rewrite <- !app_assoc. reflexivity.
  - reflexivity.
Qed.

Lemma stim_without_noise_flat : forall l, fuse (flatten0 (stim_without_noise (embed l))) = fuse (wnl l).
Proof.
  intro l. unfold stim_without_noise. pose proof (stim_without_noise_flat_acc l [] []) as H.
  rewrite !app_nil_r in H. exact H.
Qed.

Lemma is_flat_stim_without_noise : forall l, is_flat (stim_without_noise (embed l)) = true.
Proof.
  intro l. unfold stim_without_noise.
  assert (G : forall acc, is_flat acc = true ->
     is_flat (fold_left (fun acc y => match wn_item y with Some z => csnoc acc z | None => acc end) (embed l) acc) = true).
  { induction l as [|i l IH]; intros acc Ha; [exact Ha|].
    cbn [embed map fold_left]. fold (embed l). apply IH.
    cbn [wn_item]. destruct (wn_instr i) as [j|]; cbn [option_map]; [|exact Ha].
    apply is_flat_csnoc; [exact Ha|reflexivity]. }
  apply G. reflexivity.
Qed.

(* ---- name filters (tsim's without_annotations) ---------------------------------------------------- *)
Definition keepl (names : list string) (l : list instr) : list instr :=
  filter (fun i => negb (mem (iname i) names)) l.

Lemma keepl_app : forall names a b, keepl names (a ++ b) = keepl names a ++ keepl names b.
Proof. intros. unfold keepl. apply filter_app. Qed.

Lemma fuse_keepl_cons_fuse : forall names i X, fuse (keepl names (cons_fuse i X)) = fuse (keepl names (i :: X)).
Proof.
  intros names i [|j r]; cbn [cons_fuse]; [reflexivity|].
  destruct (can_fuse i j) eqn:E; [|reflexivity].
  pose proof (can_fuse_inv _ _ E) as (_ & Hn & _ & _).
  cbn [keepl filter merge iname]. rewrite <- Hn.
  destruct (negb (mem (iname i) names)); [|reflexivity].
  symmetry. apply (fuse_pair [] i j). exact E.
Qed.

Lemma fuse_keepl_fuse : forall names l, fuse (keepl names (fuse l)) = fuse (keepl names l).
Proof.
  induction l as [|i l IH]; [reflexivity|].
  rewrite fuse_cons, fuse_keepl_cons_fuse.
  change (i :: fuse l) with ([i] ++ fuse l). change (i :: l) with ([i] ++ l).
  rewrite !keepl_app. apply fuse_app_congr; [reflexivity|exact IH].
Qed.

Lemma fuse_keepl_congr : forall names a b, fuse a = fuse b -> fuse (keepl names a) = fuse (keepl names b).
Proof. intros names a b H. rewrite <- (fuse_keepl_fuse names a), <- (fuse_keepl_fuse names b), H. reflexivity. Qed.

(* ---- SHIFT_COORDS-free circuits: flattened = fuse . flatten0 -------------------------------------- *)
Lemma add_prefix_nil : forall a, add_prefix [] a = a.
Proof. destruct a; reflexivity. Qed.

Lemma apply_shift_nil : forall i, apply_shift [] i = i.
Proof.
  intro i. unfold apply_shift. destruct (mem (iname i) coord_names); [|reflexivity].
  rewrite add_prefix_nil. destruct i; reflexivity.
Qed.

Lemma noshift_cons : forall x c, noshift (x :: c) = noshift [x] && noshift c.
Proof. intros. unfold noshift. rewrite flatten0_cons. rewrite forallb_app. unfold flatten0. cbn [flat_map]. rewrite app_nil_r. reflexivity. Qed.

Lemma noshift_app : forall a b, noshift (a ++ b) = noshift a && noshift b.
Proof. intros. unfold noshift. rewrite flatten0_app. apply forallb_app. Qed.

Lemma forallb_rep_app : forall {A} (f : A -> bool) n l, forallb f (rep_app (S n) l) = forallb f l.
Proof.
  intros A f n l. induction n as [|n IH].
  - cbn [rep_app]. rewrite app_nil_r. reflexivity.
  - rewrite rep_app_app, forallb_app, IH. destruct (forallb f l); reflexivity.
Qed.

Lemma iter_sh_const : forall n (f : list Z -> list instr * list Z) o,
  f [] = (o, []) -> iter_sh n f [] = (rep_app n o, []).
Proof.
  induction n as [|n IH]; intros f o H; [reflexivity|].
  cbn [iter_sh]. rewrite H. rewrite (IH f o H). reflexivity.
Qed.

Lemma flat_sh_item_noshift : forall x, noshift [x] = true -> flat_sh_item x [] = (flat_item x, []).
Proof.
  induction x as [i|n b IH] using item_ind2; intro H.
  - unfold noshift in H. cbn in H. rewrite andb_true_r in H. apply negb_true_iff in H.
    cbn [flat_sh_item flat_item]. rewrite H. rewrite apply_shift_nil. reflexivity.
  - cbn [flat_sh_item flat_item].
    destruct n as [|n]; [reflexivity|].
    assert (Hb : forallb (fun i => negb (is_shift i)) (flat_map flat_item b) = true).
    { unfold noshift, flatten0 in H. cbn [flat_map flat_item] in H. rewrite app_nil_r in H.
      rewrite forallb_rep_app in H. exact H. }
    apply iter_sh_const.
    clear H. induction b as [|y r IHr]; [reflexivity|].
    cbn [flat_map] in Hb. rewrite forallb_app in Hb. apply andb_true_iff in Hb as [Hy Hr].
    inversion IH as [|? ? Py Pr]; subst.
    rewrite Py.
    + rewrite (IHr Pr Hr). reflexivity.
    + unfold noshift, flatten0. cbn [flat_map]. rewrite app_nil_r. exact Hy.
Qed.

Lemma flat_sh_noshift : forall c, noshift c = true -> flat_sh c [] = (flatten0 c, []).
Proof.
  induction c as [|x c IH]; intro H; [reflexivity|].
  rewrite noshift_cons in H. apply andb_true_iff in H as [Hx Hc].
  cbn [flat_sh]. rewrite (flat_sh_item_noshift x Hx). rewrite (IH Hc). reflexivity.
Qed.

Lemma flattened_l_noshift : forall c, noshift c = true -> flattened_l c = fuse (flatten0 c).
Proof. intros c H. unfold flattened_l. rewrite (flat_sh_noshift c H). reflexivity. Qed.

Lemma flattened_simc : forall c, noshift c = true -> sim (flattened c) c.
Proof.
  intros c H. unfold sim, flattened. rewrite flatten0_embed. rewrite (flattened_l_noshift c H). apply fuse_idem.
Qed.

Lemma is_flat_flattened : forall c, is_flat (flattened c) = true.
Proof. intro c. apply is_flat_embed. Qed.

(* names survive merging, so SHIFT_COORDS-freeness is a property of the canonical form *)
Lemma forallb_name_cons_fuse : forall (p : string -> bool) i X,
  forallb (fun i => p (iname i)) (cons_fuse i X) = forallb (fun i => p (iname i)) (i :: X).
Proof.
  intros p i [|j r]; cbn [cons_fuse]; [reflexivity|].
  destruct (can_fuse i j) eqn:E; [|reflexivity].
  apply can_fuse_inv in E as (_ & Hn & _ & _).
  cbn [forallb merge iname]. rewrite <- Hn. destruct (p (iname i)); reflexivity.
Qed.

Lemma forallb_name_fuse : forall (p : string -> bool) l,
  forallb (fun i => p (iname i)) (fuse l) = forallb (fun i => p (iname i)) l.
Proof.
  induction l as [|i l IH]; [reflexivity|].
  rewrite fuse_cons, forallb_name_cons_fuse. cbn [forallb]. rewrite IH. reflexivity.
Qed.

Lemma noshift_simc : forall a b, sim a b -> noshift a = noshift b.
Proof.
  intros a b H. unfold noshift, is_shift.
  rewrite <- (forallb_name_fuse (fun n => negb (String.eqb n "SHIFT_COORDS")) (flatten0 a)).
  rewrite <- (forallb_name_fuse (fun n => negb (String.eqb n "SHIFT_COORDS")) (flatten0 b)).
  unfold sim in H. rewrite H. reflexivity.
Qed.

(* ---- counters ----------------------------------------------------------------------------------------- *)
Lemma sum_l_app : forall f a b, sum_l f (a ++ b) = sum_l f a + sum_l f b.
Proof. intros f a b. induction a as [|i a IH]; [reflexivity|]. cbn [app sum_l fold_right] in *. fold (sum_l f (a ++ b)). fold (sum_l f a). lia. Qed.

Lemma max_l_app : forall f a b, max_l f (a ++ b) = Nat.max (max_l f a) (max_l f b).
Proof. intros f a b. induction a as [|i a IH]; [reflexivity|]. cbn [app max_l fold_right] in *. fold (max_l f (a ++ b)). fold (max_l f a). lia. Qed.

Lemma sum_l_fuse : forall f, (forall i j, can_fuse i j = true -> f (merge i j) = f i + f j) ->
  forall l, sum_l f (fuse l) = sum_l f l.
Proof.
  intros f Hf. induction l as [|i l IH]; [reflexivity|].
  rewrite fuse_cons. change (sum_l f (i :: l)) with (f i + sum_l f l). rewrite <- IH.
  destruct (fuse l) as [|j r]; cbn [cons_fuse]; [reflexivity|].
  destruct (can_fuse i j) eqn:E; [|reflexivity].
  change (sum_l f (merge i j :: r)) with (f (merge i j) + sum_l f r).
  change (sum_l f (j :: r)) with (f j + sum_l f r). rewrite (Hf i j E). lia.
Qed.

Lemma max_l_fuse : forall f, (forall i j, can_fuse i j = true -> f (merge i j) = Nat.max (f i) (f j)) ->
  forall l, max_l f (fuse l) = max_l f l.
Proof.
  intros f Hf. induction l as [|i l IH]; [reflexivity|].
  rewrite fuse_cons. change (max_l f (i :: l)) with (Nat.max (f i) (max_l f l)). rewrite <- IH.
  destruct (fuse l) as [|j r]; cbn [cons_fuse]; [reflexivity|].
  destruct (can_fuse i j) eqn:E; [|reflexivity].
  change (max_l f (merge i j :: r)) with (Nat.max (f (merge i j)) (max_l f r)).
  change (max_l f (j :: r)) with (Nat.max (f j) (max_l f r)). rewrite (Hf i j E). lia.
Qed.

Lemma fusable_not : forall i nm, fusable i = true -> mem nm not_fusable_names = true -> String.eqb (iname i) nm = false.
Proof.
  intros i nm Hf Hm. destruct (String.eqb (iname i) nm) eqn:E; [|reflexivity].
  apply String.eqb_eq in E. unfold fusable in Hf. rewrite E, Hm in Hf. discriminate.
Qed.

Lemma nmeas_merge : forall i j, can_fuse i j = true -> nmeas (merge i j) = nmeas i + nmeas j.
Proof.
  intros i j H. apply can_fuse_inv in H as (_ & Hn & _ & _). unfold nmeas. cbn [merge iname igroups]. rewrite <- Hn.
  destruct (mem (iname i) meas_names); [apply app_length|reflexivity].
Qed.
Lemma ndet_merge : forall i j, can_fuse i j = true -> ndet (merge i j) = ndet i + ndet j.
Proof.
  intros i j H. apply can_fuse_inv in H as (Hf & Hn & _ & _). unfold ndet. cbn [merge iname]. rewrite <- Hn.
  rewrite (fusable_not i "DETECTOR" Hf eq_refl). reflexivity.
Qed.
Lemma ntick_merge : forall i j, can_fuse i j = true -> ntick (merge i j) = ntick i + ntick j.
Proof.
  intros i j H. apply can_fuse_inv in H as (Hf & Hn & _ & _). unfold ntick. cbn [merge iname]. rewrite <- Hn.
  rewrite (fusable_not i "TICK" Hf eq_refl). reflexivity.
Qed.
Lemma nobs_merge : forall i j, can_fuse i j = true -> nobs (merge i j) = Nat.max (nobs i) (nobs j).
Proof.
  intros i j H. apply can_fuse_inv in H as (Hf & Hn & _ & _). unfold nobs. cbn [merge iname]. rewrite <- Hn.
  rewrite (fusable_not i "OBSERVABLE_INCLUDE" Hf eq_refl). reflexivity.
Qed.
Lemma fold_max_app : forall a b, fold_right Nat.max 0 (a ++ b) = Nat.max (fold_right Nat.max 0 a) (fold_right Nat.max 0 b).
Proof. induction a as [|x a IH]; intro b; [reflexivity|]. cbn [app fold_right]. rewrite IH. lia. Qed.
Lemma nqub_merge : forall i j, can_fuse i j = true -> nqub (merge i j) = Nat.max (nqub i) (nqub j).
Proof. intros i j _. unfold nqub. cbn [merge igroups]. rewrite map_app. apply fold_max_app. Qed.

Lemma counts_l_fuse : forall l, counts_l (fuse l) = counts_l l.
Proof.
  intro l. unfold counts_l.
  rewrite (sum_l_fuse nmeas nmeas_merge), (sum_l_fuse ndet ndet_merge), (sum_l_fuse ntick ntick_merge),
          (max_l_fuse nobs nobs_merge), (max_l_fuse nqub nqub_merge). reflexivity.
Qed.

Lemma sum_l_rep_app : forall f n l, sum_l f (rep_app n l) = n * sum_l f l.
Proof. intros f n l. induction n as [|n IH]; [reflexivity|]. rewrite rep_app_app, sum_l_app, IH. lia. Qed.
Lemma max_l_rep_app : forall f n l, max_l f (rep_app (S n) l) = max_l f l.
Proof. intros f n l. induction n as [|n IH]; [cbn [rep_app]; rewrite app_nil_r; reflexivity|]. rewrite rep_app_app, max_l_app, IH. lia. Qed.

Lemma sum_item_flat : forall f x, sum_item f x = sum_l f (flat_item x).
Proof.
  intros f. induction x as [i|n b IH] using item_ind2.
  - cbn. lia.
  - cbn [sum_item flat_item]. rewrite sum_l_rep_app. f_equal.
    induction b as [|y r IHr]; [reflexivity|].
    inversion IH as [|? ? Py Pr]; subst. cbn [fold_right flat_map]. rewrite sum_l_app, Py, (IHr Pr). reflexivity.
Qed.
Lemma max_item_flat : forall f x, max_item f x = max_l f (flat_item x).
Proof.
  intros f. induction x as [i|n b IH] using item_ind2.
  - cbn. lia.
  - cbn [max_item flat_item]. destruct n as [|n]; [reflexivity|]. rewrite max_l_rep_app.
    induction b as [|y r IHr]; [reflexivity|].
    inversion IH as [|? ? Py Pr]; subst. cbn [fold_right flat_map]. rewrite max_l_app, Py, (IHr Pr). reflexivity.
Qed.
Lemma sum_c_flat : forall f c, sum_c f c = sum_l f (flatten0 c).
Proof. intros f c. induction c as [|x c IH]; [reflexivity|]. rewrite flatten0_cons, sum_l_app, <- IH, <- sum_item_flat. reflexivity. Qed.
Lemma max_c_flat : forall f c, max_c f c = max_l f (flatten0 c).
Proof. intros f c. induction c as [|x c IH]; [reflexivity|]. rewrite flatten0_cons, max_l_app, <- IH, <- max_item_flat. reflexivity. Qed.

(* Stim's counters on a circuit with loops = the counters of the flattened circuit *)
Lemma counts_c_flat : forall c, counts_c c = counts_l (flatten0 c).
Proof. intro c. unfold counts_c, counts_l. rewrite !sum_c_flat, !max_c_flat. reflexivity. Qed.

Lemma counts_simc : forall a b, sim a b -> counts_c a = counts_c b.
Proof.
  intros a b H. rewrite !counts_c_flat. rewrite <- (counts_l_fuse (flatten0 a)), <- (counts_l_fuse (flatten0 b)).
  unfold sim in H. rewrite H. reflexivity.
Qed.

(* Stim's flattened() never leaves a SHIFT_COORDS instruction behind (the shift is folded into later coordinates),
   whatever the nesting of REPEAT blocks and wherever the shifts occur *)
Definition no_shift_l (l : list instr) : bool := forallb (fun i => negb (is_shift i)) l.
Lemma no_shift_l_app : forall a b, no_shift_l (a ++ b) = no_shift_l a && no_shift_l b.
Proof. intros a b. unfold no_shift_l. apply forallb_app. Qed.
Lemma apply_shift_name : forall s i, iname (apply_shift s i) = iname i.
Proof. intros s i. unfold apply_shift. destruct (mem (iname i) coord_names); reflexivity. Qed.
Lemma iter_sh_no_shift : forall f, (forall s, no_shift_l (fst (f s)) = true) ->
  forall n s, no_shift_l (fst (iter_sh n f s)) = true.
Proof.
  intros f Hf n. induction n as [|k IH]; intro s; cbn [iter_sh]; [reflexivity|].
  pose proof (Hf s) as H1. destruct (f s) as [o1 s1]. pose proof (IH s1) as H2. destruct (iter_sh k f s1) as [o2 s2].
  cbn [fst] in *. rewrite no_shift_l_app, H1, H2. reflexivity.
Qed.
Fixpoint item_size (x : item) : nat :=
  match x with
  | It _ => 1
  | Rep _ b => S (fold_right (fun y a => item_size y + a) 0 b)
  end.
Lemma flat_sh_item_no_shift : forall k x, item_size x <= k -> forall s, no_shift_l (fst (flat_sh_item x s)) = true.
Proof.
  induction k as [|k IH]; intros x Hk s.
  - destruct x; cbn [item_size] in Hk; lia.
  - destruct x as [i|n b].
    + cbn [flat_sh_item]. destruct (is_shift i) eqn:E; cbn [fst]; [reflexivity|].
      unfold no_shift_l. cbn [forallb]. unfold is_shift in *. rewrite apply_shift_name, E. reflexivity.
    + cbn [flat_sh_item]. apply iter_sh_no_shift. clear s. cbn [item_size] in Hk. apply le_S_n in Hk.
      induction b as [|y r IHr]; intro s; [reflexivity|].
      cbn [fold_right] in Hk.
      assert (Hy : item_size y <= k) by lia.
      assert (Hr : fold_right (fun y a => item_size y + a) 0 r <= k) by lia.
      pose proof (IH y Hy s) as H1. destruct (flat_sh_item y s) as [o1 s1].
      pose proof (IHr Hr s1) as H2.
      match goal with |- context [let '(o2, s2) := ?g r s1 in _] => destruct (g r s1) as [o2 s2] end.
      cbn [fst] in *. rewrite no_shift_l_app, H1, H2. reflexivity.
Qed.
Lemma flat_sh_no_shift : forall c s, no_shift_l (fst (flat_sh c s)) = true.
Proof.
  induction c as [|y r IH]; intro s; [reflexivity|]. cbn [flat_sh].
  pose proof (flat_sh_item_no_shift (item_size y) y (le_n _) s) as H1. destruct (flat_sh_item y s) as [o1 s1].
  pose proof (IH s1) as H2. destruct (flat_sh r s1) as [o2 s2]. cbn [fst] in *. rewrite no_shift_l_app, H1, H2. reflexivity.
Qed.
Lemma cons_fuse_no_shift : forall i X, no_shift_l (i :: X) = true -> no_shift_l (cons_fuse i X) = true.
Proof.
  intros i [|j r] H; [exact H|]. cbn [cons_fuse]. destruct (can_fuse i j) eqn:E; [|exact H].
  unfold no_shift_l in *. cbn [forallb] in *. apply andb_true_iff in H as [Hi H]. apply andb_true_iff in H as [_ Hr].
  unfold is_shift in *. cbn [merge iname]. rewrite Hi, Hr. reflexivity.
Qed.
Lemma fuse_no_shift : forall l, no_shift_l l = true -> no_shift_l (fuse l) = true.
Proof.
  induction l as [|i l IH]; intro H; [reflexivity|]. rewrite fuse_cons. apply cons_fuse_no_shift.
  unfold no_shift_l in *. cbn [forallb] in *. apply andb_true_iff in H as [Hi Hl]. fold (no_shift_l (fuse l)).
  rewrite Hi. cbn [andb]. apply IH. exact Hl.
Qed.
Theorem flattened_no_shift : forall c, no_shift_l (flattened_l c) = true.
Proof. intro c. unfold flattened_l. apply fuse_no_shift. apply flat_sh_no_shift. Qed.
