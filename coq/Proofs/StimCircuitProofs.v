Require Import TV.Spec.StimCircuit.
