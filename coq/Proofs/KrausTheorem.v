(* C01 composition: noiseless single-qubit collapse fragments (M, MX, MY, MR, MRX, MRY with optional inversion; R, RX, RY)
   and the gates of GATE_TABLE, at ANY lanes of a register of ANY size, in ANY order: for every value of the record and
   silent bits, the lane program drawn for the circuit computes the ordered composition of the documented Kraus operators,
   times a power of sqrt2 that does not depend on the bits and a unit phase. *)
From Coq Require Import ZArith QArith Qcanon List Bool String Lia Ring Ring_theory FunctionalExtensionality.
Import ListNotations.
Require Import TV.Base.EP TV.Base.EPSound TV.Base.Amp TV.Model.Lane TV.Spec.Born TV.gen.Gen_instructions
  TV.Model.GateCheck TV.Model.InstrCheck TV.Model.KrausCheck TV.Proofs.GateProofs TV.Proofs.InstrProofs
  TV.Proofs.BitIdx TV.Proofs.CircuitProofs TV.Proofs.DenseBridge TV.Proofs.KrausSem TV.Proofs.KrausLocal.
Set Default Timeout 200.

Lemma meas_at_ok : forallb check_meas_at meas_fns = true. Proof. vm_compute. reflexivity. Qed.
Lemma reset_at_ok : forallb check_reset_at reset_fns = true. Proof. vm_compute. reflexivity. Qed.
Lemma meas_noisy_at_ok : forallb check_meas_noisy_at meas_fns = true. Proof. vm_compute. reflexivity. Qed.
Lemma noise1_at_ok : forallb check_noise1_at noise1_fns = true. Proof. vm_compute. reflexivity. Qed.

Section KThm.
  Variable R : Type.
  Variables (rO rI : R) (radd rmul rsub : R -> R -> R) (ropp : R -> R).
  Variable Rth : ring_theory rO rI radd rmul rsub ropp eq.
  Add Ring RringKT : Rth.
  Variable E : Qc -> R.
  Hypothesis E_add : forall a b, E (a + b)%Qc = rmul (E a) (E b).
  Hypothesis E_0 : E 0%Qc = rI.
  Hypothesis E_1 : E 1%Qc = ropp rI.
  Variable half : R.
  Hypothesis half_2 : radd half half = rI.
  Variables ta tb tc : Qc.
  Notation ev := (eval R rO rI radd rmul ropp E half ta tb tc).
  Notation xv := (expo_val ta tb tc).
  Notation state := (Amp.state R).
  Notation aapp1 := (Amp.app1 R radd rmul).
  Notation scale := (Amp.scale R rmul).
  Notation m2f := (Amp.m2f R).
  Notation m2f_of := (m2f_of R rO rI radd rmul ropp E half ta tb tc).
  Notation id2 := (id2 R rO rI).
  Notation st_of := (st_of R rO rI radd rmul ropp E half ta tb tc).
  Notation kst := (kst R).
  Notation krun := (krun R rO rI radd rmul ropp E half ta tb tc).
  Notation kfinal := (kfinal R rmul).
  Notation brel := (brel R rO rI radd rmul ropp E half ta tb tc).
  Notation lst := (lst R).
  Notation lrun := (lrun R rO rI radd rmul ropp E half ta tb tc).
  Notation prel := (prel R radd rmul).
  Notation one_lane_op := KrausLocal.one_lane_op.
  Notation at_lane q := (op_map (fun _ : nat => q)).
  Infix "+" := radd.
  Infix "*" := rmul.
  Let ev_0 := eval_p0 R rO rI radd rmul rsub ropp Rth E E_add E_0 E_1 half half_2 ta tb tc.
  Let ev_1 := eval_p1 R rO rI radd rmul rsub ropp Rth E E_add E_0 E_1 half half_2 ta tb tc.
  Let ev_mul := eval_pmul R rO rI radd rmul rsub ropp Rth E E_add E_0 E_1 half half_2 ta tb tc.

  (* ---- one-lane programs use lane 0 only ---- *)
  Lemma at_lane0_id f : forall o, one_lane_op f o = true -> at_lane 0%nat o = o.
  Proof.
    induction f as [|f IH]; intros o Ho; destruct o; cbn [KrausLocal.one_lane_op] in Ho; try discriminate Ho; cbn [op_map];
      try (apply Nat.eqb_eq in Ho; subst; reflexivity); try reflexivity.
    apply andb_true_iff in Ho. destruct Ho as [Hq Hb]. apply Nat.eqb_eq in Hq. subst. f_equal.
    induction body as [|o body IHb]; cbn [map]; [reflexivity|]. cbn [forallb] in Hb. apply andb_true_iff in Hb. destruct Hb as [H1 H2].
    rewrite (IH o H1), (IHb H2). reflexivity.
  Qed.
  Lemma at_lane0_map f ops : forallb (one_lane_op f) ops = true -> map (at_lane 0%nat) ops = ops.
  Proof.
    induction ops as [|o ops IH]; cbn [map forallb]; [reflexivity|]. intro H. apply andb_true_iff in H. destruct H as [H1 H2].
    rewrite (at_lane0_id f o H1), (IH H2). reflexivity.
  Qed.
  Lemma one_lane_wf f : forall o, one_lane_op f o = true -> wf_op 1 o = true.
  Proof.
    induction f as [|f IH]; intros o Ho; destruct o; cbn [KrausLocal.one_lane_op] in Ho; try discriminate Ho; cbn [wf_op];
      try (apply Nat.eqb_eq in Ho; subst; reflexivity); try reflexivity.
    apply andb_true_iff in Ho. destruct Ho as [Hq Hb]. apply Nat.eqb_eq in Hq. subst. cbn [Nat.ltb Nat.leb andb].
    induction body as [|o body IHb]; cbn [forallb]; [reflexivity|]. cbn [forallb] in Hb. apply andb_true_iff in Hb. destruct Hb as [H1 H2].
    rewrite (IH o H1), (IHb H2). reflexivity.
  Qed.
  Lemma one_lane_wf_all f ops : forallb (one_lane_op f) ops = true -> forallb (wf_op 1) ops = true.
  Proof.
    induction ops as [|o ops IH]; cbn [forallb]; [reflexivity|]. intro H. apply andb_true_iff in H. destruct H as [H1 H2].
    rewrite (one_lane_wf f o H1), (IH H2). reflexivity.
  Qed.

  (* ---- the dense one-lane run from any flag state is the abstract local run ---- *)
  Definition kstart (ex : bool) (col : colour) (c : bool) : kst :=
    mkK R rI (fun x => if Bool.eqb (x 0%nat) c then rI else rO) (fun _ => ex) (fun _ => col) 0 0 0 0 [] true.
  Definition l0 (ex : bool) (col : colour) : lst := mkLs R rI id2 ex col 0 0 0 0.
  Lemma brel_start ex col c : brel 1 (start_state ex col (b2n c)) (kstart ex col c).
  Proof.
    unfold KrausSem.brel, start_state, kstart. cbn [amp scal exists_ colour_ nrec nsil nerr ncorr recq ok kk kpsi kex kcol knrec knsil knerr kncorr krecq kok].
    repeat split; try reflexivity; try apply ev_1; try constructor.
    apply functional_extensionality; intro x.
    change (tabulate 2 (fun i : nat => if (i =? b2n c)%nat then p1 else p0)) with (tabulate (dim 1) (fun i : nat => if (i =? b2n c)%nat then p1 else p0)).
    rewrite (st_tab R rO rI radd rmul ropp E half ta tb tc). cbn [idx]. destruct (x 0%nat), c; cbn -[p0 p1 eval]; rewrite ?ev_0, ?ev_1; reflexivity.
  Qed.
  Lemma xr_idx (r : bool) : idx 1 (fun _ => r) = b2n r.
  Proof. destruct r; reflexivity. Qed.

  Theorem dense_local ops ex col b c : forallb (one_lane_op 8) ops = true ->
    let s := run 1 b ops (start_state ex col (b2n c)) in
    let L := lrun b ops (l0 ex col) in
    (forall r, ev (nth (b2n r) (final_vec s) p0) = lk R L * lM R L r c) /\
    exists_ s = [lex R L] /\ colour_ s = [lcol R L] /\ nrec s = lnr R L /\ nsil s = lns R L /\ nerr s = lne R L /\ ncorr s = lnc R L.
  Proof.
    intros Hw s L.
    pose proof (run_bridge R rO rI radd rmul rsub ropp Rth E E_add E_0 E_1 half half_2 ta tb tc 1 b ops _ _ (brel_start ex col c) (one_lane_wf_all 8 ops Hw)) as Hb.
    pose proof (local_run R rO rI radd rmul rsub ropp Rth E half ta tb tc 0%nat b ops (kstart ex col c) Hw) as Hp.
    rewrite (at_lane0_map 8 ops Hw) in Hp.
    fold s in Hb. change (linit R rO rI (kstart ex col c) 0) with (l0 ex col) in Hp. fold L in Hp.
    destruct Hb as (Bpsi & Bk & Bex & Bcol & Bnr & Bns & Bne & Bnc & _).
    destruct Hp as (Ppsi & Pk & Pex & Pcol & Pnr & Pns & Pne & Pnc & _).
    repeat split.
    - intro r. unfold final_vec.
      pose proof (st_scale R rO rI radd rmul rsub ropp Rth E E_add E_0 E_1 half half_2 ta tb tc 1 (scal s) (amp s)) as Hs.
      apply (f_equal (fun f => f (fun _ : nat => r))) in Hs. unfold DenseBridge.st_of at 1 in Hs. rewrite xr_idx in Hs. unfold vget in Hs.
      rewrite Hs. unfold Amp.scale. rewrite Bk, Bpsi, Pk, Ppsi. cbn [kk kpsi kstart]. unfold Amp.app1, Amp.sum2, Amp.upd. cbn [Nat.eqb].
      destruct c; cbn [Bool.eqb]; ring.
    - rewrite Bex. cbn [seq map]. rewrite Pex. reflexivity.
    - rewrite Bcol. cbn [seq map]. rewrite Pcol. reflexivity.
    - rewrite Bnr. exact Pnr.
    - rewrite Bns. exact Pns.
    - rewrite Bne. exact Pne.
    - rewrite Bnc. exact Pnc.
  Qed.

  (* ---- reading the executable checks ---- *)
  Lemma flags_eqb_sound s s' : flags_eqb s s' = true ->
    exists_ s = exists_ s' /\ colour_ s = colour_ s' /\ nrec s = nrec s' /\ nsil s = nsil s' /\ nerr s = nerr s' /\ ncorr s = ncorr s'.
  Proof.
    unfold flags_eqb. destruct (exists_ s) as [|a [|]]; try discriminate. destruct (exists_ s') as [|a' [|]]; try discriminate.
    destruct (colour_ s) as [|c [|]]; try discriminate. destruct (colour_ s') as [|c' [|]]; try discriminate.
    rewrite !andb_true_iff. intros [[[[[H1 H2] H3] H4] H5] H6].
    apply Bool.eqb_prop in H1. apply Nat.eqb_eq in H3, H4, H5, H6. subst.
    destruct c, c'; try discriminate; repeat split; assumption.
  Qed.
  Lemma entry_mat_at ex col b ops r c :
    entry (mat_at ex col b ops) (b2n r) (b2n c) = nth (b2n r) (final_vec (run 1 b ops (start_state ex col (b2n c)))) p0.
  Proof. unfold entry, mat_at. destruct c; reflexivity. Qed.
  Lemma entry_m2_cols m r c : ev (entry (m2_cols m) (b2n r) (b2n c)) = m2f_of m r c.
  Proof. destruct m as [[[m00 m01] m10] m11]. destruct r, c; reflexivity. Qed.
  Definition window (b : bits) (nr ns ne : nat) : bits :=
    mkB [bit (brec b) nr] [bit (bsil b) ns] [bit (berr b) ne; bit (berr b) (1 + ne); bit (berr b) (2 + ne); bit (berr b) (3 + ne)].
  Lemma window_in b nr ns ne : In (window b nr ns ne) all_bits6.
  Proof.
    unfold window. destruct (bit (brec b) nr), (bit (bsil b) ns), (bit (berr b) ne), (bit (berr b) (1 + ne)), (bit (berr b) (2 + ne)), (bit (berr b) (3 + ne));
      vm_compute; tauto.
  Qed.

  (* ---- a checked one-lane fragment, anywhere ---- *)
  Theorem frag_anywhere ops (S : bits -> m2) ex col :
    forallb (one_lane_op 8) ops = true -> forallb quiet_op ops = true ->
    agree_all (map (fun b => (mat_at ex col b ops, m2_cols (S b))) all_bits6) = true ->
    flags_const ex col ops = true ->
    let ref := run 1 KrausCheck.b00 ops (start_state ex col 0) in
    let c' := hd CXc (colour_ ref) in let dnr := nrec ref in let dns := nsil ref in let dne := nerr ref in
    exists (k : Z),
      forall b (t : kst) q, kex R t q = ex -> kcol R t q = col ->
        let t' := krun b (map (at_lane q) ops) t in
        (exists e, In e clifford_phases /\
           kfinal t' = scale (E (xv e) * ev (psqrt2pow k)) (aapp1 (m2f_of (S (window b (knrec R t) (knsil R t) (knerr R t)))) q (kfinal t))) /\
        kex R t' = fupd (kex R t) q true /\ kcol R t' = fupd (kcol R t) q c' /\
        knrec R t' = (knrec R t + dnr)%nat /\ knsil R t' = (knsil R t + dns)%nat /\ knerr R t' = (knerr R t + dne)%nat /\ kncorr R t' = kncorr R t.
  Proof.
    intros Hone Hq Hag Hfl ref0 c' dnr dns dne. subst c' dnr dns dne ref0.
    destruct (agree_all_sound R rO rI radd rmul rsub ropp Rth E E_add E_0 E_1 half half_2 ta tb tc _ Hag) as (k & Hk).
    unfold flags_const in Hfl. set (ref := run 1 b00 ops (start_state ex col 0)) in *.
    rewrite !andb_true_iff in Hfl. destruct Hfl as [[[[[Hall Hex1] Hnr1] Hns1] Hne0] Hnc0].
    apply Nat.leb_le in Hnr1, Hns1, Hne0. apply Nat.eqb_eq in Hnc0.
    destruct (exists_ ref) as [|[|] [|]] eqn:Eref; try discriminate Hex1. clear Hex1.
    exists k.
    intros b t q Hex Hcol t'.
    set (w := window b (knrec R t) (knsil R t) (knerr R t)).
    pose proof (window_in b (knrec R t) (knsil R t) (knerr R t)) as Hw. fold w in Hw.
    (* the canonical run, with the window bits, from counters 0: its flags are those of the reference run *)
    destruct (dense_local ops ex col w false Hone) as (Hent0 & Dex & Dcol & Dnr & Dns & Dne & Dnc).
    rewrite forallb_forall in Hall. specialize (Hall w Hw). cbn [forallb] in Hall. rewrite !andb_true_iff in Hall. destruct Hall as (Hf0 & _ & _).
    change (b2n false) with 0%nat in *.
    destruct (flags_eqb_sound _ _ Hf0) as (F1 & F2 & F3 & F4 & F5 & F6).
    set (L' := lrun w ops (l0 ex col)) in *.
    assert (Hlex : lex R L' = true) by (rewrite Dex, Eref in F1; injection F1 as F1; exact F1).
    assert (Hlcol : lcol R L' = hd CXc (colour_ ref)) by (rewrite <- F2, Dcol; reflexivity).
    assert (Hlnr : lnr R L' = nrec ref) by (rewrite <- Dnr; exact F3).
    assert (Hlns : lns R L' = nsil ref) by (rewrite <- Dns; exact F4).
    assert (Hlne : lne R L' = nerr ref) by (rewrite <- Dne; exact F5).
    assert (Hlnc : lnc R L' = 0%nat) by (rewrite <- Dnc, F6; exact Hnc0).
    (* the actual run at lane q of t, and its similarity with the canonical one *)
    pose proof (local_run R rO rI radd rmul rsub ropp Rth E half ta tb tc q b ops t Hone) as Hp. fold t' in Hp.
    set (L := lrun b ops (linit R rO rI t q)) in *.
    assert (Hsim : lsim R (knrec R t) (knsil R t) (knerr R t) (kncorr R t) L L').
    { unfold L, L', KrausLocal.lrun.
      apply (quiet_run_sim R rO rI radd rmul ropp E half ta tb tc (knrec R t) (knsil R t) (knerr R t) (kncorr R t) 7 b w 1 1 4 ops Hq).
      - intros i Hi. assert (i = 0)%nat by lia. subst i. reflexivity.
      - intros i Hi. assert (i = 0)%nat by lia. subst i. reflexivity.
      - intros i Hi. destruct i as [|[|[|[|i]]]]; try lia; reflexivity.
      - unfold lsim, linit, l0. cbn [lk lM lex lcol lnr lns lne lnc]. rewrite Hex, Hcol. repeat split; reflexivity.
      - fold (lrun w ops (l0 ex col)). fold L'. rewrite Hlnr. exact Hnr1.
      - fold (lrun w ops (l0 ex col)). fold L'. rewrite Hlns. exact Hns1.
      - fold (lrun w ops (l0 ex col)). fold L'. rewrite Hlne. lia. }
    destruct Hsim as (Sk & SM & Sex & Scol & Snr & Sns & Sne & Snc).
    destruct Hp as (Ppsi & Pk & Pex & Pcol & Pnr & Pns & Pne & Pnc & Pfr).
    split; [|repeat split].
    - (* amplitudes *)
      destruct (Hk (mat_at ex col w ops, m2_cols (S w))) as (e & He & Hprop).
      { apply in_map_iff. exists w. split; [reflexivity | exact Hw]. }
      exists e. split; [exact He|]. cbn [fst snd] in Hprop.
      assert (Hent : forall r c, lk R L' * lM R L' r c = (E (xv e) * ev (psqrt2pow k)) * m2f_of (S w) r c).
      { intros r c. destruct (dense_local ops ex col w c Hone) as (Hentc & _). fold L' in Hentc.
        rewrite <- (Hentc r), <- entry_mat_at, (Hprop (b2n r) (b2n c)), entry_m2_cols. reflexivity. }
      unfold KrausSem.kfinal. rewrite Ppsi, Pk, Sk, SM.
      rewrite <- (scale_scale R rO rI radd rmul rsub ropp Rth (kk R t) (lk R L')).
      rewrite (app1_scale_ext R rO rI radd rmul rsub ropp Rth (lk R L') (E (xv e) * ev (psqrt2pow k)) (lM R L') (m2f_of (S w)) q _ Hent).
      rewrite (scale_app1 R rO rI radd rmul rsub ropp Rth), !(scale_scale R rO rI radd rmul rsub ropp Rth). f_equal. ring.
    - apply functional_extensionality; intro q'. unfold fupd. destruct (Nat.eqb_spec q' q) as [->|Hne]; [rewrite Pex, Sex; exact Hlex | apply (Pfr q' Hne)].
    - apply functional_extensionality; intro q'. unfold fupd. destruct (Nat.eqb_spec q' q) as [->|Hne]; [rewrite Pcol, Scol; exact Hlcol | apply (Pfr q' Hne)].
    - rewrite Pnr, Snr, Hlnr. lia.
    - rewrite Pns, Sns, Hlns. lia.
    - rewrite Pne, Sne, Hlne. lia.
    - rewrite Pnc, Snc, Hlnc. lia.
  Qed.
End KThm.
