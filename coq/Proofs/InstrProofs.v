(* C01/C02 per-instruction theorems: every collapsing, noise and feedback fragment that instructions.py draws
   (regenerated model) acts, for every value of the record / silent / error bits, as the Kraus operator Stim
   documents, up to ONE power of sqrt2 per instruction (independent of the bits) and a unit phase. *)
From Coq Require Import ZArith QArith Qcanon List Bool String Lia Ring Ring_theory.
Import ListNotations.
Require Import TV.Base.EP TV.Base.EPSound TV.Model.Lane TV.Spec.Born TV.gen.Gen_instructions TV.gen.Gen_channel_tables
  TV.Model.GateCheck TV.Model.InstrCheck TV.Proofs.GateProofs.
Set Default Timeout 300.

Lemma meas_ok : forallb check_meas meas_fns = true. Proof. vm_compute. reflexivity. Qed.
Lemma reset_ok : forallb check_reset reset_fns = true. Proof. vm_compute. reflexivity. Qed.
Lemma mpp_ok : check_mpp = true. Proof. vm_compute. reflexivity. Qed.
Lemma fb_ok : forallb check_fb fb_rows = true. Proof. vm_compute. reflexivity. Qed.
Lemma fb_rejected_ok : forallb check_fb_rejected fb_rejected = true. Proof. vm_compute. reflexivity. Qed.
Lemma noise_ok : check_pc1 = true /\ check_pc2 = true /\ check_single_errors = true /\ check_depolarize = true /\ check_correlated = true.
Proof. vm_compute. repeat split. Qed.

(* --- probability tables: symbolic in the arguments --- *)
Lemma pc1_table px py pz idx : (idx < 4)%nat ->
  nth idx (table_of (ChPauli1 px py pz)) 0%Q = pc1_arg px py pz idx.
Proof. intro H. do 4 (destruct idx as [|idx]; [reflexivity|]). lia. Qed.
(* Stim's argument order for PAULI_CHANNEL_2: IX IY IZ XI XX XY XZ YI YX YY YZ ZI ZX ZY ZZ (first letter = first target) *)
Definition pauli_code (o : option pauli) : nat := match o with None => 0 | Some PX => 1 | Some PY => 2 | Some PZ => 3 end%nat.
Definition pc2_arg_pos (idx : nat) : nat :=        (* position (1..15) of the argument documented for table index idx; 0 = remainder *)
  4 * pauli_code (pc1_pauli (idx mod 4)) + pauli_code (pc1_pauli (idx / 4)).
Lemma pc2_table (a : list Q) : List.length a = 15%nat -> forall idx, (0 < idx < 16)%nat ->
  nth idx (table_of (ChPauli2 a)) 0%Q = nth (pc2_arg_pos idx - 1) a 0%Q.
Proof.
  intros Hl idx Hi.
  do 15 (destruct a as [|? a]; [discriminate|]). destruct a; [|discriminate].
  do 16 (destruct idx as [|idx]; [try lia; reflexivity|]). lia.
Qed.
Lemma pc2_table_identity (a : list Q) : List.length a = 15%nat ->
  nth 0 (table_of (ChPauli2 a)) 0%Q == 1 - fold_right Qplus 0 a.
Proof.
  intros Hl. do 15 (destruct a as [|? a]; [discriminate|]). destruct a; [|discriminate].
  cbn [table_of pauli_channel_2_probs nth fold_right]. ring.
Qed.
Lemma depolarize1_table p idx : (0 < idx < 4)%nat ->
  match chan_of (g_depolarize1 0%nat p) with [c] => nth idx (table_of c) 0%Q == p / 3 | _ => False end.
Proof. intro H. cbn. do 4 (destruct idx as [|idx]; [try lia; cbn; reflexivity|]). lia. Qed.
Lemma depolarize2_table p idx : (0 < idx < 16)%nat ->
  match chan_of (g_depolarize2 0%nat 1%nat p) with [c] => nth idx (table_of c) 0%Q == p / 15 | _ => False end.
Proof. intro H. cbn. do 16 (destruct idx as [|idx]; [try lia; cbn; reflexivity|]). lia. Qed.
Lemma error_table p : table_of (ChError p) = [1 - p; p]%Q.
Proof. reflexivity. Qed.

(* --- correlated-error chains of ANY length --- *)
Lemma corr_acc_spec ps : forall z i,
  let '(l, z') := corr_acc ps z i in
  z' == z * fold_right (fun p acc => (1 - p) * acc) 1 ps /\
  forall j, (j < List.length ps)%nat ->
    exists q, nth_error l j = Some (Nat.pow 2 (i + j), q) /\
              q == z * fold_right (fun p acc => (1 - p) * acc) 1 (firstn j ps) * nth j ps 0.
Proof.
  induction ps as [|p r IH]; intros z i; cbn [corr_acc].
  - split; [cbn; ring | intros j Hj; cbn in Hj; lia].
  - specialize (IH (z * (1 - p))%Q (S i)). destruct (corr_acc r (z * (1 - p)) (S i)) as [l z'].
    destruct IH as [Hz Hl]. split.
    + rewrite Hz. cbn [fold_right]. ring.
    + intros j Hj. destruct j as [|j].
      * exists (z * p)%Q. split; [cbn; rewrite Nat.add_0_r; reflexivity | cbn; ring].
      * cbn [List.length] in Hj. destruct (Hl j ltac:(lia)) as (q & Hq & Hv). exists q. split.
        { cbn [nth_error]. rewrite Hq. replace (S i + j)%nat with (i + S j)%nat by lia. reflexivity. }
        { rewrite Hv. cbn [firstn fold_right nth]. ring. }
Qed.

Section Interp.
  Variable R : Type.
  Variables (rO rI : R) (radd rmul rsub : R -> R -> R) (ropp : R -> R).
  Variable Rth : ring_theory rO rI radd rmul rsub ropp eq.
  Add Ring RringIP : Rth.
  Variable E : Qc -> R.
  Hypothesis E_add : forall a b, E (a + b)%Qc = rmul (E a) (E b).
  Hypothesis E_0 : E 0%Qc = rI.
  Hypothesis E_1 : E 1%Qc = ropp rI.
  Variable half : R.
  Hypothesis half_2 : radd half half = rI.
  Variables ta tb tc : Qc.
  Notation ev := (eval R rO rI radd rmul ropp E half ta tb tc).
  Notation xv := (expo_val ta tb tc).
  Notation prop_to := (prop_to R rO rI radd rmul ropp E half ta tb tc).

  (* model = sqrt2^k * E(e) * spec, k the same for every case of the list *)
  Theorem agree_all_sound cases : agree_all cases = true ->
    exists k, forall c, In c cases -> exists e, In e clifford_phases /\
      prop_to (rmul (E (xv e)) (ev (psqrt2pow k))) (fst c) (snd c).
  Proof.
    unfold agree_all. rewrite existsb_exists. intros (k & _ & Hall). exists k.
    rewrite forallb_forall in Hall. intros c Hc. specialize (Hall c Hc).
    apply (has_phase_sound R rO rI radd rmul rsub ropp Rth E E_add E_0 E_1 half half_2 ta tb tc) in Hall.
    destruct Hall as (e & He & Hp). exists e. split; [exact He|].
    intros i j. rewrite (Hp i j).
    rewrite (entry_mscale R rO rI radd rmul rsub ropp Rth E E_add E_0 E_1 half half_2 ta tb tc). ring.
  Qed.
End Interp.
