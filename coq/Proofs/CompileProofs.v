(* Lemmas for C10: the model of compile_scalar_graphs + evaluate computes the sum of pyzx's evaluate_scalar formula. *)
From Coq Require Import ZArith List Bool Lia Ring Ring_theory PeanoNat.
Import ListNotations.
Require Import TV.Base.Wrap32 TV.Base.D8 TV.gen.Gen_exact_scalar TV.gen.Gen_matmul_gf2 TV.Model.ExactScalar
  TV.Proofs.ExactScalarProofs TV.Model.Compile TV.Model.Evaluate.
Open Scope Z_scope.
Set Default Timeout 60.

Ltac Zify.zify_post_hook ::= Z.to_euclidean_division_equations.

(* ====================================================================== 1. GF(2) row sums *)
Lemma dot_nonneg mask : forall bits, 0 <= dot mask bits.
Proof.
  induction mask as [|m mask IH]; intros [|b bits]; cbn [dot]; try lia.
  specialize (IH bits). destruct (m && b); cbn [b2z]; lia.
Qed.

Lemma dot_parity mask : forall bits, dot mask bits mod 2 = b2z (parity mask bits).
Proof.
  induction mask as [|m mask IH]; intros [|b bits]; cbn [dot parity]; try reflexivity.
  specialize (IH bits). destruct (m && b), (parity mask bits); cbn [b2z xorb] in *; lia.
Qed.

Lemma b2z_binary b : b2z b = 0 \/ b2z b = 1.
Proof. destruct b; cbn; lia. Qed.

Lemma sat_u8_small z : 0 <= z <= 255 -> sat_u8 z = z.
Proof. unfold sat_u8. lia. Qed.

(* reducing mod 2 before the cast: correct for every width *)
Lemma gf2_gen_mod_first mask bits : matmul_gf2_gen true mask bits = b2z (parity mask bits).
Proof.
  unfold matmul_gf2_gen. rewrite dot_parity. apply sat_u8_small. destruct (parity mask bits); cbn; lia.
Qed.
(* casting first: correct only while fewer than 256 selected parameters are set *)
Lemma gf2_gen_cast_first_guarded mask bits : dot mask bits < 256 -> matmul_gf2_gen false mask bits = b2z (parity mask bits).
Proof.
  intro H. unfold matmul_gf2_gen. rewrite sat_u8_small by (pose proof (dot_nonneg mask bits); lia). apply dot_parity.
Qed.
Lemma gf2_gen_cast_first_refuted : exists mask bits, matmul_gf2_gen false mask bits <> b2z (parity mask bits).
Proof. exists (repeat true 256), (repeat true 256). vm_compute. discriminate. Qed.

(* the regenerated flag says "mod first"; this is where a reverted fix breaks the development *)
Lemma gf2_flag : gf2_mod_before_cast = true.
Proof. reflexivity. Qed.
Lemma gf2_correct mask bits : matmul_gf2 mask bits = b2z (parity mask bits).
Proof. unfold matmul_gf2. rewrite gf2_flag. apply gf2_gen_mod_first. Qed.
Lemma gf2_mod mask bits : matmul_gf2 mask bits = dot mask bits mod 2.
Proof. rewrite gf2_correct, dot_parity. reflexivity. Qed.
Lemma gf2_binary mask bits : matmul_gf2 mask bits = 0 \/ matmul_gf2 mask bits = 1.
Proof. rewrite gf2_correct. apply b2z_binary. Qed.

(* ====================================================================== 2. masks of variable sets *)
Definition binary (vals : var -> Z) : Prop := forall v, vals v = 0 \/ vals v = 1.
Definition row_of (vals : var -> Z) (ps : list var) : list bool := map (fun p => Z.odd (vals p)) ps.

Lemma zsum_cons x l : zsum (x :: l) = x + zsum l.
Proof. reflexivity. Qed.
Lemma zsum_nil : zsum [] = 0.
Proof. reflexivity. Qed.
Lemma zsum_app l1 l2 : zsum (l1 ++ l2) = zsum l1 + zsum l2.
Proof. induction l1 as [|x l1 IH]; cbn [app]; rewrite ?zsum_cons, ?zsum_nil, ?IH; lia. Qed.

Lemma dot_bitstr_sum vals ps vs : binary vals ->
  dot (bitstr ps vs) (row_of vals ps) = zsum (map (fun p => if mem p vs then vals p else 0) ps).
Proof.
  intro Hb. unfold bitstr, row_of. induction ps as [|p ps IH]; cbn [map dot]; [reflexivity|].
  rewrite zsum_cons, IH. f_equal.
  destruct (mem p vs); cbn [andb b2z]; [|reflexivity].
  destruct (Hb p) as [E|E]; rewrite E; reflexivity.
Qed.

Lemma zsum_single_out vals v ps : ~ In v ps -> zsum (map (fun p => if Nat.eqb p v then vals p else 0) ps) = 0.
Proof.
  induction ps as [|q ps IH]; intro Hn; cbn [map]; [reflexivity|]. rewrite zsum_cons.
  destruct (Nat.eqb q v) eqn:E; [apply Nat.eqb_eq in E; subst; exfalso; apply Hn; left; reflexivity|].
  rewrite IH; [lia|]. intro H. apply Hn. right. exact H.
Qed.
Lemma zsum_single vals v ps : NoDup ps -> In v ps -> zsum (map (fun p => if Nat.eqb p v then vals p else 0) ps) = vals v.
Proof.
  induction ps as [|p ps IH]; intros Hnd Hin; [destruct Hin|].
  inversion Hnd as [|? ? Hnp Hnd']; subst. cbn [map]. rewrite zsum_cons.
  destruct (Nat.eqb p v) eqn:E.
  - apply Nat.eqb_eq in E; subst p. rewrite zsum_single_out by assumption. lia.
  - destruct Hin as [->|Hin]; [rewrite Nat.eqb_refl in E; discriminate|]. rewrite IH by assumption. lia.
Qed.

Lemma zsum_map_add {A} (f g : A -> Z) l : zsum (map (fun x => f x + g x) l) = zsum (map f l) + zsum (map g l).
Proof. induction l as [|x l IH]; cbn [map]; rewrite ?zsum_cons, ?zsum_nil, ?IH; lia. Qed.

Lemma mem_In v vs : mem v vs = true <-> In v vs.
Proof.
  unfold mem. rewrite existsb_exists. split.
  - intros (x & Hx & E). apply Nat.eqb_eq in E. subst. exact Hx.
  - intro H. exists v. split; [exact H | apply Nat.eqb_refl].
Qed.

Lemma sum_over_params vals ps vs : NoDup ps -> vars_ok ps vs ->
  zsum (map (fun p => if mem p vs then vals p else 0) ps) = vsum vals vs.
Proof.
  intros Hps [Hnd Hincl]. unfold vsum. induction vs as [|v vs IH].
  - cbn [mem existsb map]. rewrite zsum_nil. clear Hps Hincl. induction ps as [|p ps IHp]; [reflexivity|]. cbn [map].
    rewrite zsum_cons, IHp. reflexivity.
  - inversion Hnd as [|? ? Hnv Hnd']; subst.
    transitivity (zsum (map (fun p => (if Nat.eqb p v then vals p else 0) + (if mem p vs then vals p else 0)) ps)).
    + f_equal. apply map_ext. intro p. unfold mem at 1. cbn [existsb]. fold (mem p vs).
      destruct (Nat.eqb p v) eqn:E; cbn [orb]; [|lia].
      apply Nat.eqb_eq in E; subst p. destruct (mem v vs) eqn:M; [apply mem_In in M; contradiction | lia].
    + rewrite zsum_map_add, zsum_single; [|assumption|apply Hincl; left; reflexivity].
      rewrite IH; [reflexivity | assumption | intros x Hx; apply Hincl; right; exact Hx].
Qed.

(* the row sum the evaluator computes for the mask of a variable set = parity of pyzx's sum over the set *)
Lemma rs_bitstr vals ps vs : binary vals -> NoDup ps -> vars_ok ps vs ->
  rs (row_of vals ps) (bitstr ps vs) = vsum vals vs mod 2.
Proof.
  intros Hb Hps Hvs. unfold rs. rewrite gf2_mod, dot_bitstr_sum, sum_over_params by assumption. reflexivity.
Qed.

Lemma dot_zero ps bits : dot (zero_bits ps) bits = 0.
Proof.
  unfold zero_bits. revert bits. induction ps as [|p ps IH]; intros [|b bits]; cbn [map dot]; try reflexivity.
  rewrite IH. reflexivity.
Qed.
Lemma rs_zero ps bits : rs bits (zero_bits ps) = 0.
Proof. unfold rs. rewrite gf2_mod, dot_zero. reflexivity. Qed.

Lemma rs_binary bits mask : rs bits mask = 0 \/ rs bits mask = 1.
Proof. apply gf2_binary. Qed.

Lemma pi_exp_cong a b : (4 * (u8 ((a mod 2) * (b mod 2)) mod 2)) mod 8 = (4 * (a * b)) mod 8.
Proof.
  unfold u8.
  assert (Hm : (a * b) mod 2 = ((a mod 2) * (b mod 2)) mod 2) by (apply Z.mul_mod; lia).
  assert (Hx : a mod 2 = 0 \/ a mod 2 = 1) by (pose proof (Z.mod_pos_bound a 2); lia).
  assert (Hy : b mod 2 = 0 \/ b mod 2 = 1) by (pose proof (Z.mod_pos_bound b 2); lia).
  remember (a * b) as P eqn:EP. clear EP.
  destruct Hx as [Ex|Ex], Hy as [Ey|Ey]; rewrite Ex, Ey in *; lia.
Qed.

Lemma vsum_nonneg vals vs : binary vals -> 0 <= vsum vals vs.
Proof.
  intro Hb. unfold vsum. induction vs as [|v vs IH]; cbn [map]; rewrite ?zsum_cons, ?zsum_nil; [lia|].
  destruct (Hb v); lia.
Qed.

(* ====================================================================== 3. the no-wrap guard makes int32 arithmetic exact *)
Lemma pow_ok_spec p : pow_ok p = true -> - 536870912 < p < 536870912.
Proof. unfold pow_ok. change (2 ^ 29) with 536870912. rewrite andb_true_iff, !Z.ltb_lt. tauto. Qed.

Lemma mul_fits_exact x y : mul_fits x y = true -> esa_mul x y = esa_mul_exact x y.
Proof.
  unfold mul_fits. rewrite !andb_true_iff, Z.ltb_lt. intros [[Hn Hx] Hy].
  apply pow_ok_spec in Hx, Hy. unfold esa_mul, esa_mul_exact. f_equal.
  - apply mul32_exact. exact Hn.
  - apply wrap32_id. unfold in32, H32. lia.
Qed.
Lemma mul_fits_pows x y : mul_fits x y = true -> - 536870912 < snd x < 536870912 /\ - 536870912 < snd y < 536870912.
Proof.
  unfold mul_fits. rewrite !andb_true_iff. intros [[_ Hx] Hy]. split; apply pow_ok_spec; assumption.
Qed.

(* NB: never let Coq convert `reduce (c, p)` with `reduce_fuel 34 (c, p)` (the kernel unfolds the 34 rounds); rewrite instead *)
Lemma reduce_unfold x : reduce x = reduce_fuel 34 x.
Proof. reflexivity. Qed.
Lemma reduce_sound c p c' p' : reduce (c, p) = Some (c', p') -> - 1073741824 < p < 1073741824 ->
  exists k, 0 <= k /\ p' = p + k /\ c = q4_scale (2 ^ k) c'.
Proof.
  intros H Hp. rewrite reduce_unfold in H.
  assert (Hin : in32 p) by (unfold in32, H32; lia).
  assert (Hlt : p + Z.of_nat 34 < H32) by (unfold H32; change (Z.of_nat 34) with 34; lia).
  destruct (reduce_fuel_sound 34 c p c' p' H Hin Hlt) as (k & Hk & Hp' & Hc & _).
  exists k. repeat split; try lia; assumption.
Qed.

(* aligned sum without wrap *)
Lemma norm1_nonneg x : 0 <= norm1 x.
Proof. destruct x as [[[a b] c] d]. cbn. lia. Qed.
Lemma norm1_add x y : norm1 (q4_add x y) <= norm1 x + norm1 y.
Proof. destruct x as [[[a1 b1] c1] d1], y as [[[a2 b2] c2] d2]. cbn. lia. Qed.
Lemma norm1_scale k x : norm1 (q4_scale k x) = Z.abs k * norm1 x.
Proof. destruct x as [[[a b] c] d]. cbn. rewrite !Z.abs_mul. lia. Qed.

Lemma align32_exact m x : 0 <= snd x - m < 31 -> norm1 (fst x) * 2 ^ (snd x - m) < H32 -> align32 m x = align_exact m x.
Proof.
  intros Hk Hn. unfold align32, align_exact, pow2_32.
  assert (Hp : 0 < 2 ^ (snd x - m)) by (apply Z.pow_pos_nonneg; lia).
  assert (Hp31 : 2 ^ (snd x - m) < H32).
  { unfold H32. change 2147483648 with (2 ^ 31). apply Z.pow_lt_mono_r; lia. }
  rewrite (Z.mod_small (snd x - m) 64) by lia.
  rewrite (wrap32_id (2 ^ (snd x - m))) by (unfold in32; lia).
  destruct (fst x) as [[[a b] c] d]. cbn [q4_map q4_scale norm1] in *.
  assert (Ha : Z.abs a * 2 ^ (snd x - m) < H32 /\ Z.abs b * 2 ^ (snd x - m) < H32 /\ Z.abs c * 2 ^ (snd x - m) < H32 /\ Z.abs d * 2 ^ (snd x - m) < H32) by nia.
  destruct Ha as (Ha & Hb & Hc & Hd).
  repeat match goal with |- (_, _) = (_, _) => apply f_equal2 end;
    rewrite wrap32_id; try ring; unfold in32; nia.
Qed.

Lemma fold_add32_exact l : forall acc, norm1 acc + zsum (map norm1 l) < H32 ->
  fold_left add32 l acc = fold_left q4_add l acc.
Proof.
  induction l as [|x l IH]; intros acc H; cbn [fold_left]; [reflexivity|].
  cbn [map] in H. rewrite zsum_cons in H.
  assert (Hl : 0 <= zsum (map norm1 l)).
  { clear. induction l as [|y l IHl]; cbn [map]; rewrite ?zsum_cons, ?zsum_nil; [lia|]. pose proof (norm1_nonneg y). lia. }
  assert (E : add32 acc x = q4_add acc x).
  { unfold add32. apply q4_map_wrap_id, norm1_small_in32. pose proof (norm1_add acc x). lia. }
  rewrite E. apply IH. pose proof (norm1_add acc x). lia.
Qed.

Lemma sum_guard_exact l : sum_guard l = true -> esa_sum l = esa_sum_exact l /\ exists s m, esa_sum_exact l = Some (s, m).
Proof.
  unfold sum_guard, esa_sum, esa_sum_exact. destruct (sum_min l) as [m|] eqn:Hm; [|discriminate].
  rewrite andb_true_iff, forallb_forall, Z.ltb_lt. intros [Hk Hs]. split; [|eauto].
  f_equal. f_equal.
  assert (Hge : forall x, In x l -> q4_is_zero (fst x) = false -> 0 <= snd x - m < 31).
  { intros x Hx Hz. specialize (Hk x Hx). rewrite Hz in Hk. cbn [orb] in Hk. apply Z.ltb_lt in Hk.
    pose proof (sum_min_le _ _ Hm x Hx Hz). lia. }
  assert (Hmap : map (align32z m) l = map (align_exactz m) l /\ zsum (map norm1 (map (align_exactz m) l)) <= zsum (map (fun x => norm1 (fst x) * 2 ^ (snd x - m)) l)).
  { clear Hm Hk. induction l as [|x l IH]; [split; [reflexivity | cbn; lia]|].
    cbn [map] in *. rewrite !zsum_cons in *.
    assert (Hnn : forall l', 0 <= zsum (map (fun x0 : q4 * Z => norm1 (fst x0) * 2 ^ (snd x0 - m)) l')).
    { intro l'. induction l' as [|y l' IHl']; cbn [map]; rewrite ?zsum_cons, ?zsum_nil; [lia|].
      pose proof (norm1_nonneg (fst y)). pose proof (Z.pow_nonneg 2 (snd y - m)). nia. }
    destruct IH as [IH1 IH2]; [pose proof (Hnn l); pose proof (norm1_nonneg (fst x)); pose proof (Z.pow_nonneg 2 (snd x - m)); nia | intros y Hy; apply Hge; right; exact Hy |].
    unfold align32z at 1, align_exactz at 1 3. destruct (q4_is_zero (fst x)) eqn:Hz.
    - split; [f_equal; exact IH1|]. cbn [q4_zero norm1 Z.abs]. pose proof (norm1_nonneg (fst x)). pose proof (Z.pow_nonneg 2 (snd x - m)). nia.
    - split.
      + f_equal; [|exact IH1]. apply align32_exact; [apply Hge; [left; reflexivity | exact Hz]|]. pose proof (Hnn l). lia.
      + unfold align_exact at 1. rewrite norm1_scale, Z.abs_eq by (apply Z.pow_nonneg; lia). nia. }
  destruct Hmap as [Hmap Hle]. rewrite Hmap. apply fold_add32_exact. cbn [q4_zero norm1 Z.abs]. lia.
Qed.

(* ====================================================================== 4. the ring: w^4 = -1, half + half = 1 *)
Section RingSem.
  Variable R : Type.
  Variables (rO rI : R) (radd rmul rsub : R -> R -> R) (ropp : R -> R).
  Variable Rth : ring_theory rO rI radd rmul rsub ropp eq.
  Add Ring RringC10 : Rth.
  Variable w : R.
  Hypothesis w4 : rmul (rmul w w) (rmul w w) = ropp rI.
  Variable half : R.
  Hypothesis half2 : radd half half = rI.
  Notation wpow := (wpow R rI rmul w).
  Notation den := (den R rO rI radd rmul ropp w).
  Notation ofZ := (ofZ R rO rI radd rmul ropp).
  Notation rpow := (rpow R rI rmul).
  Notation rprodl := (rprodl R rI rmul).
  Notation rsuml := (rsuml R rO radd).
  Notation zpow := (zpow R rI rmul).
  Notation r2 := (r2 R rI radd).
  Notation pow2 := (pow2 R rI radd rmul half).
  Notation sqrt2 := (sqrt2 R rmul rsub w).
  Notation sqrt2pow := (sqrt2pow R rI rmul rsub w half).
  Notation cexp4 := (cexp4 R rI rmul w).
  Notation dy_value := (dy_value R rO rI radd rmul ropp w half).
  Notation esa_value := (esa_value R rO rI radd rmul ropp w half).

  (* ---------------------------------------------------------------- powers *)
  Lemma rpow_add x a b : rpow x (a + b)%nat = rmul (rpow x a) (rpow x b).
  Proof. induction a as [|a IH]; cbn [Nat.add Compile.rpow]; [ring | rewrite IH; ring]. Qed.
  Lemma rprodl_app l1 l2 : rprodl (l1 ++ l2) = rmul (rprodl l1) (rprodl l2).
  Proof. induction l1 as [|x l1 IH]; cbn [app Compile.rprodl]; [ring | rewrite IH; ring]. Qed.
  Lemma rprodl_repeat_one n : rprodl (repeat rI n) = rI.
  Proof. induction n as [|n IH]; cbn [repeat Compile.rprodl]; [reflexivity | rewrite IH; ring]. Qed.
  Lemma rsuml_app l1 l2 : rsuml (l1 ++ l2) = radd (rsuml l1) (rsuml l2).
  Proof. induction l1 as [|x l1 IH]; cbn [app Compile.rsuml]; [ring | rewrite IH; ring]. Qed.

  Section ZPow.
    Variables b bi : R.
    Hypothesis b_inv : rmul b bi = rI.
    Lemma zpow_0 : zpow b bi 0 = rI.
    Proof. reflexivity. Qed.
    Lemma zpow_succ n : zpow b bi (n + 1) = rmul b (zpow b bi n).
    Proof.
      unfold Compile.zpow. destruct (0 <=? n) eqn:E1; destruct (0 <=? n + 1) eqn:E2;
        rewrite ?Z.leb_le, ?Z.leb_gt in E1, E2; try lia.
      - rewrite Z2Nat.inj_add by lia. change (Z.to_nat 1) with 1%nat. rewrite Nat.add_comm. cbn [Nat.add Compile.rpow]. reflexivity.
      - assert (n = -1) by lia. subst n. change (rI = rmul b (rmul bi rI)).
        transitivity (rmul (rmul b bi) rI); [rewrite b_inv; ring | ring].
      - replace (Z.to_nat (- n)) with (S (Z.to_nat (- (n + 1)))) by lia. cbn [Compile.rpow].
        transitivity (rmul (rmul b bi) (rpow bi (Z.to_nat (- (n + 1))))); [rewrite b_inv; ring | ring].
    Qed.
    Lemma zpow_pred n : zpow b bi (n - 1) = rmul bi (zpow b bi n).
    Proof.
      replace n with ((n - 1) + 1) at 2 by lia. rewrite zpow_succ.
      transitivity (rmul (rmul b bi) (zpow b bi (n - 1))); [rewrite b_inv; ring | ring].
    Qed.
    Lemma zpow_add n m : zpow b bi (n + m) = rmul (zpow b bi n) (zpow b bi m).
    Proof.
      revert m. apply Z.peano_ind.
      - rewrite Z.add_0_r, zpow_0. ring.
      - intros m IH. unfold Z.succ. rewrite Z.add_assoc, !zpow_succ, IH. ring.
      - intros m IH. unfold Z.pred. replace (n + (m + -1)) with ((n + m) - 1) by lia. replace (m + -1) with (m - 1) by lia.
        rewrite !zpow_pred, IH. ring.
    Qed.
    Lemma zpow_nonneg n : 0 <= n -> zpow b bi n = rpow b (Z.to_nat n).
    Proof. intro H. unfold Compile.zpow. apply Z.leb_le in H. rewrite H. reflexivity. Qed.
  End ZPow.

  Lemma r2_half : rmul r2 half = rI.
  Proof. unfold Compile.r2. transitivity (radd half half); [ring | exact half2]. Qed.
  Lemma pow2_add n m : pow2 (n + m) = rmul (pow2 n) (pow2 m).
  Proof. apply zpow_add, r2_half. Qed.
  Lemma pow2_0 : pow2 0 = rI.
  Proof. reflexivity. Qed.
  Lemma ofZ_2 : ofZ 2 = r2.
  Proof. reflexivity. Qed.
  Lemma pow2_ofZ k : 0 <= k -> pow2 k = ofZ (2 ^ k).
  Proof.
    intro Hk. pattern k. apply natlike_ind; [reflexivity | | exact Hk].
    intros x Hx IH. unfold Z.succ. rewrite Z.pow_add_r, Z.pow_1_r by lia.
    rewrite (ofZ_mul R rO rI radd rmul rsub ropp Rth), <- IH, ofZ_2.
    unfold Compile.pow2. rewrite (zpow_succ _ _ r2_half). ring.
  Qed.

  Lemma sqrt2_sq : rmul sqrt2 sqrt2 = r2.
  Proof.
    unfold Compile.sqrt2, Compile.r2.
    match goal with |- ?L = ?Rr =>
      assert (E : L = radd Rr (rmul (radd (rmul (rmul w w) (rmul w w)) rI) (rsub (rmul w w) (radd rI rI)))) by ring end.
    rewrite E, (w4_zero R rO rI radd rmul rsub ropp Rth w w4). ring.
  Qed.
  Lemma sqrt2_inv : rmul sqrt2 (rmul sqrt2 half) = rI.
  Proof. transitivity (rmul (rmul sqrt2 sqrt2) half); [ring | rewrite sqrt2_sq; apply r2_half]. Qed.
  Lemma sqrt2pow_add n m : sqrt2pow (n + m) = rmul (sqrt2pow n) (sqrt2pow m).
  Proof. apply zpow_add, sqrt2_inv. Qed.
  Lemma sqrt2pow_1 : sqrt2pow 1 = sqrt2.
  Proof. change (rmul sqrt2 rI = sqrt2). ring. Qed.
  Lemma sqrt2pow_even m : sqrt2pow (2 * m) = pow2 m.
  Proof.
    pattern m. apply Z.peano_ind.
    - reflexivity.
    - intros x IH. unfold Z.succ. replace (2 * (x + 1)) with (2 * x + 1 + 1) by lia.
      unfold Compile.sqrt2pow in *. rewrite !(zpow_succ _ _ sqrt2_inv), IH.
      unfold Compile.pow2. rewrite (zpow_succ _ _ r2_half), <- sqrt2_sq. ring.
    - intros x IH. unfold Z.pred. replace (2 * (x + -1)) with (2 * x - 1 - 1) by lia. replace (x + -1) with (x - 1) by lia.
      unfold Compile.sqrt2pow in *. rewrite !(zpow_pred _ _ sqrt2_inv), IH.
      unfold Compile.pow2. rewrite (zpow_pred _ _ r2_half).
      transitivity (rmul (rmul (rmul sqrt2 sqrt2) half) (rmul half (zpow r2 half x))); [ring|].
      rewrite sqrt2_sq, r2_half. ring.
  Qed.

  (* ---------------------------------------------------------------- powers of w; exponents only matter mod 8 *)
  Definition wz (e : Z) : R := wpow (Z.to_nat (e mod 8)).
  Lemma wpow_add a b : wpow (a + b)%nat = rmul (wpow a) (wpow b).
  Proof. induction a as [|a IH]; cbn [Nat.add D8.wpow]; [ring | rewrite IH; ring]. Qed.
  Lemma wpow_8 : wpow 8 = rI.
  Proof.
    cbn [D8.wpow].
    match goal with |- ?L = _ => assert (E : L = rmul (rmul (rmul w w) (rmul w w)) (rmul (rmul w w) (rmul w w))) by ring end.
    rewrite E, w4. ring.
  Qed.
  Lemma wpow_mod8 n : wpow n = wpow (n mod 8)%nat.
  Proof.
    rewrite (Nat.div_mod n 8) at 1 by lia. generalize (n / 8)%nat as q. intro q.
    induction q as [|q IH]; [rewrite Nat.mul_0_r; reflexivity|].
    replace (8 * S q + n mod 8)%nat with (8 + (8 * q + n mod 8))%nat by lia.
    rewrite wpow_add, wpow_8, IH. ring.
  Qed.
  Lemma wz_add a b : wz (a + b) = rmul (wz a) (wz b).
  Proof.
    unfold wz. rewrite <- wpow_add, (wpow_mod8 (_ + _)). f_equal.
    apply Nat2Z.inj. rewrite Nat2Z.inj_mod, Nat2Z.inj_add, !Z2Nat.id by (apply Z.mod_pos_bound; lia).
    change (Z.of_nat 8) with 8. lia.
  Qed.
  Lemma wz_cong a b : a mod 8 = b mod 8 -> wz a = wz b.
  Proof. unfold wz. intros ->. reflexivity. Qed.
  Lemma cexp4_wz e : 0 <= e -> cexp4 e = wz e.
  Proof.
    intro He. unfold Compile.cexp4, wz. rewrite wpow_mod8. f_equal.
    apply Nat2Z.inj. rewrite Nat2Z.inj_mod, !Z2Nat.id by (try apply Z.mod_pos_bound; lia). reflexivity.
  Qed.
  Lemma wz_0 : wz 0 = rI.
  Proof. reflexivity. Qed.
  Lemma wz_4 : wz 4 = ropp rI.
  Proof.
    unfold wz. change (Z.to_nat (4 mod 8)) with 4%nat. cbn [D8.wpow]. rewrite <- w4. ring.
  Qed.
  Lemma wz_zsum l : wz (zsum l) = rprodl (map wz l).
  Proof. induction l as [|x l IH]; cbn [map Compile.rprodl]; rewrite ?zsum_cons, ?zsum_nil; [apply wz_0 | rewrite wz_add, IH; reflexivity]. Qed.

  Lemma to_nat_mod8_lt e : (Z.to_nat (e mod 8) < 8)%nat.
  Proof. pose proof (Z.mod_pos_bound e 8). lia. Qed.
  Lemma den_unit_wz e : den (unit_phase (Z.to_nat (e mod 8))) = wz e.
  Proof. unfold wz. apply (den_unit_phase R rO rI radd rmul rsub ropp Rth w w4), to_nat_mod8_lt. Qed.
  Lemma den_one_plus_wz e : den (one_plus_phase (Z.to_nat (e mod 8))) = radd rI (wz e).
  Proof. unfold wz. apply (den_one_plus_phase R rO rI radd rmul rsub ropp Rth w w4), to_nat_mod8_lt. Qed.
  Lemma den_identity : den identity_d8 = rI.
  Proof. rewrite identity_is_one. apply (den_one R rO rI radd rmul rsub ropp Rth). Qed.

  (* ---------------------------------------------------------------- values of ExactScalarArray elements *)
  Lemma esa_value_pow0 c : esa_value (c, 0) = den c.
  Proof. unfold Evaluate.esa_value, den4; cbn [fst snd]. rewrite pow2_0. ring. Qed.
  Lemma esa_value_identity : esa_value (@pair q4 Z identity_d8 0) = rI.
  Proof. rewrite esa_value_pow0. apply den_identity. Qed.
  Lemma esa_value_mul_exact x y : esa_value (esa_mul_exact x y) = rmul (esa_value x) (esa_value y).
  Proof.
    unfold Evaluate.esa_value, esa_mul_exact, den4; cbn [fst snd].
    rewrite (den_scalar_mul R rO rI radd rmul rsub ropp Rth w w4), pow2_add. ring.
  Qed.
  Lemma esa_value_scale k c p : 0 <= k -> esa_value (q4_scale (2 ^ k) c, p) = esa_value (c, p + k).
  Proof.
    intro Hk. unfold Evaluate.esa_value, den4; cbn [fst snd].
    rewrite (den_scale R rO rI radd rmul rsub ropp Rth), pow2_add, (pow2_ofZ k Hk). ring.
  Qed.
  Lemma esa_value_reduce x r : reduce x = Some r -> - 1073741824 < snd x < 1073741824 -> esa_value r = esa_value x.
  Proof.
    destruct x as [c p], r as [c' p']. cbn [snd]. intros H Hp. destruct (reduce_sound _ _ _ _ H Hp) as (k & Hk & -> & ->).
    symmetry. apply esa_value_scale. exact Hk.
  Qed.

  Lemma combine_value a x r : mul_fits a x = true -> combine a x = Some r -> esa_value r = rmul (esa_value a) (esa_value x).
  Proof.
    intros Hf H. rewrite <- esa_value_mul_exact.
    destruct (mul_fits_pows _ _ Hf) as [Ha Hx].
    assert (Hc : combine a x = if prod_reduces then reduce (esa_mul_exact a x) else Some (esa_mul_exact a x)).
    { unfold combine. rewrite (mul_fits_exact _ _ Hf). reflexivity. }
    rewrite Hc in H. clear Hc.
    destruct prod_reduces.
    - apply esa_value_reduce in H; [exact H|]. unfold esa_mul_exact. cbn [snd]. lia.
    - inversion H. reflexivity.
  Qed.
  Lemma fold_combine_value l : forall acc, fold_guard l acc = true ->
    exists r, fold_combine l acc = Some r /\ esa_value r = rmul (esa_value acc) (rprodl (map esa_value l)).
  Proof.
    induction l as [|x l IH]; intros acc Hg; cbn [fold_combine fold_guard map Compile.rprodl] in *.
    - exists acc. split; [reflexivity | ring].
    - apply andb_true_iff in Hg. destruct Hg as [Hf Hg].
      destruct (combine acc x) as [a|] eqn:Hc; [|discriminate].
      destruct (IH a Hg) as (r & Hr & Hv). exists r. split; [exact Hr|].
      rewrite Hv, (combine_value _ _ _ Hf Hc). ring.
  Qed.
  Lemma esa_prod_value l : prod_guard l = true ->
    exists r, esa_prod l = Some r /\ esa_value r = rprodl (map esa_value l).
  Proof.
    destruct l as [|x l]; intro Hg; cbn [esa_prod prod_guard map Compile.rprodl] in *.
    - exists (q4_one, 0). split; [reflexivity|]. rewrite <- identity_is_one. apply esa_value_identity.
    - apply fold_combine_value. exact Hg.
  Qed.
  Lemma chain_value l : forall acc, chain_guard l acc = true ->
    esa_value (fold_left esa_mul l acc) = rmul (esa_value acc) (rprodl (map esa_value l)).
  Proof.
    induction l as [|x l IH]; intros acc Hg; cbn [fold_left chain_guard map Compile.rprodl] in *; [ring|].
    apply andb_true_iff in Hg. destruct Hg as [Hf Hg].
    rewrite (IH _ Hg), (mul_fits_exact _ _ Hf), esa_value_mul_exact. ring.
  Qed.

  (* aligned sum *)
  Lemma esa_sum_value l s : sum_guard l = true -> esa_sum l = Some s -> esa_value s = rsuml (map esa_value l).
  Proof.
    intros Hg Hs. destruct (sum_guard_exact l Hg) as [E (c & m & Hex)]. rewrite E, Hex in Hs. inversion Hs; subst s.
    destruct (den_sum_exact R rO rI radd rmul rsub ropp Rth w l c m Hex) as (Hden & Hmin & _).
    unfold Evaluate.esa_value at 1, den4. cbn [fst snd]. rewrite Hden.
    clear Hden Hex Hs E Hg. induction l as [|x l IH]; cbn [map ExactScalarProofs.rsum Compile.rsuml]; [ring|].
    rewrite <- IH by (intros y Hy; apply Hmin; right; exact Hy).
    specialize (Hmin x (or_introl eq_refl)).
    unfold Evaluate.esa_value, den4.
    destruct (q4_is_zero (fst x)) eqn:Hz.
    - rewrite (q4_is_zero_eq _ Hz), (den_zero R rO rI radd rmul rsub ropp Rth). ring.
    - specialize (Hmin eq_refl).
      replace (pow2 (snd x)) with (pow2 (m + (snd x - m))) by (f_equal; lia).
      rewrite pow2_add, (pow2_ofZ (snd x - m)) by lia. ring.
  Qed.

  (* ---------------------------------------------------------------- masking and padding *)
  Lemma masked_app {A} (f : A -> q4) l1 : forall j num l2,
    masked f j num (l1 ++ l2) = masked f j num l1 ++ masked f (j + Z.of_nat (length l1)) num l2.
  Proof.
    induction l1 as [|t l1 IH]; intros j num l2; cbn [app masked length].
    - rewrite Z.add_0_r. reflexivity.
    - rewrite IH. do 3 f_equal. lia.
  Qed.
  Lemma masked_inside {A} (f : A -> q4) l : forall j num, j + Z.of_nat (length l) <= num ->
    map esa_value (masked f j num l) = map (fun t => den (f t)) l.
  Proof.
    induction l as [|t l IH]; intros j num H; cbn [masked map length] in *; [reflexivity|].
    destruct (j <? num) eqn:E; [|apply Z.ltb_ge in E; lia]. rewrite esa_value_pow0, IH by lia. reflexivity.
  Qed.
  Lemma masked_outside {A} (f : A -> q4) l : forall j num, num <= j -> rprodl (map esa_value (masked f j num l)) = rI.
  Proof.
    induction l as [|t l IH]; intros j num H; cbn [masked map Compile.rprodl]; [reflexivity|].
    destruct (j <? num) eqn:E; [apply Z.ltb_lt in E; lia|]. rewrite esa_value_identity, IH by lia. ring.
  Qed.
  Lemma masked_pad_prod {A} (f : A -> q4) (real : list A) d k :
    rprodl (map esa_value (masked f 0 (Z.of_nat (length real)) (pad d k real))) = rprodl (map (fun t => den (f t)) real).
  Proof.
    unfold pad. rewrite masked_app, map_app, rprodl_app, masked_inside, masked_outside by lia. ring.
  Qed.
  Lemma zsum_pad_zero {A} (f : A -> Z) d k real : f d = 0 -> zsum (map f (pad d k real)) = zsum (map f real).
  Proof.
    intro Hd. unfold pad. rewrite map_app, zsum_app. generalize (k - length real)%nat as n. intro n.
    induction n as [|n IH]; cbn [repeat map]; rewrite ?zsum_cons, ?zsum_nil in *; lia.
  Qed.

  (* ---------------------------------------------------------------- the four term types against pyzx's factors *)
  Section Terms.
    Variable vals : var -> Z.
    Variable ps : list var.
    Hypothesis Hbin : binary vals.
    Hypothesis Hps : NoDup ps.
    Notation bits := (row_of vals ps).
    Notation node_value := (node_value R rI radd rmul w vals).
    Notation pair_value := (pair_value R rI radd rmul rsub w vals).
    Notation halfpi_value := (halfpi_value R rI rmul w vals).
    Notation pipair_value := (pipair_value R rI rmul w vals).

    (* A *)
    Lemma val_a_value k vs : byte k -> vars_ok ps vs -> den (val_a bits (k, bitstr ps vs)) = node_value (k, vs).
    Proof.
      intros Hk Hvs. unfold val_a, idx_a, Compile.node_value. cbn [fst snd]. rewrite rs_bitstr by assumption.
      rewrite den_one_plus_wz. f_equal. pose proof (vsum_nonneg vals vs Hbin). unfold byte in Hk.
      rewrite cexp4_wz by lia. apply wz_cong. unfold u8. lia.
    Qed.
    Lemma a_terms_value g : Forall (fun t => byte (fst t) /\ vars_ok ps (snd t)) (s_phasenodes g) ->
      map (fun t => den (val_a bits t)) (a_terms ps g) = map node_value (s_phasenodes g).
    Proof.
      intro Hwf. unfold a_terms. rewrite map_map. apply map_ext_in. intros [k vs] Hin.
      rewrite Forall_forall in Hwf. destruct (Hwf _ Hin) as [Hk Hvs]. cbn [fst snd] in *. apply val_a_value; assumption.
    Qed.

    (* B *)
    Definition bval (d : list (list bool * Z)) : R := rprodl (map (fun e => wz (2 * snd e * rs bits (fst e))) d).
    Lemma bl_eqb_eq a : forall b, bl_eqb a b = true -> a = b.
    Proof.
      induction a as [|x a IH]; intros [|y b] H; cbn [bl_eqb] in H; try discriminate; [reflexivity|].
      apply andb_true_iff in H. destruct H as [H1 H2]. apply Bool.eqb_prop in H1. rewrite H1, (IH _ H2). reflexivity.
    Qed.
    Lemma wz_acc v j r : r = 0 \/ r = 1 -> wz (2 * ((v + j) mod 4) * r) = rmul (wz (2 * v * r)) (wz (2 * j * r)).
    Proof. intros [-> | ->]; rewrite <- wz_add; apply wz_cong; lia. Qed.
    Lemma bval_acc_add key j d : bval (acc_add key j d) = rmul (bval d) (wz (2 * j * rs bits key)).
    Proof.
      unfold bval. induction d as [|e d IH]; cbn [acc_add map Compile.rprodl fst snd].
      - rewrite (wz_acc 0 j _ (rs_binary _ _)). cbn [Z.mul]. rewrite wz_0. ring.
      - destruct (bl_eqb (fst e) key) eqn:E; cbn [map Compile.rprodl fst snd].
        + apply bl_eqb_eq in E. rewrite <- E, (wz_acc _ _ _ (rs_binary _ _)). ring.
        + rewrite IH. ring.
    Qed.
    Lemma bval_fold j l : forall d,
      bval (fold_left (fun d vs => acc_add (bitstr ps vs) j d) l d) = rmul (bval d) (rprodl (map (fun vs => wz (2 * j * rs bits (bitstr ps vs))) l)).
    Proof.
      induction l as [|vs l IH]; intro d; cbn [fold_left map Compile.rprodl]; [ring|].
      rewrite IH, bval_acc_add. ring.
    Qed.
    Lemma idx_b_wz v key : wz (idx_b bits (v * 2, key)) = wz (2 * v * rs bits key).
    Proof.
      unfold idx_b, u8. cbn [fst snd]. destruct (rs_binary bits key) as [E|E]; rewrite E; apply wz_cong; lia.
    Qed.
    Lemma b_terms_bval d :
      rprodl (map wz (map (idx_b bits) (map (fun e => (snd e * 2, fst e)) (filter (fun e => negb (snd e =? 0)) d)))) = bval d.
    Proof.
      unfold bval. induction d as [|e d IH]; cbn [filter map Compile.rprodl]; [reflexivity|].
      destruct (snd e =? 0) eqn:E; cbn [negb map Compile.rprodl fst snd].
      - apply Z.eqb_eq in E. rewrite E, IH, Z.mul_0_r, Z.mul_0_l, wz_0. ring.
      - rewrite IH, idx_b_wz. reflexivity.
    Qed.
    Lemma halfpi_wz j vs : 0 <= j -> vars_ok ps vs -> wz (2 * j * rs bits (bitstr ps vs)) = halfpi_value j vs.
    Proof.
      intros Hj Hvs. unfold Compile.halfpi_value. rewrite rs_bitstr by assumption.
      rewrite cexp4_wz by (pose proof (Z.mod_pos_bound (vsum vals vs) 2); nia). f_equal. ring.
    Qed.
    Lemma b_terms_value g : Forall (vars_ok ps) (s_halfpi1 g) -> Forall (vars_ok ps) (s_halfpi3 g) ->
      wz (zsum (map (idx_b bits) (b_terms ps g)))
      = rmul (rprodl (map (halfpi_value 1) (s_halfpi1 g))) (rprodl (map (halfpi_value 3) (s_halfpi3 g))).
    Proof.
      intros H1 H3. rewrite wz_zsum. unfold b_terms. rewrite b_terms_bval. unfold b_acc. rewrite !bval_fold.
      unfold bval at 1. cbn [map Compile.rprodl].
      assert (E : forall j l, 0 <= j -> Forall (vars_ok ps) l ->
                  map (fun vs => wz (2 * j * rs bits (bitstr ps vs))) l = map (halfpi_value j) l).
      { intros j l Hj Hl. apply map_ext_in. intros vs Hin. rewrite Forall_forall in Hl. apply halfpi_wz; [exact Hj | apply Hl; exact Hin]. }
      rewrite !E by (assumption || lia). ring.
    Qed.

    (* C *)
    Lemma side_parity (s : pside) : vars_ok ps (snd s) ->
      u8 (b2z (fst s) + rs bits (bitstr ps (snd s))) mod 2 = side_sum vals s mod 2.
    Proof.
      intro Hs. rewrite rs_bitstr by assumption. unfold side_sum, u8. destruct (b2z_binary (fst s)) as [E|E]; rewrite E; lia.
    Qed.
    Lemma exp_c_value (pq : pside * pside) : vars_ok ps (snd (fst pq)) -> vars_ok ps (snd (snd pq)) ->
      wz (4 * exp_c bits (b2z (fst (fst pq)), bitstr ps (snd (fst pq)), b2z (fst (snd pq)), bitstr ps (snd (snd pq)))) = pipair_value pq.
    Proof.
      intros Ha Hb. unfold exp_c, Compile.pipair_value. rewrite !side_parity by assumption.
      assert (Hnn : forall s : pside, 0 <= side_sum vals s).
      { intro s. unfold side_sum. pose proof (vsum_nonneg vals (snd s) Hbin). destruct (b2z_binary (fst s)); lia. }
      pose proof (Hnn (fst pq)). pose proof (Hnn (snd pq)).
      rewrite cexp4_wz by nia. apply wz_cong.
      apply pi_exp_cong.
    Qed.
    Lemma ev_c_den S : den (q4_scale (1 - 2 * (S mod 2)) (1, 0, 0, 0)) = wz (4 * S).
    Proof.
      rewrite (den_scale R rO rI radd rmul rsub ropp Rth). change (1, 0, 0, 0) with q4_one.
      rewrite (den_one R rO rI radd rmul rsub ropp Rth).
      pose proof (Z.mod_pos_bound S 2 ltac:(lia)) as Hb. assert (Hc : S mod 2 = 0 \/ S mod 2 = 1) by lia.
      destruct Hc as [E|E]; rewrite E.
      - change (1 - 2 * 0) with 1. rewrite (ofZ_1 R rO rI radd rmul rsub ropp Rth), <- wz_0.
        transitivity (wz 0); [rewrite wz_0; ring | apply wz_cong; lia].
      - change (1 - 2 * 1) with (-1). rewrite (ofZ_m1 R rO rI radd rmul ropp), <- wz_4.
        transitivity (wz 4); [rewrite wz_4; ring | apply wz_cong; lia].
    Qed.
    Lemma wz_scale_zsum c l : wz (c * zsum l) = rprodl (map (fun x => wz (c * x)) l).
    Proof.
      induction l as [|x l IH]; cbn [map Compile.rprodl]; rewrite ?zsum_cons, ?zsum_nil.
      - rewrite Z.mul_0_r. apply wz_0.
      - rewrite Z.mul_add_distr_l, wz_add, IH. reflexivity.
    Qed.
    Lemma c_terms_value g : Forall (fun pq => vars_ok ps (snd (fst pq)) /\ vars_ok ps (snd (snd pq))) (s_pi_pair g) ->
      wz (4 * zsum (map (exp_c bits) (c_terms ps g))) = rprodl (map pipair_value (s_pi_pair g)).
    Proof.
      intro Hwf. rewrite wz_scale_zsum. unfold c_terms. rewrite !map_map. f_equal. apply map_ext_in.
      intros pq Hin. rewrite Forall_forall in Hwf. destruct (Hwf _ Hin) as [Ha Hb]. apply exp_c_value; assumption.
    Qed.

    (* D *)
    Lemma den_sub x y : den (q4_sub x y) = rsub (den x) (den y).
    Proof.
      unfold q4_sub. rewrite (den_add R rO rI radd rmul rsub ropp Rth), (den_scale R rO rI radd rmul rsub ropp Rth),
        (ofZ_m1 R rO rI radd rmul ropp). ring.
    Qed.
    Lemma val_d_value pp : byte (sp_alpha pp) -> byte (sp_beta pp) -> vars_ok ps (sp_A pp) -> vars_ok ps (sp_B pp) ->
      den (val_d bits (sp_alpha pp, sp_beta pp, bitstr ps (sp_A pp), bitstr ps (sp_B pp))) = pair_value pp.
    Proof.
      intros Ha Hb HA HB. unfold val_d, Compile.pair_value. cbv beta iota zeta.
      rewrite den_sub, !(den_add R rO rI radd rmul rsub ropp Rth), !den_unit_wz, den_identity.
      rewrite !rs_bitstr by assumption.
      pose proof (vsum_nonneg vals (sp_A pp) Hbin). pose proof (vsum_nonneg vals (sp_B pp) Hbin). unfold byte in *.
      rewrite !cexp4_wz by lia.
      f_equal; [f_equal; [f_equal|]|]; apply wz_cong; unfold u8; lia.
    Qed.
    Lemma d_terms_value g :
      Forall (fun pp => byte (sp_alpha pp) /\ byte (sp_beta pp) /\ vars_ok ps (sp_A pp) /\ vars_ok ps (sp_B pp)) (s_phasepairs g) ->
      map (fun t => den (val_d bits t)) (d_terms ps g) = map pair_value (s_phasepairs g).
    Proof.
      intro Hwf. unfold d_terms. rewrite map_map. apply map_ext_in. intros pp Hin.
      rewrite Forall_forall in Hwf. destruct (Hwf _ Hin) as (Ha & Hb & HA & HB). apply val_d_value; assumption.
    Qed.
  End Terms.

  (* ---------------------------------------------------------------- static part: DyadicNumber, sqrt2 power, phase *)
  Lemma halve_den c : all_even c = true -> den c = rmul r2 (den (halve c)).
  Proof.
    intro H. rewrite <- (halve_double c H) at 1. rewrite (den_scale R rO rI radd rmul rsub ropp Rth), ofZ_2. reflexivity.
  Qed.
  Lemma pow2_succ n : pow2 (n + 1) = rmul r2 (pow2 n).
  Proof. apply zpow_succ, r2_half. Qed.
  Lemma dy_norm_value n : forall k c d, dy_norm_fuel n k c = Some d -> dy_value d = rmul (den c) (pow2 (- k)).
  Proof.
    induction n as [|n IH]; intros k c d H; cbn [dy_norm_fuel] in H; destruct (all_even c) eqn:E; try discriminate.
    - inversion H. reflexivity.
    - apply IH in H. rewrite H, (halve_den c E). replace (- (k - 1)) with (- k + 1) by lia. rewrite pow2_succ. ring.
    - inversion H. reflexivity.
  Qed.
  Lemma dy_make_value k c d : dy_make k c = Some d -> dy_value d = rmul (den c) (pow2 (- k)).
  Proof. apply dy_norm_value. Qed.
  Lemma dy_mul_value x y d : dy_mul x y = Some d -> dy_value d = rmul (dy_value x) (dy_value y).
  Proof.
    intro H. apply dy_make_value in H. rewrite H. unfold Compile.dy_value, den4.
    rewrite (den_mul_ref R rO rI radd rmul rsub ropp Rth w w4). replace (- (dy_k x + dy_k y)) with (- dy_k x + - dy_k y) by lia.
    rewrite pow2_add. ring.
  Qed.
  Lemma dy_sqrt2_value : dy_value dy_sqrt2 = sqrt2.
  Proof.
    unfold Compile.dy_value, dy_sqrt2, den4, Compile.sqrt2. cbn [dy_c dy_k D8.den Z.opp]. rewrite pow2_0.
    rewrite (ofZ_0 R rO rI radd rmul rsub ropp Rth), (ofZ_1 R rO rI radd rmul rsub ropp Rth). ring.
  Qed.
  Lemma static_float_value g p2 ff : static_float g = Some (p2, ff) ->
    rmul (den ff) (pow2 p2) = rmul (sqrt2pow (s_power2 g)) (dy_value (s_floatfactor g)).
  Proof.
    unfold static_float. destruct (dy_make (dy_k (s_floatfactor g)) (dy_c (s_floatfactor g))) as [dn|] eqn:E1; [|discriminate].
    apply dy_make_value in E1.
    assert (E1' : dy_value dn = dy_value (s_floatfactor g)) by exact E1. clear E1.
    destruct (Z.odd (s_power2 g)) eqn:Eo.
    - destruct (dy_mul dn dy_sqrt2) as [dn'|] eqn:E2; [|discriminate]. intro H.
      assert (Hp : p2 = (s_power2 g - 1 - 2 * dy_k dn') / 2 /\ ff = dy_c dn') by (split; congruence).
      destruct Hp as [-> ->]. clear H.
      apply dy_mul_value in E2. rewrite dy_sqrt2_value, E1' in E2.
      apply Z.odd_spec in Eo. destruct Eo as [m Hm]. rewrite Hm.
      replace ((2 * m + 1 - 1 - 2 * dy_k dn') / 2) with (m + - dy_k dn') by lia.
      rewrite pow2_add, sqrt2pow_add, sqrt2pow_even, sqrt2pow_1.
      transitivity (rmul (rmul (den (dy_c dn')) (pow2 (- dy_k dn'))) (pow2 m)); [ring|].
      change (rmul (den (dy_c dn')) (pow2 (- dy_k dn'))) with (dy_value dn'). rewrite E2. ring.
    - intro H.
      assert (Hp : p2 = (s_power2 g - 2 * dy_k dn) / 2 /\ ff = dy_c dn) by (split; congruence).
      destruct Hp as [-> ->]. clear H.
      assert (Ee : Z.even (s_power2 g) = true) by (rewrite <- Z.negb_odd, Eo; reflexivity).
      apply Z.even_spec in Ee. destruct Ee as [m Hm]. rewrite Hm.
      replace ((2 * m - 2 * dy_k dn) / 2) with (m + - dy_k dn) by lia.
      rewrite pow2_add, sqrt2pow_even.
      transitivity (rmul (rmul (den (dy_c dn)) (pow2 (- dy_k dn))) (pow2 m)); [ring|].
      change (rmul (den (dy_c dn)) (pow2 (- dy_k dn))) with (dy_value dn). rewrite E1'. ring.
  Qed.

  Variable cexp : Z -> positive -> R.
  Variable opq : Z -> R.
  Notation afac_value := (afac_value R rI rmul cexp opq).
  Notation scalar_value := (scalar_value R rO rI radd rmul rsub ropp w half cexp opq).
  Notation result_value := (result_value R rO rI radd rmul ropp w half cexp opq).
  Hypothesis cexp_1 : forall n, 0 <= n -> cexp n 1 = cexp4 (4 * n).
  Hypothesis cexp_2 : forall n, 0 <= n -> cexp n 2 = cexp4 (2 * n).
  Hypothesis cexp_4 : forall n, 0 <= n -> cexp n 4 = cexp4 n.

  Lemma quarter_den_cases d m : quarter_den d = Some m -> (d = 1%positive /\ m = 4) \/ (d = 2%positive /\ m = 2) \/ (d = 4%positive /\ m = 1).
  Proof.
    unfold quarter_den. destruct d as [d|d|]; try discriminate.
    - destruct d as [d|d|]; try discriminate. destruct d; try discriminate. intro H; inversion H. right. right. split; reflexivity.
      intro H; inversion H. right. left. split; reflexivity.
    - intro H; inversion H. left. split; reflexivity.
  Qed.
  Lemma static_phase_value g :
    0 <= s_phase_n g -> (forall m, quarter_den (s_phase_d g) = Some m -> s_phase_n g * m < 8) ->
    rmul (den (unit_phase (Z.to_nat (Z.min (fst (static_phase g)) 7)))) (afac_value (snd (static_phase g)))
    = rmul (cexp (s_phase_n g) (s_phase_d g)) (afac_value (s_approx g)).
  Proof.
    intros Hn Hlt. unfold static_phase. destruct (quarter_den (s_phase_d g)) as [m|] eqn:E; cbn [fst snd].
    - specialize (Hlt m eq_refl). f_equal.
      assert (Hm : 0 < m) by (destruct (quarter_den_cases _ _ E) as [[_ ->]|[[_ ->]|[_ ->]]]; lia).
      assert (Hidx : 0 <= s_phase_n g * m) by nia.
      rewrite Z.min_l by lia. rewrite <- (Z.mod_small (s_phase_n g * m) 8) at 1 by lia.
      rewrite den_unit_wz, <- cexp4_wz by lia.
      destruct (quarter_den_cases _ _ E) as [[-> ->]|[[-> ->]|[-> ->]]].
      + rewrite cexp_1 by lia. f_equal. lia.
      + rewrite cexp_2 by lia. f_equal. lia.
      + rewrite cexp_4 by lia. f_equal. lia.
    - change (Z.to_nat (Z.min 0 7)) with (Z.to_nat (0 mod 8)). rewrite den_unit_wz, wz_0. cbn [Compile.afac_value]. ring.
  Qed.

  (* ---------------------------------------------------------------- one graph, and the sum over graphs *)
  Section Graphs.
    Variable vals : var -> Z.
    Variable ps : list var.
    Hypothesis Hbin : binary vals.
    Hypothesis Hps : NoDup ps.
    Notation bits := (row_of vals ps).

    Lemma idx_b_pad : idx_b bits (0, zero_bits ps) = 0.
    Proof. unfold idx_b. cbn [fst snd]. rewrite rs_zero. reflexivity. Qed.
    Lemma exp_c_pad : exp_c bits (0, zero_bits ps, 0, zero_bits ps) = 0.
    Proof. unfold exp_c. rewrite rs_zero. reflexivity. Qed.

    Lemma graph_value g cg ma mb mc md : wf_scalar ps g -> s_is_zero g = false ->
      compile_one ps ma mb mc md g = Some cg -> graph_guard bits cg = true ->
      exists t, ev_total bits cg = Some t /\ pow_ok (snd t + cg_power2 cg) = true /\
        rmul (rmul (esa_value t) (afac_value (cg_approx cg))) (pow2 (cg_power2 cg)) = scalar_value vals g.
    Proof.
      intros Hwf Hnz Hc Hg. destruct Hwf as [Hwn Hwp Hw1 Hw3 Hwpi [Hph0 Hph1] _].
      unfold compile_one in Hc. destruct (static_float g) as [[p2 ff]|] eqn:Esf; [|discriminate].
      inversion Hc; subst cg; clear Hc.
      unfold graph_guard in Hg. cbn [cg_a cg_a_num cg_d cg_d_num cg_power2] in Hg.
      apply andb_true_iff in Hg. destruct Hg as [Hg Hrest]. apply andb_true_iff in Hg. destruct Hg as [Hga Hgd].
      destruct (esa_prod_value _ Hga) as (ra & Era & Vra). destruct (esa_prod_value _ Hgd) as (rd & Erd & Vrd).
      rewrite masked_pad_prod, (a_terms_value vals ps Hbin Hps g Hwn) in Vra.
      rewrite masked_pad_prod, (d_terms_value vals ps Hbin Hps g Hwp) in Vrd.
      unfold ev_total, ev_a, ev_d in *. cbn [cg_a cg_a_num cg_d cg_d_num cg_power2 cg_approx] in *.
      rewrite Era, Erd in *.
      apply andb_true_iff in Hrest. destruct Hrest as [Hrest Hpow]. apply andb_true_iff in Hrest. destruct Hrest as [Hrest _].
      apply andb_true_iff in Hrest. destruct Hrest as [Hchain _].
      eexists. split; [reflexivity|]. split; [exact Hpow|].
      rewrite (chain_value _ _ Hchain). unfold ev_factors. cbn [map Compile.rprodl].
      unfold ev_b, ev_c, ev_static, ev_float. cbn [cg_b cg_c cg_phase_idx cg_float].
      rewrite !esa_value_pow0, den_unit_wz, ev_c_den.
      rewrite (zsum_pad_zero (idx_b bits)) by apply idx_b_pad.
      rewrite (zsum_pad_zero (exp_c bits)) by apply exp_c_pad.
      rewrite (b_terms_value vals ps Hbin Hps g Hw1 Hw3), (c_terms_value vals ps Hbin Hps g Hwpi), Vra, Vrd.
      pose proof (static_phase_value g Hph0 Hph1) as HS. pose proof (static_float_value g p2 ff Esf) as HF.
      unfold Compile.scalar_value. rewrite Hnz.
      match goal with |- rmul (rmul (rmul ?a (rmul ?B (rmul ?C (rmul ?d (rmul ?S (rmul ?F rI)))))) ?afv) ?P2 = _ =>
        transitivity (rmul (rmul (rmul (rmul (rmul a B) C) d) (rmul S afv)) (rmul F P2)); [ring|] end.
      rewrite HS, HF. ring.
    Qed.

    Lemma all_some_Forall2 {A B} (f : A -> option B) l : forall l', all_some (map f l) = Some l' -> Forall2 (fun x y => f x = Some y) l l'.
    Proof.
      induction l as [|x l IH]; intros l' H; cbn [map all_some] in H.
      - inversion H. constructor.
      - destruct (f x) as [y|] eqn:E; [|discriminate]. destruct (all_some (map f l)) as [r|]; [|discriminate].
        inversion H. constructor; [exact E | apply IH; reflexivity].
    Qed.
    Lemma scalar_value_zero g : s_is_zero g = true -> scalar_value vals g = rO.
    Proof. intro H. unfold Compile.scalar_value. rewrite H. reflexivity. Qed.
    Lemma rsuml_filter_zero gs :
      rsuml (map (scalar_value vals) (filter (fun g => negb (s_is_zero g)) gs)) = rsuml (map (scalar_value vals) gs).
    Proof.
      induction gs as [|g gs IH]; cbn [filter map Compile.rsuml]; [reflexivity|].
      destruct (s_is_zero g) eqn:E; cbn [negb map Compile.rsuml]; rewrite IH; [rewrite (scalar_value_zero g E); ring | reflexivity].
    Qed.
    Lemma filter_nonzero gs g : In g (filter (fun g => negb (s_is_zero g)) gs) -> In g gs /\ s_is_zero g = false.
    Proof. rewrite filter_In. intros [H1 H2]. split; [exact H1 | destruct (s_is_zero g); [discriminate | reflexivity]]. Qed.

    (* approximate branch *)
    Lemma approx_sum ma mb mc md kept cgs :
      Forall2 (fun g cg => compile_one ps ma mb mc md g = Some cg) kept cgs ->
      Forall (fun g => wf_scalar ps g /\ s_is_zero g = false) kept ->
      forallb (graph_guard bits) cgs = true ->
      exists l, all_some (map (ev_approx_one bits) cgs) = Some l /\
        result_value (EvApprox l) = rsuml (map (scalar_value vals) kept).
    Proof.
      intro H2. induction H2 as [|g cg kept cgs H1 H2 IH]; intros Hwf Hg.
      - exists []. split; reflexivity.
      - apply Forall_cons_iff in Hwf. destruct Hwf as [[Hw Hz] Hwf'].
        cbn [forallb] in Hg. apply andb_true_iff in Hg. destruct Hg as [Hg1 Hg2].
        destruct (IH Hwf' Hg2) as (l & El & Vl).
        destruct (graph_value g cg ma mb mc md Hw Hz H1 Hg1) as (t & Et & _ & Vt).
        cbn [map all_some]. unfold ev_approx_one at 1. rewrite Et, El.
        eexists. split; [reflexivity|].
        cbn [Evaluate.result_value map Compile.rsuml fst snd] in *. rewrite Vl, Vt. reflexivity.
    Qed.

    (* exact branch *)
    Lemma exact_sum ma mb mc md kept cgs :
      Forall2 (fun g cg => compile_one ps ma mb mc md g = Some cg) kept cgs ->
      forall l, Forall (fun g => wf_scalar ps g /\ s_is_zero g = false) kept ->
      forallb (graph_guard bits) cgs = true ->
      Forall (fun cg => cg_approx cg = AOne) cgs ->
      all_some (map (ev_exact_one bits) cgs) = Some l ->
      rsuml (map esa_value l) = rsuml (map (scalar_value vals) kept).
    Proof.
      intro H2. induction H2 as [|g cg kept cgs H1 H2 IH]; intros l Hwf Hg Hone Hl.
      - cbn in Hl. assert (l = []) by congruence. subst l. reflexivity.
      - apply Forall_cons_iff in Hwf. destruct Hwf as [[Hw Hz] Hwf'].
        cbn [forallb] in Hg. apply andb_true_iff in Hg. destruct Hg as [Hg1 Hg2].
        apply Forall_cons_iff in Hone. destruct Hone as [Ho1 Hone'].
        cbn [map all_some] in Hl. destruct (ev_exact_one bits cg) as [r|] eqn:Er; [|discriminate].
        destruct (all_some (map (ev_exact_one bits) cgs)) as [l0|] eqn:El0; [|discriminate].
        assert (l = r :: l0) by congruence. subst l. clear Hl.
        cbn [map Compile.rsuml]. rewrite (IH l0 Hwf' Hg2 Hone' eq_refl). f_equal.
        destruct (graph_value g cg ma mb mc md Hw Hz H1 Hg1) as (t & Et & Hpw & Vt).
        unfold ev_exact_one in Er. rewrite Et in Er. apply pow_ok_spec in Hpw.
        rewrite wrap32_id in Er by (unfold in32, H32; lia).
        apply esa_value_reduce in Er; [|cbn [snd]; lia].
        rewrite Er, <- Vt, Ho1. unfold Evaluate.esa_value. cbn [fst snd Compile.afac_value]. rewrite pow2_add. ring.
    Qed.

    Theorem eval_correct gs c : Forall (wf_scalar ps) gs -> compile_scalar_graphs gs ps = Some c ->
      eval_guard bits c = true ->
      exists r, evaluate bits c = Some r /\ result_value r = rsuml (map (scalar_value vals) gs).
    Proof.
      intros Hwf Hc Hg. unfold compile_scalar_graphs in Hc.
      set (kept := filter (fun g => negb (s_is_zero g)) gs) in *.
      destruct (all_some (map _ kept)) as [cgs|] eqn:Ecgs; [|discriminate].
      assert (Hc' : c = mkC (length ps) (existsb (fun cg => negb (afac_is_one (cg_approx cg))) cgs) cgs) by congruence. subst c. clear Hc.
      apply all_some_Forall2 in Ecgs.
      assert (Hk : Forall (fun g => wf_scalar ps g /\ s_is_zero g = false) kept).
      { apply Forall_forall. intros g Hin. apply filter_nonzero in Hin. destruct Hin as [Hin Hz].
        rewrite Forall_forall in Hwf. split; [apply Hwf; exact Hin | exact Hz]. }
      unfold evaluate, eval_guard in *. rewrite <- (rsuml_filter_zero gs). fold kept.
      destruct (eval_empty_returns_zero && no_graphs _) eqn:Eempty.
      { apply andb_true_iff in Eempty. destruct Eempty as [_ Hnil]. unfold no_graphs in Hnil. cbn [c_graphs] in Hnil.
        destruct cgs; [|discriminate]. inversion Ecgs as [Hk0|]. eexists. split; [reflexivity|].
        cbn [Evaluate.result_value map Compile.rsuml]. unfold Evaluate.esa_value, den4. cbn [fst snd].
        rewrite (den_zero R rO rI radd rmul rsub ropp Rth). ring. }
      cbn [c_graphs c_has_approx] in *. apply andb_true_iff in Hg. destruct Hg as [Hgg Hgs].
      destruct (existsb (fun cg => negb (afac_is_one (cg_approx cg))) cgs) eqn:Eap.
      - destruct (approx_sum _ _ _ _ kept cgs Ecgs Hk Hgg) as (l & El & Vl). rewrite El. eexists. split; [reflexivity | exact Vl].
      - destruct (all_some (map (ev_exact_one bits) cgs)) as [l|] eqn:El; [|discriminate].
        destruct (sum_guard_exact l Hgs) as [E (s0 & m & Hex)].
        rewrite E, Hex. eexists. split; [reflexivity|]. cbn [Evaluate.result_value].
        rewrite (esa_sum_value l (s0, m) Hgs) by (rewrite E; exact Hex).
        apply (exact_sum _ _ _ _ kept cgs Ecgs l Hk Hgg); [|exact El].
        apply Forall_forall. intros cg Hin.
        assert (Hn : negb (afac_is_one (cg_approx cg)) = false).
        { destruct (negb (afac_is_one (cg_approx cg))) eqn:En; [|reflexivity].
          assert (Hex' : existsb (fun cg => negb (afac_is_one (cg_approx cg))) cgs = true) by (apply existsb_exists; exists cg; split; assumption).
          rewrite Hex' in Eap. discriminate. }
        destruct (cg_approx cg); cbn in Hn; [reflexivity | discriminate | discriminate].
    Qed.
  End Graphs.
End RingSem.

(* ====================================================================== 5. compile never fails on well-formed scalars *)
Lemma norm1_pos_iff c : c <> q4_zero <-> 0 < norm1 c.
Proof.
  destruct c as [[[a b] c0] d]. unfold q4_zero, norm1. split.
  - intro H. destruct (Z.eq_dec a 0), (Z.eq_dec b 0), (Z.eq_dec c0 0), (Z.eq_dec d 0); subst; try lia. exfalso. apply H. reflexivity.
  - intros H E. inversion E. subst. cbn in H. lia.
Qed.
Lemma norm1_halve c : all_even c = true -> 2 * norm1 (halve c) = norm1 c.
Proof. intro H. rewrite <- (halve_double c H) at 2. rewrite norm1_scale. reflexivity. Qed.

Lemma dy_norm_total n : forall k c, 0 < norm1 c < 2 ^ Z.of_nat n -> exists d, dy_norm_fuel n k c = Some d /\ dy_c d <> q4_zero.
Proof.
  induction n as [|n IH]; intros k c Hc; cbn [dy_norm_fuel].
  - cbn in Hc. lia.
  - destruct (all_even c) eqn:E.
    + apply IH. pose proof (norm1_halve c E). rewrite Nat2Z.inj_succ, Z.pow_succ_r in Hc by lia. lia.
    + eexists. split; [reflexivity|]. cbn [dy_c]. apply norm1_pos_iff. lia.
Qed.
Lemma dy_make_total k c : c <> q4_zero -> exists d, dy_make k c = Some d /\ dy_c d <> q4_zero.
Proof.
  intro Hc. apply norm1_pos_iff in Hc. unfold dy_make, dy_fuel. apply dy_norm_total. split; [exact Hc|].
  rewrite Nat2Z.inj_succ, Z2Nat.id by apply Z.log2_nonneg. apply Z.log2_spec. exact Hc.
Qed.
Lemma mul_sqrt2_nonzero c : c <> q4_zero -> q4_mul_ref c (0, 1, 0, 1) <> q4_zero.
Proof.
  destruct c as [[[a b] c0] d]. unfold q4_mul_ref, q4_zero. intros H E. apply H. inversion E. f_equal; [f_equal; [f_equal|]|]; lia.
Qed.
Lemma static_float_total g : dy_c (s_floatfactor g) <> q4_zero -> exists r, static_float g = Some r.
Proof.
  intro H. unfold static_float. destruct (dy_make_total (dy_k (s_floatfactor g)) _ H) as (dn & -> & Hdn).
  destruct (Z.odd (s_power2 g)); [|eexists; reflexivity].
  unfold dy_mul, dy_sqrt2. cbn [dy_c dy_k].
  destruct (dy_make_total (dy_k dn + 0) _ (mul_sqrt2_nonzero _ Hdn)) as (dn' & -> & _). eexists. reflexivity.
Qed.
Lemma all_some_total {A B} (f : A -> option B) l : Forall (fun x => exists y, f x = Some y) l -> exists l', all_some (map f l) = Some l'.
Proof.
  induction 1 as [|x l [y Hy] _ [l' IH]]; cbn [map all_some]; [eexists; reflexivity|]. rewrite Hy, IH. eexists. reflexivity.
Qed.
Theorem compile_total gs ps : Forall (wf_scalar ps) gs -> exists c, compile_scalar_graphs gs ps = Some c.
Proof.
  intro Hwf. unfold compile_scalar_graphs.
  match goal with |- context [all_some (map ?f ?l)] => destruct (all_some_total f l) as [cgs ->] end; [|eexists; reflexivity].
  apply Forall_forall. intros g Hin. apply filter_In in Hin. destruct Hin as [Hin _].
  rewrite Forall_forall in Hwf. destruct (Hwf g Hin) as [_ _ _ _ _ _ Hff].
  unfold compile_one. destruct (static_float_total g Hff) as [[p2 ff] ->]. eexists. reflexivity.
Qed.

(* when every graph is the zero scalar nothing is left: without the guard at the top of `evaluate` the reductions over the
   empty graph axis raise; with it the result is 0 (which of the two holds is regenerated from the source) *)
Lemma all_zero_compiled gs ps c : Forall (fun g => s_is_zero g = true) gs -> compile_scalar_graphs gs ps = Some c ->
  c = mkC (length ps) false [].
Proof.
  intros Hz Hc. unfold compile_scalar_graphs in Hc.
  assert (Hk : filter (fun g => negb (s_is_zero g)) gs = []).
  { clear Hc. induction Hz as [|g gs Hg _ IH]; cbn [filter]; [reflexivity|]. rewrite Hg. exact IH. }
  rewrite Hk in Hc. cbn in Hc. congruence.
Qed.
Theorem all_zero_raises gs ps c bits : eval_empty_returns_zero = false ->
  Forall (fun g => s_is_zero g = true) gs -> compile_scalar_graphs gs ps = Some c -> evaluate bits c = None.
Proof. intros Hf Hz Hc. rewrite (all_zero_compiled gs ps c Hz Hc). unfold evaluate. rewrite Hf. reflexivity. Qed.
Theorem all_zero_value gs ps c bits : eval_empty_returns_zero = true ->
  Forall (fun g => s_is_zero g = true) gs -> compile_scalar_graphs gs ps = Some c ->
  evaluate bits c = Some (EvExact (q4_zero, 0)) /\ eval_guard bits c = true.
Proof.
  intros Hf Hz Hc. rewrite (all_zero_compiled gs ps c Hz Hc). unfold evaluate, eval_guard. rewrite Hf. split; reflexivity.
Qed.

(* every 0/1 row of param_vals is `row_of vals ps` for some binary vals (params without duplicates) *)
Lemma row_of_surjective ps : NoDup ps -> forall bits, length bits = length ps ->
  exists vals, binary vals /\ row_of vals ps = bits.
Proof.
  induction ps as [|p ps IH]; intros Hnd bits Hlen.
  - destruct bits; [|discriminate]. exists (fun _ => 0). split; [intro; left; reflexivity | reflexivity].
  - destruct bits as [|b bits]; [discriminate|]. inversion Hnd as [|? ? Hnp Hnd']; subst.
    destruct (IH Hnd' bits ltac:(cbn in Hlen; lia)) as (vals & Hb & Hr).
    exists (fun v => if Nat.eqb v p then b2z b else vals v). split.
    + intro v. destruct (Nat.eqb v p); [apply b2z_binary | apply Hb].
    + unfold row_of in *. cbn [map]. rewrite Nat.eqb_refl. f_equal; [destruct b; reflexivity|].
      rewrite <- Hr. apply map_ext_in. intros q Hq. destruct (Nat.eqb q p) eqn:E; [|reflexivity].
      apply Nat.eqb_eq in E. subst q. contradiction.
Qed.

(* ====================================================================== 6. non-vacuity helpers *)
(* a boolean version of wf_scalar, so that concrete examples are checked by computation *)
Fixpoint nodupb (l : list var) : bool := match l with [] => true | x :: r => negb (mem x r) && nodupb r end.
Definition vars_okb (ps vs : list var) : bool := nodupb vs && forallb (fun v => mem v ps) vs.
Definition byteb (k : Z) : bool := (0 <=? k) && (k <? 256).
Definition wf_scalarb (ps : list var) (g : scalar) : bool :=
  forallb (fun t => byteb (fst t) && vars_okb ps (snd t)) (s_phasenodes g) &&
  forallb (fun pp => byteb (sp_alpha pp) && byteb (sp_beta pp) && vars_okb ps (sp_A pp) && vars_okb ps (sp_B pp)) (s_phasepairs g) &&
  forallb (vars_okb ps) (s_halfpi1 g) && forallb (vars_okb ps) (s_halfpi3 g) &&
  forallb (fun pq => vars_okb ps (snd (fst pq)) && vars_okb ps (snd (snd pq))) (s_pi_pair g) &&
  (0 <=? s_phase_n g) && (match quarter_den (s_phase_d g) with Some m => s_phase_n g * m <? 8 | None => true end) &&
  negb (is_zero4 (dy_c (s_floatfactor g))).

Lemma nodupb_sound l : nodupb l = true -> NoDup l.
Proof.
  induction l as [|x l IH]; cbn [nodupb]; intro H; constructor; apply andb_true_iff in H; destruct H as [H1 H2].
  - intro Hin. apply mem_In in Hin. rewrite Hin in H1. discriminate.
  - apply IH. exact H2.
Qed.
Lemma vars_okb_sound ps vs : vars_okb ps vs = true -> vars_ok ps vs.
Proof.
  unfold vars_okb, vars_ok. rewrite andb_true_iff, forallb_forall. intros [H1 H2]. split; [apply nodupb_sound; exact H1|].
  intros v Hv. apply mem_In. apply H2. exact Hv.
Qed.
Lemma byteb_sound k : byteb k = true -> byte k.
Proof. unfold byteb, byte. rewrite andb_true_iff, Z.leb_le, Z.ltb_lt. tauto. Qed.
Lemma wf_scalarb_sound ps g : wf_scalarb ps g = true -> wf_scalar ps g.
Proof.
  unfold wf_scalarb. rewrite !andb_true_iff. intros [[[[[[[H1 H2] H3] H4] H5] H6] H7] H8].
  rewrite forallb_forall in H1, H2, H3, H4, H5.
  constructor.
  - apply Forall_forall. intros t Ht. specialize (H1 t Ht). apply andb_true_iff in H1. destruct H1 as [Ha Hb].
    split; [apply byteb_sound | apply vars_okb_sound]; assumption.
  - apply Forall_forall. intros t Ht. specialize (H2 t Ht). rewrite !andb_true_iff in H2. destruct H2 as [[[Ha Hb] Hc] Hd].
    split; [apply byteb_sound; assumption|]. split; [apply byteb_sound; assumption|]. split; apply vars_okb_sound; assumption.
  - apply Forall_forall. intros t Ht. apply vars_okb_sound, H3, Ht.
  - apply Forall_forall. intros t Ht. apply vars_okb_sound, H4, Ht.
  - apply Forall_forall. intros t Ht. specialize (H5 t Ht). apply andb_true_iff in H5. destruct H5 as [Ha Hb].
    split; apply vars_okb_sound; assumption.
  - split; [apply Z.leb_le; exact H6|]. intros m Hm. rewrite Hm in H7. apply Z.ltb_lt. exact H7.
  - intro E. rewrite E in H8. discriminate.
Qed.

(* a non-trivial ring meeting the hypotheses of the semantic theorems: Q(w) = Q[x]/(x^4+1), power basis *)
From Coq Require Import QArith Qcanon.
Module QW.
  Local Open Scope Qc_scope.
  Definition t := (Qc * Qc * Qc * Qc)%type.
  Definition zero : t := (0, 0, 0, 0).
  Definition one : t := (1, 0, 0, 0).
  Definition add (x y : t) : t := let '(a0, a1, a2, a3) := x in let '(b0, b1, b2, b3) := y in (a0 + b0, a1 + b1, a2 + b2, a3 + b3).
  Definition opp (x : t) : t := let '(a0, a1, a2, a3) := x in (- a0, - a1, - a2, - a3).
  Definition sub (x y : t) : t := add x (opp y).
  Definition mul (x y : t) : t :=
    let '(a0, a1, a2, a3) := x in let '(b0, b1, b2, b3) := y in
    (a0 * b0 - a1 * b3 - a2 * b2 - a3 * b1,
     a0 * b1 + a1 * b0 - a2 * b3 - a3 * b2,
     a0 * b2 + a1 * b1 + a2 * b0 - a3 * b3,
     a0 * b3 + a1 * b2 + a2 * b1 + a3 * b0).
  Definition w : t := (0, 1, 0, 0).
  Definition half : t := (Q2Qc (1 # 2), 0, 0, 0).
  Ltac t4 := repeat match goal with x : t |- _ => destruct x as [[[? ?] ?] ?] end; unfold sub; unfold add, mul, opp, zero, one;
             repeat match goal with |- (_, _) = (_, _) => apply f_equal2 end; try ring.
  Lemma ring : ring_theory zero one add mul sub opp eq.
  Proof. constructor; intros; t4. Qed.
  Lemma w4 : mul (mul w w) (mul w w) = opp one.
  Proof. unfold w. t4. Qed.
  Lemma half2 : add half half = one.
  Proof. unfold half. t4. apply Qc_is_canon. reflexivity. Qed.
  Lemma nontrivial : zero <> one.
  Proof. unfold zero, one. intro H. inversion H. Qed.
End QW.
