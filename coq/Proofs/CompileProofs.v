(* Lemmas for C10: the model of compile_scalar_graphs + evaluate computes the sum of pyzx's evaluate_scalar formula. *)
From Coq Require Import ZArith List Bool Lia Ring Ring_theory PeanoNat.
Import ListNotations.
Require Import TV.Base.Wrap32 TV.Base.D8 TV.gen.Gen_exact_scalar TV.gen.Gen_matmul_gf2 TV.Model.ExactScalar
  TV.Proofs.ExactScalarProofs TV.Model.Compile TV.Model.Evaluate.
Open Scope Z_scope.
Set Default Timeout 60.

Ltac Zify.zify_post_hook ::= Z.to_euclidean_division_equations.

(* ====================================================================== 1. GF(2) row sums *)
Lemma dot_nonneg mask : forall bits, 0 <= dot mask bits.
Proof.
  induction mask as [|m mask IH]; intros [|b bits]; cbn [dot]; try lia.
  specialize (IH bits). destruct (m && b); cbn [b2z]; lia.
Qed.

Lemma dot_parity mask : forall bits, dot mask bits mod 2 = b2z (parity mask bits).
Proof.
  induction mask as [|m mask IH]; intros [|b bits]; cbn [dot parity]; try reflexivity.
  specialize (IH bits). destruct (m && b), (parity mask bits); cbn [b2z xorb] in *; lia.
Qed.

Lemma b2z_binary b : b2z b = 0 \/ b2z b = 1.
Proof. destruct b; cbn; lia. Qed.

Lemma sat_u8_small z : 0 <= z <= 255 -> sat_u8 z = z.
Proof. unfold sat_u8. lia. Qed.

(* reducing mod 2 before the cast: correct for every width *)
Lemma gf2_gen_mod_first mask bits : matmul_gf2_gen true mask bits = b2z (parity mask bits).
Proof.
  unfold matmul_gf2_gen. rewrite dot_parity. apply sat_u8_small. destruct (parity mask bits); cbn; lia.
Qed.
(* casting first: correct only while fewer than 256 selected parameters are set *)
Lemma gf2_gen_cast_first_guarded mask bits : dot mask bits < 256 -> matmul_gf2_gen false mask bits = b2z (parity mask bits).
Proof.
  intro H. unfold matmul_gf2_gen. rewrite sat_u8_small by (pose proof (dot_nonneg mask bits); lia). apply dot_parity.
Qed.
Lemma gf2_gen_cast_first_refuted : exists mask bits, matmul_gf2_gen false mask bits <> b2z (parity mask bits).
Proof. exists (repeat true 256), (repeat true 256). vm_compute. discriminate. Qed.

(* the regenerated flag says "mod first"; this is where a reverted fix breaks the development *)
Lemma gf2_flag : gf2_mod_before_cast = true.
Proof. reflexivity. Qed.
Lemma gf2_correct mask bits : matmul_gf2 mask bits = b2z (parity mask bits).
Proof. unfold matmul_gf2. rewrite gf2_flag. apply gf2_gen_mod_first. Qed.
Lemma gf2_mod mask bits : matmul_gf2 mask bits = dot mask bits mod 2.
Proof. rewrite gf2_correct, dot_parity. reflexivity. Qed.
Lemma gf2_binary mask bits : matmul_gf2 mask bits = 0 \/ matmul_gf2 mask bits = 1.
Proof. rewrite gf2_correct. apply b2z_binary. Qed.

(* ====================================================================== 2. masks of variable sets *)
Definition binary (vals : var -> Z) : Prop := forall v, vals v = 0 \/ vals v = 1.
Definition row_of (vals : var -> Z) (ps : list var) : list bool := map (fun p => Z.odd (vals p)) ps.

Lemma zsum_cons x l : zsum (x :: l) = x + zsum l.
Proof. reflexivity. Qed.
Lemma zsum_nil : zsum [] = 0.
Proof. reflexivity. Qed.
Lemma zsum_app l1 l2 : zsum (l1 ++ l2) = zsum l1 + zsum l2.
Proof. induction l1 as [|x l1 IH]; cbn [app]; rewrite ?zsum_cons, ?zsum_nil, ?IH; lia. Qed.

Lemma dot_bitstr_sum vals ps vs : binary vals ->
  dot (bitstr ps vs) (row_of vals ps) = zsum (map (fun p => if mem p vs then vals p else 0) ps).
Proof.
  intro Hb. unfold bitstr, row_of. induction ps as [|p ps IH]; cbn [map dot]; [reflexivity|].
  rewrite zsum_cons, IH. f_equal.
  destruct (mem p vs); cbn [andb b2z]; [|reflexivity].
  destruct (Hb p) as [E|E]; rewrite E; reflexivity.
Qed.

Lemma zsum_single_out vals v ps : ~ In v ps -> zsum (map (fun p => if Nat.eqb p v then vals p else 0) ps) = 0.
Proof.
  induction ps as [|q ps IH]; intro Hn; cbn [map]; [reflexivity|]. rewrite zsum_cons.
  destruct (Nat.eqb q v) eqn:E; [apply Nat.eqb_eq in E; subst; exfalso; apply Hn; left; reflexivity|].
  rewrite IH; [lia|]. intro H. apply Hn. right. exact H.
Qed.
Lemma zsum_single vals v ps : NoDup ps -> In v ps -> zsum (map (fun p => if Nat.eqb p v then vals p else 0) ps) = vals v.
Proof.
  induction ps as [|p ps IH]; intros Hnd Hin; [destruct Hin|].
  inversion Hnd as [|? ? Hnp Hnd']; subst. cbn [map]. rewrite zsum_cons.
  destruct (Nat.eqb p v) eqn:E.
  - apply Nat.eqb_eq in E; subst p. rewrite zsum_single_out by assumption. lia.
  - destruct Hin as [->|Hin]; [rewrite Nat.eqb_refl in E; discriminate|]. rewrite IH by assumption. lia.
Qed.

Lemma zsum_map_add {A} (f g : A -> Z) l : zsum (map (fun x => f x + g x) l) = zsum (map f l) + zsum (map g l).
Proof. induction l as [|x l IH]; cbn [map]; rewrite ?zsum_cons, ?zsum_nil, ?IH; lia. Qed.

Lemma mem_In v vs : mem v vs = true <-> In v vs.
Proof.
  unfold mem. rewrite existsb_exists. split.
  - intros (x & Hx & E). apply Nat.eqb_eq in E. subst. exact Hx.
  - intro H. exists v. split; [exact H | apply Nat.eqb_refl].
Qed.

Lemma sum_over_params vals ps vs : NoDup ps -> vars_ok ps vs ->
  zsum (map (fun p => if mem p vs then vals p else 0) ps) = vsum vals vs.
Proof.
  intros Hps [Hnd Hincl]. unfold vsum. induction vs as [|v vs IH].
  - cbn [mem existsb map]. rewrite zsum_nil. clear Hps Hincl. induction ps as [|p ps IHp]; [reflexivity|]. cbn [map].
    rewrite zsum_cons, IHp. reflexivity.
  - inversion Hnd as [|? ? Hnv Hnd']; subst.
    transitivity (zsum (map (fun p => (if Nat.eqb p v then vals p else 0) + (if mem p vs then vals p else 0)) ps)).
    + f_equal. apply map_ext. intro p. unfold mem at 1. cbn [existsb]. fold (mem p vs).
      destruct (Nat.eqb p v) eqn:E; cbn [orb]; [|lia].
      apply Nat.eqb_eq in E; subst p. destruct (mem v vs) eqn:M; [apply mem_In in M; contradiction | lia].
    + rewrite zsum_map_add, zsum_single; [|assumption|apply Hincl; left; reflexivity].
      rewrite IH; [reflexivity | assumption | intros x Hx; apply Hincl; right; exact Hx].
Qed.

(* the row sum the evaluator computes for the mask of a variable set = parity of pyzx's sum over the set *)
Lemma rs_bitstr vals ps vs : binary vals -> NoDup ps -> vars_ok ps vs ->
  rs (row_of vals ps) (bitstr ps vs) = vsum vals vs mod 2.
Proof.
  intros Hb Hps Hvs. unfold rs. rewrite gf2_mod, dot_bitstr_sum, sum_over_params by assumption. reflexivity.
Qed.

Lemma dot_zero ps bits : dot (zero_bits ps) bits = 0.
Proof.
  unfold zero_bits. revert bits. induction ps as [|p ps IH]; intros [|b bits]; cbn [map dot]; try reflexivity.
  rewrite IH. reflexivity.
Qed.
Lemma rs_zero ps bits : rs bits (zero_bits ps) = 0.
Proof. unfold rs. rewrite gf2_mod, dot_zero. reflexivity. Qed.

Lemma vsum_nonneg vals vs : binary vals -> 0 <= vsum vals vs.
Proof.
  intro Hb. unfold vsum. induction vs as [|v vs IH]; cbn [map]; rewrite ?zsum_cons, ?zsum_nil; [lia|].
  destruct (Hb v); lia.
Qed.

(* ====================================================================== 3. the no-wrap guard makes int32 arithmetic exact *)
Lemma pow_ok_spec p : pow_ok p = true -> - 2 ^ 29 < p < 2 ^ 29.
Proof. unfold pow_ok. rewrite andb_true_iff, !Z.ltb_lt. tauto. Qed.

Lemma mul_fits_exact x y : mul_fits x y = true -> esa_mul x y = esa_mul_exact x y.
Proof.
  unfold mul_fits. rewrite !andb_true_iff, Z.ltb_lt. intros [[Hn Hx] Hy].
  apply pow_ok_spec in Hx, Hy. unfold esa_mul, esa_mul_exact. f_equal.
  - apply mul32_exact. exact Hn.
  - apply wrap32_id. unfold in32, H32. change (2 ^ 29) with 536870912 in *. lia.
Qed.
Lemma mul_fits_pows x y : mul_fits x y = true -> - 2 ^ 29 < snd x < 2 ^ 29 /\ - 2 ^ 29 < snd y < 2 ^ 29.
Proof.
  unfold mul_fits. rewrite !andb_true_iff. intros [[_ Hx] Hy]. split; apply pow_ok_spec; assumption.
Qed.

Lemma reduce_sound c p c' p' : reduce (c, p) = Some (c', p') -> - 2 ^ 30 < p < 2 ^ 30 ->
  exists k, 0 <= k /\ p' = p + k /\ c = q4_scale (2 ^ k) c'.
Proof.
  intros H Hp. unfold reduce in H. apply reduce_fuel_sound in H.
  - destruct H as (k & Hk & Hp' & Hc & _). exists k. repeat split; try lia; assumption.
  - unfold in32, H32. change (2 ^ 30) with 1073741824 in Hp. lia.
  - unfold H32. change (2 ^ 30) with 1073741824 in Hp. change (Z.of_nat 34) with 34. lia.
Qed.

(* aligned sum without wrap *)
Lemma norm1_nonneg x : 0 <= norm1 x.
Proof. destruct x as [[[a b] c] d]. cbn. lia. Qed.
Lemma norm1_add x y : norm1 (q4_add x y) <= norm1 x + norm1 y.
Proof. destruct x as [[[a1 b1] c1] d1], y as [[[a2 b2] c2] d2]. cbn. lia. Qed.
Lemma norm1_scale k x : norm1 (q4_scale k x) = Z.abs k * norm1 x.
Proof. destruct x as [[[a b] c] d]. cbn. rewrite !Z.abs_mul. lia. Qed.

Lemma align32_exact m x : 0 <= snd x - m < 31 -> norm1 (fst x) * 2 ^ (snd x - m) < H32 -> align32 m x = align_exact m x.
Proof.
  intros Hk Hn. unfold align32, align_exact, pow2_32.
  assert (Hp : 0 < 2 ^ (snd x - m)) by (apply Z.pow_pos_nonneg; lia).
  assert (Hp31 : 2 ^ (snd x - m) < H32).
  { unfold H32. change 2147483648 with (2 ^ 31). apply Z.pow_lt_mono_r; lia. }
  rewrite (Z.mod_small (snd x - m) 64) by lia.
  rewrite (wrap32_id (2 ^ (snd x - m))) by (unfold in32; lia).
  destruct (fst x) as [[[a b] c] d]. cbn [q4_map q4_scale norm1] in *.
  assert (Ha : Z.abs a * 2 ^ (snd x - m) < H32 /\ Z.abs b * 2 ^ (snd x - m) < H32 /\ Z.abs c * 2 ^ (snd x - m) < H32 /\ Z.abs d * 2 ^ (snd x - m) < H32) by nia.
  destruct Ha as (Ha & Hb & Hc & Hd).
  repeat match goal with |- (_, _) = (_, _) => apply f_equal2 end;
    rewrite wrap32_id; try ring; unfold in32; nia.
Qed.

Lemma fold_add32_exact l : forall acc, norm1 acc + zsum (map norm1 l) < H32 ->
  fold_left add32 l acc = fold_left q4_add l acc.
Proof.
  induction l as [|x l IH]; intros acc H; cbn [fold_left]; [reflexivity|].
  cbn [map] in H. rewrite zsum_cons in H.
  assert (Hl : 0 <= zsum (map norm1 l)).
  { clear. induction l as [|y l IHl]; cbn [map]; rewrite ?zsum_cons, ?zsum_nil; [lia|]. pose proof (norm1_nonneg y). lia. }
  assert (E : add32 acc x = q4_add acc x).
  { unfold add32. apply q4_map_wrap_id, norm1_small_in32. pose proof (norm1_add acc x). lia. }
  rewrite E. apply IH. pose proof (norm1_add acc x). lia.
Qed.

Lemma sum_guard_exact l : sum_guard l = true -> esa_sum l = esa_sum_exact l /\ exists s m, esa_sum_exact l = Some (s, m).
Proof.
  unfold sum_guard, esa_sum, esa_sum_exact. destruct (min_list (map snd l)) as [m|] eqn:Hm; [|discriminate].
  rewrite andb_true_iff, forallb_forall, Z.ltb_lt. intros [Hk Hs]. split; [|eauto].
  f_equal. f_equal.
  assert (Hge : forall x, In x l -> 0 <= snd x - m < 31).
  { intros x Hx. specialize (Hk x Hx). apply Z.ltb_lt in Hk. pose proof (min_list_le _ _ Hm (snd x) (in_map snd _ _ Hx)). lia. }
  assert (Hmap : map (align32 m) l = map (align_exact m) l /\ zsum (map norm1 (map (align_exact m) l)) <= zsum (map (fun x => norm1 (fst x) * 2 ^ (snd x - m)) l)).
  { clear Hm Hk. induction l as [|x l IH]; [split; [reflexivity | cbn; lia]|].
    cbn [map] in *. rewrite !zsum_cons in *.
    assert (Hnn : forall l', 0 <= zsum (map (fun x0 : q4 * Z => norm1 (fst x0) * 2 ^ (snd x0 - m)) l')).
    { intro l'. induction l' as [|y l' IHl']; cbn [map]; rewrite ?zsum_cons, ?zsum_nil; [lia|].
      pose proof (norm1_nonneg (fst y)). pose proof (Z.pow_nonneg 2 (snd y - m)). nia. }
    destruct IH as [IH1 IH2]; [pose proof (Hnn l); pose proof (norm1_nonneg (fst x)); pose proof (Z.pow_nonneg 2 (snd x - m)); nia | intros y Hy; apply Hge; right; exact Hy |].
    split.
    - f_equal; [|exact IH1]. apply align32_exact; [apply Hge; left; reflexivity|]. pose proof (Hnn l). lia.
    - unfold align_exact at 1. rewrite norm1_scale, Z.abs_eq by (apply Z.pow_nonneg; lia). nia. }
  destruct Hmap as [Hmap Hle]. rewrite Hmap. apply fold_add32_exact. cbn [q4_zero norm1 Z.abs]. lia.
Qed.
