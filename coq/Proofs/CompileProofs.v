From Coq Require Import ZArith List Bool Lia.
Import ListNotations.
Require Import TV.Base.Wrap32 TV.Base.D8 TV.gen.Gen_exact_scalar TV.gen.Gen_matmul_gf2 TV.Model.ExactScalar TV.Model.Compile TV.Model.Evaluate.
Open Scope Z_scope.
Set Default Timeout 60.
Lemma stub : True. Proof. exact I. Qed.
