(* Proofs about Model/Dem.v: the count rule against Stim's gate table, the relocation of observables in
   absolute measurement indices, the mapped-back error model against Stim's, the gauge filter. *)
From Coq Require Import ZArith List String Bool Lia Arith.
Import ListNotations.
Require Import TV.Model.DemFacts TV.gen.Gen_dem_facts TV.Model.Dem.
Open Scope string_scope.
Open Scope list_scope.
Open Scope Z_scope.
Set Default Timeout 60.

(* ======================================================================================================= *)
(* 1. the count rule                                                                                       *)
(* ======================================================================================================= *)
Definition rule_ok (r : count_rule) (nk : string * mkind) : bool :=
  match r with
  | ByStim => true
  | ByNames names mpp =>
      smem (fst nk) names &&
      match snd nk with
      | KSingle => true
      | KPair => false
      | KProduct => mpp && String.eqb (fst nk) "MPP"
      end
  end.
(* a name list may only contain record-appending gates (so that nothing else shifts the record) *)
Definition rule_names_ok (r : count_rule) : bool :=
  match r with
  | ByStim => true
  | ByNames names _ => forallb (fun n => match kind_of n stim_meas_table with Some _ => true | None => false end) names
  end.

Lemma sumn_single : forall sizes, forallb (Nat.eqb 1) sizes = true ->
  sumn sizes = List.length sizes /\ sumn (map (fun s => 2 * s - 1)%nat sizes) = List.length sizes /\
  sumn (map (fun s => s - 1)%nat sizes) = 0%nat.
Proof.
  induction sizes as [|s l IH]; intro H; [auto|].
  cbn [forallb] in H. apply andb_true_iff in H as [H1 H2]. apply Nat.eqb_eq in H1. subst s.
  destruct (IH H2) as (A & B & C). cbn [sumn map fold_right List.length] in *. fold (sumn l).
  fold (sumn (map (fun s => (2 * s - 1)%nat) l)). fold (sumn (map (fun s => (s - 1)%nat) l)). repeat split; lia.
Qed.

Lemma sumn_product : forall sizes, forallb (Nat.leb 1) sizes = true ->
  Z.of_nat (sumn (map (fun s => 2 * s - 1)%nat sizes)) - 2 * Z.of_nat (sumn (map (fun s => s - 1)%nat sizes))
  = Z.of_nat (List.length sizes).
Proof.
  induction sizes as [|s l IH]; intro H; [reflexivity|].
  cbn [forallb] in H. apply andb_true_iff in H as [H1 H2]. apply Nat.leb_le in H1. specialize (IH H2).
  cbn [sumn map fold_right List.length] in *. fold (sumn (map (fun s => (2 * s - 1)%nat) l)) in *.
  fold (sumn (map (fun s => (s - 1)%nat) l)) in *. lia.
Qed.

Lemma rule_ok_sound : forall r n k sizes, rule_ok r (n, k) = true -> shaped k sizes = true ->
  impl_count r (DMeas n sizes) = true_count (DMeas n sizes).
Proof.
  intros r n k sizes OK SH. destruct r as [|names mpp]; [reflexivity|].
  cbn [rule_ok fst snd] in OK. apply andb_true_iff in OK as [IN OK].
  cbn [impl_count ins_name true_count raw_targets combiner_targets]. rewrite IN.
  destruct k; cbn [shaped] in SH.
  - destruct (sumn_single sizes SH) as (A & B & C).
    destruct (String.eqb n "MPP"); destruct mpp; cbn [andb]; rewrite ?A, ?B, ?C; lia.
  - discriminate.
  - apply andb_true_iff in OK as [-> E]. rewrite E. cbn [andb]. apply sumn_product. exact SH.
Qed.

Lemma kind_of_In : forall n k tbl, kind_of n tbl = Some k -> In (n, k) tbl.
Proof.
  intros n k tbl. induction tbl as [|[n0 k0] r IH]; cbn [kind_of]; [discriminate|].
  destruct (String.eqb n0 n) eqn:E; intro H.
  - apply String.eqb_eq in E. injection H as ->. subst. left. reflexivity.
  - right. apply IH. exact H.
Qed.

Lemma smem_forallb : forall (p : string -> bool) n names, forallb p names = true -> smem n names = true -> p n = true.
Proof.
  intros p n names H M. unfold smem in M. apply existsb_exists in M as (x & Hx & E). apply String.eqb_eq in E. subst x.
  rewrite forallb_forall in H. exact (H _ Hx).
Qed.

(* for every instruction of the installed Stim, dem.py shifts the record by what Stim appends *)
Theorem counts_agree : forall r,
  forallb (rule_ok r) stim_meas_table = true -> rule_names_ok r = true ->
  forall i, stim_instr i = true -> impl_count r i = true_count i.
Proof.
  intros r TBL NM i SI. destruct i as [n sizes|idx l|l|n k].
  - cbn [stim_instr] in SI. destruct (kind_of n stim_meas_table) as [k|] eqn:K; [|discriminate].
    rewrite forallb_forall in TBL. apply (rule_ok_sound r n k); [|exact SI]. apply TBL. apply kind_of_In. exact K.
  - destruct r as [|names mpp]; [reflexivity|]. cbn [impl_count ins_name true_count].
    destruct (smem "OBSERVABLE_INCLUDE" names) eqn:M; [|reflexivity].
    cbn [rule_names_ok] in NM. pose proof (smem_forallb _ _ _ NM M) as H. vm_compute in H. discriminate.
  - destruct r as [|names mpp]; [reflexivity|]. cbn [impl_count ins_name true_count].
    destruct (smem "DETECTOR" names) eqn:M; [|reflexivity].
    cbn [rule_names_ok] in NM. pose proof (smem_forallb _ _ _ NM M) as H. vm_compute in H. discriminate.
  - destruct r as [|names mpp]; [reflexivity|]. cbn [impl_count ins_name true_count stim_instr] in *.
    destruct (smem n names) eqn:M; [|reflexivity].
    cbn [rule_names_ok] in NM. pose proof (smem_forallb _ _ _ NM M) as H. cbn beta in H.
    destruct (kind_of n stim_meas_table); discriminate.
Qed.

(* ======================================================================================================= *)
(* 2. relocation, in absolute measurement indices                                                          *)
(* ======================================================================================================= *)
Fixpoint lookup (o : assoc) (k : Z) : list Z :=
  match o with [] => [] | (k0, l) :: r => if k0 =? k then l else lookup r k end.
Definition abs_of (m : Z) (l : list Z) : list Z := map (fun t => m + t) l.

Lemma abs_of_app : forall m a b, abs_of m (a ++ b) = abs_of m a ++ abs_of m b.
Proof. intros. unfold abs_of. apply map_app. Qed.

Lemma keys_shift_all : forall sign n o, map fst (shift_all sign n o) = map fst o.
Proof. intros. unfold shift_all. rewrite map_map. reflexivity. Qed.

Lemma lookup_shift_all : forall sign n o k, lookup (shift_all sign n o) k = map (fun t => t + sign * n) (lookup o k).
Proof.
  intros sign n o k. induction o as [|[k0 l] r IH]; [reflexivity|].
  cbn [shift_all map fst snd lookup]. fold (shift_all sign n r). destruct (k0 =? k); [reflexivity|exact IH].
Qed.

Lemma keys_extend : forall o idx l, map fst (extend o idx l) = add_key (map fst o) idx.
Proof.
  induction o as [|[k0 l0] r IH]; intros idx l; [reflexivity|].
  cbn [extend map fst add_key]. destruct (k0 =? idx); [reflexivity|]. cbn [map fst]. rewrite IH. reflexivity.
Qed.

Lemma lookup_extend : forall o idx l k, lookup (extend o idx l) k = lookup o k ++ (if idx =? k then l else []).
Proof.
  induction o as [|[k0 l0] r IH]; intros idx l k.
  - reflexivity.
  - cbn [extend]. destruct (k0 =? idx) eqn:E.
    + apply Z.eqb_eq in E. subst k0. cbn [lookup]. destruct (idx =? k); [reflexivity|]. rewrite app_nil_r. reflexivity.
    + cbn [lookup]. destruct (k0 =? k) eqn:E2; [|apply IH].
      apply Z.eqb_eq in E2. subst k0. rewrite Z.eqb_sym in E. rewrite E. rewrite app_nil_r. reflexivity.
Qed.

Lemma In_add_key : forall ks k x, In x (add_key ks k) <-> In x ks \/ x = k.
Proof.
  induction ks as [|y r IH]; intros k x; cbn [add_key].
  - cbn. intuition.
  - destruct (y =? k) eqn:E.
    + apply Z.eqb_eq in E. subst y. cbn. intuition.
    + cbn [In]. rewrite IH. intuition.
Qed.

Lemma NoDup_add_key : forall ks k, NoDup ks -> NoDup (add_key ks k).
Proof.
  induction ks as [|y r IH]; intros k H; cbn [add_key].
  - constructor; [intro H0; inversion H0|constructor].
  - destruct (y =? k) eqn:E; [exact H|]. inversion H as [|? ? Hy Hr]; subst. constructor.
    + rewrite In_add_key. intros [Hin | ->]; [exact (Hy Hin)|]. rewrite Z.eqb_refl in E. discriminate.
    + apply IH. exact Hr.
Qed.

Definition not_obs (i : dins) : bool := negb (is_obs i).

Lemma relocate_spec : forall rule c,
  (forall i, In i c -> impl_count rule i = true_count i) ->
  forall o out m, NoDup (map fst o) ->
  map fst (fst (relocate rule (-1) c o out)) = obs_keys_from c (map fst o) /\
  NoDup (map fst (fst (relocate rule (-1) c o out))) /\
  snd (relocate rule (-1) c o out) = out ++ filter not_obs c /\
  forall k, abs_of (m + total_meas c) (lookup (fst (relocate rule (-1) c o out)) k) = abs_of m (lookup o k) ++ abs_obs c m k.
Proof.
  intros rule c. induction c as [|i r IH]; intros HC o out m ND.
  - cbn [relocate fst snd obs_keys_from filter total_meas abs_obs]. rewrite !app_nil_r, Z.add_0_r.
    repeat split; try assumption. intro k. rewrite app_nil_r. reflexivity.
  - assert (HCi : impl_count rule i = true_count i) by (apply HC; left; reflexivity).
    assert (HCr : forall j, In j r -> impl_count rule j = true_count j) by (intros j Hj; apply HC; right; exact Hj).
    set (o1 := shift_all (-1) (impl_count rule i) o).
    assert (K1 : map fst o1 = map fst o) by apply keys_shift_all.
    assert (A1 : forall k, abs_of (m + true_count i) (lookup o1 k) = abs_of m (lookup o k)).
    { intro k. unfold o1. rewrite lookup_shift_all, HCi. unfold abs_of. rewrite map_map. apply map_ext. intro t. lia. }
    destruct i as [n sizes|idx l|l|n nt].
    + cbn [relocate]. fold o1. destruct (IH HCr o1 (out ++ [DMeas n sizes]) (m + true_count (DMeas n sizes))) as (R1 & R2 & R3 & R4); [rewrite K1; exact ND|].
      cbn [obs_keys_from filter not_obs is_obs negb total_meas abs_obs]. rewrite <- K1.
      split; [exact R1|]. split; [exact R2|]. split; [rewrite R3, <- app_assoc; reflexivity|].
      intro k. cbn [app]. rewrite <- A1. rewrite <- R4. f_equal. lia.
    + cbn [relocate]. fold o1.
      assert (T0 : true_count (DObs idx l) = 0) by reflexivity.
      destruct (IH HCr (extend o1 idx l) out (m + true_count (DObs idx l))) as (R1 & R2 & R3 & R4).
      { rewrite keys_extend, K1. apply NoDup_add_key. exact ND. }
      cbn [obs_keys_from filter not_obs is_obs negb total_meas abs_obs].
      rewrite keys_extend, K1 in R1.
      split; [exact R1|]. split; [exact R2|]. split; [exact R3|].
      intro k. rewrite T0 in *. rewrite Z.add_0_l. specialize (R4 k). rewrite Z.add_0_r in R4. rewrite R4.
      rewrite lookup_extend, abs_of_app. specialize (A1 k). rewrite Z.add_0_r in A1. rewrite A1.
      rewrite Z.add_0_r. rewrite <- app_assoc. f_equal. f_equal.
      rewrite (Z.eqb_sym idx k). destruct (k =? idx); reflexivity.
    + cbn [relocate]. fold o1. destruct (IH HCr o1 (out ++ [DDet l]) (m + true_count (DDet l))) as (R1 & R2 & R3 & R4); [rewrite K1; exact ND|].
      cbn [obs_keys_from filter not_obs is_obs negb total_meas abs_obs]. rewrite <- K1.
      split; [exact R1|]. split; [exact R2|]. split; [rewrite R3, <- app_assoc; reflexivity|].
      intro k. cbn [app]. rewrite <- A1. rewrite <- R4. f_equal. lia.
    + cbn [relocate]. fold o1. destruct (IH HCr o1 (out ++ [DOther n nt]) (m + true_count (DOther n nt))) as (R1 & R2 & R3 & R4); [rewrite K1; exact ND|].
      cbn [obs_keys_from filter not_obs is_obs negb total_meas abs_obs]. rewrite <- K1.
      split; [exact R1|]. split; [exact R2|]. split; [rewrite R3, <- app_assoc; reflexivity|].
      intro k. cbn [app]. rewrite <- A1. rewrite <- R4. f_equal. lia.
Qed.

Lemma lookup_In : forall o k l, NoDup (map fst o) -> In (k, l) o -> lookup o k = l.
Proof.
  induction o as [|[k0 l0] r IH]; intros k l ND H; [contradiction|].
  cbn [map fst] in ND. inversion ND as [|? ? Hk Hr]; subst. cbn [lookup]. destruct H as [H|H].
  - injection H as -> ->. rewrite Z.eqb_refl. reflexivity.
  - destruct (k0 =? k) eqn:E; [|apply IH; assumption].
    apply Z.eqb_eq in E. subst k0. exfalso. apply Hk. change k with (fst (k, l)). apply in_map. exact H.
Qed.

(* C18_relocate, instruction level *)
Theorem relocate_correct : forall rule c,
  (forall i, In i c -> impl_count rule i = true_count i) ->
  map fst (fst (relocate rule (-1) c [] [])) = obs_keys c /\ NoDup (map fst (fst (relocate rule (-1) c [] []))) /\
  snd (relocate rule (-1) c [] []) = filter not_obs c /\
  forall k l, In (k, l) (fst (relocate rule (-1) c [] [])) -> abs_of (total_meas c) l = abs_obs c 0 k.
Proof.
  intros rule c HC. destruct (relocate_spec rule c HC [] [] 0 (NoDup_nil _)) as (R1 & R2 & R3 & R4).
  split; [exact R1|]. split; [exact R2|]. split; [exact R3|].
  intros k l Hin. rewrite <- (lookup_In _ _ _ R2 Hin). specialize (R4 k). cbn [lookup abs_of map app] in R4.
  rewrite Z.add_0_l in R4. exact R4.
Qed.

(* the detectors of the circuit handed to stim, as measurement sets *)
Lemma abs_dets_app : forall a b m, abs_dets (a ++ b) m = abs_dets a m ++ abs_dets b (m + total_meas a).
Proof.
  induction a as [|i r IH]; intros b m; cbn [app abs_dets total_meas]; [rewrite Z.add_0_r; reflexivity|].
  rewrite IH, <- app_assoc. f_equal. f_equal. f_equal. lia.
Qed.

Lemma filter_not_obs : forall c m, abs_dets (filter not_obs c) m = abs_dets c m /\ total_meas (filter not_obs c) = total_meas c.
Proof.
  induction c as [|i r IH]; intro m; [auto|].
  destruct i as [n sizes|idx l|l|n nt]; cbn [filter not_obs is_obs negb].
  - cbn [abs_dets total_meas]. destruct (IH (m + true_count (DMeas n sizes))) as [A B]. rewrite A, B. auto.
  - cbn [abs_dets total_meas true_count app]. rewrite Z.add_0_r, Z.add_0_l. apply IH.
  - cbn [abs_dets total_meas]. destruct (IH (m + true_count (DDet l))) as [A B]. rewrite A, B. auto.
  - cbn [abs_dets total_meas]. destruct (IH (m + true_count (DOther n nt))) as [A B]. rewrite A, B. auto.
Qed.

Lemma abs_dets_trailing : forall (o : assoc) m,
  abs_dets (map (fun kl => DDet (snd kl)) o) m = map (fun kl => abs_of m (snd kl)) o.
Proof.
  induction o as [|[k l] r IH]; intro m; [reflexivity|].
  cbn [map abs_dets snd true_count app]. rewrite Z.add_0_r, IH. reflexivity.
Qed.

Theorem relocated_dets : forall rule c,
  (forall i, In i c -> impl_count rule i = true_count i) ->
  abs_dets (relocated rule (-1) c) 0 = abs_dets c 0 ++ map (fun k => abs_obs c 0 k) (obs_keys c) /\
  obs_keys_impl rule (-1) c = obs_keys c.
Proof.
  intros rule c HC. destruct (relocate_correct rule c HC) as (R1 & R2 & R3 & R4).
  unfold relocated, obs_keys_impl. destruct (relocate rule (-1) c [] []) as [o out] eqn:E. cbn [fst snd] in *.
  split; [|exact R1]. subst out. rewrite abs_dets_app, abs_dets_trailing.
  destruct (filter_not_obs c 0) as [A B]. rewrite A, B, Z.add_0_l. f_equal.
  rewrite <- R1. rewrite map_map. apply map_ext_in. intros [k l] Hin. cbn [fst snd]. apply R4. exact Hin.
Qed.

(* ======================================================================================================= *)
(* 3. the error model                                                                                      *)
(* ======================================================================================================= *)
Lemma hit_from_app : forall f a b j, hit_from f (a ++ b) j = hit_from f a j ++ hit_from f b (j + List.length a)%nat.
Proof.
  intros f a. induction a as [|s r IH]; intros b j; cbn [app hit_from List.length]; [rewrite Nat.add_0_r; reflexivity|].
  rewrite IH, <- app_assoc. f_equal. f_equal. f_equal. lia.
Qed.

Lemma hit_from_bounds : forall f a j x, In x (hit_from f a j) -> (j <= x < j + List.length a)%nat.
Proof.
  intros f a. induction a as [|s r IH]; intros j x H; cbn [hit_from List.length] in *; [contradiction|].
  apply in_app_or in H as [H|H].
  - destruct (par f s); [|contradiction]. destruct H as [<-|[]]. lia.
  - specialize (IH _ _ H). lia.
Qed.

Definition mb (N : nat) (keys : list Z) := map_back_target N 0 keys.

Lemma mb_low : forall N keys x, (x < N)%nat -> mb N keys (TD x) = TD x.
Proof.
  intros N keys x H. unfold mb, map_back_target.
  destruct (0 <=? Z.of_nat x - Z.of_nat N - 0) eqn:E; [apply Z.leb_le in E; lia|]. reflexivity.
Qed.

Lemma mb_high : forall N keys p, (p < List.length keys)%nat -> mb N keys (TD (N + p)) = TL (nth p keys 0).
Proof.
  intros N keys p H. unfold mb, map_back_target.
  replace (Z.of_nat (N + p) - Z.of_nat N - 0) with (Z.of_nat p) by lia.
  destruct (0 <=? Z.of_nat p) eqn:E1; [|apply Z.leb_gt in E1; lia].
  destruct (Z.of_nat p <? Z.of_nat (List.length keys)) eqn:E2; [|apply Z.ltb_ge in E2; lia].
  cbn [andb]. rewrite Nat2Z.id. reflexivity.
Qed.

Lemma hit_keys : forall f (g : Z -> list Z) N keys pre ks, keys = pre ++ ks ->
  map (mb N keys) (map TD (hit_from f (map g ks) (N + List.length pre)%nat))
  = map TL (filter (fun k => par f (g k)) ks).
Proof.
  intros f g N keys pre ks. revert pre. induction ks as [|k r IH]; intros pre E; [reflexivity|].
  cbn [map hit_from filter]. rewrite !map_app.
  assert (E' : keys = (pre ++ [k]) ++ r) by (rewrite <- app_assoc; exact E).
  specialize (IH (pre ++ [k]) E'). rewrite app_length in IH. cbn [List.length] in IH.
  replace (S (N + List.length pre)) with (N + (List.length pre + 1))%nat by lia. rewrite IH.
  destruct (par f (g k)); cbn [map app]; [|reflexivity].
  f_equal. rewrite mb_high by (rewrite E, app_length; cbn [List.length]; lia).
  rewrite E. rewrite app_nth2 by lia. rewrite Nat.sub_diag. reflexivity.
Qed.

Lemma map_mb_low : forall N keys l, (forall x, In x l -> (x < N)%nat) -> map (mb N keys) (map TD l) = map TD l.
Proof.
  intros N keys l H. induction l as [|x r IH]; [reflexivity|]. cbn [map]. rewrite mb_low by (apply H; left; reflexivity).
  f_equal. apply IH. intros y Hy. apply H. right. exact Hy.
Qed.

Lemma filter_map_commute : forall {A B} (f : A -> B) (p : B -> bool) (q : A -> bool) l,
  (forall x, p (f x) = q x) -> filter p (map f l) = map f (filter q l).
Proof.
  intros A B f p q l H. induction l as [|x r IH]; [reflexivity|]. cbn [map filter]. rewrite H.
  destruct (q x); cbn [map]; rewrite IH; reflexivity.
Qed.

(* C18_dem: without the filter, mapping the relocated circuit's model back gives Stim's model of the original *)
Theorem dem_nofilter_correct : forall rule c,
  (forall i, In i c -> impl_count rule i = true_count i) ->
  forall E, dem_tsim_nofilter E rule (-1) 0 c = dem_stim E c.
Proof.
  intros rule c HC E. destruct (relocated_dets rule c HC) as [RD RK].
  unfold dem_tsim_nofilter, dem_relocated, dem_stim. rewrite RD, RK. fold (mb (num_dets c) (obs_keys c)).
  set (N := num_dets c). set (keys := obs_keys c).
  set (mk := fun e : source => (fst e, map TD (hit_from (snd e) (abs_dets c 0 ++ map (fun k => abs_obs c 0 k) keys) 0%nat))).
  set (mk' := fun e : source => (fst e, map TD (hit_from (snd e) (abs_dets c 0) 0%nat) ++ map TL (hit_obs (snd e) c))).
  set (mbm := fun m : mech => (fst m, map (mb N keys) (snd m))).
  assert (MK : forall e, mbm (mk e) = mk' e).
  { intro e. unfold mbm, mk, mk'. cbn [fst snd]. f_equal.
    rewrite hit_from_app, map_app, map_app. f_equal.
    - apply map_mb_low. intros x Hx. apply hit_from_bounds in Hx. unfold N, num_dets. lia.
    - cbn [Nat.add]. pose proof (hit_keys (snd e) (fun k => abs_obs c 0 k) N keys [] keys eq_refl) as H.
      cbn [List.length] in H. rewrite Nat.add_0_r in H. unfold N, num_dets in H |- *. exact H. }
  change (map mbm (filter nonempty (map mk E)) = filter nonempty (map mk' E)).
  rewrite <- (filter_map_commute mbm nonempty nonempty).
  - rewrite map_map. f_equal. apply map_ext. exact MK.
  - intros [p l]. unfold mbm, nonempty. cbn [fst snd]. destruct l; reflexivity.
Qed.

Lemma filter_all_true : forall {A} (p : A -> bool) l, forallb p l = true -> filter p l = l.
Proof.
  intros A p l. induction l as [|x r IH]; intro H; [reflexivity|].
  cbn [forallb] in H. apply andb_true_iff in H as [H1 H2]. cbn [filter]. rewrite H1, (IH H2). reflexivity.
Qed.

(* C18_dem_partial: with the filter, under the hypothesis that it has nothing genuine to remove *)
Theorem dem_partial_correct : forall rule fk p c,
  (forall i, In i c -> impl_count rule i = true_count i) ->
  forall E, forallb (fun m => negb (dropped_by_filter fk p m)) (dem_stim E c) = true ->
  dem_tsim E rule (-1) 0 fk p c = dem_stim E c.
Proof.
  intros rule fk p c HC E H. unfold dem_tsim. rewrite (dem_nofilter_correct rule c HC E). apply filter_all_true. exact H.
Qed.

(* ======================================================================================================= *)
(* 4. the facts of the current source                                                                      *)
(* ======================================================================================================= *)
Lemma gen_counts_table : forallb (rule_ok dem_rule) stim_meas_table = true. Proof. vm_compute. reflexivity. Qed.
Lemma gen_names_ok : rule_names_ok dem_rule = true. Proof. vm_compute. reflexivity. Qed.
Lemma gen_sign : dem_shift_sign = -1. Proof. reflexivity. Qed.
Lemma gen_offset : dem_mapping_offset = 0. Proof. reflexivity. Qed.
Lemma gen_filter : dem_filter = FilterAllLogical /\ dem_filter_prob = 512. Proof. split; reflexivity. Qed.

Theorem counts_now : forall n k sizes, In (n, k) stim_meas_table -> shaped k sizes = true ->
  impl_count dem_rule (DMeas n sizes) = Z.of_nat (List.length sizes).
Proof.
  intros n k sizes Hin SH. pose proof gen_counts_table as T. rewrite forallb_forall in T.
  exact (rule_ok_sound dem_rule n k sizes (T _ Hin) SH).
Qed.

Theorem counts_agree_now : forall i, stim_instr i = true -> impl_count dem_rule i = true_count i.
Proof. apply counts_agree; [exact gen_counts_table|exact gen_names_ok]. Qed.

Lemma all_stim_counts : forall c, forallb stim_instr c = true -> forall i, In i c -> impl_count dem_rule i = true_count i.
Proof. intros c H i Hin. apply counts_agree_now. rewrite forallb_forall in H. exact (H _ Hin). Qed.

Theorem relocate_now : forall c, forallb stim_instr c = true ->
  abs_dets (relocated_now c) 0 = abs_dets c 0 ++ map (fun k => abs_obs c 0 k) (obs_keys c) /\
  snd (relocate dem_rule dem_shift_sign c [] []) = filter not_obs c /\
  map fst (fst (relocate dem_rule dem_shift_sign c [] [])) = obs_keys c /\ NoDup (obs_keys c).
Proof.
  intros c H. pose proof (all_stim_counts c H) as HC. unfold relocated_now. rewrite gen_sign.
  destruct (relocated_dets dem_rule c HC) as [A _]. destruct (relocate_correct dem_rule c HC) as (R1 & R2 & R3 & _).
  split; [exact A|]. split; [exact R3|]. split; [exact R1|]. rewrite <- R1. exact R2.
Qed.

Theorem dem_now_nofilter : forall c, forallb stim_instr c = true ->
  forall E, dem_tsim_nofilter E dem_rule dem_shift_sign dem_mapping_offset c = dem_stim E c.
Proof. intros c H E. rewrite gen_sign, gen_offset. apply dem_nofilter_correct. apply all_stim_counts. exact H. Qed.

Definition genuine_half_on_observables (m : mech) : bool := (fst m =? 512) && forallb is_logical (snd m).

Theorem dem_now_partial : forall c, forallb stim_instr c = true ->
  forall E, forallb (fun m => negb (genuine_half_on_observables m)) (dem_stim E c) = true ->
  dem_tsim_now E c = dem_stim E c.
Proof.
  intros c H E G. unfold dem_tsim_now. rewrite gen_sign, gen_offset. destruct gen_filter as [-> ->].
  apply dem_partial_correct; [apply all_stim_counts; exact H|exact G].
Qed.

(* the circuit of DESIGN.md section 6: X_ERROR(0.5) 0; X_ERROR(0.1) 1; M 0 1; OBSERVABLE_INCLUDE(0) rec[-2];
   DETECTOR rec[-1]; OBSERVABLE_INCLUDE(1) rec[-1]  (0.1 rounded to 102/1024; irrelevant) *)
Definition witness_circuit : list dins := [DMeas "M" [1%nat; 1%nat]; DObs 0 [-2]; DDet [-1]; DObs 1 [-1]].
Definition witness_sources : list source := [(512, fun m => m =? 0); (102, fun m => m =? 1)].

Theorem filter_refuted : exists E c, forallb stim_instr c = true /\ dem_tsim_now E c <> dem_stim E c.
Proof.
  exists witness_sources, witness_circuit. split; [vm_compute; reflexivity|].
  intro H. vm_compute in H. discriminate H.
Qed.

Lemma witness_values :
  dem_stim witness_sources witness_circuit = [(512, [TL 0]); (102, [TD 0%nat; TL 1])] /\
  dem_tsim_now witness_sources witness_circuit = [(102, [TD 0%nat; TL 1])].
Proof. vm_compute. auto. Qed.

(* non-vacuity of dem_now_partial: a circuit with pair measurements, MPAD and a heralded gate between the
   declarations of a repeated, out-of-order observable *)
Definition example_circuit : list dins :=
  [DMeas "M" [1%nat]; DObs 2 [-1]; DMeas "MZZ" [2%nat]; DObs 0 [-1]; DMeas "MPP" [2%nat; 1%nat];
   DMeas "MPAD" [1%nat; 1%nat]; DObs 2 [-1; -4]; DDet [-2; -5]; DMeas "HERALDED_ERASE" [1%nat]; DObs 0 [-1]].
Definition example_sources : list source := [(128, fun m => (m =? 0) || (m =? 3)); (512, fun m => m =? 1); (32, fun m => m =? 6)].
Lemma example_ok :
  forallb stim_instr example_circuit = true /\
  forallb (fun m => negb (genuine_half_on_observables m)) (dem_stim example_sources example_circuit) = true /\
  List.length (dem_stim example_sources example_circuit) = 3%nat.
Proof. vm_compute. auto. Qed.
