(* C15: proofs about shorthand_to_stim / stim_to_shorthand / parse_parametric_tag over the REGENERATED
   patterns (gen/Gen_regex.v).  The statements are specialised to the generated patterns: editing a regex in
   the source regenerates a different pattern term and these scripts are re-checked against it. *)
From Coq Require Import List Ascii String Bool Arith NArith ZArith Lia.
Import ListNotations.
Require Import TV.Model.Regex TV.gen.Gen_regex TV.Model.ProgramText TV.Spec.TextSpec TV.Proofs.RegexProofs.
Set Default Timeout 60.

(* ================= one-step rewriting lemmas for mtch ================= *)
Lemma mtch_nil : forall prev s op gs, mtch [] prev s op gs = Some (s, gs).
Proof. reflexivity. Qed.
Lemma mtch_cls_hit : forall c p prev a s op gs, cls_mem c a = true ->
  mtch (ICls c :: p) prev (a :: s) op gs = mtch p (Some a) s op gs.
Proof. intros c p prev a s op gs H. cbn [mtch]. rewrite H. reflexivity. Qed.
Lemma mtch_cls_miss : forall c p prev a s op gs, cls_mem c a = false ->
  mtch (ICls c :: p) prev (a :: s) op gs = None.
Proof. intros c p prev a s op gs H. cbn [mtch]. rewrite H. reflexivity. Qed.
Lemma mtch_cls_end : forall c p prev op gs, mtch (ICls c :: p) prev [] op gs = None.
Proof. reflexivity. Qed.
Lemma mtch_open : forall p prev s op gs, mtch (IOpen :: p) prev s op gs = mtch p prev s s gs.
Proof. reflexivity. Qed.
Lemma mtch_close : forall p prev s op gs,
  mtch (IClose :: p) prev s op gs = mtch p prev s op (firstn (List.length op - List.length s) op :: gs).
Proof. reflexivity. Qed.
Lemma mtch_wordb_hit : forall p prev s op gs, at_wordb prev s = true ->
  mtch (IWordB :: p) prev s op gs = mtch p prev s op gs.
Proof. intros p prev s op gs H. cbn [mtch]. rewrite H. reflexivity. Qed.
Lemma mtch_wordb_miss : forall p prev s op gs, at_wordb prev s = false ->
  mtch (IWordB :: p) prev s op gs = None.
Proof. intros p prev s op gs H. cbn [mtch]. rewrite H. reflexivity. Qed.
Lemma mtch_bol : forall p s op gs, mtch (IBol :: p) None s op gs = mtch p None s op gs.
Proof. reflexivity. Qed.
Lemma mtch_eol_end : forall p prev op gs, mtch (IEol :: p) prev [] op gs = mtch p prev [] op gs.
Proof. reflexivity. Qed.
Lemma mtch_notbehind_none : forall c p s op gs, mtch (INotBehind c :: p) None s op gs = mtch p None s op gs.
Proof. reflexivity. Qed.
Lemma mtch_notbehind_ok : forall c p a s op gs, cls_mem c a = false ->
  mtch (INotBehind c :: p) (Some a) s op gs = mtch p (Some a) s op gs.
Proof. intros c p a s op gs H. cbn [mtch]. rewrite H. reflexivity. Qed.
Lemma mtch_notahead_end : forall c p prev op gs, mtch (INotAhead c :: p) prev [] op gs = mtch p prev [] op gs.
Proof. reflexivity. Qed.
Lemma mtch_notahead_ok : forall c p prev a s op gs, cls_mem c a = false ->
  mtch (INotAhead c :: p) prev (a :: s) op gs = mtch p prev (a :: s) op gs.
Proof. intros c p prev a s op gs H. cbn [mtch]. rewrite H. reflexivity. Qed.

Definition head_not_in (c : cls) (s : str) : Prop :=
  match s with a :: _ => cls_mem c a = false | [] => True end.

Lemma mtch_plus_run : forall c p prev body rest op gs r,
  body <> [] -> forallb (cls_mem c) body = true -> head_not_in c rest ->
  mtch p (last_opt prev body) rest op gs = Some r ->
  mtch (IPlus c :: p) prev (body ++ rest) op gs = Some r.
Proof.
  intros c p prev body rest op gs r Hne Hall Hrest Hk.
  destruct body as [|a b]; [congruence|].
  cbn [forallb] in Hall. apply andb_prop in Hall. destruct Hall as [Ha Hb].
  cbn [app mtch]. rewrite Ha. rewrite last_opt_cons in Hk.
  apply star_k_run; assumption.
Qed.

Lemma mtch_star_run : forall c p prev body rest op gs r,
  forallb (cls_mem c) body = true -> head_not_in c rest ->
  mtch p (last_opt prev body) rest op gs = Some r ->
  mtch (IStar c :: p) prev (body ++ rest) op gs = Some r.
Proof.
  intros c p prev body rest op gs r Hall Hrest Hk. cbn [mtch]. apply star_k_run; assumption.
Qed.

Lemma mtch_star_back1 : forall c p prev body x op gs r,
  forallb (cls_mem c) body = true -> cls_mem c x = true ->
  mtch p (Some x) [] op gs = None ->
  mtch p (last_opt prev body) [x] op gs = Some r ->
  mtch (IStar c :: p) prev (body ++ [x]) op gs = Some r.
Proof.
  intros c p prev body x op gs r Hall Hx Hend Hk. cbn [mtch]. apply star_k_back1; assumption.
Qed.

Lemma mtch_opt_hit : forall c p prev a s op gs r, cls_mem c a = true ->
  mtch p (Some a) s op gs = Some r -> mtch (IOpt c :: p) prev (a :: s) op gs = Some r.
Proof. intros c p prev a s op gs r H Hk. cbn [mtch]. rewrite H, Hk. reflexivity. Qed.
Lemma mtch_opt_skip : forall c p prev s op gs, head_not_in c s ->
  mtch (IOpt c :: p) prev s op gs = mtch p prev s op gs.
Proof.
  intros c p prev s op gs H. destruct s as [|a s]; cbn [mtch]; [reflexivity|].
  cbn [head_not_in] in H. rewrite H. reflexivity.
Qed.

(* ================= character facts ================= *)
Definition cls_sign := Cls false [CiChar "-"%char; CiChar "+"%char].
Definition cls_dd := Cls false [CiDigit; CiChar "."%char].

Lemma dd_cls : forall a, cls_mem cls_dd a = dd a.
Proof. intros a. unfold dd. cbn. rewrite orb_false_r. destruct (is_digit a || (a =? ".")%char)%bool; reflexivity. Qed.

Lemma forallb_dd_cls : forall body, forallb dd body = true -> forallb (cls_mem cls_dd) body = true.
Proof.
  intros body H. rewrite forallb_forall in *. intros a Ha. rewrite dd_cls. apply H. exact Ha.
Qed.

(* a character with a known boolean property differs from a concrete character without it *)
Lemma prop_neq : forall (f : ascii -> bool) a c, f a = true -> f c = false -> Ascii.eqb a c = false.
Proof.
  intros f a c Ha Hc. destruct (Ascii.eqb_spec a c) as [E|E]; [|reflexivity]. subst. congruence.
Qed.
Lemma nprop_neq : forall (f : ascii -> bool) a c, f a = false -> f c = true -> Ascii.eqb a c = false.
Proof.
  intros f a c Ha Hc. destruct (Ascii.eqb_spec a c) as [E|E]; [|reflexivity]. subst. congruence.
Qed.

Lemma forallb_impl : forall (f g : ascii -> bool) s,
  (forall a, f a = true -> g a = true) -> forallb f s = true -> forallb g s = true.
Proof.
  intros f g s H Hs. rewrite forallb_forall in *. intros a Ha. apply H. apply Hs. exact Ha.
Qed.

(* no occurrence of the character c *)
Definition lacks (c : ascii) (s : str) : bool := forallb (fun x => negb (Ascii.eqb x c)) s.

Lemma lacks_app : forall c s1 s2, lacks c (s1 ++ s2) = (lacks c s1 && lacks c s2)%bool.
Proof. intros. unfold lacks. apply forallb_app. Qed.

Lemma lacks_of_prop : forall (f : ascii -> bool) c s, f c = false -> forallb f s = true -> lacks c s = true.
Proof.
  intros f c s Hc Hs. unfold lacks. apply (forallb_impl f); [|exact Hs].
  intros a Ha. rewrite (prop_neq f a c Ha Hc). reflexivity.
Qed.
Lemma lacks_of_nprop : forall (f : ascii -> bool) c s, f c = true -> forallb (fun a => negb (f a)) s = true -> lacks c s = true.
Proof.
  intros f c s Hc Hs. unfold lacks. apply (forallb_impl (fun a => negb (f a))); [|exact Hs].
  intros a Ha. apply negb_true_iff in Ha. rewrite (nprop_neq f a c Ha Hc). reflexivity.
Qed.

Lemma lacks_quiet : forall p c w s prev, lit_prefix p = c :: w -> lacks c s = true -> matches_somewhere p prev s = false.
Proof. intros p c w s prev Hp Hs. exact (no_first_char_quiet p c w s prev Hp Hs). Qed.

(* substitution at a match *)
Lemma sub_go_match' : forall p t prev m rest gs,
  m <> [] -> mtch p prev (m ++ rest) (m ++ rest) [] = Some (rest, gs) ->
  sub_go p t prev (m ++ rest) 0 = expand t (rev gs) ++ sub_go p t (last_opt prev m) rest 0.
Proof.
  intros p t prev m rest gs Hne H. destruct m as [|a w]; [congruence|]. apply sub_go_match. exact H.
Qed.

Lemma firstn_diff_eq : forall (m r full : str), full = m ++ r -> firstn (List.length full - List.length r) full = m.
Proof. intros m r full E. subst. apply firstn_len_diff. Qed.

(* ================= the literal  [-+]?[\d.]+  ================= *)
Lemma sign_dd_false : forall a, dd a = true -> cls_mem cls_sign a = false.
Proof.
  intros a H. cbn. rewrite orb_false_r.
  rewrite (prop_neq dd a "-"%char H eq_refl), (prop_neq dd a "+"%char H eq_refl). reflexivity.
Qed.

Lemma mtch_literal : forall sg body p prev rest op gs r,
  lit_shape sg body -> head_not_in cls_dd rest ->
  (forall pv, mtch p pv rest op gs = Some r) ->
  mtch (IOpt cls_sign :: IPlus cls_dd :: p) prev (sg ++ body ++ rest) op gs = Some r.
Proof.
  intros sg body p prev rest op gs r [Hsg [Hne Hb]] Hrest Hk.
  assert (Hplus : forall pv, mtch (IPlus cls_dd :: p) pv (body ++ rest) op gs = Some r).
  { intros pv. apply mtch_plus_run; auto using forallb_dd_cls. }
  destruct Hsg as [E|[E|E]]; subst sg; cbn [app].
  - rewrite mtch_opt_skip; [apply Hplus|].
    destruct body as [|a b]; [congruence|]. cbn [app head_not_in].
    cbn [forallb] in Hb. apply andb_prop in Hb. apply sign_dd_false. tauto.
  - apply mtch_opt_hit; [reflexivity|apply Hplus].
  - apply mtch_opt_hit; [reflexivity|apply Hplus].
Qed.

Lemma lit_shape_ne : forall sg body, lit_shape sg body -> sg ++ body <> [].
Proof. intros sg body [_ [Hne _]] E. apply app_eq_nil in E. tauto. Qed.

Definition sd (a : ascii) : bool := (dd a || Ascii.eqb a "-"%char || Ascii.eqb a "+"%char)%bool.
Lemma lit_shape_chars : forall sg body, lit_shape sg body -> forallb sd (sg ++ body) = true.
Proof.
  intros sg body [Hsg [_ Hb]]. rewrite forallb_app. apply andb_true_intro. split.
  - destruct Hsg as [E|[E|E]]; subst; reflexivity.
  - apply (forallb_impl dd); [|exact Hb]. intros a Ha. unfold sd. rewrite Ha. reflexivity.
Qed.

(* ================= tactics ================= *)
Ltac norm := cbn [lit list_ascii_of_string]; repeat (progress (cbn [app]; repeat rewrite <- app_assoc)).

(* peel the zero-width / literal head items of a concrete pattern against a text with a concrete head *)
Ltac mstep :=
  first
  [ rewrite mtch_nil
  | rewrite mtch_cls_hit by reflexivity
  | rewrite mtch_open
  | rewrite mtch_close
  | rewrite mtch_wordb_hit by reflexivity
  | rewrite mtch_bol
  | rewrite mtch_eol_end
  | rewrite mtch_notbehind_none
  | rewrite mtch_notbehind_ok by reflexivity
  | rewrite mtch_notahead_end
  | rewrite mtch_notahead_ok by reflexivity ].

Ltac solve_firstn := apply firstn_diff_eq; norm; reflexivity.

Lemma head_not_in_cons : forall c a s, cls_mem c a = false -> head_not_in c (a :: s).
Proof. intros. exact H. Qed.

(* ================= R_X / R_Y / R_Z : shorthand -> stim ================= *)
Lemma rot_short_match : forall ax sg body tail prev,
  is_axis ax -> lit_shape sg body -> word_opt prev = false ->
  mtch s2s_pat_2 prev (rot_short ax (sg ++ body) ++ tail) (rot_short ax (sg ++ body) ++ tail) []
  = Some (tail, [sg ++ body; [ax]]).
Proof.
  intros ax sg body tail prev Hax Hl Hprev. unfold s2s_pat_2, rot_short. norm.
  rewrite mtch_wordb_hit by (unfold at_wordb; rewrite Hprev; reflexivity).
  destruct Hax as [E|[E|E]]; subst ax; repeat mstep;
    (apply mtch_literal; [exact Hl|reflexivity|]; intros pv; repeat mstep; f_equal; f_equal;
     f_equal; [solve_firstn | f_equal; solve_firstn]).
Qed.

(* ================= whole substitutions ================= *)
Lemma re_sub_quiet : forall p t c w s, lit_prefix p = c :: w -> lacks c s = true -> re_sub p t s = s.
Proof.
  intros p t c w s Hp Hs. unfold re_sub. apply sub_go_nomatch. exact (lacks_quiet p c w s None Hp Hs).
Qed.

Lemma re_sub_head_match : forall p t m rest gs c w,
  m <> [] -> mtch p None (m ++ rest) (m ++ rest) [] = Some (rest, gs) ->
  lit_prefix p = c :: w -> lacks c rest = true ->
  re_sub p t (m ++ rest) = expand t (rev gs) ++ rest.
Proof.
  intros p t m rest gs c w Hne Hm Hp Hs. unfold re_sub.
  rewrite (sub_go_match' p t None m rest gs Hne Hm).
  rewrite sub_go_nomatch; [reflexivity|]. exact (lacks_quiet p c w rest _ Hp Hs).
Qed.

Lemma re_sub_head_match_eq : forall p t m rest gs c w s,
  s = m ++ rest ->
  m <> [] -> mtch p None (m ++ rest) (m ++ rest) [] = Some (rest, gs) ->
  lit_prefix p = c :: w -> lacks c rest = true ->
  re_sub p t s = expand t (rev gs) ++ rest.
Proof. intros. subst s. eapply re_sub_head_match; eassumption. Qed.

Lemma lacks_tail : forall c tail, tail_plain tail -> is_upper c = true -> lacks c tail = true.
Proof. intros c tail Ht Hc. exact (lacks_of_nprop is_upper c tail Hc Ht). Qed.
Lemma lacks_literal : forall c sg body, lit_shape sg body -> sd c = false -> lacks c (sg ++ body) = true.
Proof. intros c sg body Hl Hc. exact (lacks_of_prop sd c (sg ++ body) Hc (lit_shape_chars sg body Hl)). Qed.

Lemma lacks_lit_sg : forall c sg body, lit_shape sg body -> sd c = false -> lacks c sg = true.
Proof. intros c sg body Hl Hc. pose proof (lacks_literal c sg body Hl Hc) as H. rewrite lacks_app in H. apply andb_prop in H. tauto. Qed.
Lemma lacks_lit_body : forall c sg body, lit_shape sg body -> sd c = false -> lacks c body = true.
Proof. intros c sg body Hl Hc. pose proof (lacks_literal c sg body Hl Hc) as H. rewrite lacks_app in H. apply andb_prop in H. tauto. Qed.
Lemma lacks_cons_ne : forall c a s, Ascii.eqb a c = false -> lacks c (a :: s) = lacks c s.
Proof. intros c a s H. unfold lacks. cbn [forallb]. rewrite H. reflexivity. Qed.
Lemma lacks_nil : forall c, lacks c [] = true.
Proof. reflexivity. Qed.

(* lacks c (concrete and symbolic pieces) = true *)
Ltac solve_lacks Hl Ht :=
  norm;
  repeat first [ rewrite lacks_cons_ne by reflexivity
               | rewrite lacks_nil
               | rewrite lacks_app
               | rewrite (lacks_lit_sg _ _ _ Hl) by reflexivity
               | rewrite (lacks_lit_body _ _ _ Hl) by reflexivity
               | rewrite (lacks_tail _ _ Ht) by reflexivity ];
  reflexivity.

Lemma s2s_rot : forall ax sg body tail,
  is_axis ax -> lit_shape sg body -> tail_plain tail ->
  shorthand_to_stim (rot_short ax (sg ++ body) ++ tail) = rot_stim ax (sg ++ body) ++ tail.
Proof.
  intros ax sg body tail Hax Hl Ht.
  unfold shorthand_to_stim, apply_steps, s2s_steps. cbn [fold_left fst snd].
  assert (Hne : rot_short ax (sg ++ body) <> []) by (unfold rot_short; norm; discriminate).
  rewrite (re_sub_quiet s2s_pat_0 s2s_tpl_0 "T"%char _ _ eq_refl).
  2:{ unfold rot_short. destruct Hax as [E|[E|E]]; subst ax; solve_lacks Hl Ht. }
  rewrite (re_sub_quiet s2s_pat_1 s2s_tpl_1 "T"%char _ _ eq_refl).
  2:{ unfold rot_short. destruct Hax as [E|[E|E]]; subst ax; solve_lacks Hl Ht. }
  rewrite (re_sub_head_match s2s_pat_2 s2s_tpl_2 _ tail _ "R"%char _ Hne
             (rot_short_match ax sg body tail None Hax Hl eq_refl) eq_refl (lacks_tail "R"%char _ Ht eq_refl)).
  cbn [rev app expand flat_map nth pred s2s_tpl_2].
  rewrite (re_sub_quiet s2s_pat_3 s2s_tpl_3 "U"%char _ _ eq_refl).
  2:{ destruct Hax as [E|[E|E]]; subst ax; solve_lacks Hl Ht. }
  unfold rot_stim, rot_tag. norm. reflexivity.
Qed.

(* ================= T / T_DAG : shorthand -> stim ================= *)
Lemma cls_single : forall c a, cls_mem (Cls false [CiChar c]) a = Ascii.eqb a c.
Proof. intros c a. cbn. rewrite orb_false_r. destruct (Ascii.eqb a c); reflexivity. Qed.

Lemma neq_eqb : forall a c : ascii, a <> c -> Ascii.eqb a c = false.
Proof. intros a c H. destruct (Ascii.eqb_spec a c); [contradiction|reflexivity]. Qed.

Lemma cons_ne_nil : forall (a : ascii) l, a :: l <> [].
Proof. discriminate. Qed.

Lemma tail_ok_plain : forall tail, tail_ok tail -> tail_plain tail.
Proof. intros tail [H _]. exact H. Qed.

(* `matches_somewhere p prev (c :: s) = false` for a concrete context: peel concrete characters *)
Ltac peel := apply matches_somewhere_cons; [reflexivity|].

Lemma s2s_T : forall tail, tail_ok tail -> shorthand_to_stim (lit "T" ++ tail) = lit "S[T]" ++ tail.
Proof.
  intros tail Hok. pose proof (tail_ok_plain tail Hok) as Ht. destruct Hok as [_ Hhead].
  destruct tail as [|a tail']; [reflexivity|]. destruct Hhead as [Hw Hb].
  unfold shorthand_to_stim, apply_steps, s2s_steps. cbn [fold_left fst snd]. norm.
  (* T_DAG pattern: no match *)
  replace (re_sub s2s_pat_0 s2s_tpl_0 ("T"%char :: a :: tail')) with ("T"%char :: a :: tail').
  2:{ symmetry. unfold re_sub. apply sub_go_nomatch. apply matches_somewhere_cons.
      - unfold s2s_pat_0. repeat mstep. apply mtch_cls_miss. rewrite cls_single.
        exact (nprop_neq is_word a "_"%char Hw eq_refl).
      - apply (lacks_quiet s2s_pat_0 "T"%char _ _ _ eq_refl). exact (lacks_tail "T"%char _ Ht eq_refl). }
  (* T pattern: match at the head *)
  assert (Hm : mtch s2s_pat_1 None ([ "T"%char ] ++ a :: tail') ([ "T"%char ] ++ a :: tail') [] = Some (a :: tail', [])).
  { unfold s2s_pat_1. cbn [app]. repeat mstep.
    rewrite mtch_wordb_hit by (unfold at_wordb; cbn [word_opt hd_error]; rewrite Hw; reflexivity).
    rewrite mtch_notahead_ok by (rewrite cls_single; exact (neq_eqb _ _ Hb)).
    reflexivity. }
  change ("T"%char :: a :: tail') with ([ "T"%char ] ++ a :: tail').
  rewrite (re_sub_head_match s2s_pat_1 s2s_tpl_1 _ _ _ "T"%char _ (cons_ne_nil _ _) Hm eq_refl
             (lacks_tail "T"%char _ Ht eq_refl)).
  cbn [rev app expand flat_map s2s_tpl_1]. norm.
  rewrite (re_sub_quiet s2s_pat_2 s2s_tpl_2 "R"%char _ _ eq_refl) by (solve_lacks Ht Ht).
  rewrite (re_sub_quiet s2s_pat_3 s2s_tpl_3 "U"%char _ _ eq_refl) by (solve_lacks Ht Ht).
  reflexivity.
Qed.

Lemma s2s_TDAG : forall tail, tail_ok tail -> shorthand_to_stim (lit "T_DAG" ++ tail) = lit "S_DAG[T]" ++ tail.
Proof.
  intros tail Hok. pose proof (tail_ok_plain tail Hok) as Ht. destruct Hok as [_ Hhead].
  destruct tail as [|a tail']; [reflexivity|]. destruct Hhead as [Hw Hb].
  unfold shorthand_to_stim, apply_steps, s2s_steps. cbn [fold_left fst snd]. norm.
  assert (Hm : mtch s2s_pat_0 None (lit "T_DAG" ++ a :: tail') (lit "T_DAG" ++ a :: tail') [] = Some (a :: tail', [])).
  { unfold s2s_pat_0. norm. repeat mstep.
    rewrite mtch_wordb_hit by (unfold at_wordb; cbn [word_opt hd_error]; rewrite Hw; reflexivity).
    rewrite mtch_notahead_ok by (rewrite cls_single; exact (neq_eqb _ _ Hb)).
    reflexivity. }
  erewrite (re_sub_head_match_eq s2s_pat_0 s2s_tpl_0 (lit "T_DAG") (a :: tail') [] "T"%char);
    [ | reflexivity | discriminate | exact Hm | reflexivity | exact (lacks_tail "T"%char _ Ht eq_refl) ].
  cbn [rev app expand flat_map s2s_tpl_0]. norm.
  (* the T inside S_DAG[T] is protected by the look-behind *)
  replace (re_sub s2s_pat_1 s2s_tpl_1 ("S"%char :: "_"%char :: "D"%char :: "A"%char :: "G"%char :: "["%char :: "T"%char :: "]"%char :: a :: tail'))
    with ("S"%char :: "_"%char :: "D"%char :: "A"%char :: "G"%char :: "["%char :: "T"%char :: "]"%char :: a :: tail').
  2:{ symmetry. unfold re_sub. apply sub_go_nomatch. do 8 peel.
      apply (lacks_quiet s2s_pat_1 "T"%char _ _ _ eq_refl). exact (lacks_tail "T"%char _ Ht eq_refl). }
  rewrite (re_sub_quiet s2s_pat_2 s2s_tpl_2 "R"%char _ _ eq_refl) by (solve_lacks Ht Ht).
  rewrite (re_sub_quiet s2s_pat_3 s2s_tpl_3 "U"%char _ _ eq_refl) by (solve_lacks Ht Ht).
  reflexivity.
Qed.

(* ================= U3 : shorthand -> stim ================= *)
Definition cls_space := Cls false [CiSpace].
Lemma space_cls : forall a, cls_mem cls_space a = is_space a.
Proof. intros a. cbn. rewrite orb_false_r. destruct (is_space a); reflexivity. Qed.
Lemma blanks_cls : forall w, blanks w -> forallb (cls_mem cls_space) w = true.
Proof. intros w H. apply (forallb_impl is_space); [|exact H]. intros a Ha. rewrite space_cls. exact Ha. Qed.
Lemma lacks_blanks : forall c w, blanks w -> is_space c = false -> lacks c w = true.
Proof. intros c w Hw Hc. exact (lacks_of_prop is_space c w Hc Hw). Qed.

(* head of  w ++ x :: r  when neither the characters of w nor x are in the class *)
Lemma head_not_in_app : forall c (f : ascii -> bool) w x r,
  forallb f w = true -> (forall a, f a = true -> cls_mem c a = false) -> cls_mem c x = false ->
  head_not_in c (w ++ x :: r).
Proof.
  intros c f w x r Hw Hf Hx. destruct w as [|a w']; cbn [app head_not_in]; [exact Hx|].
  cbn [forallb] in Hw. apply andb_prop in Hw. apply Hf. tauto.
Qed.

Lemma space_not_dd : forall a, is_space a = true -> cls_mem cls_dd a = false.
Proof.
  intros a H. rewrite dd_cls. unfold dd.
  destruct (is_digit a) eqn:Ed.
  - exfalso. unfold is_space, is_digit, in_range in *.
    apply andb_prop in Ed. destruct Ed as [E1 E2]. apply N.leb_le in E1, E2.
    apply orb_prop in H. destruct H as [H|H]; apply andb_prop in H; destruct H as [H1 H2];
      apply N.leb_le in H1, H2; lia.
  - cbn [orb]. exact (prop_neq is_space a "."%char H eq_refl).
Qed.

Lemma sd_not_space : forall a, sd a = true -> cls_mem cls_space a = false.
Proof.
  intros a H. rewrite space_cls. destruct (is_space a) eqn:Es; [|reflexivity].
  exfalso. unfold sd in H. pose proof (space_not_dd a Es) as Hd. rewrite dd_cls in Hd. rewrite Hd in H.
  cbn [orb] in H. apply orb_prop in H. destruct H as [H|H]; apply Ascii.eqb_eq in H; subst; discriminate.
Qed.

Lemma head_not_in_literal : forall c sg body rest,
  lit_shape sg body -> (forall a, sd a = true -> cls_mem c a = false) -> head_not_in c (sg ++ body ++ rest).
Proof.
  intros c sg body rest Hl Hc. pose proof (lit_shape_chars sg body Hl) as Hs.
  destruct Hl as [_ [Hne _]]. rewrite app_assoc.
  destruct (sg ++ body) as [|a m] eqn:E; [apply app_eq_nil in E; tauto|].
  cbn [app head_not_in]. cbn [forallb] in Hs. apply andb_prop in Hs. apply Hc. tauto.
Qed.

Lemma u3_short_match : forall w1 w2 w3 w4 sg1 b1 sg2 b2 sg3 b3 tail prev,
  blanks w1 -> blanks w2 -> blanks w3 -> blanks w4 ->
  lit_shape sg1 b1 -> lit_shape sg2 b2 -> lit_shape sg3 b3 -> word_opt prev = false ->
  mtch s2s_pat_3 prev (u3_short w1 w2 w3 w4 (sg1 ++ b1) (sg2 ++ b2) (sg3 ++ b3) ++ tail)
                      (u3_short w1 w2 w3 w4 (sg1 ++ b1) (sg2 ++ b2) (sg3 ++ b3) ++ tail) []
  = Some (tail, [sg3 ++ b3; sg2 ++ b2; sg1 ++ b1]).
Proof.
  intros w1 w2 w3 w4 sg1 b1 sg2 b2 sg3 b3 tail prev H1 H2 H3 H4 L1 L2 L3 Hprev.
  unfold s2s_pat_3, u3_short. norm.
  rewrite mtch_wordb_hit by (unfold at_wordb; rewrite Hprev; reflexivity).
  repeat mstep.
  apply mtch_literal; [exact L1|apply (head_not_in_app _ is_space); [exact H1|exact space_not_dd|reflexivity]|]. intros pv1.
  repeat mstep.
  apply mtch_star_run; [apply blanks_cls; exact H1|reflexivity|]. repeat mstep.
  apply mtch_star_run; [apply blanks_cls; exact H2|apply head_not_in_literal; [exact L2|exact sd_not_space]|]. repeat mstep.
  apply mtch_literal; [exact L2|apply (head_not_in_app _ is_space); [exact H3|exact space_not_dd|reflexivity]|]. intros pv2.
  repeat mstep.
  apply mtch_star_run; [apply blanks_cls; exact H3|reflexivity|]. repeat mstep.
  apply mtch_star_run; [apply blanks_cls; exact H4|apply head_not_in_literal; [exact L3|exact sd_not_space]|]. repeat mstep.
  apply mtch_literal; [exact L3|reflexivity|]. intros pv3.
  repeat mstep.
  f_equal. f_equal. f_equal; [solve_firstn|]. f_equal; [solve_firstn|]. f_equal. solve_firstn.
Qed.

Ltac solve_lacks_u3 L1 L2 L3 H1 H2 H3 H4 Ht :=
  norm;
  repeat first [ rewrite lacks_cons_ne by reflexivity
               | rewrite lacks_nil
               | rewrite lacks_app
               | rewrite (lacks_lit_sg _ _ _ L1) by reflexivity
               | rewrite (lacks_lit_body _ _ _ L1) by reflexivity
               | rewrite (lacks_lit_sg _ _ _ L2) by reflexivity
               | rewrite (lacks_lit_body _ _ _ L2) by reflexivity
               | rewrite (lacks_lit_sg _ _ _ L3) by reflexivity
               | rewrite (lacks_lit_body _ _ _ L3) by reflexivity
               | rewrite (lacks_blanks _ _ H1) by reflexivity
               | rewrite (lacks_blanks _ _ H2) by reflexivity
               | rewrite (lacks_blanks _ _ H3) by reflexivity
               | rewrite (lacks_blanks _ _ H4) by reflexivity
               | rewrite (lacks_tail _ _ Ht) by reflexivity ];
  reflexivity.

Lemma s2s_u3 : forall w1 w2 w3 w4 sg1 b1 sg2 b2 sg3 b3 tail,
  blanks w1 -> blanks w2 -> blanks w3 -> blanks w4 ->
  lit_shape sg1 b1 -> lit_shape sg2 b2 -> lit_shape sg3 b3 -> tail_plain tail ->
  shorthand_to_stim (u3_short w1 w2 w3 w4 (sg1 ++ b1) (sg2 ++ b2) (sg3 ++ b3) ++ tail)
  = u3_stim (sg1 ++ b1) (sg2 ++ b2) (sg3 ++ b3) ++ tail.
Proof.
  intros w1 w2 w3 w4 sg1 b1 sg2 b2 sg3 b3 tail H1 H2 H3 H4 L1 L2 L3 Ht.
  unfold shorthand_to_stim, apply_steps, s2s_steps. cbn [fold_left fst snd].
  rewrite (re_sub_quiet s2s_pat_0 s2s_tpl_0 "T"%char _ _ eq_refl)
    by (unfold u3_short; solve_lacks_u3 L1 L2 L3 H1 H2 H3 H4 Ht).
  rewrite (re_sub_quiet s2s_pat_1 s2s_tpl_1 "T"%char _ _ eq_refl)
    by (unfold u3_short; solve_lacks_u3 L1 L2 L3 H1 H2 H3 H4 Ht).
  rewrite (re_sub_quiet s2s_pat_2 s2s_tpl_2 "R"%char _ _ eq_refl)
    by (unfold u3_short; solve_lacks_u3 L1 L2 L3 H1 H2 H3 H4 Ht).
  erewrite (re_sub_head_match_eq s2s_pat_3 s2s_tpl_3 _ tail _ "U"%char);
    [ | reflexivity | unfold u3_short; norm; discriminate
      | exact (u3_short_match w1 w2 w3 w4 sg1 b1 sg2 b2 sg3 b3 tail None H1 H2 H3 H4 L1 L2 L3 eq_refl)
      | reflexivity | exact (lacks_tail "U"%char _ Ht eq_refl) ].
  cbn [rev app expand flat_map nth pred s2s_tpl_3].
  unfold u3_stim, u3_tag. norm. reflexivity.
Qed.

(* ================= stim -> shorthand ================= *)
Lemma rot_stim_match : forall ax sg body tail prev,
  is_axis ax -> lit_shape sg body -> word_opt prev = false ->
  mtch sh_pat_1 prev (rot_stim ax (sg ++ body) ++ tail) (rot_stim ax (sg ++ body) ++ tail) []
  = Some (tail, [sg ++ body; [ax]]).
Proof.
  intros ax sg body tail prev Hax Hl Hprev. unfold sh_pat_1, rot_stim, rot_tag. norm.
  rewrite mtch_wordb_hit by (unfold at_wordb; rewrite Hprev; reflexivity).
  destruct Hax as [E|[E|E]]; subst ax; repeat mstep;
    (apply mtch_literal; [exact Hl|reflexivity|]; intros pv; repeat mstep; f_equal; f_equal;
     f_equal; [solve_firstn | f_equal; solve_firstn]).
Qed.

Lemma sh_rot : forall ax sg body tail,
  is_axis ax -> lit_shape sg body -> tail_plain tail ->
  stim_to_shorthand (rot_stim ax (sg ++ body) ++ tail) = rot_short ax (sg ++ body) ++ tail.
Proof.
  intros ax sg body tail Hax Hl Ht.
  unfold stim_to_shorthand, apply_steps, sh_steps. cbn [fold_left fst snd].
  replace (re_sub sh_pat_0 sh_tpl_0 (rot_stim ax (sg ++ body) ++ tail)) with (rot_stim ax (sg ++ body) ++ tail).
  2:{ symmetry. unfold re_sub. apply sub_go_nomatch. unfold rot_stim, rot_tag. norm.
      destruct Hax as [E|[E|E]]; subst ax; peel;
        apply (lacks_quiet sh_pat_0 "I"%char _ _ _ eq_refl); solve_lacks Hl Ht. }
  erewrite (re_sub_head_match_eq sh_pat_1 sh_tpl_1 _ tail _ "I"%char);
    [ | reflexivity | unfold rot_stim; norm; discriminate
      | exact (rot_stim_match ax sg body tail None Hax Hl eq_refl)
      | reflexivity | exact (lacks_tail "I"%char _ Ht eq_refl) ].
  cbn [rev app expand flat_map nth pred sh_tpl_1].
  rewrite (re_sub_quiet sh_pat_2 sh_tpl_2 "S"%char _ _ eq_refl)
    by (destruct Hax as [E|[E|E]]; subst ax; solve_lacks Hl Ht).
  rewrite (re_sub_quiet sh_pat_3 sh_tpl_3 "S"%char _ _ eq_refl)
    by (destruct Hax as [E|[E|E]]; subst ax; solve_lacks Hl Ht).
  unfold rot_short. norm. reflexivity.
Qed.

Lemma u3_stim_match : forall sg1 b1 sg2 b2 sg3 b3 tail prev,
  lit_shape sg1 b1 -> lit_shape sg2 b2 -> lit_shape sg3 b3 -> word_opt prev = false ->
  mtch sh_pat_0 prev (u3_stim (sg1 ++ b1) (sg2 ++ b2) (sg3 ++ b3) ++ tail)
                     (u3_stim (sg1 ++ b1) (sg2 ++ b2) (sg3 ++ b3) ++ tail) []
  = Some (tail, [sg3 ++ b3; sg2 ++ b2; sg1 ++ b1]).
Proof.
  intros sg1 b1 sg2 b2 sg3 b3 tail prev L1 L2 L3 Hprev.
  unfold sh_pat_0, u3_stim, u3_tag. norm.
  rewrite mtch_wordb_hit by (unfold at_wordb; rewrite Hprev; reflexivity).
  repeat mstep.
  apply mtch_literal; [exact L1|reflexivity|]. intros pv1. repeat mstep.
  apply mtch_literal; [exact L2|reflexivity|]. intros pv2. repeat mstep.
  apply mtch_literal; [exact L3|reflexivity|]. intros pv3. repeat mstep.
  f_equal. f_equal. f_equal; [solve_firstn|]. f_equal; [solve_firstn|]. f_equal. solve_firstn.
Qed.

Ltac solve_lacks3 L1 L2 L3 Ht :=
  norm;
  repeat first [ rewrite lacks_cons_ne by reflexivity
               | rewrite lacks_nil
               | rewrite lacks_app
               | rewrite (lacks_lit_sg _ _ _ L1) by reflexivity
               | rewrite (lacks_lit_body _ _ _ L1) by reflexivity
               | rewrite (lacks_lit_sg _ _ _ L2) by reflexivity
               | rewrite (lacks_lit_body _ _ _ L2) by reflexivity
               | rewrite (lacks_lit_sg _ _ _ L3) by reflexivity
               | rewrite (lacks_lit_body _ _ _ L3) by reflexivity
               | rewrite (lacks_tail _ _ Ht) by reflexivity ];
  reflexivity.

Lemma sh_u3 : forall sg1 b1 sg2 b2 sg3 b3 tail,
  lit_shape sg1 b1 -> lit_shape sg2 b2 -> lit_shape sg3 b3 -> tail_plain tail ->
  stim_to_shorthand (u3_stim (sg1 ++ b1) (sg2 ++ b2) (sg3 ++ b3) ++ tail)
  = u3_canon (sg1 ++ b1) (sg2 ++ b2) (sg3 ++ b3) ++ tail.
Proof.
  intros sg1 b1 sg2 b2 sg3 b3 tail L1 L2 L3 Ht.
  unfold stim_to_shorthand, apply_steps, sh_steps. cbn [fold_left fst snd].
  erewrite (re_sub_head_match_eq sh_pat_0 sh_tpl_0 _ tail _ "I"%char);
    [ | reflexivity | unfold u3_stim; norm; discriminate
      | exact (u3_stim_match sg1 b1 sg2 b2 sg3 b3 tail None L1 L2 L3 eq_refl)
      | reflexivity | exact (lacks_tail "I"%char _ Ht eq_refl) ].
  cbn [rev app expand flat_map nth pred sh_tpl_0].
  rewrite (re_sub_quiet sh_pat_1 sh_tpl_1 "I"%char _ _ eq_refl) by (solve_lacks3 L1 L2 L3 Ht).
  rewrite (re_sub_quiet sh_pat_2 sh_tpl_2 "S"%char _ _ eq_refl) by (solve_lacks3 L1 L2 L3 Ht).
  rewrite (re_sub_quiet sh_pat_3 sh_tpl_3 "S"%char _ _ eq_refl) by (solve_lacks3 L1 L2 L3 Ht).
  unfold u3_canon. norm. reflexivity.
Qed.

Lemma sh_T : forall tail, tail_ok tail -> stim_to_shorthand (lit "S[T]" ++ tail) = lit "T" ++ tail.
Proof.
  intros tail Hok. pose proof (tail_ok_plain tail Hok) as Ht. destruct Hok as [_ Hhead].
  destruct tail as [|a tail']; [reflexivity|]. destruct Hhead as [Hw Hb].
  unfold stim_to_shorthand, apply_steps, sh_steps. cbn [fold_left fst snd]. norm.
  rewrite (re_sub_quiet sh_pat_0 sh_tpl_0 "I"%char _ _ eq_refl) by (solve_lacks Ht Ht).
  rewrite (re_sub_quiet sh_pat_1 sh_tpl_1 "I"%char _ _ eq_refl) by (solve_lacks Ht Ht).
  replace (re_sub sh_pat_2 sh_tpl_2 ("S"%char :: "["%char :: "T"%char :: "]"%char :: a :: tail'))
    with ("S"%char :: "["%char :: "T"%char :: "]"%char :: a :: tail').
  2:{ symmetry. unfold re_sub. apply sub_go_nomatch. peel.
      apply (lacks_quiet sh_pat_2 "S"%char _ _ _ eq_refl). solve_lacks Ht Ht. }
  assert (Hm : mtch sh_pat_3 None (lit "S[T]" ++ a :: tail') (lit "S[T]" ++ a :: tail') [] = Some (a :: tail', [])).
  { unfold sh_pat_3. norm. repeat mstep.
    rewrite mtch_notahead_ok by (cbn; rewrite Hw; reflexivity). reflexivity. }
  erewrite (re_sub_head_match_eq sh_pat_3 sh_tpl_3 (lit "S[T]") (a :: tail') [] "S"%char);
    [ | reflexivity | discriminate | exact Hm | reflexivity | exact (lacks_tail "S"%char _ Ht eq_refl) ].
  reflexivity.
Qed.

Lemma sh_TDAG : forall tail, tail_ok tail -> stim_to_shorthand (lit "S_DAG[T]" ++ tail) = lit "T_DAG" ++ tail.
Proof.
  intros tail Hok. pose proof (tail_ok_plain tail Hok) as Ht. destruct Hok as [_ Hhead].
  destruct tail as [|a tail']; [reflexivity|]. destruct Hhead as [Hw Hb].
  unfold stim_to_shorthand, apply_steps, sh_steps. cbn [fold_left fst snd]. norm.
  rewrite (re_sub_quiet sh_pat_0 sh_tpl_0 "I"%char _ _ eq_refl) by (solve_lacks Ht Ht).
  rewrite (re_sub_quiet sh_pat_1 sh_tpl_1 "I"%char _ _ eq_refl) by (solve_lacks Ht Ht).
  assert (Hm : mtch sh_pat_2 None (lit "S_DAG[T]" ++ a :: tail') (lit "S_DAG[T]" ++ a :: tail') [] = Some (a :: tail', [])).
  { unfold sh_pat_2. norm. repeat mstep.
    rewrite mtch_notahead_ok by (cbn; rewrite Hw; reflexivity). reflexivity. }
  erewrite (re_sub_head_match_eq sh_pat_2 sh_tpl_2 (lit "S_DAG[T]") (a :: tail') [] "S"%char);
    [ | reflexivity | discriminate | exact Hm | reflexivity | exact (lacks_tail "S"%char _ Ht eq_refl) ].
  cbn [rev app expand flat_map sh_tpl_2]. norm.
  rewrite (re_sub_quiet sh_pat_3 sh_tpl_3 "S"%char _ _ eq_refl) by (solve_lacks Ht Ht).
  reflexivity.
Qed.

(* ================= Fraction(str) on literals ================= *)
Lemma span_digits_app : forall d r,
  forallb is_digit d = true -> match r with a :: _ => is_digit a = false | [] => True end ->
  span_digits (d ++ r) = (d, r).
Proof.
  induction d as [|a d IH]; intros r Hd Hr.
  - cbn [app]. destruct r as [|x r]; [reflexivity|]. cbn [span_digits]. rewrite Hr. reflexivity.
  - cbn [forallb] in Hd. apply andb_prop in Hd. destruct Hd as [Ha Hd].
    cbn [app span_digits]. rewrite Ha. rewrite (IH r Hd Hr). reflexivity.
Qed.

Lemma span_digits_spec : forall s d r, span_digits s = (d, r) ->
  s = d ++ r /\ forallb is_digit d = true /\ match r with a :: _ => is_digit a = false | [] => True end.
Proof.
  induction s as [|a s IH]; intros d r H.
  - cbn in H. inversion H; subst. repeat split.
  - cbn [span_digits] in H. destruct (is_digit a) eqn:Ea.
    + destruct (span_digits s) as [d' r'] eqn:E. inversion H; subst.
      destruct (IH d' r eq_refl) as [H1 [H2 H3]]. subst s. repeat split; [|exact H3].
      cbn [forallb]. rewrite Ea, H2. reflexivity.
    + inversion H; subst. repeat split. exact Ea.
Qed.

Lemma nonempty_true : forall s : str, s <> [] -> nonempty s = true.
Proof. intros [|a s] H; [congruence|reflexivity]. Qed.

Lemma unsigned_dec_sound : forall body m k, dec_body body m k -> unsigned_dec body = Some (m, k).
Proof.
  intros body m k H. destruct H as [d1 Hne Hd|d1 d2 Hne H1 H2].
  - unfold unsigned_dec. rewrite <- (app_nil_r d1) at 1. rewrite (span_digits_app d1 [] Hd I).
    rewrite (nonempty_true d1 Hne). reflexivity.
  - unfold unsigned_dec. rewrite (span_digits_app d1 ("."%char :: d2) H1 eq_refl).
    change (Ascii.eqb "." (ch 46%N)) with true. cbn match. rewrite H2. cbn [andb].
    destruct d1 as [|a d1']; [destruct d2 as [|b d2']; [cbn in Hne; congruence|reflexivity]|reflexivity].
Qed.

Lemma unsigned_dec_complete : forall body m k, unsigned_dec body = Some (m, k) -> dec_body body m k.
Proof.
  intros body m k H. unfold unsigned_dec in H.
  destruct (span_digits body) as [ip rest] eqn:E. apply span_digits_spec in E. destruct E as [Eb [Hip Hrest]].
  subst body. destruct rest as [|a fr].
  - destruct ip as [|x ip']; [discriminate|]. cbn [nonempty] in H. inversion H; subst.
    rewrite app_nil_r. apply DB_int; [discriminate|exact Hip].
  - destruct (Ascii.eqb_spec a (ch 46%N)) as [Ea|Ea]; [|discriminate]. subst a.
    destruct (forallb is_digit fr) eqn:Efr; [|discriminate]. cbn [andb] in H.
    destruct (nonempty ip || nonempty fr)%bool eqn:Ene; [|discriminate]. inversion H; subst.
    apply DB_frac; [|exact Hip|exact Efr].
    intros E0. apply app_eq_nil in E0. destruct E0; subst. discriminate.
Qed.

Lemma fraction_of_lit_sound : forall sg body m k,
  lit_shape sg body -> dec_body body m k -> fraction_of_lit (sg ++ body) = Some (apply_sign sg m, k).
Proof.
  intros sg body m k [Hsg [Hne Hb]] Hd. apply unsigned_dec_sound in Hd.
  destruct Hsg as [E|[E|E]]; subst sg; cbn [app].
  - destruct body as [|a b]; [congruence|]. unfold fraction_of_lit.
    cbn [forallb] in Hb. apply andb_prop in Hb. destruct Hb as [Ha _].
    change (ch 45%N) with "-"%char. change (ch 43%N) with "+"%char.
    rewrite (prop_neq dd a "-"%char Ha eq_refl), (prop_neq dd a "+"%char Ha eq_refl).
    rewrite Hd. reflexivity.
  - unfold fraction_of_lit. change (Ascii.eqb "-" (ch 45%N)) with true. cbn match. rewrite Hd. reflexivity.
  - unfold fraction_of_lit. change (Ascii.eqb "+" (ch 45%N)) with false. change (Ascii.eqb "+" (ch 43%N)) with true.
    cbn match. rewrite Hd. reflexivity.
Qed.

Lemma fraction_of_lit_none : forall sg body,
  lit_shape sg body -> (forall m k, ~ dec_body body m k) -> fraction_of_lit (sg ++ body) = None.
Proof.
  intros sg body [Hsg [Hne Hb]] Hno.
  assert (Hu : unsigned_dec body = None).
  { destruct (unsigned_dec body) as [[m k]|] eqn:E; [|reflexivity].
    exfalso. exact (Hno m k (unsigned_dec_complete body m k E)). }
  destruct Hsg as [E|[E|E]]; subst sg; cbn [app].
  - destruct body as [|a b]; [congruence|]. unfold fraction_of_lit.
    cbn [forallb] in Hb. apply andb_prop in Hb. destruct Hb as [Ha _].
    change (ch 45%N) with "-"%char. change (ch 43%N) with "+"%char.
    rewrite (prop_neq dd a "-"%char Ha eq_refl), (prop_neq dd a "+"%char Ha eq_refl). exact Hu.
  - unfold fraction_of_lit. change (Ascii.eqb "-" (ch 45%N)) with true. cbn match. rewrite Hu. reflexivity.
  - unfold fraction_of_lit. change (Ascii.eqb "+" (ch 45%N)) with false. change (Ascii.eqb "+" (ch 43%N)) with true.
    cbn match. exact Hu.
Qed.

(* mantissa of "d1.d2" = d1 * 10^|d2| + d2 : the pair (m, k) denotes d1 + d2 / 10^|d2| *)
Lemma digits_val_app_gen : forall d2 d1 acc,
  fold_left (fun acc a => 10 * acc + digit_val a)%Z (d1 ++ d2) acc
  = (fold_left (fun acc a => 10 * acc + digit_val a)%Z d1 acc * 10 ^ Z.of_nat (List.length d2)
     + digits_val d2)%Z.
Proof.
  intros d2 d1 acc. rewrite fold_left_app. unfold digits_val.
  generalize (fold_left (fun acc a => 10 * acc + digit_val a)%Z d1 acc). clear.
  induction d2 as [|a d IH]; intros z.
  - cbn [fold_left List.length]. change (Z.of_nat 0) with 0%Z. rewrite Z.pow_0_r. lia.
  - cbn [fold_left List.length]. rewrite IH. rewrite (IH (10 * 0 + digit_val a)%Z).
    rewrite Nat2Z.inj_succ. rewrite Z.pow_succ_r by lia. lia.
Qed.

Lemma digits_val_app : forall d1 d2,
  digits_val (d1 ++ d2) = (digits_val d1 * 10 ^ Z.of_nat (List.length d2) + digits_val d2)%Z.
Proof. intros. unfold digits_val at 1 2. apply digits_val_app_gen. Qed.

(* ================= parse_parametric_tag ================= *)
Lemma code_inj_10 : forall a, N.eqb (code a) 10 = Ascii.eqb a (ch 10%N).
Proof.
  intros a. destruct (Ascii.eqb_spec a (ch 10%N)) as [E|E].
  - subst. reflexivity.
  - apply N.eqb_neq. intros H. apply E. unfold code in H.
    rewrite <- (ascii_N_embedding a). rewrite H. reflexivity.
Qed.

Lemma dot_forallb : forall s, lacks (ch 10%N) s = true -> forallb (cls_mem ClsDot) s = true.
Proof.
  intros s H. unfold lacks in H. apply (forallb_impl (fun x => negb (Ascii.eqb x (ch 10%N)))); [|exact H].
  intros a Ha. cbn [cls_mem]. rewrite code_inj_10. exact Ha.
Qed.

Lemma mtch_star_back1_eq : forall c p prev body x s op gs r,
  s = body ++ [x] ->
  forallb (cls_mem c) body = true -> cls_mem c x = true ->
  mtch p (Some x) [] op gs = None ->
  mtch p (last_opt prev body) [x] op gs = Some r ->
  mtch (IStar c :: p) prev s op gs = Some r.
Proof. intros; subst; apply mtch_star_back1; assumption. Qed.

Lemma mtch_plus_run_eq : forall c p prev body rest s op gs r,
  s = body ++ rest ->
  body <> [] -> forallb (cls_mem c) body = true -> head_not_in c rest ->
  mtch p (last_opt prev body) rest op gs = Some r ->
  mtch (IPlus c :: p) prev s op gs = Some r.
Proof. intros; subst; apply mtch_plus_run; assumption. Qed.

Lemma split_on_lacks : forall sep s cur, lacks sep s = true -> split_on sep s cur = [rev cur ++ s].
Proof.
  intros sep s. induction s as [|a s IH]; intros cur H.
  - cbn [split_on]. rewrite app_nil_r. reflexivity.
  - unfold lacks in H. cbn [forallb] in H. apply andb_prop in H. destruct H as [Ha Hs].
    apply negb_true_iff in Ha. cbn [split_on]. rewrite Ha. rewrite (IH (a :: cur) Hs).
    cbn [rev]. rewrite <- app_assoc. reflexivity.
Qed.

Lemma split_on_app : forall sep s1 s2 cur, lacks sep s1 = true ->
  split_on sep (s1 ++ sep :: s2) cur = (rev cur ++ s1) :: split_on sep s2 [].
Proof.
  intros sep s1. induction s1 as [|a s IH]; intros s2 cur H.
  - cbn [app split_on]. rewrite Ascii.eqb_refl. rewrite app_nil_r. reflexivity.
  - unfold lacks in H. cbn [forallb] in H. apply andb_prop in H. destruct H as [Ha Hs].
    apply negb_true_iff in Ha. cbn [app split_on]. rewrite Ha. rewrite (IH s2 (a :: cur) Hs).
    cbn [rev]. rewrite <- app_assoc. reflexivity.
Qed.

Lemma lstrip_blanks : forall w a s, blanks w -> is_space a = false -> lstrip (w ++ a :: s) = a :: s.
Proof.
  induction w as [|x w IH]; intros a s Hw Ha.
  - cbn [app lstrip]. rewrite Ha. reflexivity.
  - unfold blanks in Hw. cbn [forallb] in Hw. apply andb_prop in Hw. destruct Hw as [Hx Hw].
    cbn [app lstrip]. rewrite Hx. apply IH; assumption.
Qed.

Lemma strip_core : forall w a m b, blanks w -> is_space a = false -> is_space b = false ->
  strip (w ++ a :: m ++ [b]) = a :: m ++ [b].
Proof.
  intros w a m b Hw Ha Hb. unfold strip. rewrite (lstrip_blanks w a (m ++ [b]) Hw Ha).
  replace (rev (a :: m ++ [b])) with ([] ++ b :: rev m ++ [a])
    by (cbn [rev app]; rewrite rev_app_distr; reflexivity).
  rewrite (lstrip_blanks [] b (rev m ++ [a]) eq_refl Hb).
  cbn [rev]. rewrite rev_app_distr. cbn [rev app]. rewrite rev_involutive. reflexivity.
Qed.

Lemma strip_core_eq : forall s w a m b, s = w ++ a :: m ++ [b] ->
  blanks w -> is_space a = false -> is_space b = false -> strip s = a :: m ++ [b].
Proof. intros; subst; apply strip_core; assumption. Qed.

(* one parameter  name=literal*pi  (name consists of word characters) *)
Definition cls_word := Cls false [CiWord].
Lemma word_cls : forall a, cls_mem cls_word a = is_word a.
Proof. intros a. cbn. rewrite orb_false_r. destruct (is_word a); reflexivity. Qed.

Lemma param_match : forall name sg body,
  name <> [] -> forallb is_word name = true -> lit_shape sg body ->
  re_match ppt_param_pat (name ++ lit "=" ++ sg ++ body ++ lit "*pi") = Some [name; sg ++ body].
Proof.
  intros name sg body Hne Hname Hl.
  assert (Hm : mtch ppt_param_pat None (name ++ lit "=" ++ sg ++ body ++ lit "*pi")
                 (name ++ lit "=" ++ sg ++ body ++ lit "*pi") [] = Some ([], [sg ++ body; name])).
  { unfold ppt_param_pat. rewrite mtch_bol, mtch_open.
    apply mtch_plus_run;
      [ exact Hne
      | apply (forallb_impl is_word); [intros a Ha; rewrite word_cls; exact Ha|exact Hname]
      | reflexivity | ].
    norm. repeat mstep.
    apply mtch_literal; [exact Hl|reflexivity|]. intros pv. repeat mstep.
    f_equal. f_equal. f_equal; [solve_firstn|]. f_equal. solve_firstn. }
  unfold re_match. rewrite Hm. reflexivity.
Qed.

Lemma tag_match : forall g ps,
  g <> [] -> forallb is_word g = true -> lacks (ch 10%N) ps = true ->
  re_match ppt_tag_pat (g ++ lit "(" ++ ps ++ lit ")") = Some [g; ps].
Proof.
  intros g ps Hne Hg Hps.
  assert (Hm : mtch ppt_tag_pat None (g ++ lit "(" ++ ps ++ lit ")") (g ++ lit "(" ++ ps ++ lit ")") []
               = Some ([], [ps; g])).
  { unfold ppt_tag_pat. rewrite mtch_bol, mtch_open.
    apply mtch_plus_run;
      [ exact Hne
      | apply (forallb_impl is_word); [intros a Ha; rewrite word_cls; exact Ha|exact Hg]
      | reflexivity | ].
    norm. repeat mstep.
    apply (mtch_star_back1_eq ClsDot _ _ ps ")"%char);
      [ reflexivity | apply dot_forallb; exact Hps | reflexivity | reflexivity | ].
    repeat mstep.
    f_equal. f_equal. f_equal; [solve_firstn|]. f_equal. solve_firstn. }
  unfold re_match. rewrite Hm. reflexivity.
Qed.

Definition frac_result1 (g : str) (n1 : str) (l1 : str) : ppt_result :=
  match fraction_of_lit l1 with
  | Some v1 => POk g [(n1, v1)]
  | None => PError
  end.

Lemma ppt_rot_gen : forall ax sg body,
  is_axis ax -> lit_shape sg body ->
  parse_parametric_tag (rot_tag ax (sg ++ body)) = frac_result1 (lit "R_" ++ [ax]) (lit "theta") (sg ++ body).
Proof.
  intros ax sg body Hax Hl. unfold parse_parametric_tag, rot_tag.
  replace (lit "R_" ++ [ax] ++ lit "(theta=" ++ (sg ++ body) ++ lit "*pi)")
    with ((lit "R_" ++ [ax]) ++ lit "(" ++ (lit "theta=" ++ sg ++ body ++ lit "*pi") ++ lit ")")
    by (norm; reflexivity).
  rewrite tag_match.
  2:{ norm. discriminate. }
  2:{ destruct Hax as [E|[E|E]]; subst ax; reflexivity. }
  2:{ solve_lacks Hl Hl. }
  unfold split_comma. rewrite split_on_lacks by (solve_lacks Hl Hl).
  cbn [rev app ppt_params].
  rewrite (strip_core_eq _ [] "t"%char (lit "heta=" ++ sg ++ body ++ lit "*p") "i"%char)
    by (try reflexivity; norm; reflexivity).
  cbn [app].
  replace ("t"%char :: (lit "heta=" ++ sg ++ body ++ lit "*p") ++ ["i"%char])
    with (lit "theta" ++ lit "=" ++ sg ++ body ++ lit "*pi") by (norm; reflexivity).
  rewrite (param_match (lit "theta") sg body ltac:(discriminate) eq_refl Hl).
  unfold frac_result1. destruct (fraction_of_lit (sg ++ body)) as [v|]; reflexivity.
Qed.

Lemma word_not_space : forall a, is_word a = true -> is_space a = false.
Proof.
  intros a H. destruct (is_space a) eqn:Es; [|reflexivity]. exfalso.
  unfold is_word, is_space, is_digit, is_upper, is_lower, in_range in *.
  repeat match goal with
         | H : (_ || _)%bool = true |- _ => apply orb_prop in H; destruct H as [H|H]
         | H : (_ && _)%bool = true |- _ => apply andb_prop in H; destruct H as [? ?]
         | H : N.leb _ _ = true |- _ => apply N.leb_le in H
         | H : N.eqb _ _ = true |- _ => apply N.eqb_eq in H
         end; lia.
Qed.

Lemma ppt_params_step : forall w name sg body r acc,
  blanks w -> name <> [] -> forallb is_word name = true -> lit_shape sg body ->
  ppt_params ((w ++ name ++ lit "=" ++ sg ++ body ++ lit "*pi") :: r) acc
  = match fraction_of_lit (sg ++ body) with
    | Some v => ppt_params r (dict_set acc name v)
    | None => Some None
    end.
Proof.
  intros w name sg body r acc Hw Hne Hname Hl.
  destruct name as [|a name']; [congruence|].
  assert (Ha : is_space a = false).
  { cbn [forallb] in Hname. apply andb_prop in Hname. apply word_not_space. tauto. }
  cbn [ppt_params].
  rewrite (strip_core_eq _ w a (name' ++ lit "=" ++ sg ++ body ++ lit "*p") "i"%char)
    by (try assumption; try reflexivity; norm; reflexivity).
  replace (a :: (name' ++ lit "=" ++ sg ++ body ++ lit "*p") ++ ["i"%char])
    with ((a :: name') ++ lit "=" ++ sg ++ body ++ lit "*pi") by (norm; reflexivity).
  rewrite (param_match (a :: name') sg body Hne Hname Hl).
  cbn [app]. reflexivity.
Qed.

Definition frac_result3 (g n1 n2 n3 l1 l2 l3 : str) : ppt_result :=
  match fraction_of_lit l1 with
  | None => PError
  | Some v1 =>
      match fraction_of_lit l2 with
      | None => PError
      | Some v2 =>
          match fraction_of_lit l3 with
          | None => PError
          | Some v3 => POk g [(n1, v1); (n2, v2); (n3, v3)]
          end
      end
  end.

Lemma ppt_u3_gen : forall sg1 b1 sg2 b2 sg3 b3,
  lit_shape sg1 b1 -> lit_shape sg2 b2 -> lit_shape sg3 b3 ->
  parse_parametric_tag (u3_tag (sg1 ++ b1) (sg2 ++ b2) (sg3 ++ b3))
  = frac_result3 (lit "U3") (lit "theta") (lit "phi") (lit "lambda") (sg1 ++ b1) (sg2 ++ b2) (sg3 ++ b3).
Proof.
  intros sg1 b1 sg2 b2 sg3 b3 L1 L2 L3. unfold parse_parametric_tag, u3_tag.
  set (P1 := [] ++ lit "theta" ++ lit "=" ++ sg1 ++ b1 ++ lit "*pi").
  set (P2 := lit " " ++ lit "phi" ++ lit "=" ++ sg2 ++ b2 ++ lit "*pi").
  set (P3 := lit " " ++ lit "lambda" ++ lit "=" ++ sg3 ++ b3 ++ lit "*pi").
  replace (lit "U3(theta=" ++ (sg1 ++ b1) ++ lit "*pi, phi=" ++ (sg2 ++ b2) ++ lit "*pi, lambda=" ++ (sg3 ++ b3) ++ lit "*pi)")
    with (lit "U3" ++ lit "(" ++ (P1 ++ ch 44%N :: P2 ++ ch 44%N :: P3) ++ lit ")")
    by (unfold P1, P2, P3; norm; reflexivity).
  assert (N1 : lacks (ch 10%N) P1 = true) by (unfold P1; solve_lacks3 L1 L2 L3 L1).
  assert (N2 : lacks (ch 10%N) P2 = true) by (unfold P2; solve_lacks3 L1 L2 L3 L1).
  assert (N3 : lacks (ch 10%N) P3 = true) by (unfold P3; solve_lacks3 L1 L2 L3 L1).
  assert (C1 : lacks (ch 44%N) P1 = true) by (unfold P1; solve_lacks3 L1 L2 L3 L1).
  assert (C2 : lacks (ch 44%N) P2 = true) by (unfold P2; solve_lacks3 L1 L2 L3 L1).
  assert (C3 : lacks (ch 44%N) P3 = true) by (unfold P3; solve_lacks3 L1 L2 L3 L1).
  rewrite tag_match; [ | discriminate | reflexivity | ].
  2:{ rewrite lacks_app, N1. cbn [andb]. rewrite lacks_cons_ne by reflexivity.
      rewrite lacks_app, N2. cbn [andb]. rewrite lacks_cons_ne by reflexivity. exact N3. }
  unfold split_comma.
  rewrite (split_on_app (ch 44%N) P1 _ [] C1).
  rewrite (split_on_app (ch 44%N) P2 _ [] C2).
  rewrite (split_on_lacks (ch 44%N) P3 [] C3).
  cbn [rev app]. unfold P1, P2, P3.
  rewrite (ppt_params_step [] (lit "theta") sg1 b1 _ _ eq_refl ltac:(discriminate) eq_refl L1).
  unfold frac_result3.
  destruct (fraction_of_lit (sg1 ++ b1)) as [v1|]; [|reflexivity].
  rewrite (ppt_params_step (lit " ") (lit "phi") sg2 b2 _ _ eq_refl ltac:(discriminate) eq_refl L2).
  destruct (fraction_of_lit (sg2 ++ b2)) as [v2|]; [|reflexivity].
  rewrite (ppt_params_step (lit " ") (lit "lambda") sg3 b3 _ _ eq_refl ltac:(discriminate) eq_refl L3).
  destruct (fraction_of_lit (sg3 ++ b3)) as [v3|]; reflexivity.
Qed.

(* ================= statements used by Props/C15.v ================= *)
Lemma expand_rotation : forall ax sg body tail,
  is_axis ax -> lit_shape sg body -> tail_plain tail ->
  shorthand_to_stim (rot_short ax (sg ++ body) ++ tail) = rot_stim ax (sg ++ body) ++ tail
  /\ (forall m k, dec_body body m k ->
        parse_parametric_tag (rot_tag ax (sg ++ body)) = POk (lit "R_" ++ [ax]) [(lit "theta", (apply_sign sg m, k))])
  /\ ((forall m k, ~ dec_body body m k) -> parse_parametric_tag (rot_tag ax (sg ++ body)) = PError).
Proof.
  intros ax sg body tail Hax Hl Ht. split; [exact (s2s_rot ax sg body tail Hax Hl Ht)|]. split.
  - intros m k Hd. rewrite (ppt_rot_gen ax sg body Hax Hl). unfold frac_result1.
    rewrite (fraction_of_lit_sound sg body m k Hl Hd). reflexivity.
  - intros Hno. rewrite (ppt_rot_gen ax sg body Hax Hl). unfold frac_result1.
    rewrite (fraction_of_lit_none sg body Hl Hno). reflexivity.
Qed.

Lemma expand_u3 : forall w1 w2 w3 w4 sg1 b1 sg2 b2 sg3 b3 tail,
  blanks w1 -> blanks w2 -> blanks w3 -> blanks w4 ->
  lit_shape sg1 b1 -> lit_shape sg2 b2 -> lit_shape sg3 b3 -> tail_plain tail ->
  shorthand_to_stim (u3_short w1 w2 w3 w4 (sg1 ++ b1) (sg2 ++ b2) (sg3 ++ b3) ++ tail)
    = u3_stim (sg1 ++ b1) (sg2 ++ b2) (sg3 ++ b3) ++ tail
  /\ (forall m1 k1 m2 k2 m3 k3, dec_body b1 m1 k1 -> dec_body b2 m2 k2 -> dec_body b3 m3 k3 ->
        parse_parametric_tag (u3_tag (sg1 ++ b1) (sg2 ++ b2) (sg3 ++ b3))
        = POk (lit "U3") [(lit "theta", (apply_sign sg1 m1, k1)); (lit "phi", (apply_sign sg2 m2, k2));
                          (lit "lambda", (apply_sign sg3 m3, k3))])
  /\ ((forall m k, ~ dec_body b1 m k) \/ (forall m k, ~ dec_body b2 m k) \/ (forall m k, ~ dec_body b3 m k) ->
        parse_parametric_tag (u3_tag (sg1 ++ b1) (sg2 ++ b2) (sg3 ++ b3)) = PError).
Proof.
  intros w1 w2 w3 w4 sg1 b1 sg2 b2 sg3 b3 tail H1 H2 H3 H4 L1 L2 L3 Ht.
  split; [exact (s2s_u3 w1 w2 w3 w4 sg1 b1 sg2 b2 sg3 b3 tail H1 H2 H3 H4 L1 L2 L3 Ht)|]. split.
  - intros m1 k1 m2 k2 m3 k3 D1 D2 D3. rewrite (ppt_u3_gen sg1 b1 sg2 b2 sg3 b3 L1 L2 L3). unfold frac_result3.
    rewrite (fraction_of_lit_sound sg1 b1 m1 k1 L1 D1), (fraction_of_lit_sound sg2 b2 m2 k2 L2 D2),
            (fraction_of_lit_sound sg3 b3 m3 k3 L3 D3). reflexivity.
  - intros Hno. rewrite (ppt_u3_gen sg1 b1 sg2 b2 sg3 b3 L1 L2 L3). unfold frac_result3.
    destruct Hno as [Hno|[Hno|Hno]].
    + rewrite (fraction_of_lit_none sg1 b1 L1 Hno). reflexivity.
    + rewrite (fraction_of_lit_none sg2 b2 L2 Hno).
      destruct (fraction_of_lit (sg1 ++ b1)); reflexivity.
    + rewrite (fraction_of_lit_none sg3 b3 L3 Hno).
      destruct (fraction_of_lit (sg1 ++ b1)); [destruct (fraction_of_lit (sg2 ++ b2))|]; reflexivity.
Qed.

Lemma roundtrip : forall line, printed_line line -> shorthand_to_stim (stim_to_shorthand line) = line.
Proof.
  intros line H. destruct H as [tail Hok|tail Hok|ax sg body tail Hax Hl Ht|sg1 b1 sg2 b2 sg3 b3 tail L1 L2 L3 Ht|line Hq1 Hq2].
  - rewrite (sh_T tail Hok). exact (s2s_T tail Hok).
  - rewrite (sh_TDAG tail Hok). exact (s2s_TDAG tail Hok).
  - rewrite (sh_rot ax sg body tail Hax Hl Ht). exact (s2s_rot ax sg body tail Hax Hl Ht).
  - rewrite (sh_u3 sg1 b1 sg2 b2 sg3 b3 tail L1 L2 L3 Ht).
    replace (u3_canon (sg1 ++ b1) (sg2 ++ b2) (sg3 ++ b3)) with (u3_short [] (lit " ") [] (lit " ") (sg1 ++ b1) (sg2 ++ b2) (sg3 ++ b3))
      by (unfold u3_canon, u3_short; norm; reflexivity).
    exact (s2s_u3 [] (lit " ") [] (lit " ") sg1 b1 sg2 b2 sg3 b3 tail eq_refl eq_refl eq_refl eq_refl L1 L2 L3 Ht).
  - unfold stim_to_shorthand, shorthand_to_stim. rewrite (apply_steps_quiet sh_steps line Hq1).
    exact (apply_steps_quiet s2s_steps line Hq2).
Qed.

(* frame: nothing matches => unchanged; a sufficient syntactic condition is that no trigger literal occurs *)
Lemma frame_quiet : forall s,
  (quiet_for s2s_steps s = true -> shorthand_to_stim s = s) /\ (quiet_for sh_steps s = true -> stim_to_shorthand s = s).
Proof. intros s. split; intros H; [exact (apply_steps_quiet s2s_steps s H)|exact (apply_steps_quiet sh_steps s H)]. Qed.

Lemma quiet_of_no_trigger : forall steps s,
  (forall w, In w (triggers steps) -> ~ substr w s) -> quiet_for steps s = true.
Proof.
  intros steps s H. unfold quiet_for. apply forallb_forall. intros st Hst.
  destruct (matches_somewhere (fst st) None s) eqn:E; [|reflexivity]. exfalso.
  apply matches_somewhere_substr in E. destruct E as [pre [suf E]].
  apply (H (lit_prefix (fst st))).
  - unfold triggers. apply in_map_iff. exists st. split; [reflexivity|exact Hst].
  - exists pre, suf. exact E.
Qed.

Lemma frame_substr : forall s,
  ((forall w, In w (triggers s2s_steps) -> ~ substr w s) -> shorthand_to_stim s = s) /\
  ((forall w, In w (triggers sh_steps) -> ~ substr w s) -> stim_to_shorthand s = s).
Proof.
  intros s. split; intros H.
  - apply (proj1 (frame_quiet s)). apply quiet_of_no_trigger. exact H.
  - apply (proj2 (frame_quiet s)). apply quiet_of_no_trigger. exact H.
Qed.

Lemma triggers_s2s : triggers s2s_steps = [lit "T_DAG"; lit "T"; lit "R_"; lit "U3("].
Proof. reflexivity. Qed.
Lemma triggers_sh : triggers sh_steps = [lit "I[U3(theta="; lit "I[R_"; lit "S_DAG[T]"; lit "S[T]"].
Proof. reflexivity. Qed.

Lemma gate_names_quiet :
  forallb (fun n => forallb (fun t => let line := lit n ++ lit t in
                                      (quiet_for s2s_steps line && quiet_for sh_steps line)%bool) sample_tails)
          stim_gate_names = true.
Proof. vm_compute. reflexivity. Qed.

(* the unrestricted statements are false: user tags that contain a keyword next to a bracket *)
Definition refute_roundtrip_line : str := lit "DETECTOR[S[T] rec[-1] rec[-2]".
Definition refute_frame_line : str := lit "DETECTOR[a T rec[-1] rec[-2]".
Lemma roundtrip_refuted_witness :
  shorthand_to_stim (stim_to_shorthand refute_roundtrip_line) = lit "DETECTOR[T rec[-1] rec[-2]".
Proof. vm_compute. reflexivity. Qed.
Lemma frame_refuted_witness :
  shorthand_to_stim refute_frame_line = lit "DETECTOR[a S[T] rec[-1] rec[-2]".
Proof. vm_compute. reflexivity. Qed.
Lemma roundtrip_refuted :
  exists line, shorthand_to_stim (stim_to_shorthand line) <> line /\ line = lit "DETECTOR[S[T] rec[-1] rec[-2]".
Proof. exists refute_roundtrip_line. split; [rewrite roundtrip_refuted_witness; discriminate|reflexivity]. Qed.
Lemma frame_refuted :
  exists line, shorthand_to_stim line <> line /\ line = lit "DETECTOR[a T rec[-1] rec[-2]".
Proof. exists refute_frame_line. split; [rewrite frame_refuted_witness; discriminate|reflexivity]. Qed.
