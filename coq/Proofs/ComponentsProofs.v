(* Lemmas for C11_components / C04_partition: the BFS model of connected_components terminates within cc_fuel,
   its components partition the vertices, no edge leaves a component, every output is owned by exactly one component,
   output_indices is sorted and the k-th output of a component's subgraph is global output output_indices[k]. *)
From Coq Require Import List Arith Bool Lia Permutation Sorting.Sorted.
Import ListNotations.
Require Import TV.Base.ListPerm TV.Model.Components.
Set Default Timeout 60.

Lemma mem_In : forall x l, mem x l = true <-> In x l.
Proof.
  intros x l. unfold mem. rewrite existsb_exists. split.
  - intros [y [Hy E]]. apply Nat.eqb_eq in E. subst. exact Hy.
  - intros H. exists x. split; [exact H | apply Nat.eqb_refl].
Qed.
Lemma mem_false : forall x l, mem x l = false <-> ~ In x l.
Proof. intros x l. rewrite <- mem_In. destruct (mem x l); split; intros H; congruence. Qed.
Lemma mem_cons : forall x v l, mem x (v :: l) = Nat.eqb x v || mem x l.
Proof. reflexivity. Qed.
Lemma filter_length_le' : forall (A : Type) (f : A -> bool) l, length (filter f l) <= length l.
Proof. intros A f l. induction l as [|a l IH]; cbn [filter length]; [lia | destruct (f a); cbn [length]; lia]. Qed.

(* helper lemmas not in the 8.16 standard library under these names *)
Lemma NoDup_app_intro : forall (A : Type) (l1 l2 : list A), NoDup l1 -> NoDup l2 -> (forall x, In x l1 -> In x l2 -> False) -> NoDup (l1 ++ l2).
Proof.
  intros A l1 l2 H1 H2 Hd. induction H1 as [|a l1 Ha H1 IH]; [exact H2|].
  cbn [app]. constructor.
  - intros Hin. apply in_app_or in Hin. destruct Hin as [Hin|Hin]; [exact (Ha Hin) | exact (Hd a (or_introl eq_refl) Hin)].
  - apply IH. intros x Hx1 Hx2. exact (Hd x (or_intror Hx1) Hx2).
Qed.
Lemma NoDup_rev_intro : forall (A : Type) (l : list A), NoDup l -> NoDup (rev l).
Proof. intros A l H. eapply Permutation_NoDup; [apply Permutation_rev | exact H]. Qed.

Section BFS.
  Variable verts : list nat.
  Variable nbrs : nat -> list nat.
  Hypothesis Hclosed : forall v w, In v verts -> In w (nbrs v) -> In w verts.

  Definition potl (l visited : list nat) : nat :=
    list_sum (map (fun v => if mem v visited then 0 else S (length (nbrs v))) l).
  Lemma potl_cons : forall u l visited, potl (u :: l) visited = (if mem u visited then 0 else S (length (nbrs u))) + potl l visited.
  Proof. reflexivity. Qed.
  Lemma potl_mono : forall l v visited, potl l (v :: visited) <= potl l visited.
  Proof.
    induction l as [|u l IH]; intros v visited; [cbn; lia|].
    rewrite !potl_cons, mem_cons. specialize (IH v visited).
    destruct (Nat.eqb u v); destruct (mem u visited); cbn [orb]; lia.
  Qed.
  Lemma potl_visit : forall l v visited, In v l -> mem v visited = false ->
    potl l (v :: visited) + S (length (nbrs v)) <= potl l visited.
  Proof.
    induction l as [|u l IH]; intros v visited Hin Hm; [destruct Hin|].
    rewrite !potl_cons, mem_cons.
    destruct (Nat.eq_dec u v) as [E|NE].
    - subst u. rewrite Nat.eqb_refl, Hm. cbn [orb]. pose proof (potl_mono l v visited). lia.
    - destruct Hin as [Hin|Hin]; [congruence|]. specialize (IH v visited Hin Hm).
      destruct (Nat.eqb u v); destruct (mem u visited); cbn [orb]; lia.
  Qed.
  Definition pot := potl verts.

  (* specification of one BFS *)
  Lemma collect_spec : forall fuel queue visited comp,
    length queue + pot visited < fuel ->
    (forall x, In x queue -> In x verts) ->
    exists new,
      collect nbrs fuel queue visited comp = Some (comp ++ new, rev new ++ visited) /\
      NoDup new /\
      (forall x, In x new -> ~ In x visited /\ In x verts) /\
      (forall x, In x queue -> In x (rev new ++ visited)) /\
      (forall u w, In u new -> In w (nbrs u) -> In w (rev new ++ visited)) /\
      (forall x, In x new -> In x queue \/ exists u, In u new /\ In x (nbrs u)).
  Proof.
    induction fuel as [|k IH]; intros queue visited comp Hf Hq; [lia|].
    destruct queue as [|v q].
    - exists []. cbn [collect rev app]. rewrite app_nil_r.
      split; [reflexivity|]. split; [constructor|]. split; [intros x []|]. split; [intros x []|]. split; [intros u w []|intros x []].
    - cbn [collect]. destruct (mem v visited) eqn:Ev.
      + cbn [length] in Hf.
        destruct (IH q visited comp ltac:(lia) (fun x Hx => Hq x (or_intror Hx))) as [new [E [ND [Hn [Hqv [Hcl Hfrom]]]]]].
        exists new. split; [exact E|]. split; [exact ND|]. split; [exact Hn|]. split; [|split; [exact Hcl|]].
        * intros x [Hx|Hx]; [subst x; apply in_or_app; right; apply mem_In; exact Ev | apply Hqv; exact Hx].
        * intros x Hx. destruct (Hfrom x Hx) as [H|H]; [left; right; exact H | right; exact H].
      + assert (Hv : In v verts) by (apply Hq; left; reflexivity).
        set (F := filter (fun nb => negb (mem nb (v :: visited))) (nbrs v)).
        assert (HF : forall x, In x F -> In x (nbrs v)) by (intros x Hx; apply filter_In in Hx; tauto).
        pose proof (potl_visit verts v visited Hv Ev) as Hp. fold (pot (v :: visited)) in Hp. fold (pot visited) in Hp.
        pose proof (filter_length_le' _ (fun nb => negb (mem nb (v :: visited))) (nbrs v)) as Hl. fold F in Hl.
        cbn [length] in Hf.
        destruct (IH (q ++ F) (v :: visited) (comp ++ [v])) as [new [E [ND [Hn [Hqv [Hcl Hfrom]]]]]].
        { rewrite app_length. lia. }
        { intros x Hx. apply in_app_or in Hx. destruct Hx as [Hx|Hx]; [apply Hq; right; exact Hx | apply (Hclosed v x Hv); apply HF; exact Hx]. }
        exists (v :: new).
        assert (Erev : rev (v :: new) ++ visited = rev new ++ v :: visited) by (cbn [rev]; rewrite <- app_assoc; reflexivity).
        rewrite Erev. split; [rewrite E, <- app_assoc; reflexivity|].
        split; [|split; [|split; [|split]]].
        * constructor; [|exact ND]. intros Hin. destruct (Hn v Hin) as [Hnv _]. apply Hnv. left; reflexivity.
        * intros x [Hx|Hx].
          -- subst x. split; [apply mem_false; exact Ev | exact Hv].
          -- destruct (Hn x Hx) as [H1 H2]. split; [intros H; apply H1; right; exact H | exact H2].
        * intros x [Hx|Hx].
          -- subst x. apply in_or_app. right. left. reflexivity.
          -- apply Hqv. apply in_or_app. left. exact Hx.
        * intros u w [Hu|Hu] Hw.
          -- subst u. destruct (mem w (v :: visited)) eqn:Ew.
             ++ apply in_or_app. right. apply mem_In. exact Ew.
             ++ apply Hqv. apply in_or_app. right. unfold F. apply filter_In. split; [exact Hw | rewrite Ew; reflexivity].
          -- apply (Hcl u w Hu Hw).
        * intros x [Hx|Hx].
          -- subst x. left. left. reflexivity.
          -- destruct (Hfrom x Hx) as [H|[u [Hu Hxu]]].
             ++ apply in_app_or in H. destruct H as [H|H]; [left; right; exact H | right; exists v; split; [left; reflexivity | apply HF; exact H]].
             ++ right. exists u. split; [right; exact Hu | exact Hxu].
  Qed.

  (* ---- the outer loop ---- *)
  Hypothesis Hsym : forall v w, In w (nbrs v) -> In v (nbrs w).

  Definition closed_set (s : list nat) : Prop := forall u w, In u s -> In w (nbrs u) -> In w s.
  Definition cc_inv (done : list nat) (visited : list nat) (comps : list (list nat)) : Prop :=
    Permutation visited (concat comps) /\ NoDup visited /\ closed_set visited /\
    (forall x, In x visited -> In x verts) /\ (forall x, In x done -> In x visited) /\
    Forall (fun c => c <> [] /\ closed_set c) comps.

  Lemma potl_le : forall l visited, potl l visited <= length l + list_sum (map (fun v => length (nbrs v)) l).
  Proof.
    intros l visited. induction l as [|u l IH]; [cbn; lia|].
    rewrite potl_cons. cbn [map length].
    change (list_sum (length (nbrs u) :: map (fun v => length (nbrs v)) l)) with (length (nbrs u) + list_sum (map (fun v => length (nbrs v)) l)).
    destruct (mem u visited); lia.
  Qed.
  Lemma pot_le : forall visited, pot visited <= length verts + list_sum (map (fun v => length (nbrs v)) verts).
  Proof. intros. apply potl_le. Qed.

  Lemma cc_step_inv : forall fuel done visited comps v,
    S (length verts + list_sum (map (fun v => length (nbrs v)) verts)) < fuel ->
    In v verts -> cc_inv done visited comps ->
    exists visited' comps', cc_step nbrs fuel (Some (visited, comps)) v = Some (visited', comps') /\ cc_inv (done ++ [v]) visited' comps'.
  Proof.
    intros fuel done visited comps v Hf Hv [HP [HN [HC [HV [HD HF]]]]].
    unfold cc_step. destruct (mem v visited) eqn:Ev.
    - exists visited, comps. split; [reflexivity|]. repeat split; auto.
      intros x Hx. apply in_app_or in Hx. destruct Hx as [Hx|[Hx|[]]]; [apply HD; exact Hx | subst x; apply mem_In; exact Ev].
    - destruct (collect_spec fuel [v] visited []) as [new [E [ND [Hn [Hqv [Hcl Hfrom]]]]]].
      { cbn [length]. pose proof (pot_le visited). lia. }
      { intros x [Hx|[]]. subst x. exact Hv. }
      rewrite E. cbn [app]. exists (rev new ++ visited), (comps ++ [new]). split; [reflexivity|].
      assert (Hdisj : forall x, In x new -> ~ In x visited) by (intros x Hx; apply (Hn x Hx)).
      assert (Hvnew : In v new).
      { specialize (Hqv v (or_introl eq_refl)). apply in_app_or in Hqv. destruct Hqv as [H|H]; [apply in_rev; exact H|].
        exfalso. apply mem_false in Ev. exact (Ev H). }
      (* no edge between the new component and what was visited before *)
      assert (Hnew_closed : closed_set new).
      { intros u w Hu Hw. specialize (Hcl u w Hu Hw). apply in_app_or in Hcl. destruct Hcl as [H|H]; [apply in_rev; exact H|].
        exfalso. apply (Hdisj u Hu). apply (HC w u H). apply Hsym. exact Hw. }
      repeat split.
      + rewrite concat_app. cbn [concat]. rewrite app_nil_r.
        eapply Permutation_trans; [apply Permutation_app_comm|]. apply Permutation_app; [exact HP | apply Permutation_sym, Permutation_rev].
      + apply NoDup_app_intro; [apply NoDup_rev_intro; exact ND | exact HN |].
        intros x Hx1 Hx2. apply in_rev in Hx1. exact (Hdisj x Hx1 Hx2).
      + intros u w Hu Hw. apply in_app_or in Hu. destruct Hu as [Hu|Hu].
        * apply in_or_app. left. apply in_rev. rewrite rev_involutive. apply (Hnew_closed u w); [apply in_rev; exact Hu | exact Hw].
        * apply in_or_app. right. apply (HC u w Hu Hw).
      + intros x Hx. apply in_app_or in Hx. destruct Hx as [Hx|Hx]; [apply in_rev in Hx; apply (Hn x Hx) | apply HV; exact Hx].
      + intros x Hx. apply in_app_or in Hx. destruct Hx as [Hx|[Hx|[]]].
        * apply in_or_app. right. apply HD. exact Hx.
        * subst x. apply in_or_app. left. apply in_rev. rewrite rev_involutive. exact Hvnew.
      + apply Forall_app. split; [exact HF|]. constructor; [|constructor]. split; [|exact Hnew_closed].
        intros Hnil. rewrite Hnil in Hvnew. destruct Hvnew.
  Qed.
End BFS.


(* ------------------------------------------------------------------------------------------------ *)
(* the whole loop                                                                                    *)
(* ------------------------------------------------------------------------------------------------ *)
Lemma NoDup_app_inv' : forall (A : Type) (l1 l2 : list A), NoDup (l1 ++ l2) ->
  NoDup l1 /\ NoDup l2 /\ (forall x, In x l1 -> In x l2 -> False).
Proof.
  intros A l1 l2. induction l1 as [|a l1 IH]; cbn [app]; intros H.
  - split; [constructor | split; [exact H | intros x []]].
  - inversion H as [|? ? Ha H']; subst. destruct (IH H') as [N1 [N2 D]].
    split; [constructor; [intros Hin; apply Ha; apply in_or_app; left; exact Hin | exact N1]|].
    split; [exact N2|]. intros x [Hx|Hx] Hx2; [subst x; apply Ha; apply in_or_app; right; exact Hx2 | exact (D x Hx Hx2)].
Qed.

Section Main.
  Variable g : zgraph.
  Hypothesis Hclosed : forall v w, In v (g_verts g) -> In w (g_nbrs g v) -> In w (g_verts g).
  Hypothesis Hsym : forall v w, In w (g_nbrs g v) -> In v (g_nbrs g w).
  Hypothesis Hnodup : NoDup (g_verts g).

  Lemma fold_inv : forall fuel todo done visited comps,
    S (length (g_verts g) + list_sum (map (fun v => length (g_nbrs g v)) (g_verts g))) < fuel ->
    (forall x, In x todo -> In x (g_verts g)) ->
    cc_inv (g_verts g) (g_nbrs g) done visited comps ->
    exists visited' comps', fold_left (cc_step (g_nbrs g) fuel) todo (Some (visited, comps)) = Some (visited', comps') /\
      cc_inv (g_verts g) (g_nbrs g) (done ++ todo) visited' comps'.
  Proof.
    intros fuel todo. induction todo as [|v todo IH]; intros done visited comps Hf Ht Hinv.
    - exists visited, comps. rewrite app_nil_r. split; [reflexivity | exact Hinv].
    - cbn [fold_left].
      destruct (cc_step_inv (g_verts g) (g_nbrs g) Hclosed Hsym fuel done visited comps v Hf (Ht v (or_introl eq_refl)) Hinv) as [v1 [c1 [E1 I1]]].
      rewrite E1.
      destruct (IH (done ++ [v]) v1 c1 Hf (fun x Hx => Ht x (or_intror Hx)) I1) as [v2 [c2 [E2 I2]]].
      exists v2, c2. split; [exact E2|]. rewrite <- app_assoc in I2. exact I2.
  Qed.

  Theorem components_partition :
    exists visited comps, components g = Some (visited, comps) /\
      Permutation (concat comps) (g_verts g) /\
      Forall (fun c => c <> [] /\ closed_set (g_nbrs g) c) comps.
  Proof.
    assert (I0 : cc_inv (g_verts g) (g_nbrs g) [] [] []).
    { repeat split; try (intros; contradiction); try constructor. intros u w []. }
    destruct (fold_inv (cc_fuel g) (g_verts g) [] [] [] ltac:(unfold cc_fuel; lia) (fun x Hx => Hx) I0) as [visited [comps [E [HP [HN [HC [HV [HD HF]]]]]]]].
    exists visited, comps. split; [exact E|]. split; [|exact HF].
    eapply Permutation_trans; [apply Permutation_sym; exact HP|].
    apply NoDup_Permutation; [exact HN | exact Hnodup|].
    intros x. split; [apply HV | intros Hx; apply HD; exact Hx].
  Qed.
End Main.

(* ------------------------------------------------------------------------------------------------ *)
(* output bookkeeping                                                                                *)
(* ------------------------------------------------------------------------------------------------ *)
Lemma index_of_Some : forall x l i, index_of x l = Some i -> i < length l /\ nth i l 0 = x.
Proof.
  intros x l. induction l as [|y l IH]; intros i H; cbn [index_of] in H; [discriminate|].
  destruct (Nat.eqb x y) eqn:E.
  - inversion H; subst. apply Nat.eqb_eq in E. subst. cbn. split; [lia | reflexivity].
  - destruct (index_of x l) as [j|]; [|discriminate]. inversion H; subst. destruct (IH j eq_refl) as [H1 H2].
    cbn [length nth]. split; [lia | exact H2].
Qed.
Lemma index_of_nth : forall l i, NoDup l -> i < length l -> index_of (nth i l 0) l = Some i.
Proof.
  induction l as [|y l IH]; intros i ND Hi; cbn [length] in Hi; [lia|].
  inversion ND as [|? ? Hy ND']; subst. destruct i as [|i]; cbn [nth index_of].
  - rewrite Nat.eqb_refl. reflexivity.
  - destruct (Nat.eqb (nth i l 0) y) eqn:E.
    + apply Nat.eqb_eq in E. exfalso. apply Hy. rewrite <- E. apply nth_In. lia.
    + rewrite IH by (assumption || lia). reflexivity.
Qed.
Lemma unsorted_In : forall outs c i, In i (comp_out_indices_unsorted outs c) <-> exists v, In v c /\ index_of v outs = Some i.
Proof.
  intros outs c i. unfold comp_out_indices_unsorted. rewrite in_flat_map. split.
  - intros [v [Hv Hi]]. exists v. split; [exact Hv|]. destruct (index_of v outs) as [j|]; [destruct Hi as [Hi|[]]; subst; reflexivity | destruct Hi].
  - intros [v [Hv Hi]]. exists v. split; [exact Hv|]. rewrite Hi. left. reflexivity.
Qed.
Lemma out_positions_In : forall outs c i, In i (out_positions outs c) <-> i < length outs /\ In (nth i outs 0) c.
Proof.
  intros outs c i. unfold out_positions. rewrite filter_In, in_seq, mem_In. split; intros [H1 H2]; split; try lia; exact H2.
Qed.
Lemma unsorted_NoDup : forall outs c, NoDup c -> NoDup (comp_out_indices_unsorted outs c).
Proof.
  intros outs c ND. induction ND as [|v c Hv ND IH]; [constructor|].
  change (comp_out_indices_unsorted outs (v :: c)) with ((match index_of v outs with Some i => [i] | None => [] end) ++ comp_out_indices_unsorted outs c).
  destruct (index_of v outs) as [i|] eqn:E; [|exact IH].
  cbn [app]. constructor; [|exact IH].
  intros Hin. apply unsorted_In in Hin. destruct Hin as [v' [Hv' E']].
  destruct (index_of_Some _ _ _ E) as [_ N1]. destruct (index_of_Some _ _ _ E') as [_ N2]. apply Hv. congruence.
Qed.
Lemma insert_nat_eq : forall x l, insert_nat x l = insert_idx (fun i => i) x l.
Proof. intros x l. induction l as [|y l IH]; cbn [insert_nat insert_idx]; [reflexivity | rewrite IH; reflexivity]. Qed.
Lemma sort_nat_eq : forall l, sort_nat l = fold_right (insert_idx (fun i => i)) [] l.
Proof. induction l as [|x l IH]; cbn [sort_nat fold_right]; [reflexivity|]. fold (sort_nat l). rewrite IH, insert_nat_eq. reflexivity. Qed.
Lemma sort_nat_perm : forall l, Permutation (sort_nat l) l.
Proof. intros l. rewrite sort_nat_eq. apply fold_insert_perm. Qed.
Lemma sort_nat_sorted : forall l, StronglySorted le (sort_nat l).
Proof. intros l. rewrite sort_nat_eq. rewrite <- (map_id (fold_right _ _ _)). apply (fold_insert_sorted (fun i => i)). Qed.
Lemma filter_sorted : forall (f : nat -> bool) l, StronglySorted le l -> StronglySorted le (filter f l).
Proof.
  intros f l H. induction H as [|a l H IH Ha]; cbn [filter]; [constructor|].
  destruct (f a); [|exact IH]. constructor; [exact IH|].
  apply Forall_forall. intros x Hx. apply filter_In in Hx. rewrite Forall_forall in Ha. apply Ha. tauto.
Qed.

Theorem comp_out_indices_spec : forall outs c, NoDup c -> NoDup outs -> comp_out_indices outs c = out_positions outs c.
Proof.
  intros outs c Nc No. unfold comp_out_indices. apply sorted_perm_unique.
  - apply sort_nat_sorted.
  - unfold out_positions. apply filter_sorted. apply seq_sorted.
  - eapply Permutation_trans; [apply sort_nat_perm|].
    apply NoDup_Permutation; [apply unsorted_NoDup; exact Nc | unfold out_positions; apply NoDup_filter; apply seq_NoDup|].
    intros i. rewrite unsorted_In, out_positions_In. split.
    + intros [v [Hv E]]. destruct (index_of_Some _ _ _ E) as [H1 H2]. split; [exact H1 | rewrite H2; exact Hv].
    + intros [H1 H2]. exists (nth i outs 0). split; [exact H2 | apply index_of_nth; assumption].
Qed.

Lemma gather_filter : forall (P : nat -> bool) (l : list nat),
  map (fun i => nth i l 0) (filter (fun i => P (nth i l 0)) (seq 0 (length l))) = filter P l.
Proof.
  intros P l. induction l as [|a l IH] using rev_ind; [reflexivity|].
  rewrite app_length. cbn [length]. rewrite seq_app. cbn [seq plus]. rewrite !filter_app, map_app.
  f_equal.
  - rewrite <- IH.
    rewrite (filter_ext_in (fun i => P (nth i (l ++ [a]) 0)) (fun i => P (nth i l 0))) by (intros i Hi; apply in_seq in Hi; rewrite app_nth1 by lia; reflexivity).
    apply map_ext_in. intros i Hi. apply filter_In in Hi. destruct Hi as [Hi _]. apply in_seq in Hi. rewrite app_nth1 by lia. reflexivity.
  - cbn [filter]. rewrite nth_middle. destruct (P a); cbn [map]; [rewrite nth_middle|]; reflexivity.
Qed.

(* the k-th output of the induced subgraph is global output output_indices[k] *)
Theorem sub_outputs_spec : forall outs c, NoDup c -> NoDup outs ->
  map (fun i => nth i outs 0) (comp_out_indices outs c) = sub_outputs outs c /\
  StronglySorted le (comp_out_indices outs c) /\
  (forall i, In i (comp_out_indices outs c) <-> i < length outs /\ In (nth i outs 0) c).
Proof.
  intros outs c Nc No. rewrite (comp_out_indices_spec outs c Nc No). split; [|split].
  - unfold out_positions, sub_outputs. apply (gather_filter (fun v => mem v c)).
  - unfold out_positions. apply filter_sorted. apply seq_sorted.
  - intros i. apply out_positions_In.
Qed.

(* the blocks of output indices partition 0..n-1: exactly the hypothesis of C06_reorder / C04_reorder *)
Theorem out_blocks_partition : forall verts outs comps,
  Permutation (concat comps) verts -> NoDup verts -> NoDup outs -> (forall v, In v outs -> In v verts) ->
  Permutation (concat (map (comp_out_indices outs) comps)) (seq 0 (length outs)).
Proof.
  intros verts outs comps HP Nv No Hsub.
  assert (Nc : NoDup (concat comps)) by (eapply Permutation_NoDup; [apply Permutation_sym; exact HP | exact Nv]).
  assert (Each : forall c, In c comps -> NoDup c).
  { clear HP. induction comps as [|c0 comps IH]; intros c Hc; [destruct Hc|].
    cbn [concat] in Nc. destruct (NoDup_app_inv' _ _ _ Nc) as [N1 [N2 _]]. destruct Hc as [Hc|Hc]; [subst; exact N1 | apply IH; assumption]. }
  assert (Eq : map (comp_out_indices outs) comps = map (out_positions outs) comps).
  { apply map_ext_in. intros c Hc. apply comp_out_indices_spec; [apply Each; exact Hc | exact No]. }
  rewrite Eq. clear Eq.
  apply NoDup_Permutation; [| apply seq_NoDup |].
  - clear HP Each. induction comps as [|c comps IH]; [constructor|].
    cbn [map concat] in Nc |- *. destruct (NoDup_app_inv' _ _ _ Nc) as [N1 [N2 D]].
    apply NoDup_app_intro; [unfold out_positions; apply NoDup_filter; apply seq_NoDup | apply IH; exact N2 |].
    intros i H1 H2. apply out_positions_In in H1. destruct H1 as [_ H1].
    apply in_concat in H2. destruct H2 as [l [Hl Hi]]. apply in_map_iff in Hl. destruct Hl as [c' [El Hc']]. subst l.
    apply out_positions_In in Hi. destruct Hi as [_ Hi].
    apply (D (nth i outs 0) H1). apply in_concat. exists c'. split; assumption.
  - intros i. rewrite in_seq. split.
    + intros Hi. apply in_concat in Hi. destruct Hi as [l [Hl Hi]]. apply in_map_iff in Hl. destruct Hl as [c [El Hc]]. subst l.
      apply out_positions_In in Hi. lia.
    + intros Hi. assert (Hv : In (nth i outs 0) (concat comps)).
      { apply (Permutation_in _ (Permutation_sym HP)). apply Hsub. apply nth_In. lia. }
      apply in_concat in Hv. destruct Hv as [c [Hc Hv]].
      apply in_concat. exists (out_positions outs c). split; [apply in_map; exact Hc | apply out_positions_In; split; [lia | exact Hv]].
Qed.

(* ------------------------------------------------------------------------------------------------ *)
(* summary theorem and the tensor product                                                            *)
(* ------------------------------------------------------------------------------------------------ *)
Section Summary.
  Variable g : zgraph.
  Hypothesis Hclosed : forall v w, In v (g_verts g) -> In w (g_nbrs g v) -> In w (g_verts g).
  Hypothesis Hsym : forall v w, In w (g_nbrs g v) -> In v (g_nbrs g w).
  Hypothesis Hnodup : NoDup (g_verts g).
  Hypothesis Hnodup_outs : NoDup (g_outs g).
  Hypothesis Houts : forall v, In v (g_outs g) -> In v (g_verts g).

  Theorem connected_components_correct :
    exists ccs, connected_components g = Some ccs /\
      (* the vertex lists partition the vertices; none is empty; no edge leaves a component *)
      Permutation (concat (map fst ccs)) (g_verts g) /\
      Forall (fun cc => fst cc <> [] /\ forall u w, In u (fst cc) -> In w (g_nbrs g u) -> In w (fst cc)) ccs /\
      (* the output index lists partition 0..n-1 (every output is owned by exactly one component) *)
      Permutation (concat (map snd ccs)) (seq 0 (length (g_outs g))) /\
      (* per component: output_indices is sorted, lists exactly the global outputs inside the component, and the k-th
         output of the induced subgraph is global output output_indices[k] *)
      Forall (fun cc =>
                StronglySorted le (snd cc) /\
                (forall i, In i (snd cc) <-> i < length (g_outs g) /\ In (nth i (g_outs g) 0) (fst cc)) /\
                map (fun i => nth i (g_outs g) 0) (snd cc) = sub_outputs (g_outs g) (fst cc)) ccs.
  Proof.
    destruct (components_partition g Hclosed Hsym Hnodup) as [visited [comps [E [HP HF]]]].
    exists (map (fun c => (c, comp_out_indices (g_outs g) c)) comps).
    unfold connected_components. rewrite E. split; [reflexivity|].
    assert (Nc : NoDup (concat comps)) by (eapply Permutation_NoDup; [apply Permutation_sym; exact HP | exact Hnodup]).
    assert (Each : forall c, In c comps -> NoDup c).
    { clear HP HF E. induction comps as [|c0 comps IH]; intros c Hc; [destruct Hc|].
      cbn [concat] in Nc. destruct (NoDup_app_inv' _ _ _ Nc) as [N1 [N2 _]]. destruct Hc as [Hc|Hc]; [subst; exact N1 | apply IH; assumption]. }
    rewrite !map_map. cbn [fst snd]. rewrite map_id.
    split; [exact HP|]. split; [|split].
    - apply Forall_forall. intros cc Hcc. apply in_map_iff in Hcc. destruct Hcc as [c [Ec Hc]]. subst cc. cbn [fst].
      rewrite Forall_forall in HF. destruct (HF c Hc) as [H1 H2]. split; [exact H1 | exact H2].
    - apply (out_blocks_partition (g_verts g)); assumption.
    - apply Forall_forall. intros cc Hcc. apply in_map_iff in Hcc. destruct Hcc as [c [Ec Hc]]. subst cc. cbn [fst snd].
      destruct (sub_outputs_spec (g_outs g) c (Each c Hc) Hnodup_outs) as [S1 [S2 S3]]. split; [exact S2 | split; [exact S3 | exact S1]].
  Qed.

  (* ---- tensor: ORACLE = pyzx's tensor of a diagram that is a disjoint union of parts is the product of the tensors
          of the parts, each part reading its own outputs (in global output order) ---- *)
  Variable V : Type.
  Variable vone : V.
  Variable vmul : V -> V -> V.
  Variable tens : list nat -> list bool -> V.     (* tensor of the subgraph induced by a vertex list, at given output bits *)
  Definition restrict (x : list bool) (idx : list nat) : list bool := map (fun i => nth i x false) idx.
  Definition vprod (l : list V) : V := fold_right vmul vone l.
  Hypothesis H_disjoint_union : forall parts,
    Permutation (concat parts) (g_verts g) -> Forall (closed_set (g_nbrs g)) parts ->
    forall x, length x = length (g_outs g) ->
      tens (g_verts g) x = vprod (map (fun s => tens s (restrict x (out_positions (g_outs g) s))) parts).

  Theorem components_tensor :
    exists ccs, connected_components g = Some ccs /\
      forall x, length x = length (g_outs g) ->
        tens (g_verts g) x = vprod (map (fun cc => tens (fst cc) (restrict x (snd cc))) ccs).
  Proof.
    destruct (components_partition g Hclosed Hsym Hnodup) as [visited [comps [E [HP HF]]]].
    exists (map (fun c => (c, comp_out_indices (g_outs g) c)) comps).
    unfold connected_components. rewrite E. split; [reflexivity|]. intros x Hx.
    assert (Nc : NoDup (concat comps)) by (eapply Permutation_NoDup; [apply Permutation_sym; exact HP | exact Hnodup]).
    assert (Each : forall c, In c comps -> NoDup c).
    { clear HP HF E. induction comps as [|c0 comps IH]; intros c Hc; [destruct Hc|].
      cbn [concat] in Nc. destruct (NoDup_app_inv' _ _ _ Nc) as [N1 [N2 _]]. destruct Hc as [Hc|Hc]; [subst; exact N1 | apply IH; assumption]. }
    assert (HF' : Forall (closed_set (g_nbrs g)) comps) by (eapply Forall_impl; [|exact HF]; intros a [_ Ha]; exact Ha).
    rewrite (H_disjoint_union comps HP HF' x Hx).
    rewrite map_map. cbn [fst snd]. f_equal. apply map_ext_in. intros c Hc.
    rewrite (comp_out_indices_spec (g_outs g) c (Each c Hc) Hnodup_outs). reflexivity.
  Qed.
End Summary.
