(* Lemmas for C06 (and C11_plug): plugging = marginalisation, chain rule, bounds, exact output distribution of the
   autoregressive sampler for any number of outputs, joint mode, dispatch, reordering.
   The definitions sc_*, plug_*, outputs_to_plug, py_dispatch, po_*, sp_result are REGENERATED from /repo/src. *)
From Coq Require Import QArith Qabs ZArith List Bool Arith Lia Lqa Permutation.
Import ListNotations.
Require Import TV.Base.ListPerm TV.gen.Gen_sampler_dispatch TV.Model.Sampler.
Open Scope Q_scope.
Set Default Timeout 60.

(* ------------------------------------------------------------------------------------------------ *)
(* generic list / Q helpers                                                                          *)
(* ------------------------------------------------------------------------------------------------ *)
Lemma firstn_length_app : forall (A : Type) (p r : list A), firstn (length p) (p ++ r) = p.
Proof. intros A p r. induction p as [|a p IH]; cbn [length firstn app]; [destruct r; reflexivity | rewrite IH; reflexivity]. Qed.
Lemma skipn_length_app : forall (A : Type) (p r : list A), skipn (length p) (p ++ r) = r.
Proof. intros A p r. induction p as [|a p IH]; cbn [length skipn app]; [reflexivity | exact IH]. Qed.

Lemma map_repeat' : forall (A B : Type) (g : A -> B) x k, map g (repeat x k) = repeat (g x) k.
Proof. intros A B g x k. induction k as [|k IH]; cbn [repeat map]; [reflexivity | rewrite IH; reflexivity]. Qed.

Lemma set_nth_app : forall p b x r, set_nth (length p) b (p ++ x :: r) = p ++ b :: r.
Proof. induction p as [|a p IH]; intros b x r; cbn [length app set_nth]; [reflexivity | rewrite IH; reflexivity]. Qed.

Lemma bits_eqb_refl : forall a, bits_eqb a a = true.
Proof. induction a as [|x a IH]; cbn [bits_eqb]; [reflexivity | rewrite IH, Bool.eqb_reflx; reflexivity]. Qed.
Lemma bits_eqb_eq : forall a b, bits_eqb a b = true -> a = b.
Proof.
  induction a as [|x a IH]; intros [|y b] H; cbn [bits_eqb] in H; try discriminate; [reflexivity|].
  apply andb_prop in H. destruct H as [H1 H2]. apply Bool.eqb_prop in H1. rewrite (IH _ H2), H1. reflexivity.
Qed.
Lemma bits_eqb_sym : forall a b, bits_eqb a b = bits_eqb b a.
Proof.
  induction a as [|x a IH]; intros [|y b]; cbn [bits_eqb]; try reflexivity.
  rewrite IH. destruct x, y; reflexivity.
Qed.
Lemma bits_eqb_snoc : forall p q b c, length p = length q ->
  bits_eqb (p ++ [b]) (q ++ [c]) = bits_eqb p q && Bool.eqb b c.
Proof.
  induction p as [|x p IH]; intros [|y q] b c H; cbn [length] in H; try discriminate.
  - cbn. rewrite andb_true_r. reflexivity.
  - cbn [app bits_eqb]. rewrite IH by lia. rewrite andb_assoc. reflexivity.
Qed.
Lemma firstn_S_snoc : forall (m : list bool) i, (i < length m)%nat -> firstn (S i) m = firstn i m ++ [nth i m false].
Proof.
  induction m as [|x m IH]; intros i H; cbn [length] in H; [lia|].
  destruct i as [|i]; [reflexivity|]. cbn [firstn nth app]. rewrite <- IH by lia. reflexivity.
Qed.
Lemma skipn_nth_cons : forall (m : list bool) i, (i < length m)%nat -> skipn i m = nth i m false :: skipn (S i) m.
Proof.
  induction m as [|x m IH]; intros i H; cbn [length] in H; [lia|].
  destruct i as [|i]; [reflexivity|]. cbn [skipn nth]. rewrite IH by lia. reflexivity.
Qed.

Lemma Qmult_eq0_l : forall x y, x == 0 -> x * y == 0.
Proof. intros x y H. rewrite H. ring. Qed.
Lemma Qsum_nil : Qsum [] = 0.
Proof. reflexivity. Qed.
Lemma Qsum_cons : forall x l, Qsum (x :: l) = x + Qsum l.
Proof. reflexivity. Qed.
Lemma Qprod_nil : Qprod [] = 1.
Proof. reflexivity. Qed.
Lemma Qprod_cons : forall x l, Qprod (x :: l) = x * Qprod l.
Proof. reflexivity. Qed.
Lemma Qsum_app : forall l1 l2, Qsum (l1 ++ l2) == Qsum l1 + Qsum l2.
Proof.
  induction l1 as [|x l1 IH]; intros l2; cbn [app].
  - rewrite Qsum_nil. ring.
  - rewrite !Qsum_cons, IH. ring.
Qed.
Lemma Qsum_map_ext_in : forall (A : Type) (F G : A -> Q) l, (forall x, In x l -> F x == G x) -> Qsum (map F l) == Qsum (map G l).
Proof.
  intros A F G l. induction l as [|x l IH]; intros H; cbn [map]; [reflexivity|].
  rewrite !Qsum_cons. rewrite IH by (intros; apply H; right; assumption).
  rewrite (H x) by (left; reflexivity). reflexivity.
Qed.
Lemma Qsum_map_ext : forall (A : Type) (F G : A -> Q) l, (forall x, F x == G x) -> Qsum (map F l) == Qsum (map G l).
Proof. intros. apply Qsum_map_ext_in. intros; auto. Qed.
Lemma Qsum_map_div : forall (A : Type) (F : A -> Q) c l, Qsum (map (fun x => F x / c) l) == Qsum (map F l) / c.
Proof.
  intros A F c l. induction l as [|x l IH]; cbn [map].
  - rewrite Qsum_nil. unfold Qdiv. ring.
  - rewrite !Qsum_cons, IH. unfold Qdiv. ring.
Qed.

Lemma all_bits_length : forall n m, In m (all_bits n) -> length m = n.
Proof.
  induction n as [|n IH]; intros m H; cbn [all_bits] in H.
  - destruct H as [H|[]]. subst. reflexivity.
  - apply in_app_or in H. destruct H as [H|H]; apply in_map_iff in H; destruct H as [r [E Hr]]; subst m; cbn [length]; rewrite (IH _ Hr); reflexivity.
Qed.

(* ------------------------------------------------------------------------------------------------ *)
(* A. marginals                                                                                      *)
(* ------------------------------------------------------------------------------------------------ *)
Lemma sum_rest_ext : forall k F G, (forall r, F r == G r) -> sum_rest k F == sum_rest k G.
Proof.
  induction k as [|k IH]; intros F G H; cbn [sum_rest]; [apply H|].
  rewrite (IH (fun r => F (false :: r)) (fun r => G (false :: r))) by (intros; apply H).
  rewrite (IH (fun r => F (true :: r)) (fun r => G (true :: r))) by (intros; apply H).
  reflexivity.
Qed.
Lemma sum_rest_nonneg : forall k F, (forall r, 0 <= F r) -> 0 <= sum_rest k F.
Proof.
  induction k as [|k IH]; intros F H; cbn [sum_rest]; [apply H|].
  pose proof (IH (fun r => F (false :: r)) (fun r => H _)). pose proof (IH (fun r => F (true :: r)) (fun r => H _)). lra.
Qed.
Lemma sum_rest_all_bits : forall k F, sum_rest k F == Qsum (map F (all_bits k)).
Proof.
  induction k as [|k IH]; intros F; cbn [sum_rest all_bits].
  - cbn [map]. rewrite Qsum_cons, Qsum_nil. ring.
  - rewrite map_app, Qsum_app, !map_map. rewrite <- !IH. reflexivity.
Qed.

Theorem marg_chain : forall T n p, (length p < n)%nat ->
  marg T n p == marg T n (p ++ [false]) + marg T n (p ++ [true]).
Proof.
  intros T n p H. unfold marg. rewrite !app_length. cbn [length].
  replace (n - length p)%nat with (S (n - (length p + 1)))%nat by lia.
  cbn [sum_rest].
  rewrite (sum_rest_ext _ (fun r => T (p ++ false :: r)) (fun r => T ((p ++ [false]) ++ r))) by (intros r; rewrite <- app_assoc; reflexivity).
  rewrite (sum_rest_ext _ (fun r => T (p ++ true :: r)) (fun r => T ((p ++ [true]) ++ r))) by (intros r; rewrite <- app_assoc; reflexivity).
  reflexivity.
Qed.
Lemma marg_full : forall T n m, length m = n -> marg T n m == T m.
Proof. intros T n m H. unfold marg. rewrite H, Nat.sub_diag. cbn [sum_rest]. rewrite app_nil_r. reflexivity. Qed.
Lemma marg_root : forall T n, marg T n [] == sum_rest n T.
Proof. intros T n. unfold marg. cbn [length app]. rewrite Nat.sub_0_r. apply sum_rest_ext. intros; reflexivity. Qed.
Lemma marg_nonneg : forall T n p, (forall x, 0 <= T x) -> 0 <= marg T n p.
Proof. intros T n p H. unfold marg. apply sum_rest_nonneg. intros; apply H. Qed.
Lemma marg_snoc_le : forall T n p b, (forall x, 0 <= T x) -> (length p < n)%nat -> marg T n (p ++ [b]) <= marg T n p.
Proof.
  intros T n p b H L. pose proof (marg_chain T n p L) as C.
  pose proof (marg_nonneg T n (p ++ [false]) H). pose proof (marg_nonneg T n (p ++ [true]) H).
  destruct b; lra.
Qed.
Lemma marg_prefix_le : forall T n p q, (forall x, 0 <= T x) -> (length (p ++ q) <= n)%nat -> marg T n (p ++ q) <= marg T n p.
Proof.
  intros T n p q H. induction q as [|b q IH] using rev_ind; intros L.
  - rewrite app_nil_r. lra.
  - rewrite app_assoc. rewrite !app_length in L. cbn [length] in L.
    eapply Qle_trans; [apply marg_snoc_le; [exact H | rewrite app_length; lia] | apply IH; rewrite app_length; lia].
Qed.
Theorem marg_bounds : forall T n p, (forall x, 0 <= T x) -> (length p <= n)%nat -> 0 <= marg T n p <= marg T n [].
Proof. intros T n p H L. split; [apply marg_nonneg; exact H | apply (marg_prefix_le T n [] p H); exact L]. Qed.
Theorem marg_pos : forall T n x, (forall y, 0 <= T y) -> length x = n -> 0 < T x -> 0 < marg T n [].
Proof.
  intros T n x H L P. pose proof (marg_bounds T n x H ltac:(lia)) as [_ B]. rewrite (marg_full T n x L) in B. lra.
Qed.
Theorem marg_total : forall T n, Qsum (map (marg T n) (all_bits n)) == marg T n [].
Proof.
  intros T n. rewrite marg_root, sum_rest_all_bits. apply Qsum_map_ext_in.
  intros m Hm. apply marg_full. apply all_bits_length. exact Hm.
Qed.
Lemma marg_scale : forall T T' c n p, (forall x, T' x == c * T x) -> marg T' n p == c * marg T n p.
Proof.
  intros T T' c n p H. unfold marg. generalize (n - length p)%nat as k. intros k. revert p.
  induction k as [|k IH]; intros p; cbn [sum_rest]; [apply H|].
  rewrite (sum_rest_ext _ (fun r => T' (p ++ false :: r)) (fun r => T' ((p ++ [false]) ++ r))) by (intros r; rewrite <- app_assoc; reflexivity).
  rewrite (sum_rest_ext _ (fun r => T' (p ++ true :: r)) (fun r => T' ((p ++ [true]) ++ r))) by (intros r; rewrite <- app_assoc; reflexivity).
  rewrite !IH.
  rewrite (sum_rest_ext _ (fun r => T (p ++ false :: r)) (fun r => T ((p ++ [false]) ++ r))) by (intros r; rewrite <- app_assoc; reflexivity).
  rewrite (sum_rest_ext _ (fun r => T (p ++ true :: r)) (fun r => T ((p ++ [true]) ++ r))) by (intros r; rewrite <- app_assoc; reflexivity).
  ring.
Qed.
Theorem marg_balance : forall T T' c n p, 0 < c -> (forall x, T' x == c * T x) ->
  marg T' n p / marg T' n [] == marg T n p / marg T n [].
Proof.
  intros T T' c n p Hc H. rewrite !(marg_scale T T' c) by exact H.
  destruct (Qeq_dec (marg T n []) 0) as [Hz|NZ].
  - rewrite Hz. unfold Qdiv. rewrite Qmult_0_r. setoid_replace (/ 0) with 0 by reflexivity. ring.
  - field. split; [exact NZ | lra].
Qed.

(* ------------------------------------------------------------------------------------------------ *)
(* B. _plug_outputs computes the marginal, with no stray power of sqrt2                               *)
(* ------------------------------------------------------------------------------------------------ *)
Lemma set_phases_X : forall ms x rest,
  set_phases (length ms) ms (repeat (PV true x) (length ms) ++ rest) = map (PV true) ms ++ rest.
Proof.
  induction ms as [|m ms IH]; intros x rest; cbn [length repeat app set_phases map hd tl pv_is_x].
  - destruct rest; reflexivity.
  - rewrite IH. reflexivity.
Qed.
Lemma plugged_vertices_shape : forall n k ms, (k <= n)%nat -> length ms = k ->
  plugged_vertices n k ms = map (PV true) ms ++ repeat (PV false false) (n - k).
Proof.
  intros n k ms Hk Hl. unfold plugged_vertices, plug_effect, plug_phase_count.
  rewrite map_app, !map_repeat'. cbn [vertex_of_effect]. subst k. apply set_phases_X.
Qed.
Lemma contract_ext : forall vs T T', (forall x, T x == T' x) -> contract vs T == contract vs T'.
Proof.
  induction vs as [|v vs IH]; intros T T' H; cbn [contract]; [apply H|].
  rewrite (IH (fun x => T (false :: x)) (fun x => T' (false :: x))) by (intros; apply H).
  rewrite (IH (fun x => T (true :: x)) (fun x => T' (true :: x))) by (intros; apply H).
  reflexivity.
Qed.
Lemma contract_X : forall ms rest T, contract (map (PV true) ms ++ rest) T == contract rest (fun r => T (ms ++ r)).
Proof.
  induction ms as [|m ms IH]; intros rest T; cbn [map app contract].
  - apply contract_ext. intros; reflexivity.
  - rewrite !IH. destruct m; cbn [leg pv_is_x pv_phase fst snd app]; ring.
Qed.
Lemma contract_Z : forall j T, contract (repeat (PV false false) j) T == sum_rest j T.
Proof.
  induction j as [|j IH]; intros T; cbn [repeat contract sum_rest]; [reflexivity|].
  rewrite !IH. cbn [leg pv_is_x pv_phase fst snd]. ring.
Qed.
Theorem plug_coeff_marg : forall T n k ms, (k <= n)%nat -> length ms = k -> plug_coeff T n k ms == marg T n ms.
Proof.
  intros T n k ms Hk Hl. unfold plug_coeff. rewrite (plugged_vertices_shape n k ms Hk Hl).
  rewrite contract_X, contract_Z. unfold marg. rewrite Hl. reflexivity.
Qed.
Lemma fold_add_app : forall l1 l2, fold_right Z.add 0%Z (l1 ++ l2) = (fold_right Z.add 0 l1 + fold_right Z.add 0 l2)%Z.
Proof. induction l1 as [|x l1 IH]; intros l2; cbn [app fold_right]; [reflexivity | rewrite IH; lia]. Qed.
Theorem plug_power_zero : forall n k ms, (k <= n)%nat -> length ms = k -> plug_power n k ms = 0%Z.
Proof.
  intros n k ms Hk Hl. unfold plug_power. rewrite (plugged_vertices_shape n k ms Hk Hl).
  rewrite map_app, fold_add_app, map_map, map_repeat'. cbn [leg_power pv_is_x].
  assert (A : forall l : list bool, fold_right Z.add 0%Z (map (fun _ : bool => (1 - 1)%Z) l) = 0%Z) by (induction l as [|m0 l IH]; cbn [map fold_right]; [reflexivity | rewrite IH; reflexivity]).
  assert (B : forall j, fold_right Z.add 0%Z (repeat (0 - 1)%Z j) = (- Z.of_nat j)%Z) by (induction j as [|j IH]; cbn [repeat fold_right]; [reflexivity | rewrite IH; lia]).
  cbn [leg_power pv_is_x] in A |- *. rewrite A, B. unfold plug_power_comp. lia.
Qed.
Theorem plug_effect_length : forall n k, (k <= n)%nat -> length (plug_effect n k) = n.
Proof. intros n k H. unfold plug_effect. rewrite app_length, !repeat_length. lia. Qed.
Theorem plug_correct : forall (T : tensor) n k ms, (k <= n)%nat -> length ms = k ->
  length (plug_effect n k) = n /\ plug_power n k ms = 0%Z /\ plug_coeff T n k ms == marg T n ms.
Proof.
  intros T n k ms Hk Hl. split; [exact (plug_effect_length n k Hk) | split; [exact (plug_power_zero n k ms Hk Hl) | exact (plug_coeff_marg T n k ms Hk Hl)]].
Qed.
Theorem power2_base_common : forall pw g g', power2_base_of pw g = power2_base_of pw g'.
Proof. intros. reflexivity. Qed.

(* ------------------------------------------------------------------------------------------------ *)
(* C. the weights the sampler sees                                                                   *)
(* ------------------------------------------------------------------------------------------------ *)
Lemma W_seq : forall (T : list bool -> tensor) nf n f p, (forall x, 0 <= T f x) -> length f = nf -> (length p <= n)%nat ->
  W T nf n true (length p) (f ++ p) == marg (T f) n p.
Proof.
  intros T nf n f p H Hf Hp. unfold W, outputs_to_plug.
  rewrite seq_nth by lia. cbn [plus]. subst nf. rewrite firstn_length_app, skipn_length_app.
  rewrite plug_coeff_marg by (lia || reflexivity). apply Qabs_pos. apply marg_nonneg. exact H.
Qed.
Lemma W_joint_norm : forall (T : list bool -> tensor) nf n f, (forall x, 0 <= T f x) -> length f = nf ->
  W T nf n false po_norm_graph (po_norm_params f) == marg (T f) n [].
Proof.
  intros T nf n f H Hf. unfold W, outputs_to_plug, po_norm_graph, po_norm_params. cbn [nth].
  subst nf. rewrite firstn_all, skipn_all.
  rewrite plug_coeff_marg by (lia || reflexivity). apply Qabs_pos. apply marg_nonneg. exact H.
Qed.
Lemma W_joint_full : forall (T : list bool -> tensor) nf n f st, (forall x, 0 <= T f x) -> length f = nf -> length st = n ->
  W T nf n false po_joint_graph (po_joint_params f st) == marg (T f) n st.
Proof.
  intros T nf n f st H Hf Hs. unfold W, outputs_to_plug, po_joint_graph, po_joint_params. cbn [nth].
  subst nf. rewrite firstn_length_app, skipn_length_app.
  rewrite plug_coeff_marg by (lia || assumption). apply Qabs_pos. apply marg_nonneg. exact H.
Qed.
Lemma W_nonneg : forall T nf n sq g ps, 0 <= W T nf n sq g ps.
Proof. intros. unfold W. apply Qabs_nonneg. Qed.

(* ------------------------------------------------------------------------------------------------ *)
(* D. the sampler loop over an abstract weight function obeying the chain rule                        *)
(* ------------------------------------------------------------------------------------------------ *)
Section Abstract.
  Variable Wc : nat -> list bool -> Q.
  Variable f : list bool.
  Variable n : nat.
  Hypothesis Hnn : forall g ps, 0 <= Wc g ps.
  Hypothesis Hchain : forall p, (length p < n)%nat ->
    Wc (length p) (f ++ p) == Wc (S (length p)) (f ++ p ++ [false]) + Wc (S (length p)) (f ++ p ++ [true]).

  Lemma loop_unfold : forall st p prev,
    sc_loop Wc f (S st) (length p) (p ++ repeat false (S st)) prev =
    let p1 := Wc (S (length p)) (f ++ p ++ [true]) in
    Flip (p1 / prev)
      (sc_loop Wc f st (length (p ++ [true])) ((p ++ [true]) ++ repeat false st) p1)
      (sc_loop Wc f st (length (p ++ [false])) ((p ++ [false]) ++ repeat false st) (prev - p1)).
  Proof.
    intros st p prev. cbn [sc_loop]. unfold sc_loop_graph, sc_params, sc_bern_p, sc_write_index, sc_update.
    rewrite firstn_length_app. cbn [repeat]. rewrite !set_nth_app. rewrite Nat.add_1_r.
    rewrite !app_length. cbn [length]. rewrite Nat.add_1_r. rewrite <- !app_assoc. reflexivity.
  Qed.

  Lemma chain_bounds : forall p, (length p < n)%nat ->
    0 <= Wc (S (length p)) (f ++ p ++ [true]) <= Wc (length p) (f ++ p).
  Proof. intros p L. pose proof (Hchain p L). pose proof (Hnn (S (length p)) (f ++ p ++ [true])). pose proof (Hnn (S (length p)) (f ++ p ++ [false])). lra. Qed.

  Lemma loop_mass : forall steps p prev m, (length p + steps = n)%nat -> length m = n -> prev == Wc (length p) (f ++ p) ->
    prev * mass (bits_eqb m) (sc_loop Wc f steps (length p) (p ++ repeat false steps) prev)
    == if bits_eqb p (firstn (length p) m) then Wc n (f ++ m) else 0.
  Proof.
    induction steps as [|st IH]; intros p prev m Hlen Hm Hprev.
    - cbn [sc_loop repeat mass]. rewrite app_nil_r. rewrite Nat.add_0_r in Hlen.
      rewrite Hlen, <- Hm, firstn_all. rewrite (bits_eqb_sym m p).
      destruct (bits_eqb p m) eqn:E; [|ring].
      apply bits_eqb_eq in E. subst m. rewrite Hprev, Hlen. ring.
    - rewrite loop_unfold. cbv zeta. cbn [mass].
      set (p1 := Wc (S (length p)) (f ++ p ++ [true])).
      assert (L : (length p < n)%nat) by lia.
      pose proof (chain_bounds p L) as [B1 B2]. fold p1 in B1, B2.
      pose proof (Hchain p L) as C. fold p1 in C.
      assert (Ha : p1 == Wc (length (p ++ [true])) (f ++ (p ++ [true]))) by (rewrite app_length; cbn [length]; rewrite Nat.add_1_r; reflexivity).
      assert (Hb : prev - p1 == Wc (length (p ++ [false])) (f ++ (p ++ [false]))) by (rewrite app_length; cbn [length]; rewrite Nat.add_1_r; rewrite Hprev, C; unfold p1; ring).
      pose proof (IH (p ++ [true]) p1 m ltac:(rewrite app_length; cbn [length]; lia) Hm Ha) as IHa.
      pose proof (IH (p ++ [false]) (prev - p1) m ltac:(rewrite app_length; cbn [length]; lia) Hm Hb) as IHb.
      rewrite app_length in IHa, IHb. cbn [length] in IHa, IHb. rewrite Nat.add_1_r in IHa, IHb.
      rewrite (firstn_S_snoc m (length p)) in IHa, IHb by lia.
      rewrite bits_eqb_snoc in IHa, IHb by (rewrite firstn_length; lia).
      rewrite !app_length. cbn [length]. rewrite !Nat.add_1_r.
      set (A := mass (bits_eqb m) (sc_loop Wc f st (S (length p)) ((p ++ [true]) ++ repeat false st) p1)) in *.
      set (B := mass (bits_eqb m) (sc_loop Wc f st (S (length p)) ((p ++ [false]) ++ repeat false st) (prev - p1))) in *.
      assert (Hp0 : 0 <= prev) by (rewrite Hprev; apply Hnn).
      destruct (Qeq_dec prev 0) as [Hz|NZ].
      + (* unreachable state: everything is 0 *)
        assert (Z1 : p1 == 0) by (rewrite Hprev in Hz; lra).
        assert (E : prev * (p1 / prev * A + (1 - p1 / prev) * B) == 0) by (rewrite Hz; ring).
        rewrite E. clear E.
        assert (Ea : (if bits_eqb p (firstn (length p) m) && Bool.eqb true (nth (length p) m false) then Wc n (f ++ m) else 0) == 0)
          by (rewrite <- IHa; apply Qmult_eq0_l; exact Z1).
        assert (Eb : (if bits_eqb p (firstn (length p) m) && Bool.eqb false (nth (length p) m false) then Wc n (f ++ m) else 0) == 0)
          by (rewrite <- IHb; apply Qmult_eq0_l; rewrite Hz, Z1; ring).
        destruct (bits_eqb p (firstn (length p) m)); [|reflexivity].
        destruct (nth (length p) m false); cbn [andb Bool.eqb] in Ea, Eb; [rewrite Ea | rewrite Eb]; reflexivity.
      + assert (E : prev * (p1 / prev * A + (1 - p1 / prev) * B) == p1 * A + (prev - p1) * B) by (field; exact NZ).
        rewrite E, IHa, IHb.
        destruct (bits_eqb p (firstn (length p) m)); destruct (nth (length p) m false); cbn [andb Bool.eqb]; ring.
  Qed.

  Lemma loop_conds : forall steps i prev m, (i + steps = n)%nat -> length m = n -> prev == Wc i (f ++ firstn i m) ->
    let t := sc_loop Wc f steps i (firstn i m ++ repeat false steps) prev in
    prev * Qprod (conds (skipn i m) t) == Wc n (f ++ m) /\ follow (skipn i m) t = Some m.
  Proof.
    induction steps as [|st IH]; intros i prev m Hlen Hm Hprev t; subst t.
    - rewrite Nat.add_0_r in Hlen. subst i. rewrite <- Hm. rewrite skipn_all, firstn_all.
      cbn [sc_loop repeat conds follow]. rewrite Qprod_nil. rewrite app_nil_r. split; [|reflexivity].
      rewrite Hprev, <- Hm, firstn_all. ring.
    - assert (Li : (i < length m)%nat) by lia.
      assert (Lf : length (firstn i m) = i) by (rewrite firstn_length; lia).
      pose proof (loop_unfold st (firstn i m) prev) as U. rewrite Lf in U. rewrite U. clear U. cbv zeta.
      rewrite (skipn_nth_cons m i Li). cbn [conds follow].
      set (p := firstn i m) in *.
      set (p1 := Wc (S i) (f ++ p ++ [true])).
      assert (L : (length p < n)%nat) by lia.
      pose proof (chain_bounds p L) as [B1 B2]. rewrite Lf in B1, B2. fold p1 in B1, B2.
      pose proof (Hchain p L) as C. rewrite Lf in C. fold p1 in C.
      assert (Hp0 : 0 <= prev) by (rewrite Hprev; apply Hnn).
      assert (Hsnoc : firstn (S i) m = p ++ [nth i m false]) by (apply firstn_S_snoc; exact Li).
      rewrite !app_length, Lf. cbn [length]. rewrite Nat.add_1_r.
      destruct (nth i m false) eqn:Bit.
      + assert (Ha : p1 == Wc (S i) (f ++ firstn (S i) m)) by (rewrite Hsnoc; reflexivity).
        destruct (IH (S i) p1 m ltac:(lia) Hm Ha) as [I1 I2]. rewrite Hsnoc in I1, I2.
        split; [|exact I2].
        rewrite Qprod_cons.
        set (P := Qprod _) in *.
        destruct (Qeq_dec prev 0) as [Hz|NZ].
        * assert (Z1 : p1 == 0) by (rewrite Hprev in Hz; lra). rewrite <- I1, Hz, Z1. ring.
        * rewrite <- I1. field. exact NZ.
      + assert (Hb : prev - p1 == Wc (S i) (f ++ firstn (S i) m)) by (rewrite Hsnoc, Hprev, C; unfold p1; ring).
        destruct (IH (S i) (prev - p1) m ltac:(lia) Hm Hb) as [I1 I2]. rewrite Hsnoc in I1, I2.
        split; [|exact I2].
        rewrite Qprod_cons.
        set (P := Qprod _) in *.
        destruct (Qeq_dec prev 0) as [Hz|NZ].
        * assert (Z1 : p1 == 0) by (rewrite Hprev in Hz; lra). rewrite <- I1, Hz, Z1. ring.
        * rewrite <- I1. field. exact NZ.
  Qed.

  Lemma loop_valid : forall steps p prev, (length p + steps = n)%nat -> 0 < prev -> prev == Wc (length p) (f ++ p) ->
    reach_valid (sc_loop Wc f steps (length p) (p ++ repeat false steps) prev).
  Proof.
    induction steps as [|st IH]; intros p prev Hlen Hpos Hprev; [exact I|].
    rewrite loop_unfold. cbv zeta. cbn [reach_valid].
    set (p1 := Wc (S (length p)) (f ++ p ++ [true])).
    assert (L : (length p < n)%nat) by lia.
    pose proof (chain_bounds p L) as [B1 B2]. fold p1 in B1, B2. rewrite <- Hprev in B2.
    pose proof (Hchain p L) as C. fold p1 in C.
    assert (Hdiv : p1 == (p1 / prev) * prev) by (field; lra).
    split; [|split].
    - split.
      + apply Qle_shift_div_l; [exact Hpos | lra].
      + apply Qle_shift_div_r; [exact Hpos | lra].
    - intros Hp. apply IH.
      + rewrite app_length; cbn [length]; lia.
      + rewrite Hdiv. apply Qmult_lt_0_compat; assumption.
      + rewrite app_length; cbn [length]; rewrite Nat.add_1_r; reflexivity.
    - intros Hp. apply IH.
      + rewrite app_length; cbn [length]; lia.
      + assert (X : p1 / prev * prev < 1 * prev) by (apply Qmult_lt_compat_r; assumption).
        rewrite <- Hdiv in X. lra.
      + rewrite app_length; cbn [length]; rewrite Nat.add_1_r. rewrite Hprev, C. unfold p1. ring.
  Qed.

  (* total weight of all completions *)
  Lemma W_total : forall k p, (length p + k = n)%nat ->
    Qsum (map (fun r => Wc n (f ++ p ++ r)) (all_bits k)) == Wc (length p) (f ++ p).
  Proof.
    induction k as [|k IH]; intros p Hlen.
    - cbn [all_bits map]. rewrite Qsum_cons, Qsum_nil. rewrite app_nil_r. rewrite Nat.add_0_r in Hlen. rewrite Hlen. ring.
    - cbn [all_bits]. rewrite map_app, Qsum_app, !map_map.
      rewrite (Qsum_map_ext _ (fun r => Wc n (f ++ p ++ false :: r)) (fun r => Wc n (f ++ (p ++ [false]) ++ r)))
        by (intros r; rewrite <- app_assoc; reflexivity).
      rewrite (Qsum_map_ext _ (fun r => Wc n (f ++ p ++ true :: r)) (fun r => Wc n (f ++ (p ++ [true]) ++ r)))
        by (intros r; rewrite <- app_assoc; reflexivity).
      rewrite !IH by (rewrite app_length; cbn [length]; lia).
      rewrite !app_length. cbn [length]. rewrite Nat.add_1_r. rewrite (Hchain p) by lia. reflexivity.
  Qed.

  Lemma plain_unfold : sample_component_plain Wc f (n + 1) = sc_loop Wc f n (length (@nil bool)) ([] ++ repeat false n) (Wc 0 f).
  Proof. unfold sample_component_plain, sc_num_outputs, sc_norm_graph, sc_norm_params. rewrite Nat.add_sub. reflexivity. Qed.

  Theorem sampler_abstract : forall k, 0 < Wc 0%nat f ->
    let t := sample_component Wc f (n + 1) k in
    reach_valid t /\
    (forall m, length m = n ->
       mass (bits_eqb m) t == Wc n (f ++ m) / Wc 0%nat f /\
       Qprod (conds m t) == Wc n (f ++ m) / Wc 0%nat f /\
       follow m t = Some m) /\
    Qsum (map (fun m => mass (bits_eqb m) t) (all_bits n)) == 1.
  Proof.
    intros k Hpos t.
    assert (Et : t = sc_loop Wc f n (length (@nil bool)) ([] ++ repeat false n) (Wc 0%nat f)).
    { subst t. unfold sample_component, py_dispatch, py_sample_component_jit. match goal with |- context [if ?c then _ else _] => destruct c end; apply plain_unfold. }
    assert (H0 : Wc 0%nat f == Wc (length (@nil bool)) (f ++ [])) by (rewrite app_nil_r; reflexivity).
    assert (Hm : forall m, length m = n -> mass (bits_eqb m) t == Wc n (f ++ m) / Wc 0%nat f).
    { intros m Lm. pose proof (loop_mass n [] (Wc 0%nat f) m ltac:(reflexivity) Lm H0) as M.
      cbn [length firstn bits_eqb] in M. rewrite Et. cbn [length]. rewrite <- M. field. lra. }
    split; [|split].
    - rewrite Et. apply loop_valid; [reflexivity | exact Hpos | exact H0].
    - intros m Lm. split; [apply Hm; exact Lm|].
      pose proof (loop_conds n 0%nat (Wc 0%nat f) m ltac:(reflexivity) Lm) as Cn.
      cbn [firstn skipn] in Cn. specialize (Cn H0). cbv zeta in Cn. destruct Cn as [C1 C2].
      rewrite Et. cbn [length]. split; [|exact C2]. rewrite <- C1. field. lra.
    - rewrite (Qsum_map_ext_in _ _ (fun m => Wc n (f ++ m) / Wc 0%nat f)) by (intros m Hin; apply Hm; apply all_bits_length; exact Hin).
      rewrite Qsum_map_div.
      pose proof (W_total n [] ltac:(reflexivity)) as Tt. cbn [app length] in Tt. rewrite Tt.
      rewrite app_nil_r. field. lra.
  Qed.
End Abstract.

(* ------------------------------------------------------------------------------------------------ *)
(* E. instantiation with the plugged weights of an arbitrary non-negative tensor                     *)
(* ------------------------------------------------------------------------------------------------ *)
Theorem sampler_correct : forall (T : list bool -> tensor) nf n f k,
  (forall x, 0 <= T f x) -> length f = nf -> 0 < marg (T f) n [] ->
  let t := sample_component (W T nf n true) f (n + 1) k in
  reach_valid t /\
  (forall m, length m = n ->
     mass (bits_eqb m) t == marg (T f) n m / marg (T f) n [] /\
     Qprod (conds m t) == marg (T f) n m / marg (T f) n [] /\
     follow m t = Some m) /\
  Qsum (map (fun m => mass (bits_eqb m) t) (all_bits n)) == 1.
Proof.
  intros T nf n f k H Hf Hpos t.
  assert (W0 : W T nf n true 0 f == marg (T f) n []).
  { pose proof (W_seq T nf n f [] H Hf ltac:(cbn; lia)) as E. cbn [length] in E. rewrite app_nil_r in E. exact E. }
  assert (Hchain : forall p, (length p < n)%nat ->
    W T nf n true (length p) (f ++ p) == W T nf n true (S (length p)) (f ++ p ++ [false]) + W T nf n true (S (length p)) (f ++ p ++ [true])).
  { intros p L. rewrite (W_seq T nf n f p H Hf) by lia.
    pose proof (W_seq T nf n f (p ++ [false]) H Hf ltac:(rewrite app_length; cbn [length]; lia)) as E0.
    pose proof (W_seq T nf n f (p ++ [true]) H Hf ltac:(rewrite app_length; cbn [length]; lia)) as E1.
    rewrite app_length in E0, E1. cbn [length] in E0, E1. rewrite Nat.add_1_r in E0, E1.
    rewrite E0, E1. apply marg_chain. exact L. }
  pose proof (sampler_abstract (W T nf n true) f n (W_nonneg T nf n true) Hchain k ltac:(rewrite W0; exact Hpos)) as [V [M S1]].
  fold t in V, M, S1.
  split; [exact V | split; [|exact S1]].
  intros m Lm. destruct (M m Lm) as [M1 [M2 M3]].
  assert (Wn : W T nf n true n (f ++ m) == marg (T f) n m).
  { pose proof (W_seq T nf n f m H Hf ltac:(lia)) as E. rewrite Lm in E. exact E. }
  rewrite Wn, W0 in M1, M2. split; [exact M1 | split; [exact M2 | exact M3]].
Qed.

Theorem dispatch_same : forall Wc f ng k,
  sample_component Wc f ng k = sample_component_plain Wc f ng /\
  sample_component_jit Wc f ng = sample_component_plain Wc f ng.
Proof.
  intros Wc f ng k. unfold sample_component, sample_component_jit, py_dispatch, py_sample_component_jit.
  split; [match goal with |- context [if ?c then _ else _] => destruct c end; reflexivity | reflexivity].
Qed.

(* ------------------------------------------------------------------------------------------------ *)
(* F. joint mode                                                                                     *)
(* ------------------------------------------------------------------------------------------------ *)
(* per component: tensor family, number of selected f-parameters, number of outputs, f row, state bits *)
Definition jcomp := ((list bool -> tensor) * nat * nat * list bool * list bool)%type.
Definition jcomp_ok (c : jcomp) : Prop :=
  let '(T, nf, n, f, st) := c in (forall x, 0 <= T f x) /\ length f = nf /\ length st = n /\ 0 < marg (T f) n [].
Definition jcomp_po (c : jcomp) : po_comp := let '(T, nf, n, f, st) := c in (W T nf n false, f, st).
Definition jcomp_ratio (c : jcomp) : Q := let '(T, nf, n, f, st) := c in marg (T f) n st / marg (T f) n [].
Definition jcomp_seq_mass (c : jcomp) : Q :=
  let '(T, nf, n, f, st) := c in mass (bits_eqb st) (sample_component (W T nf n true) f (n + 1) n).

Theorem joint_correct : forall comps : list jcomp, Forall jcomp_ok comps ->
  probability_of (map jcomp_po comps) == Qprod (map jcomp_ratio comps) /\
  probability_of (map jcomp_po comps) == Qprod (map jcomp_seq_mass comps).
Proof.
  intros comps Hok.
  assert (A : probability_of (map jcomp_po comps) == Qprod (map jcomp_ratio comps)).
  { unfold probability_of, po_result. rewrite !map_map.
    induction Hok as [|c comps Hc Hok IH]; cbn [map].
    - rewrite !Qprod_nil. field.
    - rewrite !Qprod_cons. rewrite <- IH. clear IH.
      destruct c as [[[[T nf] n] f] st]. cbn [jcomp_po jcomp_ratio]. destruct Hc as [H [Hf [Hs Hp]]].
      rewrite (W_joint_norm T nf n f H Hf), (W_joint_full T nf n f st H Hf Hs).
      set (N := Qprod _). set (D := Qprod _).
      destruct (Qeq_dec D 0) as [Hz|NZ].
      + assert (E1 : marg (T f) n [] * D == 0) by (rewrite Hz; ring).
        unfold Qdiv. rewrite E1, Hz. change (/ 0) with 0. ring.
      + field. split; [exact NZ | lra]. }
  split; [exact A|]. rewrite A. clear A.
  induction Hok as [|c comps Hc Hok IH]; cbn [map]; [reflexivity|].
  rewrite !Qprod_cons. rewrite IH.
  destruct c as [[[[T nf] n] f] st]. cbn [jcomp_ratio jcomp_seq_mass]. destruct Hc as [H [Hf [Hs Hp]]].
  destruct (sampler_correct T nf n f n H Hf Hp) as [_ [M _]]. destruct (M st Hs) as [M1 _]. rewrite M1. reflexivity.
Qed.

(* ------------------------------------------------------------------------------------------------ *)
(* G. sample_program's column reordering                                                            *)
(* ------------------------------------------------------------------------------------------------ *)
Theorem sample_program_reorder : forall (A : Type) (d : A) (blocks : list (list nat)) (results : list (list A)) (n : nat),
  Permutation (concat blocks) (seq 0 n) ->
  map (@length A) results = map (@length nat) blocks ->
  length (sample_program_row d blocks results) = n /\
  forall c k, (k < length (nth c blocks []))%nat ->
    let j := nth k (nth c blocks []) 0%nat in
    (j < n)%nat /\ nth j (sample_program_row d blocks results) d = nth k (nth c results []) d.
Proof.
  intros A d blocks results n HP Hs. unfold sample_program_row, sp_result. split.
  - rewrite map_length, argsort_length. rewrite (Permutation_length HP). apply seq_length.
  - intros c k Hk. exact (reorder_correct A d blocks results n HP Hs c k Hk).
Qed.
